/-
  Scc.X86.RefHeapBridge — from block executions (`execFwd`, blocks with forward local labels: the code of
  the memory operations) to steps of the machine on a loaded item list (`Loaded`, RefBridge.lean: up to the
  text of comments) whose labels are pairwise distinct.
-/
import Scc.X86.RefStep

set_option linter.unusedVariables false
set_option linter.unusedSimpArgs false

namespace Scc.X86.Ref

open Scc.AxCut Scc.Backend Scc.X86

theorem stripC_eq_lab {code : Code} {l : String} (h : stripC code = .LAB l) : code = .LAB l := by
  cases code <;> first | (simp [stripC] at h; done) | (simp [stripC] at h; rw [h])

/-- `skipTo` up to the text of comments -/
theorem skipTo_strip (l : String) : ∀ (a b : List Code), a.map stripC = b.map stripC →
    (skipTo l a = none ∧ skipTo l b = none) ∨
    ∃ ra rb, skipTo l a = some ra ∧ skipTo l b = some rb ∧ ra.map stripC = rb.map stripC
  | [], [], _ => Or.inl ⟨rfl, rfl⟩
  | [], _ :: _, h => by simp at h
  | _ :: _, [], h => by simp at h
  | x :: a, y :: b, h => by
    simp only [List.map_cons, List.cons.injEq] at h
    have ih := skipTo_strip l a b h.2
    by_cases hx : ∃ l', x = .LAB l'
    · obtain ⟨l', rfl⟩ := hx
      have hy : y = .LAB l' := stripC_eq_lab h.1.symm
      subst hy
      simp only [skipTo]
      by_cases e : l' = l
      · rw [if_pos e, if_pos e]
        exact Or.inr ⟨a, b, rfl, rfl, h.2⟩
      · rw [if_neg e, if_neg e]
        exact ih
    · have hy : ¬ ∃ l', y = .LAB l' := by
        rintro ⟨l', rfl⟩
        exact hx ⟨l', stripC_eq_lab h.1⟩
      have e1 : skipTo l (x :: a) = skipTo l a := by
        cases x <;> first | rfl | exact absurd ⟨_, rfl⟩ hx
      have e2 : skipTo l (y :: b) = skipTo l b := by
        cases y <;> first | rfl | exact absurd ⟨_, rfl⟩ hy
      rw [e1, e2]
      exact ih

/-- block execution does not read the text of comments -/
theorem execFwd_strip (c : MachCfg) (la : String → Option Nat) : ∀ (n : Nat) (a b : List Code) (s : State),
    a.length ≤ n → a.map stripC = b.map stripC → execFwd c la a s = execFwd c la b s := by
  intro n
  induction n with
  | zero =>
    intro a b s hn h
    have ha : a = [] := List.eq_nil_of_length_eq_zero (Nat.le_zero.mp hn)
    subst ha
    have hb : b = [] := by simpa using h.symm
    subst hb
    rfl
  | succ n ih =>
    intro a b s hn h
    match a, b, h with
    | [], [], _ => rfl
    | [], _ :: _, h => simp at h
    | _ :: _, [], h => simp at h
    | x :: a, y :: b, h =>
      simp only [List.map_cons, List.cons.injEq] at h
      have hlen : a.length ≤ n := by simpa using hn
      rw [execFwd_cons, execFwd_cons, ← execCode_strip c la x, h.1, execCode_strip]
      cases hex : execCode c la y s with
      | error e => rfl
      | ok r =>
        obtain ⟨s1, ctl⟩ := r
        cases ctl with
        | next => simp only [contFwd]; exact ih a b s1 hlen h.2
        | jumpAddr _ => rfl
        | callExt _ => rfl
        | ret => rfl
        | jumpLabel l =>
          simp only [contFwd]
          rcases skipTo_strip l a b h.2 with ⟨e1, e2⟩ | ⟨ra, rb, e1, e2, e3⟩
          · rw [e1, e2]
          · rw [e1, e2]
            have := skipTo_length e1
            exact ih ra rb s1 (by omega) e3

/-- with pairwise distinct labels, a label resolves to the item that defines it -/
theorem labIdx_of_nodup : ∀ {cs : List Code} {i : Nat} {l : String}, (labs cs).Nodup →
    cs[i]? = some (.LAB l) → labIdx cs l = some i := by
  intro cs i l hnd hi
  have hlt : i < cs.length := by
    rcases Nat.lt_or_ge i cs.length with h | h
    · exact h
    · rw [List.getElem?_eq_none h] at hi; cases hi
  have hsplit : cs = cs.take i ++ Code.LAB l :: cs.drop (i + 1) := by
    have h1 : cs.drop i = cs[i] :: cs.drop (i + 1) := List.drop_eq_getElem_cons hlt
    have h2 : cs[i] = Code.LAB l := by
      rw [List.getElem?_eq_getElem hlt] at hi; exact Option.some.inj hi
    conv => lhs; rw [← List.take_append_drop i cs, h1, h2]
  have hnot : l ∉ labs (cs.take i) := by
    rw [hsplit, labs_append] at hnd
    have := (List.nodup_append.1 hnd).2.2
    intro hm
    exact this l hm l (by simp [labs, codeLabelDef]) rfl
  have := labIdx_append_of_not_mem (cs.take i) (cs.drop (i + 1)) l hnot
  rw [← hsplit] at this
  rw [this]
  simp [Nat.min_eq_left (Nat.le_of_lt hlt)]

/-- THE BRIDGE for a block inside a loaded item list with pairwise distinct labels -/
theorem steps_fwd_at (m : MonCfg) {p : Prog} {cs cs1 blk rest : List Code} (L : Loaded p cs)
    (hnd : (labs cs).Nodup) (hcs : cs = cs1 ++ blk ++ rest) {s s' : State} (hpc : s.pc = cs1.length)
    (hx : execFwd m.mach p.labelAddr blk s = .ok (s', .next)) :
    ∃ k steps', stepN m p k s = .inl (setPS s' (cs1.length + blk.length) steps') := by
  obtain ⟨h1, h2, h3⟩ := L.segment hcs
  have hb : BlockAt p cs1.length (seg p cs1.length blk.length) := by
    refine ⟨h1, ?_⟩
    intro j l hj
    have hjlt : j < blk.length := by
      rcases Nat.lt_or_ge j (seg p cs1.length blk.length).length with h | h
      · rw [h3] at h; exact h
      · rw [List.getElem?_eq_none h] at hj; cases hj
    have hblk : blk[j]? = some (.LAB l) := by
      have := congrArg (fun x => x[j]?) h2
      simp only [List.getElem?_map, hj, Option.map_some] at this
      rw [List.getElem?_eq_getElem hjlt] at this ⊢
      simp only [Option.map_some, Option.some.injEq] at this
      rw [stripC_eq_lab this.symm]
    have hcsj : cs[cs1.length + j]? = some (.LAB l) := by
      rw [hcs, List.append_assoc, List.getElem?_append_right (by omega)]
      simp only [Nat.add_sub_cancel_left]
      rw [List.getElem?_append_left hjlt]
      exact hblk
    rw [L.labels]
    exact labIdx_of_nodup hnd hcsj
  have hx' : execFwd m.mach p.labelAddr (seg p cs1.length blk.length) s = .ok (s', .next) := by
    rw [execFwd_strip _ _ _ _ _ _ (Nat.le_refl _) h2]; exact hx
  have := steps_fwd m p cs1.length _ hb (seg p cs1.length blk.length).length 0 s s' (by omega) (by omega)
    (by rw [hpc]; rfl) (by simpa using hx')
  rw [h3] at this
  exact this


/-! ## code at an index of the loaded item list -/

/-- the item list `cs` holds `items` from index `pc` on -/
def XAt (cs : List Code) (pc : Nat) (items : List Code) : Prop :=
  ∃ cs1 rest, cs = cs1 ++ items ++ rest ∧ cs1.length = pc

theorem XAt.left {cs : List Code} {pc : Nat} {a b : List Code} (h : XAt cs pc (a ++ b)) : XAt cs pc a := by
  obtain ⟨cs1, rest, e, hl⟩ := h
  exact ⟨cs1, b ++ rest, by rw [e]; simp, hl⟩

theorem XAt.right {cs : List Code} {pc : Nat} {a b : List Code} (h : XAt cs pc (a ++ b)) :
    XAt cs (pc + a.length) b := by
  obtain ⟨cs1, rest, e, hl⟩ := h
  exact ⟨cs1 ++ a, rest, by rw [e]; simp, by simp [hl]⟩

theorem XAt.tail {cs : List Code} {pc : Nat} {a : Code} {b : List Code} (h : XAt cs pc (a :: b)) :
    XAt cs (pc + 1) b := XAt.right (a := [a]) h

section Steps

variable (m : MonCfg) {p : Prog} {cs : List Code} (L : Loaded p cs)

include L in
/-- straight-line items at the program counter -/
theorem x_steps_straight {blk : List Code} {s s' : State} (hat : XAt cs s.pc blk)
    (hx : execStraight m.mach p.labelAddr blk s = .ok s') :
    ∃ k, stepN m p blk.length s = .inl (setPS s' (s.pc + blk.length) k) := by
  obtain ⟨cs1, rest, e, hl⟩ := hat
  have := steps_block m L e hl.symm hx
  rw [hl] at this
  exact this

include L in
/-- a block with forward local labels at the program counter -/
theorem x_steps_fwd (hnd : (labs cs).Nodup) {blk : List Code} {s s' : State} (hat : XAt cs s.pc blk)
    (hx : execFwd m.mach p.labelAddr blk s = .ok (s', .next)) :
    ∃ k steps', stepN m p k s = .inl (setPS s' (s.pc + blk.length) steps') := by
  obtain ⟨cs1, rest, e, hl⟩ := hat
  have := steps_fwd_at m L hnd e hl.symm hx
  rw [hl] at this
  exact this

end Steps

/-- comments do nothing -/
theorem execStraight_comments (c : MachCfg) (la : String → Option Nat) : ∀ (l : List Code) (s : State),
    (∀ x ∈ l, ∃ m, x = Code.COMMENT m) → execStraight c la l s = .ok s
  | [], _, _ => rfl
  | x :: l, s, h => by
    obtain ⟨m, rfl⟩ := h x (by simp)
    simp only [execStraight, execCode]
    exact execStraight_comments c la l s (fun y hy => h y (by simp [hy]))

theorem stepN_trans (m : MonCfg) (p : Prog) {a b : Nat} {s s1 s2 : State}
    (h1 : stepN m p a s = .inl s1) (h2 : stepN m p b s1 = .inl s2) : stepN m p (a + b) s = .inl s2 := by
  rw [stepN_add m p a b s s1 h1]; exact h2

end Scc.X86.Ref
