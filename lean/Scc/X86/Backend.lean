/-
  Scc.X86.Backend — the x86-64 backend crate /repo/lang/axcut2x86_64 as an instance
  `x86Backend : Scc.Backend.Backend Code Temporary` of the backend interface record.
  Modelled source (function by function, same order of pushes and of fresh-label draws):
    src/config.rs        constants (through Scc.X86.Consts), stack_offset, address, field_offset, arg,
                         impl Config
    src/code.rs          move_from_register … compare_immediate, caller_save_registers_info,
                         save/restore_caller_save_registers, impl Instructions
    src/memory.rs        skip_if_zero, if_zero_then_else, acquire_block (erase_fields), release_block,
                         store_zero(s), store/load_field, store/load_value(s), store/load_fields,
                         impl Memory (erase_block, share_block_n, store, load)
    src/utils.rs         temporary_from_position, impl Utils
    src/parallel_moves.rs spill_edge_spill, spill_edge_register, impl ParallelMoves
    src/into_routine.rs  preamble, move_arguments, setup, cleanup, into_x86_64_routine
  The instruction type and its printer (`Print for Code`) are in Scc.X86.Instr.
  Core imports only; executable.  Rust panics are `throw`s in `GenM` / `Except String`.
-/
import Scc.Backend.Generic
import Scc.X86.Instr
import Scc.X86.Consts

namespace Scc.X86

open Scc.AxCut
open Scc.Backend (GenM TempNum freshLabel Tree Root)

/-! ## config.rs -/

def REGISTER_NUM : Nat := consts.registerNum
def RESERVED : Nat := consts.reserved
def STACK : Reg := consts.stack
def TEMP : Reg := consts.temp
def HEAP : Reg := consts.heap
def FREE : Reg := consts.free
def RETURN1 : Reg := consts.return1
def RETURN2 : Reg := consts.return2
def SPILL_NUM : Nat := consts.spillNum
/-- config.rs: SPILL_SPACE = SPILL_NUM * 8 -/
def SPILL_SPACE : Int := (consts.spillNum : Int) * 8
def RESERVED_SPILLS : Nat := consts.reservedSpills
def SPILL_TEMP : Nat := consts.spillTemp
def TEMPORARY_TEMP : Reg := consts.temporaryTemp
def FIELD_SLOT_SIZE : Nat := consts.fieldSlotSize
def FIELDS_PER_BLOCK : Nat := consts.fieldsPerBlock
def CALLER_SAVE_FIRST : Nat := consts.callerSaveFirst
def CALLER_SAVE_LAST : Nat := consts.callerSaveLast

/-- config.rs: const fn stack_offset -/
def stackOffset (position : Nat) : Int := SPILL_SPACE - 8 * ((position : Int) + 1)

/-- config.rs: const fn address -/
def address (n : Int) : Int := (FIELD_SLOT_SIZE : Int) * n

/-- config.rs: REFERENCE_COUNT_OFFSET / NEXT_ELEMENT_OFFSET -/
def REFERENCE_COUNT_OFFSET : Int := address 0
def NEXT_ELEMENT_OFFSET : Int := address 0

/-- config.rs: const fn field_offset -/
def fieldOffset (number : TempNum) (i : Nat) : Int := address (2 + 2 * (i : Int) + (number.toNat : Int))

/-- config.rs: const fn arg (panics beyond 5) -/
def arg (number : Nat) : Except String Reg :=
  match consts.argRegs[number]? with
  | some r => .ok r
  | none => .error "function calls can use 6 argument registers at most"

/-- config.rs: impl Config: jump_length -/
def jumpLength (n : Nat) : Int := (consts.jumpLengthFactor : Int) * (n : Int)

/-! ## code.rs -/

/-- code.rs: fn move_from_register -/
def moveFromRegister (temporary : Temporary) (register : Reg) : List Code :=
  match temporary with
  | .reg targetRegister => [.MOV targetRegister register]
  | .spill targetPosition => [.MOVS register STACK (stackOffset targetPosition)]

/-- code.rs: fn move_to_register -/
def moveToRegister (register : Reg) (temporary : Temporary) : List Code :=
  match temporary with
  | .reg sourceRegister => [.MOV register sourceRegister]
  | .spill sourcePosition => [.MOVL register STACK (stackOffset sourcePosition)]

/-- code.rs: fn add_to_register -/
def addToRegister (register : Reg) (temporary : Temporary) : List Code :=
  match temporary with
  | .reg sourceRegister => [.ADD register sourceRegister]
  | .spill sourcePosition => [.ADDRM register STACK (stackOffset sourcePosition)]

/-- code.rs: fn add_to_spill -/
def addToSpill (position : Nat) (temporary : Temporary) : List Code :=
  match temporary with
  | .reg sourceRegister => [.ADDMR STACK (stackOffset position) sourceRegister]
  | .spill sourcePosition =>
    [.MOVL TEMP STACK (stackOffset sourcePosition), .ADDMR STACK (stackOffset position) TEMP]

/-- code.rs: fn mul_to_register -/
def mulToRegister (register : Reg) (temporary : Temporary) : List Code :=
  match temporary with
  | .reg sourceRegister => [.IMUL register sourceRegister]
  | .spill sourcePosition => [.IMULRM register STACK (stackOffset sourcePosition)]

/-- code.rs: fn mul_to_spill -/
def mulToSpill (position : Nat) (temporary : Temporary) : List Code :=
  match temporary with
  | .reg sourceRegister => [.IMULMR STACK (stackOffset position) sourceRegister]
  | .spill sourcePosition =>
    [.MOVL TEMP STACK (stackOffset sourcePosition), .IMULMR STACK (stackOffset position) TEMP]

/-- code.rs: fn op_commutative -/
def opCommutative (opToRegister : Reg → Temporary → List Code) (opToSpill : Nat → Temporary → List Code)
    (targetTemporary sourceTemporary1 sourceTemporary2 : Temporary) : List Code :=
  match targetTemporary with
  | .reg targetRegister =>
    if targetTemporary = sourceTemporary1 then opToRegister targetRegister sourceTemporary2
    else if targetTemporary = sourceTemporary2 then opToRegister targetRegister sourceTemporary1
    else moveToRegister targetRegister sourceTemporary1 ++ opToRegister targetRegister sourceTemporary2
  | .spill targetPosition =>
    if targetTemporary = sourceTemporary1 then opToSpill targetPosition sourceTemporary2
    else if targetTemporary = sourceTemporary2 then opToSpill targetPosition sourceTemporary1
    else moveToRegister TEMP sourceTemporary1 ++ opToRegister TEMP sourceTemporary2 ++
      [.MOVS TEMP STACK (stackOffset targetPosition)]

/-- code.rs: fn sub_to_register -/
def subToRegister (register : Reg) (temporary : Temporary) : List Code :=
  match temporary with
  | .reg sourceRegister => [.SUB register sourceRegister]
  | .spill sourcePosition => [.SUBRM register STACK (stackOffset sourcePosition)]

/-- code.rs: fn sub_to_spill -/
def subToSpill (position : Nat) (temporary : Temporary) : List Code :=
  match temporary with
  | .reg sourceRegister => [.SUBMR STACK (stackOffset position) sourceRegister]
  | .spill sourcePosition =>
    [.MOVL TEMP STACK (stackOffset sourcePosition), .SUBMR STACK (stackOffset position) TEMP]

/-- code.rs: fn sub -/
def sub (targetTemporary sourceTemporary1 sourceTemporary2 : Temporary) : List Code :=
  match targetTemporary with
  | .reg targetRegister =>
    if targetTemporary = sourceTemporary1 then subToRegister targetRegister sourceTemporary2
    else if targetTemporary = sourceTemporary2 then
      moveToRegister TEMP sourceTemporary1 ++ subToRegister TEMP sourceTemporary2 ++
        [.MOV targetRegister TEMP]
    else moveToRegister targetRegister sourceTemporary1 ++ subToRegister targetRegister sourceTemporary2
  | .spill targetPosition =>
    if targetTemporary = sourceTemporary1 then subToSpill targetPosition sourceTemporary2
    else moveToRegister TEMP sourceTemporary1 ++ subToRegister TEMP sourceTemporary2 ++
      [.MOVS TEMP STACK (stackOffset targetPosition)]

/-- code.rs: fn div (the helper: divide RETURN1 by `divisor`) -/
def divBy (divisor : Temporary) : List Code :=
  match divisor with
  | .reg register =>
    if register = RETURN2 then [.CQO, .IDIV TEMP] else [.CQO, .IDIV register]
  | .spill position => [.CQO, .IDIVM STACK (stackOffset position)]

/-- code.rs: fn compare -/
def compare (fst snd : Temporary) : List Code :=
  match fst, snd with
  | .reg registerFst, .reg registerSnd => [.CMP registerFst registerSnd]
  | .reg registerFst, .spill positionSnd => [.CMPRM registerFst STACK (stackOffset positionSnd)]
  | .spill positionFst, .reg registerSnd => [.CMPMR STACK (stackOffset positionFst) registerSnd]
  | .spill positionFst, .spill positionSnd =>
    [.MOVL TEMP STACK (stackOffset positionFst), .CMPRM TEMP STACK (stackOffset positionSnd)]

/-- code.rs: pub fn compare_immediate -/
def compareImmediate (temporary : Temporary) (immediate : Int) : List Code :=
  match temporary with
  | .reg register => [.CMPI register immediate]
  | .spill position => [.CMPIM STACK (stackOffset position) immediate]

/-- code.rs: fn caller_save_registers_info (only the chiralities of the context matter) -/
def callerSaveRegistersInfo (context : Ctx) : Nat × List Nat :=
  let firstBackupRegister := max (2 * context.length + RESERVED) (CALLER_SAVE_LAST + 1)
  let callerSaveCount := CALLER_SAVE_LAST + 1 - CALLER_SAVE_FIRST
  let registersToSave := ((context.take (callerSaveCount / 2)).zipIdx.map
    (fun (bo : Binding × Nat) =>
      if bo.1.chi == .ext then [CALLER_SAVE_FIRST + 2 * bo.2 + 1]
      else [CALLER_SAVE_FIRST + 2 * bo.2, CALLER_SAVE_FIRST + 2 * bo.2 + 1])).flatten
  (firstBackupRegister, registersToSave)

/-- number of registers evacuated into free registers -/
def backupRegistersUsed (firstBackupRegister : Nat) (registersToSave : List Nat) : Nat :=
  min registersToSave.length (REGISTER_NUM - firstBackupRegister)

/-- code.rs: fn save_caller_save_registers -/
def saveCallerSaveRegisters (firstBackupRegister : Nat) (registersToSave : List Nat) : List Code :=
  let registersToSaveCount := registersToSave.length
  let used := backupRegistersUsed firstBackupRegister registersToSave
  ((registersToSave.take used).zipIdx.map
      (fun (ro : Nat × Nat) => Code.MOV (firstBackupRegister + ro.2) ro.1)) ++
    ((registersToSave.drop used).map (fun register => Code.PUSH register)) ++
    (if (registersToSaveCount - used) % 2 = 0 then [.SUBI STACK (address 1)] else [])

/-- code.rs: fn restore_caller_save_registers -/
def restoreCallerSaveRegisters (firstBackupRegister : Nat) (registersToSave : List Nat) : List Code :=
  let registersToSaveCount := registersToSave.length
  let used := backupRegistersUsed firstBackupRegister registersToSave
  ((registersToSave.take used).zipIdx.map
      (fun (ro : Nat × Nat) => Code.MOV ro.1 (firstBackupRegister + ro.2))) ++
    (if (registersToSaveCount - used) % 2 = 0 then [.ADDI STACK (address 1)] else []) ++
    ((registersToSave.drop used).reverse.map (fun register => Code.POP register))

/-- code.rs: impl Instructions: jump -/
def jump (temporary : Temporary) : List Code :=
  match temporary with
  | .reg register => [.JMP register]
  | .spill position => [.MOVL TEMP STACK (stackOffset position), .JMP TEMP]

def condJump : IfSort → String → Code
  | .eq, name => .JEL name
  | .ne, name => .JNEL name
  | .lt, name => .JLL name
  | .le, name => .JLEL name
  | .gt, name => .JGL name
  | .ge, name => .JGEL name

/-- code.rs: jump_label_if_{equal,not_equal,less,less_or_equal,greater,greater_or_equal} -/
def jumpLabelIf (sort : IfSort) (fst snd : Temporary) (name : String) : List Code :=
  compare fst snd ++ [condJump sort name]

/-- code.rs: jump_label_if_{zero,…} -/
def jumpLabelIfZero (sort : IfSort) (temporary : Temporary) (name : String) : List Code :=
  compareImmediate temporary 0 ++ [condJump sort name]

/-- code.rs: load_immediate (as repaired by /repo commit 512f045, defect D5: a store of an immediate
    can only encode 32 bits, so a wider literal goes through the scratch register TEMP) -/
def loadImmediate (temporary : Temporary) (immediate : Int) : List Code :=
  match temporary with
  | .reg register => [.MOVI register immediate]
  | .spill position =>
    if fitsI32 immediate then [.MOVIM STACK (stackOffset position) immediate]
    else [.MOVI TEMP immediate, .MOVS TEMP STACK (stackOffset position)]

/-- code.rs: load_label -/
def loadLabel (temporary : Temporary) (name : String) : List Code :=
  match temporary with
  | .reg register => [.LEAL register name]
  | .spill position => [.LEAL TEMP name, .MOVS TEMP STACK (stackOffset position)]

/-- code.rs: add_and_jump -/
def addAndJump (temporary : Temporary) (immediate : Int) : List Code :=
  match temporary with
  | .reg register => [.ADDI register immediate, .JMP register]
  | .spill position => [.MOVL TEMP STACK (stackOffset position), .ADDI TEMP immediate, .JMP TEMP]

/-- code.rs: add -/
def add (t s1 s2 : Temporary) : List Code := opCommutative addToRegister addToSpill t s1 s2

/-- code.rs: mul -/
def mul (t s1 s2 : Temporary) : List Code := opCommutative mulToRegister mulToSpill t s1 s2

/-- code.rs: div -/
def div (targetTemporary sourceTemporary1 sourceTemporary2 : Temporary) : List Code :=
  [.MOV TEMP RETURN2] ++
  moveFromRegister targetTemporary RETURN1 ++
  moveToRegister RETURN1 sourceTemporary1 ++
  divBy sourceTemporary2 ++
  [.MOV RETURN2 RETURN1] ++
  moveToRegister RETURN1 targetTemporary ++
  moveFromRegister targetTemporary RETURN2 ++
  [.MOV RETURN2 TEMP]

/-- code.rs: rem -/
def rem (targetTemporary sourceTemporary1 sourceTemporary2 : Temporary) : List Code :=
  [.MOV TEMP RETURN2] ++
  moveFromRegister targetTemporary RETURN1 ++
  moveToRegister RETURN1 sourceTemporary1 ++
  divBy sourceTemporary2 ++
  moveToRegister RETURN1 targetTemporary ++
  moveFromRegister targetTemporary RETURN2 ++
  [.MOV RETURN2 TEMP]

def binop : BinOp → Temporary → Temporary → Temporary → List Code
  | .sum => add
  | .sub => sub
  | .prod => mul
  | .div => div
  | .rem => rem

/-- code.rs: mov -/
def mov (targetTemporary sourceTemporary : Temporary) : List Code :=
  match sourceTemporary with
  | .reg sourceRegister => moveFromRegister targetTemporary sourceRegister
  | .spill _ =>
    match targetTemporary with
    | .reg targetRegister => moveToRegister targetRegister sourceTemporary
    | .spill _ => moveToRegister TEMP sourceTemporary ++ moveFromRegister targetTemporary TEMP

/-- arg(0) of the current constants (total) -/
def ARG0 : Reg := consts.argRegs.headD 0

/-- code.rs: print_i64 -/
def printI64 (newline : Bool) (sourceTemporary : Temporary) (context : Ctx) : List Code :=
  let printFn := if newline then "println_i64" else "print_i64"
  let (firstBackupRegister, registersToSave) := callerSaveRegistersInfo context
  (match sourceTemporary with
   | .spill _ =>
     [Code.COMMENT "#move argument to TEMP before adapting the stack pointer"] ++
       moveToRegister TEMP sourceTemporary
   | .reg _ => []) ++
  [.COMMENT "#save caller-save registers"] ++
  saveCallerSaveRegisters firstBackupRegister registersToSave ++
  [.COMMENT "#move argument into place"] ++
  (match sourceTemporary with
   | .reg sourceRegister => [Code.MOV ARG0 sourceRegister]
   | .spill _ => [Code.MOV ARG0 TEMP]) ++
  [.CALL printFn, .COMMENT "#restore caller-save registers"] ++
  restoreCallerSaveRegisters firstBackupRegister registersToSave

/-! ## utils.rs -/

/-- utils.rs: fn temporary_from_position -/
def temporaryFromPosition (position : Nat) : Except String Temporary :=
  let registerNumber := position + RESERVED
  if registerNumber < REGISTER_NUM then .ok (.reg registerNumber)
  else
    let spillNumber := registerNumber - REGISTER_NUM + RESERVED_SPILLS
    if spillNumber < SPILL_NUM then .ok (.spill spillNumber) else .error "Out of temporaries"

def liftE {α : Type} (e : Except String α) : GenM α :=
  match e with
  | .ok a => pure a
  | .error m => throw m

/-- position of the first binding with the given id (`iter().position`) -/
def ctxPosition : Ctx → Nat → Nat → Option Nat
  | [], _, _ => none
  | b :: bs, variableId, i => if b.var.id == variableId then some i else ctxPosition bs variableId (i + 1)

/-- utils.rs: Utils::variable_temporary -/
def variableTemporary (number : TempNum) (context : Ctx) (variableId : Nat) : GenM Temporary :=
  match ctxPosition context variableId 0 with
  | some pos => liftE (temporaryFromPosition (2 * pos + number.toNat))
  | none => throw ("Variable " ++ toString variableId ++ " not found in context")

/-- utils.rs: Utils::fresh_temporary -/
def freshTemporary (number : TempNum) (context : Ctx) : GenM Temporary :=
  liftE (temporaryFromPosition (2 * context.length + number.toNat))

/-! ## memory.rs -/

def labName (n : Nat) : String := "lab" ++ toString n

/-- memory.rs: fn skip_if_zero -/
def skipIfZero (condition : Temporary) (toSkip : List Code) : GenM (List Code) := do
  let l ← freshLabel
  let fresh := labName l
  pure (compareImmediate condition 0 ++ [.JEL fresh] ++ toSkip ++ [.LAB fresh])

/-- memory.rs: fn if_zero_then_else -/
def ifZeroThenElse (condition : Reg) (offset : Option Int) (thenBranch elseBranch : List Code) :
    GenM (List Code) := do
  let l1 ← freshLabel
  let l2 ← freshLabel
  let freshThen := labName l1
  let freshElse := labName l2
  let cmp : Code := match offset with
    | some off => .CMPIM condition off 0
    | none => .CMPI condition 0
  pure ([cmp, .JEL freshThen] ++ elseBranch ++ [.JMPL freshElse, .LAB freshThen] ++ thenBranch ++
    [.LAB freshElse])

/-- memory.rs: erase_block: fn erase_valid_object -/
def eraseValidObject (toErase : Reg) : GenM (List Code) :=
  let thenBranch : List Code :=
    [.COMMENT "######... or add block to lazy free list",
     .MOVS FREE toErase NEXT_ELEMENT_OFFSET, .MOV FREE toErase]
  let elseBranch : List Code :=
    [.COMMENT "######either decrement refcount ...", .ADDIM toErase REFERENCE_COUNT_OFFSET (-1)]
  ifZeroThenElse toErase (some REFERENCE_COUNT_OFFSET) thenBranch elseBranch

/-- memory.rs: impl Memory: erase_block -/
def eraseBlock (toErase : Temporary) : GenM (List Code) := do
  let toSkip0 : List Code := [.COMMENT "######check refcount"]
  match toErase with
  | .reg toEraseRegister =>
    let c ← eraseValidObject toEraseRegister
    skipIfZero toErase (toSkip0 ++ c)
  | .spill toErasePosition =>
    let c ← eraseValidObject TEMP
    let r ← skipIfZero (.reg TEMP) (toSkip0 ++ c)
    pure ([.MOVL TEMP STACK (stackOffset toErasePosition)] ++ r)

/-- memory.rs: impl Memory: share_block_n -/
def shareBlockN (toShare : Temporary) (n : Nat) : GenM (List Code) :=
  let toSkip0 : List Code := [.COMMENT "####increment refcount"]
  match toShare with
  | .reg toShareRegister =>
    skipIfZero toShare (toSkip0 ++ [.ADDIM toShareRegister REFERENCE_COUNT_OFFSET (n : Int)])
  | .spill toSharePosition =>
    skipIfZero toShare (toSkip0 ++ [.MOVL TEMP STACK (stackOffset toSharePosition),
      .ADDIM TEMP REFERENCE_COUNT_OFFSET (n : Int)])

/-- axcut2backend memory.rs: Memory::share_block (default method) -/
def shareBlock (toShare : Temporary) : GenM (List Code) := shareBlockN toShare 1

/-- memory.rs: acquire_block: fn erase_fields -/
def eraseFields (toErase : Reg) : Nat → Nat → GenM (List Code)
  | 0, _ => pure []
  | n + 1, offset => do
    let c ← eraseBlock (.reg TEMP)
    let rest ← eraseFields toErase n (offset + 1)
    pure ([.COMMENT ("#####check child " ++ toString (offset + 1) ++ " for erasure"),
           .MOVL TEMP toErase (fieldOffset .fst offset)] ++ c ++ rest)

/-- memory.rs: fn acquire_block -/
def acquireBlock (newBlock : Temporary) : GenM (List Code) := do
  let head : List Code := match newBlock with
    | .reg newBlockRegister => [.MOV newBlockRegister HEAP]
    | .spill newBlockPosition => [.MOV TEMP HEAP, .MOVS HEAP STACK (stackOffset newBlockPosition)]
  let head := head ++ [.COMMENT "##get next free block into heap register",
    .COMMENT "###(1) check linear free list for next block", .MOVL HEAP HEAP NEXT_ELEMENT_OFFSET]
  let thenBranchFree : List Code :=
    [.COMMENT "###(3) fall back to bump allocation", .MOV FREE HEAP,
     .ADDI FREE (fieldOffset .fst FIELDS_PER_BLOCK)]
  let erased ← eraseFields HEAP FIELDS_PER_BLOCK 0
  let elseBranchFree : List Code :=
    [.COMMENT "####mark linear free list empty", .MOVIM HEAP NEXT_ELEMENT_OFFSET 0,
     .COMMENT "####erase children of next block"] ++ erased
  let inner ← ifZeroThenElse FREE none thenBranchFree elseBranchFree
  let thenBranch : List Code :=
    [.COMMENT "###(2) check non-linear lazy free list for next block", .MOV HEAP FREE,
     .MOVL FREE FREE NEXT_ELEMENT_OFFSET] ++ inner
  let elseBranch : List Code :=
    [.COMMENT "####initialize refcount of just acquired block",
     match newBlock with
     | .reg newBlockRegister => .MOVIM newBlockRegister REFERENCE_COUNT_OFFSET 0
     | .spill _ => .MOVIM TEMP REFERENCE_COUNT_OFFSET 0]
  let outer ← ifZeroThenElse HEAP none thenBranch elseBranch
  pure (head ++ outer)

/-- memory.rs: fn release_block -/
def releaseBlock (toRelease : Reg) : List Code :=
  [.MOVS HEAP toRelease NEXT_ELEMENT_OFFSET, .MOV HEAP toRelease]

/-- memory.rs: fn store_zero -/
def storeZero (memoryBlock : Reg) (offset : Nat) : List Code :=
  [.MOVIM memoryBlock (fieldOffset .fst offset) 0]

/-- memory.rs: fn store_zeros -/
def storeZeros (freeFields : Nat) (memoryBlock : Reg) : List Code :=
  ((List.range freeFields).map (fun offset => storeZero memoryBlock offset)).flatten

/-- memory.rs: fn store_field -/
def storeField (number : TempNum) (context : Ctx) (memoryBlock : Reg) (offset : Nat) :
    GenM (List Code) := do
  let t ← freshTemporary number context
  match t with
  | .reg register => pure [.MOVS register memoryBlock (fieldOffset number offset)]
  | .spill position =>
    pure [.MOVL TEMP STACK (stackOffset position), .MOVS TEMP memoryBlock (fieldOffset number offset)]

/-- memory.rs: fn load_field -/
def loadField (number : TempNum) (context : Ctx) (memoryBlock : Reg) (offset : Nat) :
    GenM (List Code) := do
  let t ← freshTemporary number context
  match t with
  | .reg register => pure [.MOVL register memoryBlock (fieldOffset number offset)]
  | .spill position =>
    pure [.MOVL TEMP memoryBlock (fieldOffset number offset), .MOVS TEMP STACK (stackOffset position)]

/-- memory.rs: fn store_value -/
def storeValue (toStore : Binding) (remainingContext : Ctx) (memoryBlock : Reg) (offset : Nat) :
    GenM (List Code) := do
  let c1 ← storeField .snd remainingContext memoryBlock offset
  if toStore.chi == .ext then
    pure (c1 ++ storeZero memoryBlock offset)
  else
    let c2 ← storeField .fst remainingContext memoryBlock offset
    pure (c1 ++ c2)

/-- memory.rs: enum LoadMode -/
inductive LoadMode where
  | release | share
  deriving DecidableEq, Repr

/-- memory.rs: fn load_value -/
def loadValue (toLoad : Binding) (existingContext : Ctx) (memoryBlock : Reg) (offset : Nat)
    (loadMode : LoadMode) : GenM (List Code) := do
  let c1 ← loadField .snd existingContext memoryBlock offset
  if toLoad.chi != .ext then
    let c2 ← loadField .fst existingContext memoryBlock offset
    let t ← freshTemporary .fst existingContext
    let registerToShare : Reg := match t with
      | .reg register => register
      | .spill _ => TEMP
    if loadMode = .share then
      let c3 ← shareBlock (.reg registerToShare)
      pure (c1 ++ c2 ++ c3)
    else pure (c1 ++ c2)
  else pure c1

/-- `free_fields - 1` on `usize` -/
def pred1 (n : Nat) : GenM Nat :=
  match n with
  | 0 => throw "attempt to subtract with overflow"
  | k + 1 => pure k

/-- memory.rs: fn store_values: the `while let Some(binding) = to_store.bindings.pop()` loop;
    `toStoreRev` is the list still to store, REVERSED (its head is popped next). -/
def storeValuesLoop (remainingContext : Ctx) (memoryBlock : Reg) :
    List Binding → Nat → GenM (List Code × Nat)
  | [], freeFields => pure ([], freeFields)
  | binding :: restRev, freeFields => do
    let remainingPlusRest := remainingContext ++ restRev.reverse
    let off ← pred1 freeFields
    let c ← storeValue binding remainingPlusRest memoryBlock off
    let (cs, ff) ← storeValuesLoop remainingContext memoryBlock restRev off
    pure (c ++ cs, ff)

/-- memory.rs: fn store_values -/
def storeValues (toStore : Ctx) (remainingContext : Ctx) (memoryBlock : Reg) (freeFields : Nat) :
    GenM (List Code) := do
  let (cs, ff) ← storeValuesLoop remainingContext memoryBlock toStore.reverse freeFields
  pure ([.COMMENT "##store values"] ++ cs ++
    (if ff > 0 then [Code.COMMENT "##mark unused fields with null"] else []) ++
    storeZeros ff memoryBlock)

/-- memory.rs: fn load_values (loop as in `storeValuesLoop`) -/
def loadValuesLoop (existingContext : Ctx) (memoryBlock : Reg) (loadMode : LoadMode) :
    List Binding → Nat → GenM (List Code)
  | [], _ => pure []
  | binding :: restRev, freeFields => do
    let existingPlusRest := existingContext ++ restRev.reverse
    let off ← pred1 freeFields
    let c ← loadValue binding existingPlusRest memoryBlock off loadMode
    let cs ← loadValuesLoop existingContext memoryBlock loadMode restRev off
    pure (c ++ cs)

def loadValues (toLoad : Ctx) (existingContext : Ctx) (memoryBlock : Reg) (freeFields : Nat)
    (loadMode : LoadMode) : GenM (List Code) := do
  let cs ← loadValuesLoop existingContext memoryBlock loadMode toLoad.reverse freeFields
  pure ([.COMMENT "###load values"] ++ cs)

/-- memory.rs: enum BlockPosition { Last = 0, Other = 1 } -/
inductive BlockPosition where
  | last | other
  deriving DecidableEq, Repr

def BlockPosition.toNat : BlockPosition → Nat
  | .last => 0
  | .other => 1

/-- number of bindings that stay for the further blocks -/
def restLength (len : Nat) (blockPosition : BlockPosition) : Nat :=
  if len ≤ FIELDS_PER_BLOCK - blockPosition.toNat then 0
  else len - (FIELDS_PER_BLOCK - blockPosition.toNat)

/-- memory.rs: fn store_fields.  `fuel` bounds the recursion (each call with a non-empty
    `to_store` strictly shortens it as long as FIELDS_PER_BLOCK ≥ 2; fuel = length + 1 suffices). -/
def storeFields : Nat → Ctx → Ctx → BlockPosition → GenM (List Code)
  | 0, _, _, _ => throw "store_fields: out of fuel (FIELDS_PER_BLOCK < 2: unbounded recursion)"
  | fuel + 1, toStore, remainingContext, blockPosition =>
    if toStore.isEmpty then
      if blockPosition = .last then do
        let t ← freshTemporary .fst remainingContext
        pure ([.COMMENT "#mark no allocation"] ++ loadImmediate t 0)
      else pure []
    else do
      let remainingPlusToStore := remainingContext ++ toStore
      let c1 ← if blockPosition = .other then do
          let c ← storeField .fst remainingPlusToStore HEAP (FIELDS_PER_BLOCK - 1)
          pure ([Code.COMMENT "##store link to previous block"] ++ c)
        else pure []
      let rl := restLength toStore.length blockPosition
      let toStoreNext := toStore.drop rl
      let toStoreRest := toStore.take rl
      let remainingPlusRest := remainingContext ++ toStoreRest
      let c2 : List Code := if blockPosition = .last then [.COMMENT "#allocate memory"] else []
      let c3 ← storeValues toStoreNext remainingPlusRest HEAP (FIELDS_PER_BLOCK - blockPosition.toNat)
      let t ← freshTemporary .fst remainingPlusRest
      let c4 ← acquireBlock t
      let c5 ← storeFields fuel toStoreRest remainingContext .other
      pure (c1 ++ c2 ++ c3 ++ [.COMMENT "##acquire free block from heap register"] ++ c4 ++ c5)

/-- the part of `load_fields` after the memory block register is known -/
def loadFieldsBlock (memoryBlockRegister : Reg) (toLoadNext : Ctx)
    (existingPlusToLoad existingPlusRest : Ctx) (blockPosition : BlockPosition)
    (loadMode : LoadMode) : GenM (List Code) := do
  let c1 : List Code := if loadMode = .release then
      [.COMMENT "###release block"] ++ releaseBlock memoryBlockRegister
    else []
  let c2 ← if blockPosition = .other then do
      let c ← loadField .fst existingPlusToLoad memoryBlockRegister (FIELDS_PER_BLOCK - 1)
      pure ([Code.COMMENT "###load link to next block"] ++ c)
    else pure []
  let c3 ← loadValues toLoadNext existingPlusRest memoryBlockRegister
    (FIELDS_PER_BLOCK - blockPosition.toNat) loadMode
  pure (c1 ++ c2 ++ c3)

/-- memory.rs: fn load_fields; returns the code and the new value of `*register_freed`. -/
def loadFields : Nat → Ctx → Ctx → BlockPosition → LoadMode → Bool → GenM (List Code × Bool)
  | 0, _, _, _, _, _ => throw "load_fields: out of fuel (FIELDS_PER_BLOCK < 2: unbounded recursion)"
  | fuel + 1, toLoad, existingContext, blockPosition, loadMode, registerFreed =>
    if toLoad.isEmpty then pure ([], registerFreed)
    else do
      let existingPlusToLoad := existingContext ++ toLoad
      let rl := restLength toLoad.length blockPosition
      let toLoadNext := toLoad.drop rl
      let toLoadRest := toLoad.take rl
      let existingPlusRest := existingContext ++ toLoadRest
      let (c0, registerFreed) ← loadFields fuel toLoadRest existingContext .other loadMode registerFreed
      let memoryBlock ← freshTemporary .fst existingPlusRest
      match memoryBlock with
      | .reg memoryBlockRegister =>
        let c ← loadFieldsBlock memoryBlockRegister toLoadNext existingPlusToLoad existingPlusRest
          blockPosition loadMode
        pure (c0 ++ c, registerFreed)
      | .spill memoryBlockPosition =>
        let c1 : List Code := if !registerFreed then
            [.COMMENT "###evacuate additional scratch register for memory block",
             .MOVS TEMPORARY_TEMP STACK (stackOffset SPILL_TEMP)]
          else []
        let c2 : List Code := [.MOVL TEMPORARY_TEMP STACK (stackOffset memoryBlockPosition)]
        let c ← loadFieldsBlock TEMPORARY_TEMP toLoadNext existingPlusToLoad existingPlusRest
          blockPosition loadMode
        let c3 : List Code := if blockPosition = .last then
            [.COMMENT "###restore evacuated register",
             .MOVL TEMPORARY_TEMP STACK (stackOffset SPILL_TEMP)]
          else []
        pure (c0 ++ c1 ++ c2 ++ c ++ c3, true)

/-- memory.rs: impl Memory: store -/
def store (toStore : Ctx) (remainingContext : Ctx) : GenM (List Code) :=
  storeFields (toStore.length + 1) toStore remainingContext .last

/-- memory.rs: load: fn load_register -/
def loadRegister (memoryBlock : Reg) (toLoad : Ctx) (existingContext : Ctx) : GenM (List Code) := do
  let (cThen, _) ← loadFields (toLoad.length + 1) toLoad existingContext .last .release false
  let thenBranch : List Code :=
    [.COMMENT "##... or release blocks onto linear free list when loading"] ++ cThen
  let (cElse, _) ← loadFields (toLoad.length + 1) toLoad existingContext .last .share false
  let elseBranch : List Code :=
    [.COMMENT "##either decrement refcount and share children...",
     .ADDIM memoryBlock REFERENCE_COUNT_OFFSET (-1)] ++ cElse
  let c ← ifZeroThenElse memoryBlock (some REFERENCE_COUNT_OFFSET) thenBranch elseBranch
  pure ([.COMMENT "##check refcount"] ++ c)

/-- memory.rs: impl Memory: load -/
def load (toLoad : Ctx) (existingContext : Ctx) : GenM (List Code) :=
  if toLoad.isEmpty then pure []
  else do
    let memoryBlock ← freshTemporary .fst existingContext
    match memoryBlock with
    | .reg memoryBlockRegister =>
      let c ← loadRegister memoryBlockRegister toLoad existingContext
      pure ([.COMMENT "#load from memory"] ++ c)
    | .spill memoryBlockPosition =>
      let c ← loadRegister TEMP toLoad existingContext
      pure ([.COMMENT "#load from memory", .MOVL TEMP STACK (stackOffset memoryBlockPosition)] ++ c)

/-! ## parallel_moves.rs -/

mutual
  /-- parallel_moves.rs: fn spill_edge_spill -/
  def spillEdgeSpill (rootSpill : Bool) : Tree Temporary → Bool
    | .backEdge => rootSpill
    | .node (.reg _) trees => anySpillEdgeRegister rootSpill trees
    | .node (.spill _) _ => true
  /-- parallel_moves.rs: fn spill_edge_register -/
  def spillEdgeRegister (rootSpill : Bool) : Tree Temporary → Bool
    | .backEdge => false
    | .node (.reg _) trees => anySpillEdgeRegister rootSpill trees
    | .node (.spill _) trees => anySpillEdgeSpill rootSpill trees
  def anySpillEdgeRegister (rootSpill : Bool) : List (Tree Temporary) → Bool
    | [] => false
    | t :: ts => spillEdgeRegister rootSpill t || anySpillEdgeRegister rootSpill ts
  def anySpillEdgeSpill (rootSpill : Bool) : List (Tree Temporary) → Bool
    | [] => false
    | t :: ts => spillEdgeSpill rootSpill t || anySpillEdgeSpill rootSpill ts
end

/-- parallel_moves.rs: contains_spill_edge -/
def containsSpillEdge : Root Temporary → Bool
  | .startNode (.reg _) trees => anySpillEdgeRegister false trees
  | .startNode (.spill _) trees => anySpillEdgeSpill true trees

/-- parallel_moves.rs: store_temporary -/
def storeTemporary (temporary : Temporary) (containsSpillMove : Bool) : List Code :=
  match temporary with
  | .reg register =>
    if containsSpillMove then [.MOVS register STACK (stackOffset SPILL_TEMP)]
    else [.MOV TEMP register]
  | .spill position =>
    [.MOVL TEMP STACK (stackOffset position)] ++
      (if containsSpillMove then [Code.MOVS TEMP STACK (stackOffset SPILL_TEMP)] else [])

/-- parallel_moves.rs: restore_temporary -/
def restoreTemporary (temporary : Temporary) (containsSpillMove : Bool) : List Code :=
  match temporary with
  | .reg register =>
    if containsSpillMove then [.MOVL register STACK (stackOffset SPILL_TEMP)]
    else [.MOV register TEMP]
  | .spill position =>
    (if containsSpillMove then [Code.MOVL TEMP STACK (stackOffset SPILL_TEMP)] else []) ++
      [.MOVS TEMP STACK (stackOffset position)]

/-- derived `Ord` of `enum Temporary { Register(Register), Spill(Spill) }` -/
def tempLt : Temporary → Temporary → Bool
  | .reg a, .reg b => decide (a < b)
  | .reg _, .spill _ => true
  | .spill _, .reg _ => false
  | .spill a, .spill b => decide (a < b)

/-! ## the instance -/

def x86Backend : Scc.Backend.Backend Code Temporary where
  temp := .reg TEMP
  heap := .reg HEAP
  free := .reg FREE
  return1 := .reg RETURN1
  return2 := .reg RETURN2
  jumpLength := jumpLength
  variableTemporary := variableTemporary
  freshTemporary := freshTemporary
  comment := .COMMENT
  label := .LAB
  jump := jump
  jumpLabel := fun name => [.JMPL name]
  jumpLabelFixed := fun name => [.JMPLN name]
  jumpLabelIf := jumpLabelIf
  jumpLabelIfZero := jumpLabelIfZero
  loadImmediate := loadImmediate
  loadLabel := loadLabel
  addAndJump := addAndJump
  binop := binop
  mov := mov
  printI64 := fun nl s c => pure (printI64 nl s c)
  eraseBlock := eraseBlock
  shareBlockN := shareBlockN
  store := store
  load := load
  containsSpillEdge := containsSpillEdge
  storeTemporary := storeTemporary
  restoreTemporary := restoreTemporary
  tempLt := tempLt
  tempEq := fun a b => a == b

/-! ## into_routine.rs -/

/-- into_routine.rs: fn preamble -/
def preamble : List Code :=
  [.NOEXECSTACK, .TEXT, .EXTERN "print_i64", .EXTERN "println_i64", .GLOBAL "asm_main",
   .LAB "asm_main"]

/-- into_routine.rs: fn move_arguments (arg(1..5) -> Register(5), 7, 9, 11, 13); every level of
    the recursion pushes the comment again; level 1 does not recurse. -/
def moveArguments : Nat → Except String (List Code)
  | 0 => .ok [.COMMENT "move parameters into place"]
  | 1 =>
    match consts.mainParamRegs[0]?, arg 1 with
    | some target, .ok src => .ok [.COMMENT "move parameters into place", .MOV target src]
    | _, _ => .error "too many arguments for main"
  | n + 2 =>
    if n + 2 > 5 then .error "too many arguments for main"
    else
      match consts.mainParamRegs[n + 1]?, arg (n + 2), moveArguments (n + 1) with
      | some target, .ok src, .ok rest =>
        .ok ([.COMMENT "move parameters into place", .MOV target src] ++ rest)
      | _, _, _ => .error "too many arguments for main"

/-- into_routine.rs: fn setup -/
def setup (numberOfArguments : Nat) : Except String (List Code) :=
  match moveArguments numberOfArguments with
  | .error e => .error e
  | .ok moves =>
    .ok ([.COMMENT "setup", .COMMENT "save registers"] ++
      consts.calleeSavePushed.map Code.PUSH ++
      [.COMMENT "reserve space for register spills", .SUBI STACK SPILL_SPACE,
       .COMMENT "initialize heap pointer", .MOV HEAP ARG0,
       .COMMENT "initialize free pointer", .MOV FREE HEAP,
       .ADDI FREE (fieldOffset .fst FIELDS_PER_BLOCK)] ++ moves)

/-- into_routine.rs: fn cleanup -/
def cleanup : List Code :=
  [.LAB "cleanup", .COMMENT "free space for register spills", .ADDI STACK SPILL_SPACE,
   .COMMENT "restore registers"] ++ consts.calleeSavePushed.reverse.map Code.POP ++ [.RET]

/-- into_routine.rs: pub fn into_x86_64_routine -/
def intoRoutine (instructions : List Code) (numberOfArguments : Nat) : Except String (List Code) :=
  match setup numberOfArguments with
  | .error e => .error e
  | .ok su =>
    .ok ([.COMMENT "asmsyntax=nasm"] ++ preamble ++ su ++ [.COMMENT "actual code"] ++ instructions ++
      cleanup)

/-! ## line function -/

def readS5 (dumpS5 : String) : Except String Prog :=
  match Sexp.parse dumpS5 with
  | none => .error "ERR sexp"
  | some sx =>
    match readProg (dumpS5.length + 10) sx with
    | none => .error "ERR read"
    | some p => .ok p

/-- body code and number of arguments of an S5 program -/
def compileX86 (p : Prog) (hooks : Bool) (counterStart : Nat) : Except String (List Code × Nat) :=
  match (Scc.Backend.compile x86Backend hooks p).run counterStart with
  | .error e => .error e
  | .ok (r, _) => .ok r

/-- `OK <nargs>\n<body text>\n---\n<routine text>` | `PANIC <msg>` | `ERR …`
    (compared with the harness lines S6x / S7x after label renumbering) -/
def runLineCodegen (dumpS5 : String) (hooks : Bool) (counterStart : Nat) : String :=
  match readS5 dumpS5 with
  | .error e => e
  | .ok p =>
    match compileX86 p hooks counterStart with
    | .error e => "PANIC " ++ e
    | .ok (body, nargs) =>
      match intoRoutine body nargs with
      | .error e => "OK " ++ toString nargs ++ "\n" ++ printProg body ++ "\n---\nPANIC " ++ e
      | .ok routine =>
        "OK " ++ toString nargs ++ "\n" ++ printProg body ++ "\n---\n" ++ printProg routine

end Scc.X86
