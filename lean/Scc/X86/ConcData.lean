/-
  Scc.X86.ConcData — FROM THE BLOCKS IN USE TO THE SIZE OF THE SOURCE-LEVEL DATA.  At a statement boundary
  whose deferred free list is empty, the number of heap blocks in use is at most the number of FIELDS of the
  object values held by the variables of the positional machine (`valsFields st.env`):
      blocks in use  ≤  fields of the objects of the abstract heap     (`live_le_heapFields`, RefineNoGarb)
                     ≤  fields of the object nodes of the environment  (`heapFields_le_vals`, here).
  The second step: every object of the abstract heap of Theorem A is referenced (`HeapOK.counts`) — by a
  variable or by an object with a larger id (`ord`) — so it is the representative (`RepV`) of a node of some
  value of the environment; a shared object represents several nodes, so the count of nodes is an upper bound.
-/
import Scc.X86.ConcPeakRun
import Scc.Heap.RefineNoGarb

set_option linter.unusedVariables false
set_option linter.unusedSimpArgs false

namespace Scc.X86.Conc

open Scc Scc.AxCut Scc.AxCut.Pos Scc.Backend Scc.Backend.Abs Scc.Backend.Sim Scc.X86 Scc.X86.Ref
open Scc.Backend.Sim2
open Scc.Heap (HState InvS InvW)
open Scc.Heap.Refine (HRef heapFields live_le_heapFields sum_le_of_nodup_subset)

mutual
  /-- the number of fields of the object (and closure) nodes of a value -/
  def valFields : Pos.Value → Nat
    | .int _ => 0
    | .obj _ fields => fields.length + valsFields fields
    | .clo _ env _ => env.length + valsFields env
  def valsFields : List Pos.Value → Nat
    | [] => 0
    | v :: vs => valFields v + valsFields vs
end

theorem chi_beq_ext_false {c : Chi} (h : c ≠ Chi.ext) : (c == Chi.ext) = false := by
  cases c <;> first | rfl | exact absurd rfl h

/-- the weight of an object id: the number of fields of the object -/
def objW (h : Heap) (id : Nat) : Nat :=
  match h.get id with
  | some o => o.fields.length
  | none => 0

/-- closed under children -/
def ClosedIds (h : Heap) (L : List Nat) : Prop :=
  ∀ id ∈ L, ∀ o, h.get id = some o → ∀ c ∈ o.children, c ∈ L

theorem ClosedIds.append {h : Heap} {L1 L2 : List Nat} (h1 : ClosedIds h L1) (h2 : ClosedIds h L2) :
    ClosedIds h (L1 ++ L2) := by
  intro id hid o ho c hc
  rcases List.mem_append.1 hid with hm | hm
  · exact List.mem_append_left _ (h1 id hm o ho c hc)
  · exact List.mem_append_right _ (h2 id hm o ho c hc)

theorem closedIds_nil (h : Heap) : ClosedIds h [] := fun _ hid => by simp at hid

/-- the children of an object, field by field -/
def fieldsChildren (fs : List Abs.Field) : List Nat :=
  fs.filterMap fun f => if f.chi != Chi.ext && f.ptr != 0 then some f.ptr.toNat else none

mutual
  theorem repV_cover {P : Program} {hooks : Bool} {types : List TypeDecl} {h : Heap} :
      ∀ {v : Pos.Value} {ptr : Option Word} {w : Word}, RepV P hooks types h v ptr w →
      ∃ L, ClosedIds h L ∧ (Sim2.kindOf v ≠ Chi.ext → ∀ r, ptr = some r → r ≠ 0 → r.toNat ∈ L) ∧
        (L.map (objW h)).sum ≤ valFields v
    | _, _, _, .int n p => ⟨[], closedIds_nil h, fun hk => absurd rfl hk, by simp⟩
    | _, _, _, .obj tag fields r hB => by
      obtain ⟨L, hc, hr, hs⟩ := repB_cover hB
      refine ⟨L, hc, fun _ r' e h0 => ?_, by simpa [valFields] using hs⟩
      injection e with e
      subst e
      exact hr h0
    | _, _, _, .clo envCtx envCtx' env clauses r a _ hB _ => by
      obtain ⟨L, hc, hr, hs⟩ := repB_cover hB
      refine ⟨L, hc, fun _ r' e h0 => ?_, by simpa [valFields] using hs⟩
      injection e with e
      subst e
      exact hr h0
  theorem repB_cover {P : Program} {hooks : Bool} {types : List TypeDecl} {h : Heap} :
      ∀ {vs : List Pos.Value} {r : Word}, RepB P hooks types h vs r →
      ∃ L, ClosedIds h L ∧ (r ≠ 0 → r.toNat ∈ L) ∧ (L.map (objW h)).sum ≤ vs.length + valsFields vs
    | _, _, .empty => ⟨[], closedIds_nil h, fun h0 => absurd rfl h0, by simp⟩
    | _, _, .block v vs r o hr0 hg hF => by
      obtain ⟨L, hc, hch, hs, hlen⟩ := repF_cover hF
      refine ⟨r.toNat :: L, ?_, fun _ => by simp, ?_⟩
      · intro id hid o' ho' c hcc
        rcases List.mem_cons.1 hid with rfl | hid
        · rw [hg] at ho'
          injection ho' with ho'
          subst ho'
          exact List.mem_cons_of_mem _ (hch c hcc)
        · exact List.mem_cons_of_mem _ (hc id hid o' ho' c hcc)
      · have hw : objW h r.toNat = (v :: vs).length := by
          unfold objW
          rw [hg]
          exact hlen.symm
        simp only [List.map_cons, List.sum_cons, hw]
        omega
  theorem repF_cover {P : Program} {hooks : Bool} {types : List TypeDecl} {h : Heap} :
      ∀ {vs : List Pos.Value} {fs : List Abs.Field}, RepF P hooks types h vs fs →
      ∃ L, ClosedIds h L ∧ (∀ c ∈ fieldsChildren fs, c ∈ L) ∧ (L.map (objW h)).sum ≤ valsFields vs ∧
        vs.length = fs.length
    | _, _, .nil => ⟨[], closedIds_nil h, fun c hc => by simp [fieldsChildren] at hc, by simp [valsFields], rfl⟩
    | _, _, .cons v vs f fs hV hk hF => by
      obtain ⟨L1, hc1, hr1, hs1⟩ := repV_cover hV
      obtain ⟨L2, hc2, hch2, hs2, hlen⟩ := repF_cover hF
      refine ⟨L1 ++ L2, hc1.append hc2, ?_, ?_, by simp [hlen]⟩
      · intro c hc
        unfold fieldsChildren at hc
        rw [List.filterMap_cons] at hc
        split at hc
        · exact List.mem_append_right _ (hch2 c hc)
        · rename_i x hx
          rcases List.mem_cons.1 hc with rfl | hc
          · -- the child of the first field
            by_cases hcond : (f.chi != Chi.ext && f.ptr != 0) = true
            · rw [if_pos hcond] at hx
              injection hx with hx
              subst hx
              simp only [Bool.and_eq_true, bne_iff_ne, ne_eq] at hcond
              have hfc : f.chi ≠ Chi.ext := (chi_bne_ext _).mp hcond.1
              have hne : Sim2.kindOf v ≠ Chi.ext := by rw [← hk]; exact hfc
              have hext : (f.chi == Chi.ext) = false := chi_beq_ext_false hfc
              apply List.mem_append_left
              exact hr1 hne f.ptr (by rw [hext]; rfl) hcond.2
            · rw [if_neg hcond] at hx; cases hx
          · exact List.mem_append_right _ (hch2 c hc)
      · simp only [List.map_append, List.sum_append, valsFields]
        omega
end

theorem heap_get_of_mem : ∀ {h : Heap} {id : Nat} {o : Obj}, (h.map (·.1)).Nodup → (id, o) ∈ h → h.get id = some o
  | [], _, _, _, hm => by simp at hm
  | e :: h, id, o, hnd, hm => by
    simp only [List.map_cons, List.nodup_cons] at hnd
    unfold Heap.get
    simp only [List.find?_cons]
    rcases List.mem_cons.1 hm with rfl | hm'
    · simp
    · have hne : (e.1 == id) = false := by
        rw [beq_eq_false_iff_ne]
        intro e1
        exact hnd.1 (List.mem_map.2 ⟨(id, o), hm', e1.symm⟩)
      rw [hne]
      have := heap_get_of_mem hnd.2 hm'
      unfold Heap.get at this
      exact this

/-- the fields of the objects of the abstract heap against the fields of the values of the environment -/
theorem heapFields_le_vals {P : Program} {hooks : Bool} {prog : AxCut.Prog} {Γ : Ctx} {ρ : List Pos.Value}
    {s : Stmt} {cfg : Config} (R : RelX P hooks prog ⟨Γ, ρ, s⟩ cfg)
    (hord : ∀ e ∈ cfg.heap, ∀ c ∈ e.2.children, c < e.1) :
    heapFields cfg.heap ≤ valsFields ρ := by
  have hlen : ρ.length = Γ.length := R.len
  -- one closed list of ids per position
  have hpos : ∀ (n : Nat), n ≤ Γ.length → ∃ L, ClosedIds cfg.heap L ∧
      (∀ i (hi : i < Γ.length), i < n → Γ[i].chi ≠ .ext → ∀ r, cfg.temps.get (2 * i) = some r → r ≠ 0 →
        r.toNat ∈ L) ∧ (L.map (objW cfg.heap)).sum ≤ valsFields (ρ.take n) := by
    intro n
    induction n with
    | zero => intro _; exact ⟨[], closedIds_nil _, fun i _ hi => absurd hi (Nat.not_lt_zero _), by simp [valsFields]⟩
    | succ n ih =>
      intro hn
      obtain ⟨L, hc, hr, hs⟩ := ih (by omega)
      have hn1 : n < Γ.length := by omega
      have hn2 : n < ρ.length := by omega
      obtain ⟨hV, _, hkind, _⟩ := R.vals n hn1 hn2
      simp only at hV hkind
      obtain ⟨L1, hc1, hr1, hs1⟩ := repV_cover hV
      refine ⟨L ++ L1, hc.append hc1, ?_, ?_⟩
      · intro i hi hin hchi r hg h0
        by_cases hlt : i < n
        · exact List.mem_append_left _ (hr i hi hlt hchi r hg h0)
        · have e : i = n := by omega
          subst e
          apply List.mem_append_right
          have hne : Sim2.kindOf ρ[i] ≠ Chi.ext := by rw [← hkind]; exact hchi
          have hext : (Γ[i].chi == Chi.ext) = false := chi_beq_ext_false hchi
          exact hr1 hne r (by rw [hext]; exact hg) h0
      · have htake : ρ.take (n + 1) = ρ.take n ++ [ρ[n]] := by
          rw [List.take_succ, List.getElem?_eq_getElem hn2]; rfl
        have happ : ∀ (a b : List Pos.Value), valsFields (a ++ b) = valsFields a + valsFields b := by
          intro a b
          induction a with
          | nil => simp [valsFields]
          | cons x a ih => simp only [List.cons_append, valsFields, ih]; omega
        rw [htake, happ]
        simp only [List.map_append, List.sum_append, valsFields]
        omega
  obtain ⟨L, hc, hr, hs⟩ := hpos Γ.length (Nat.le_refl _)
  rw [← hlen, List.take_length] at hs
  -- every object of the heap is in `L`
  have H : HeapOK cfg.heap (roots Γ cfg.temps) cfg.next := R.heap
  have hroot : ∀ id ∈ roots Γ cfg.temps, id ∈ L := by
    intro id hid
    unfold roots at hid
    have key : ∀ (Δ : Ctx) (k : Nat), (∀ j (hj : j < Δ.length), ∃ hi : k + j < Γ.length, Γ[k + j] = Δ[j]) →
        id ∈ roots.go cfg.temps Δ k → id ∈ L := by
      intro Δ
      induction Δ with
      | nil => intro k _ hm; simp [roots.go] at hm
      | cons b Δ ih =>
        intro k hΔ hm
        simp only [roots.go] at hm
        rcases List.mem_append.1 hm with hm | hm
        · obtain ⟨hi, hb⟩ := hΔ 0 (by simp)
          simp only [Nat.add_zero, List.getElem_cons_zero] at hi hb
          split at hm
          · rename_i hchi
            cases hg : cfg.temps.get (2 * k) with
            | none => rw [hg] at hm; simp at hm
            | some p =>
              rw [hg] at hm
              simp only at hm
              split at hm
              · rename_i hp0
                simp only [List.mem_singleton] at hm
                subst hm
                exact hr k hi (by omega) (by rw [hb]; exact (chi_bne_ext _).mp hchi) p hg
                  (by simpa using hp0)
              · simp at hm
          · simp at hm
        · apply ih (k + 1) _ hm
          intro j hj
          obtain ⟨hi, hb⟩ := hΔ (j + 1) (by simpa using hj)
          refine ⟨by omega, ?_⟩
          have e : k + 1 + j = k + (j + 1) := by omega
          simp only [e]
          simpa using hb
    exact key Γ 0 (fun j hj => ⟨by omega, by simp⟩) hid
  have hall : ∀ (n : Nat), ∀ e ∈ cfg.heap, cfg.next - e.1 ≤ n → e.1 ∈ L := by
    intro n
    induction n with
    | zero =>
      intro e he hle
      have := (H.ids e he).2.1
      omega
    | succ n ih =>
      intro e he hle
      have hcnt := H.counts e he
      rw [refCount_eq] at hcnt
      by_cases hrt : 0 < (roots Γ cfg.temps).count e.1
      · exact hroot e.1 (List.count_pos_iff.1 hrt)
      · have hcs : 0 < childSum cfg.heap e.1 := by omega
        obtain ⟨e', he', hmem⟩ := Scc.Heap.Refine.childSum_pos hcs
        have hlt := hord e' he' e.1 hmem
        have hid' := (H.ids e' he').2.1
        have he'L : e'.1 ∈ L := ih e' he' (by omega)
        exact hc e'.1 he'L e'.2 (heap_get_of_mem H.nodup he') e.1 hmem
  -- the sum
  have hsub : ∀ id ∈ cfg.heap.map (·.1), id ∈ L := by
    intro id hid
    obtain ⟨e, he, rfl⟩ := List.mem_map.1 hid
    exact hall (cfg.next - e.1) e he (Nat.le_refl _)
  have hsum := sum_le_of_nodup_subset (objW cfg.heap) (cfg.heap.map (·.1)) L H.nodup hsub
  have hfe : heapFields cfg.heap = ((cfg.heap.map (·.1)).map (objW cfg.heap)).sum := by
    unfold heapFields
    rw [List.map_map]
    congr 1
    apply List.map_congr_left
    intro e he
    simp only [Function.comp, objW]
    rw [heap_get_of_mem H.nodup he]
  omega

end Scc.X86.Conc
