/-
  Scc.X86.LoaderCode — `parseLine (printCode c) = some (some c)` for EVERY constructor of the backend's
  instruction type `Scc.X86.Code` except labels (two lines) and comments (text trimmed), which have
  their own statements (`parse_label`, `parse_comment` in LoaderInstr.lean; `codeLines_parse` below
  covers all constructors uniformly).

  `CodeOK c`: the operands of `c` are text-safe — register numbers < 16, every label / symbol it
  mentions passes the loader's symbol test `symOKC` (non-empty, symbol characters only, no line break,
  not a register name, not a decimal number), comments contain no line break.
  Proof file: core imports only.
-/
import Scc.X86.LoaderInstr

namespace Scc.X86.Loader

open Scc.X86

set_option linter.unusedSimpArgs false

theorem memStr_toList (r : Nat) (i : Int) : (memStr r i).toList = memC r i := by
  simp [memStr, memC, regC, immC, String.toList_append]

/-- text-safety of the operands of one item -/
structure CodeOK (c : Code) : Prop where
  regs : ∀ r ∈ codeRegs c, r < 16
  refs : ∀ l, codeLabelRef c = some l → symOKC l.toList
  defs : ∀ l, codeLabelDef c = some l → symOKC l.toList
  ext : ∀ f, c = .EXTERN f → symOKC f.toList
  comment : ∀ m, c = .COMMENT m → '\n' ∉ m.toList

/-- what `parseLine` returns for a printed one-line item, and the line is a single line -/
def Reads (c : Code) : Prop := parseLine (printCode c) = some (some c) ∧ '\n' ∉ (printCode c).toList

theorem reads_ADD (r r1 : Nat) (h : CodeOK (.ADD r r1)) : Reads (.ADD r r1) := by
  have hr : r < 16 := h.regs r (by simp [codeRegs])
  have hr1 : r1 < 16 := h.regs r1 (by simp [codeRegs])
  have hs : (printCode (.ADD r r1)).toList = line2 "add".toList (regC r) (regC r1) := by
    simp [printCode, INDENT, line0, line1, line2, regC, immC, qmemC, relC, memC', String.toList_append, memStr_toList]
  exact parse_line2 hs (by decide) (opTxt_reg hr) (opTxt_reg hr1)

theorem reads_ADDRM (r r1 : Nat) (i : Int) (h : CodeOK (.ADDRM r r1 i)) : Reads (.ADDRM r r1 i) := by
  have hr : r < 16 := h.regs r (by simp [codeRegs])
  have hr1 : r1 < 16 := h.regs r1 (by simp [codeRegs])
  have hs : (printCode (.ADDRM r r1 i)).toList = line2 "add".toList (regC r) (memC r1 i) := by
    simp [printCode, INDENT, line0, line1, line2, regC, immC, qmemC, relC, memC', String.toList_append, memStr_toList]
  exact parse_line2 hs (by decide) (opTxt_reg hr) (opTxt_mem hr1 i)

theorem reads_ADDMR (r1 : Nat) (i : Int) (r : Nat) (h : CodeOK (.ADDMR r1 i r)) : Reads (.ADDMR r1 i r) := by
  have hr1 : r1 < 16 := h.regs r1 (by simp [codeRegs])
  have hr : r < 16 := h.regs r (by simp [codeRegs])
  have hs : (printCode (.ADDMR r1 i r)).toList = line2 "add".toList (memC r1 i) (regC r) := by
    simp [printCode, INDENT, line0, line1, line2, regC, immC, qmemC, relC, memC', String.toList_append, memStr_toList]
  exact parse_line2 hs (by decide) (opTxt_mem hr1 i) (opTxt_reg hr)

theorem reads_ADDI (r : Nat) (i : Int) (h : CodeOK (.ADDI r i)) : Reads (.ADDI r i) := by
  have hr : r < 16 := h.regs r (by simp [codeRegs])
  have hs : (printCode (.ADDI r i)).toList = line2 "add".toList (regC r) (immC i) := by
    simp [printCode, INDENT, line0, line1, line2, regC, immC, qmemC, relC, memC', String.toList_append, memStr_toList]
  exact parse_line2 hs (by decide) (opTxt_reg hr) (opTxt_imm i)

theorem reads_ADDIM (r : Nat) (i1 i2 : Int) (h : CodeOK (.ADDIM r i1 i2)) : Reads (.ADDIM r i1 i2) := by
  have hr : r < 16 := h.regs r (by simp [codeRegs])
  have hs : (printCode (.ADDIM r i1 i2)).toList = line2 "add".toList (qmemC r i1) (immC i2) := by
    simp [printCode, INDENT, line0, line1, line2, regC, immC, qmemC, relC, memC', String.toList_append, memStr_toList]
  exact parse_line2 hs (by decide) (opTxt_qmem hr i1) (opTxt_imm i2)

theorem reads_SUB (r r1 : Nat) (h : CodeOK (.SUB r r1)) : Reads (.SUB r r1) := by
  have hr : r < 16 := h.regs r (by simp [codeRegs])
  have hr1 : r1 < 16 := h.regs r1 (by simp [codeRegs])
  have hs : (printCode (.SUB r r1)).toList = line2 "sub".toList (regC r) (regC r1) := by
    simp [printCode, INDENT, line0, line1, line2, regC, immC, qmemC, relC, memC', String.toList_append, memStr_toList]
  exact parse_line2 hs (by decide) (opTxt_reg hr) (opTxt_reg hr1)

theorem reads_SUBRM (r r1 : Nat) (i : Int) (h : CodeOK (.SUBRM r r1 i)) : Reads (.SUBRM r r1 i) := by
  have hr : r < 16 := h.regs r (by simp [codeRegs])
  have hr1 : r1 < 16 := h.regs r1 (by simp [codeRegs])
  have hs : (printCode (.SUBRM r r1 i)).toList = line2 "sub".toList (regC r) (memC r1 i) := by
    simp [printCode, INDENT, line0, line1, line2, regC, immC, qmemC, relC, memC', String.toList_append, memStr_toList]
  exact parse_line2 hs (by decide) (opTxt_reg hr) (opTxt_mem hr1 i)

theorem reads_SUBMR (r1 : Nat) (i : Int) (r : Nat) (h : CodeOK (.SUBMR r1 i r)) : Reads (.SUBMR r1 i r) := by
  have hr1 : r1 < 16 := h.regs r1 (by simp [codeRegs])
  have hr : r < 16 := h.regs r (by simp [codeRegs])
  have hs : (printCode (.SUBMR r1 i r)).toList = line2 "sub".toList (memC r1 i) (regC r) := by
    simp [printCode, INDENT, line0, line1, line2, regC, immC, qmemC, relC, memC', String.toList_append, memStr_toList]
  exact parse_line2 hs (by decide) (opTxt_mem hr1 i) (opTxt_reg hr)

theorem reads_SUBI (r : Nat) (i : Int) (h : CodeOK (.SUBI r i)) : Reads (.SUBI r i) := by
  have hr : r < 16 := h.regs r (by simp [codeRegs])
  have hs : (printCode (.SUBI r i)).toList = line2 "sub".toList (regC r) (immC i) := by
    simp [printCode, INDENT, line0, line1, line2, regC, immC, qmemC, relC, memC', String.toList_append, memStr_toList]
  exact parse_line2 hs (by decide) (opTxt_reg hr) (opTxt_imm i)

theorem reads_IMUL (r r1 : Nat) (h : CodeOK (.IMUL r r1)) : Reads (.IMUL r r1) := by
  have hr : r < 16 := h.regs r (by simp [codeRegs])
  have hr1 : r1 < 16 := h.regs r1 (by simp [codeRegs])
  have hs : (printCode (.IMUL r r1)).toList = line2 "imul".toList (regC r) (regC r1) := by
    simp [printCode, INDENT, line0, line1, line2, regC, immC, qmemC, relC, memC', String.toList_append, memStr_toList]
  exact parse_line2 hs (by decide) (opTxt_reg hr) (opTxt_reg hr1)

theorem reads_IMULRM (r r1 : Nat) (i : Int) (h : CodeOK (.IMULRM r r1 i)) : Reads (.IMULRM r r1 i) := by
  have hr : r < 16 := h.regs r (by simp [codeRegs])
  have hr1 : r1 < 16 := h.regs r1 (by simp [codeRegs])
  have hs : (printCode (.IMULRM r r1 i)).toList = line2 "imul".toList (regC r) (memC r1 i) := by
    simp [printCode, INDENT, line0, line1, line2, regC, immC, qmemC, relC, memC', String.toList_append, memStr_toList]
  exact parse_line2 hs (by decide) (opTxt_reg hr) (opTxt_mem hr1 i)

theorem reads_IMULMR (r1 : Nat) (i : Int) (r : Nat) (h : CodeOK (.IMULMR r1 i r)) : Reads (.IMULMR r1 i r) := by
  have hr1 : r1 < 16 := h.regs r1 (by simp [codeRegs])
  have hr : r < 16 := h.regs r (by simp [codeRegs])
  have hs : (printCode (.IMULMR r1 i r)).toList = line2 "imul".toList (memC r1 i) (regC r) := by
    simp [printCode, INDENT, line0, line1, line2, regC, immC, qmemC, relC, memC', String.toList_append, memStr_toList]
  exact parse_line2 hs (by decide) (opTxt_mem hr1 i) (opTxt_reg hr)

theorem reads_IDIV (r : Nat) (h : CodeOK (.IDIV r)) : Reads (.IDIV r) := by
  have hr : r < 16 := h.regs r (by simp [codeRegs])
  have hs : (printCode (.IDIV r)).toList = line1 "idiv".toList (regC r) := by
    simp [printCode, INDENT, line0, line1, line2, regC, immC, qmemC, relC, memC', String.toList_append, memStr_toList]
  exact parse_line1 hs (by decide) (opTxt_reg hr)

theorem reads_IDIVM (r : Nat) (i : Int) (h : CodeOK (.IDIVM r i)) : Reads (.IDIVM r i) := by
  have hr : r < 16 := h.regs r (by simp [codeRegs])
  have hs : (printCode (.IDIVM r i)).toList = line1 "idiv".toList (qmemC r i) := by
    simp [printCode, INDENT, line0, line1, line2, regC, immC, qmemC, relC, memC', String.toList_append, memStr_toList]
  exact parse_line1 hs (by decide) (opTxt_qmem hr i)

theorem reads_CQO : Reads .CQO := by
  have hs : (printCode .CQO).toList = line0 "cqo".toList := by
    simp [printCode, INDENT, line0, line1, line2, regC, immC, qmemC, relC, memC', String.toList_append, memStr_toList]
  exact parse_line0 hs (by decide)

theorem reads_JMP (r : Nat) (h : CodeOK (.JMP r)) : Reads (.JMP r) := by
  have hr : r < 16 := h.regs r (by simp [codeRegs])
  have hs : (printCode (.JMP r)).toList = line1 "jmp".toList (regC r) := by
    simp [printCode, INDENT, line0, line1, line2, regC, immC, qmemC, relC, memC', String.toList_append, memStr_toList]
  exact parse_jmp1 hs (opTxt_reg hr)
    (dropPrefix?_none_of_not_mem (c := ' ') (by decide) (fun hm => (regC_chars hr _ hm).1 rfl))

theorem reads_JMPL (l : String) (h : CodeOK (.JMPL l)) : Reads (.JMPL l) := by
  have hl : symOKC l.toList := h.refs l rfl
  have hs : (printCode (.JMPL l)).toList = line1 "jmp".toList l.toList := by
    simp [printCode, INDENT, line0, line1, line2, regC, immC, qmemC, relC, memC', String.toList_append, memStr_toList]
  have := parse_jmp1 hs (opTxt_sym hl)
    (dropPrefix?_none_of_not_mem (c := ' ') (by decide) (symOKC_not_mem hl (by decide)))
  simp only [String.ofList_toList] at this
  exact this

theorem reads_JMPLN (l : String) (h : CodeOK (.JMPLN l)) : Reads (.JMPLN l) := by
  have hl : symOKC l.toList := h.refs l rfl
  have hs : (printCode (.JMPLN l)).toList = line1 "jmp".toList ("near ".toList ++ l.toList) := by
    simp [printCode, INDENT, line0, line1, line2, regC, immC, qmemC, relC, memC', String.toList_append, memStr_toList]
  have := parse_jmp_near hs hl
  simp only [String.ofList_toList] at this
  exact this

theorem reads_LEAL (r : Nat) (l : String) (h : CodeOK (.LEAL r l)) : Reads (.LEAL r l) := by
  have hr : r < 16 := h.regs r (by simp [codeRegs])
  have hl : symOKC l.toList := h.refs l rfl
  have hs : (printCode (.LEAL r l)).toList = line2 "lea".toList (regC r) (relC l.toList) := by
    simp [printCode, INDENT, line0, line1, line2, regC, immC, qmemC, relC, memC', String.toList_append, memStr_toList]
  have := parse_line2 hs (by decide) (opTxt_reg hr) (opTxt_rel hl)
  simp only [String.ofList_toList] at this
  exact this

theorem reads_MOV (r r1 : Nat) (h : CodeOK (.MOV r r1)) : Reads (.MOV r r1) := by
  have hr : r < 16 := h.regs r (by simp [codeRegs])
  have hr1 : r1 < 16 := h.regs r1 (by simp [codeRegs])
  have hs : (printCode (.MOV r r1)).toList = line2 "mov".toList (regC r) (regC r1) := by
    simp [printCode, INDENT, line0, line1, line2, regC, immC, qmemC, relC, memC', String.toList_append, memStr_toList]
  exact parse_line2 hs (by decide) (opTxt_reg hr) (opTxt_reg hr1)

theorem reads_MOVS (r r1 : Nat) (i : Int) (h : CodeOK (.MOVS r r1 i)) : Reads (.MOVS r r1 i) := by
  have hr : r < 16 := h.regs r (by simp [codeRegs])
  have hr1 : r1 < 16 := h.regs r1 (by simp [codeRegs])
  have hs : (printCode (.MOVS r r1 i)).toList = line2 "mov".toList (memC r1 i) (regC r) := by
    simp [printCode, INDENT, line0, line1, line2, regC, immC, qmemC, relC, memC', String.toList_append, memStr_toList]
  exact parse_line2 hs (by decide) (opTxt_mem hr1 i) (opTxt_reg hr)

theorem reads_MOVL (r r1 : Nat) (i : Int) (h : CodeOK (.MOVL r r1 i)) : Reads (.MOVL r r1 i) := by
  have hr : r < 16 := h.regs r (by simp [codeRegs])
  have hr1 : r1 < 16 := h.regs r1 (by simp [codeRegs])
  have hs : (printCode (.MOVL r r1 i)).toList = line2 "mov".toList (regC r) (memC r1 i) := by
    simp [printCode, INDENT, line0, line1, line2, regC, immC, qmemC, relC, memC', String.toList_append, memStr_toList]
  exact parse_line2 hs (by decide) (opTxt_reg hr) (opTxt_mem hr1 i)

theorem reads_MOVI (r : Nat) (i : Int) (h : CodeOK (.MOVI r i)) : Reads (.MOVI r i) := by
  have hr : r < 16 := h.regs r (by simp [codeRegs])
  have hs : (printCode (.MOVI r i)).toList = line2 "mov".toList (regC r) (immC i) := by
    simp [printCode, INDENT, line0, line1, line2, regC, immC, qmemC, relC, memC', String.toList_append, memStr_toList]
  exact parse_line2 hs (by decide) (opTxt_reg hr) (opTxt_imm i)

theorem reads_MOVIM (r : Nat) (i1 i2 : Int) (h : CodeOK (.MOVIM r i1 i2)) : Reads (.MOVIM r i1 i2) := by
  have hr : r < 16 := h.regs r (by simp [codeRegs])
  have hs : (printCode (.MOVIM r i1 i2)).toList = line2 "mov".toList (qmemC r i1) (immC i2) := by
    simp [printCode, INDENT, line0, line1, line2, regC, immC, qmemC, relC, memC', String.toList_append, memStr_toList]
  exact parse_line2 hs (by decide) (opTxt_qmem hr i1) (opTxt_imm i2)

theorem reads_CMP (r r1 : Nat) (h : CodeOK (.CMP r r1)) : Reads (.CMP r r1) := by
  have hr : r < 16 := h.regs r (by simp [codeRegs])
  have hr1 : r1 < 16 := h.regs r1 (by simp [codeRegs])
  have hs : (printCode (.CMP r r1)).toList = line2 "cmp".toList (regC r) (regC r1) := by
    simp [printCode, INDENT, line0, line1, line2, regC, immC, qmemC, relC, memC', String.toList_append, memStr_toList]
  exact parse_line2 hs (by decide) (opTxt_reg hr) (opTxt_reg hr1)

theorem reads_CMPRM (r r1 : Nat) (i : Int) (h : CodeOK (.CMPRM r r1 i)) : Reads (.CMPRM r r1 i) := by
  have hr : r < 16 := h.regs r (by simp [codeRegs])
  have hr1 : r1 < 16 := h.regs r1 (by simp [codeRegs])
  have hs : (printCode (.CMPRM r r1 i)).toList = line2 "cmp".toList (regC r) (memC' r1 i) := by
    simp [printCode, INDENT, line0, line1, line2, regC, immC, qmemC, relC, memC', String.toList_append, memStr_toList]
  exact parse_line2 hs (by decide) (opTxt_reg hr) (opTxt_mem' hr1 i)

theorem reads_CMPMR (r : Nat) (i : Int) (r1 : Nat) (h : CodeOK (.CMPMR r i r1)) : Reads (.CMPMR r i r1) := by
  have hr : r < 16 := h.regs r (by simp [codeRegs])
  have hr1 : r1 < 16 := h.regs r1 (by simp [codeRegs])
  have hs : (printCode (.CMPMR r i r1)).toList = line2 "cmp".toList (memC r i) (regC r1) := by
    simp [printCode, INDENT, line0, line1, line2, regC, immC, qmemC, relC, memC', String.toList_append, memStr_toList]
  exact parse_line2 hs (by decide) (opTxt_mem hr i) (opTxt_reg hr1)

theorem reads_CMPI (r : Nat) (i : Int) (h : CodeOK (.CMPI r i)) : Reads (.CMPI r i) := by
  have hr : r < 16 := h.regs r (by simp [codeRegs])
  have hs : (printCode (.CMPI r i)).toList = line2 "cmp".toList (regC r) (immC i) := by
    simp [printCode, INDENT, line0, line1, line2, regC, immC, qmemC, relC, memC', String.toList_append, memStr_toList]
  exact parse_line2 hs (by decide) (opTxt_reg hr) (opTxt_imm i)

theorem reads_CMPIM (r : Nat) (i1 i2 : Int) (h : CodeOK (.CMPIM r i1 i2)) : Reads (.CMPIM r i1 i2) := by
  have hr : r < 16 := h.regs r (by simp [codeRegs])
  have hs : (printCode (.CMPIM r i1 i2)).toList = line2 "cmp".toList (qmemC r i1) (immC i2) := by
    simp [printCode, INDENT, line0, line1, line2, regC, immC, qmemC, relC, memC', String.toList_append, memStr_toList]
  exact parse_line2 hs (by decide) (opTxt_qmem hr i1) (opTxt_imm i2)

theorem reads_JEL (l : String) (h : CodeOK (.JEL l)) : Reads (.JEL l) := by
  have hl : symOKC l.toList := h.refs l rfl
  have hs : (printCode (.JEL l)).toList = line1 "je".toList l.toList := by
    simp [printCode, INDENT, line0, line1, line2, regC, immC, qmemC, relC, memC', String.toList_append, memStr_toList]
  have := parse_line1 hs (by decide) (opTxt_sym hl)
  simp only [String.ofList_toList] at this
  exact this

theorem reads_JNEL (l : String) (h : CodeOK (.JNEL l)) : Reads (.JNEL l) := by
  have hl : symOKC l.toList := h.refs l rfl
  have hs : (printCode (.JNEL l)).toList = line1 "jne".toList l.toList := by
    simp [printCode, INDENT, line0, line1, line2, regC, immC, qmemC, relC, memC', String.toList_append, memStr_toList]
  have := parse_line1 hs (by decide) (opTxt_sym hl)
  simp only [String.ofList_toList] at this
  exact this

theorem reads_JLL (l : String) (h : CodeOK (.JLL l)) : Reads (.JLL l) := by
  have hl : symOKC l.toList := h.refs l rfl
  have hs : (printCode (.JLL l)).toList = line1 "jl".toList l.toList := by
    simp [printCode, INDENT, line0, line1, line2, regC, immC, qmemC, relC, memC', String.toList_append, memStr_toList]
  have := parse_line1 hs (by decide) (opTxt_sym hl)
  simp only [String.ofList_toList] at this
  exact this

theorem reads_JLEL (l : String) (h : CodeOK (.JLEL l)) : Reads (.JLEL l) := by
  have hl : symOKC l.toList := h.refs l rfl
  have hs : (printCode (.JLEL l)).toList = line1 "jle".toList l.toList := by
    simp [printCode, INDENT, line0, line1, line2, regC, immC, qmemC, relC, memC', String.toList_append, memStr_toList]
  have := parse_line1 hs (by decide) (opTxt_sym hl)
  simp only [String.ofList_toList] at this
  exact this

theorem reads_JGL (l : String) (h : CodeOK (.JGL l)) : Reads (.JGL l) := by
  have hl : symOKC l.toList := h.refs l rfl
  have hs : (printCode (.JGL l)).toList = line1 "jg".toList l.toList := by
    simp [printCode, INDENT, line0, line1, line2, regC, immC, qmemC, relC, memC', String.toList_append, memStr_toList]
  have := parse_line1 hs (by decide) (opTxt_sym hl)
  simp only [String.ofList_toList] at this
  exact this

theorem reads_JGEL (l : String) (h : CodeOK (.JGEL l)) : Reads (.JGEL l) := by
  have hl : symOKC l.toList := h.refs l rfl
  have hs : (printCode (.JGEL l)).toList = line1 "jge".toList l.toList := by
    simp [printCode, INDENT, line0, line1, line2, regC, immC, qmemC, relC, memC', String.toList_append, memStr_toList]
  have := parse_line1 hs (by decide) (opTxt_sym hl)
  simp only [String.ofList_toList] at this
  exact this

theorem reads_PUSH (r : Nat) (h : CodeOK (.PUSH r)) : Reads (.PUSH r) := by
  have hr : r < 16 := h.regs r (by simp [codeRegs])
  have hs : (printCode (.PUSH r)).toList = line1 "push".toList (regC r) := by
    simp [printCode, INDENT, line0, line1, line2, regC, immC, qmemC, relC, memC', String.toList_append, memStr_toList]
  exact parse_line1 hs (by decide) (opTxt_reg hr)

theorem reads_POP (r : Nat) (h : CodeOK (.POP r)) : Reads (.POP r) := by
  have hr : r < 16 := h.regs r (by simp [codeRegs])
  have hs : (printCode (.POP r)).toList = line1 "pop".toList (regC r) := by
    simp [printCode, INDENT, line0, line1, line2, regC, immC, qmemC, relC, memC', String.toList_append, memStr_toList]
  exact parse_line1 hs (by decide) (opTxt_reg hr)

theorem reads_CALL (l : String) (h : CodeOK (.CALL l)) : Reads (.CALL l) := by
  have hl : symOKC l.toList := h.refs l rfl
  have hs : (printCode (.CALL l)).toList = line1 "call".toList l.toList := by
    simp [printCode, INDENT, line0, line1, line2, regC, immC, qmemC, relC, memC', String.toList_append, memStr_toList]
  have := parse_line1 hs (by decide) (opTxt_sym hl)
  simp only [String.ofList_toList] at this
  exact this

theorem reads_RET : Reads .RET := by
  have hs : (printCode .RET).toList = line0 "ret".toList := by
    simp [printCode, INDENT, line0, line1, line2, regC, immC, qmemC, relC, memC', String.toList_append, memStr_toList]
  exact parse_line0 hs (by decide)

theorem reads_NOEXECSTACK : Reads .NOEXECSTACK := by
  constructor
  · decide
  · decide

theorem reads_TEXT : Reads .TEXT := by
  constructor
  · decide
  · decide

theorem reads_GLOBAL (l : String) (h : CodeOK (.GLOBAL l)) : Reads (.GLOBAL l) := by
  have hl : symOKC l.toList := h.refs l rfl
  have hs : (printCode (.GLOBAL l)).toList = "global".toList ++ ' ' :: l.toList := by
    simp [printCode, String.toList_append]
  have := parse_global hs hl
  simp only [String.ofList_toList] at this
  exact this

theorem reads_EXTERN (f : String) (h : CodeOK (.EXTERN f)) : Reads (.EXTERN f) := by
  have hl : symOKC f.toList := h.ext f rfl
  have hs : (printCode (.EXTERN f)).toList = "extern".toList ++ ' ' :: f.toList := by
    simp [printCode, String.toList_append]
  have := parse_extern hs hl
  simp only [String.ofList_toList] at this
  exact this

/-- EVERY one-line item with text-safe operands is read back exactly -/
theorem parseLine_printCode (c : Code) (h : CodeOK c) (hlab : ∀ l, c ≠ .LAB l) (hcom : ∀ m, c ≠ .COMMENT m) :
    parseLine (printCode c) = some (some c) ∧ '\n' ∉ (printCode c).toList := by
  cases c with
  | ADD r r1 => exact reads_ADD r r1 h
  | ADDRM r r1 i => exact reads_ADDRM r r1 i h
  | ADDMR r1 i r => exact reads_ADDMR r1 i r h
  | ADDI r i => exact reads_ADDI r i h
  | ADDIM r i1 i2 => exact reads_ADDIM r i1 i2 h
  | SUB r r1 => exact reads_SUB r r1 h
  | SUBRM r r1 i => exact reads_SUBRM r r1 i h
  | SUBMR r1 i r => exact reads_SUBMR r1 i r h
  | SUBI r i => exact reads_SUBI r i h
  | IMUL r r1 => exact reads_IMUL r r1 h
  | IMULRM r r1 i => exact reads_IMULRM r r1 i h
  | IMULMR r1 i r => exact reads_IMULMR r1 i r h
  | IDIV r => exact reads_IDIV r h
  | IDIVM r i => exact reads_IDIVM r i h
  | CQO => exact reads_CQO
  | JMP r => exact reads_JMP r h
  | JMPL l => exact reads_JMPL l h
  | JMPLN l => exact reads_JMPLN l h
  | LEAL r l => exact reads_LEAL r l h
  | MOV r r1 => exact reads_MOV r r1 h
  | MOVS r r1 i => exact reads_MOVS r r1 i h
  | MOVL r r1 i => exact reads_MOVL r r1 i h
  | MOVI r i => exact reads_MOVI r i h
  | MOVIM r i1 i2 => exact reads_MOVIM r i1 i2 h
  | CMP r r1 => exact reads_CMP r r1 h
  | CMPRM r r1 i => exact reads_CMPRM r r1 i h
  | CMPMR r i r1 => exact reads_CMPMR r i r1 h
  | CMPI r i => exact reads_CMPI r i h
  | CMPIM r i1 i2 => exact reads_CMPIM r i1 i2 h
  | JEL l => exact reads_JEL l h
  | JNEL l => exact reads_JNEL l h
  | JLL l => exact reads_JLL l h
  | JLEL l => exact reads_JLEL l h
  | JGL l => exact reads_JGL l h
  | JGEL l => exact reads_JGEL l h
  | PUSH r => exact reads_PUSH r h
  | POP r => exact reads_POP r h
  | CALL f => exact reads_CALL f h
  | RET => exact reads_RET
  | LAB l => exact absurd rfl (hlab l)
  | NOEXECSTACK => exact reads_NOEXECSTACK
  | TEXT => exact reads_TEXT
  | GLOBAL l => exact reads_GLOBAL l h
  | EXTERN f => exact reads_EXTERN f h
  | COMMENT m => exact absurd rfl (hcom m)

/-- a printed label: an empty line, then `L:` which is read back as the label -/
theorem reads_LAB (l : String) (h : CodeOK (.LAB l)) :
    printCode (.LAB l) = "\n" ++ (l ++ ":") ∧
    parseLine (l ++ ":") = some (some (.LAB l)) ∧ '\n' ∉ (l ++ ":").toList := by
  have hl : symOKC l.toList := h.defs l rfl
  have hs : (l ++ ":").toList = l.toList ++ [':'] := by simp [String.toList_append]
  have := parse_label hs hl
  simp only [String.ofList_toList] at this
  refine ⟨?_, this⟩
  simp [printCode, String.append_assoc]

/-- a printed comment is ONE line that is read back as a comment -/
theorem reads_COMMENT (m : String) (h : CodeOK (.COMMENT m)) :
    (∃ m', parseLine (printCode (.COMMENT m)) = some (some (.COMMENT m'))) ∧
    '\n' ∉ (printCode (.COMMENT m)).toList := by
  have hs : (printCode (.COMMENT m)).toList = ' ' :: ' ' :: ' ' :: ' ' :: ';' :: ' ' :: m.toList := by
    simp [printCode, INDENT, String.toList_append]
  refine ⟨parse_comment hs, ?_⟩
  rw [hs]; intro hm
  simp only [List.mem_cons] at hm
  rcases hm with hm | hm | hm | hm | hm | hm | hm
  · revert hm; decide
  · revert hm; decide
  · revert hm; decide
  · revert hm; decide
  · revert hm; decide
  · revert hm; decide
  · exact h.comment m rfl hm

end Scc.X86.Loader
