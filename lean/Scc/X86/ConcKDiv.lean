/-
  Scc.X86.ConcKDiv — THE DIVISION FAULTS of the x86-64 SPEC machine: when the AxCut operator of an `op` statement is
  undefined (`Pos.evalOp` is `.error .divByZero` for a divisor 0, `.error .overflow` for MIN / −1; `div` and `rem`),
  the code of code.rs `div` / `rem` (the RETURN1 / RETURN2 / TEMP backup dance, `cqo`, `idiv`) runs — without fault —
  up to its `idiv`, and the `idiv` faults with `div-by-zero` resp. `div-overflow` (Scc/X86/Machine.lean `idivOp`).
  * `idivOp_fault`: `idiv` on rax = a, rdx = sign extension of a, divisor b with `Pos.evalOp o a b` undefined;
  * `binop_split`: `div` / `rem` = the prefix `divPre` (ending in `cqo`), the `idiv` (`divInstr`), a rest;
  * `t_divPre` (temporary level), `transfer_raw`, `op_fault` (machine): every placement of target and operands
    (`DivPlacement`: registers and spill slots, divisor in RETURN2 included).
  `Pos.stuck_op` (a stuck step of the positional machine on `divByZero` / `overflow` is an `op` with undefined
  operator) is that of Scc/A64/ConcKDiv.lean (about the positional machine only).
-/
import Scc.X86.ProofsTransfer
import Scc.A64.ConcKDiv

set_option linter.unusedVariables false
set_option linter.unusedSimpArgs false

namespace Scc.X86
open Scc.AxCut

/-- the fault texts of the two undefined cases -/
def divFault : Pos.Why → String
  | .overflow => "div-overflow"
  | _ => "div-by-zero"

theorem divFault_cases (w : Pos.Why) : divFault w = "div-by-zero" ∨ divFault w = "div-overflow" := by
  cases w <;> simp [divFault]

/-- an undefined `div` / `rem` of AxCut is a fault of `idiv` (rdx the sign extension of rax, as `cqo` leaves it) -/
theorem idivOp_fault {c : MachCfg} {s : State} {src : Loc} {o : BinOp} {a b : Word} {w : Pos.Why}
    (h4 : rd s 4 = .ok a) (h5 : rd s 5 = .ok (signExt a)) (hs : readLoc c s src = .ok b)
    (hev : Pos.evalOp o a b = .error w) :
    (o = .div ∨ o = .rem) ∧ idivOp c s src = .error (divFault w) := by
  have hmin : Pos.minInt = minInt64 := by decide
  have hm1 : (-1 : BitVec 64) = BitVec.ofInt 64 (-1) := by decide
  have hse : ¬ (signExt a ≠ (if a.slt 0 then BitVec.ofInt 64 (-1) else 0)) := by simp [signExt]
  cases o <;> simp only [Pos.evalOp] at hev
  case sum => cases hev
  case sub => cases hev
  case prod => cases hev
  all_goals
    refine ⟨by simp, ?_⟩
    unfold idivOp
    rw [h4, h5, hs]
    simp only
    rw [if_neg hse]
    split at hev
    · rename_i h1
      cases hev
      rw [if_pos h1]; rfl
    · rename_i h1
      split at hev
      · rename_i h2
        cases hev
        rw [if_neg h1]
        have h2' : (a = minInt64 && b = BitVec.ofInt 64 (-1)) = true := by
          rw [← hmin, ← hm1]; simp [h2.1, h2.2]
        rw [if_pos h2']; rfl
      · cases hev

/-! ## the anatomy of `div` / `rem` -/

/-- the `idiv` of code.rs `fn div` (the helper) -/
def divInstr : Temporary → Code
  | .reg r => if r = RETURN2 then .IDIV TEMP else .IDIV r
  | .spill p => .IDIVM STACK (stackOffset p)

/-- the temporary it divides by -/
def divOpnd (s2 : Temporary) : Temporary := if s2 = .reg 5 then .reg TEMP else s2

theorem divBy_eq (s2 : Temporary) : divBy s2 = [.CQO, divInstr s2] := by
  cases s2 with
  | reg r => by_cases e : r = RETURN2 <;> simp [divBy, divInstr, e]
  | spill p => rfl

theorem execCode_divInstr (c : MachCfg) (la : String → Option Nat) (s2 : Temporary) (s : State) :
    execCode c la (divInstr s2) s = seqNext (idivOp c s (opLoc (divOpnd s2))) := by
  cases s2 with
  | reg r =>
    by_cases e : r = RETURN2
    · subst e; rfl
    · have e' : ¬ (Temporary.reg r = Temporary.reg 5) := fun h => e (by injection h)
      simp only [divInstr, if_neg e, divOpnd, if_neg e']; rfl
  | spill p => rfl

theorem codeSize_divInstr (s2 : Temporary) : codeSize (divInstr s2) ≠ 0 := by
  cases s2 with
  | reg r => by_cases e : r = RETURN2 <;> simp [divInstr, e, codeSize]
  | spill p => simp [divInstr, codeSize]

/-- the code before the `idiv`: TEMP := RETURN2; t := RETURN1; RETURN1 := s1; cqo -/
def divPre (t s1 : Temporary) : List Code :=
  [Code.MOV TEMP RETURN2] ++ moveFromRegister t RETURN1 ++ moveToRegister RETURN1 s1 ++ [.CQO]

/-- the code after the `idiv` -/
def divPost (o : BinOp) (t : Temporary) : List Code :=
  (match o with | .div => [Code.MOV RETURN2 RETURN1] | _ => []) ++
  moveToRegister RETURN1 t ++ moveFromRegister t RETURN2 ++ [.MOV RETURN2 TEMP]

theorem binop_split {o : BinOp} (ho : o = .div ∨ o = .rem) (t s1 s2 : Temporary) :
    binop o t s1 s2 = divPre t s1 ++ divInstr s2 :: divPost o t := by
  rcases ho with rfl | rfl
  · simp [binop, div, divPre, divPost, divBy_eq, List.append_assoc]
  · simp [binop, rem, divPre, divPost, divBy_eq, List.append_assoc]

section Level
variable {la : String → Option Nat}

/-- the state before the `idiv` (temporary level): rax holds the dividend, rdx its sign extension, and the
divisor is where `divInstr` reads it -/
theorem t_divPre {τ : TState} {t s1 s2 : Temporary} (P : DivPlacement t s1 s2)
    {x y : Word} (hx : τ.val s1 = some x) (hy : τ.val s2 = some y) :
    ∃ τ', texecList la (divPre t s1) τ = some τ' ∧ τ'.val (.reg 4) = some x ∧
      τ'.val (.reg 5) = some (signExt x) ∧ τ'.val (divOpnd s2) = some y := by
  have o1 : OpndOK (.reg 1) := ⟨by decide, by decide⟩
  have o4 : OpndOK (.reg 4) := ⟨by decide, by decide⟩
  have o5 : OpndOK (.reg 5) := ⟨by decide, by decide⟩
  have hs1T : s1 ≠ .reg 1 := P.hs1.ne_temp
  have hs2T : s2 ≠ .reg 1 := P.hs2.ne_temp
  have htT : t ≠ .reg 1 := P.ht.ne_temp
  unfold divPre
  simp only [RETURN1_eq, RETURN2_eq, TEMP_eq]
  have e1 : texecList la [Code.MOV 1 5] τ = some (τ.set (.reg 1) (τ.val (.reg 5))) := by
    simp only [texecList_cons, texec_MOV, tmove, regOpnd_of o1, regOpnd_of o5, texecList]
  rw [texecList_append, texecList_append, texecList_append, e1]
  dsimp only
  rw [t_moveFromRegister o4 P.ht.opnd]
  dsimp only
  rw [t_moveToRegister o4 P.hs1.opnd]
  dsimp only
  have v1 : ((τ.set (.reg 1) (τ.val (.reg 5))).set t ((τ.set (.reg 1) (τ.val (.reg 5))).val
      (.reg 4))).val s1 = some x := by
    simp [P.t_ne_s1.symm, hs1T, hx]
  have v4 : (τ.set (.reg 1) (τ.val (.reg 5))).val (.reg 4) = τ.val (.reg 4) := by simp
  rw [v1, v4]
  have hx4 : (((τ.set (.reg 1) (τ.val (.reg 5))).set t (τ.val (.reg 4))).set (.reg 4)
      (some x)).val (.reg 4) = some x := by simp
  simp only [texecList_cons, texec_CQO, hx4, texecList]
  refine ⟨_, rfl, by simp, by simp, ?_⟩
  unfold divOpnd
  by_cases e : s2 = .reg 5
  · subst e
    rw [if_pos rfl]
    simp [TEMP_eq, htT.symm, hy]
  · rw [if_neg e]
    simp [e, P.s2_ne_ret1, P.t_ne_s2.symm, hs2T, hy]

end Level

/-- TRANSFER without a frame condition: a temporary-level execution from the view of `st` is an execution of the
machine, and the temporaries of the final state are those of the temporary level -/
theorem transfer_raw {c : MachCfg} {st : State} {sp : Word} (B : Boundary c st sp) (la : String → Option Nat)
    {codes : List Code} {τ' : TState} (hx : texecList la codes (tview sp st) = some τ') :
    ∃ st', execStraight c la codes st = .ok st' ∧ Boundary c st' sp ∧
      ∀ u, OpndOK u → tempVal sp st' u = τ'.val u := by
  obtain ⟨a', ea, ra, oa⟩ := tsim_execList B.sp la (trel_tview B) hx
  obtain ⟨st', es, rs, ss⟩ := sim_execList la (st.rel_view B.size) ea
  have hreg : ∀ r, r < 16 → st'.regs[r]? = some (a'.reg r) := rs.regs
  refine ⟨st', es, ⟨rs.size, ?_, B.sp⟩, ?_⟩
  · rw [hreg 0 (by decide), ra.rsp]
  · intro u hu
    cases u with
    | reg r => simp [tempVal, hreg r hu.2, ra.regs r hu.1 hu.2]
    | spill p => simp only [tempVal]; rw [rs.mem, ra.slots p hu]

theorem opndOK_divOpnd {s2 : Temporary} (h : OpndOK s2) : OpndOK (divOpnd s2) := by
  unfold divOpnd
  split
  · exact opndOK_temp
  · exact h

/-- code.rs `div` / `rem` ON AN UNDEFINED OPERATOR RUN INTO THE FAULT OF THEIR `idiv`, for every placement of the
target and the operands in registers or spill slots: the block splits into a prefix that executes, the faulting
`idiv`, and a rest -/
theorem op_fault {c : MachCfg} {la : String → Option Nat} {st : State} {sp : Word} (B : Boundary c st sp)
    (o : BinOp) {t s1 s2 : Temporary} (P : DivPlacement t s1 s2) {x y : Word}
    (hx : tempVal sp st s1 = some x) (hy : tempVal sp st s2 = some y) {w : Pos.Why}
    (hev : Pos.evalOp o x y = .error w) :
    ∃ (pre : List Code) (code : Code) (post : List Code) (st0 : State),
      binop o t s1 s2 = pre ++ code :: post ∧ execStraight c la pre st = .ok st0 ∧
      execCode c la code st0 = .error (divFault w) ∧ (∃ s, code = divInstr s) := by
  obtain ⟨τ', hτ, h4, h5, hd⟩ := t_divPre (la := la) (τ := tview sp st) P hx hy
  obtain ⟨st0, hex, B0, hv⟩ := transfer_raw B la hτ
  have o4 : OpndOK (.reg 4) := ⟨by decide, by decide⟩
  have o5 : OpndOK (.reg 5) := ⟨by decide, by decide⟩
  have r4 : rd st0 4 = .ok x := tempVal_readLoc B0 o4 (by rw [hv _ o4]; exact h4)
  have r5 : rd st0 5 = .ok (signExt x) := tempVal_readLoc B0 o5 (by rw [hv _ o5]; exact h5)
  have rs : readLoc c st0 (opLoc (divOpnd s2)) = .ok y :=
    tempVal_readLoc B0 (opndOK_divOpnd P.hs2.opnd) (by rw [hv _ (opndOK_divOpnd P.hs2.opnd)]; exact hd)
  obtain ⟨ho, hf⟩ := idivOp_fault r4 r5 rs hev
  refine ⟨divPre t s1, divInstr s2, divPost o t, st0, binop_split ho t s1 s2, hex, ?_, ⟨s2, rfl⟩⟩
  rw [execCode_divInstr, hf]
  rfl

end Scc.X86
