/-
  Scc.X86.ProofsFrame — the stack frame (spill area, config.rs stack_offset) and the
  TEMPORARY-LEVEL view of the machine: a state is a map `Temporary → Option Word` (registers
  rcx..r15 and spill slots 0..255 of the current frame) plus flags; `texec` gives the semantics of the
  instructions whose memory operands are rsp-relative spill slots.  `tsim_execList`: whatever the
  temporary-level view executes, the functional view `aexec` of Proofs.lean (hence the SPEC
  machine) executes with the same effect, leaving rsp and all stack memory outside the spill area
  unchanged.  The arithmetic / compare / move lemmas are proved on this level, where there is no
  address arithmetic and no side condition on rsp.
-/
import Scc.X86.Proofs

namespace Scc.X86

/-! ## the stack frame -/

/-- The configuration is sane: the heap region lies below the stack region, addresses fit. -/
structure CfgOK (c : MachCfg) : Prop where
  heapBelow : c.heapBase + c.heapBytes ≤ c.stackLow
  top : c.stackTop ≤ 2 ^ 63

theorem cfgOK_default : CfgOK {} := ⟨by decide, by decide⟩

/-- `sp` is a legal value of `rsp` at a statement boundary: 8-aligned, with the whole spill area
`[sp, sp + 2048)` inside the stack region. -/
structure SpOK (c : MachCfg) (sp : Word) : Prop where
  cfg : CfgOK c
  aligned : sp.toNat % 8 = 0
  low : c.stackLow ≤ sp.toNat
  high : sp.toNat + 2048 ≤ c.stackTop

/-- Byte address of spill slot `p` (config.rs stack_offset) when `rsp = sp`. -/
def slotAddr (sp : Word) (p : Nat) : Nat := sp.toNat + (2048 - 8 * (p + 1))

theorem stackOffset_eq (p : Nat) : stackOffset p = 2048 - 8 * ((p : Int) + 1) := by
  simp [stackOffset, SPILL_SPACE, consts]

theorem fitsI32_stackOffset {p : Nat} (hp : p < 256) : fitsI32 (stackOffset p) = true := by
  rw [stackOffset_eq]; simp [fitsI32]; omega

theorem slot_toNat {c : MachCfg} {sp : Word} (S : SpOK c sp) {p : Nat} (hp : p < 256) :
    (sp + BitVec.ofInt 64 (stackOffset p)).toNat = slotAddr sp p := by
  have h1 := S.high
  have h2 := S.cfg.top
  rw [stackOffset_eq]
  simp only [BitVec.toNat_add, BitVec.toNat_ofInt, slotAddr]
  have hsp : sp.toNat < 2 ^ 64 := sp.isLt
  omega

theorem aaddr_slot {c : MachCfg} {sp : Word} (S : SpOK c sp) {p : Nat} (hp : p < 256) :
    aaddr c (sp + BitVec.ofInt 64 (stackOffset p)) = some (slotAddr sp p) := by
  have h0 := S.aligned
  have h1 := S.high
  have h2 := S.low
  have h3 := S.cfg.heapBelow
  simp only [aaddr, slot_toNat S hp]
  have : slotAddr sp p % 8 = 0 ∧ inHeap c (slotAddr sp p) = false ∧ inStack c (slotAddr sp p) = true := by
    refine ⟨?_, ?_, ?_⟩
    · simp only [slotAddr]; omega
    · unfold inHeap slotAddr
      rw [Bool.and_eq_false_iff]; right
      rw [decide_eq_false_iff_not]; omega
    · unfold inStack slotAddr
      rw [Bool.and_eq_true, decide_eq_true_eq, decide_eq_true_eq]; omega
  simp [this]

theorem slotAddr_inj {sp : Word} {p q : Nat} (hp : p < 256) (hq : q < 256) :
    slotAddr sp p = slotAddr sp q ↔ p = q := by
  simp only [slotAddr]; omega


/-! ## the temporary-level view -/

structure TState where
  val : Temporary → Option Word
  flags : Option (Word × Word)

def TState.set (τ : TState) (t : Temporary) (v : Option Word) : TState :=
  { τ with val := fun u => if u = t then v else τ.val u }

@[simp] theorem TState.set_val (τ : TState) (t u : Temporary) (v : Option Word) :
    (τ.set t v).val u = if u = t then v else τ.val u := rfl
@[simp] theorem TState.set_flags (τ : TState) (t : Temporary) (v : Option Word) :
    (τ.set t v).flags = τ.flags := rfl

/-- The spill slot whose `stack_offset` is `i`. -/
def slotOfDisp (i : Int) : Option Nat :=
  if 0 ≤ i ∧ i < 2048 ∧ i % 8 = 0 then some ((2048 - i).toNat / 8 - 1) else none

theorem slotOfDisp_stackOffset {p : Nat} (hp : p < 256) : slotOfDisp (stackOffset p) = some p := by
  rw [stackOffset_eq]
  unfold slotOfDisp
  rw [if_pos (by omega)]
  congr 1
  omega

theorem slotOfDisp_spec {i : Int} {p : Nat} (h : slotOfDisp i = some p) :
    i = stackOffset p ∧ p < 256 := by
  unfold slotOfDisp at h
  split at h
  · rename_i hc
    cases h
    rw [stackOffset_eq]
    omega
  · cases h

/-- register operand (rsp is not an operand on this level) -/
def regOpnd (r : Nat) : Option Temporary := if 1 ≤ r ∧ r < 16 then some (.reg r) else none
/-- memory operand `[rsp + stack_offset p]` -/
def memOpnd (b : Nat) (i : Int) : Option Temporary :=
  if b = 0 then (slotOfDisp i).map Temporary.spill else none

/-- `dst := op dst src` on operands; both must be defined; flags become undefined -/
def talu (op : Word → Word → Word) (τ : TState) (dst : Option Temporary) (src : Option (Option Word)) :
    Option TState :=
  match dst, src with
  | some d, some (some y) =>
    match τ.val d with
    | some x => some { τ.set d (some (op x y)) with flags := none }
    | none => none
  | _, _ => none

def tsrc (τ : TState) (o : Option Temporary) : Option (Option Word) := o.map τ.val
def timm (i : Int) : Option (Option Word) := if fitsI32 i then some (some (BitVec.ofInt 64 i)) else none

def tcmp (τ : TState) (l : Option Temporary) (src : Option (Option Word)) : Option TState :=
  match l, src with
  | some d, some (some y) =>
    match τ.val d with
    | some x => some { τ with flags := some (x, y) }
    | none => none
  | _, _ => none

def tidiv (τ : TState) (src : Option Temporary) : Option TState :=
  match τ.val (.reg 4), τ.val (.reg 5), src with
  | some x, some d, some s =>
    match τ.val s with
    | some y =>
      if d ≠ signExt x then none
      else if y = 0 then none
      else if x = minInt64 && y = BitVec.ofInt 64 (-1) then none
      else some { (τ.set (.reg 4) (some (x.sdiv y))).set (.reg 5) (some (x.srem y)) with flags := none }
    | none => none
  | _, _, _ => none

def tmove (τ : TState) (dst src : Option Temporary) : Option TState :=
  match dst, src with
  | some d, some s => some (τ.set d (τ.val s))
  | _, _ => none

/-- Temporary-level semantics (fall-through instructions with register / spill-slot operands). -/
def texec (la : String → Option Nat) (code : Code) (τ : TState) : Option TState :=
  match code with
  | .ADD r r1 => talu (· + ·) τ (regOpnd r) (tsrc τ (regOpnd r1))
  | .ADDRM r b i => talu (· + ·) τ (regOpnd r) (tsrc τ (memOpnd b i))
  | .ADDMR b i r => talu (· + ·) τ (memOpnd b i) (tsrc τ (regOpnd r))
  | .ADDI r i => talu (· + ·) τ (regOpnd r) (timm i)
  | .SUB r r1 => talu (· - ·) τ (regOpnd r) (tsrc τ (regOpnd r1))
  | .SUBRM r b i => talu (· - ·) τ (regOpnd r) (tsrc τ (memOpnd b i))
  | .SUBMR b i r => talu (· - ·) τ (memOpnd b i) (tsrc τ (regOpnd r))
  | .SUBI r i => talu (· - ·) τ (regOpnd r) (timm i)
  | .IMUL r r1 => talu (· * ·) τ (regOpnd r) (tsrc τ (regOpnd r1))
  | .IMULRM r b i => talu (· * ·) τ (regOpnd r) (tsrc τ (memOpnd b i))
  | .IDIV r => tidiv τ (regOpnd r)
  | .IDIVM b i => tidiv τ (memOpnd b i)
  | .CQO =>
    match τ.val (.reg 4) with
    | some x => some (τ.set (.reg 5) (some (signExt x)))
    | none => none
  | .LEAL r l =>
    match la l, regOpnd r with
    | some n, some d => some (τ.set d (some (BitVec.ofNat 64 n)))
    | _, _ => none
  | .MOV r r1 => tmove τ (regOpnd r) (regOpnd r1)
  | .MOVS r b i => tmove τ (memOpnd b i) (regOpnd r)
  | .MOVL r b i => tmove τ (regOpnd r) (memOpnd b i)
  | .MOVI r i =>
    match regOpnd r with
    | some d => if fitsI64 i then some (τ.set d (some (BitVec.ofInt 64 i))) else none
    | none => none
  | .MOVIM b i1 i2 =>
    match memOpnd b i1 with
    | some d => if fitsI32 i2 then some (τ.set d (some (BitVec.ofInt 64 i2))) else none
    | none => none
  | .CMP r r1 => tcmp τ (regOpnd r) (tsrc τ (regOpnd r1))
  | .CMPRM r b i => tcmp τ (regOpnd r) (tsrc τ (memOpnd b i))
  | .CMPMR b i r1 => tcmp τ (memOpnd b i) (tsrc τ (regOpnd r1))
  | .CMPI r i => tcmp τ (regOpnd r) (timm i)
  | .CMPIM b i1 i2 => tcmp τ (memOpnd b i1) (timm i2)
  | .LAB _ | .NOEXECSTACK | .TEXT | .GLOBAL _ | .EXTERN _ | .COMMENT _ => some τ
  | _ => none

def texecList (la : String → Option Nat) : List Code → TState → Option TState
  | [], τ => some τ
  | code :: rest, τ =>
    match texec la code τ with
    | some τ1 => texecList la rest τ1
    | none => none

theorem texecList_append (la : String → Option Nat) (l1 l2 : List Code) (τ : TState) :
    texecList la (l1 ++ l2) τ =
      match texecList la l1 τ with
      | some τ1 => texecList la l2 τ1
      | none => none := by
  induction l1 generalizing τ with
  | nil => simp [texecList]
  | cons code rest ih =>
    simp only [List.cons_append, texecList]
    cases texec la code τ <;> simp [ih]

/-! ## simulation: temporary level → functional view -/

/-- `a` (with `rsp = sp`) is viewed as `τ`. -/
structure TRel (sp : Word) (a : AState) (τ : TState) : Prop where
  rsp : a.reg 0 = some sp
  regs : ∀ r, 1 ≤ r → r < 16 → a.reg r = τ.val (.reg r)
  slots : ∀ p, p < 256 → a.mem (slotAddr sp p) = τ.val (.spill p)
  flags : a.flags = τ.flags

/-- Stack memory outside the spill area of the frame is untouched. -/
def OutsideSame (sp : Word) (a a' : AState) : Prop :=
  ∀ n, (∀ p, p < 256 → n ≠ slotAddr sp p) → a'.mem n = a.mem n

theorem OutsideSame.refl (sp : Word) (a : AState) : OutsideSame sp a a := fun _ _ => rfl
theorem OutsideSame.trans {sp : Word} {a1 a2 a3 : AState} (h1 : OutsideSame sp a1 a2)
    (h2 : OutsideSame sp a2 a3) : OutsideSame sp a1 a3 :=
  fun n hn => (h2 n hn).trans (h1 n hn)

/-- the operand as a machine location -/
def opLoc : Temporary → Loc
  | .reg r => .r r
  | .spill p => .m 0 (stackOffset p)

/-- raw (possibly undefined) read / write of an operand on the functional view -/
def areadRawT (c : MachCfg) (a : AState) : Temporary → Option (Option Word)
  | .reg r => ardRaw a r
  | .spill p => match aea a 0 (stackOffset p) with
    | some w => aloadRaw c a w
    | none => none

def awriteRawT (c : MachCfg) (a : AState) (t : Temporary) (v : Option Word) : Option AState :=
  match t with
  | .reg r => awrRaw a r v
  | .spill p => match aea a 0 (stackOffset p) with
    | some w => astoreRaw c a w v
    | none => none

section TSim
variable {c : MachCfg} {sp : Word} {a : AState} {τ : TState}

theorem regOpnd_spec {r : Nat} {t : Temporary} (h : regOpnd r = some t) :
    t = .reg r ∧ 1 ≤ r ∧ r < 16 := by
  unfold regOpnd at h
  split at h
  · rename_i hc; cases h; exact ⟨rfl, hc⟩
  · cases h

theorem memOpnd_spec {b : Nat} {i : Int} {t : Temporary} (h : memOpnd b i = some t) :
    ∃ p, t = .spill p ∧ b = 0 ∧ i = stackOffset p ∧ p < 256 := by
  unfold memOpnd at h
  split at h
  · rename_i hb
    cases hs : slotOfDisp i with
    | none => simp [hs] at h
    | some p =>
      simp [hs] at h
      obtain ⟨h1, h2⟩ := slotOfDisp_spec hs
      exact ⟨p, h.symm, hb, h1, h2⟩
  · cases h

/-- an operand that the temporary level can address -/
def OpndOK : Temporary → Prop
  | .reg r => 1 ≤ r ∧ r < 16
  | .spill p => p < 256

theorem aea_slot' (h : TRel sp a τ) {p : Nat} (hp : p < 256) :
    aea a 0 (stackOffset p) = some (sp + BitVec.ofInt 64 (stackOffset p)) := by
  simp [aea, ard, h.rsp, aimm32, fitsI32_stackOffset hp]

/-- raw read of an operand -/
theorem t_readRaw (S : SpOK c sp) (h : TRel sp a τ) {t : Temporary} (ht : OpndOK t) :
    areadRawT c a t = some (τ.val t) := by
  cases t with
  | reg r => simp [areadRawT, ardRaw, ht.2, h.regs r ht.1 ht.2]
  | spill p => simp [areadRawT, aea_slot' h ht, aloadRaw, aaddr_slot S ht, h.slots p ht]

theorem t_readLoc (S : SpOK c sp) (h : TRel sp a τ) {t : Temporary} (ht : OpndOK t) :
    areadLoc c a (opLoc t) = τ.val t := by
  cases t with
  | reg r => simp [opLoc, areadLoc, ard, ht.2, h.regs r ht.1 ht.2]
  | spill p =>
    simp only [opLoc, areadLoc, aea_slot' h ht, aload, aloadRaw, aaddr_slot S ht, h.slots p ht]
    cases τ.val (.spill p) <;> rfl

theorem TRel.set_reg (h : TRel sp a τ) {r : Nat} (h1 : 1 ≤ r) (v : Option Word) :
    TRel sp (a.setReg r v) (τ.set (.reg r) v) := by
  refine ⟨?_, ?_, ?_, h.flags⟩
  · have : ¬ (0 = r) := by omega
    simp [this, h.rsp]
  · intro r' h1' h2'
    by_cases e : r' = r
    · subst e; simp
    · have : Temporary.reg r' ≠ Temporary.reg r := fun x => e (by injection x)
      simp [e, this, h.regs r' h1' h2']
  · intro p hp
    simp [h.slots p hp]

theorem TRel.set_slot (h : TRel sp a τ) {p : Nat} (hp : p < 256) (v : Option Word) :
    TRel sp (a.setMem (slotAddr sp p) v) (τ.set (.spill p) v) := by
  refine ⟨by simp [h.rsp], ?_, ?_, h.flags⟩
  · intro r h1 h2
    simp [h.regs r h1 h2]
  · intro q hq
    by_cases e : q = p
    · subst e; simp
    · have : Temporary.spill q ≠ Temporary.spill p := fun x => e (by injection x)
      have : slotAddr sp q ≠ slotAddr sp p := fun x => e ((slotAddr_inj hq hp).1 x)
      simp [*, h.slots q hq]

theorem TRel.set_flags (h : TRel sp a τ) (f : Option (Word × Word)) :
    TRel sp { a with flags := f } { τ with flags := f } :=
  ⟨h.rsp, h.regs, h.slots, rfl⟩

/-- raw write of an operand -/
theorem t_writeRaw (S : SpOK c sp) (h : TRel sp a τ) {t : Temporary} (ht : OpndOK t) (v : Option Word) :
    ∃ a', awriteRawT c a t v = some a' ∧ TRel sp a' (τ.set t v) ∧ OutsideSame sp a a' := by
  cases t with
  | reg r =>
    exact ⟨a.setReg r v, by simp [awriteRawT, awrRaw, ht.2], h.set_reg ht.1 v, fun _ _ => rfl⟩
  | spill p =>
    refine ⟨a.setMem (slotAddr sp p) v, by simp [awriteRawT, aea_slot' h ht, astoreRaw, aaddr_slot S ht],
      h.set_slot ht v, ?_⟩
    intro n hn
    simp [hn p ht]

theorem t_writeLoc (S : SpOK c sp) (h : TRel sp a τ) {t : Temporary} (ht : OpndOK t) (v : Word) :
    ∃ a', awriteLoc c a (opLoc t) v = some a' ∧ TRel sp a' (τ.set t (some v)) ∧ OutsideSame sp a a' := by
  obtain ⟨a', e, r, o⟩ := t_writeRaw S h ht (some v)
  refine ⟨a', ?_, r, o⟩
  cases t with
  | reg r => exact e
  | spill p => exact e

theorem regOpnd_ok {r : Nat} {t : Temporary} (h : regOpnd r = some t) : OpndOK t ∧ opLoc t = .r r := by
  obtain ⟨rfl, h1, h2⟩ := regOpnd_spec h
  exact ⟨⟨h1, h2⟩, rfl⟩

theorem memOpnd_ok {b : Nat} {i : Int} {t : Temporary} (h : memOpnd b i = some t) :
    OpndOK t ∧ opLoc t = .m b i := by
  obtain ⟨p, e1, e2, e3, hp⟩ := memOpnd_spec h
  rw [e1, e2, e3]
  exact ⟨hp, rfl⟩

/-- `talu` is simulated by `aalu` -/
theorem tsim_alu (S : SpOK c sp) (h : TRel sp a τ) {op : Word → Word → Word}
    {dst : Option Temporary} {dl : Loc} (hdst : ∀ t, dst = some t → OpndOK t ∧ opLoc t = dl)
    {src : Option (Option Word)} {sl : Src} (hsrc : ∀ y, src = some (some y) → areadSrc c a sl = some y)
    {τ' : TState} (hx : talu op τ dst src = some τ') :
    ∃ a', aalu c op a dl sl = some a' ∧ TRel sp a' τ' ∧ OutsideSame sp a a' := by
  unfold talu at hx
  split at hx
  · rename_i d y
    obtain ⟨hd, rfl⟩ := hdst d rfl
    split at hx
    · rename_i x hvx
      cases hx
      obtain ⟨a1, e1, r1, o1⟩ := t_writeLoc S h hd (op x y)
      refine ⟨{ a1 with flags := none }, ?_, r1.set_flags none, o1⟩
      simp [aalu, t_readLoc S h hd, hvx, hsrc y rfl, e1]
    · cases hx
  · cases hx

theorem tsrc_reg (S : SpOK c sp) (h : TRel sp a τ) {r : Nat} (y : Word)
    (hy : tsrc τ (regOpnd r) = some (some y)) : areadSrc c a (.loc (.r r)) = some y := by
  cases ho : regOpnd r with
  | none => simp [tsrc, ho] at hy
  | some t =>
    obtain ⟨hok, hl⟩ := regOpnd_ok ho
    simp only [tsrc, ho, Option.map_some, Option.some.injEq] at hy
    simp [areadSrc, ← hl, t_readLoc S h hok, hy]

theorem tsrc_mem (S : SpOK c sp) (h : TRel sp a τ) {b : Nat} {i : Int} (y : Word)
    (hy : tsrc τ (memOpnd b i) = some (some y)) : areadSrc c a (.loc (.m b i)) = some y := by
  cases ho : memOpnd b i with
  | none => simp [tsrc, ho] at hy
  | some t =>
    obtain ⟨hok, hl⟩ := memOpnd_ok ho
    simp only [tsrc, ho, Option.map_some, Option.some.injEq] at hy
    simp [areadSrc, ← hl, t_readLoc S h hok, hy]

theorem tsrc_imm {i : Int} (y : Word) (hy : timm i = some (some y)) :
    areadSrc c a (.imm i) = some y := by
  unfold timm at hy
  split at hy
  · rename_i hf
    simp only [Option.some.injEq] at hy
    simp [areadSrc, aimm32, hf, hy]
  · cases hy

theorem tsim_cmp (S : SpOK c sp) (h : TRel sp a τ)
    {dst : Option Temporary} {dl : Loc} (hdst : ∀ t, dst = some t → OpndOK t ∧ opLoc t = dl)
    {src : Option (Option Word)} {sl : Src} (hsrc : ∀ y, src = some (some y) → areadSrc c a sl = some y)
    {τ' : TState} (hx : tcmp τ dst src = some τ') :
    ∃ a', acmp c a dl sl = some a' ∧ TRel sp a' τ' ∧ OutsideSame sp a a' := by
  unfold tcmp at hx
  split at hx
  · rename_i d y
    obtain ⟨hd, rfl⟩ := hdst d rfl
    split at hx
    · rename_i x hvx
      cases hx
      exact ⟨{ a with flags := some (x, y) }, by simp [acmp, t_readLoc S h hd, hvx, hsrc y rfl],
        h.set_flags _, fun _ _ => rfl⟩
    · cases hx
  · cases hx

theorem tsim_idiv (S : SpOK c sp) (h : TRel sp a τ)
    {src : Option Temporary} {sl : Loc} (hsrc : ∀ t, src = some t → OpndOK t ∧ opLoc t = sl)
    {τ' : TState} (hx : tidiv τ src = some τ') :
    ∃ a', aidiv c a sl = some a' ∧ TRel sp a' τ' ∧ OutsideSame sp a a' := by
  unfold tidiv at hx
  split at hx
  · rename_i x d s h4 h5
    obtain ⟨hs, rfl⟩ := hsrc s rfl
    split at hx
    · rename_i y hvy
      split at hx
      · cases hx
      · rename_i hd
        split at hx
        · cases hx
        · rename_i hy0
          split at hx
          · cases hx
          · rename_i hov
            cases hx
            have r1 := (h.set_reg (by decide : 1 ≤ 4) (some (x.sdiv y)))
            have r2 := (r1.set_reg (by decide : 1 ≤ 5) (some (x.srem y)))
            refine ⟨_, ?_, r2.set_flags none, fun _ _ => rfl⟩
            have e4 : a.reg 4 = some x := by rw [h.regs 4 (by decide) (by decide)]; exact h4
            have e5 : a.reg 5 = some d := by rw [h.regs 5 (by decide) (by decide)]; exact h5
            simp only [aidiv, ard, e4, e5, t_readLoc S h hs, hvy]
            simp only [show (4 : Nat) < 16 by decide, show (5 : Nat) < 16 by decide, if_true]
            rw [if_neg hd, if_neg hy0, if_neg hov]
            simp [awr, awrRaw]
    · cases hx
  · cases hx

theorem tsim_move (S : SpOK c sp) (h : TRel sp a τ) {d s : Temporary} (hd : OpndOK d) (hs : OpndOK s) :
    ∃ a', TRel sp a' (τ.set d (τ.val s)) ∧ OutsideSame sp a a' ∧
      awriteRawT c a d (τ.val s) = some a' := by
  obtain ⟨a', e, r, o⟩ := t_writeRaw S h hd (τ.val s)
  exact ⟨a', r, o, e⟩

/-- SIMULATION: temporary level → functional view. -/
theorem tsim_exec (S : SpOK c sp) (la : String → Option Nat) (h : TRel sp a τ) {code : Code}
    {τ' : TState} (hx : texec la code τ = some τ') :
    ∃ a', aexec c la code a = some a' ∧ TRel sp a' τ' ∧ OutsideSame sp a a' := by
  cases code <;> simp only [texec] at hx
  case ADD r r1 => exact tsim_alu S h (fun t e => regOpnd_ok e) (tsrc_reg S h) hx
  case ADDRM r b i => exact tsim_alu S h (fun t e => regOpnd_ok e) (tsrc_mem S h) hx
  case ADDMR b i r => exact tsim_alu S h (fun t e => memOpnd_ok e) (tsrc_reg S h) hx
  case ADDI r i => exact tsim_alu S h (fun t e => regOpnd_ok e) tsrc_imm hx
  case SUB r r1 => exact tsim_alu S h (fun t e => regOpnd_ok e) (tsrc_reg S h) hx
  case SUBRM r b i => exact tsim_alu S h (fun t e => regOpnd_ok e) (tsrc_mem S h) hx
  case SUBMR b i r => exact tsim_alu S h (fun t e => memOpnd_ok e) (tsrc_reg S h) hx
  case SUBI r i => exact tsim_alu S h (fun t e => regOpnd_ok e) tsrc_imm hx
  case IMUL r r1 => exact tsim_alu S h (fun t e => regOpnd_ok e) (tsrc_reg S h) hx
  case IMULRM r b i => exact tsim_alu S h (fun t e => regOpnd_ok e) (tsrc_mem S h) hx
  case IDIV r => exact tsim_idiv S h (fun t e => regOpnd_ok e) hx
  case IDIVM b i => exact tsim_idiv S h (fun t e => memOpnd_ok e) hx
  case CQO =>
    split at hx
    · rename_i x h4
      cases hx
      have e4 : a.reg 4 = some x := by rw [h.regs 4 (by decide) (by decide)]; exact h4
      exact ⟨a.setReg 5 (some (signExt x)), by simp [aexec, ard, e4, awr, awrRaw],
        h.set_reg (by decide) _, fun _ _ => rfl⟩
    · cases hx
  case LEAL r l =>
    split at hx
    · rename_i n d hl hr
      cases hx
      obtain ⟨rfl, h1, h2⟩ := regOpnd_spec hr
      exact ⟨a.setReg r (some (BitVec.ofNat 64 n)), by simp [aexec, hl, awr, awrRaw, h2],
        h.set_reg h1 _, fun _ _ => rfl⟩
    · cases hx
  case MOV r r1 =>
    unfold tmove at hx
    split at hx
    · rename_i d s hd hs
      cases hx
      obtain ⟨rfl, h1, h2⟩ := regOpnd_spec hd
      obtain ⟨rfl, h1', h2'⟩ := regOpnd_spec hs
      refine ⟨a.setReg r (a.reg r1), by simp [aexec, ardRaw, awrRaw, h2, h2'], ?_, fun _ _ => rfl⟩
      rw [h.regs r1 h1' h2']
      exact h.set_reg h1 _
    · cases hx
  case MOVS r b i =>
    unfold tmove at hx
    split at hx
    · rename_i d s hd hs
      cases hx
      obtain ⟨p, e1, e2, e3, hp⟩ := memOpnd_spec hd
      rw [e1, e2, e3]
      obtain ⟨rfl, h1, h2⟩ := regOpnd_spec hs
      obtain ⟨a', r', o', e'⟩ := tsim_move (c := c) S h (d := .spill p) (s := .reg r) hp ⟨h1, h2⟩
      refine ⟨a', ?_, r', o'⟩
      simp only [aexec, ardRaw, h2, if_true, h.regs r h1 h2]
      simp only [awriteRawT, aea_slot' h hp] at e' ⊢
      exact e'
    · cases hx
  case MOVL r b i =>
    unfold tmove at hx
    split at hx
    · rename_i d s hd hs
      cases hx
      obtain ⟨rfl, h1, h2⟩ := regOpnd_spec hd
      obtain ⟨p, e1, e2, e3, hp⟩ := memOpnd_spec hs
      rw [e1, e2, e3]
      refine ⟨a.setReg r (a.mem (slotAddr sp p)),
        by simp [aexec, aea_slot' h hp, aloadRaw, aaddr_slot S hp, awrRaw, h2], ?_, fun _ _ => rfl⟩
      rw [h.slots p hp]
      exact h.set_reg h1 _
    · cases hx
  case MOVI r i =>
    split at hx
    · rename_i d hd
      split at hx
      · rename_i hf
        cases hx
        obtain ⟨rfl, h1, h2⟩ := regOpnd_spec hd
        exact ⟨a.setReg r (some (BitVec.ofInt 64 i)), by simp [aexec, hf, awr, awrRaw, h2],
          h.set_reg h1 _, fun _ _ => rfl⟩
      · cases hx
    · cases hx
  case MOVIM b i1 i2 =>
    split at hx
    · rename_i d hd
      split at hx
      · rename_i hf
        cases hx
        obtain ⟨hok, hl⟩ := memOpnd_ok hd
        obtain ⟨a', e, r', o'⟩ := t_writeLoc (c := c) S h hok (BitVec.ofInt 64 i2)
        exact ⟨a', by simp [aexec, aimm32, hf, ← hl, e], r', o'⟩
      · cases hx
    · cases hx
  case CMP r r1 => exact tsim_cmp S h (fun t e => regOpnd_ok e) (tsrc_reg S h) hx
  case CMPRM r b i => exact tsim_cmp S h (fun t e => regOpnd_ok e) (tsrc_mem S h) hx
  case CMPMR b i r1 => exact tsim_cmp S h (fun t e => memOpnd_ok e) (tsrc_reg S h) hx
  case CMPI r i => exact tsim_cmp S h (fun t e => regOpnd_ok e) tsrc_imm hx
  case CMPIM b i1 i2 => exact tsim_cmp S h (fun t e => memOpnd_ok e) tsrc_imm hx
  case LAB l => cases hx; exact ⟨a, rfl, h, fun _ _ => rfl⟩
  case NOEXECSTACK => cases hx; exact ⟨a, rfl, h, fun _ _ => rfl⟩
  case TEXT => cases hx; exact ⟨a, rfl, h, fun _ _ => rfl⟩
  case GLOBAL l => cases hx; exact ⟨a, rfl, h, fun _ _ => rfl⟩
  case EXTERN l => cases hx; exact ⟨a, rfl, h, fun _ _ => rfl⟩
  case COMMENT l => cases hx; exact ⟨a, rfl, h, fun _ _ => rfl⟩
  all_goals cases hx

theorem tsim_execList (S : SpOK c sp) (la : String → Option Nat) {codes : List Code}
    (h : TRel sp a τ) {τ' : TState} (hx : texecList la codes τ = some τ') :
    ∃ a', aexecList c la codes a = some a' ∧ TRel sp a' τ' ∧ OutsideSame sp a a' := by
  induction codes generalizing a τ with
  | nil => cases hx; exact ⟨a, rfl, h, OutsideSame.refl sp a⟩
  | cons code rest ih =>
    simp only [texecList] at hx
    split at hx
    · rename_i τ1 h1
      obtain ⟨a1, e1, r1, o1⟩ := tsim_exec S la h h1
      obtain ⟨a2, e2, r2, o2⟩ := ih r1 hx
      exact ⟨a2, by simp [aexecList, e1, e2], r2, o1.trans o2⟩
    · cases hx

end TSim

end Scc.X86
