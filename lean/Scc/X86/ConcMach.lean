/-
  Scc.X86.ConcMach — two generic facts about the x86-64 SPEC machine (Scc/X86/Machine.lean), for ANY program:
  * `maxHeapWritten ≤ heapBytes` is an invariant of `step` (a store outside the heap region faults): the
    highest heap address ever written lies inside the heap region;
  * MONOTONICITY IN THE HEAP SIZE: a transition that does not fault in a configuration with a SMALLER heap
    region (same base, same stack, heap below the stack) is the same transition in the larger configuration
    (`Sub c' c`); hence a run that ends with `done v` in the smaller heap is, state by state, the run in the
    larger heap, with the same `maxHeapWritten`.
-/
import Scc.X86.ProofsStep

set_option linter.unusedVariables false
set_option linter.unusedSimpArgs false

namespace Scc.X86.Conc

open Scc.X86

/-- `c'` is `c` with a smaller heap region -/
structure Sub (c' c : MachCfg) : Prop where
  code : c'.codeBase = c.codeBase
  base : c'.heapBase = c.heapBase
  bytes : c'.heapBytes ≤ c.heapBytes
  low : c'.stackLow = c.stackLow
  top : c'.stackTop = c.stackTop
  below : c.heapBase + c.heapBytes ≤ c.stackLow

variable {c' c : MachCfg}

/-! ## the bound on `maxHeapWritten` -/

/-- the highest heap address written lies inside the heap region -/
def MhwOK (c : MachCfg) (s : State) : Prop := s.maxHeapWritten ≤ c.heapBytes

theorem wrRaw_mhw {s s' : State} {r : Reg} {v : Option Word} (h : wrRaw s r v = .ok s') :
    s'.maxHeapWritten = s.maxHeapWritten := by
  unfold wrRaw at h
  split at h
  · cases h; rfl
  · cases h

theorem wr_mhw {s s' : State} {r : Reg} {v : Word} (h : wr s r v = .ok s') :
    s'.maxHeapWritten = s.maxHeapWritten := wrRaw_mhw h

theorem storeWordRaw_mhw {s s' : State} {a : Word} {v : Option Word} (h : storeWordRaw c s a v = .ok s')
    (hs : MhwOK c s) : MhwOK c s' := by
  unfold storeWordRaw at h
  dsimp only at h
  split at h
  · cases h
  · split at h
    · rename_i hin
      cases v with
      | none => cases h
      | some w =>
        cases h
        unfold MhwOK at *
        unfold inHeap at hin
        simp only [Bool.and_eq_true, decide_eq_true_eq] at hin
        show max s.maxHeapWritten _ ≤ _
        omega
    · split at h
      · cases h; exact hs
      · cases h

theorem writeLoc_mhw {s s' : State} {l : Loc} {v : Word} (h : writeLoc c s l v = .ok s') (hs : MhwOK c s) :
    MhwOK c s' := by
  cases l with
  | r r =>
    have := wr_mhw (show wr s r v = .ok s' from h)
    unfold MhwOK at *; omega
  | m b d =>
    simp only [writeLoc] at h
    cases he : ea s b d with
    | error e => rw [he] at h; cases h
    | ok a => rw [he] at h; exact storeWordRaw_mhw h hs

theorem alu_mhw {op : Word → Word → Word} {s s' : State} {dst : Loc} {src : Src}
    (h : alu c op s dst src = .ok s') (hs : MhwOK c s) : MhwOK c s' := by
  unfold alu at h
  cases h1 : readLoc c s dst with
  | error e => rw [h1] at h; cases h
  | ok a =>
    rw [h1] at h; dsimp only at h
    cases h2 : readSrc c s src with
    | error e => rw [h2] at h; cases h
    | ok b =>
      rw [h2] at h; dsimp only at h
      cases h3 : writeLoc c s dst (op a b) with
      | error e => rw [h3] at h; cases h
      | ok s1 =>
        rw [h3] at h; cases h
        have := writeLoc_mhw h3 hs
        exact this

theorem cmpOp_mhw {s s' : State} {a : Loc} {b : Src} (h : cmpOp c s a b = .ok s') (hs : MhwOK c s) :
    MhwOK c s' := by
  unfold cmpOp at h
  cases h1 : readLoc c s a with
  | error e => rw [h1] at h; cases h
  | ok x =>
    rw [h1] at h; dsimp only at h
    cases h2 : readSrc c s b with
    | error e => rw [h2] at h; cases h
    | ok y => rw [h2] at h; cases h; exact hs

theorem idivOp_mhw {s s' : State} {src : Loc} (h : idivOp c s src = .ok s') (hs : MhwOK c s) :
    MhwOK c s' := by
  unfold idivOp at h
  cases h1 : rd s 4 with
  | error e => rw [h1] at h; cases h
  | ok a =>
    cases h2 : rd s 5 with
    | error e => rw [h1, h2] at h; cases h
    | ok d =>
      cases h3 : readLoc c s src with
      | error e => rw [h1, h2, h3] at h; cases h
      | ok b =>
        rw [h1, h2, h3] at h
        dsimp only at h
        by_cases hd : d ≠ (if a.slt 0 then BitVec.ofInt 64 (-1) else 0)
        · rw [if_pos hd] at h; cases h
        · rw [if_neg hd] at h
          by_cases hb : b = 0
          · rw [if_pos hb] at h; cases h
          · rw [if_neg hb] at h
            by_cases ho : (a = minInt64 && b = BitVec.ofInt 64 (-1)) = true
            · rw [if_pos ho] at h; cases h
            · rw [if_neg ho] at h
              cases h4 : wr s 4 (a.sdiv b) with
              | error e => rw [h4] at h; cases h
              | ok s1 =>
                rw [h4] at h; dsimp only at h
                cases h5 : wr s1 5 (a.srem b) with
                | error e => rw [h5] at h; cases h
                | ok s2 =>
                  rw [h5] at h; cases h
                  have e1 := wr_mhw h4
                  have e2 := wr_mhw h5
                  unfold MhwOK at *
                  show s2.maxHeapWritten ≤ _
                  omega

theorem seqNext_ok {r : M State} {s' : State} {ctl : Ctl} (h : seqNext r = .ok (s', ctl)) : r = .ok s' := by
  unfold seqNext at h
  cases r with
  | error e => cases h
  | ok s => cases h; rfl

theorem jcc_state {s s' : State} {cond : Word → Word → Bool} {l : String} {ctl : Ctl}
    (h : jcc s cond l = .ok (s', ctl)) : s' = s := by
  unfold jcc at h
  cases hf : s.flags with
  | none => rw [hf] at h; cases h
  | some ab => rw [hf] at h; cases h; rfl

theorem execCode_mhw {la : String → Option Nat} {code : Code} {s s' : State} {ctl : Ctl}
    (h : execCode c la code s = .ok (s', ctl)) (hs : MhwOK c s) : MhwOK c s' := by
  have hw : ∀ {r : Reg} {v : Option Word} {s1 s2 : State}, MhwOK c s1 → wrRaw s1 r v = .ok s2 → MhwOK c s2 := by
    intro r v s1 s2 h1 h2
    have := wrRaw_mhw h2
    unfold MhwOK at *; omega
  cases code <;> simp only [execCode] at h
  case ADD => exact alu_mhw (seqNext_ok h) hs
  case ADDRM => exact alu_mhw (seqNext_ok h) hs
  case ADDMR => exact alu_mhw (seqNext_ok h) hs
  case ADDI => exact alu_mhw (seqNext_ok h) hs
  case ADDIM => exact alu_mhw (seqNext_ok h) hs
  case SUB => exact alu_mhw (seqNext_ok h) hs
  case SUBRM => exact alu_mhw (seqNext_ok h) hs
  case SUBMR => exact alu_mhw (seqNext_ok h) hs
  case SUBI => exact alu_mhw (seqNext_ok h) hs
  case IMUL => exact alu_mhw (seqNext_ok h) hs
  case IMULRM => exact alu_mhw (seqNext_ok h) hs
  case IMULMR => cases h
  case IDIV => exact idivOp_mhw (seqNext_ok h) hs
  case IDIVM => exact idivOp_mhw (seqNext_ok h) hs
  case CQO =>
    cases h1 : rd s 4 with
    | error e => rw [h1] at h; cases h
    | ok a => rw [h1] at h; exact hw hs (seqNext_ok h)
  case JMP r =>
    cases h1 : rd s r with
    | error e => rw [h1] at h; cases h
    | ok a => rw [h1] at h; cases h; exact hs
  case JMPL => cases h; exact hs
  case JMPLN => cases h; exact hs
  case LEAL r l =>
    cases h1 : la l with
    | none => rw [h1] at h; cases h
    | some a => rw [h1] at h; exact hw hs (seqNext_ok h)
  case MOV r r1 =>
    cases h1 : rdRaw s r1 with
    | error e => rw [h1] at h; cases h
    | ok v => rw [h1] at h; exact hw hs (seqNext_ok h)
  case MOVS r r1 i =>
    cases h1 : rdRaw s r with
    | error e => rw [h1] at h; cases h
    | ok v =>
      cases h2 : ea s r1 i with
      | error e => rw [h1, h2] at h; cases h
      | ok a => rw [h1, h2] at h; exact storeWordRaw_mhw (seqNext_ok h) hs
  case MOVL r r1 i =>
    cases h1 : ea s r1 i with
    | error e => rw [h1] at h; cases h
    | ok a =>
      rw [h1] at h; dsimp only at h
      cases h2 : loadWordRaw c s a with
      | error e => rw [h2] at h; cases h
      | ok v => rw [h2] at h; exact hw hs (seqNext_ok h)
  case MOVI r i =>
    split at h
    · exact hw hs (seqNext_ok h)
    · cases h
  case MOVIM r i1 i2 =>
    cases h1 : imm32 i2 with
    | error e => rw [h1] at h; cases h
    | ok v => rw [h1] at h; exact writeLoc_mhw (seqNext_ok h) hs
  case CMP => exact cmpOp_mhw (seqNext_ok h) hs
  case CMPRM => exact cmpOp_mhw (seqNext_ok h) hs
  case CMPMR => exact cmpOp_mhw (seqNext_ok h) hs
  case CMPI => exact cmpOp_mhw (seqNext_ok h) hs
  case CMPIM => exact cmpOp_mhw (seqNext_ok h) hs
  case JEL => rw [jcc_state h]; exact hs
  case JNEL => rw [jcc_state h]; exact hs
  case JLL => rw [jcc_state h]; exact hs
  case JLEL => rw [jcc_state h]; exact hs
  case JGL => rw [jcc_state h]; exact hs
  case JGEL => rw [jcc_state h]; exact hs
  case PUSH r =>
    cases h1 : rdRaw s r with
    | error e => rw [h1] at h; cases h
    | ok v =>
      cases h2 : rd s 0 with
      | error e => rw [h1, h2] at h; cases h
      | ok sp =>
        rw [h1, h2] at h; dsimp only at h
        cases h3 : storeWordRaw c s (sp - 8) v with
        | error e => rw [h3] at h; cases h
        | ok s1 =>
          rw [h3] at h
          exact hw (storeWordRaw_mhw h3 hs) (seqNext_ok h)
  case POP r =>
    cases h1 : rd s 0 with
    | error e => rw [h1] at h; cases h
    | ok sp =>
      rw [h1] at h; dsimp only at h
      cases h2 : loadWordRaw c s sp with
      | error e => rw [h2] at h; cases h
      | ok v =>
        rw [h2] at h; dsimp only at h
        cases h3 : wr s 0 (sp + 8) with
        | error e => rw [h3] at h; cases h
        | ok s1 =>
          rw [h3] at h
          exact hw (hw hs h3) (seqNext_ok h)
  case CALL => cases h; exact hs
  case RET => cases h; exact hs
  all_goals (cases h; exact hs)

theorem callExt_mhw {s s' : State} {f : String} (h : callExt s f = .ok s') :
    s'.maxHeapWritten = s.maxHeapWritten := by
  unfold callExt at h
  split at h
  · cases h
  · cases h1 : rd s 0 with
    | error e => rw [h1] at h; cases h
    | ok sp =>
      cases h2 : rd s 7 with
      | error e => rw [h1, h2] at h; cases h
      | ok arg =>
        rw [h1, h2] at h; dsimp only at h
        split at h
        · cases h
        · have := Except.ok.inj h
          subst this
          rfl

/-- `maxHeapWritten ≤ heapBytes` is an invariant of the machine -/
theorem step_mhw {m : MonCfg} {p : Prog} {s s' : State} (h : step m p s = .inl s') (hs : MhwOK m.mach s) :
    MhwOK m.mach s' := by
  unfold step at h
  cases hc : p.code[s.pc]? with
  | none => rw [hc] at h; cases h
  | some code =>
    rw [hc] at h; dsimp only at h
    cases hx : execCode m.mach p.labelAddr code s with
    | error e => rw [hx] at h; cases h
    | ok r =>
      obtain ⟨s1, ctl⟩ := r
      rw [hx] at h; dsimp only at h
      have h1 := execCode_mhw hx hs
      have h1' : MhwOK m.mach (if codeSize code = 0 then s1 else { s1 with steps := s1.steps + 1 }) := by
        split
        · exact h1
        · exact h1
      generalize (if codeSize code = 0 then s1 else { s1 with steps := s1.steps + 1 }) = s2 at h h1'
      cases ctl with
      | next => cases h; exact h1'
      | jumpLabel l =>
        dsimp only at h
        cases hl : p.labelIdx[l]? with
        | none => rw [hl] at h; cases h
        | some i => rw [hl] at h; cases h; exact h1'
      | jumpAddr a =>
        dsimp only at h
        cases hl : p.addrIdx[a]? with
        | none => rw [hl] at h; cases h
        | some i => rw [hl] at h; cases h; exact h1'
      | callExt f =>
        dsimp only at h
        cases hl : callExt s2 f with
        | error e => rw [hl] at h; cases h
        | ok s3 =>
          rw [hl] at h; cases h
          have := callExt_mhw hl
          unfold MhwOK at *
          show s3.maxHeapWritten ≤ _
          omega
      | ret =>
        dsimp only at h
        cases hl : retCheck m.mach s2 with
        | ok v => rw [hl] at h; cases h
        | error r =>
          rw [hl] at h
          split at h <;> cases h

theorem stepN_mhw {m : MonCfg} {p : Prog} : ∀ (n : Nat) {s s' : State}, stepN m p n s = .inl s' →
    MhwOK m.mach s → MhwOK m.mach s'
  | 0, s, s', h, hs => by simp only [stepN, Sum.inl.injEq] at h; subst h; exact hs
  | n + 1, s, s', h, hs => by
    simp only [stepN] at h
    cases hst : step m p s with
    | inr r => rw [hst] at h; cases h
    | inl s1 => rw [hst] at h; exact stepN_mhw n h (step_mhw hst hs)

theorem mhwOK_init (c : MachCfg) (args : List Word) (entry : Nat) : MhwOK c (initState c args entry) :=
  Nat.zero_le _

/-! ## monotonicity in the heap size -/

section Mono

variable (S : Sub c' c)
include S

theorem inHeap_mono {n : Nat} (h : inHeap c' n = true) : inHeap c n = true := by
  unfold inHeap at *
  simp only [Bool.and_eq_true, decide_eq_true_eq] at *
  have := S.base; have := S.bytes
  omega

theorem inStack_eq (n : Nat) : inStack c' n = inStack c n := by
  unfold inStack
  rw [S.low, S.top]

theorem not_inHeap_of_inStack {n : Nat} (h : inStack c n = true) : inHeap c n = false := by
  unfold inStack at h
  unfold inHeap
  simp only [Bool.and_eq_true, decide_eq_true_eq] at h
  rw [Bool.and_eq_false_iff]; right
  rw [decide_eq_false_iff_not]
  have := S.below
  omega

theorem loadWordRaw_mono {s : State} {a : Word} {v : Option Word} (h : loadWordRaw c' s a = .ok v) :
    loadWordRaw c s a = .ok v := by
  unfold loadWordRaw at *
  dsimp only at *
  by_cases hal : a.toNat % 8 ≠ 0
  · rw [if_pos hal] at h; cases h
  · rw [if_neg hal] at h ⊢
    by_cases hh : inHeap c' a.toNat = true
    · rw [if_pos hh] at h
      rw [if_pos (inHeap_mono S hh)]
      exact h
    · rw [if_neg hh] at h
      by_cases hst : inStack c' a.toNat = true
      · rw [if_pos hst] at h
        rw [inStack_eq S] at hst
        have := not_inHeap_of_inStack S hst
        rw [this, hst]
        simpa using h
      · rw [if_neg hst] at h; cases h

theorem loadWord_mono {s : State} {a : Word} {v : Word} (h : loadWord c' s a = .ok v) :
    loadWord c s a = .ok v := by
  unfold loadWord at *
  cases h1 : loadWordRaw c' s a with
  | error e => rw [h1] at h; cases h
  | ok o =>
    rw [h1] at h
    rw [loadWordRaw_mono S h1]
    exact h

theorem storeWordRaw_mono {s s' : State} {a : Word} {v : Option Word} (h : storeWordRaw c' s a v = .ok s') :
    storeWordRaw c s a v = .ok s' := by
  unfold storeWordRaw at *
  dsimp only at *
  by_cases hal : a.toNat % 8 ≠ 0
  · rw [if_pos hal] at h; cases h
  · rw [if_neg hal] at h ⊢
    by_cases hh : inHeap c' a.toNat = true
    · rw [if_pos hh] at h
      rw [if_pos (inHeap_mono S hh), ← S.base]
      exact h
    · rw [if_neg hh] at h
      by_cases hst : inStack c' a.toNat = true
      · rw [if_pos hst] at h
        rw [inStack_eq S] at hst
        have := not_inHeap_of_inStack S hst
        rw [this, hst]
        simpa using h
      · rw [if_neg hst] at h; cases h

theorem readLoc_mono {s : State} {l : Loc} {v : Word} (h : readLoc c' s l = .ok v) : readLoc c s l = .ok v := by
  cases l with
  | r r => exact h
  | m b d =>
    simp only [readLoc] at *
    cases he : ea s b d with
    | error e => rw [he] at h; cases h
    | ok a => rw [he] at h; dsimp only at h ⊢; exact loadWord_mono S h

theorem writeLoc_mono {s s' : State} {l : Loc} {v : Word} (h : writeLoc c' s l v = .ok s') :
    writeLoc c s l v = .ok s' := by
  cases l with
  | r r => exact h
  | m b d =>
    simp only [writeLoc] at *
    cases he : ea s b d with
    | error e => rw [he] at h; cases h
    | ok a => rw [he] at h; dsimp only at h ⊢; exact storeWordRaw_mono S h

theorem readSrc_mono {s : State} {x : Src} {v : Word} (h : readSrc c' s x = .ok v) : readSrc c s x = .ok v := by
  cases x with
  | loc l => exact readLoc_mono S h
  | imm i => exact h

theorem alu_mono {op : Word → Word → Word} {s s' : State} {dst : Loc} {src : Src}
    (h : alu c' op s dst src = .ok s') : alu c op s dst src = .ok s' := by
  unfold alu at *
  cases h1 : readLoc c' s dst with
  | error e => rw [h1] at h; cases h
  | ok a =>
    rw [h1] at h; dsimp only at h
    rw [readLoc_mono S h1]; dsimp only
    cases h2 : readSrc c' s src with
    | error e => rw [h2] at h; cases h
    | ok b =>
      rw [h2] at h; dsimp only at h
      rw [readSrc_mono S h2]; dsimp only
      cases h3 : writeLoc c' s dst (op a b) with
      | error e => rw [h3] at h; cases h
      | ok s1 =>
        rw [h3] at h
        rw [writeLoc_mono S h3]
        exact h

theorem cmpOp_mono {s s' : State} {a : Loc} {b : Src} (h : cmpOp c' s a b = .ok s') :
    cmpOp c s a b = .ok s' := by
  unfold cmpOp at *
  cases h1 : readLoc c' s a with
  | error e => rw [h1] at h; cases h
  | ok x =>
    rw [h1] at h; dsimp only at h
    rw [readLoc_mono S h1]; dsimp only
    cases h2 : readSrc c' s b with
    | error e => rw [h2] at h; cases h
    | ok y =>
      rw [h2] at h
      rw [readSrc_mono S h2]
      exact h

theorem idivOp_mono {s s' : State} {src : Loc} (h : idivOp c' s src = .ok s') : idivOp c s src = .ok s' := by
  unfold idivOp at *
  cases h1 : rd s 4 with
  | error e => rw [h1] at h; cases h
  | ok a =>
    cases h2 : rd s 5 with
    | error e => rw [h1, h2] at h; cases h
    | ok d =>
      cases h3 : readLoc c' s src with
      | error e => rw [h1, h2, h3] at h; cases h
      | ok b =>
        rw [h1, h2, h3] at h
        rw [readLoc_mono S h3]
        exact h

theorem seqNext_mono {r' r : M State} (hr : ∀ s1, r' = .ok s1 → r = .ok s1) {x : State × Ctl}
    (h : seqNext r' = .ok x) : seqNext r = .ok x := by
  unfold seqNext at *
  cases r' with
  | error e => cases h
  | ok s1 => rw [hr s1 rfl]; exact h

theorem execCode_mono {la : String → Option Nat} {code : Code} {s : State} {x : State × Ctl}
    (h : execCode c' la code s = .ok x) : execCode c la code s = .ok x := by
  cases code <;> simp only [execCode] at h ⊢
  case ADD => exact seqNext_mono S (fun _ => alu_mono S) h
  case ADDRM => exact seqNext_mono S (fun _ => alu_mono S) h
  case ADDMR => exact seqNext_mono S (fun _ => alu_mono S) h
  case ADDI => exact seqNext_mono S (fun _ => alu_mono S) h
  case ADDIM => exact seqNext_mono S (fun _ => alu_mono S) h
  case SUB => exact seqNext_mono S (fun _ => alu_mono S) h
  case SUBRM => exact seqNext_mono S (fun _ => alu_mono S) h
  case SUBMR => exact seqNext_mono S (fun _ => alu_mono S) h
  case SUBI => exact seqNext_mono S (fun _ => alu_mono S) h
  case IMUL => exact seqNext_mono S (fun _ => alu_mono S) h
  case IMULRM => exact seqNext_mono S (fun _ => alu_mono S) h
  case IDIV => exact seqNext_mono S (fun _ => idivOp_mono S) h
  case IDIVM => exact seqNext_mono S (fun _ => idivOp_mono S) h
  case MOVS r r1 i =>
    cases h1 : rdRaw s r with
    | error e => rw [h1] at h; cases h
    | ok v =>
      cases h2 : ea s r1 i with
      | error e => rw [h1, h2] at h; cases h
      | ok a =>
        rw [h1, h2] at h
        exact seqNext_mono S (fun _ => storeWordRaw_mono S) h
  case MOVL r r1 i =>
    cases h1 : ea s r1 i with
    | error e => rw [h1] at h; cases h
    | ok a =>
      rw [h1] at h; dsimp only at h
      cases h2 : loadWordRaw c' s a with
      | error e => rw [h2] at h; cases h
      | ok v =>
        rw [h2] at h
        dsimp only
        rw [loadWordRaw_mono S h2]
        exact h
  case MOVIM r i1 i2 =>
    cases h1 : imm32 i2 with
    | error e => rw [h1] at h; cases h
    | ok v =>
      rw [h1] at h
      exact seqNext_mono S (fun _ => writeLoc_mono S) h
  case CMP => exact seqNext_mono S (fun _ => cmpOp_mono S) h
  case CMPRM => exact seqNext_mono S (fun _ => cmpOp_mono S) h
  case CMPMR => exact seqNext_mono S (fun _ => cmpOp_mono S) h
  case CMPI => exact seqNext_mono S (fun _ => cmpOp_mono S) h
  case CMPIM => exact seqNext_mono S (fun _ => cmpOp_mono S) h
  case PUSH r =>
    cases h1 : rdRaw s r with
    | error e => rw [h1] at h; cases h
    | ok v =>
      cases h2 : rd s 0 with
      | error e => rw [h1, h2] at h; cases h
      | ok sp =>
        rw [h1, h2] at h; dsimp only at h
        cases h3 : storeWordRaw c' s (sp - 8) v with
        | error e => rw [h3] at h; cases h
        | ok s1 =>
          rw [h3] at h
          dsimp only
          rw [storeWordRaw_mono S h3]
          exact h
  case POP r =>
    cases h1 : rd s 0 with
    | error e => rw [h1] at h; cases h
    | ok sp =>
      rw [h1] at h; dsimp only at h
      cases h2 : loadWordRaw c' s sp with
      | error e => rw [h2] at h; cases h
      | ok v =>
        rw [h2] at h
        dsimp only
        rw [loadWordRaw_mono S h2]
        exact h
  all_goals exact h

theorem retCheck_mono {s : State} {v : Word} (h : retCheck c' s = .ok v) : retCheck c s = .ok v := by
  unfold retCheck at *
  cases h1 : rd s 0 with
  | error e => rw [h1] at h; cases h
  | ok sp =>
    rw [h1] at h; dsimp only at h
    cases h2 : loadWord c' s sp with
    | error e => rw [h2] at h; cases h
    | ok w =>
      rw [h2] at h
      dsimp only
      rw [loadWord_mono S h2, ← S.top]
      exact h

end Mono

/-- the exit check never reports `done` as an error -/
theorem retCheck_error_not_done {c : MachCfg} {s : State} {r : Res} (h : retCheck c s = .error r) (v : Word) :
    r ≠ .done v := by
  intro e
  subst e
  unfold retCheck at h
  cases h1 : rd s 0 with
  | error e => rw [h1] at h; cases h
  | ok sp =>
    rw [h1] at h; dsimp only at h
    cases h2 : loadWord c s sp with
    | error e => rw [h2] at h; cases h
    | ok w =>
      rw [h2] at h; dsimp only at h
      split at h
      · cases h
      · split at h
        · cases h
        · split at h
          · cases h
          · cases h3 : rd s 4 with
            | error e => rw [h3] at h; cases h
            | ok v' => rw [h3] at h; cases h

/-- a transition that does not fault in the smaller heap is the same transition in the larger heap -/
theorem step_mono {m' m : MonCfg} (S : Sub m'.mach m.mach) {p : Prog} {s s' : State}
    (h : step m' p s = .inl s') : step m p s = .inl s' := by
  unfold step at *
  cases hc : p.code[s.pc]? with
  | none => rw [hc] at h; cases h
  | some code =>
    rw [hc] at h; dsimp only at h ⊢
    cases hx : execCode m'.mach p.labelAddr code s with
    | error e => rw [hx] at h; cases h
    | ok r =>
      rw [hx] at h
      rw [execCode_mono S hx]
      obtain ⟨s1, ctl⟩ := r
      dsimp only at h ⊢
      cases ctl with
      | ret =>
        dsimp only at h
        cases hl : retCheck m'.mach (if codeSize code = 0 then s1 else { s1 with steps := s1.steps + 1 }) with
        | ok v => rw [hl] at h; cases h
        | error r => rw [hl] at h; split at h <;> cases h
      | _ => exact h

/-- … and the final `ret` gives the same result -/
theorem step_mono_done {m' m : MonCfg} (S : Sub m'.mach m.mach) {p : Prog} {s : State} {v : Word}
    (h : step m' p s = .inr (.done v)) : step m p s = .inr (.done v) := by
  unfold step at *
  cases hc : p.code[s.pc]? with
  | none => rw [hc] at h; cases h
  | some code =>
    rw [hc] at h; dsimp only at h ⊢
    cases hx : execCode m'.mach p.labelAddr code s with
    | error e => rw [hx] at h; cases h
    | ok r =>
      rw [hx] at h
      rw [execCode_mono S hx]
      obtain ⟨s1, ctl⟩ := r
      dsimp only at h ⊢
      cases ctl with
      | ret =>
        dsimp only at h ⊢
        cases hl : retCheck m'.mach (if codeSize code = 0 then s1 else { s1 with steps := s1.steps + 1 }) with
        | ok v' =>
          rw [hl] at h
          rw [retCheck_mono S hl]
          exact h
        | error r =>
          exfalso
          rw [hl] at h
          have hnd := retCheck_error_not_done hl
          cases r with
          | done v'' => exact hnd _ rfl
          | _ => simp at h
      | next => cases h
      | jumpLabel l =>
        dsimp only at h
        cases hl : p.labelIdx[l]? with
        | none => rw [hl] at h; cases h
        | some i => rw [hl] at h; cases h
      | jumpAddr a =>
        dsimp only at h
        cases hl : p.addrIdx[a]? with
        | none => rw [hl] at h; cases h
        | some i => rw [hl] at h; cases h
      | callExt f =>
        dsimp only at h
        cases hl : callExt (if codeSize code = 0 then s1 else { s1 with steps := s1.steps + 1 }) f with
        | error e => rw [hl] at h; cases h
        | ok s3 => rw [hl] at h; cases h

theorem stepN_mono {m' m : MonCfg} (S : Sub m'.mach m.mach) {p : Prog} : ∀ (n : Nat) {s s' : State},
    stepN m' p n s = .inl s' → stepN m p n s = .inl s'
  | 0, s, s', h => h
  | n + 1, s, s', h => by
    simp only [stepN] at h ⊢
    cases hst : step m' p s with
    | inr r => rw [hst] at h; cases h
    | inl s1 =>
      rw [hst] at h
      rw [step_mono S hst]
      exact stepN_mono S n h

end Scc.X86.Conc
