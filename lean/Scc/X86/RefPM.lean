/-
  Scc.X86.RefPM — parametricity of the parallel-move generator (parallel_moves.rs, generic part
  Scc/Backend/Generic.lean) in the backend: for two backends `B1`, `B2` and a map `f` of temporaries
  that preserves the order and the equality test of temporaries (`TempMap`), every pure function of
  the generator commutes with `f`: sets and maps of temporaries, `spanning_tree`, `spanning_forest`
  (including the fuel = number of distinct temporaries), `visited_by`, `delete_targets`.
  Instance: the mock numbering ↦ `posTemp` (utils.rs temporary_from_position of the x86-64 backend).
-/
import Scc.Backend.Generic
import Scc.Backend.Mock
import Scc.X86.MemProofsStore

set_option linter.unusedVariables false
set_option linter.unusedSimpArgs false

namespace Scc.X86.Ref

open Scc.AxCut Scc.Backend

section Generic

variable {C1 C2 T1 T2 : Type} (B1 : Backend C1 T1) (B2 : Backend C2 T2) (f : T1 → T2)

/-- `f` preserves the derived `Ord` and `==` of the temporaries -/
structure TempMap : Prop where
  lt : ∀ a b, B2.tempLt (f a) (f b) = B1.tempLt a b
  eq : ∀ a b, B2.tempEq (f a) (f b) = B1.tempEq a b

mutual
  def mapT : Tree T1 → Tree T2
    | .backEdge => .backEdge
    | .node t kids => .node (f t) (mapTs kids)
  def mapTs : List (Tree T1) → List (Tree T2)
    | [] => []
    | k :: ks => mapT k :: mapTs ks
end

def mapR : Root T1 → Root T2
  | .startNode t kids => .startNode (f t) (mapTs f kids)

def mapPM (pm : List (T1 × List T1)) : List (T2 × List T2) := pm.map fun e => (f e.1, e.2.map f)

theorem mapTs_eq_map : ∀ (l : List (Tree T1)), mapTs f l = l.map (mapT f)
  | [] => rfl
  | k :: ks => by simp [mapTs, mapTs_eq_map ks]

variable {B1 B2 f} (M : TempMap B1 B2 f)
include M

theorem tempCmp_map (a b : T1) : tempCmp B2 (f a) (f b) = tempCmp B1 a b := by
  unfold tempCmp; rw [M.lt, M.eq]

theorem setInsert_map (t : T1) : ∀ (l : List T1), setInsert B2 (f t) (l.map f) = (setInsert B1 t l).map f
  | [] => rfl
  | t' :: rest => by
    simp only [List.map_cons, setInsert, tempCmp_map M]
    cases tempCmp B1 t t' with
    | lt => rfl
    | eq => rfl
    | gt => simp only [List.map_cons, setInsert_map t rest]

theorem setOfList_map (ts : List T1) : setOfList B2 (ts.map f) = (setOfList B1 ts).map f := by
  unfold setOfList
  suffices h : ∀ (l acc : List T1), List.foldl (fun s t => setInsert B2 t s) (acc.map f) (l.map f) =
      (List.foldl (fun s t => setInsert B1 t s) acc l).map f from h ts []
  intro l
  induction l with
  | nil => intro acc; rfl
  | cons a rest ih =>
    intro acc
    simp only [List.map_cons, List.foldl_cons, setInsert_map M]
    exact ih _

theorem mapInsert_map (k : T1) (v : List T1) : ∀ (acc : List (T1 × List T1)),
    mapInsert (tempCmp B2) (f k) (v.map f) (mapPM f acc) = mapPM f (mapInsert (tempCmp B1) k v acc)
  | [] => rfl
  | (k', v') :: rest => by
    simp only [mapPM, List.map_cons, mapInsert, tempCmp_map M]
    cases tempCmp B1 k k' with
    | lt => rfl
    | eq => rfl
    | gt =>
      simp only [List.map_cons]
      have := mapInsert_map k v rest
      simp only [mapPM] at this
      rw [this]

theorem mapLookup_map (pm : List (T1 × List T1)) (k : T1) :
    mapLookup B2 (mapPM f pm) (f k) = (mapLookup B1 pm k).map (List.map f) := by
  unfold mapLookup mapPM
  rw [List.find?_map]
  have : ((fun e : T2 × List T2 => B2.tempEq (f k) e.1) ∘ fun e : T1 × List T1 => (f e.1, e.2.map f)) =
      fun e => B1.tempEq k e.1 := by
    funext e; simp [Function.comp, M.eq]
  rw [this]
  cases List.find? (fun e => B1.tempEq k e.1) pm <;> rfl

theorem memT_map (t : T1) (l : List T1) : memT B2 (f t) (l.map f) = memT B1 t l := by
  unfold memT
  rw [List.any_map]
  congr 1
  funext x
  simp [Function.comp, M.eq]

theorem deleteTargets_map (del : List T1) (pm : List (T1 × List T1)) :
    deleteTargets B2 (del.map f) (mapPM f pm) = mapPM f (deleteTargets B1 del pm) := by
  unfold deleteTargets mapPM
  simp only [List.map_map]
  apply List.map_congr_left
  intro e _
  simp only [Function.comp, Prod.mk.injEq, true_and]
  rw [List.filter_map]
  congr 1
  apply List.filter_congr
  intro x _
  simp [Function.comp, memT_map M]

omit M in
theorem mapExcept_map {α β β' : Type} (g : β → β') (F1 : α → Except String β) (F2 : α → Except String β')
    : ∀ (l : List α), (∀ a ∈ l, F2 a = (F1 a).map g) → mapExcept F2 l = (mapExcept F1 l).map (List.map g)
  | [], _ => rfl
  | a :: as, h => by
    simp only [mapExcept]
    rw [h a (by simp)]
    cases F1 a with
    | error e => rfl
    | ok b =>
      simp only [Except.map]
      rw [mapExcept_map g F1 F2 as (fun x hx => h x (by simp [hx]))]
      cases mapExcept F1 as with
      | error e => rfl
      | ok bs => rfl

omit M in
theorem mapExcept_of_map {α α' β : Type} (h : α → α') (F : α' → Except String β) :
    ∀ (l : List α), mapExcept F (l.map h) = mapExcept (fun a => F (h a)) l
  | [] => rfl
  | a :: as => by
    simp only [List.map_cons, mapExcept, mapExcept_of_map h F as]

theorem spanningTree_map (pm : List (T1 × List T1)) (root : T1) : ∀ (fuel : Nat) (node : T1),
    spanningTree B2 (mapPM f pm) (f root) fuel (f node) =
      (spanningTree B1 pm root fuel node).map (mapT f)
  | 0, _ => rfl
  | fuel + 1, node => by
    simp only [spanningTree, M.eq, mapLookup_map M]
    cases B1.tempEq root node with
    | true => rfl
    | false =>
      simp only [Bool.false_eq_true, if_false]
      cases mapLookup B1 pm node with
      | none => rfl
      | some targets =>
        simp only [Option.map]
        rw [mapExcept_of_map, mapExcept_map (mapT f) (spanningTree B1 pm root fuel) _ targets
          (fun a _ => spanningTree_map pm root fuel a)]
        cases mapExcept (spanningTree B1 pm root fuel) targets with
        | error e => rfl
        | ok kids => simp [Except.map, mapT, mapTs_eq_map]

omit M in
mutual
  theorem nodes_map : ∀ (t : Tree T1), Tree.nodes (mapT f t) = (Tree.nodes t).map f
    | .backEdge => rfl
    | .node t kids => by simp [mapT, Tree.nodes, nodesList_map kids]
  theorem nodesList_map : ∀ (l : List (Tree T1)), Tree.nodesList (mapTs f l) = (Tree.nodesList l).map f
    | [] => rfl
    | k :: ks => by simp [mapTs, Tree.nodesList, nodes_map k, nodesList_map ks]
end

omit M in
mutual
  theorem refersBack_map : ∀ (t : Tree T1), Tree.refersBack (mapT f t) = Tree.refersBack t
    | .backEdge => rfl
    | .node t kids => by simp [mapT, Tree.refersBack, anyRefersBack_map kids]
  theorem anyRefersBack_map : ∀ (l : List (Tree T1)), Tree.anyRefersBack (mapTs f l) = Tree.anyRefersBack l
    | [] => rfl
    | k :: ks => by simp [mapTs, Tree.anyRefersBack, refersBack_map k, anyRefersBack_map ks]
end

omit M in
theorem visitedBy_map (r : Root T1) : Root.visitedBy (mapR f r) = (Root.visitedBy r).map f := by
  cases r with
  | startNode t kids =>
    simp only [mapR, Root.visitedBy, anyRefersBack_map, nodesList_map, List.map_append]
    split <;> rfl

omit M in
theorem noTargets_map (r : Root T1) : Root.noTargets (mapR f r) = Root.noTargets r := by
  cases r with
  | startNode t kids => cases kids <;> rfl

theorem spanningForestLoop_map (fuel : Nat) : ∀ (keys : List T1) (pm : List (T1 × List T1)),
    spanningForestLoop B2 fuel (keys.map f) (mapPM f pm) =
      (spanningForestLoop B1 fuel keys pm).map (List.map (mapR f))
  | [], _ => rfl
  | t :: keys, pm => by
    simp only [List.map_cons, spanningForestLoop, mapLookup_map M]
    cases mapLookup B1 pm t with
    | none => rfl
    | some targets0 =>
      simp only [Option.map]
      have hfilter : List.filter (fun x => !B2.tempEq x (f t)) (targets0.map f) =
          (List.filter (fun x => !B1.tempEq x t) targets0).map f := by
        rw [List.filter_map]
        congr 1
        apply List.filter_congr
        intro x _
        simp [Function.comp, M.eq]
      rw [hfilter, mapExcept_of_map, mapExcept_map (mapT f) (spanningTree B1 pm t fuel) _ _
        (fun a _ => spanningTree_map M pm t fuel a)]
      cases mapExcept (spanningTree B1 pm t fuel) (List.filter (fun x => !B1.tempEq x t) targets0) with
      | error e => rfl
      | ok kids =>
        simp only [Except.map]
        have hv : Root.visitedBy (Root.startNode (f t) (List.map (mapT f) kids)) =
            (Root.visitedBy (Root.startNode t kids)).map f := by
          have := visitedBy_map (f := f) (Root.startNode t kids)
          simpa [mapR, mapTs_eq_map] using this
        rw [hv, deleteTargets_map M, spanningForestLoop_map fuel keys]
        cases spanningForestLoop B1 fuel keys (deleteTargets B1 (Root.visitedBy (Root.startNode t kids)) pm) with
        | error e => rfl
        | ok roots => simp [Except.map, mapR, mapTs_eq_map]

theorem eraseDups_loop_map : ∀ (as bs : List T1),
    List.eraseDupsBy.loop (fun a b => B2.tempEq a b) (as.map f) (bs.map f) =
      (List.eraseDupsBy.loop (fun a b => B1.tempEq a b) as bs).map f
  | [], bs => by simp [List.eraseDupsBy.loop]
  | a :: as, bs => by
    simp only [List.map_cons, List.eraseDupsBy.loop]
    have : (bs.map f).any (fun b => B2.tempEq (f a) b) = bs.any (fun b => B1.tempEq a b) := by
      rw [List.any_map]
      congr 1
      funext x
      simp [Function.comp, M.eq]
    rw [this]
    cases bs.any (fun b => B1.tempEq a b) with
    | true => exact eraseDups_loop_map as bs
    | false =>
      have := eraseDups_loop_map as (a :: bs)
      simpa using this

theorem allNodes_length (pm : List (T1 × List T1)) :
    (allNodes B2 (mapPM f pm)).length = (allNodes B1 pm).length := by
  unfold allNodes
  have e : (mapPM f pm).map (·.1) ++ (mapPM f pm).flatMap (·.2) =
      (pm.map (·.1) ++ pm.flatMap (·.2)).map f := by
    simp [mapPM, List.map_append, List.map_flatMap, List.flatMap_map, Function.comp]
  rw [e]
  show (List.eraseDupsBy.loop (fun a b => B2.tempEq a b) _ (([] : List T1).map f)).length = _
  rw [eraseDups_loop_map M]
  simp
  rfl

theorem spanningForest_map (pm : List (T1 × List T1)) :
    spanningForest B2 (mapPM f pm) = (spanningForest B1 pm).map (List.map (mapR f)) := by
  unfold spanningForest
  rw [allNodes_length M]
  have : (mapPM f pm).map (·.1) = (pm.map (·.1)).map f := by simp [mapPM]
  rw [this]
  exact spanningForestLoop_map M _ _ _

end Generic

end Scc.X86.Ref
