/-
  Scc.X86.ConcKMSwitch — THE THREE-WAY SIMULATION OF `switch` (Scc/X86/RefClosHSwitch.lean) WITH THE PROGRAM
  COUNTERS IN BETWEEN (`Mid`, Scc/X86/ConcKMid.lean; gap (4b) of `C09_x86_monitor_statement`): the statement
  comment, the address computation, the jump through the table (`jmp TEMP`, the 5-byte `jmp` of the table, the
  label of the clause) and `Memory::load` of the fields — no `#ctx` comment is passed before the hook of the body
  of the selected clause.  `switch_nav_x86M`, `switch_x3M` are `switch_nav_x86`, `switch_x3` with this one more
  conjunct (same proofs).
-/
import Scc.X86.ConcKNoCtx

set_option linter.unusedVariables false
set_option linter.unusedSimpArgs false

namespace Scc.X86.Ref.K

open Scc.AxCut Scc.AxCut.Pos Scc.Backend Scc.Backend.Abs Scc.Backend.Sim Scc.Backend.Sim2 Scc.X86
open Scc.Heap (HState InvS InvW)
open Scc.Heap.Refine (HRef imgW fieldImg kindB loadAbs FrLe)

section Switch3M

variable {F : Frame} (H : FrameOK F) (h8 : F.c.heapBase % 8 = 0) {mon : MonCfg} (hmon : mon.mach = F.c)
  {px : X86.Prog} {cs : List Code} (LA : LoadedA F.c px cs) (hnd : (labs cs).Nodup)
  (hfitX : addrAt F.c.codeBase cs cs.length < 2 ^ 64)

include H hmon LA hnd hfitX in
/-- the machine from the `switch` to the `load` of the selected clause -/
theorem switch_nav_x86M {hooks : Bool} {types : List TypeDecl} {Γ' : Ctx} {b : Binding} {cfg : Config}
    {hs : HState} {ι : Nat → Nat} {κ : Nat → Nat → Word} {st : State} {x : Ident} {ty : Ty} {clauses : Clauses} {fv : FV}
    {pos : Nat} {c : Clause}
    (X : X3 F (Γ' ++ [b]) cfg hs ι κ st)
    (hb : b.var.id = x.id) (hfresh : ∀ b' ∈ Γ', b'.var.id ≠ x.id)
    (hclause : nthClause clauses pos = some c)
    (hword : cfg.temps.get (2 * Γ'.length + 1) = some (BitVec.ofNat 64 pos)) (hbchi : b.chi = .prd)
    {k k' : Nat} {items : List Code}
    (hrun : (codeStatementR x86Backend hooks natRen types (.switch x ty clauses fv) (Γ' ++ [b])).run k =
      .ok (items, k'))
    (hat : XAt cs st.pc items) :
    ∃ st4 n4 kl kl' lcode kb' body, stepN mon px n4 st = .inl st4 ∧ X3 F (Γ' ++ [b]) cfg hs ι κ st4 ∧
      (load c.ctx Γ').run kl = .ok (lcode, kl') ∧
      (codeStatementR x86Backend hooks natRen types c.body (Γ' ++ c.ctx)).run kl' = .ok (body, kb') ∧
      XAt cs st4.pc (lcode ++ body) ∧ MachKeep F st st4 ∧ Mid mon px cs n4 st := by
  have L := LA.loaded
  simp only [codeStatementR, run_bind_ok, run_pure_ok, freshLabelStr_run_ok] at hrun
  obtain ⟨num, k1, ⟨rfl, rfl⟩, c1, k2, h1, c3, k3, h3, rfl, rfl⟩ := hrun
  have hdl : (Γ' ++ [b]).dropLast = Γ' := by simp
  rw [hdl] at h3
  obtain ⟨pre, post, kl, kl', lcode, kb', body, hc3, hload, hbody⟩ :=
    x_codeClauses_nth hooks natRen types Γ' clauses _ pos c _ _ _ h3 hclause
  have hposlt := nthClause_lt clauses pos c hclause
  generalize hc0 : hookCode x86Backend hooks (Γ' ++ [b]) ++
      [x86Backend.comment ("switch " ++ x.print ++ " \\{ ... \\};")] = c0 at hat
  have hc0c : ∀ y ∈ c0, ∃ m', y = Code.COMMENT m' := by rw [← hc0]; exact hook_comments hooks _ _
  have hc0t : NoCtx c0.tail := by
    rw [← hc0]; exact noCtx_tail_hook hooks _ (by
      simp only [String.append_assoc]; exact not_isCtx_lit_head _ _ (c := 's') (by decide) (by decide))
  have hc0pos : c0 ≠ [] := by rw [← hc0]; simp
  generalize hlbl : mangleTy ty ++ "_" ++ natRen (k + 1) = lbl at *
  have hxl : x86Backend.label lbl = Code.LAB lbl := rfl
  rw [hxl] at hat
  by_cases hle : clauses.length ≤ 1
  · -- a single clause: comments and labels only
    have hpos0 : pos = 0 := by omega
    subst hpos0
    simp only [hle, if_true, run_pure_ok] at h1
    obtain ⟨rfl, rfl⟩ := h1
    have hgt : ¬ (clauses.length > 1) := by omega
    simp only [hgt, if_false] at hat
    obtain ⟨post0, kl0', lcode0, kb0', body0, hc30, hload0, hbody0⟩ :=
      x_codeClauses_head hooks natRen types Γ' clauses lbl c _ _ _ h3 hclause
    rw [hc30] at hat
    have hxc : x86Backend.comment "#there is only one clause, so we can just fall through" =
        Code.COMMENT "#there is only one clause, so we can just fall through" := rfl
    rw [hxc] at hat
    have hatN : XAt cs st.pc ((c0 ++ [Code.COMMENT "#there is only one clause, so we can just fall through",
        Code.LAB lbl, Code.LAB (clauseLabel lbl c.xtor)]) ++ ((lcode0 ++ body0) ++ post0)) := by
      simpa [List.append_assoc] using hat
    have hxN := (execStraight_noops mon.mach px.labelAddr (c0 ++ [Code.COMMENT "#there is only one clause, so we can just fall through",
        Code.LAB lbl, Code.LAB (clauseLabel lbl c.xtor)]) st (by
        intro y hy
        simp only [List.mem_append, List.mem_cons, List.not_mem_nil, or_false] at hy
        rcases hy with hy | rfl | rfl | rfl
        · exact Or.inl (hc0c y hy)
        · exact Or.inl ⟨_, rfl⟩
        · exact Or.inr ⟨_, rfl⟩
        · exact Or.inr ⟨_, rfl⟩))
    obtain ⟨k0, hk0⟩ := x_steps_straight mon L hatN.left hxN
    exact ⟨_, _, _, _, lcode0, _, body0, hk0, X3R.setPS X _ _, hload0, hbody0, hatN.right.left,
      (MachKeep.refl F st).setPS_right _ _,
      mid_straight_tail mon L hatN.left hxN (noCtx_tail_append hc0t (by nc) hc0pos)⟩
  · -- a jump table
    have hgt : clauses.length > 1 := by omega
    simp only [hle, if_false, run_bind_ok, run_pure_ok] at h1
    obtain ⟨tt, k4, htt, rfl, rfl⟩ := h1
    obtain ⟨p, hp, hlt, rfl, rfl⟩ := (x86_vt_run_ok _ _ _ _ _ _).1 htt
    have hp' : p = Γ'.length := by
      have := posOf_append_fresh Γ' b (fun b' hb' => by rw [hb]; exact hfresh b' hb')
      rw [hb] at this
      rw [this] at hp
      exact (Option.some.inj hp).symm
    subst hp'
    simp only [TempNum.toNat] at hlt
    simp only [hgt, if_true] at hat
    have hBe : x86Backend.loadLabel x86Backend.temp lbl ++
        x86Backend.binop BinOp.sum x86Backend.temp x86Backend.temp (posTemp (2 * Γ'.length + TempNum.snd.toNat)) ++
        x86Backend.jump x86Backend.temp =
        (loadLabel (.reg TEMP) lbl ++ binop .sum (.reg TEMP) (.reg TEMP) (posTemp (2 * Γ'.length + 1))) ++
          [Code.JMP TEMP] := rfl
    rw [hBe] at hat
    generalize hBdef : loadLabel (.reg TEMP) lbl ++
      binop .sum (.reg TEMP) (.reg TEMP) (posTemp (2 * Γ'.length + 1)) = Bc at hat
    generalize hT : codeTable x86Backend clauses lbl = table at hat
    have htab : table[pos]? = some (.JMPLN (clauseLabel lbl c.xtor)) := by
      rw [← hT]; exact x_codeTable_nth lbl clauses pos c hclause
    have htlen : table.length = clauses.length := by rw [← hT]; exact x_codeTable_length lbl clauses
    have htsz : table.map codeSize = List.replicate table.length 5 := by
      rw [htlen, ← hT]; exact x_codeTable_sizes lbl clauses
    obtain ⟨cs1, rest0, hcs, hpc⟩ := hat
    generalize hsfx : pre ++ Code.LAB (clauseLabel lbl c.xtor) :: (lcode ++ (body ++ post)) ++ rest0 = sfx
    have hcsT : cs = (cs1 ++ c0 ++ Bc ++ [Code.JMP TEMP]) ++ (Code.LAB lbl :: table) ++ sfx := by
      rw [hcs, hc3, ← hsfx]; simp [List.append_assoc]
    -- (i) the comments
    obtain ⟨k0, hk0⟩ := x_steps_straight mon L (blk := c0)
      ⟨cs1, Bc ++ [Code.JMP TEMP] ++ (Code.LAB lbl :: table) ++ sfx, by rw [hcsT]; simp [List.append_assoc], hpc⟩
      (execStraight_comments mon.mach px.labelAddr c0 st hc0c)
    have Xa : X3 F (Γ' ++ [b]) cfg hs ι κ (setPS st (st.pc + c0.length) k0) := X3R.setPS X _ _
    have hpca : (setPS st (st.pc + c0.length) k0).pc = (cs1 ++ c0).length := by simp [setPS, hpc]
    have hmka : MachKeep F st (setPS st (st.pc + c0.length) k0) := (MachKeep.refl F st).setPS_right _ _
    generalize setPS st (st.pc + c0.length) k0 = sa at hk0 Xa hpca hmka
    -- (ii) the address computation
    have hiL : cs[(cs1 ++ c0 ++ Bc ++ [Code.JMP TEMP]).length]? = some (Code.LAB lbl) := by
      rw [hcsT, List.append_assoc]; exact getElem?_mid _ _ _
    have hl := LA.labelAddr hnd hiL
    have hxw : tempVal F.sp sa (posTemp (2 * Γ'.length + 1)) = some (BitVec.ofNat 64 pos * 5#64) := by
      have := Xa.words Γ'.length (by simp) _ hword
      simpa [hbchi, trW, trWs] using this
    obtain ⟨_, sb, hxb, Bb, Pb, hjx⟩ := switchJump_correct (la := px.labelAddr) Xa.bnd (tempOK_posTemp hlt) hl hxw
    rw [hBdef, ← hmon] at hxb
    obtain ⟨kb, hkb⟩ := x_steps_straight mon L (blk := Bc) (s := sa)
      ⟨cs1 ++ c0, [Code.JMP TEMP] ++ (Code.LAB lbl :: table) ++ sfx, by rw [hcsT]; simp [List.append_assoc],
        hpca.symm⟩ hxb
    have Xb : X3 F (Γ' ++ [b]) cfg hs ι κ (setPS sb (sa.pc + Bc.length) kb) :=
      X3R.setPS (X3R.keep H Xa Bb Pb) _ _
    -- (iii) the jump through TEMP lands on the table entry
    have hTlt : (cs1 ++ c0 ++ Bc ++ [Code.JMP TEMP]).length + 1 + pos < cs.length := by
      rw [hcsT]; simp; omega
    have haddrT := addrAt_table F.c.codeBase (cs1 ++ c0 ++ Bc ++ [Code.JMP TEMP]) table sfx lbl htsz pos (by omega)
    rw [← hcsT] at haddrT
    have hbound : addrAt F.c.codeBase cs (cs1 ++ c0 ++ Bc ++ [Code.JMP TEMP]).length + 5 * pos < 2 ^ 64 := by
      rw [← haddrT]
      exact Nat.lt_of_le_of_lt (addrAt_mono _ _ (Nat.le_of_lt hTlt)) hfitX
    have hcsTe : cs[(cs1 ++ c0 ++ Bc ++ [Code.JMP TEMP]).length + 1 + pos]? =
        some (.JMPLN (clauseLabel lbl c.xtor)) := by
      rw [hcsT, List.append_assoc, List.getElem?_append_right (by omega)]
      rw [show (cs1 ++ c0 ++ Bc ++ [Code.JMP TEMP]).length + 1 + pos - (cs1 ++ c0 ++ Bc ++ [Code.JMP TEMP]).length =
        pos + 1 by omega]
      simp only [List.cons_append, List.getElem?_cons_succ]
      rw [List.getElem?_append_left (by omega)]
      exact htab
    have hidx : px.addrIdx[addrAt F.c.codeBase cs (cs1 ++ c0 ++ Bc ++ [Code.JMP TEMP]).length + 5 * pos]? =
        some ((cs1 ++ c0 ++ Bc ++ [Code.JMP TEMP]).length + 1 + pos) := by
      rw [← haddrT]
      apply LA.addrIdx _ hTlt
      have := List.getElem?_eq_getElem hTlt
      rw [hcsTe] at this
      rw [← Option.some.inj this]
      simp [codeSize]
    have hjx' : execCode mon.mach px.labelAddr (Code.JMP TEMP) (setPS sb (sa.pc + Bc.length) kb) =
        .ok (setPS sb (sa.pc + Bc.length) kb,
          .jumpAddr (addrAt F.c.codeBase cs (cs1 ++ c0 ++ Bc ++ [Code.JMP TEMP]).length + 5 * pos)) := by
      rw [execCode_setPS, hmon, hjx, toNat_table_addr hbound]
      rfl
    obtain ⟨kc, hkc⟩ := step_jumpA mon L (cs1 := cs1 ++ c0 ++ Bc) (code := Code.JMP TEMP)
      (rest := (Code.LAB lbl :: table) ++ sfx)
      (by rw [hcsT]; simp [List.append_assoc]) (by simp [setPS, hpca, Nat.add_assoc]) hjx' hidx
    -- (iv) the table entry jumps to the clause
    have hiC : cs[(cs1 ++ c0 ++ Bc ++ [Code.JMP TEMP]).length + 1 + table.length + pre.length]? =
        some (Code.LAB (clauseLabel lbl c.xtor)) := by
      have e : cs = ((cs1 ++ c0 ++ Bc ++ [Code.JMP TEMP]) ++ (Code.LAB lbl :: table) ++ pre) ++
          Code.LAB (clauseLabel lbl c.xtor) :: (lcode ++ (body ++ post) ++ rest0) := by
        rw [hcsT, ← hsfx]; simp [List.append_assoc]
      have hlen : ((cs1 ++ c0 ++ Bc ++ [Code.JMP TEMP]) ++ (Code.LAB lbl :: table) ++ pre).length =
          (cs1 ++ c0 ++ Bc ++ [Code.JMP TEMP]).length + 1 + table.length + pre.length := by
        simp; omega
      rw [← hlen]
      conv => lhs; rw [e]
      exact getElem?_mid _ _ _
    have hTsplit : cs = cs.take ((cs1 ++ c0 ++ Bc ++ [Code.JMP TEMP]).length + 1 + pos) ++
        Code.JMPLN (clauseLabel lbl c.xtor) ::
          cs.drop ((cs1 ++ c0 ++ Bc ++ [Code.JMP TEMP]).length + 1 + pos + 1) := by
      have h1 : cs.drop ((cs1 ++ c0 ++ Bc ++ [Code.JMP TEMP]).length + 1 + pos) =
          cs[(cs1 ++ c0 ++ Bc ++ [Code.JMP TEMP]).length + 1 + pos] ::
            cs.drop ((cs1 ++ c0 ++ Bc ++ [Code.JMP TEMP]).length + 1 + pos + 1) :=
        List.drop_eq_getElem_cons hTlt
      have h2 : cs[(cs1 ++ c0 ++ Bc ++ [Code.JMP TEMP]).length + 1 + pos] =
          Code.JMPLN (clauseLabel lbl c.xtor) := by
        have := List.getElem?_eq_getElem hTlt
        rw [hcsTe] at this
        exact (Option.some.inj this).symm
      conv => lhs; rw [← List.take_append_drop ((cs1 ++ c0 ++ Bc ++ [Code.JMP TEMP]).length + 1 + pos) cs, h1, h2]
    obtain ⟨kd, hkd⟩ := Scc.X86.Ref.step_jump mon L hTsplit
      (s := setPS (setPS sb (sa.pc + Bc.length) kb) ((cs1 ++ c0 ++ Bc ++ [Code.JMP TEMP]).length + 1 + pos) kc)
      (by simp only [setPS, List.length_take]; exact (Nat.min_eq_left (Nat.le_of_lt hTlt)).symm)
      (l := clauseLabel lbl c.xtor) rfl
      (labIdx_of_nodup hnd hiC)
    -- (v) the label of the clause
    obtain ⟨ke, hke⟩ := step_fall mon L
      (cs1 := (cs1 ++ c0 ++ Bc ++ [Code.JMP TEMP]) ++ (Code.LAB lbl :: table) ++ pre)
      (code := Code.LAB (clauseLabel lbl c.xtor)) (rest := lcode ++ (body ++ post) ++ rest0)
      (by rw [hcsT, ← hsfx]; simp [List.append_assoc])
      (s := setPS (setPS (setPS sb (sa.pc + Bc.length) kb)
        ((cs1 ++ c0 ++ Bc ++ [Code.JMP TEMP]).length + 1 + pos) kc)
        ((cs1 ++ c0 ++ Bc ++ [Code.JMP TEMP]).length + 1 + table.length + pre.length) kd)
      (by simp [setPS]; omega) (s1 := _) rfl
    have hmid : Mid mon px cs _ st := Mid.transS (mid_comments mon L (blk := c0)
        ⟨cs1, Bc ++ [Code.JMP TEMP] ++ (Code.LAB lbl :: table) ++ sfx, by rw [hcsT]; simp [List.append_assoc], hpc⟩
        hc0c hc0t) hk0
      (MidS.trans (midS_straight mon L (blk := Bc) (s := sa)
          ⟨cs1 ++ c0, [Code.JMP TEMP] ++ (Code.LAB lbl :: table) ++ sfx, by rw [hcsT]; simp [List.append_assoc],
            hpca.symm⟩ hxb (by rw [← hBdef]; exact (noCtx_loadLabel _ _).append (noCtx_binop _ _ _ _))) hkb
        (MidS.trans (midS_one (not_ctxAt_of_split (cs1 := cs1 ++ c0 ++ Bc) (code := Code.JMP TEMP)
            (rest := (Code.LAB lbl :: table) ++ sfx) (by rw [hcsT]; simp [List.append_assoc])
            (by simp [setPS, hpca, Nat.add_assoc]) (not_isCtx_of_noComment rfl)))
          ((stepN_one mon px _).trans hkc)
          (MidS.trans (midS_one (not_ctxAt_of_getElem hcsTe (not_isCtx_of_noComment rfl)))
            ((stepN_one mon px _).trans hkd)
            (midS_one (not_ctxAt_of_getElem hiC (not_isCtx_of_noComment rfl))))))
    refine ⟨_, _, kl, kl', lcode, kb', body,
      stepN_trans mon px hk0 (stepN_trans mon px hkb (stepN_trans mon px ((stepN_one mon px _).trans hkc)
        (stepN_trans mon px ((stepN_one mon px _).trans hkd) ((stepN_one mon px _).trans hke)))),
      X3R.setPS (X3R.setPS (X3R.setPS Xb _ _) _ _) _ _, hload, hbody, ?_,
      (((hmka.trans (fun t ht => mach_keep_none Pb ht)).setPS_right _ _).setPS_right _ _).setPS_right _ _ |>.setPS_right _ _,
      hmid⟩
    refine ⟨(cs1 ++ c0 ++ Bc ++ [Code.JMP TEMP]) ++ (Code.LAB lbl :: table) ++ pre ++
      [Code.LAB (clauseLabel lbl c.xtor)], post ++ rest0, ?_, ?_⟩
    · rw [hcsT, ← hsfx]; simp [List.append_assoc]
    · simp [setPS]; omega

include H h8 hmon LA hnd hfitX in
/-- THREE-WAY SIMULATION OF `switch` -/
theorem switch_x3M {P : Program} {hooks : Bool} {prog : AxCut.Prog} {Γ' : Ctx} {b : Binding}
    {ρ' : List Value} {pos : Nat} {fields : List Value} {x : Ident} {ty : Ty} {clauses : Clauses}
    {fv : FV} {cfg : Config} {c : Clause}
    (R : RelX P hooks prog ⟨Γ' ++ [b], ρ' ++ [.obj pos fields], .switch x ty clauses fv⟩ cfg)
    (hfits : Fits P)
    (hb : b.var.id = x.id) (hfresh : ∀ b' ∈ Γ', b'.var.id ≠ x.id)
    (hclause : nthClause clauses pos = some c)
    (hkinds : fields.map Sim2.kindOf = Mock.kindsOf c.ctx)
    (hcap : 2 * (Γ'.length + c.ctx.length) + 2 < Mock.T_TEMP)
    {hs : HState} {ι : Nat → Nat} {κ : Nat → Nat → Word} {st : State} (X : X3 F (Γ' ++ [b]) cfg hs ι κ st)
    {k k' : Nat} {items : List Code}
    (hrun : (codeStatementR x86Backend hooks natRen prog.types (.switch x ty clauses fv) (Γ' ++ [b])).run k =
      .ok (items, k'))
    (hat : XAt cs st.pc items)
    (hcapX : 2 * (Γ'.length + c.ctx.length) ≤ 266) :
    ∃ kk cfg' st' hs' n, stepsTo P kk cfg cfg' ∧ stepN mon px n st = .inl st' ∧ FrLe hs hs' 0 ∧
      cfg'.out = cfg.out ∧ cfg'.next = cfg.next ∧
      RelX P hooks prog ⟨Γ' ++ c.ctx, ρ' ++ fields, c.body⟩ cfg' ∧
      X3 F (Γ' ++ c.ctx) cfg' hs' ι κ st' ∧
      ∃ k1 k1' items', (codeStatementR x86Backend hooks natRen prog.types c.body (Γ' ++ c.ctx)).run k1 =
          .ok (items', k1') ∧ XAt cs st'.pc items' ∧ LoadProv F Γ'.length c.ctx cfg cfg' κ st st' ∧
        Mid mon px cs n st := by
  have L := LA.loaded
  obtain ⟨k4, cfg4, r, hst4, h4heap, h4next, h4out, h4temps, hloadM, hcode, hr, hB, hword, hbchi⟩ :=
    switch_nav_abs R hfits hb hfresh hclause
  obtain ⟨st4, n4, kl, kl', lcode, kb', body, hn4, X4, hload, hbody, hat4, hmk4, hmid4⟩ :=
    switch_nav_x86M H hmon LA hnd hfitX X hb hfresh hclause hword hbchi hrun hat
  have hbne : b.chi ≠ .ext := by rw [hbchi]; decide
  obtain ⟨cfg', hstep, hout', hnext', R'⟩ := load_enter (Γ'' := Γ') (s' := c.body) (cfg4 := cfg4) R rfl hbne hr
    hB hkinds hcap h4heap h4next h4out h4temps hloadM hcode
  have hn1 : Γ'.length < (Γ' ++ [b]).length := by simp
  cases hctx : c.ctx with
  | nil =>
    -- no field: nothing is loaded, no code
    have hf0 : fields = [] := by
      have := congrArg List.length hkinds
      rw [hctx] at this
      simpa [Mock.kindsOf] using this
    subst hf0
    have hr0 : r = 0 := by cases hB; rfl
    subst hr0
    rw [hctx] at hloadM hload
    have hA := step_load_empty P cfg4 _ hloadM
    rw [hstep] at hA
    injection hA with hA
    have hl0 : lcode = [] := by
      have : (load [] Γ').run kl = .ok ([], kl) := rfl
      rw [this] at hload
      injection hload with hload
      injection hload with e1 _
      exact e1.symm
    subst hl0
    rw [hctx] at hbody R' hcapX
    rw [List.nil_append] at hat4
    refine ⟨k4 + 1, cfg', st4, hs, n4, stepsTo_trans P _ _ _ _ _ hst4 (stepsTo_one P _ _ hstep), hn4,
      Scc.Heap.Refine.FrLe.refl hs, hout', hnext', ?_, ?_, kl', kb', body, hbody, hat4, ?_, hmid4⟩
    · exact R'
    rotate_left
    · refine ⟨⟨fun t ht => ?_, fun i hi => hmk4 _ (by have := X.cap; simp at this; omega)⟩, Or.inl ⟨rfl, ?_⟩⟩
      · rw [hA]
        simp only
        rw [get_clobberTemp _ (by unfold Mock.T_TEMP; omega), h4temps t (by omega)]
      · rw [hA]; exact h4heap
    · have hlow : ∀ t, t < 2 * (Γ'.length + 1) → cfg'.temps.get t = cfg.temps.get t := by
        intro t ht
        rw [hA]
        simp only
        rw [get_clobberTemp _ (by unfold Mock.T_TEMP; omega), h4temps t ht]
      rw [List.append_nil]
      refine ⟨X4.bnd, by omega, ?_, ?_, by rw [X4.out, hA]; exact h4out.symm, X4.frame, X4.hrel, ?_⟩
      · intro i hi a ha
        rw [hlow _ (by omega)] at ha
        have := X4.words i (by simp; omega) a ha
        rw [List.getElem_append_left hi] at this
        exact this
      · intro i hi hc r' hr'
        rw [hlow _ (by omega)] at hr'
        exact X4.ptrs i (by simp; omega) (by rw [List.getElem_append_left hi]; exact hc) r' hr'
      · have e1 : cfg'.heap = cfg.heap := by rw [hA]; exact h4heap
        have e2 : cfg'.next = cfg.next := by rw [hA]; exact h4next
        have e3 : roots (Γ' ++ [b]) cfg.temps = roots Γ' cfg'.temps := by
          rw [roots_snoc]
          have : rootOf cfg.temps b Γ'.length = [] := by
            unfold rootOf; rw [hr]; simp
          rw [this, List.append_nil]
          exact (roots_congr _ _ _ (fun i hi => hlow (2 * i) (by omega))).symm
        rw [e1, e2, ← e3]
        exact X4.href
  | cons b0 Δ =>
    rw [hctx] at hkinds
    cases hB with
    | empty => simp [Mock.kindsOf] at hkinds
    | block v vs _ o hr0 hg hF =>
      have hk : o.fields.map (·.chi) = Mock.kindsOf c.ctx := by
        rw [RepF.kinds hF, hctx]; exact hkinds
      have hne : o.fields ≠ [] := by
        intro e
        rw [e, hctx] at hk
        simp [Mock.kindsOf] at hk
      have hr4 : cfg4.temps.get (2 * Γ'.length) = some r := by rw [h4temps _ (by omega)]; exact hr
      have hg4 : cfg4.heap.get r.toNat = some o := by rw [h4heap]; exact hg
      have hk4 : o.fields.map (·.chi) = b0.chi :: Mock.kindsOf Δ := by rw [hk, hctx]; rfl
      have hloadM' : P.code[cfg4.pc]? = some (.load (b0.chi :: Mock.kindsOf Δ) Γ'.length) := by
        rw [hloadM, hctx]; rfl
      -- the abstract step, explicitly
      have hexp : ∃ h', loadAbs cfg.heap r.toNat o = .ok h' ∧ cfg' =
          { cfg4 with pc := cfg4.pc + 1, temps := writeFields (clobberTemp cfg4.temps) o.fields Γ'.length, heap := h' } := by
        by_cases hc0 : o.count = 0
        · have hA := step_load_unique P cfg4 _ _ _ r o hloadM' hr4 hr0 hg4 hk4 hc0
          rw [hstep] at hA
          injection hA with hA
          refine ⟨cfg.heap.remove r.toNat, ?_, by rw [hA, h4heap]⟩
          unfold loadAbs
          simp [hc0]
        · cases hsh : (cfg4.heap.set r.toNat { o with count := o.count - 1 }).shareAll o.children with
          | error e =>
            exfalso
            have h1 : (r == 0) = false := by rw [beq_eq_false_iff_ne]; exact hr0
            have h2 : (o.fields.map (·.chi) != b0.chi :: Mock.kindsOf Δ) = false := by rw [hk4]; exact kinds_bne_self _
            have h3 : (o.count == 0) = false := by rw [beq_eq_false_iff_ne]; exact hc0
            simp only [Abs.step, hloadM', getT, hr4, h1, hg4, h2, h3, hsh, Bool.false_eq_true, if_false,
              stuck] at hstep
            cases hstep
          | ok h' =>
            have hA := step_load_shared P cfg4 _ _ _ r o h' hloadM' hr4 hr0 hg4 hk4 hc0 hsh
            rw [hstep] at hA
            injection hA with hA
            refine ⟨h', ?_, hA⟩
            unfold loadAbs
            have : (o.count == 0) = false := by rw [beq_eq_false_iff_ne]; exact hc0
            rw [if_neg (by rw [this]; simp), ← h4heap]
            exact hsh
      obtain ⟨h', hlo, hcfg'⟩ := hexp
      obtain ⟨code, kk', hrunL, _, _, st5, hs', hx, hpc5, X5, hfrL, hkeep5, hval5⟩ :=
        load_x3 (la := px.labelAddr) H h8 X4 hbne hr hr0 hg hk hne hcapX h4next h4out h4temps hlo hcfg' kl
      have hcode' : code = lcode := by
        rw [hload] at hrunL
        injection hrunL with hrunL
        injection hrunL with e1 _
        exact e1.symm
      subst hcode'
      rw [← hmon] at hx
      obtain ⟨n5, steps5, hn5, hm5⟩ := x_steps_fwdM mon L hnd hat4.left hx (noCtx_load hload)
      refine ⟨k4 + 1, cfg', _, hs', _, stepsTo_trans P _ _ _ _ _ hst4 (stepsTo_one P _ _ hstep),
        stepN_trans mon px hn4 hn5, hfrL, hout', hnext', ?_, ?_, kl', kb', body, ?_, ?_, ?_, Mid.transS hmid4 hn4 hm5⟩
      · rw [← hctx]; exact R'
      · rw [← hctx]; exact X3R.setPS X5 _ _
      · rw [← hctx]; exact hbody
      · exact hat4.right
      · -- what happened to the positions and the heap
        have hcapX' := X.cap
        simp only [List.length_append, List.length_singleton] at hcapX'
        have hlenF : o.fields.length = (b0 :: Δ).length := by
          have := congrArg List.length hk
          rw [hctx] at this
          simpa [Mock.kindsOf] using this
        refine ⟨⟨fun t ht => ?_, fun i hi => ?_⟩, Or.inr ⟨r, o, hr, hr0, hg, by rw [← hctx]; exact hk, fun j hj => ⟨?_, ?_, ?_⟩⟩⟩
        · rw [hcfg']
          simp only
          rw [writeFields_get_low _ _ _ _ ht, get_clobberTemp _ (by unfold Mock.T_TEMP; omega), h4temps t (by omega)]
        · rw [tempVal_setPS, hkeep5 _ (by omega), hmk4 _ (by omega)]
        · rw [hcfg']; exact writeFields_get_val _ _ _ _ hj
        · rw [hcfg']; exact writeFields_get_ptr _ _ _ _ hj
        · rw [tempVal_setPS]; exact hval5 j hj

end Switch3M

end Scc.X86.Ref.K
