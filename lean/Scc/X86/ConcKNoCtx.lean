/-
  Scc.X86.ConcKNoCtx — NO `#ctx` COMMENT INSIDE THE CODE OF A STATEMENT (static part of gap (4b) of
  `C09_x86_monitor_statement`): the only comments of the emitted routine that the heap monitor's parser accepts
  (`parseCtx msg ≠ none`, i.e. the text starts with `#ctx [`) are the `verif_hooks` comments at the START of the
  code of a statement.  Every other comment the generators emit is a literal that starts differently (`##store
  values`, `#load tag`, `else branch`, …), a literal followed by a number or a name (`#####check child 3 for
  erasure`, `#erase x`), or a statement comment (`let x: T = K(...)`, `lit n <- 5;`, …; the two that start with
  a NAME — `f(...)` of a call and `x <- a + b;` of an operation — need that the name does not start with `#`).
  * `parseCtx_none_of_head`, `parseCtx_none_of_second`: the monitor's parser rejects a text whose first character
    is not `#` / whose second character is not `c`;
  * `NoCtx` of every block of code the x86-64 backend methods return (code.rs, memory.rs, parallel_moves.rs:
    `noCtx_store`, `noCtx_load`, `noCtx_eraseBlock`, `noCtx_shareBlockN`, `noCtx_binop`, `noCtx_printI64`, …);
  * the comments of the generic generator.
-/
import Scc.X86.ConcKMid
import Scc.X86.ProofsWfAll

set_option linter.unusedVariables false
set_option linter.unusedSimpArgs false

namespace Scc.X86.Ref

open Scc.AxCut Scc.X86 Scc.Backend

/-! ## the monitor's parser -/

theorem ctxPrefix_toList : "#ctx [".toList = ['#', 'c', 't', 'x', ' ', '['] := by decide

/-- a text whose first character is not `#` is no hook -/
theorem parseCtx_none_of_head {msg : String} (h : msg.toList.head? ≠ some '#') : parseCtx msg = none := by
  unfold parseCtx
  rw [ctxPrefix_toList]
  cases hm : msg.toList with
  | nil => simp [dropPrefix?]
  | cons c cs =>
    rw [hm] at h
    have : '#' ≠ c := by intro e; apply h; rw [← e]; rfl
    simp [dropPrefix?, this]

/-- a text whose second character is not `c` is no hook -/
theorem parseCtx_none_of_second {msg : String} (h : msg.toList[1]? ≠ some 'c') : parseCtx msg = none := by
  unfold parseCtx
  rw [ctxPrefix_toList]
  cases hm : msg.toList with
  | nil => simp [dropPrefix?]
  | cons c cs =>
    cases cs with
    | nil => by_cases e : '#' = c <;> simp [dropPrefix?, e]
    | cons d ds =>
      rw [hm] at h
      have : 'c' ≠ d := by intro e; apply h; rw [← e]; rfl
      by_cases e : '#' = c <;> simp [dropPrefix?, e, this]

/-- a literal followed by anything: the first characters are those of the literal -/
theorem head_append_lit {a b : String} {c : Char} (h : a.toList.head? = some c) : (a ++ b).toList.head? = some c := by
  rw [String.toList_append]
  cases ha : a.toList with
  | nil => rw [ha] at h; cases h
  | cons x xs => rw [ha] at h; simpa using h

theorem second_append_lit {a b : String} {c : Char} (h : a.toList[1]? = some c) : (a ++ b).toList[1]? = some c := by
  rw [String.toList_append]
  cases ha : a.toList with
  | nil => rw [ha] at h; cases h
  | cons x xs =>
    cases xs with
    | nil => rw [ha] at h; cases h
    | cons y ys => rw [ha] at h; simpa using h

/-- a comment that is a literal starting with a character other than `#`, followed by anything -/
theorem not_isCtx_lit_head (a b : String) {c : Char} (h : a.toList.head? = some c) (hc : c ≠ '#') :
    ¬ IsCtx (.COMMENT (a ++ b)) :=
  not_isCtx_comment (parseCtx_none_of_head (by rw [head_append_lit h]; intro e; injection e with e; exact hc e))

/-- a comment that is a literal whose second character is not `c`, followed by anything -/
theorem not_isCtx_lit_second (a b : String) {c : Char} (h : a.toList[1]? = some c) (hc : c ≠ 'c') :
    ¬ IsCtx (.COMMENT (a ++ b)) :=
  not_isCtx_comment (parseCtx_none_of_second (by rw [second_append_lit h]; intro e; injection e with e; exact hc e))

/-- not a comment -/
def noComment : Code → Bool
  | .COMMENT _ => false
  | _ => true

theorem not_isCtx_of_noComment {c : Code} (h : noComment c = true) : ¬ IsCtx c := by
  apply not_isCtx_of_ne
  intro m e
  subst e
  cases h

/-- one item: an instruction, or a literal comment that is no hook -/
macro "nc_item" : tactic => `(tactic| first
  | exact not_isCtx_of_noComment rfl
  | exact not_isCtx_comment (parseCtx_none_of_second (by decide))
  | exact not_isCtx_comment (parseCtx_none_of_head (by decide)))

/-- a list built from explicit items, appends, conditionals and lists known to be `NoCtx` -/
macro "nc" : tactic => `(tactic| repeat (first
  | assumption
  | nc_item
  | exact NoCtx.nil
  | apply NoCtx.append
  | apply NoCtx.cons
  | split))

/-! ## code.rs: instruction sequences -/

theorem noCtx_of_all {l : List Code} (h : l.all noComment = true) : NoCtx l := by
  refine ⟨fun c hc => ?_⟩
  rw [List.all_eq_true] at h
  exact not_isCtx_of_noComment (h c hc)

theorem nc_moveFromRegister (t : Temporary) (r : Reg) : NoCtx (moveFromRegister t r) := by
  cases t <;> exact noCtx_of_all rfl
theorem nc_moveToRegister (r : Reg) (t : Temporary) : NoCtx (moveToRegister r t) := by
  cases t <;> exact noCtx_of_all rfl
theorem nc_addToRegister (r : Reg) (t : Temporary) : NoCtx (addToRegister r t) := by
  cases t <;> exact noCtx_of_all rfl
theorem nc_addToSpill (p : Nat) (t : Temporary) : NoCtx (addToSpill p t) := by
  cases t <;> exact noCtx_of_all rfl
theorem nc_mulToRegister (r : Reg) (t : Temporary) : NoCtx (mulToRegister r t) := by
  cases t <;> exact noCtx_of_all rfl
theorem nc_mulToSpill (p : Nat) (t : Temporary) : NoCtx (mulToSpill p t) := by
  cases t <;> exact noCtx_of_all rfl
theorem nc_subToRegister (r : Reg) (t : Temporary) : NoCtx (subToRegister r t) := by
  cases t <;> exact noCtx_of_all rfl
theorem nc_subToSpill (p : Nat) (t : Temporary) : NoCtx (subToSpill p t) := by
  cases t <;> exact noCtx_of_all rfl

theorem nc_opCommutative {f : Reg → Temporary → List Code} {g : Nat → Temporary → List Code}
    (hf : ∀ r t, NoCtx (f r t)) (hg : ∀ p t, NoCtx (g p t)) (t s1 s2 : Temporary) :
    NoCtx (opCommutative f g t s1 s2) := by
  unfold opCommutative
  cases t with
  | reg r =>
    simp only
    split
    · exact hf _ _
    · split
      · exact hf _ _
      · exact (nc_moveToRegister _ _).append (hf _ _)
  | spill p =>
    simp only
    split
    · exact hg _ _
    · split
      · exact hg _ _
      · exact ((nc_moveToRegister _ _).append (hf _ _)).append (noCtx_of_all rfl)

theorem nc_sub (t s1 s2 : Temporary) : NoCtx (sub t s1 s2) := by
  unfold sub
  cases t with
  | reg r =>
    simp only
    split
    · exact nc_subToRegister _ _
    · split
      · exact ((nc_moveToRegister _ _).append (nc_subToRegister _ _)).append (noCtx_of_all rfl)
      · exact (nc_moveToRegister _ _).append (nc_subToRegister _ _)
  | spill p =>
    simp only
    split
    · exact nc_subToSpill _ _
    · exact ((nc_moveToRegister _ _).append (nc_subToRegister _ _)).append (noCtx_of_all rfl)

theorem nc_divBy (t : Temporary) : NoCtx (divBy t) := by
  unfold divBy
  cases t with
  | reg r => simp only; split <;> exact noCtx_of_all rfl
  | spill p => exact noCtx_of_all rfl

theorem noCtx_binop (o : BinOp) (t s1 s2 : Temporary) : NoCtx (binop o t s1 s2) := by
  cases o with
  | sum => exact nc_opCommutative nc_addToRegister nc_addToSpill t s1 s2
  | sub => exact nc_sub t s1 s2
  | prod => exact nc_opCommutative nc_mulToRegister nc_mulToSpill t s1 s2
  | div =>
    show NoCtx (div t s1 s2)
    unfold div
    exact ((((((NoCtx.append (noCtx_of_all rfl) (nc_moveFromRegister _ _)).append (nc_moveToRegister _ _)).append
      (nc_divBy _)).append (noCtx_of_all rfl)).append (nc_moveToRegister _ _)).append
      (nc_moveFromRegister _ _)).append (noCtx_of_all rfl)
  | rem =>
    show NoCtx (rem t s1 s2)
    unfold rem
    exact (((((NoCtx.append (noCtx_of_all rfl) (nc_moveFromRegister _ _)).append (nc_moveToRegister _ _)).append
      (nc_divBy _)).append (nc_moveToRegister _ _)).append (nc_moveFromRegister _ _)).append (noCtx_of_all rfl)

theorem noCtx_mov (t s : Temporary) : NoCtx (mov t s) := by
  unfold mov
  cases s with
  | reg r => exact nc_moveFromRegister _ _
  | spill p =>
    cases t with
    | reg r => exact nc_moveToRegister _ _
    | spill q => exact (nc_moveToRegister _ _).append (nc_moveFromRegister _ _)

theorem noCtx_compare (a b : Temporary) : NoCtx (compare a b) := by
  cases a <;> cases b <;> exact noCtx_of_all rfl

theorem noCtx_compareImmediate (t : Temporary) (i : Int) : NoCtx (compareImmediate t i) := by
  cases t <;> exact noCtx_of_all rfl

theorem not_isCtx_condJump (s : IfSort) (l : String) : ¬ IsCtx (condJump s l) := by
  cases s <;> exact not_isCtx_of_noComment rfl

theorem noCtx_jumpLabelIf (s : IfSort) (a b : Temporary) (l : String) : NoCtx (jumpLabelIf s a b l) :=
  (noCtx_compare a b).append (NoCtx.cons (not_isCtx_condJump s l) NoCtx.nil)

theorem noCtx_jumpLabelIfZero (s : IfSort) (a : Temporary) (l : String) : NoCtx (jumpLabelIfZero s a l) :=
  (noCtx_compareImmediate a 0).append (NoCtx.cons (not_isCtx_condJump s l) NoCtx.nil)

theorem noCtx_loadImmediate (t : Temporary) (n : Int) : NoCtx (loadImmediate t n) := by
  unfold loadImmediate
  cases t with
  | reg r => exact noCtx_of_all rfl
  | spill p => simp only; split <;> exact noCtx_of_all rfl

theorem noCtx_loadLabel (t : Temporary) (l : String) : NoCtx (loadLabel t l) := by
  cases t <;> exact noCtx_of_all rfl

theorem noCtx_jump (t : Temporary) : NoCtx (jump t) := by
  cases t <;> exact noCtx_of_all rfl

theorem noCtx_addAndJump (t : Temporary) (i : Int) : NoCtx (addAndJump t i) := by
  cases t <;> exact noCtx_of_all rfl

theorem noCtx_storeTemporary (t : Temporary) (b : Bool) : NoCtx (storeTemporary t b) := by
  unfold storeTemporary
  cases t with
  | reg r => simp only; split <;> exact noCtx_of_all rfl
  | spill p => simp only; exact NoCtx.append (noCtx_of_all rfl) (by split <;> exact noCtx_of_all rfl)

theorem noCtx_restoreTemporary (t : Temporary) (b : Bool) : NoCtx (restoreTemporary t b) := by
  unfold restoreTemporary
  cases t with
  | reg r => simp only; split <;> exact noCtx_of_all rfl
  | spill p => simp only; exact NoCtx.append (by split <;> exact noCtx_of_all rfl) (noCtx_of_all rfl)

theorem noCtx_map_noComment {α : Type} (f : α → Code) (h : ∀ a, noComment (f a) = true) (l : List α) :
    NoCtx (l.map f) := by
  apply noCtx_of_all
  rw [List.all_eq_true]
  intro c hc
  obtain ⟨a, _, rfl⟩ := List.mem_map.1 hc
  exact h a

theorem noCtx_saveCallerSaveRegisters (first : Nat) (regs : List Nat) :
    NoCtx (saveCallerSaveRegisters first regs) := by
  unfold saveCallerSaveRegisters
  refine NoCtx.append (NoCtx.append (noCtx_map_noComment _ (fun _ => rfl) _) (noCtx_map_noComment _ (fun _ => rfl) _)) ?_
  split <;> exact noCtx_of_all rfl

theorem noCtx_restoreCallerSaveRegisters (first : Nat) (regs : List Nat) :
    NoCtx (restoreCallerSaveRegisters first regs) := by
  unfold restoreCallerSaveRegisters
  refine NoCtx.append (NoCtx.append (noCtx_map_noComment _ (fun _ => rfl) _) ?_) (noCtx_map_noComment _ (fun _ => rfl) _)
  split <;> exact noCtx_of_all rfl

theorem noCtx_printI64 (nl : Bool) (t : Temporary) (ctx : Ctx) : NoCtx (printI64 nl t ctx) := by
  unfold printI64
  simp only
  refine NoCtx.append (NoCtx.append (NoCtx.append (NoCtx.append (NoCtx.append (NoCtx.append ?_ ?_) ?_) ?_) ?_) ?_) ?_
  · cases t with
    | reg r => exact NoCtx.nil
    | spill p => exact NoCtx.append (NoCtx.cons (by nc_item) NoCtx.nil) (nc_moveToRegister _ _)
  · exact NoCtx.cons (by nc_item) NoCtx.nil
  · exact noCtx_saveCallerSaveRegisters _ _
  · exact NoCtx.cons (by nc_item) NoCtx.nil
  · cases t <;> exact noCtx_of_all rfl
  · exact NoCtx.cons (by nc_item) (NoCtx.cons (by nc_item) NoCtx.nil)
  · exact noCtx_restoreCallerSaveRegisters _ _

/-! ## memory.rs -/

/-- the generator returns code without `#ctx` comments -/
abbrev PostNC (m : GenM (List Code)) : Prop := Post m NoCtx

theorem postNC_skipIfZero (cond : Temporary) {body : List Code} (hb : NoCtx body) :
    PostNC (skipIfZero cond body) := by
  unfold skipIfZero
  exact Post.bind (Post.true _) fun l _ => Post.pure
    (NoCtx.append (NoCtx.append (NoCtx.append (noCtx_compareImmediate _ _) (by nc)) hb) (by nc))

theorem postNC_ifZeroThenElse (cond : Nat) (offset : Option Int) {tb eb : List Code} (ht : NoCtx tb)
    (he : NoCtx eb) : PostNC (ifZeroThenElse cond offset tb eb) := by
  unfold ifZeroThenElse
  refine Post.bind (Post.true _) fun l1 _ => Post.bind (Post.true _) fun l2 _ => Post.pure ?_
  refine NoCtx.append (NoCtx.append (NoCtx.append (NoCtx.append ?_ he) (by nc)) ht) (by nc)
  refine NoCtx.cons ?_ (by nc)
  cases offset <;> exact not_isCtx_of_noComment rfl

theorem postNC_eraseValidObject (r : Nat) : PostNC (eraseValidObject r) := by
  unfold eraseValidObject
  exact postNC_ifZeroThenElse _ _ (by nc) (by nc)

theorem postNC_eraseBlock (t : Temporary) : PostNC (eraseBlock t) := by
  unfold eraseBlock
  cases t with
  | reg r =>
    exact Post.bind (postNC_eraseValidObject r) fun c hc =>
      postNC_skipIfZero _ (NoCtx.append (by nc) hc)
  | spill p =>
    exact Post.bind (postNC_eraseValidObject _) fun c hc =>
      Post.bind (postNC_skipIfZero _ (NoCtx.append (by nc) hc)) fun r hr =>
        Post.pure (NoCtx.append (by nc) hr)

theorem postNC_shareBlockN (t : Temporary) (n : Nat) : PostNC (shareBlockN t n) := by
  unfold shareBlockN
  cases t with
  | reg r => exact postNC_skipIfZero _ (by nc)
  | spill p => exact postNC_skipIfZero _ (by nc)

theorem postNC_shareBlock (t : Temporary) : PostNC (shareBlock t) := postNC_shareBlockN t 1

theorem not_isCtx_checkChild (n : Nat) :
    ¬ IsCtx (.COMMENT ("#####check child " ++ toString n ++ " for erasure")) := by
  rw [String.append_assoc]
  exact not_isCtx_lit_second _ _ (c := '#') (by decide) (by decide)

theorem postNC_eraseFields (r : Nat) : ∀ (n offset : Nat), PostNC (eraseFields r n offset)
  | 0, _ => by unfold eraseFields; exact Post.pure NoCtx.nil
  | n + 1, offset => by
    unfold eraseFields
    exact Post.bind (postNC_eraseBlock _) fun c hc =>
      Post.bind (postNC_eraseFields r n (offset + 1)) fun rest hrest =>
        Post.pure (NoCtx.append (NoCtx.append
          (NoCtx.cons (not_isCtx_checkChild _) (by nc)) hc) hrest)

theorem postNC_acquireBlock (t : Temporary) : PostNC (acquireBlock t) := by
  unfold acquireBlock
  dsimp only
  refine Post.bind (postNC_eraseFields _ _ _) fun erased he => ?_
  refine Post.bind (postNC_ifZeroThenElse _ _ (by nc) (NoCtx.append (by nc) he)) fun inner hi => ?_
  refine Post.bind (postNC_ifZeroThenElse _ _ (NoCtx.append (by nc) hi) ?_) fun outer ho => ?_
  · refine NoCtx.cons (by nc_item) (NoCtx.cons ?_ NoCtx.nil)
    cases t <;> exact not_isCtx_of_noComment rfl
  · refine Post.pure (NoCtx.append (NoCtx.append ?_ (by nc)) ho)
    cases t <;> exact noCtx_of_all rfl

theorem noCtx_releaseBlock (r : Nat) : NoCtx (releaseBlock r) := noCtx_of_all rfl

theorem noCtx_storeZero (r off : Nat) : NoCtx (storeZero r off) := noCtx_of_all rfl

theorem noCtx_storeZeros (k r : Nat) : NoCtx (storeZeros k r) := by
  refine ⟨fun code hc => ?_⟩
  simp only [storeZeros, List.mem_flatten, List.mem_map, List.mem_range] at hc
  obtain ⟨l, ⟨off, _, rfl⟩, hcl⟩ := hc
  exact (noCtx_storeZero r off).all code hcl

theorem postNC_storeField (n : TempNum) (ctx : Ctx) (r off : Nat) : PostNC (storeField n ctx r off) := by
  unfold storeField
  refine Post.bind (Post.true _) fun t _ => ?_
  cases t <;> exact Post.pure (noCtx_of_all rfl)

theorem postNC_loadField (n : TempNum) (ctx : Ctx) (r off : Nat) : PostNC (loadField n ctx r off) := by
  unfold loadField
  refine Post.bind (Post.true _) fun t _ => ?_
  cases t <;> exact Post.pure (noCtx_of_all rfl)

theorem postNC_storeValue (b : Binding) (ctx : Ctx) (r off : Nat) : PostNC (storeValue b ctx r off) := by
  unfold storeValue
  refine Post.bind (postNC_storeField .snd ctx r off) fun c1 h1 => ?_
  split
  · exact Post.pure (NoCtx.append h1 (noCtx_storeZero r off))
  · exact Post.bind (postNC_storeField .fst ctx r off) fun c2 h2 => Post.pure (NoCtx.append h1 h2)

theorem postNC_loadValue (b : Binding) (ctx : Ctx) (r off : Nat) (mode : LoadMode) :
    PostNC (loadValue b ctx r off mode) := by
  unfold loadValue
  refine Post.bind (postNC_loadField .snd ctx r off) fun c1 h1 => ?_
  split
  · refine Post.bind (postNC_loadField .fst ctx r off) fun c2 h2 => ?_
    refine Post.bind (Post.true _) fun t _ => ?_
    dsimp only
    split
    · exact Post.bind (postNC_shareBlock _) fun c3 h3 => Post.pure (NoCtx.append (NoCtx.append h1 h2) h3)
    · exact Post.pure (NoCtx.append h1 h2)
  · exact Post.pure h1

theorem post_storeValuesLoopNC (ctx : Ctx) (r : Nat) : ∀ (l : List Binding) (ff : Nat),
    Post (storeValuesLoop ctx r l ff) (fun res => NoCtx res.1)
  | [], ff => by unfold storeValuesLoop; exact Post.pure NoCtx.nil
  | b :: rest, ff => by
    unfold storeValuesLoop
    refine Post.bind (Post.true _) fun off _ => ?_
    refine Post.bind (postNC_storeValue b _ r off) fun c hc => ?_
    refine Post.bind (post_storeValuesLoopNC ctx r rest off) fun res hres => ?_
    obtain ⟨cs, ff'⟩ := res
    exact Post.pure (NoCtx.append hc hres)

theorem postNC_storeValues (toStore ctx : Ctx) (r ff : Nat) : PostNC (storeValues toStore ctx r ff) := by
  unfold storeValues
  refine Post.bind (post_storeValuesLoopNC ctx r _ ff) fun res hres => ?_
  obtain ⟨cs, ff'⟩ := res
  refine Post.pure (NoCtx.append (NoCtx.append (NoCtx.append (by nc) hres) ?_) (noCtx_storeZeros _ _))
  split
  · exact NoCtx.cons (by nc_item) NoCtx.nil
  · exact NoCtx.nil

theorem postNC_loadValuesLoop (ctx : Ctx) (r : Nat) (mode : LoadMode) : ∀ (l : List Binding) (ff : Nat),
    PostNC (loadValuesLoop ctx r mode l ff)
  | [], ff => by unfold loadValuesLoop; exact Post.pure NoCtx.nil
  | b :: rest, ff => by
    unfold loadValuesLoop
    refine Post.bind (Post.true _) fun off _ => ?_
    refine Post.bind (postNC_loadValue b _ r off mode) fun c hc => ?_
    refine Post.bind (postNC_loadValuesLoop ctx r mode rest off) fun cs hcs => ?_
    exact Post.pure (NoCtx.append hc hcs)

theorem postNC_loadValues (toLoad ctx : Ctx) (r ff : Nat) (mode : LoadMode) :
    PostNC (loadValues toLoad ctx r ff mode) := by
  unfold loadValues
  exact Post.bind (postNC_loadValuesLoop ctx r mode _ ff) fun cs hcs =>
    Post.pure (NoCtx.append (by nc) hcs)

theorem postNC_storeFields : ∀ (fuel : Nat) (toStore ctx : Ctx) (pos : BlockPosition),
    PostNC (storeFields fuel toStore ctx pos)
  | 0, _, _, _ => by unfold storeFields; exact Post.throw
  | fuel + 1, toStore, ctx, pos => by
    unfold storeFields
    split
    · split
      · exact Post.bind (Post.true _) fun t _ =>
          Post.pure (NoCtx.append (by nc) (noCtx_loadImmediate t 0))
      · exact Post.pure NoCtx.nil
    · dsimp only
      split
      · refine Post.bind (postNC_storeField _ _ _ _) fun c hc =>
          Post.bind (Post.pure (NoCtx.append (by nc) hc)) fun c1 h1 => ?_
        refine Post.bind (postNC_storeValues _ _ _ _) fun c3 h3 => ?_
        refine Post.bind (Post.true _) fun t _ => ?_
        refine Post.bind (postNC_acquireBlock t) fun c4 h4 => ?_
        refine Post.bind (postNC_storeFields fuel _ ctx .other) fun c5 h5 => ?_
        refine Post.pure (NoCtx.append (NoCtx.append (NoCtx.append (NoCtx.append (NoCtx.append h1 ?_) h3) (by nc)) h4) h5)
        split
        · exact NoCtx.cons (by nc_item) NoCtx.nil
        · exact NoCtx.nil
      · refine Post.bind (Post.pure NoCtx.nil) fun c1 h1 => ?_
        refine Post.bind (postNC_storeValues _ _ _ _) fun c3 h3 => ?_
        refine Post.bind (Post.true _) fun t _ => ?_
        refine Post.bind (postNC_acquireBlock t) fun c4 h4 => ?_
        refine Post.bind (postNC_storeFields fuel _ ctx .other) fun c5 h5 => ?_
        refine Post.pure (NoCtx.append (NoCtx.append (NoCtx.append (NoCtx.append (NoCtx.append h1 ?_) h3) (by nc)) h4) h5)
        split
        · exact NoCtx.cons (by nc_item) NoCtx.nil
        · exact NoCtx.nil

theorem noCtx_store {toStore ctx : Ctx} {k k' : Nat} {code : List Code}
    (h : (store toStore ctx).run k = .ok (code, k')) : NoCtx code :=
  postNC_storeFields _ _ _ _ k code k' h

theorem postNC_loadFieldsBlock (r : Nat) (toLoadNext c1 c2 : Ctx) (pos : BlockPosition) (mode : LoadMode) :
    PostNC (loadFieldsBlock r toLoadNext c1 c2 pos mode) := by
  unfold loadFieldsBlock
  have h1 : NoCtx (if mode = .release then
      [Code.COMMENT "###release block"] ++ releaseBlock r else []) := by
    split
    · exact NoCtx.append (by nc) (noCtx_releaseBlock r)
    · exact NoCtx.nil
  dsimp only
  split
  · refine Post.bind (postNC_loadField _ _ _ _) fun c hc =>
      Post.bind (Post.pure (NoCtx.append (by nc) hc)) fun c2' h2 => ?_
    exact Post.bind (postNC_loadValues _ _ _ _ _) fun c3 h3 =>
      Post.pure (NoCtx.append (NoCtx.append h1 h2) h3)
  · refine Post.bind (Post.pure NoCtx.nil) fun c2' h2 => ?_
    exact Post.bind (postNC_loadValues _ _ _ _ _) fun c3 h3 =>
      Post.pure (NoCtx.append (NoCtx.append h1 h2) h3)

theorem post_loadFieldsNC : ∀ (fuel : Nat) (toLoad ctx : Ctx) (pos : BlockPosition) (mode : LoadMode)
    (freed : Bool), Post (loadFields fuel toLoad ctx pos mode freed) (fun res => NoCtx res.1)
  | 0, _, _, _, _, _ => by unfold loadFields; exact Post.throw
  | fuel + 1, toLoad, ctx, pos, mode, freed => by
    unfold loadFields
    split
    · exact Post.pure NoCtx.nil
    · refine Post.bind (post_loadFieldsNC fuel _ ctx .other mode freed) fun res0 h0 => ?_
      obtain ⟨c0, freed'⟩ := res0
      refine Post.bind (Post.true _) fun mb _ => ?_
      cases mb with
      | reg r =>
        exact Post.bind (postNC_loadFieldsBlock r _ _ _ pos mode) fun c hc => Post.pure (NoCtx.append h0 hc)
      | spill p =>
        refine Post.bind (postNC_loadFieldsBlock _ _ _ _ pos mode) fun c hc => ?_
        refine Post.pure (NoCtx.append (NoCtx.append (NoCtx.append (NoCtx.append h0 ?_) (by nc)) hc) ?_)
        · split
          · exact NoCtx.cons (by nc_item) (by nc)
          · exact NoCtx.nil
        · split
          · exact NoCtx.cons (by nc_item) (by nc)
          · exact NoCtx.nil

theorem postNC_loadRegister (r : Nat) (toLoad ctx : Ctx) : PostNC (loadRegister r toLoad ctx) := by
  unfold loadRegister
  refine Post.bind (post_loadFieldsNC _ _ _ _ _ _) fun res1 h1 => ?_
  obtain ⟨cThen, f1⟩ := res1
  refine Post.bind (post_loadFieldsNC _ _ _ _ _ _) fun res2 h2 => ?_
  obtain ⟨cElse, f2⟩ := res2
  refine Post.bind (postNC_ifZeroThenElse _ _ (NoCtx.append (by nc) h1) (NoCtx.append (by nc) h2)) fun c hc => ?_
  exact Post.pure (NoCtx.append (by nc) hc)

theorem postNC_load (toLoad ctx : Ctx) : PostNC (load toLoad ctx) := by
  unfold load
  split
  · exact Post.pure NoCtx.nil
  · refine Post.bind (Post.true _) fun mb _ => ?_
    cases mb with
    | reg r => exact Post.bind (postNC_loadRegister r _ _) fun c hc => Post.pure (NoCtx.append (by nc) hc)
    | spill p => exact Post.bind (postNC_loadRegister _ _ _) fun c hc => Post.pure (NoCtx.append (by nc) hc)

theorem noCtx_load {toLoad ctx : Ctx} {k k' : Nat} {code : List Code}
    (h : (load toLoad ctx).run k = .ok (code, k')) : NoCtx code :=
  postNC_load _ _ k code k' h

theorem noCtx_eraseBlock {t : Temporary} {k k' : Nat} {code : List Code}
    (h : (eraseBlock t).run k = .ok (code, k')) : NoCtx code := postNC_eraseBlock t k code k' h

theorem noCtx_shareBlockN {t : Temporary} {n k k' : Nat} {code : List Code}
    (h : (shareBlockN t n).run k = .ok (code, k')) : NoCtx code := postNC_shareBlockN t n k code k' h

/-! ## the comments of the generic generator -/

/-- the statement comment behind the hook: the leading comments of the code of a statement, without the first
item, contain no `#ctx` comment -/
theorem noCtx_tail_hook (hooks : Bool) (Γ : Ctx) {msg : String} (h : ¬ IsCtx (.COMMENT msg)) :
    NoCtx (hookCode x86Backend hooks Γ ++ [x86Backend.comment msg]).tail := by
  unfold hookCode
  cases hooks
  · simp only [Bool.false_eq_true, if_false, List.nil_append, List.tail_cons]
    exact NoCtx.nil
  · simp only [if_true, List.cons_append, List.nil_append, List.tail_cons]
    exact NoCtx.cons h NoCtx.nil

theorem hookCode_length_pos (hooks : Bool) (Γ : Ctx) (msg : String) :
    0 < (hookCode x86Backend hooks Γ ++ [x86Backend.comment msg]).length := by simp

/-- a name that does not start with `#` -/
def HashFree (i : Ident) : Prop := i.name.toList.head? ≠ some '#'

theorem head_print_ne_hash {i : Ident} (h : HashFree i) : i.print.toList.head? ≠ some '#' := by
  unfold Ident.print
  unfold HashFree at h
  split
  · exact h
  · rw [String.toList_append, String.toList_append]
    cases hn : i.name.toList with
    | nil => simp
    | cons c cs => rw [hn] at h; simpa using h

/-- a comment that starts with a `#`-free name, followed by a text that does not start with `#` -/
theorem not_isCtx_name_first {i : Ident} (h : HashFree i) {rest : String} (hr : rest.toList.head? ≠ some '#') :
    ¬ IsCtx (.COMMENT (i.print ++ rest)) := by
  apply not_isCtx_comment
  apply parseCtx_none_of_head
  rw [String.toList_append]
  cases hp : i.print.toList with
  | nil => simpa using hr
  | cons c cs =>
    have := head_print_ne_hash h
    rw [hp] at this
    simpa using this

end Scc.X86.Ref
