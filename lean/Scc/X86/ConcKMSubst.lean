/-
  Scc.X86.ConcKMSubst — THE THREE-WAY SIMULATION OF `subst` (Scc/X86/RefClosHSubst.lean, RefClosHMoves.lean) WITH
  THE PROGRAM COUNTERS IN BETWEEN (`Mid`, Scc/X86/ConcKMid.lean; gap (4b) of `C09_x86_monitor_statement`): the
  statement comment, the reference-count updates (`#erase x` / `#share x` and the code of `erase_block` /
  `share_block_n`) and the parallel moves (`#move variables`, `mov`, `store_temporary`, `restore_temporary`) —
  no `#ctx` comment is passed before the hook of the next statement.
  `mseg_followM`, `urc_step3M`, `run_cwc3M`, `subst_x3M` are the lemmas of the originals with this one more
  conjunct (same proofs); `noCtx_codeExchange`: the code of `code_exchange` contains no `#ctx` comment.
-/
import Scc.X86.ConcKNoCtx

set_option linter.unusedVariables false
set_option linter.unusedSimpArgs false

namespace Scc.X86.Ref.K

open Scc.AxCut Scc.AxCut.Pos Scc.Backend Scc.Backend.Abs Scc.Backend.Sim Scc.Backend.Sim2 Scc.X86
open Scc.Backend.Subst (rp)
open Scc.Heap (HState InvS InvW)
open Scc.Heap.Refine (HRef imgW fieldImg kindB href_erase href_share live_header_add_lt FrLe frLe_erase frLe_share)

/-! ## the code of the parallel moves -/

mutual
  theorem noCtx_treeMoves (t : Temporary) (sp : Bool) : ∀ (tr : Tree Temporary),
      NoCtx (treeMoves x86Backend t sp tr)
    | .backEdge => by simp only [treeMoves]; exact noCtx_storeTemporary _ _
    | .node target kids => by
      simp only [treeMoves]
      exact (noCtx_treeMovesList target sp kids).append (noCtx_mov _ _)
  theorem noCtx_treeMovesList (t : Temporary) (sp : Bool) : ∀ (trs : List (Tree Temporary)),
      NoCtx (treeMovesList x86Backend t sp trs)
    | [] => by simp only [treeMovesList]; exact NoCtx.nil
    | k :: ks => by
      simp only [treeMovesList]
      exact (noCtx_treeMoves t sp k).append (noCtx_treeMovesList t sp ks)
end

theorem noCtx_rootMoves : ∀ (r : Root Temporary), NoCtx (rootMoves x86Backend r)
  | .startNode t kids => by
    simp only [rootMoves]
    refine (noCtx_treeMovesList _ _ kids).append ?_
    split
    · exact noCtx_restoreTemporary _ _
    · exact NoCtx.nil

theorem noCtx_flatten {ls : List (List Code)} (h : ∀ l ∈ ls, NoCtx l) : NoCtx ls.flatten := by
  refine ⟨fun c hc => ?_⟩
  obtain ⟨l, hl, hcl⟩ := List.mem_flatten.1 hc
  exact (h l hl).all c hcl

theorem noCtx_parallelMoves {pm : List (Temporary × List Temporary)} {code : List Code}
    (h : parallelMoves x86Backend pm = .ok code) : NoCtx code := by
  unfold parallelMoves at h
  cases hf : spanningForest x86Backend pm with
  | error e => rw [hf] at h; cases h
  | ok forest =>
    rw [hf] at h
    simp only [Except.ok.injEq] at h
    subst h
    refine NoCtx.append ?_ (noCtx_flatten (fun l hl => ?_))
    · split
      · exact NoCtx.cons (by nc_item) NoCtx.nil
      · exact NoCtx.nil
    · obtain ⟨r, _, rfl⟩ := List.mem_map.1 hl
      exact noCtx_rootMoves r

/-- the code of `code_exchange` contains no `#ctx` comment -/
theorem noCtx_codeExchange {tm : List (Binding × List Nat)} {Γ newΓ : Ctx} {c c' : Nat} {code : List Code}
    (h : (codeExchange x86Backend tm Γ newΓ).run c = .ok (code, c')) : NoCtx code := by
  unfold codeExchange at h
  simp only [run_bind_ok] at h
  obtain ⟨conns, c1, _, h2⟩ := h
  cases hpm : parallelMoves x86Backend conns with
  | error e => rw [hpm] at h2; simp [run_throw_ok] at h2
  | ok code' =>
    rw [hpm] at h2
    simp only [run_pure_ok] at h2
    obtain ⟨rfl, rfl⟩ := h2
    exact noCtx_parallelMoves hpm

section FollowM

variable {F : Frame} (H : FrameOK F) {mon : MonCfg} (hmon : mon.mach = F.c) {px : X86.Prog} {cs : List Code}
  (L : Loaded px cs) {P : Program} {st0 : State}

include H hmon L in
/-- the abstract machine (on ANY configuration: moves copy possibly undefined temporaries) and the
x86-64 machine execute a rendered block of moves in lockstep -/
theorem mseg_followM {g g' : Mode} {ops : List MockOp} {items : List Code} (S : MSeg g ops items g') :
    ∀ (cfg : Config) (st : State), CodeAt P cfg.pc ops → XAt cs st.pc items → MRel F g st0 cfg st →
    NoCtx items →
    ∃ cfg' st' n, stepsTo P (instrCount ops) cfg cfg' ∧ stepN mon px n st = .inl st' ∧
      st'.pc = st.pc + items.length ∧ MRel F g' st0 cfg' st' ∧ cfg'.pc = cfg.pc + instrCount ops ∧
      MidS mon px cs n st := by
  induction S with
  | nil g =>
    intro cfg st _ _ R _
    exact ⟨cfg, st, 0, rfl, rfl, by simp, R, by simp [instrCount], MidS.zero _⟩
  | @cons g g1 g' op blk ops cs' hop S ih =>
    intro cfg st hat hatX R hnc
    have hnc' := noCtx_append.1 hnc
    -- one instruction
    have one : ∃ cfg1 st1 n1, stepsTo P (instrCount [op]) cfg cfg1 ∧ stepN mon px n1 st = .inl st1 ∧
        st1.pc = st.pc + blk.length ∧ MRel F g1 st0 cfg1 st1 ∧ cfg1.pc = cfg.pc + instrCount [op] ∧
        CodeAt P cfg1.pc ops ∧ MidS mon px cs n1 st := by
      cases op <;> simp only [MOpRel] at hop
      case comment m =>
        obtain ⟨rfl, rfl⟩ := hop
        simp only [CodeAt] at hat
        obtain ⟨k0, hk0⟩ := x_steps_straight mon L (blk := [Code.COMMENT m]) hatX.left (by rw [hmon]; rfl)
        exact ⟨cfg, _, _, rfl, hk0, rfl, R.setPS _ _, by simp [instrCount], hat,
          midS_straight mon L (blk := [Code.COMMENT m]) hatX.left (by rw [hmon]; rfl) hnc'.1⟩
      case mov t s =>
        obtain ⟨ht, hs, rfl, rfl, hns⟩ := hop
        simp only [CodeAt] at hat
        obtain ⟨hc, hat'⟩ := hat
        obtain ⟨st1, hx, R1⟩ := mrep_mov H (la := px.labelAddr) R ht hs hns (cfg.pc + 1)
        rw [← hmon] at hx
        obtain ⟨k1, hk1⟩ := x_steps_straight mon L hatX.left hx
        exact ⟨_, _, _, stepsTo_one P _ _ (step_mov' P cfg t s hc (posT_ne_temp ht)), hk1, rfl,
          R1.setPS _ _, rfl, hat', midS_straight mon L hatX.left hx hnc'.1⟩
      case save t sp =>
        obtain ⟨b, rfl, ht, hg, rfl⟩ := hop
        simp only [CodeAt] at hat
        obtain ⟨hc, hat'⟩ := hat
        obtain ⟨st1, hx, R1⟩ := mrep_save H (la := px.labelAddr) R ht b hg (cfg.pc + 1)
        rw [← hmon] at hx
        obtain ⟨k1, hk1⟩ := x_steps_straight mon L hatX.left hx
        exact ⟨_, _, _, stepsTo_one P _ _ (step_save' P cfg t sp hc), hk1, rfl, R1.setPS _ _, rfl, hat',
          midS_straight mon L hatX.left hx hnc'.1⟩
      case restore t sp =>
        obtain ⟨b, rfl, ht, rfl, rfl⟩ := hop
        simp only [CodeAt] at hat
        obtain ⟨hc, hat'⟩ := hat
        obtain ⟨st1, hx, R1⟩ := mrep_restore H (la := px.labelAddr) b R ht (cfg.pc + 1)
        rw [← hmon] at hx
        obtain ⟨k1, hk1⟩ := x_steps_straight mon L hatX.left hx
        exact ⟨_, _, _, stepsTo_one P _ _ (step_restore' P cfg t sp hc (posT_ne_temp ht)), hk1, rfl,
          R1.setPS _ _, rfl, hat', midS_straight mon L hatX.left hx hnc'.1⟩
    obtain ⟨cfg1, st1, n1, hs1, hn1, hpc1, R1, hpcA, hat1, hm1⟩ := one
    obtain ⟨cfg2, st2, n2, hs2, hn2, hpc2, R2, hpcB, hm2⟩ := ih cfg1 st1 hat1 (by rw [hpc1]; exact hatX.right) R1 hnc'.2
    refine ⟨cfg2, st2, n1 + n2, ?_, stepN_trans mon px hn1 hn2, by rw [hpc2, hpc1, List.length_append]; omega,
      R2, ?_, MidS.trans hm1 hn1 hm2⟩
    · have : instrCount (op :: ops) = instrCount [op] + instrCount ops := by
        rw [show op :: ops = [op] ++ ops from rfl, icount_append]
      rw [this]
      exact stepsTo_trans P _ _ _ _ _ hs1 hs2
    · have : instrCount (op :: ops) = instrCount [op] + instrCount ops := by
        rw [show op :: ops = [op] ++ ops from rfl, icount_append]
      rw [hpcB, hpcA, this]; omega

end FollowM

section UrcM

variable {F : Frame} (HF : FrameOK F) (h8 : F.c.heapBase % 8 = 0) {mon : MonCfg} (hmon : mon.mach = F.c)
  {px : X86.Prog} {cs : List Code} (L : Loaded px cs) (hndL : (labs cs).Nodup)

include HF h8 hmon L hndL in
theorem urc_step3M {P : Program} {hooks : Bool} {types : List TypeDecl} {Γ : Ctx} {b : Binding} (tl : Nat)
    (cfg : Config) (code : List MockOp) (c c' : Nat)
    (hrun : (updateReferenceCount mockSym b.var Γ tl).run c = .ok (code, c'))
    (hat : CodeAt P cfg.pc code)
    (p : Word) (hp : cfg.temps.get (2 * Scc.Backend.Subst.posIn Γ b.var.id) = some p)
    (hcap : 2 * Scc.Backend.Subst.posIn Γ b.var.id ≠ Mock.T_TEMP)
    (acc rs : List Nat) (Hh : HeapOK cfg.heap (acc ++ rp p ++ rs) cfg.next)
    (hi : Scc.Backend.Subst.posIn Γ b.var.id < Γ.length)
    (hchi : Γ[Scc.Backend.Subst.posIn Γ b.var.id].chi ≠ .ext)
    {hs : HState} {ι : Nat → Nat} {κ : Nat → Nat → Word} {st : State} (X : X3R F Γ cfg (acc ++ rp p ++ rs) hs ι κ st)
    {kx kx' : Nat} {xcode : List Code}
    (hrunX : (updateReferenceCount x86Backend b.var Γ tl).run kx = .ok (xcode, kx'))
    (hatX : XAt cs st.pc xcode)
    (hlen : (acc ++ rp p ++ rs).length ≤ 2 ^ 40) (htl : tl < 2 ^ 31) :
    ∃ k cfg1, stepsTo P k cfg cfg1 ∧ cfg1.pc = cfg.pc + instrCount code ∧ cfg1.out = cfg.out ∧
      cfg1.next = cfg.next ∧ c = c' ∧
      HeapOK cfg1.heap (acc ++ (List.replicate tl (rp p)).flatten ++ rs) cfg1.next ∧
      (∀ t, t ≠ Mock.T_TEMP → (t ≠ 2 * Scc.Backend.Subst.posIn Γ b.var.id ∨ 0 < tl) →
        cfg1.temps.get t = cfg.temps.get t) ∧
      (∀ (v : Value) (p' : Option Word) (w : Word), RepV P hooks types cfg.heap v p' w →
        (tl = 0 → ∀ r, p' = some r → r ≠ 0 → r.toNat ∈ acc ++ rs) →
        RepV P hooks types cfg1.heap v p' w) ∧
      ∃ st1 hs1 n, stepN mon px n st = .inl st1 ∧ st1.pc = st.pc + xcode.length ∧
        X3R F Γ cfg1 (acc ++ (List.replicate tl (rp p)).flatten ++ rs) hs1 ι κ st1 ∧ FrLe hs hs1 0 ∧
        MachKeep F st st1 ∧ MidS mon px cs n st := by
  obtain ⟨pos, hpos, hcc, hcode⟩ := Scc.Backend.Subst.urc_run_ok _ _ _ _ _ _ hrun
  have hposIn : Scc.Backend.Subst.posIn Γ b.var.id = pos := by
    unfold Scc.Backend.Subst.posIn; rw [hpos]; rfl
  obtain ⟨posX, hposX, hltX, hcodeX⟩ := x_urc_run_ok _ _ _ _ _ _ hrunX
  have hpx : posX = pos := by
    rw [ctxPosition_eq_posOf] at hpos
    rw [hpos] at hposX
    exact (Option.some.inj hposX).symm
  subst hpx
  generalize hpi : Scc.Backend.Subst.posIn Γ b.var.id = pi at *
  have hposIn' := hposIn.symm
  subst hposIn'
  cases tl with
  | zero =>
    simp only at hcode hcodeX
    subst hcode
    obtain ⟨ecode, hrunE, rfl⟩ := hcodeX
    simp only [CodeAt] at hat
    obtain ⟨hc, _⟩ := hat
    have H' : HeapOK cfg.heap ((acc ++ rs) ++ (if p != 0 then [p.toNat] else [])) cfg.next := by
      apply heapOK_count_congr Hh
      intro x
      simp only [rp, List.count_append]
      omega
    obtain ⟨h', he, Hh', hrep⟩ := erase_ok (P := P) (hooks := hooks) (types := types) p H'
    -- the machine
    obtain ⟨k0, hk0⟩ := x_steps_straight mon L (blk := [Code.COMMENT ("#erase " ++ b.var.print)])
      (XAt.left (b := ecode) (by simpa using hatX)) (by rw [hmon]; rfl)
    have Xe : X3R F Γ cfg ((acc ++ rs) ++ rp p) hs ι κ (setPS st (st.pc + 1) k0) :=
      X3R.setPS (X.roots_congr (fun x => by simp only [List.count_append]; omega)) _ _
    obtain ⟨code2, hrun2, st', hs', hx, hpc', X', hfrE, hmkE⟩ :=
      erase_x3 (la := px.labelAddr) h8 hi hchi Xe hp he rfl kx
    have hce : code2 = ecode := by
      rw [hrunE] at hrun2
      injection hrun2 with hrun2
      injection hrun2 with e1 _
      exact e1.symm
    subst hce
    rw [← hmon] at hx
    obtain ⟨n1, steps1, hn1, hm1⟩ := x_steps_fwdM mon L hndL (s := setPS st (st.pc + 1) k0)
      (XAt.tail (by simpa using hatX)) hx (noCtx_eraseBlock hrunE)
    have hm0 : MidS mon px cs 1 st := midS_straight mon L (blk := [Code.COMMENT ("#erase " ++ b.var.print)])
      (XAt.left (b := code2) (by simpa using hatX)) (by rw [hmon]; rfl)
      (NoCtx.cons (not_isCtx_lit_second _ _ (c := 'e') (by decide) (by decide)) NoCtx.nil)
    refine ⟨1, _, stepsTo_one P _ _ (step_erase P cfg _ p h' hc hp he), by simp [instrCount], rfl, rfl,
      hcc, by simpa using Hh', ?_, fun v p' w hv hcond => hrep v p' w hv (hcond rfl), ?_⟩
    · intro t ht hor
      have htp : t ≠ 2 * posX := by
        rcases hor with h | h
        · exact h
        · omega
      show ((clobberTemp cfg.temps).unset (2 * posX)).get t = _
      rw [get_unset_other _ htp, get_clobberTemp _ ht]
    · refine ⟨_, hs', _, stepN_trans mon px hk0 hn1, by simp [setPS]; omega, ?_, hfrE,
        (MachKeep.setPS_left hmkE).setPS_right _ _, MidS.trans hm0 hk0 hm1⟩
      simp only [List.replicate_zero, List.flatten_nil, List.append_nil]
      exact X3R.setPS X' _ _
  | succ n =>
  cases n with
  | zero =>
    simp only at hcode hcodeX
    subst hcode
    obtain ⟨rfl, rfl⟩ := hcodeX
    refine ⟨0, cfg, rfl, by simp [instrCount], rfl, rfl, hcc, by simpa using Hh, fun _ _ _ => rfl,
      fun _ _ _ hv _ => hv, st, hs, 0, rfl, by simp, ?_, Scc.Heap.Refine.FrLe.refl hs, MachKeep.refl F st,
      MidS.zero _⟩
    simpa using X
  | succ m =>
    simp only at hcode hcodeX
    subst hcode
    obtain ⟨scode, hrunS, rfl⟩ := hcodeX
    simp only [CodeAt] at hat
    obtain ⟨hc, _⟩ := hat
    have hmem : p ≠ 0 → p.toNat ∈ acc ++ rp p ++ rs := by
      intro h0
      have : (p != 0) = true := by rw [bne_iff_ne]; exact h0
      simp only [rp, this, if_true, List.mem_append, List.mem_singleton]
      exact Or.inl (Or.inr trivial)
    obtain ⟨h', he, Hh', hk⟩ := share_heapOK p (m + 1) hmem Hh
    -- the machine
    obtain ⟨k0, hk0⟩ := x_steps_straight mon L (blk := [Code.COMMENT ("#share " ++ b.var.print)])
      (XAt.left (b := scode) (by simpa using hatX)) (by rw [hmon]; rfl)
    have Xe : X3R F Γ cfg (acc ++ rp p ++ rs) hs ι κ (setPS st (st.pc + 1) k0) := X3R.setPS X _ _
    obtain ⟨code2, hrun2, st', hs', hx, hpc', X', hfrS, hmkS⟩ :=
      share_x3 (la := px.labelAddr) HF h8 hi hchi Xe hmem hlen hp (k := m + 1) (by omega) he rfl kx
    have hce : code2 = scode := by
      rw [hrunS] at hrun2
      injection hrun2 with hrun2
      injection hrun2 with e1 _
      exact e1.symm
    subst hce
    rw [← hmon] at hx
    obtain ⟨n1, steps1, hn1, hm1⟩ := x_steps_fwdM mon L hndL (s := setPS st (st.pc + 1) k0)
      (XAt.tail (by simpa using hatX)) hx (noCtx_shareBlockN hrunS)
    have hm0 : MidS mon px cs 1 st := midS_straight mon L (blk := [Code.COMMENT ("#share " ++ b.var.print)])
      (XAt.left (b := code2) (by simpa using hatX)) (by rw [hmon]; rfl)
      (NoCtx.cons (not_isCtx_lit_second _ _ (c := 's') (by decide) (by decide)) NoCtx.nil)
    have hcount : ∀ x, (acc ++ (List.replicate (m + 1 + 1) (rp p)).flatten ++ rs).count x =
        (acc ++ rp p ++ rs ++ (List.replicate (m + 1) (rp p)).flatten).count x := by
      intro x
      simp only [List.count_append, Scc.Backend.Subst.count_replicate_flatten]
      rw [show m + 1 + 1 = (m + 1) + 1 by omega, Nat.succ_mul]
      omega
    refine ⟨1, _, stepsTo_one P _ _ (step_share P cfg _ _ p h' hc hp he), by simp [instrCount], rfl, rfl,
      hcc, ?_, ?_, fun v p' w hv _ => RepV.kept hk hv, ?_⟩
    · apply heapOK_count_congr Hh'
      intro x
      have e : (if p != 0 then [p.toNat] else []) = rp p := rfl
      rw [e]
      exact hcount x
    · intro t ht _
      show (clobberTemp cfg.temps).get t = _
      exact get_clobberTemp _ ht
    · refine ⟨_, hs', _, stepN_trans mon px hk0 hn1, by simp [setPS]; omega, ?_, hfrS,
        (MachKeep.setPS_left hmkS).setPS_right _ _, MidS.trans hm0 hk0 hm1⟩
      exact (X3R.setPS X' _ _).roots_congr hcount

open Scc.Backend.Subst in
include HF h8 hmon L hndL in
theorem run_cwc3M {P : Program} {hooks : Bool} {types : List TypeDecl} {Γ : Ctx} {ρ : List Value}
    {pairs : List (Binding × Ident)} {σ0 : Temps}
    (hΓ : (Γ.map (·.var.id)).Nodup) (hcap : 2 * Γ.length + 2 < Mock.T_TEMP)
    (hptr : ∀ i (hi : i < Γ.length), Γ[i].chi ≠ .ext → (σ0.get (2 * i)).isSome)
    (hpl : pairs.length < 2 ^ 31) {ι : Nat → Nat} {κ : Nat → Nat → Word} :
    ∀ (rest : List (Binding × List Nat)) (acc : List Nat) (cfg : Config) (code : List MockOp) (c c' : Nat),
    (codeWeakeningContraction mockSym rest Γ).run c = .ok (code, c') → CodeAt P cfg.pc code →
    (∀ e ∈ rest, e.1 ∈ Γ ∧ e.2 = targetsOf pairs e.1) → (rest.map (·.1.var.id)).Nodup →
    HeapOK cfg.heap (acc ++ rootsT σ0 Γ rest) cfg.next →
    (∀ i (hi : i < Γ.length), targetsOf pairs Γ[i] ≠ [] → Γ[i].chi ≠ .ext →
      (∃ e ∈ rest, e.1 = Γ[i]) ∨ (∀ y ∈ rootOf σ0 Γ[i] i, y ∈ acc)) →
    (∀ i (hi : i < Γ.length), (targetsOf pairs Γ[i] ≠ [] ∨ ∃ e ∈ rest, e.1 = Γ[i]) →
      cfg.temps.get (2 * i) = σ0.get (2 * i) ∧ cfg.temps.get (2 * i + 1) = σ0.get (2 * i + 1)) →
    (∀ i (hi : i < Γ.length) (hi2 : i < ρ.length), targetsOf pairs Γ[i] ≠ [] →
      RepV P hooks types cfg.heap ρ[i] (if Γ[i].chi == .ext then none else σ0.get (2 * i))
        ((σ0.get (2 * i + 1)).getD 0)) →
    ∀ (st : State) (hs : HState) (kx : Nat) (xcode : List Code) (kx' : Nat),
    (codeWeakeningContraction x86Backend rest Γ).run kx = .ok (xcode, kx') → XAt cs st.pc xcode →
    X3R F Γ cfg (acc ++ rootsT σ0 Γ rest) hs ι κ st →
    (acc ++ rootsT σ0 Γ rest).length + rest.length * pairs.length ≤ 2 ^ 40 →
    ∃ k cfg1, stepsTo P k cfg cfg1 ∧ cfg1.pc = cfg.pc + instrCount code ∧ cfg1.out = cfg.out ∧
      cfg1.next = cfg.next ∧ c = c' ∧
      HeapOK cfg1.heap (acc ++ rootsDone σ0 Γ rest) cfg1.next ∧
      (∀ i (hi : i < Γ.length), targetsOf pairs Γ[i] ≠ [] →
        cfg1.temps.get (2 * i) = σ0.get (2 * i) ∧ cfg1.temps.get (2 * i + 1) = σ0.get (2 * i + 1)) ∧
      (∀ i (hi : i < Γ.length) (hi2 : i < ρ.length), targetsOf pairs Γ[i] ≠ [] →
        RepV P hooks types cfg1.heap ρ[i] (if Γ[i].chi == .ext then none else σ0.get (2 * i))
          ((σ0.get (2 * i + 1)).getD 0)) ∧
      ∃ st1 hs1 n, stepN mon px n st = .inl st1 ∧ st1.pc = st.pc + xcode.length ∧
        X3R F Γ cfg1 (acc ++ rootsDone σ0 Γ rest) hs1 ι κ st1 ∧ FrLe hs hs1 0 ∧ MachKeep F st st1 ∧
        MidS mon px cs n st
  | [], acc, cfg, code, c, c', hrun, _, _, _, H, _, T, Vv, st, hs, kx, xcode, kx', hrunX, hatX, X, _ => by
    simp only [codeWeakeningContraction, run_pure_ok] at hrun hrunX
    obtain ⟨rfl, rfl⟩ := hrun
    obtain ⟨rfl, rfl⟩ := hrunX
    refine ⟨0, cfg, rfl, by simp [instrCount], rfl, rfl, rfl, ?_, ?_, Vv, st, hs, 0, rfl, by simp, ?_,
      Scc.Heap.Refine.FrLe.refl hs, MachKeep.refl F st, MidS.zero _⟩
    · simpa [rootsT, rootsDone] using H
    · intro i hi hS; exact T i hi (Or.inl hS)
    · simpa [rootsT, rootsDone] using X
  | (b, targets) :: rest', acc, cfg, code, c, c', hrun, hat, hent, hnd, H, J, T, Vv, st, hs, kx, xcode, kx',
      hrunX, hatX, X, hlen => by
    unfold codeWeakeningContraction at hrun hrunX
    simp only [run_bind_ok, run_pure_ok] at hrun hrunX
    obtain ⟨code1, c1, h1, code2, c2, h2, rfl, rfl⟩ := hrun
    obtain ⟨code1X, k1X, h1X, code2X, k2X, h2X, rfl, rfl⟩ := hrunX
    have htl_le : targets.length ≤ pairs.length := by
      have := (hent (b, targets) (by simp)).2
      simp only at this
      rw [this]
      unfold targetsOf
      rw [List.length_map]
      exact List.length_filter_le _ _
    rw [CodeAt_append] at hat
    obtain ⟨hat1, hat2⟩ := hat
    obtain ⟨hbΓ, htg⟩ := hent (b, targets) (by simp)
    simp only at hbΓ htg
    obtain ⟨i, hi, hgi, hposi⟩ := posIn_of_mem hΓ hbΓ
    have hent' : ∀ e ∈ rest', e.1 ∈ Γ ∧ e.2 = targetsOf pairs e.1 := fun e he => hent e (by simp [he])
    simp only [List.map_cons, List.nodup_cons] at hnd
    -- an entry of the rest is at another position
    have hother : ∀ e ∈ rest', e.1 ≠ b := by
      intro e he hc
      exact hnd.1 (List.mem_map.mpr ⟨e, he, by rw [hc]⟩)
    by_cases hext : b.chi = .ext
    · -- `ext`: no code, no root
      have hbne : (b.chi != .ext) = false := (Sim2.chi_bne_ext_false _).mpr hext
      simp only [hbne, Bool.false_eq_true, if_false, run_pure_ok] at h1 h1X
      obtain ⟨rfl, rfl⟩ := h1
      obtain ⟨rfl, rfl⟩ := h1X
      have hroot : rootAt σ0 Γ b = [] := rootOf_ext σ0 hext _
      have H' : HeapOK cfg.heap (acc ++ rootsT σ0 Γ rest') cfg.next := by
        simpa [rootsT, hroot] using H
      have J' : ∀ i' (hi' : i' < Γ.length), targetsOf pairs Γ[i'] ≠ [] → Γ[i'].chi ≠ .ext →
          (∃ e ∈ rest', e.1 = Γ[i']) ∨ (∀ y ∈ rootOf σ0 Γ[i'] i', y ∈ acc) := by
        intro i' hi' hS hne
        rcases J i' hi' hS hne with ⟨e, he, hee⟩ | h
        · rcases List.mem_cons.mp he with rfl | he'
          · simp only at hee
            rw [← hee] at hne
            exact absurd hext hne
          · exact Or.inl ⟨e, he', hee⟩
        · exact Or.inr h
      have T' : ∀ i' (hi' : i' < Γ.length), (targetsOf pairs Γ[i'] ≠ [] ∨ ∃ e ∈ rest', e.1 = Γ[i']) →
          cfg.temps.get (2 * i') = σ0.get (2 * i') ∧ cfg.temps.get (2 * i' + 1) = σ0.get (2 * i' + 1) := by
        intro i' hi' h
        apply T i' hi'
        rcases h with h | ⟨e, he, hee⟩
        · exact Or.inl h
        · exact Or.inr ⟨e, by simp [he], hee⟩
      have hrT : rootsT σ0 Γ ((b, targets) :: rest') = rootsT σ0 Γ rest' := by simp [rootsT, hroot]
      obtain ⟨k, cfg1, hs', hpc, hout, hnext, hcc, H1, T1, V1, st1, hs1, n1, hn1, hpc1, X1, hfr1, hmk1, hm1⟩ :=
        run_cwc3M hΓ hcap hptr hpl rest' acc cfg code2 _ _ h2 (by simpa [instrCount] using hat2) hent' hnd.2 H' J'
          T' Vv st hs _ code2X _ h2X (by simpa using hatX) (by rw [← hrT]; exact X)
          (by
            rw [hrT] at hlen
            simp only [List.length_cons] at hlen
            have : rest'.length * pairs.length ≤ (rest'.length + 1) * pairs.length :=
              Nat.mul_le_mul_right _ (Nat.le_succ _)
            omega)
      refine ⟨k, cfg1, hs', by simpa [instrCount] using hpc, hout, hnext, hcc, ?_, T1, V1, st1, hs1, n1, hn1,
        by simpa using hpc1, ?_, hfr1, hmk1, hm1⟩
      · simpa [rootsDone, hroot, flatten_replicate_nil] using H1
      · have : rootsDone σ0 Γ ((b, targets) :: rest') = rootsDone σ0 Γ rest' := by
          simp [rootsDone, hroot, flatten_replicate_nil]
        rw [this]; exact X1
    · -- an object or closure variable
      have hbne : (b.chi != .ext) = true := (Sim2.chi_bne_ext _).mpr hext
      simp only [hbne, if_true] at h1 h1X
      have hci : Γ[i].chi ≠ .ext := by rw [hgi]; exact hext
      obtain ⟨hT0, _⟩ := T i hi (Or.inr ⟨(b, targets), by simp, hgi.symm⟩)
      obtain ⟨p, hp0⟩ := Option.isSome_iff_exists.mp (hptr i hi hci)
      have hp : cfg.temps.get (2 * posIn Γ b.var.id) = some p := by rw [hposi, hT0, hp0]
      have hroot : rootAt σ0 Γ b = rp p := by
        unfold rootAt; rw [hposi]; exact rootOf_nonext hext hp0
      have hrooti : rootOf σ0 Γ[i] i = rp p := rootOf_nonext hci hp0
      have H0 : HeapOK cfg.heap (acc ++ rp p ++ rootsT σ0 Γ rest') cfg.next := by
        have : rootsT σ0 Γ ((b, targets) :: rest') = rp p ++ rootsT σ0 Γ rest' := by
          simp [rootsT, hroot]
        rw [this, ← List.append_assoc] at H
        exact H
      have hrT : rootsT σ0 Γ ((b, targets) :: rest') = rp p ++ rootsT σ0 Γ rest' := by
        simp [rootsT, hroot]
      have X0 : X3R F Γ cfg (acc ++ rp p ++ rootsT σ0 Γ rest') hs ι κ st := by
        rw [hrT, ← List.append_assoc] at X; exact X
      have hlen0 : (acc ++ rp p ++ rootsT σ0 Γ rest').length ≤ 2 ^ 40 := by
        rw [hrT, ← List.append_assoc] at hlen; omega
      obtain ⟨k1, cfg1, hs1, hpc1, hout1, hnext1, hcc1, H1, ht1, hr1, stA, hsA, nA, hnA, hpcA, XA, hfrA, hmkA, hmA⟩ :=
        urc_step3M HF h8 hmon L hndL (P := P) (hooks := hooks) (types := types) targets.length cfg code1 c c1 h1
          hat1 p hp (by rw [hposi]; omega) acc (rootsT σ0 Γ rest') H0 (by rw [hposi]; exact hi)
          (by
            have e : Γ[posIn Γ b.var.id]'(by rw [hposi]; exact hi) = Γ[i] := by
              congr 1
            rw [e]; exact hci)
          X0 h1X (XAt.left hatX) hlen0 (by omega)
      subst hcc1
      have hS_tl : targetsOf pairs Γ[i] ≠ [] → 0 < targets.length := by
        intro h
        rw [hgi, ← htg] at h
        exact List.length_pos_iff.mpr h
      -- the invariants after this binding
      have J' : ∀ i' (hi' : i' < Γ.length), targetsOf pairs Γ[i'] ≠ [] → Γ[i'].chi ≠ .ext →
          (∃ e ∈ rest', e.1 = Γ[i']) ∨
            (∀ y ∈ rootOf σ0 Γ[i'] i', y ∈ acc ++ (List.replicate targets.length (rp p)).flatten) := by
        intro i' hi' hS hne
        rcases J i' hi' hS hne with ⟨e, he, hee⟩ | h
        · rcases List.mem_cons.mp he with rfl | he'
          · simp only at hee
            have hii : i' = i := getElem_inj_ids hΓ hi' hi (by rw [← hee, hgi])
            subst hii
            right
            intro y hy
            rw [hrooti] at hy
            exact List.mem_append.mpr (Or.inr (mem_replicate_flatten (hS_tl hS) hy))
          · exact Or.inl ⟨e, he', hee⟩
        · exact Or.inr (fun y hy => List.mem_append.mpr (Or.inl (h y hy)))
      have T' : ∀ i' (hi' : i' < Γ.length), (targetsOf pairs Γ[i'] ≠ [] ∨ ∃ e ∈ rest', e.1 = Γ[i']) →
          cfg1.temps.get (2 * i') = σ0.get (2 * i') ∧ cfg1.temps.get (2 * i' + 1) = σ0.get (2 * i' + 1) := by
        intro i' hi' h
        have hold' := T i' hi' (by
          rcases h with h | ⟨e, he, hee⟩
          · exact Or.inl h
          · exact Or.inr ⟨e, by simp [he], hee⟩)
        have hcond : 2 * i' ≠ 2 * posIn Γ b.var.id ∨ 0 < targets.length := by
          rw [hposi]
          by_cases hii : i' = i
          · subst hii
            rcases h with h | ⟨e, he, hee⟩
            · exact Or.inr (hS_tl h)
            · exact absurd (hee.trans hgi) (hother e he)
          · left; omega
        refine ⟨?_, ?_⟩
        · rw [ht1 _ (by omega) hcond]; exact hold'.1
        · rw [ht1 _ (by omega) (Or.inl (by omega))]; exact hold'.2
      have V' : ∀ i' (hi' : i' < Γ.length) (hi2 : i' < ρ.length), targetsOf pairs Γ[i'] ≠ [] →
          RepV P hooks types cfg1.heap ρ[i'] (if Γ[i'].chi == .ext then none else σ0.get (2 * i'))
            ((σ0.get (2 * i' + 1)).getD 0) := by
        intro i' hi' hi2 hS
        apply hr1 _ _ _ (Vv i' hi' hi2 hS)
        intro htl0 r hr hr0
        by_cases hce : (Γ[i'].chi == .ext) = true
        · simp [hce] at hr
        · simp only [hce, Bool.false_eq_true, if_false] at hr
          have hne : Γ[i'].chi ≠ .ext := fun e => hce ((Sim2.chi_beq_ext _).mpr e)
          have hroot' : rootOf σ0 Γ[i'] i' = [r.toNat] := by
            rw [rootOf_nonext hne hr]
            have : (r != 0) = true := by rw [bne_iff_ne]; exact hr0
            simp only [rp, this, if_true]
          rcases J i' hi' hS hne with ⟨e, he, hee⟩ | h
          · rcases List.mem_cons.mp he with rfl | he'
            · simp only at hee
              have hii : i' = i := getElem_inj_ids hΓ hi' hi (by rw [← hee, hgi])
              subst hii
              have := hS_tl hS
              omega
            · apply List.mem_append.mpr
              right
              unfold rootsT
              rw [List.mem_flatMap]
              refine ⟨e, he', ?_⟩
              unfold rootAt
              rw [hee, posIn_getElem hΓ hi', hroot']
              simp
          · exact List.mem_append.mpr (Or.inl (h _ (by rw [hroot']; simp)))
      have H1' : HeapOK cfg1.heap ((acc ++ (List.replicate targets.length (rp p)).flatten) ++
          rootsT σ0 Γ rest') cfg1.next := H1
      have hflen : ((List.replicate targets.length (rp p)).flatten).length ≤ targets.length := by
        have : ∀ k : Nat, ((List.replicate k (rp p)).flatten).length ≤ k := by
          intro k
          induction k with
          | zero => simp
          | succ k ih =>
            simp only [List.replicate_succ, List.flatten_cons, List.length_append]
            have : (rp p).length ≤ 1 := by unfold rp; split <;> simp
            omega
        exact this _
      obtain ⟨k2, cfg2, hs2, hpc2, hout2, hnext2, hcc2, H2, T2, V2, stB, hsB, nB, hnB, hpcB, XB, hfrB, hmkB, hmB⟩ :=
        run_cwc3M hΓ hcap hptr hpl rest' _ cfg1 code2 _ _ h2 (by rw [hpc1]; exact hat2) hent' hnd.2 H1' J' T' V'
          stA hsA _ code2X _ h2X (by rw [hpcA]; exact hatX.right) XA
          (by
            rw [hrT] at hlen
            simp only [List.length_append, List.length_cons] at hlen ⊢
            have h1 : rest'.length * pairs.length + pairs.length = (rest'.length + 1) * pairs.length := by
              rw [Nat.succ_mul]
            omega)
      have hfrAB : FrLe hs hsB 0 := by
        obtain ⟨l1, l2, l3, f1, I1⟩ := XA.href.conc
        have := Scc.Heap.Refine.FrLe.trans hfrA hfrB ⟨_, l1, l2, l3, f1, I1⟩
        simpa using this
      refine ⟨k1 + k2, cfg2, stepsTo_trans P _ _ _ _ _ hs1 hs2, ?_, by rw [hout2, hout1],
        by rw [hnext2, hnext1], hcc2, ?_, T2, V2, stB, hsB, nA + nB, stepN_trans mon px hnA hnB, ?_, ?_,
        hfrAB, hmkA.trans hmkB, MidS.trans hmA hnA hmB⟩
      · rw [hpc2, hpc1, instrCount_append]; omega
      · have : rootsDone σ0 Γ ((b, targets) :: rest') =
            (List.replicate targets.length (rp p)).flatten ++ rootsDone σ0 Γ rest' := by
          simp [rootsDone, hroot]
        rw [this, ← List.append_assoc]
        exact H2
      · rw [hpcB, hpcA, List.length_append]; omega
      · have : rootsDone σ0 Γ ((b, targets) :: rest') =
            (List.replicate targets.length (rp p)).flatten ++ rootsDone σ0 Γ rest' := by
          simp [rootsDone, hroot]
        rw [this, ← List.append_assoc]
        exact XB


end UrcM

section Subst3M

variable {F : Frame} (HF : FrameOK F) (h8 : F.c.heapBase % 8 = 0) {mon : MonCfg} (hmon : mon.mach = F.c)
  {px : X86.Prog} {cs : List Code} (L : Loaded px cs) (hndL : (labs cs).Nodup)

open Scc.Backend.Subst Scc.Backend.PM in
include HF h8 hmon L hndL in
/-- THREE-WAY SIMULATION OF `subst` (weakening, contraction and exchange of integer AND object
variables): the proof of Theorem A's `sim2_subst` with the machine carried along -/
theorem subst_x3M {P : Program} {hooks : Bool} {prog : AxCut.Prog} {Γ : Ctx} {ρ : List Value}
    {pairs : List (Binding × Ident)} {next : Stmt} {cfg : Config} {vs : List Value}
    (R : RelX P hooks prog ⟨Γ, ρ, .subst pairs next⟩ cfg)
    (hΓ : (Γ.map (·.var.id)).Nodup)
    (hnew : (pairs.map (·.1.var.id)).Nodup)
    (hold : ∀ p ∈ pairs, ∃ b ∈ Γ, b.var.id = p.2.id ∧ b.chi = p.1.chi)
    (hcap : 2 * pairs.length + 2 < Mock.T_TEMP)
    (hvs : Pos.step.build Γ ρ pairs = .ok vs)
    {hsX : HState} {ι : Nat → Nat} {κ : Nat → Nat → Word} {st : State} (X : X3 F Γ cfg hsX ι κ st)
    {kx kx' : Nat} {items : List Code}
    (hrunX : (codeStatementR x86Backend hooks natRen prog.types (.subst pairs next) Γ).run kx = .ok (items, kx'))
    (hatX : XAt cs st.pc items)
    (hpl : pairs.length < 2 ^ 31) (hcapX : 2 * pairs.length ≤ 266) :
    ∃ k cfg' st' hs' n, stepsTo P k cfg cfg' ∧ stepN mon px n st = .inl st' ∧ FrLe hsX hs' 0 ∧
      cfg'.out = cfg.out ∧ cfg'.next = cfg.next ∧
      RelX P hooks prog ⟨pairs.map (·.1), vs, next⟩ cfg' ∧
      X3 F (pairs.map (·.1)) cfg' hs' ι κ st' ∧
      ∃ k1 k1' items', (codeStatementR x86Backend hooks natRen prog.types next (pairs.map (·.1))).run k1 =
          .ok (items', k1') ∧ XAt cs st'.pc items' ∧ SubstProv F Γ ρ pairs vs cfg cfg' st st' ∧
        Mid mon px cs n st := by
  obtain ⟨c, c', ops, hrun, hat⟩ := R.code
  simp only [codeStatementR, run_bind_ok, run_pure_ok] at hrun hrunX
  obtain ⟨c1, k1, h1, c2, k2, h2, c3, k3, h3, rfl, rfl⟩ := hrun
  obtain ⟨c1X, k1X, h1X, c2X, k2X, h2X, c3X, k3X, h3X, rfl, rfl⟩ := hrunX
  -- the x86 layout: comments, weakening/contraction, moves, the next statement
  generalize hc0 : hookCode x86Backend hooks Γ ++ [x86Backend.comment (substComment pairs)] = c0X at hatX
  have hc0c : ∀ y ∈ c0X, ∃ m', y = Code.COMMENT m' := by rw [← hc0]; exact hook_comments hooks Γ _
  have hatA : XAt cs st.pc (c0X ++ (c1X ++ (c2X ++ c3X))) := by simpa [List.append_assoc] using hatX
  obtain ⟨kc0, hkc0⟩ := x_steps_straight mon L hatA.left
    (execStraight_comments mon.mach px.labelAddr c0X st hc0c)
  have Xa : X3 F Γ cfg hsX ι κ (setPS st (st.pc + c0X.length) kc0) := X3R.setPS X _ _
  have hatB : XAt cs (setPS st (st.pc + c0X.length) kc0).pc (c1X ++ (c2X ++ c3X)) := hatA.right
  have hmkS0 : ∀ t, tempVal F.sp (setPS st (st.pc + c0X.length) kc0) (posTemp t) = tempVal F.sp st (posTemp t) :=
    fun t => by rw [tempVal_setPS]
  generalize setPS st (st.pc + c0X.length) kc0 = sta at hkc0 Xa hatB hmkS0
  have hcapΓ := R.cap
  have hlenρ := R.len
  simp only at hcapΓ hlenρ
  -- code layout
  simp only [mockSym_comment, List.append_assoc, CodeAt_hook] at hat
  simp only [List.cons_append, List.nil_append, CodeAt] at hat
  rw [CodeAt_append] at hat
  obtain ⟨hat1, hat23⟩ := hat
  rw [CodeAt_append] at hat23
  obtain ⟨hat2, hat3⟩ := hat23
  -- the transposed map
  have hperm := transpose_perm pairs Γ hΓ
  have hent : ∀ e ∈ transpose pairs Γ, e.1 ∈ Γ ∧ e.2 = targetsOf pairs e.1 := by
    intro e he
    obtain ⟨b, hb, rfl⟩ := (transpose_spec pairs Γ hΓ e).mp he
    exact ⟨hb, rfl⟩
  have hndtm : ((transpose pairs Γ).map (·.1.var.id)).Nodup := by
    have := (hperm.map (·.1.var.id))
    rw [this.nodup_iff, List.map_map]
    exact hΓ
  have hmemtm : ∀ i (hi : i < Γ.length), ∃ e ∈ transpose pairs Γ, e.1 = Γ[i] := by
    intro i hi
    exact ⟨(Γ[i], targetsOf pairs Γ[i]),
      (transpose_spec pairs Γ hΓ _).mpr ⟨Γ[i], List.getElem_mem hi, rfl⟩, rfl⟩
  have hptr : ∀ i (hi : i < Γ.length), Γ[i].chi ≠ .ext → (cfg.temps.get (2 * i)).isSome := by
    intro i hi hc
    exact (R.vals i hi (by rw [hlenρ]; exact hi)).2.2.2 ((Sim2.chi_bne_ext _).mpr hc)
  -- 1: erase / share
  have hlenTm : (transpose pairs Γ).length = Γ.length := by
    have := hperm.length_eq
    simpa using this
  have hrT_len : (rootsT cfg.temps Γ (transpose pairs Γ)).length ≤ (transpose pairs Γ).length := by
    unfold rootsT
    generalize transpose pairs Γ = tm
    induction tm with
    | nil => simp
    | cons e tm ih =>
      simp only [List.flatMap_cons, List.length_append, List.length_cons]
      have : (rootAt cfg.temps Γ e.1).length ≤ 1 := rootOf_length_le _ _ _
      omega
  obtain ⟨ka, cfg1, hs1, hpc1, hout1, hnext1, _, H1, T1, V1, st1, hsA, nA, hnA, hpcA, X1, hfrC, hmkC, hmA⟩ :=
    run_cwc3M HF h8 hmon L hndL (P := P) (hooks := hooks) (types := prog.types) (ρ := ρ) (pairs := pairs)
      (σ0 := cfg.temps) hΓ hcapΓ hptr hpl (ι := ι) (transpose pairs Γ) [] cfg c1 _ _ h1 hat1 hent hndtm
      (by
        apply heapOK_count_congr R.heap
        intro x
        simp only [List.nil_append]
        exact roots_count_transpose cfg.temps Γ pairs hΓ x)
      (fun i hi _ _ => Or.inl (hmemtm i hi))
      (fun i hi _ => ⟨rfl, rfl⟩)
      (fun i hi hi2 _ => (R.vals i hi hi2).1)
      sta hsX _ c1X _ h1X hatB.left
      (Xa.roots_congr (fun x => by
        simp only [List.nil_append]
        exact roots_count_transpose cfg.temps Γ pairs hΓ x))
      (by
        simp only [List.nil_append]
        have h1' := Xa.cap
        have : (transpose pairs Γ).length * pairs.length ≤ 133 * 2 ^ 31 := by
          rw [hlenTm]
          exact Nat.mul_le_mul (by omega) (by omega)
        omega)
  -- 2: the moves
  unfold codeExchange connections at h2
  simp only [run_bind_ok] at h2
  obtain ⟨conns, k4, h4, h5⟩ := h2
  obtain ⟨rfl, _, _⟩ := connections_go_spec Γ (pairs.map (·.1)) _ _ _ _ _ h4
  have W := conns_wf2 Γ pairs hΓ hnew hold
  obtain ⟨aops, haops, hsem⟩ := PMoves.parallelMovesFuel_correct (V := Option Word)
    (insertAll ((transpose pairs Γ).flatMap (entriesOf Γ (pairs.map (·.1)))) []) W.keys W.targets
    W.functional (fun _ => false)
    (PMoves.fuelFor (insertAll ((transpose pairs Γ).flatMap (entriesOf Γ (pairs.map (·.1)))) []))
    (by unfold PMoves.fuelFor; omega)
  have hmine := parallelMoves_eq _ aops haops
  rw [hmine] at h5
  simp only [run_pure_ok] at h5
  obtain ⟨rfl, rfl⟩ := h5
  have hne : ∀ x ∈ codeTemps (aops.map aopToMock), x ≠ Mock.T_TEMP := by
    intro x hx
    rcases W.range x (parallelMoves_temps _ _ hmine x hx) with h | h <;> omega
  obtain ⟨cfg2, hs2, hpc2, hheap2, hnext2, hout2, hag, _⟩ :=
    run_moves P aops cfg1 (fun t => cfg1.temps.get t) cfg1.scratch (by rw [hpc1]; exact hat2) hne
      (fun _ _ => rfl) rfl
  -- the moves on the machine: through a shadow configuration that holds the machine's words
  have hatC : XAt cs st1.pc (c2X ++ c3X) := by rw [hpcA]; exact hatB.right
  obtain ⟨opsS, hopsS, SS⟩ := mseg_codeExchange (transpose pairs Γ) Γ (pairs.map (·.1)) h2X
  have hopsE : opsS = aops.map aopToMock := by
    unfold codeExchange connections at hopsS
    simp only [run_bind_ok] at hopsS
    obtain ⟨connsS, k4S, h4S, h5S⟩ := hopsS
    obtain ⟨rfl, _, _⟩ := connections_go_spec Γ (pairs.map (·.1)) _ _ _ _ _ h4S
    rw [hmine] at h5S
    simp only [run_pure_ok] at h5S
    exact h5S.1.symm
  subst hopsE
  have hRS : MRel F .normal st1 { cfg1 with temps := shadowTemps F.sp st1, scratch := none } st1 :=
    ⟨X1.bnd, (fun t v ht hg => by rw [get_shadowTemps, if_pos (show t < 267 from ht)] at hg; exact hg),
     (fun b hb => by cases hb), MKeep.refl F st1⟩
  obtain ⟨cfgS2, st2, nB, hsS, hnB, hpcB, RS2, _, hmB⟩ :=
    mseg_followM HF hmon L (P := P) SS { cfg1 with temps := shadowTemps F.sp st1, scratch := none } st1
      (by rw [hpc1]; exact hat2) hatC.left hRS (noCtx_codeExchange h2X)
  obtain ⟨cfgS2', hsS', _, _, _, _, hagS, _⟩ :=
    run_moves P aops { cfg1 with temps := shadowTemps F.sp st1, scratch := none }
      (fun t => (shadowTemps F.sp st1).get t) none (by rw [hpc1]; exact hat2) hne (fun _ _ => rfl) rfl
  have hdet : cfgS2' = cfgS2 := stepsTo_det P _ _ _ _ hsS' hsS
  subst hdet
  have hsemS := (hsem (fun t => (shadowTemps F.sp st1).get t) none).1
  -- a target of an edge holds, on the machine, what the source held before the moves
  have hedge : ∀ s t, PMoves.Edge
      (insertAll ((transpose pairs Γ).flatMap (entriesOf Γ (pairs.map (·.1)))) []) s t → t < 267 → s < 267 →
      ∀ v, tempVal F.sp st1 (posTemp s) = some v → tempVal F.sp st2 (posTemp t) = some v := by
    intro s t he ht hs' v hv
    apply RS2.temps t v ht
    rw [hagS t (by unfold Mock.T_TEMP; omega), hsemS _ _ he, get_shadowTemps, if_pos hs']
    exact hv
  have hsem' := (hsem (fun t => cfg1.temps.get t) cfg1.scratch).1
  obtain ⟨hlen, hbuild⟩ := build_spec Γ ρ pairs vs hvs
  -- the source of a new position
  have hsrc : ∀ j (hj : j < pairs.length) (hv : j < vs.length),
      ∃ i, ∃ hi : i < Γ.length, posIn Γ pairs[j].2.id = i ∧ ρ[i]? = some vs[j] ∧
        targetsOf pairs Γ[i] ≠ [] ∧ Γ[i].chi = pairs[j].1.chi := by
    intro j hj hv
    obtain ⟨i, hpos, hval⟩ := hbuild j hj hv
    have hi := posOf_lt hpos
    obtain ⟨_, hid⟩ := posOf_getElem hpos
    refine ⟨i, hi, posIn_eq hpos, hval, ?_, ?_⟩
    · intro hnil
      have : pairs[j].1.var.id ∈ targetsOf pairs Γ[i] :=
        mem_targetsOf.mpr ⟨pairs[j], List.getElem_mem hj, hid, rfl⟩
      rw [hnil] at this
      cases this
    · obtain ⟨b, hb, hbid, hbchi⟩ := hold pairs[j] (List.getElem_mem hj)
      obtain ⟨i', hi', hgi', hposi'⟩ := posIn_of_mem hΓ hb
      have : i' = i := by rw [← hposi', hbid]; exact posIn_eq hpos
      subst this
      rw [hgi']; exact hbchi
  have hget1 : ∀ j (hj : j < pairs.length) (hv : j < vs.length) (i : Nat) (hi : i < Γ.length),
      posIn Γ pairs[j].2.id = i → targetsOf pairs Γ[i] ≠ [] →
      cfg2.temps.get (2 * j + 1) = cfg.temps.get (2 * i + 1) := by
    intro j hj hv i hi hpi hS
    rw [hag _ (by omega)]
    have := hsem' _ _ (W.edgeSnd j hj)
    rw [hpi] at this
    rw [this]
    exact (T1 i hi hS).2
  have hget0 : ∀ j (hj : j < pairs.length) (i : Nat) (hi : i < Γ.length),
      posIn Γ pairs[j].2.id = i → targetsOf pairs Γ[i] ≠ [] → pairs[j].1.chi ≠ .ext →
      cfg2.temps.get (2 * j) = cfg.temps.get (2 * i) := by
    intro j hj i hi hpi hS hne'
    rw [hag _ (by omega)]
    have := hsem' _ _ (W.edgeFst j hj hne')
    rw [hpi] at this
    rw [this]
    exact (T1 i hi hS).1
  have hRelX : RelX P hooks prog ⟨pairs.map (·.1), vs, next⟩ cfg2 := by
    exact {
      len := by simp [hlen]
      cap := by simpa using hcap
      vals := by
        intro j h1' h2'
        have hj : j < pairs.length := by simpa using h1'
        obtain ⟨i, hi, hpi, hval, hS, hchi⟩ := hsrc j hj h2'
        have hi2 : i < ρ.length := by rw [hlenρ]; exact hi
        have hv : vs[j] = ρ[i] := by
          rw [List.getElem?_eq_getElem hi2] at hval
          exact (Option.some.inj hval).symm
        obtain ⟨_, hsome, hkind, hptr'⟩ := R.vals i hi hi2
        have hrep := V1 i hi hi2 hS
        have hcj : ((List.map (fun p : Binding × Ident => p.1) pairs)[j]'h1').chi = Γ[i].chi := by
          simp [hchi]
        rw [hcj, hget1 j hj h2' i hi hpi hS, hv, hheap2]
        refine ⟨?_, hsome, hkind, ?_⟩
        · by_cases hce : (Γ[i].chi == .ext) = true
          · simpa [hce] using hrep
          · have hne' : pairs[j].1.chi ≠ .ext := by
              rw [← hchi]; exact fun e => hce ((Sim2.chi_beq_ext _).mpr e)
            simp only [hce, Bool.false_eq_true, if_false] at hrep ⊢
            rw [hget0 j hj i hi hpi hS hne']
            exact hrep
        · intro hc
          have hne' : pairs[j].1.chi ≠ .ext := by
            rw [← hchi]; exact (Sim2.chi_bne_ext _).mp hc
          rw [hget0 j hj i hi hpi hS hne']
          exact hptr' hc
      heap := by
        rw [hheap2, hnext2]
        apply heapOK_count_congr H1
        intro x
        simp only [List.nil_append]
        apply roots_new_count cfg.temps cfg2.temps Γ pairs hΓ hold
        intro j hj hne'
        obtain ⟨b, hb, hbid, hbchi⟩ := hold pairs[j] (List.getElem_mem hj)
        obtain ⟨i, hi, hgi, hposi⟩ := posIn_of_mem hΓ hb
        have hpi : posIn Γ pairs[j].2.id = i := by rw [← hbid]; exact hposi
        have hS : targetsOf pairs Γ[i] ≠ [] := by
          intro hnil
          have : pairs[j].1.var.id ∈ targetsOf pairs Γ[i] :=
            mem_targetsOf.mpr ⟨pairs[j], List.getElem_mem hj, by rw [hgi]; exact hbid, rfl⟩
          rw [hnil] at this
          cases this
        rw [hpi]
        exact hget0 j hj i hi hpi hS hne'
      code := ⟨_, _, c3, h3, by rw [hpc2, hpc1]; simpa [Nat.add_assoc] using hat3⟩ }
  have hpairs_lt : ∀ j, j < pairs.length → 2 * j + 1 < 267 := fun j hj => by omega
  have hmid : Mid mon px cs _ st := Mid.transS (mid_comments mon L hatA.left hc0c (by
      rw [← hc0]; exact noCtx_tail_hook hooks Γ (by
        unfold substComment; simp only [String.append_assoc]
        exact not_isCtx_lit_head _ _ (c := 's') (by decide) (by decide)))) hkc0 (MidS.trans hmA hnA hmB)
  refine ⟨ka + instrCount (aops.map aopToMock), cfg2, _, hsA, _, stepsTo_trans P _ _ _ _ _ hs1 hs2,
    stepN_trans mon px hkc0 (stepN_trans mon px hnA hnB), hfrC, by rw [hout2, hout1], by rw [hnext2, hnext1],
    hRelX, ?_, _, _, c3X, h3X, by rw [hpcB]; exact hatC.right, ?_, hmid⟩
  rotate_left
  · -- where the new positions come from
    intro j hj
    have hv : j < vs.length := by rw [hlen]; exact hj
    obtain ⟨i, hi, hpi, hval, hS, hchi⟩ := hsrc j hj hv
    have hi2 : i < ρ.length := by rw [hlenρ]; exact hi
    refine ⟨i, hi, by rw [hval, List.getElem?_eq_getElem hv], hchi, hget1 j hj hv i hi hpi hS,
      fun hne => hget0 j hj i hi hpi hS hne, ?_⟩
    obtain ⟨_, hsome, _, _⟩ := R.vals i hi hi2
    obtain ⟨a, ha⟩ := Option.isSome_iff_exists.mp hsome
    have h1' := X1.words i hi a (by rw [(T1 i hi hS).2]; exact ha)
    have hcapΓ' := X1.cap
    have h2' := hedge (2 * i + 1) (2 * j + 1) (by
      have := W.edgeSnd j hj
      rw [hpi] at this
      exact this) (by omega) (by omega) _ h1'
    rw [h2', ← h1', hmkC _ (by omega), hmkS0]
  -- the relation for the new context
  have hlenP : (pairs.map (·.1)).length = pairs.length := by simp
  refine ⟨RS2.bnd, by rw [hlenP]; exact hcapX, ?_, ?_, ?_, ?_, ?_, ?_⟩
  · intro j hj a ha
    rw [hlenP] at hj
    have hv : j < vs.length := by rw [hlen]; exact hj
    obtain ⟨i, hi, hpi, hval, hS, hchi⟩ := hsrc j hj hv
    rw [hget1 j hj hv i hi hpi hS] at ha
    have hcj : ((List.map (fun p : Binding × Ident => p.1) pairs)[j]'(by rw [hlenP]; exact hj)).chi = Γ[i].chi := by
      simp [hchi]
    rw [hcj]
    have h1' := X1.words i hi a (by rw [(T1 i hi hS).2]; exact ha)
    have hcapΓ' := X1.cap
    have h2' := hedge (2 * i + 1) (2 * j + 1) (by
      have := W.edgeSnd j hj
      rw [hpi] at this
      exact this) (by omega) (by omega) _ h1'
    refine words_of h2' (fun hc => ?_)
    cases hcc : Γ[i].chi with
    | cns => exact absurd hcc hc
    | prd => rfl
    | ext => rfl
  · intro j hj hc r hr
    rw [hlenP] at hj
    have hv : j < vs.length := by rw [hlen]; exact hj
    obtain ⟨i, hi, hpi, hval, hS, hchi⟩ := hsrc j hj hv
    have hcj : ((List.map (fun p : Binding × Ident => p.1) pairs)[j]'(by rw [hlenP]; exact hj)).chi = Γ[i].chi := by
      simp [hchi]
    rw [hcj] at hc
    have hne' : pairs[j].1.chi ≠ .ext := by rw [← hchi]; exact hc
    rw [hget0 j hj i hi hpi hS hne'] at hr
    have h1' := X1.ptrs i hi hc r (by rw [(T1 i hi hS).1]; exact hr)
    have hcapΓ' := X1.cap
    refine hedge _ _ ?_ (by omega) (by omega) _ h1'
    have := W.edgeFst j hj hne'
    rw [hpi] at this
    exact this
  · rw [RS2.keep.out, X1.out, hout2]
  · intro m hm
    rw [RS2.keep.frame m hm]; exact X1.frame m hm
  · exact ⟨X1.hrel.base, X1.hrel.limit, fun a => by rw [RS2.keep.heapMem]; exact X1.hrel.mem a,
      by
        obtain ⟨w, hw, e⟩ := X1.hrel.heap
        exact ⟨w, by unfold regIs at hw ⊢; rw [RS2.keep.heap]; exact hw, e⟩,
      by
        obtain ⟨w, hw, e⟩ := X1.hrel.free
        exact ⟨w, by unfold regIs at hw ⊢; rw [RS2.keep.free]; exact hw, e⟩⟩
  · rw [hheap2, hnext2]
    refine Scc.X86.Ref.K.HRef.roots_congr X1.href (fun x => ?_)
    simp only [List.nil_append]
    apply roots_new_count cfg.temps cfg2.temps Γ pairs hΓ hold
    intro j hj hne'
    obtain ⟨b, hb, hbid, hbchi⟩ := hold pairs[j] (List.getElem_mem hj)
    obtain ⟨i, hi, hgi, hposi⟩ := posIn_of_mem hΓ hb
    have hpi : posIn Γ pairs[j].2.id = i := by rw [← hbid]; exact hposi
    have hS : targetsOf pairs Γ[i] ≠ [] := by
      intro hnil
      have : pairs[j].1.var.id ∈ targetsOf pairs Γ[i] :=
        mem_targetsOf.mpr ⟨pairs[j], List.getElem_mem hj, by rw [hgi]; exact hbid, rfl⟩
      rw [hnil] at this
      cases this
    rw [hpi]
    exact hget0 j hj i hi hpi hS hne'


end Subst3M

end Scc.X86.Ref.K
