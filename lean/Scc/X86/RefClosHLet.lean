/-
  Scc.X86.RefClosHLet — THREE-WAY SIMULATION of `let` (allocation of an object) on x86-64:
  positional machine ⟷ abstract backend machine ⟷ x86-64 machine.  The left half is Theorem A's `sim2_let`
  (Scc/Backend/ProofsHeap2.lean); the right half runs the emitted `Memory::store` (`store_x3`,
  RefHeapStore.lean) and the tag load on the machine and re-establishes `X3`.
  NOTE (fork): this file is the closure-aware version of Scc/X86/RefHeapLet.lean (same proofs, the
  three-way relation additionally carries the per-instance code-pointer map `κ`), in the namespace
  `Scc.X86.Ref.K`.  The original file is kept unchanged because Scc/X86/Conc*.lean (C09/C10/C13 on concrete
  runs) is built on its definitions.
-/
import Scc.X86.RefClosHStore
import Scc.X86.RefHeapBridge
import Scc.X86.RefParam

set_option linter.unusedVariables false
set_option linter.unusedSimpArgs false

namespace Scc.X86.Ref.K

open Scc.AxCut Scc.AxCut.Pos Scc.Backend Scc.Backend.Abs Scc.Backend.Sim Scc.Backend.Sim2 Scc.X86
open Scc.Heap (HState InvS InvW)
open Scc.Heap.Refine (HRef imgW fieldImg kindB FrLe Room)

/-! ## `store` of no field: the null pointer -/

theorem storeObj_nil (hs : HState) : Scc.Heap.storeObj hs [] = .ok (hs, 0) := by
  unfold Scc.Heap.storeObj
  rw [Scc.Heap.storeFields]
  simp

theorem store_x3_empty {F : Frame} (H : FrameOK F) (h8 : F.c.heapBase % 8 = 0) {la : String → Option Nat}
    {Γ : Ctx} {cfg cfg1 : Config} {hs : HState} {ι : Nat → Nat} {κ : Nat → Nat → Word} {st : State}
    (X : X3 F Γ cfg hs ι κ st)
    (hlow : ∀ t, t < 2 * Γ.length → cfg1.temps.get t = cfg.temps.get t)
    (hheap : cfg1.heap = cfg.heap) (hnx : cfg1.next = cfg.next) (hout : cfg1.out = cfg.out) (kk : Nat) :
    ∃ code kk', (store [] Γ).run kk = .ok (code, kk') ∧ kk ≤ kk' ∧ LabsIn code kk kk' ∧
      ∃ st', execFwd F.c la code st = .ok (st', .next) ∧ st'.pc = st.pc ∧
        X3R F Γ cfg1 (roots Γ cfg.temps) hs ι κ st' ∧
        tempVal F.sp st' (posTemp (2 * Γ.length)) = some 0 ∧
        (∀ t, t < 2 * Γ.length → tempVal F.sp st' (posTemp t) = tempVal F.sp st (posTemp t)) := by
  obtain ⟨code, kk', hrun, hle, hlabs, st', hx, B', HR', ⟨w, hw, ew⟩, FT⟩ :=
    store_contract (la := la) h8 X.bnd X.hrel (toStore := []) (rem := Γ) (fs := [])
      (by have := X.cap; simp; omega) trivial (storeObj_nil hs) kk
  have hkeep : ∀ t, t < 2 * Γ.length → tempVal F.sp st' (posTemp t) = tempVal F.sp st (posTemp t) := by
    intro t ht
    apply FT.temps _ (tempOK_posTemp (by have := X.cap; omega)).opnd
    intro hc
    rcases hc with e | e | e | ⟨j, _, e⟩
    · exact posTemp_ne_low t (by decide) e
    · exact posTemp_ne_low t (by decide) e
    · exact posTemp_ne_low t (by decide) e
    · have := posTemp_inj.1 e; omega
  have hw0 : w = 0 := by
    apply BitVec.eq_of_toNat_eq; rw [ew]; rfl
  refine ⟨code, kk', hrun, hle, hlabs, st', hx, FT.pc, ?_, by rw [hw, hw0], hkeep⟩
  refine ⟨B', X.cap, ?_, ?_, by rw [FT.out, hout]; exact X.out, ?_, HR', ?_⟩
  · intro i hi a ha
    rw [hlow _ (by omega)] at ha
    rw [hkeep _ (by omega)]
    exact X.words i hi a ha
  · intro i hi hc r hr
    rw [hlow _ (by omega)] at hr
    rw [hkeep _ (by omega)]
    exact X.ptrs i hi hc r hr
  · intro m hm
    rw [← X.frame m hm]
    apply FT.outside
    intro q _ e
    have := H.slot_lt q
    omega
  · rw [hheap, hnx]
    exact X.href

/-! ## a new position that receives its word part -/

/-- the word part of a NEW last position is written (its pointer part, if it has one, is in place) -/
theorem X3R.snoc {F : Frame} (H : FrameOK F) {Γ0 : Ctx} {b : Binding} {cfg1 cfg2 : Config} {rs : List Nat}
    {hs : HState} {ι : Nat → Nat} {κ : Nat → Nat → Word} {st1 st2 : State}
    (X : X3R F Γ0 cfg1 rs hs ι κ st1) (hcap : 2 * Γ0.length + 1 < 267)
    (B2 : Boundary F.c st2 F.sp)
    (P : Preserved F.sp st1 st2 (some (posTemp (2 * Γ0.length + 1))))
    {a w : Word} (hv : tempVal F.sp st2 (posTemp (2 * Γ0.length + 1)) = some w)
    (hw : b.chi ≠ .cns → w = trW b.chi a)
    (htemps : cfg2.temps = (clobberTemp cfg1.temps).set (2 * Γ0.length + 1) a)
    (hheap : cfg2.heap = cfg1.heap) (hnext : cfg2.next = cfg1.next) (hout : cfg2.out = cfg1.out)
    (hptr : b.chi ≠ .ext → ∀ r, cfg1.temps.get (2 * Γ0.length) = some r →
      tempVal F.sp st1 (posTemp (2 * Γ0.length)) = some (imgWord ι r)) :
    X3R F (Γ0 ++ [b]) cfg2 rs hs ι κ st2 := by
  have hok := tempOK_posTemp hcap
  have hlt : ∀ q, some (posTemp (2 * Γ0.length + 1)) = some (Temporary.spill q) → q < 256 := by
    intro q e; injection e with e; rw [e] at hok; exact hok.2
  have hkeep : ∀ t, t < 267 → t ≠ 2 * Γ0.length + 1 →
      tempVal F.sp st2 (posTemp t) = tempVal F.sp st1 (posTemp t) := by
    intro t ht hne
    have hok' := tempOK_posTemp ht
    exact P.temp hok'.opnd hok'.ne_temp (fun e => hne (posTemp_inj.1 (Option.some.inj e))) hlt
  have hget : ∀ t, t ≠ 2 * Γ0.length + 1 → t < 267 → cfg2.temps.get t = cfg1.temps.get t := by
    intro t hne ht
    rw [htemps, get_set_other _ _ hne, get_clobberTemp _ (by unfold Mock.T_TEMP; omega)]
  refine ⟨B2, by simp; omega, ?_, ?_, by rw [P.same.out, hout]; exact X.out, ?_, ?_, ?_⟩
  · intro i hi a' ha'
    simp only [List.length_append, List.length_cons, List.length_nil] at hi
    by_cases hin : i < Γ0.length
    · rw [hget _ (by omega) (by omega)] at ha'
      rw [hkeep _ (by omega) (by omega), List.getElem_append_left hin]
      exact X.words i hin a' ha'
    · have hie : i = Γ0.length := by omega
      subst hie
      rw [htemps, get_set_same] at ha'
      injection ha' with ha'
      subst ha'
      have hg : (Γ0 ++ [b])[Γ0.length] = b := by simp
      rw [hg]
      exact words_of hv hw
  · intro i hi hc r hr
    simp only [List.length_append, List.length_cons, List.length_nil] at hi
    by_cases hin : i < Γ0.length
    · rw [hget _ (by omega) (by omega)] at hr
      rw [hkeep _ (by omega) (by omega)]
      rw [List.getElem_append_left hin] at hc
      exact X.ptrs i hin hc r hr
    · have hie : i = Γ0.length := by omega
      subst hie
      have hc' : b.chi ≠ .ext := by simpa using hc
      rw [hget _ (by omega) (by omega)] at hr
      rw [hkeep _ (by omega) (by omega)]
      exact hptr hc' r hr
  · intro m hm
    rw [P.frame H m hm]
    exact X.frame m hm
  · exact heapRel_preserved X.hrel P
      (fun e => posTemp_ne_low _ (r := HEAP) (by decide) (Option.some.inj e))
      (fun e => posTemp_ne_low _ (r := FREE) (by decide) (Option.some.inj e))
  · rw [hheap, hnext]
    exact X.href


/-! ## `let` -/

theorem hook_comments (hooks : Bool) (Γ : Ctx) (m : String) :
    ∀ y ∈ hookCode x86Backend hooks Γ ++ [x86Backend.comment m], ∃ m', y = Code.COMMENT m' := by
  intro y hy
  unfold hookCode at hy
  cases hooks <;> simp at hy
  · exact ⟨_, hy⟩
  · rcases hy with rfl | rfl <;> exact ⟨_, rfl⟩

theorem trW_prd_tag (pos : Nat) :
    BitVec.ofInt 64 (jumpLength pos) = trW .prd (BitVec.ofInt 64 (pos : Int)) := by
  show BitVec.ofInt 64 ((5 : Int) * (pos : Int)) = BitVec.ofInt 64 pos * 5#64
  rw [BitVec.ofInt_mul, BitVec.mul_comm]
  rfl

/-- what `let` / `create` do to the positions and the heap (for the closure invariant, RefClos*.lean): the
first `N` positions are untouched; the remaining ones are stored into a new object (none: no object) -/
structure LetProv (F : Frame) (Γ : Ctx) (N : Nat) (cfg cfg' : Config) (κ κ' : Nat → Nat → Word)
    (st st' : State) : Prop where
  keep : KeepPos F N cfg cfg' st st'
  obj : ∃ fields, readFields cfg.temps (Mock.kindsOf (Γ.drop N)) N = some fields ∧
    ((Γ.drop N = [] ∧ cfg'.heap = cfg.heap ∧ κ' = κ ∧ cfg'.temps.get (2 * N) = some 0) ∨
     (Γ.drop N ≠ [] ∧ cfg'.heap = (cfg.next, ⟨0, fields⟩) :: cfg.heap ∧ κ' = storeK F st κ cfg.next N ∧
      cfg'.temps.get (2 * N) = some (BitVec.ofNat 64 cfg.next)))

section Let3

variable {F : Frame} (H : FrameOK F) (h8 : F.c.heapBase % 8 = 0) {mon : MonCfg} (hmon : mon.mach = F.c)
  {px : X86.Prog} {cs : List Code} (L : Loaded px cs) (hnd : (labs cs).Nodup)

include H h8 hmon L hnd in
/-- THREE-WAY SIMULATION OF `let` -/
theorem let_x3 {P : Program} {hooks : Bool} {prog : AxCut.Prog} {Γ : Ctx} {ρ : List Value} {x : Ident}
    {ty : Ty} {tag : Ident} {args : Ctx} {next : Stmt} {fv : FV} {cfg : Config} {pos : Nat}
    (R : RelX P hooks prog ⟨Γ, ρ, .letS x ty tag args next fv⟩ cfg)
    (hk : args.length ≤ Γ.length)
    (hfresh : ∀ b ∈ Γ.take (Γ.length - args.length), b.var.id ≠ x.id)
    (hpos : Pos.tagPosition prog.types ty tag = .ok pos)
    (hcap : 2 * (Γ.length - args.length + 1) + 2 < Mock.T_TEMP)
    (hnext : cfg.next < 2 ^ 64)
    {hs : HState} {ι : Nat → Nat} {κ : Nat → Nat → Word} {st : State} (X : X3 F Γ cfg hs ι κ st)
    {k k' : Nat} {items : List Code}
    (hrun : (codeStatementR x86Backend hooks natRen prog.types (.letS x ty tag args next fv) Γ).run k =
      .ok (items, k'))
    (hat : XAt cs st.pc items)
    (hroom : Room hs (64 * args.length + 64))
    (hfit : fitsI64 (jumpLength pos) = true) :
    ∃ cfg' st' hs' ι' κ' n, stepsTo P 2 cfg cfg' ∧ stepN mon px n st = .inl st' ∧ FrLe hs hs' (64 * args.length) ∧
      cfg'.out = cfg.out ∧ cfg'.next ≤ cfg.next + 1 ∧
      RelX P hooks prog ⟨Γ.take (Γ.length - args.length) ++ [⟨x, .prd, ty⟩],
        ρ.take (Γ.length - args.length) ++ [.obj pos (ρ.drop (Γ.length - args.length))], next⟩ cfg' ∧
      X3 F (Γ.take (Γ.length - args.length) ++ [⟨x, .prd, ty⟩]) cfg' hs' ι' κ' st' ∧
      ∃ k1 k1' items', (codeStatementR x86Backend hooks natRen prog.types next
          (Γ.take (Γ.length - args.length) ++ [⟨x, .prd, ty⟩])).run k1 = .ok (items', k1') ∧
        XAt cs st'.pc items' ∧ LetProv F Γ (Γ.length - args.length) cfg cfg' κ κ' st st' := by
  obtain ⟨cfg', hst, hout', hnx', R'⟩ := sim2_let R hk hfresh hpos hcap hnext
  -- the mock code at the program counter (as in `sim2_let`)
  obtain ⟨c, c', ops, hrunM, hatM⟩ := R.code
  obtain ⟨d, hd, hxp⟩ := tagPosition_ok hpos
  simp only [codeStatementR, run_bind_ok, run_pure_ok, lookupTypeDeclM_run_ok, xtorPositionM_run_ok,
    splitOffLast_run_ok, mockSym_store, mockSym_variableTemporary, vt_run_ok] at hrunM
  obtain ⟨decl, k1, ⟨hd', rfl⟩, pos', k2, ⟨hx', rfl⟩, sp, k3, ⟨_, rfl, rfl⟩, c1, k4, ⟨rfl, rfl⟩, t, k5,
    ⟨p, hp, rfl, rfl⟩, c3, k6, h3, rfl, rfl⟩ := hrunM
  rw [hd] at hd'; cases hd'
  rw [hxp] at hx'; cases hx'
  have hn : (Γ.take (Γ.length - args.length)).length = Γ.length - args.length := by simp
  have hp' : p = Γ.length - args.length := by
    rw [ctxPosition_eq_posOf] at hp
    have := posOf_append_fresh (Γ.take (Γ.length - args.length)) ⟨x, .prd, ty⟩ hfresh
    simp only at hp
    rw [this, hn] at hp
    exact (Option.some.inj hp).symm
  subst hp'
  simp only [mockSym_comment, mockSym_loadImmediate, mockSym_jumpLength, List.append_assoc,
    CodeAt_hook] at hatM
  simp only [List.cons_append, List.nil_append, CodeAt, TempNum.toNat] at hatM
  obtain ⟨hstore, hli, hat3⟩ := hatM
  rw [hn] at hstore
  -- the x86 code at the program counter
  simp only [codeStatementR, run_bind_ok, run_pure_ok, lookupTypeDeclM_run_ok, xtorPositionM_run_ok,
    splitOffLast_run_ok] at hrun
  obtain ⟨declX, _, ⟨hdX, rfl⟩, posX, _, ⟨hxX, rfl⟩, spX, _, ⟨_, rfl, rfl⟩, cst, kst, hstX, tX, _, htX,
    c3X, k6X, h3X, rfl, rfl⟩ := hrun
  rw [hd] at hdX; cases hdX
  rw [hxp] at hxX; cases hxX
  obtain ⟨pX, hpX, hltX, rfl, rfl⟩ := (x86_vt_run_ok _ _ _ _ _ _).1 htX
  have hpX' : pX = Γ.length - args.length := by
    have := posOf_append_fresh (Γ.take (Γ.length - args.length)) ⟨x, .prd, ty⟩ hfresh
    simp only at hpX
    rw [this, hn] at hpX
    exact (Option.some.inj hpX).symm
  subst hpX'
  simp only [TempNum.toNat] at hltX
  generalize hN : Γ.length - args.length = N at *
  have hNle : N ≤ Γ.length := by omega
  -- the two abstract steps, explicitly
  obtain ⟨cA, hsA, cB, hsB, hcB⟩ := hst
  have hcB' : cB = cfg' := hcB
  subst hcB'
  -- layout of the x86 items
  simp only [] at hstX h3X htX hat h3 hp hpX
  have hxc : x86Backend.comment "#load tag" = Code.COMMENT "#load tag" := rfl
  have hxl : x86Backend.loadImmediate (posTemp (2 * N + TempNum.snd.toNat)) (x86Backend.jumpLength pos) =
      loadImmediate (posTemp (2 * N + 1)) (jumpLength pos) := rfl
  rw [hxc, hxl] at hat
  generalize hc0 : hookCode x86Backend hooks Γ ++ [x86Backend.comment
      ("let " ++ x.print ++ ": " ++ tyPrint ty ++ " = " ++ tag.print ++ "(" ++ varsPrint args ++ ");")] = c0 at hat
  have hc0c : ∀ y ∈ c0, ∃ m', y = Code.COMMENT m' := by rw [← hc0]; exact hook_comments hooks Γ _
  have hatA : XAt cs st.pc (c0 ++ (cst ++ ((Code.COMMENT "#load tag" ::
      loadImmediate (posTemp (2 * N + 1)) (jumpLength pos)) ++ c3X))) := by
    simpa [List.append_assoc] using hat
  -- the comments
  obtain ⟨k0, hk0⟩ := x_steps_straight mon L hatA.left
    (execStraight_comments mon.mach px.labelAddr c0 st hc0c)
  have X0 : X3 F Γ cfg hs ι κ (setPS st (st.pc + c0.length) k0) := X3R.setPS X _ _
  have hat1 : XAt cs (setPS st (st.pc + c0.length) k0).pc (cst ++ ((Code.COMMENT "#load tag" ::
      loadImmediate (posTemp (2 * N + 1)) (jumpLength pos)) ++ c3X)) := hatA.right
  have hst0 : ∀ t, tempVal F.sp (setPS st (st.pc + c0.length) k0) t = tempVal F.sp st t :=
    fun t => tempVal_setPS _ _ _ _ t
  generalize setPS st (st.pc + c0.length) k0 = st0 at hk0 X0 hat1 hst0
  -- the fields read by the abstract `store`
  have hlenρ : (ρ.drop N).length = (Γ.drop N).length := by
    have := R.len; simp only at this; simp [this]
  obtain ⟨fields, hf, hrep, hch⟩ := readFields_ok2 (Γ.drop N) (ρ.drop N) N (R.vals.slice N) hlenρ
  have hlenTake : (Γ.take N).length = N := hn
  -- the store on both machines
  have mid : ∃ st1 hs' ι' κ' n1, stepN mon px n1 st0 = .inl st1 ∧ st1.pc = st0.pc + cst.length ∧
      X3R F (Γ.take N) cA (roots (Γ.take N) cA.temps ++ rootOf cA.temps ⟨x, .prd, ty⟩ N) hs' ι' κ' st1 ∧
      (∀ r, cA.temps.get (2 * N) = some r → tempVal F.sp st1 (posTemp (2 * N)) = some (imgWord ι' r)) ∧
      cA.pc = cfg.pc + 1 ∧ FrLe hs hs' (64 * args.length) ∧
      (∀ t, t < 2 * N → cA.temps.get t = cfg.temps.get t) ∧
      (∀ t, t < 2 * N → tempVal F.sp st1 (posTemp t) = tempVal F.sp st0 (posTemp t)) ∧
      ((Γ.drop N = [] ∧ cA.heap = cfg.heap ∧ κ' = κ ∧ cA.temps.get (2 * N) = some 0) ∨
       (Γ.drop N ≠ [] ∧ cA.heap = (cfg.next, ⟨0, fields⟩) :: cfg.heap ∧ κ' = storeK F st0 κ cfg.next N ∧
        cA.temps.get (2 * N) = some (BitVec.ofNat 64 cfg.next))) := by
    cases hΔ : Γ.drop N with
    | nil =>
      have hNΓ : N = Γ.length := by
        have := congrArg List.length hΔ
        simp at this; omega
      rw [hΔ] at hstore hstX
      have hT : Γ.take N = Γ := by rw [hNΓ]; exact List.take_length
      rw [hT] at hstX ⊢
      have hA := step_store_empty P cfg N hstore
      rw [hsA] at hA
      injection hA with hA
      have hlow : ∀ t, t < 2 * Γ.length → cA.temps.get t = cfg.temps.get t := by
        intro t ht
        rw [hA]
        simp only
        rw [get_set_other _ _ (by omega), get_clobberTemp _ (by unfold Mock.T_TEMP; have := X.cap; omega)]
      obtain ⟨code, kk', hrunS, _, _, st1, hx, hpc1, X1, hv1, hkeepE⟩ :=
        store_x3_empty (la := px.labelAddr) H h8 X0 hlow (by rw [hA]) (by rw [hA]) (by rw [hA]) k
      have hcode : code = cst ∧ kk' = kst := by
        have : (store [] Γ).run k = .ok (cst, kst) := hstX
        rw [hrunS] at this
        injection this with this
        injection this with e1 e2
        exact ⟨e1, e2⟩
      obtain ⟨rfl, rfl⟩ := hcode
      rw [← hmon] at hx
      obtain ⟨n1, steps1, hn1⟩ := x_steps_fwd mon L hnd hat1.left hx
      have h2n : cA.temps.get (2 * N) = some 0 := by
        rw [hA]; simp only; exact get_set_same _ _ _
      refine ⟨_, hs, ι, κ, n1, hn1, rfl, ?_, ?_, by rw [hA], by
        have : args.length = 0 := by omega
        rw [this]; exact Scc.Heap.Refine.FrLe.refl hs, fun t ht => hlow t (by omega),
        fun t ht => by rw [tempVal_setPS]; exact hkeepE t (by omega),
        Or.inl ⟨rfl, by rw [hA], rfl, h2n⟩⟩
      · have hr : rootOf cA.temps ⟨x, .prd, ty⟩ N = [] := by
          unfold rootOf; rw [h2n]; simp
        rw [hr, List.append_nil, roots_congr _ _ _ (fun i hi => hlow (2 * i) (by omega))]
        exact X3R.setPS X1 _ _
      · intro r hr
        rw [h2n] at hr
        injection hr with hr
        subst hr
        rw [tempVal_setPS, hNΓ, hv1]
        simp [imgWord]
    | cons b Δ =>
      rw [hΔ] at hstore
      have hfc : readFields cfg.temps (b.chi :: Mock.kindsOf Δ) N = some fields := by
        rw [hΔ] at hf; exact hf
      have hA := step_store_cons P cfg b.chi (Mock.kindsOf Δ) N fields hstore hfc
      rw [hsA] at hA
      injection hA with hA
      have hNlt : N < Γ.length := by
        have := congrArg List.length hΔ
        simp at this; omega
      have hlow : ∀ t, t < 2 * N → cA.temps.get t = cfg.temps.get t := by
        intro t ht
        rw [hA]
        simp only
        rw [get_set_other _ _ (by omega), get_clearPositions, if_neg (by omega),
          get_clobberTemp _ (by unfold Mock.T_TEMP; have := X.cap; omega)]
      obtain ⟨code, kk', hrunS, _, _, st1, hs', p, hx, hpc1, X1, hv1, hp0, hplt, hfrS, hkeepS⟩ :=
        store_x3 (la := px.labelAddr) H h8 X0 hNlt hf (hch 0) hnext hlow (by rw [hA]) (by rw [hA]) (by rw [hA])
          (by rw [show Γ.length - N = args.length by omega]; exact hroom) k
      have hcode : code = cst ∧ kk' = kst := by
        have : (store (Γ.drop N) (Γ.take N)).run k = .ok (cst, kst) := hstX
        rw [hrunS] at this
        injection this with this
        injection this with e1 e2
        exact ⟨e1, e2⟩
      obtain ⟨rfl, rfl⟩ := hcode
      rw [← hmon] at hx
      obtain ⟨n1, steps1, hn1⟩ := x_steps_fwd mon L hnd hat1.left hx
      have h2n : cA.temps.get (2 * N) = some (BitVec.ofNat 64 cfg.next) := by
        rw [hA]; simp only; exact get_set_same _ _ _
      have hr0 : BitVec.ofNat 64 cfg.next ≠ 0 := ofNat_ne_zero X.href.abs.pos hnext
      have hrt : (BitVec.ofNat 64 cfg.next).toNat = cfg.next := ofNat_toNat_lt hnext
      refine ⟨_, hs', (fun i => if i = cfg.next then p else ι i), storeK F st0 κ cfg.next N, n1, hn1, rfl, ?_, ?_, by rw [hA], by
        rw [show Γ.length - N = args.length by omega] at hfrS; exact hfrS, hlow,
        fun t ht => by rw [tempVal_setPS]; exact hkeepS t ht,
        Or.inr ⟨by simp, by rw [hA], rfl, h2n⟩⟩
      · have hr : rootOf cA.temps ⟨x, .prd, ty⟩ N = [cfg.next] := by
          unfold rootOf
          rw [h2n]
          have h1 : (Chi.prd != Chi.ext) = true := by decide
          have h2 : (BitVec.ofNat 64 cfg.next != 0) = true := by rw [bne_iff_ne]; exact hr0
          simp only [h1, h2, if_true, hrt]
        rw [hr, roots_congr _ _ _ (fun i hi => hlow (2 * i) (by rw [hlenTake] at hi; omega))]
        exact X3R.setPS X1 _ _
      · intro r hr
        rw [h2n] at hr
        injection hr with hr
        subst hr
        rw [tempVal_setPS, hv1]
        unfold imgWord
        rw [if_neg hr0, hrt]
        simp
  obtain ⟨st1, hs', ι', κ', n1, hn1, hpc1, X1, hptr1, hpcA, hfrM, hlowM, hmachM, hobjM⟩ := mid
  -- the tag
  have hB := step_li P cA (2 * N + 1) pos (by rw [hpcA]; exact hli) (by unfold Mock.T_TEMP; omega)
  rw [hsB] at hB
  injection hB with hB
  have hat2 : XAt cs st1.pc ((Code.COMMENT "#load tag" ::
      loadImmediate (posTemp (2 * N + 1)) (jumpLength pos)) ++ c3X) := by
    rw [hpc1]; exact hat1.right
  obtain ⟨st2, hx2, B2, hv2, P2⟩ := loadImmediate_correct (la := px.labelAddr) X1.bnd (tempOK_posTemp hltX) hfit
  have hx2' : execStraight mon.mach px.labelAddr (Code.COMMENT "#load tag" ::
      loadImmediate (posTemp (2 * N + 1)) (jumpLength pos)) st1 = .ok st2 := by
    rw [hmon]
    simp only [execStraight, execCode]
    exact hx2
  obtain ⟨k2, hk2⟩ := x_steps_straight mon L hat2.left hx2'
  have X2 : X3R F (Γ.take N ++ [⟨x, .prd, ty⟩]) cB
      (roots (Γ.take N) cA.temps ++ rootOf cA.temps ⟨x, .prd, ty⟩ N) hs' ι' κ' st2 := by
    refine X3R.snoc H X1 (by rw [hlenTake]; exact hltX) B2 (by rw [hlenTake]; exact P2) (a := BitVec.ofInt 64 pos)
      (w := BitVec.ofInt 64 (jumpLength pos)) (by rw [hlenTake, hv2]) (fun _ => trW_prd_tag pos) (by rw [hB, hlenTake])
      (by rw [hB]) (by rw [hB]) (by rw [hB]) ?_
    intro _ r hr
    rw [hlenTake] at hr ⊢
    exact hptr1 r hr
  have hrootsB : roots (Γ.take N ++ [⟨x, .prd, ty⟩]) cB.temps =
      roots (Γ.take N) cA.temps ++ rootOf cA.temps ⟨x, .prd, ty⟩ N := by
    have hgetB : ∀ t, t ≠ 2 * N + 1 → t < 267 → cB.temps.get t = cA.temps.get t := by
      intro t hne ht
      rw [hB]
      simp only
      rw [get_set_other _ _ hne, get_clobberTemp _ (by unfold Mock.T_TEMP; omega)]
    rw [roots_snoc, hlenTake]
    congr 1
    · exact roots_congr _ _ _ (fun i hi => hgetB (2 * i) (by omega) (by rw [hlenTake] at hi; omega))
    · unfold rootOf
      rw [hgetB (2 * N) (by omega) (by omega)]
  refine ⟨cB, _, hs', ι', κ', _, ⟨cA, hsA, cB, hsB, rfl⟩, stepN_trans mon px hk0 (stepN_trans mon px hn1 hk2), hfrM,
    hout', hnx', R', ?_, kst, k6X, c3X, h3X, ?_, ?_⟩
  rotate_right
  · -- what happened to the positions and the heap
    have hκeq : storeK F st0 κ cfg.next N = storeK F st κ cfg.next N := by
      funext i j
      simp only [storeK, hst0]
    refine ⟨⟨fun t ht => ?_, fun i hi => ?_⟩, fields, hf, ?_⟩
    · rw [hB]; simp only
      rw [get_set_other _ _ (by omega), get_clobberTemp _ (by unfold Mock.T_TEMP; omega)]
      exact hlowM t ht
    · rw [tempVal_setPS, mach_keep_some hltX P2 (by omega) (by omega), hmachM _ (by omega), hst0]
    · have hg2N : cB.temps.get (2 * N) = cA.temps.get (2 * N) := by
        rw [hB]; simp only
        rw [get_set_other _ _ (by omega), get_clobberTemp _ (by unfold Mock.T_TEMP; omega)]
      rcases hobjM with ⟨h1, h2, h3, h4⟩ | ⟨h1, h2, h3, h4⟩
      · exact Or.inl ⟨h1, by rw [hB]; exact h2, h3, by rw [hg2N]; exact h4⟩
      · exact Or.inr ⟨h1, by rw [hB]; exact h2, by rw [h3, hκeq], by rw [hg2N]; exact h4⟩
  · show X3R F _ cB (roots _ cB.temps) hs' ι' κ' _
    rw [hrootsB]
    exact X3R.setPS X2 _ _
  · exact hat2.right

end Let3

end Scc.X86.Ref.K
