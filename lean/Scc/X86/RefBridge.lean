/-
  Scc.X86.RefBridge — from instruction lists to the transition function of the x86-64 SPEC machine, for
  a program that is LOADED from an item list `cs` up to the text of comments (`Loaded`):
  * `steps_block`      a straight-line block (`execStraight`) at the program counter;
  * `steps_block_seq`  a block with external calls (`execSeq`: the print runtime);
  * `step_ctl`         one instruction that transfers control to a label / falls through.
  Comments carry no semantics (`execCode_strip`), so the simulation never depends on their text: the
  parser of the machine does not reproduce it exactly (it trims blanks).
-/
import Scc.X86.RefDefs
import Scc.X86.ProofsPrint
import Scc.X86.ProofsMem

namespace Scc.X86.Ref

open Scc.X86

/-- index of the first definition of label `l` -/
def labIdx (cs : List Code) (l : String) : Option Nat := cs.findIdx? (fun c => decide (c = Code.LAB l))

/-- the program `p` holds the item list `cs` (up to the text of comments); a label resolves to the
    index of its first definition -/
structure Loaded (p : Prog) (cs : List Code) : Prop where
  code : ∀ i : Nat, (p.code[i]?).map stripC = (cs[i]?).map stripC
  labels : ∀ l, p.labelIdx[l]? = labIdx cs l

theorem execCode_strip (c : MachCfg) (la : String → Option Nat) (code : Code) (s : State) :
    execCode c la (stripC code) s = execCode c la code s := by
  cases code <;> rfl

theorem codeSize_strip (code : Code) : codeSize (stripC code) = codeSize code := by
  cases code <;> rfl

theorem execStraight_strip (c : MachCfg) (la : String → Option Nat) :
    ∀ (a b : List Code) (s : State), a.map stripC = b.map stripC →
      execStraight c la a s = execStraight c la b s
  | [], [], _, _ => rfl
  | [], _ :: _, _, h => by simp at h
  | _ :: _, [], _, h => by simp at h
  | x :: a, y :: b, s, h => by
    simp only [List.map_cons, List.cons.injEq] at h
    simp only [execStraight]
    rw [← execCode_strip c la x, h.1, execCode_strip]
    cases execCode c la y s with
    | error e => rfl
    | ok r =>
      obtain ⟨s1, ctl⟩ := r
      cases ctl <;> simp only
      exact execStraight_strip c la a b s1 h.2

theorem execSeq_strip (c : MachCfg) (la : String → Option Nat) :
    ∀ (a b : List Code) (s : State), a.map stripC = b.map stripC →
      execSeq c la a s = execSeq c la b s
  | [], [], _, _ => rfl
  | [], _ :: _, _, h => by simp at h
  | _ :: _, [], _, h => by simp at h
  | x :: a, y :: b, s, h => by
    simp only [List.map_cons, List.cons.injEq] at h
    simp only [execSeq]
    rw [← execCode_strip c la x, h.1, execCode_strip]
    cases execCode c la y s with
    | error e => rfl
    | ok r =>
      obtain ⟨s1, ctl⟩ := r
      cases ctl <;> simp only
      · exact execSeq_strip c la a b s1 h.2
      · cases callExt s1 _ with
        | error e => rfl
        | ok s2 => exact execSeq_strip c la a b s2 h.2

/-- the items of `p` at `pc …` -/
def seg (p : Prog) (pc n : Nat) : List Code := (p.code.toList.drop pc).take n

theorem Loaded.segment {p : Prog} {cs cs1 blk rest : List Code} (L : Loaded p cs)
    (hcs : cs = cs1 ++ blk ++ rest) :
    (∀ i (h : i < (seg p cs1.length blk.length).length),
      p.code[cs1.length + i]? = some (seg p cs1.length blk.length)[i]) ∧
    (seg p cs1.length blk.length).map stripC = blk.map stripC ∧
    (seg p cs1.length blk.length).length = blk.length := by
  have hlen : ∀ i, i < blk.length → cs1.length + i < p.code.size := by
    intro i hi
    have h1 := L.code (cs1.length + i)
    have h2 : cs[cs1.length + i]? = some blk[i] := by
      rw [hcs, List.append_assoc, List.getElem?_append_right (by omega)]
      simp [List.getElem?_append_left hi]
    rw [h2] at h1
    cases h3 : p.code[cs1.length + i]? with
    | none => rw [h3] at h1; simp at h1
    | some x =>
      cases Nat.lt_or_ge (cs1.length + i) p.code.size with
      | inl h => exact h
      | inr hge =>
        have : p.code[cs1.length + i]? = none := by
          rw [Array.getElem?_eq_none_iff]; omega
        rw [this] at h3; cases h3
  have hl : (seg p cs1.length blk.length).length = blk.length := by
    have hle : blk.length ≤ p.code.size - cs1.length := by
      cases hb : blk.length with
      | zero => omega
      | succ n => have := hlen n (by omega); omega
    simp only [seg, List.length_take, List.length_drop, Array.length_toList]
    omega
  refine ⟨?_, ?_, hl⟩
  · intro i hi
    unfold seg at hi ⊢
    rw [List.getElem_take, List.getElem_drop]
    simp
  · apply List.ext_getElem?
    intro i
    by_cases hi : i < blk.length
    · have h1 := L.code (cs1.length + i)
      have h2 : cs[cs1.length + i]? = some blk[i] := by
        rw [hcs, List.append_assoc, List.getElem?_append_right (by omega)]
        simp [List.getElem?_append_left hi]
      rw [h2] at h1
      rw [List.getElem?_map, List.getElem?_map, List.getElem?_eq_getElem hi]
      unfold seg
      rw [List.getElem?_take_of_lt hi, List.getElem?_drop]
      simpa using h1
    · rw [List.getElem?_eq_none (by simp; omega), List.getElem?_eq_none (by simp; omega)]

/-- a straight-line block at the program counter -/
theorem steps_block (m : MonCfg) {p : Prog} {cs cs1 blk rest : List Code} (L : Loaded p cs)
    (hcs : cs = cs1 ++ blk ++ rest) {s s' : State} (hpc : s.pc = cs1.length)
    (hx : execStraight m.mach p.labelAddr blk s = .ok s') :
    ∃ k, stepN m p blk.length s = .inl (setPS s' (cs1.length + blk.length) k) := by
  obtain ⟨h1, h2, h3⟩ := L.segment hcs
  have hx' : execStraight m.mach p.labelAddr (seg p cs1.length blk.length) s = .ok s' := by
    rw [execStraight_strip _ _ _ _ _ h2]; exact hx
  have := steps_straight m p (seg p cs1.length blk.length) s s' (by rw [hpc]; exact h1) hx'
  rw [h3, hpc] at this
  exact ⟨_, this⟩

/-! ## blocks with external calls -/

/-- the part of `callExt` behind the check of the function name -/
def callBody (s : State) (f : String) : M State :=
  match rd s 0, rd s 7 with
  | .error e, _ => .error e
  | _, .error e => .error e
  | .ok sp, .ok arg =>
    if sp.toNat % 16 ≠ 0 then .error "misaligned-call"
    else .ok { s with
      out := (f == "println_i64", arg) :: s.out,
      regs := poisonRegs s.regs callerSaved,
      flags := none,
      stackMem := s.stackMem.filter (fun a _ => decide (sp.toNat ≤ a)) }

theorem callExt_def (s : State) (f : String) :
    callExt s f = if f ≠ "print_i64" && f ≠ "println_i64" then .error s!"call-unknown {f}"
      else callBody s f := rfl

theorem callBody_setPS (s : State) (f : String) (pc k : Nat) :
    callBody (setPS s pc k) f = mapS pc k (callBody s f) := by
  unfold callBody
  simp only [rd_setPS]
  cases rd s 0 with
  | error e => rfl
  | ok sp =>
    cases rd s 7 with
    | error e => rfl
    | ok arg =>
      simp only
      by_cases h2 : sp.toNat % 16 ≠ 0
      · rw [if_pos h2, if_pos h2]; simp only [mapS]
      · rw [if_neg h2, if_neg h2]; simp only [mapS, setPS]

theorem callExt_setPS (s : State) (f : String) (pc k : Nat) :
    callExt (setPS s pc k) f = mapS pc k (callExt s f) := by
  rw [callExt_def, callExt_def]
  by_cases h1 : (f ≠ "print_i64" && f ≠ "println_i64") = true
  · rw [if_pos h1, if_pos h1]; simp only [mapS]
  · rw [if_neg h1, if_neg h1]; exact callBody_setPS s f pc k

theorem callExt_pc_steps {s s2 : State} {f : String} (h : callExt s f = .ok s2) :
    s2.pc = s.pc ∧ s2.steps = s.steps := by
  have := callExt_setPS s f s.pc s.steps
  rw [setPS_self, h] at this
  simp only [mapS, Except.ok.injEq] at this
  have h1 : s2.pc = (setPS s2 s.pc s.steps).pc := by rw [← this]
  have h2 : s2.steps = (setPS s2 s.pc s.steps).steps := by rw [← this]
  exact ⟨h1, h2⟩

theorem execSeq_setPS (c : MachCfg) (la : String → Option Nat) (codes : List Code) (s : State)
    (pc k : Nat) : execSeq c la codes (setPS s pc k) = mapS pc k (execSeq c la codes s) := by
  induction codes generalizing s with
  | nil => rfl
  | cons code rest ih =>
    simp only [execSeq, execCode_setPS]
    cases execCode c la code s with
    | error e => rfl
    | ok r =>
      obtain ⟨s1, ctl⟩ := r
      cases ctl <;> simp only [mapPS, ih]
      case callExt f =>
        rw [callExt_setPS]
        cases callExt s1 f with
        | error e => rfl
        | ok s2 => simp only [mapS, ih]
      all_goals rfl

/-- one transition that is an external call -/
theorem step_call {m : MonCfg} {p : Prog} {s s1 s2 : State} {code : Code} {f : String}
    (hf : p.code[s.pc]? = some code)
    (hx : execCode m.mach p.labelAddr code s = .ok (s1, .callExt f)) (hc : callExt s1 f = .ok s2) :
    step m p s = .inl (setPS s2 (s.pc + 1) (s.steps + (if codeSize code = 0 then 0 else 1))) := by
  obtain ⟨_, hst⟩ := execCode_pc_steps hx
  unfold step
  simp only [hf, hx]
  by_cases h0 : codeSize code = 0
  · simp only [h0, if_true, hc, Nat.add_zero]
    obtain ⟨_, h2⟩ := callExt_pc_steps hc
    simp only [setPS, ← hst, ← h2]
  · simp only [h0, if_false]
    have hc' : callExt { s1 with steps := s1.steps + 1 } f = .ok (setPS s2 s2.pc (s1.steps + 1)) := by
      have := callExt_setPS s1 f s1.pc (s1.steps + 1)
      rw [hc] at this
      simp only [mapS] at this
      obtain ⟨h1, _⟩ := callExt_pc_steps hc
      rw [h1]
      exact this
    simp only [hc']
    simp only [setPS, hst]

theorem steps_seq (m : MonCfg) (p : Prog) (codes : List Code) (s s' : State)
    (hcode : ∀ i (h : i < codes.length), p.code[s.pc + i]? = some codes[i])
    (hx : execSeq m.mach p.labelAddr codes s = .ok s') :
    ∃ k, stepN m p codes.length s = .inl (setPS s' (s.pc + codes.length) k) := by
  induction codes generalizing s s' with
  | nil =>
    simp only [execSeq, Except.ok.injEq] at hx
    subst hx
    exact ⟨s.steps, rfl⟩
  | cons code rest ih =>
    have hf : p.code[s.pc]? = some code := by
      have := hcode 0 (by simp)
      rw [List.getElem_cons_zero] at this
      simpa using this
    have hrest : ∀ (s1 : State) (k1 : Nat), ∀ i (h : i < rest.length),
        p.code[(setPS s1 (s.pc + 1) k1).pc + i]? = some rest[i] := by
      intro s1 k1 i hi
      have := hcode (i + 1) (by simpa using hi)
      simp only [List.getElem_cons_succ] at this
      rw [← this]
      simp only [setPS]
      congr 1; omega
    simp only [execSeq] at hx
    cases hc : execCode m.mach p.labelAddr code s with
    | error e => simp [hc] at hx
    | ok r =>
      obtain ⟨s1, ctl⟩ := r
      cases ctl <;> simp only [hc] at hx <;> try cases hx
      case next =>
        have hstep := step_next hf hc
        simp only [List.length_cons, stepN, hstep]
        have hx' : execSeq m.mach p.labelAddr rest
            (setPS s1 (s.pc + 1) (s.steps + (if codeSize code = 0 then 0 else 1))) =
            .ok (setPS s' (s.pc + 1) (s.steps + (if codeSize code = 0 then 0 else 1))) := by
          rw [execSeq_setPS, hx]; rfl
        obtain ⟨k, hk⟩ := ih _ _ (hrest s1 _) hx'
        refine ⟨k, ?_⟩
        rw [hk]
        simp only [setPS]
        congr 2; omega
      case callExt f =>
        cases hce : callExt s1 f with
        | error e => simp [hce] at hx
        | ok s2 =>
          simp only [hce] at hx
          have hstep := step_call hf hc hce
          simp only [List.length_cons, stepN, hstep]
          have hx' : execSeq m.mach p.labelAddr rest
              (setPS s2 (s.pc + 1) (s.steps + (if codeSize code = 0 then 0 else 1))) =
              .ok (setPS s' (s.pc + 1) (s.steps + (if codeSize code = 0 then 0 else 1))) := by
            rw [execSeq_setPS, hx]; rfl
          obtain ⟨k, hk⟩ := ih _ _ (hrest s2 _) hx'
          refine ⟨k, ?_⟩
          rw [hk]
          simp only [setPS]
          congr 2; omega

/-- a block with external calls at the program counter -/
theorem steps_block_seq (m : MonCfg) {p : Prog} {cs cs1 blk rest : List Code} (L : Loaded p cs)
    (hcs : cs = cs1 ++ blk ++ rest) {s s' : State} (hpc : s.pc = cs1.length)
    (hx : execSeq m.mach p.labelAddr blk s = .ok s') :
    ∃ k, stepN m p blk.length s = .inl (setPS s' (cs1.length + blk.length) k) := by
  obtain ⟨h1, h2, h3⟩ := L.segment hcs
  have hx' : execSeq m.mach p.labelAddr (seg p cs1.length blk.length) s = .ok s' := by
    rw [execSeq_strip _ _ _ _ _ h2]; exact hx
  obtain ⟨k, hk⟩ := steps_seq m p (seg p cs1.length blk.length) s s' (by rw [hpc]; exact h1) hx'
  rw [h3, hpc] at hk
  exact ⟨k, hk⟩

/-- the item at an index of the loaded list -/
theorem Loaded.fetch {p : Prog} {cs cs1 rest : List Code} {code : Code} (L : Loaded p cs)
    (hcs : cs = cs1 ++ code :: rest) :
    ∃ code', p.code[cs1.length]? = some code' ∧ stripC code' = stripC code := by
  have h1 := L.code cs1.length
  have h2 : cs[cs1.length]? = some code := by rw [hcs]; simp
  rw [h2] at h1
  cases h3 : p.code[cs1.length]? with
  | none => rw [h3] at h1; simp at h1
  | some x => rw [h3] at h1; simp at h1; exact ⟨x, rfl, h1⟩

/-- one instruction that jumps to a label -/
theorem step_jump (m : MonCfg) {p : Prog} {cs cs1 rest : List Code} {code : Code} (L : Loaded p cs)
    (hcs : cs = cs1 ++ code :: rest) {s s1 : State} (hpc : s.pc = cs1.length) {l : String} {i : Nat}
    (hx : execCode m.mach p.labelAddr code s = .ok (s1, .jumpLabel l)) (hl : labIdx cs l = some i) :
    ∃ k, step m p s = .inl (setPS s1 i k) := by
  obtain ⟨code', hf, hs⟩ := L.fetch hcs
  have hx' : execCode m.mach p.labelAddr code' s = .ok (s1, .jumpLabel l) := by
    rw [← execCode_strip, hs, execCode_strip]; exact hx
  exact ⟨_, step_jumpLabel (by rw [hpc]; exact hf) hx' (by rw [L.labels]; exact hl)⟩

/-- one instruction that falls through -/
theorem step_fall (m : MonCfg) {p : Prog} {cs cs1 rest : List Code} {code : Code} (L : Loaded p cs)
    (hcs : cs = cs1 ++ code :: rest) {s s1 : State} (hpc : s.pc = cs1.length)
    (hx : execCode m.mach p.labelAddr code s = .ok (s1, .next)) :
    ∃ k, step m p s = .inl (setPS s1 (cs1.length + 1) k) := by
  obtain ⟨code', hf, hs⟩ := L.fetch hcs
  have hx' : execCode m.mach p.labelAddr code' s = .ok (s1, .next) := by
    rw [← execCode_strip, hs, execCode_strip]; exact hx
  have := step_next (m := m) (p := p) (by rw [hpc]; exact hf) hx'
  rw [hpc] at this
  exact ⟨_, this⟩

end Scc.X86.Ref
