/-
  Scc.X86.ProofsMem — Theorem-B contracts for the memory combinators of
  /repo/lang/axcut2x86_64/src/memory.rs on the SPEC machine (Machine.lean), against the heap model
  Scc/Heap/Model.lean:
    * `skip_if_zero`, `if_zero_then_else` (register condition and heap-word condition): which branch
      runs (`execFwd_skip_*`, `execFwd_ite_*`);
    * `share_block_n` ⟶ `Scc.Heap.shareBlock`, `erase_block` ⟶ `Scc.Heap.eraseBlock`
      (`shareBlockN_contract`, `eraseBlock_contract`), for a pointer in a register AND in a spill slot:
      if the heap model performs the operation on the abstract heap, the emitted code runs without a
      fault from every boundary state related to that heap and ends in a boundary state related to
      the model's result; stack, trace and all registers but TEMP (and FREE for erase) are unchanged.

  Block semantics with FORWARD local labels (`execFwd`): like `execStraight`, but a jump to a label
  defined further down in the same block continues there; any other transfer of control leaves the
  block.  All jumps emitted by memory.rs are forward jumps to fresh labels (`labName_inj`), which is
  what the machine's `step` does with them when the labels are unique in the text (C14-T3).
  Heap-model words are unbounded naturals: the contracts assume that the incremented count stays
  below 2^64 (the model does not wrap).
-/
import Scc.X86.ProofsTransfer
import Scc.X86.ProofsStep
import Scc.Backend.Proofs
import Std.Data.String.ToNat

set_option linter.unusedSimpArgs false
set_option linter.unusedVariables false

namespace Scc.X86

open Scc.AxCut
open Scc.Backend (GenM freshLabel)

/-! ## blocks with forward local labels -/

/-- the code after the first definition of label `l` -/
def skipTo (l : String) : List Code → Option (List Code)
  | [] => none
  | c :: cs =>
    match c with
    | .LAB l' => if l' = l then some cs else skipTo l cs
    | _ => skipTo l cs

theorem skipTo_length {l : String} : ∀ {cs r : List Code}, skipTo l cs = some r → r.length < cs.length
  | [], _, h => by simp [skipTo] at h
  | c :: cs, r, h => by
    cases c <;> simp only [skipTo] at h
    case LAB l' =>
      split at h
      · injection h with h; subst h; simp
      · have := skipTo_length h; simp; omega
    all_goals (have := skipTo_length h; simp; omega)

/-- execution of a block: fall-through instructions in sequence; a jump to a label defined further
down in the block continues there; every other control transfer (and a jump to a foreign label)
ends the block with that control -/
def execFwd (c : MachCfg) (la : String → Option Nat) (code : List Code) (s : State) : M (State × Ctl) :=
  match code with
  | [] => .ok (s, .next)
  | cd :: cs =>
    match execCode c la cd s with
    | .error e => .error e
    | .ok (s1, .next) => execFwd c la cs s1
    | .ok (s1, .jumpLabel l) =>
      match _h : skipTo l cs with
      | some rest => execFwd c la rest s1
      | none => .ok (s1, .jumpLabel l)
    | .ok (s1, ctl) => .ok (s1, ctl)
termination_by code.length
decreasing_by
  · simp
  · have := skipTo_length _h; simp; omega

theorem skipTo_append (l : String) (b : List Code) : ∀ (a : List Code),
    skipTo l (a ++ b) = match skipTo l a with
      | some r => some (r ++ b)
      | none => skipTo l b
  | [] => by simp [skipTo]
  | c :: cs => by
    cases c <;> simp only [List.cons_append, skipTo, skipTo_append l b cs]
    case LAB l' => split <;> simp

section Fwd
variable (c : MachCfg) (la : String → Option Nat)

/-- how the continuation of a block is entered -/
def contFwd (b : List Code) : M (State × Ctl) → M (State × Ctl)
  | .error e => .error e
  | .ok (s', .next) => execFwd c la b s'
  | .ok (s', .jumpLabel l) =>
    match skipTo l b with
    | some rest => execFwd c la rest s'
    | none => .ok (s', .jumpLabel l)
  | .ok (s', ctl) => .ok (s', ctl)

theorem execFwd_nil (s : State) : execFwd c la [] s = .ok (s, .next) := by
  rw [execFwd]

theorem execFwd_cons (cd : Code) (cs : List Code) (s : State) :
    execFwd c la (cd :: cs) s = contFwd c la cs (execCode c la cd s) := by
  rw [execFwd]
  cases h : execCode c la cd s with
  | error e => simp [contFwd]
  | ok r =>
    obtain ⟨s1, n⟩ := r
    cases n with
    | next => simp [contFwd]
    | jumpLabel l =>
      simp only [contFwd]
      split <;> rename_i h2 <;> simp [h2]
    | jumpAddr a => simp [contFwd]
    | callExt f => simp [contFwd]
    | ret => simp [contFwd]

/-- sequential composition of blocks -/
theorem execFwd_append (b : List Code) : ∀ (n : Nat) (a : List Code) (s : State), a.length ≤ n →
    execFwd c la (a ++ b) s = contFwd c la b (execFwd c la a s) := by
  intro n
  induction n with
  | zero =>
    intro a s h
    have : a = [] := List.eq_nil_of_length_eq_zero (Nat.le_zero.mp h)
    subst this
    simp [execFwd_nil, contFwd]
  | succ n ih =>
    intro a s h
    cases a with
    | nil => simp [execFwd_nil, contFwd]
    | cons cd cs =>
      have hcs : cs.length ≤ n := by simpa using h
      rw [List.cons_append, execFwd_cons, execFwd_cons]
      cases hex : execCode c la cd s with
      | error e => simp [contFwd]
      | ok r =>
        obtain ⟨s1, nx⟩ := r
        cases nx with
        | next => simp only [contFwd]; exact ih cs s1 hcs
        | jumpAddr x => simp [contFwd]
        | callExt f => simp [contFwd]
        | ret => simp [contFwd]
        | jumpLabel l =>
          simp only [contFwd, skipTo_append]
          cases hsk : skipTo l cs with
          | none => simp
          | some r =>
            have := skipTo_length hsk
            simp only
            exact ih r s1 (by omega)

/-- straight-line code (every instruction falls through) as a prefix of a block -/
theorem execFwd_straight (pre : List Code) (rest : List Code) (s s' : State)
    (h : execStraight c la pre s = .ok s') :
    execFwd c la (pre ++ rest) s = execFwd c la rest s' := by
  induction pre generalizing s with
  | nil => simp only [execStraight, Except.ok.injEq] at h; subst h; rfl
  | cons cd cs ih =>
    simp only [execStraight] at h
    rw [List.cons_append, execFwd_cons]
    cases hex : execCode c la cd s with
    | error e => simp [hex] at h
    | ok r =>
      obtain ⟨s1, ctl⟩ := r
      cases ctl <;> simp only [hex] at h <;> first | (simp only [contFwd]; exact ih s1 h) | cases h

theorem execFwd_straight_only (pre : List Code) (s s' : State) (h : execStraight c la pre s = .ok s') :
    execFwd c la pre s = .ok (s', .next) := by
  have := execFwd_straight c la pre [] s s' h
  rwa [List.append_nil, execFwd_nil] at this

/-! ## the jumps of the two combinators -/

theorem exec_JEL (l : String) {s : State} {a b : Word} (hf : s.flags = some (a, b)) :
    execCode c la (.JEL l) s = .ok (s, if a = b then .jumpLabel l else .next) := by
  simp only [execCode, jcc, hf]
  by_cases h : a = b <;> simp [h]

theorem exec_COMMENT (m : String) (s : State) : execCode c la (.COMMENT m) s = .ok (s, .next) := rfl
theorem exec_LAB (l : String) (s : State) : execCode c la (.LAB l) s = .ok (s, .next) := rfl
theorem exec_JMPL (l : String) (s : State) : execCode c la (.JMPL l) s = .ok (s, .jumpLabel l) := rfl

/-- `je l; body; l:` with equal operands recorded: the body is skipped (the label is fresh for it) -/
theorem execFwd_jel_taken (body : List Code) (l : String) (s : State) {a : Word}
    (hf : s.flags = some (a, a)) (hfresh : skipTo l body = none) :
    execFwd c la ([.JEL l] ++ body ++ [.LAB l]) s = .ok (s, .next) := by
  rw [List.append_assoc, List.singleton_append, execFwd_cons, exec_JEL c la l hf]
  simp [contFwd, skipTo_append, hfresh, skipTo, execFwd_nil]

/-- `je l; body; l:` with different operands recorded: the body runs -/
theorem execFwd_jel_not_taken (body : List Code) (l : String) (s s' : State) {a b : Word}
    (hf : s.flags = some (a, b)) (hne : a ≠ b) (hbody : execFwd c la body s = .ok (s', .next)) :
    execFwd c la ([.JEL l] ++ body ++ [.LAB l]) s = .ok (s', .next) := by
  rw [List.append_assoc, List.singleton_append, execFwd_cons, exec_JEL c la l hf]
  simp only [hne, if_false, contFwd]
  rw [execFwd_append c la _ body.length body s (Nat.le_refl _), hbody]
  simp only [contFwd]
  rw [execFwd_cons]
  simp [exec_LAB, contFwd, execFwd_nil]

/-- `je lt; else; jmp le; lt: then; le:` with equal operands recorded: exactly the then-branch runs -/
theorem execFwd_ite_then (thenB elseB : List Code) (lt le : String) (s s' : State) {a : Word}
    (hf : s.flags = some (a, a)) (hfresh : skipTo lt elseB = none)
    (hthen : execFwd c la thenB s = .ok (s', .next)) :
    execFwd c la ([.JEL lt] ++ elseB ++ [.JMPL le, .LAB lt] ++ thenB ++ [.LAB le]) s = .ok (s', .next) := by
  simp only [List.append_assoc, List.singleton_append, List.cons_append, List.nil_append]
  rw [execFwd_cons, exec_JEL c la lt hf]
  simp only [if_true, contFwd, skipTo_append, hfresh]
  simp only [List.cons_append, List.nil_append, skipTo, if_true]
  rw [execFwd_append c la _ thenB.length thenB s (Nat.le_refl _), hthen]
  simp only [contFwd]
  rw [execFwd_cons]
  simp [exec_LAB, contFwd, execFwd_nil]

/-- … with different operands recorded: exactly the else-branch runs (the two labels differ) -/
theorem execFwd_ite_else (thenB elseB : List Code) (lt le : String) (s s' : State) {a b : Word}
    (hf : s.flags = some (a, b)) (hne : a ≠ b) (hlab : lt ≠ le) (hfresh : skipTo le thenB = none)
    (helse : execFwd c la elseB s = .ok (s', .next)) :
    execFwd c la ([.JEL lt] ++ elseB ++ [.JMPL le, .LAB lt] ++ thenB ++ [.LAB le]) s = .ok (s', .next) := by
  simp only [List.append_assoc, List.singleton_append, List.cons_append, List.nil_append]
  rw [execFwd_cons, exec_JEL c la lt hf]
  simp only [hne, if_false, contFwd]
  rw [execFwd_append c la _ elseB.length elseB s (Nat.le_refl _), helse]
  simp only [contFwd, List.cons_append, List.nil_append]
  rw [execFwd_cons]
  simp only [exec_JMPL, contFwd, skipTo, hlab, if_false, skipTo_append, hfresh, if_true]
  simp [execFwd_nil]

end Fwd

/-! ## the bridge: `execFwd` is what the machine's `step` does on a block whose labels are its own -/

theorem skipTo_spec {l : String} : ∀ {cs rest : List Code}, skipTo l cs = some rest →
    ∃ j, cs[j]? = some (.LAB l) ∧ rest = cs.drop (j + 1)
  | [], _, h => by simp [skipTo] at h
  | cd :: cs, rest, h => by
    have key : skipTo l cs = some rest → ∃ j, (cd :: cs)[j]? = some (.LAB l) ∧ rest = (cd :: cs).drop (j + 1) := by
      intro h'
      obtain ⟨j, h1, h2⟩ := skipTo_spec h'
      exact ⟨j + 1, by simpa using h1, by simpa using h2⟩
    cases cd <;> simp only [skipTo] at h
    case LAB l' =>
      split at h
      · rename_i e
        injection h with h
        exact ⟨0, by simp [e], by simp [h]⟩
      · exact key h
    all_goals exact key h

theorem execFwd_setPS (c : MachCfg) (la : String → Option Nat) (p k : Nat) :
    ∀ (n : Nat) (codes : List Code) (s : State), codes.length ≤ n →
      execFwd c la codes (setPS s p k) = mapPS p k (execFwd c la codes s) := by
  intro n
  induction n with
  | zero =>
    intro codes s h
    have : codes = [] := List.eq_nil_of_length_eq_zero (Nat.le_zero.mp h)
    subst this
    simp [execFwd_nil, mapPS]
  | succ n ih =>
    intro codes s h
    cases codes with
    | nil => simp [execFwd_nil, mapPS]
    | cons cd cs =>
      have hcs : cs.length ≤ n := by simpa using h
      rw [execFwd_cons, execFwd_cons, execCode_setPS]
      cases hex : execCode c la cd s with
      | error e => simp [mapPS, contFwd]
      | ok r =>
        obtain ⟨s1, ctl⟩ := r
        cases ctl with
        | next => simp only [mapPS, contFwd]; exact ih cs s1 hcs
        | jumpAddr a => simp [mapPS, contFwd]
        | callExt f => simp [mapPS, contFwd]
        | ret => simp [mapPS, contFwd]
        | jumpLabel l =>
          simp only [mapPS, contFwd]
          cases hsk : skipTo l cs with
          | none => simp [mapPS]
          | some rest =>
            have := skipTo_length hsk
            simp only
            exact ih rest s1 (by omega)

/-- the program text contains the block `codes` at index `pc0`, and every label the block defines
resolves to its position in the block (i.e. it is defined nowhere earlier in the text; with unique
labels, C14-T3, nowhere else) -/
structure BlockAt (p : Prog) (pc0 : Nat) (codes : List Code) : Prop where
  code : ∀ i (h : i < codes.length), p.code[pc0 + i]? = some codes[i]
  labels : ∀ j l, codes[j]? = some (.LAB l) → p.labelIdx[l]? = some (pc0 + j)

/-- one transition that jumps to a label -/
theorem step_jumpLabel {m : MonCfg} {p : Prog} {s s1 : State} {code : Code} {l : String} {i : Nat}
    (hf : p.code[s.pc]? = some code)
    (hx : execCode m.mach p.labelAddr code s = .ok (s1, .jumpLabel l)) (hl : p.labelIdx[l]? = some i) :
    step m p s = .inl (setPS s1 i (s.steps + (if codeSize code = 0 then 0 else 1))) := by
  obtain ⟨_, hst⟩ := execCode_pc_steps hx
  unfold step
  simp only [hf, hx, hl]
  by_cases h0 : codeSize code = 0
  · simp only [h0, if_true, Nat.add_zero, setPS, ← hst]
  · simp only [h0, if_false, setPS, hst]

theorem stepN_add (m : MonCfg) (p : Prog) (a b : Nat) (s s1 : State) (h : stepN m p a s = .inl s1) :
    stepN m p (a + b) s = stepN m p b s1 := by
  induction a generalizing s with
  | zero => simp only [stepN, Sum.inl.injEq] at h; subst h; simp
  | succ a ih =>
    simp only [stepN] at h
    rw [Nat.succ_add]
    simp only [stepN]
    cases hs : step m p s with
    | inr r => simp [hs] at h
    | inl s2 => simp only [hs] at h ⊢; exact ih s2 h

theorem stepN_one (m : MonCfg) (p : Prog) (s : State) : stepN m p 1 s = step m p s := by
  simp only [stepN]
  cases step m p s <;> rfl

/-- THE BRIDGE for blocks with forward local labels: if the text contains the block and the block's
labels are its own, then whenever `execFwd` runs the block (from offset `off`) to its end, iterating
the machine's `step` does the same and arrives just behind the block. -/
theorem steps_fwd (m : MonCfg) (p : Prog) (pc0 : Nat) (codes : List Code) (hb : BlockAt p pc0 codes) :
    ∀ (n off : Nat) (s s' : State), codes.length - off ≤ n → off ≤ codes.length → s.pc = pc0 + off →
      execFwd m.mach p.labelAddr (codes.drop off) s = .ok (s', .next) →
      ∃ k steps', stepN m p k s = .inl (setPS s' (pc0 + codes.length) steps') := by
  intro n
  induction n with
  | zero =>
    intro off s s' hn hoff hpc hx
    have : off = codes.length := by omega
    subst this
    rw [List.drop_length, execFwd_nil] at hx
    simp only [Except.ok.injEq, Prod.mk.injEq, and_true] at hx
    subst hx
    exact ⟨0, s.steps, by simp only [stepN, setPS, ← hpc]⟩
  | succ n ih =>
    intro off s s' hn hoff hpc hx
    by_cases hlt : off < codes.length
    · have hdrop : codes.drop off = codes[off] :: codes.drop (off + 1) := by
        rw [List.drop_eq_getElem_cons hlt]
      have hf : p.code[s.pc]? = some codes[off] := by rw [hpc]; exact hb.code off hlt
      rw [hdrop, execFwd_cons] at hx
      cases hex : execCode m.mach p.labelAddr codes[off] s with
      | error e => simp [hex, contFwd] at hx
      | ok r =>
        obtain ⟨s1, ctl⟩ := r
        rw [hex] at hx
        cases ctl with
        | next =>
          simp only [contFwd] at hx
          have hstep := step_next hf hex
          have hx' := execFwd_setPS m.mach p.labelAddr (s.pc + 1)
            (s.steps + (if codeSize codes[off] = 0 then 0 else 1)) _ (codes.drop (off + 1)) s1 (Nat.le_refl _)
          rw [hx] at hx'
          obtain ⟨k, st, hk⟩ := ih (off + 1) _ _ (by omega) (by omega)
            (by simp only [setPS]; omega) hx'
          refine ⟨1 + k, st, ?_⟩
          rw [stepN_add m p 1 k s _ ((stepN_one m p s).trans hstep)]
          exact hk
        | jumpLabel l =>
          simp only [contFwd] at hx
          cases hsk : skipTo l (codes.drop (off + 1)) with
          | none => simp [hsk] at hx
          | some rest =>
            simp only [hsk] at hx
            obtain ⟨j, hj, hrest⟩ := skipTo_spec hsk
            have hj' : codes[off + 1 + j]? = some (.LAB l) := by
              rw [List.getElem?_drop] at hj; exact hj
            obtain ⟨hjlt, hjeq⟩ := List.getElem?_eq_some_iff.1 hj'
            have hl := hb.labels _ _ hj'
            have hstep := step_jumpLabel hf hex hl
            have hdrop2 : codes.drop (off + 1 + j) = .LAB l :: rest := by
              rw [List.drop_eq_getElem_cons hjlt, hrest, List.drop_drop, hjeq]
              rfl
            have hx2 : execFwd m.mach p.labelAddr (codes.drop (off + 1 + j)) s1 = .ok (s', .next) := by
              rw [hdrop2, execFwd_cons, exec_LAB]
              simp only [contFwd]
              exact hx
            have hx' := execFwd_setPS m.mach p.labelAddr (pc0 + (off + 1 + j))
              (s.steps + (if codeSize codes[off] = 0 then 0 else 1)) _ (codes.drop (off + 1 + j)) s1
              (Nat.le_refl _)
            rw [hx2] at hx'
            obtain ⟨k, st, hk⟩ := ih (off + 1 + j) _ _ (by omega) (by omega) (by simp only [setPS]) hx'
            refine ⟨1 + k, st, ?_⟩
            rw [stepN_add m p 1 k s _ ((stepN_one m p s).trans hstep)]
            exact hk
        | jumpAddr a => simp [contFwd] at hx
        | callExt f => simp [contFwd] at hx
        | ret => simp [contFwd] at hx
    · have : off = codes.length := by omega
      subst this
      rw [List.drop_length, execFwd_nil] at hx
      simp only [Except.ok.injEq, Prod.mk.injEq, and_true] at hx
      subst hx
      exact ⟨0, s.steps, by simp only [stepN, setPS, ← hpc]⟩

/-! ## shapes of the generated code, fresh labels -/

theorem labName_inj {m n : Nat} : labName m = labName n ↔ m = n := by
  unfold labName
  constructor
  · intro h
    have h2 := congrArg String.toList h
    simp only [String.toList_append, List.append_cancel_left_eq] at h2
    have : toString m = toString n := String.toList_inj.mp h2
    exact Nat.repr_inj.mp this
  · rintro rfl; rfl

/-- memory.rs skip_if_zero: shape of the code -/
theorem skipIfZero_run (condition : Temporary) (toSkip : List Code) (k : Nat) :
    (skipIfZero condition toSkip).run k =
      .ok (compareImmediate condition 0 ++ [.JEL (labName (k + 1))] ++ toSkip ++
        [.LAB (labName (k + 1))], k + 1) := rfl

/-- memory.rs if_zero_then_else: shape of the code (`offset = none`: the register itself is
compared with 0; `some off`: the heap word `[condition + off]`) -/
theorem ifZeroThenElse_run (condition : Reg) (offset : Option Int) (thenBranch elseBranch : List Code)
    (k : Nat) :
    (ifZeroThenElse condition offset thenBranch elseBranch).run k =
      .ok ([(match offset with
              | some off => Code.CMPIM condition off 0
              | none => Code.CMPI condition 0), .JEL (labName (k + 1))] ++ elseBranch ++
        [.JMPL (labName (k + 2)), .LAB (labName (k + 1))] ++ thenBranch ++
        [.LAB (labName (k + 2))], k + 2) := rfl

/-! ## machine-level facts: registers, heap words -/

/-- register `r` holds the defined word `v` -/
def regIs (st : State) (r : Nat) (v : Word) : Prop := st.regs[r]? = some (some v)

theorem rd_regIs {st : State} {r : Nat} {v : Word} (h : regIs st r v) : rd st r = .ok v := by
  unfold regIs at h; simp [rd, h]

theorem rdRaw_regIs {st : State} {r : Nat} {v : Word} (h : regIs st r v) : rdRaw st r = .ok (some v) := by
  unfold regIs at h; simp [rdRaw, h]

theorem regIs_of_tempVal {sp : Word} {st : State} {r : Nat} {v : Word}
    (h : tempVal sp st (.reg r) = some v) : regIs st r v := by
  unfold regIs
  simp only [tempVal] at h
  cases hr : st.regs[r]? with
  | none => simp [hr] at h
  | some o => simp only [hr, Option.join_some] at h; rw [h]

def State.setReg (st : State) (r : Nat) (v : Option Word) : State :=
  { st with regs := st.regs.set! r v }

theorem wrRaw_ok {st : State} {r : Nat} (h : r < st.regs.size) (v : Option Word) :
    wrRaw st r v = .ok (st.setReg r v) := by
  simp [wrRaw, h, State.setReg]

theorem setReg_same {st : State} {r : Nat} (h : r < st.regs.size) (v : Option Word) :
    (st.setReg r v).regs[r]? = some v := by
  simp [State.setReg, Array.set!_eq_setIfInBounds, Array.getElem?_setIfInBounds, h]

theorem setReg_other {st : State} {r x : Nat} (h : x ≠ r) (v : Option Word) :
    (st.setReg r v).regs[x]? = st.regs[x]? := by
  have : ¬ r = x := fun e => h e.symm
  simp [State.setReg, Array.set!_eq_setIfInBounds, Array.getElem?_setIfInBounds, this]

theorem setReg_size (st : State) (r : Nat) (v : Option Word) :
    (st.setReg r v).regs.size = st.regs.size := by
  simp [State.setReg]

/-- `p` is the address of a word of the heap region -/
structure HeapAddr (c : MachCfg) (p : Word) : Prop where
  aligned : p.toNat % 8 = 0
  inHeap : inHeap c p.toNat = true

def State.heapGet (st : State) (p : Word) : Word := st.heapMem.getD p.toNat 0

/-- the effect of a store to the heap -/
def State.heapSet (c : MachCfg) (st : State) (p v : Word) : State :=
  { st with heapMem := st.heapMem.insert p.toNat v,
            maxHeapWritten := max st.maxHeapWritten (p.toNat + 8 - c.heapBase) }

theorem imm32_zero : imm32 0 = .ok 0 := by
  simp [imm32, fitsI32]

theorem ea_zero {st : State} {r : Nat} {p : Word} (h : regIs st r p) : ea st r 0 = .ok p := by
  simp [ea, rd_regIs h, imm32_zero]

theorem loadWord_heap {c : MachCfg} {st : State} {p : Word} (ha : HeapAddr c p) :
    loadWord c st p = .ok (st.heapGet p) := by
  simp [loadWord, loadWordRaw, ha.aligned, ha.inHeap, State.heapGet]

theorem storeWord_heap {c : MachCfg} {st : State} {p : Word} (ha : HeapAddr c p) (v : Word) :
    storeWord c st p v = .ok (st.heapSet c p v) := by
  simp [storeWord, storeWordRaw, ha.aligned, ha.inHeap, State.heapSet]

section Exec
variable (c : MachCfg) (la : String → Option Nat)

theorem exec_CMPI0 {st : State} {r : Nat} {x : Word} (h : regIs st r x) :
    execCode c la (.CMPI r 0) st = .ok ({ st with flags := some (x, 0) }, .next) := by
  simp [execCode, cmpOp, readLoc, readSrc, rd_regIs h, imm32_zero, seqNext]

theorem exec_CMPIM0_heap {st : State} {r : Nat} {p : Word} (h : regIs st r p) (ha : HeapAddr c p) :
    execCode c la (.CMPIM r 0 0) st = .ok ({ st with flags := some (st.heapGet p, 0) }, .next) := by
  simp [execCode, cmpOp, readLoc, readSrc, ea_zero h, loadWord_heap ha, imm32_zero, seqNext]

theorem exec_ADDIM_heap {st : State} {r : Nat} {p : Word} (h : regIs st r p) (ha : HeapAddr c p)
    {n : Int} (hn : fitsI32 n = true) :
    execCode c la (.ADDIM r 0 n) st =
      .ok ({ (st.heapSet c p (st.heapGet p + BitVec.ofInt 64 n)) with flags := none }, .next) := by
  simp [execCode, alu, readLoc, readSrc, writeLoc, ea_zero h, loadWord_heap ha, storeWord_heap ha,
    imm32, hn, seqNext]

theorem exec_MOVS_heap {st : State} {r b : Nat} {v p : Word} (hr : regIs st r v) (hb : regIs st b p)
    (ha : HeapAddr c p) : execCode c la (.MOVS r b 0) st = .ok (st.heapSet c p v, .next) := by
  have := storeWord_heap (st := st) ha v
  simp only [storeWord] at this
  simp [execCode, rdRaw_regIs hr, ea_zero hb, this, seqNext]

theorem exec_MOV {st : State} {r r1 : Nat} {v : Option Word} (hr : st.regs[r1]? = some v)
    (h : r < st.regs.size) : execCode c la (.MOV r r1) st = .ok (st.setReg r v, .next) := by
  simp [execCode, rdRaw, hr, wrRaw_ok h, seqNext]

end Exec

/-! ## the abstraction: machine heap ⟷ `Scc.Heap.HState` -/

/-- machine state `st` represents the abstract heap `h`: same region, same words (as naturals),
HEAP and FREE registers hold the two list heads -/
structure HeapRel (c : MachCfg) (st : State) (h : Scc.Heap.HState) : Prop where
  base : h.base = c.heapBase
  limit : h.limit = c.heapBase + c.heapBytes
  mem : ∀ a, h.mem.get a = (st.heapMem.getD a 0).toNat
  heap : ∃ w, regIs st HEAP w ∧ w.toNat = h.heap
  free : ∃ w, regIs st FREE w ∧ w.toNat = h.free

/-- what a memory operation leaves alone: trace, pc, step counter, the whole stack, and every
register not listed in `except` -/
structure FrameH (st st' : State) (except : List Nat) : Prop where
  out : st'.out = st.out
  pc : st'.pc = st.pc
  steps : st'.steps = st.steps
  stack : ∀ n : Nat, st'.stackMem[n]? = st.stackMem[n]?
  regs : ∀ r, r ∉ except → st'.regs[r]? = st.regs[r]?

theorem FrameH.refl (st : State) (ex : List Nat) : FrameH st st ex :=
  ⟨rfl, rfl, rfl, fun _ => rfl, fun _ _ => rfl⟩

theorem FrameH.trans {s1 s2 s3 : State} {e1 e2 e3 : List Nat} (h1 : FrameH s1 s2 e1) (h2 : FrameH s2 s3 e2)
    (he1 : ∀ r, r ∈ e1 → r ∈ e3) (he2 : ∀ r, r ∈ e2 → r ∈ e3) : FrameH s1 s3 e3 :=
  ⟨h2.out.trans h1.out, h2.pc.trans h1.pc, h2.steps.trans h1.steps,
   fun n => (h2.stack n).trans (h1.stack n),
   fun r hr => (h2.regs r (fun h => hr (he2 r h))).trans (h1.regs r (fun h => hr (he1 r h)))⟩

/-- a stack-only step (Theorem-B lemmas of ProofsTransfer) as a frame -/
theorem FrameH.of_preserved {c : MachCfg} {sp : Word} {st st' : State} (B : Boundary c st sp)
    (B' : Boundary c st' sp) (P : Preserved sp st st' none) : FrameH st st' [TEMP] := by
  refine ⟨P.same.out, P.same.pc, P.same.steps, fun n => P.mem n (fun _ h => by cases h), ?_⟩
  intro r hr
  by_cases h16 : r < 16
  · exact P.regs r h16 (fun e => hr (by simp [e])) (by simp)
  · have h1 : st.regs.size ≤ r := by rw [B.size]; omega
    have h2 : st'.regs.size ≤ r := by rw [B'.size]; omega
    rw [Array.getElem?_eq_none h1, Array.getElem?_eq_none h2]

theorem HeapRel.of_same {c : MachCfg} {st st' : State} {h : Scc.Heap.HState} (R : HeapRel c st h)
    (hm : st'.heapMem = st.heapMem) (hH : st'.regs[HEAP]? = st.regs[HEAP]?)
    (hF : st'.regs[FREE]? = st.regs[FREE]?) : HeapRel c st' h := by
  obtain ⟨wh, hwh, ewh⟩ := R.heap
  obtain ⟨wf, hwf, ewf⟩ := R.free
  exact ⟨R.base, R.limit, fun a => by rw [hm]; exact R.mem a,
    ⟨wh, by unfold regIs at *; rw [hH]; exact hwh, ewh⟩,
    ⟨wf, by unfold regIs at *; rw [hF]; exact hwf, ewf⟩⟩

/-- heap model read = machine word -/
theorem heap_rd_spec {c : MachCfg} {st : State} {h : Scc.Heap.HState} (R : HeapRel c st h)
    (h8 : c.heapBase % 8 = 0) {p : Word} {v : Nat} (hrd : Scc.Heap.rd h p.toNat = .ok v) :
    HeapAddr c p ∧ v = (st.heapGet p).toNat := by
  unfold Scc.Heap.rd at hrd
  rw [R.base, R.limit] at hrd
  split at hrd
  · rename_i h1
    split at hrd
    · rename_i h2
      cases hrd
      refine ⟨⟨by omega, ?_⟩, R.mem _⟩
      simp only [inHeap, Bool.and_eq_true, decide_eq_true_eq]
      exact h1
    · cases hrd
  · cases hrd

/-- heap model write = machine store -/
theorem heap_wr_spec {c : MachCfg} {st : State} {h h' : Scc.Heap.HState} (R : HeapRel c st h)
    {p : Word} (ha : HeapAddr c p) {v : Nat} (w : Word) (hw : w.toNat = v)
    (hwr : Scc.Heap.wr h p.toNat v = .ok h') :
    h' = { h with mem := h.mem.set p.toNat v } ∧ HeapRel c (st.heapSet c p w) h' := by
  unfold Scc.Heap.wr at hwr
  split at hwr
  · split at hwr
    · cases hwr
      refine ⟨rfl, R.base, R.limit, ?_, R.heap, R.free⟩
      intro a
      simp only [Scc.Heap.Mem.get_set, State.heapSet, Std.HashMap.getD_insert]
      by_cases e : p.toNat = a
      · simp [e, hw]
      · simp [e, R.mem a]
    · cases hwr
  · cases hwr

/-! ## loading the pointer of a spilled temporary into TEMP -/

/-- the instructions that bring the contents of `t` into a register (`jumpReg t`) -/
def loadPtr : Temporary → List Code
  | .reg _ => []
  | .spill p => [.MOVL TEMP STACK (stackOffset p)]

theorem Preserved.refl (sp : Word) (st : State) (t : Option Temporary) : Preserved sp st st t :=
  ⟨Same.refl st, fun _ _ _ _ => rfl, fun _ _ => rfl⟩

section Contracts
variable {c : MachCfg} {la : String → Option Nat} {st : State} {sp : Word}

theorem loadPtr_correct (B : Boundary c st sp) {t : Temporary} (ht : TempOK t) {p : Word}
    (hv : tempVal sp st t = some p) :
    ∃ st', execStraight c la (loadPtr t) st = .ok st' ∧ Boundary c st' sp ∧ regIs st' (jumpReg t) p ∧
      Preserved sp st st' none := by
  cases t with
  | reg r => exact ⟨st, rfl, B, regIs_of_tempVal hv, Preserved.refl sp st none⟩
  | spill q =>
    have hx := t_moveToRegister (la := la) (τ := tview sp st) opndOK_temp ht.opnd (t := .spill q)
    obtain ⟨st', e, b, hvals, _, hp⟩ := transfer B la hx (t := none)
      (fun u _ hT => by simp [hT, tview])
    refine ⟨st', e, b, ?_, hp⟩
    have := hvals _ opndOK_temp
    simp only [TState.set_val, if_true] at this
    exact regIs_of_tempVal (sp := sp) (r := TEMP) (by rw [this]; exact hv)

theorem tempVal_preserved {st' : State} (P : Preserved sp st st' none) {t : Temporary} (ht : TempOK t) :
    tempVal sp st' t = tempVal sp st t := by
  cases t with
  | reg r =>
    simp only [tempVal]
    rw [P.regs r ht.2 (fun e => ht.ne_temp (by rw [e])) (by simp)]
  | spill q =>
    simp only [tempVal]
    exact P.mem _ (fun _ h => by cases h)

theorem toNat_add_ofInt_nat (w : Word) (n : Nat) (h : w.toNat + n < 2 ^ 64) :
    (w + BitVec.ofInt 64 (n : Int)).toNat = w.toNat + n := by
  rw [BitVec.ofInt_natCast, BitVec.toNat_add, BitVec.toNat_ofNat]
  omega

theorem toNat_add_neg_one (w : Word) (h : w ≠ 0) : (w + BitVec.ofInt 64 (-1)).toNat = w.toNat - 1 := by
  have h0 : w.toNat ≠ 0 := fun e => h (BitVec.eq_of_toNat_eq (by simpa using e))
  have hlt : w.toNat < 2 ^ 64 := w.isLt
  have : (BitVec.ofInt 64 (-1)).toNat = 2 ^ 64 - 1 := by decide
  rw [BitVec.toNat_add, this]
  omega

theorem refcount_zero : REFERENCE_COUNT_OFFSET = 0 := by decide
theorem next_zero : NEXT_ELEMENT_OFFSET = 0 := by decide

/-! ## share_block_n ⟶ `Scc.Heap.shareBlock` -/

/-- memory.rs share_block_n: shape of the code, both placements at once -/
theorem shareBlockN_run (t : Temporary) (n k : Nat) :
    (shareBlockN t n).run k =
      .ok (compareImmediate t 0 ++ [.JEL (labName (k + 1))] ++
        ([.COMMENT "####increment refcount"] ++ loadPtr t ++ [.ADDIM (jumpReg t) 0 (n : Int)]) ++
        [.LAB (labName (k + 1))], k + 1) := by
  cases t <;> rfl

/-- CONTRACT of `share_block_n`: whenever the heap model shares the block `p` (`n` more references),
the emitted code — pointer in a register or in a spill slot — runs to its end from every boundary
state that represents the heap, and the final state represents the model's result; only TEMP, the
flags and that one heap word change. -/
theorem shareBlockN_contract (h8 : c.heapBase % 8 = 0) (B : Boundary c st sp) {h h' : Scc.Heap.HState}
    (R : HeapRel c st h) {t : Temporary} (ht : TempOK t) {p : Word} (hv : tempVal sp st t = some p)
    {n : Nat} (hn : fitsI32 (n : Int) = true) (hop : Scc.Heap.shareBlock h p.toNat n = .ok h')
    (hno : h.mem.get p.toNat + n < 2 ^ 64) (k : Nat) :
    ∃ code, (shareBlockN t n).run k = .ok (code, k + 1) ∧
      ∃ st', execFwd c la code st = .ok (st', .next) ∧ Boundary c st' sp ∧ HeapRel c st' h' ∧
        FrameH st st' [TEMP] := by
  refine ⟨_, shareBlockN_run t n k, ?_⟩
  obtain ⟨st1, e1, B1, hfl, P1⟩ := compareImmediate_correct (la := la) B ht (i := 0) (by decide) hv
  have hfl1 : st1.flags = some (p, 0) := by rw [hfl]; simp
  have F1 := FrameH.of_preserved B B1 P1
  have R1 : HeapRel c st1 h :=
    R.of_same P1.same.heapMem (F1.regs HEAP (by decide)) (F1.regs FREE (by decide))
  rw [List.append_assoc, List.append_assoc, execFwd_straight c la _ _ st st1 e1]
  rw [← List.append_assoc]
  by_cases hp : p = 0
  · subst hp
    have : h' = h := by
      simp [Scc.Heap.shareBlock] at hop
      exact hop.symm
    subst this
    refine ⟨st1, execFwd_jel_taken c la _ _ st1 hfl1 ?_, B1, R1, F1⟩
    cases t <;> simp [skipTo, loadPtr]
  · have hp' : p.toNat ≠ 0 := fun e => hp (BitVec.eq_of_toNat_eq (by simpa using e))
    unfold Scc.Heap.shareBlock at hop
    rw [if_neg hp'] at hop
    have hv1 : tempVal sp st1 t = some p := by rw [tempVal_preserved P1 ht]; exact hv
    obtain ⟨st2, e2, B2, hr2, P2⟩ := loadPtr_correct (la := la) B1 ht hv1
    have F2 := FrameH.of_preserved B1 B2 P2
    have R2 : HeapRel c st2 h :=
      R1.of_same P2.same.heapMem (F2.regs HEAP (by decide)) (F2.regs FREE (by decide))
    cases hrd : Scc.Heap.rd h p.toNat with
    | error f => simp [hrd] at hop
    | ok cnt =>
      simp only [hrd] at hop
      obtain ⟨ha, hcnt⟩ := heap_rd_spec R2 h8 hrd
      have hget : h.mem.get p.toNat = (st2.heapGet p).toNat := R2.mem _
      have hw : (st2.heapGet p + BitVec.ofInt 64 (n : Int)).toNat = cnt + n := by
        rw [toNat_add_ofInt_nat _ _ (by rw [← hget]; exact hno), ← hcnt]
      obtain ⟨_, R3⟩ := heap_wr_spec R2 ha _ hw hop
      have e3 := exec_ADDIM_heap c la hr2 ha hn
      refine ⟨{ (st2.heapSet c p (st2.heapGet p + BitVec.ofInt 64 (n : Int))) with flags := none },
        execFwd_jel_not_taken c la _ _ st1 _ hfl1 hp ?_, ⟨B2.size, B2.rsp, B2.sp⟩,
        R3.of_same rfl rfl rfl, ?_⟩
      · rw [List.append_assoc, List.singleton_append, execFwd_cons, exec_COMMENT]
        simp only [contFwd]
        rw [execFwd_straight c la _ _ st1 st2 e2, execFwd_cons, e3]
        simp [contFwd, execFwd_nil]
      · exact (F1.trans F2 (fun _ h => h) (fun _ h => h)).trans
          ⟨rfl, rfl, rfl, fun _ => rfl, fun _ _ => rfl⟩ (fun _ h => h) (fun _ h => h)

/-! ## the two combinators, as contracts about which branch runs -/

/-- `skip_if_zero` on a zero condition (register or spill slot): nothing but the comparison runs -/
theorem skipIfZero_zero (B : Boundary c st sp) {cond : Temporary} (ht : TempOK cond)
    (hv : tempVal sp st cond = some 0) (body : List Code) (k : Nat)
    (hfresh : skipTo (labName (k + 1)) body = none) :
    ∃ code, (skipIfZero cond body).run k = .ok (code, k + 1) ∧
      ∃ st', execFwd c la code st = .ok (st', .next) ∧ Boundary c st' sp ∧ Preserved sp st st' none := by
  refine ⟨_, skipIfZero_run cond body k, ?_⟩
  obtain ⟨st1, e1, B1, hfl, P1⟩ := compareImmediate_correct (la := la) B ht (i := 0) (by decide) hv
  have hfl1 : st1.flags = some ((0 : Word), 0) := by rw [hfl]; simp
  rw [List.append_assoc, List.append_assoc, execFwd_straight c la _ _ st st1 e1, ← List.append_assoc]
  exact ⟨st1, execFwd_jel_taken c la _ _ st1 hfl1 hfresh, B1, P1⟩

/-- `skip_if_zero` on a non-zero condition: after the comparison (state `st1`: only TEMP and the
flags differ) the body runs, and the block ends where the body ends -/
theorem skipIfZero_nonzero (B : Boundary c st sp) {cond : Temporary} (ht : TempOK cond) {x : Word}
    (hv : tempVal sp st cond = some x) (hx : x ≠ 0) (body : List Code) (k : Nat) :
    ∃ code, (skipIfZero cond body).run k = .ok (code, k + 1) ∧
      ∃ st1, Boundary c st1 sp ∧ Preserved sp st st1 none ∧ st1.flags = some (x, 0) ∧
        ∀ st', execFwd c la body st1 = .ok (st', .next) → execFwd c la code st = .ok (st', .next) := by
  refine ⟨_, skipIfZero_run cond body k, ?_⟩
  obtain ⟨st1, e1, B1, hfl, P1⟩ := compareImmediate_correct (la := la) B ht (i := 0) (by decide) hv
  have hfl1 : st1.flags = some (x, 0) := by rw [hfl]; simp
  refine ⟨st1, B1, P1, hfl1, fun st' hb => ?_⟩
  rw [List.append_assoc, List.append_assoc, execFwd_straight c la _ _ st st1 e1, ← List.append_assoc]
  exact execFwd_jel_not_taken c la _ _ st1 st' hfl1 hx hb

/-- the word `if_zero_then_else` tests: the register itself, or the heap word it points to -/
def iteWord (st : State) (x : Word) : Option Int → Word
  | none => x
  | some _ => st.heapGet x

/-- `if_zero_then_else` (condition register `r`; `offset = none`: the register is tested,
`offset = some 0`: the heap word `[r + 0]`): the tested word is zero ⟹ exactly the then-branch runs
(from the state with the comparison recorded) -/
theorem ifZeroThenElse_zero {r : Nat} {x : Word} (hr : regIs st r x) {offset : Option Int}
    (ho : offset = none ∨ (offset = some 0 ∧ HeapAddr c x)) (hz : iteWord st x offset = 0)
    (tb eb : List Code) (k : Nat) (hfresh : skipTo (labName (k + 1)) eb = none) :
    ∃ code, (ifZeroThenElse r offset tb eb).run k = .ok (code, k + 2) ∧
      ∀ st', execFwd c la tb { st with flags := some (0, 0) } = .ok (st', .next) →
        execFwd c la code st = .ok (st', .next) := by
  refine ⟨_, ifZeroThenElse_run r offset tb eb k, fun st' hb => ?_⟩
  simp only [List.cons_append, List.nil_append, List.append_assoc]
  rw [execFwd_cons]
  have hcmp : ∀ (o : Option Int), (o = none ∨ (o = some 0 ∧ HeapAddr c x)) → iteWord st x o = 0 →
      execCode c la (match o with
        | some off => Code.CMPIM r off 0
        | none => Code.CMPI r 0) st = .ok ({ st with flags := some (0, 0) }, .next) := by
    intro o ho' hz'
    rcases ho' with rfl | ⟨rfl, ha⟩
    · simp only [iteWord] at hz'; subst hz'; exact exec_CMPI0 c la hr
    · simp only [iteWord] at hz'; rw [exec_CMPIM0_heap c la hr ha, hz']
  rw [hcmp offset ho hz]
  simp only [contFwd]
  have := execFwd_ite_then c la tb eb (labName (k + 1)) (labName (k + 2))
    { st with flags := some (0, 0) } st' (a := 0) rfl hfresh hb
  simpa only [List.cons_append, List.nil_append, List.append_assoc, List.singleton_append] using this

/-- … the tested word is not zero ⟹ exactly the else-branch runs -/
theorem ifZeroThenElse_nonzero {r : Nat} {x : Word} (hr : regIs st r x) {offset : Option Int}
    (ho : offset = none ∨ (offset = some 0 ∧ HeapAddr c x)) (hz : iteWord st x offset ≠ 0)
    (tb eb : List Code) (k : Nat) (hfresh : skipTo (labName (k + 2)) tb = none) :
    ∃ code, (ifZeroThenElse r offset tb eb).run k = .ok (code, k + 2) ∧
      ∀ st', execFwd c la eb { st with flags := some (iteWord st x offset, 0) } = .ok (st', .next) →
        execFwd c la code st = .ok (st', .next) := by
  refine ⟨_, ifZeroThenElse_run r offset tb eb k, fun st' hb => ?_⟩
  have h12 : labName (k + 1) ≠ labName (k + 2) := fun e => by have := labName_inj.mp e; omega
  simp only [List.cons_append, List.nil_append, List.append_assoc]
  rw [execFwd_cons]
  have hcmp : ∀ (o : Option Int), (o = none ∨ (o = some 0 ∧ HeapAddr c x)) →
      execCode c la (match o with
        | some off => Code.CMPIM r off 0
        | none => Code.CMPI r 0) st = .ok ({ st with flags := some (iteWord st x o, 0) }, .next) := by
    intro o ho'
    rcases ho' with rfl | ⟨rfl, ha⟩
    · exact exec_CMPI0 c la hr
    · exact exec_CMPIM0_heap c la hr ha
  rw [hcmp offset ho]
  simp only [contFwd]
  have := execFwd_ite_else c la tb eb (labName (k + 1)) (labName (k + 2))
    { st with flags := some (iteWord st x offset, 0) } st' (a := iteWord st x offset) (b := 0) rfl hz h12
    hfresh hb
  simpa only [List.cons_append, List.nil_append, List.append_assoc, List.singleton_append] using this

/-! ## erase_block ⟶ `Scc.Heap.eraseBlock` -/

/-- erase_valid_object for the pointer in register `r` (labels `l1` = then, `l2` = end) -/
def eraseInner (r : Nat) (l1 l2 : String) : List Code :=
  .CMPIM r 0 0 :: ([.JEL l1] ++
    [.COMMENT "######either decrement refcount ...", .ADDIM r 0 (-1)] ++
    [.JMPL l2, .LAB l1] ++
    [.COMMENT "######... or add block to lazy free list", .MOVS FREE r 0, .MOV FREE r] ++
    [.LAB l2])

/-- erase_block for the pointer in register `r` -/
def eraseCode (r : Nat) (l1 l2 l3 : String) : List Code :=
  .CMPI r 0 :: ([.JEL l3] ++ (.COMMENT "######check refcount" :: eraseInner r l1 l2) ++ [.LAB l3])

/-- memory.rs erase_block: shape of the code, both placements at once -/
theorem eraseBlock_run (t : Temporary) (k : Nat) :
    (eraseBlock t).run k =
      .ok (loadPtr t ++ eraseCode (jumpReg t) (labName (k + 1)) (labName (k + 2)) (labName (k + 3)),
        k + 3) := by
  cases t <;> rfl

/-- CONTRACT of `erase_block`: whenever the heap model erases one reference to `p` (null: nothing;
count 0: the block goes onto the lazy free list and FREE := p; otherwise the count is decremented),
the emitted code — pointer in a register or in a spill slot — runs to its end from every boundary state
that represents the heap, and the final state represents the model's result; only TEMP, FREE, the
flags and the header word of `p` change. -/
theorem eraseBlock_contract (h8 : c.heapBase % 8 = 0) (B : Boundary c st sp) {h h' : Scc.Heap.HState}
    (R : HeapRel c st h) {t : Temporary} (ht : TempOK t) {p : Word} (hv : tempVal sp st t = some p)
    (hop : Scc.Heap.eraseBlock h p.toNat = .ok h') (k : Nat) :
    ∃ code, (eraseBlock t).run k = .ok (code, k + 3) ∧
      ∃ st', execFwd c la code st = .ok (st', .next) ∧ Boundary c st' sp ∧ HeapRel c st' h' ∧
        FrameH st st' [TEMP, FREE] := by
  refine ⟨_, eraseBlock_run t k, ?_⟩
  have h12 : labName (k + 1) ≠ labName (k + 2) := fun e => by have := labName_inj.mp e; omega
  have h13 : labName (k + 1) ≠ labName (k + 3) := fun e => by have := labName_inj.mp e; omega
  have h23 : labName (k + 2) ≠ labName (k + 3) := fun e => by have := labName_inj.mp e; omega
  obtain ⟨st1, e1, B1, hr1, P1⟩ := loadPtr_correct (la := la) B ht hv
  have F1 := FrameH.of_preserved B B1 P1
  have R1 : HeapRel c st1 h :=
    R.of_same P1.same.heapMem (F1.regs HEAP (by decide)) (F1.regs FREE (by decide))
  rw [execFwd_straight c la _ _ st st1 e1]
  -- the outer test `cmp r, 0`
  let st2 : State := { st1 with flags := some (p, 0) }
  have B2 : Boundary c st2 sp := ⟨B1.size, B1.rsp, B1.sp⟩
  have R2 : HeapRel c st2 h := R1.of_same rfl rfl rfl
  have F2 : FrameH st st2 [TEMP, FREE] :=
    F1.trans (⟨rfl, rfl, rfl, fun _ => rfl, fun _ _ => rfl⟩ : FrameH st1 st2 []) (by simp)
      (by simp)
  have hr2 : regIs st2 (jumpReg t) p := hr1
  unfold eraseCode
  rw [execFwd_cons, exec_CMPI0 c la hr1]
  simp only [contFwd]
  by_cases hp : p = 0
  · subst hp
    have : h' = h := by
      simp [Scc.Heap.eraseBlock] at hop
      exact hop.symm
    subst this
    refine ⟨st2, execFwd_jel_taken c la _ _ st2 rfl ?_, B2, R2, F2⟩
    simp [skipTo, eraseInner, h13, h23]
  · have hp' : p.toNat ≠ 0 := fun e => hp (BitVec.eq_of_toNat_eq (by simpa using e))
    unfold Scc.Heap.eraseBlock at hop
    rw [if_neg hp'] at hop
    cases hrd : Scc.Heap.rd h p.toNat with
    | error f => simp [hrd] at hop
    | ok cnt =>
      simp only [hrd] at hop
      obtain ⟨ha, hcnt⟩ := heap_rd_spec R2 h8 hrd
      -- the inner test `cmp qword [r + 0], 0`
      let st3 : State := { st2 with flags := some (st2.heapGet p, 0) }
      have B3 : Boundary c st3 sp := ⟨B1.size, B1.rsp, B1.sp⟩
      have R3 : HeapRel c st3 h := R1.of_same rfl rfl rfl
      have hr3 : regIs st3 (jumpReg t) p := hr1
      have hget3 : st3.heapGet p = st2.heapGet p := rfl
      have F3 : FrameH st st3 [TEMP, FREE] :=
        F1.trans (⟨rfl, rfl, rfl, fun _ => rfl, fun _ _ => rfl⟩ : FrameH st1 st3 []) (by simp)
          (by simp)
      suffices hbody : ∃ st', execFwd c la ([.JEL (labName (k + 1))] ++
            [.COMMENT "######either decrement refcount ...", .ADDIM (jumpReg t) 0 (-1)] ++
            [.JMPL (labName (k + 2)), .LAB (labName (k + 1))] ++
            [.COMMENT "######... or add block to lazy free list", .MOVS FREE (jumpReg t) 0,
              .MOV FREE (jumpReg t)] ++ [.LAB (labName (k + 2))]) st3 = .ok (st', .next) ∧
            Boundary c st' sp ∧ HeapRel c st' h' ∧ FrameH st3 st' [TEMP, FREE] by
        obtain ⟨st', ex, B', R', F'⟩ := hbody
        refine ⟨st', execFwd_jel_not_taken c la _ _ st2 st' rfl hp ?_, B', R',
          F3.trans F' (fun _ h => h) (fun _ h => h)⟩
        rw [execFwd_cons, exec_COMMENT]
        simp only [contFwd]
        unfold eraseInner
        rw [execFwd_cons, exec_CMPIM0_heap c la hr2 ha]
        simp only [contFwd]
        exact ex
      by_cases hc0 : cnt = 0
      · -- count 0: onto the lazy free list
        subst hc0
        have hw0 : st2.heapGet p = 0 := BitVec.eq_of_toNat_eq (by simpa using hcnt.symm)
        have hfl3 : st3.flags = some ((0 : Word), 0) := by simp [st3, hw0]
        obtain ⟨f, hf, ef⟩ := R3.free
        simp only [if_true] at hop
        cases hwr : Scc.Heap.wr h p.toNat h.free with
        | error e => simp [hwr] at hop
        | ok h1 =>
          simp only [hwr, Except.ok.injEq] at hop
          obtain ⟨eh1, R4⟩ := heap_wr_spec R3 ha f ef hwr
          let st4 : State := st3.heapSet c p f
          have hr4 : st4.regs[jumpReg t]? = some (some p) := hr1
          have hsz : FREE < st4.regs.size := by
            show FREE < st1.regs.size
            rw [B1.size]; decide
          let st5 : State := st4.setReg FREE (some p)
          refine ⟨st5, ?_, ?_, ?_, ?_⟩
          · refine execFwd_ite_then c la _ _ _ _ st3 st5 hfl3 (by simp [skipTo]) ?_
            rw [execFwd_cons, exec_COMMENT]
            simp only [contFwd]
            rw [execFwd_cons, exec_MOVS_heap c la hf hr3 ha]
            simp only [contFwd]
            rw [execFwd_cons, exec_MOV c la hr4 hsz]
            simp only [contFwd, execFwd_nil]
            rfl
          · refine ⟨by rw [setReg_size]; exact B1.size, ?_, B1.sp⟩
            rw [setReg_other (by decide)]
            exact B1.rsp
          · subst hop
            obtain ⟨wh, hwh, ewh⟩ := R4.heap
            refine ⟨R4.base, R4.limit, R4.mem, ⟨wh, ?_, ewh⟩, ⟨p, setReg_same hsz _, rfl⟩⟩
            unfold regIs at hwh ⊢
            rw [setReg_other (by decide)]
            exact hwh
          · refine ⟨rfl, rfl, rfl, fun _ => rfl, fun r hr => ?_⟩
            exact setReg_other (fun e => hr (by simp [e])) _
      · -- count ≠ 0: decrement
        have hw0 : st2.heapGet p ≠ 0 := fun e => hc0 (by rw [hcnt, e]; rfl)
        rw [if_neg hc0] at hop
        have hw : (st3.heapGet p + BitVec.ofInt 64 (-1)).toNat = cnt - 1 := by
          rw [hget3, toNat_add_neg_one _ hw0, ← hcnt]
        obtain ⟨_, R4⟩ := heap_wr_spec R3 ha _ hw hop
        refine ⟨{ (st3.heapSet c p (st3.heapGet p + BitVec.ofInt 64 (-1))) with flags := none }, ?_,
          ⟨B1.size, B1.rsp, B1.sp⟩, R4.of_same rfl rfl rfl,
          ⟨rfl, rfl, rfl, fun _ => rfl, fun _ _ => rfl⟩⟩
        refine execFwd_ite_else c la _ _ _ _ st3 _ (a := st2.heapGet p) (b := 0) rfl hw0 h12
          (by simp [skipTo]) ?_
        rw [execFwd_cons, exec_COMMENT]
        simp only [contFwd]
        rw [execFwd_cons, exec_ADDIM_heap c la hr3 ha (by decide)]
        simp only [contFwd, execFwd_nil]

end Contracts

end Scc.X86
