/-
  Scc.X86.CCProofsStatic — property C13 (calling convention), x86-64: STATIC, TEXT-LEVEL facts about
  the instruction list that the generic code generator (Scc/Backend/Generic.lean) instantiated with
  `x86Backend` emits for ANY program it compiles.

  * `plainCC code`  — the instruction is none of `push / pop / call / ret`, does not write `rsp`, and
    every `rsp`-relative memory operand addresses a slot of the spill area (`0 ≤ disp`, `disp + 8 ≤
    SPILL_SPACE = 2048`, 8-aligned);
    `plainInt code` — moreover it has no memory operand with another base register, is not an indirect
    jump / jump-table entry / `lea`, and does not jump to `asm_main`.
  * `CCShape plain body` — `body` is a sequence of plain instructions and of whole print blocks
    `printI64 nl t ctx` whose argument `t` is the `Snd` temporary of a variable of `ctx` (`PrintSrc`).
  * `compile_ccShape`     every compiled body is `CCShape plainCC` (no hypothesis on the program: the
    capacity check is the success of the compiler);
    `compile_ccShape_int` the body of an integer program (`IntProgC`) is `CCShape plainInt`.
  Proof: the generic lifting of Scc/Backend/ProofsShape.lean, every backend method by inspection.
-/
import Scc.Backend.ProofsShape
import Scc.X86.ProofsPrint

set_option linter.unusedVariables false
set_option linter.unusedSimpArgs false

namespace Scc.X86

open Scc.AxCut
open Scc.Backend (GenM TempNum freshLabel)
open Scc.Backend.Shape (OpsShape IntProgC IntStmtC AllExt)

/-! ## what an instruction writes and addresses -/

/-- the registers an instruction writes -/
def codeWrites : Code → List Nat
  | .ADD r _ | .ADDRM r _ _ | .ADDI r _ | .SUB r _ | .SUBRM r _ _ | .SUBI r _ | .IMUL r _
  | .IMULRM r _ _ => [r]
  | .IDIV _ | .IDIVM _ _ => [4, 5]
  | .CQO => [5]
  | .LEAL r _ | .MOV r _ | .MOVL r _ _ | .MOVI r _ => [r]
  | .PUSH _ => [0]
  | .POP r => [0, r]
  | _ => []

/-- the memory operands `[base + disp]` of an instruction (read or written) -/
def codeMems : Code → List (Nat × Int)
  | .ADDRM _ b i | .SUBRM _ b i | .IMULRM _ b i | .MOVS _ b i | .MOVL _ b i | .CMPRM _ b i => [(b, i)]
  | .ADDMR b i _ | .SUBMR b i _ | .IMULMR b i _ | .CMPMR b i _ | .IDIVM b i => [(b, i)]
  | .ADDIM b i _ | .MOVIM b i _ | .CMPIM b i _ => [(b, i)]
  | _ => []

/-- `disp` addresses a word of the spill area `[rsp, rsp + SPILL_SPACE)` -/
def slotOK (i : Int) : Bool := decide (0 ≤ i) && decide (i + 8 ≤ 2048) && decide (i % 8 = 0)

/-- the instructions that move `rsp` implicitly or leave the routine -/
def isStackOp : Code → Bool
  | .PUSH _ | .POP _ | .CALL _ | .RET => true
  | _ => false

/-- target of a direct jump (not jump-table entries) -/
def codeJumpRef : Code → Option String
  | .JMPL l | .JEL l | .JNEL l | .JLL l | .JLEL l | .JGL l | .JGEL l => some l
  | _ => none

/-- a PLAIN instruction: no push / pop / call / ret, `rsp` is not written, `rsp`-relative operands stay
    inside the spill area -/
def plainCC (c : Code) : Bool :=
  !isStackOp c && (codeWrites c).all (· != 0) && (codeMems c).all (fun bi => bi.1 != 0 || slotOK bi.2)

/-- indirect control / address-taking forms (only emitted for `switch` / `create` / `invoke`) -/
def isIndirect : Code → Bool
  | .JMP _ | .JMPLN _ | .LEAL _ _ => true
  | _ => false

/-- a plain instruction of an INTEGER program: all memory operands are spill slots, control is
    direct and never goes back to the routine entry -/
def plainInt (c : Code) : Bool :=
  plainCC c && (codeMems c).all (fun bi => bi.1 == 0) && !isIndirect c &&
    (match codeJumpRef c with
     | some l => l != "asm_main"
     | none => true)

theorem plainCC_of_plainInt {c : Code} (h : plainInt c = true) : plainCC c = true := by
  simp only [plainInt, Bool.and_eq_true] at h
  exact h.1.1.1

theorem slotOK_stackOffset {p : Nat} (hp : p < 256) : slotOK (stackOffset p) = true := by
  rw [stackOffset_eq]
  simp only [slotOK, Bool.and_eq_true, decide_eq_true_eq]
  omega

/-! ## the shape of a body -/

/-- the argument of a print block: the `Snd` temporary of a variable of the context -/
def PrintSrc (ctx : Ctx) (t : Temporary) : Prop :=
  ∃ pos, pos < ctx.length ∧ temporaryFromPosition (2 * pos + 1) = .ok t

/-- a sequence of plain instructions and whole print blocks -/
inductive CCShape (plain : Code → Bool) : List Code → Prop where
  | nil : CCShape plain []
  | plain {c : Code} {rest : List Code} : plain c = true → CCShape plain rest → CCShape plain (c :: rest)
  | print {nl : Bool} {t : Temporary} {ctx : Ctx} {rest : List Code} :
      PrintSrc ctx t → CCShape plain rest → CCShape plain (printI64 nl t ctx ++ rest)

theorem CCShape.append {plain : Code → Bool} {a b : List Code} (ha : CCShape plain a) (hb : CCShape plain b) :
    CCShape plain (a ++ b) := by
  induction ha with
  | nil => exact hb
  | plain h _ ih => exact .plain h ih
  | print h _ ih => rw [List.append_assoc]; exact .print h ih

theorem CCShape.ofAll {plain : Code → Bool} : ∀ {l : List Code}, l.all plain = true → CCShape plain l
  | [], _ => .nil
  | c :: rest, h => by
    simp only [List.all_cons, Bool.and_eq_true] at h
    exact .plain h.1 (CCShape.ofAll h.2)

theorem CCShape.mono {p q : Code → Bool} (hpq : ∀ c, p c = true → q c = true) {l : List Code}
    (h : CCShape p l) : CCShape q l := by
  induction h with
  | nil => exact .nil
  | plain h _ ih => exact .plain (hpq _ h) ih
  | print h _ ih => exact .print h ih

theorem CCShape.printBlock {plain : Code → Bool} {nl : Bool} {t : Temporary} {ctx : Ctx} (h : PrintSrc ctx t) :
    CCShape plain (printI64 nl t ctx) := by
  have := CCShape.print (plain := plain) (nl := nl) h CCShape.nil
  simpa using this

/-! ## temporaries -/

theorem ctxPosition_lt : ∀ (ctx : Ctx) (id k pos : Nat), ctxPosition ctx id k = some pos →
    k ≤ pos ∧ pos < k + ctx.length
  | [], _, _, _, h => by simp [ctxPosition] at h
  | b :: bs, id, k, pos, h => by
    simp only [ctxPosition] at h
    split at h
    · cases h; simp
    · have := ctxPosition_lt bs id (k + 1) pos h
      simp only [List.length_cons]; omega

theorem post_variableTemporary_src (ctx : Ctx) (id : Nat) :
    Post (variableTemporary .snd ctx id) (PrintSrc ctx) := by
  unfold variableTemporary
  split
  · rename_i pos hpos
    have := ctxPosition_lt ctx id 0 pos hpos
    exact Post.liftE fun t h => ⟨pos, by omega, by simpa [TempNum.toNat] using h⟩
  · exact Post.throw

/-- a print source is a variable temporary below the first free register -/
theorem PrintSrc.tempOK {ctx : Ctx} {t : Temporary} (h : PrintSrc ctx t) :
    TempOK t ∧ ∀ r, t = .reg r → r < 2 * ctx.length + 4 := by
  obtain ⟨pos, hpos, ht⟩ := h
  unfold temporaryFromPosition at ht
  dsimp only at ht
  have hR : RESERVED = 4 := rfl
  have hN : REGISTER_NUM = 16 := rfl
  have hS : RESERVED_SPILLS = 1 := rfl
  have hM : SPILL_NUM = 256 := rfl
  by_cases h1 : 2 * pos + 1 + RESERVED < REGISTER_NUM
  · rw [if_pos h1] at ht; cases ht
    refine ⟨⟨by omega, by omega⟩, fun r hr => ?_⟩
    cases hr; omega
  · rw [if_neg h1] at ht
    by_cases h2 : 2 * pos + 1 + RESERVED - REGISTER_NUM + RESERVED_SPILLS < SPILL_NUM
    · rw [if_pos h2] at ht; cases ht
      exact ⟨⟨by omega, by omega⟩, fun r hr => by cases hr⟩
    · rw [if_neg h2] at ht; cases ht

/-! ## the methods of code.rs / parallel_moves.rs: only plain instructions -/

section Methods

/-- all codes of the list are plain instructions of integer programs -/
abbrev AllInt (l : List Code) : Prop := l.all plainInt = true

theorem allInt_append {a b : List Code} (ha : AllInt a) (hb : AllInt b) : AllInt (a ++ b) := by
  unfold AllInt at *; rw [List.all_append, ha, hb]; rfl

theorem labOK_ne {l : String} (h : l ≠ "asm_main") : (l != "asm_main") = true := by
  simpa using h

/-- unfold everything and let `omega` check the register numbers -/
macro "pl" : tactic =>
  `(tactic| (simp [AllInt, plainInt, plainCC, isStackOp, codeWrites, codeMems, isIndirect, codeJumpRef,
      STACK_eq, TEMP_eq, RETURN1_eq, RETURN2_eq, slotOK_stackOffset, OpndOK, *] <;> omega))

theorem allInt_moveFromRegister {t : Temporary} {r : Nat} (ht : OpndOK t) : AllInt (moveFromRegister t r) := by
  cases t <;> simp only [OpndOK] at ht <;> simp only [moveFromRegister] <;> pl

theorem allInt_moveToRegister {r : Nat} {t : Temporary} (hr : 1 ≤ r) (ht : OpndOK t) :
    AllInt (moveToRegister r t) := by
  cases t <;> simp only [OpndOK] at ht <;> simp only [moveToRegister] <;> pl

theorem allInt_addToRegister {r : Nat} {t : Temporary} (hr : 1 ≤ r) (ht : OpndOK t) :
    AllInt (addToRegister r t) := by
  cases t <;> simp only [OpndOK] at ht <;> simp only [addToRegister] <;> pl

theorem allInt_addToSpill {p : Nat} {t : Temporary} (hp : p < 256) (ht : OpndOK t) :
    AllInt (addToSpill p t) := by
  cases t <;> simp only [OpndOK] at ht <;> simp only [addToSpill] <;> pl

theorem allInt_mulToRegister {r : Nat} {t : Temporary} (hr : 1 ≤ r) (ht : OpndOK t) :
    AllInt (mulToRegister r t) := by
  cases t <;> simp only [OpndOK] at ht <;> simp only [mulToRegister] <;> pl

theorem allInt_mulToSpill {p : Nat} {t : Temporary} (hp : p < 256) (ht : OpndOK t) :
    AllInt (mulToSpill p t) := by
  cases t <;> simp only [OpndOK] at ht <;> simp only [mulToSpill] <;> pl

theorem allInt_subToRegister {r : Nat} {t : Temporary} (hr : 1 ≤ r) (ht : OpndOK t) :
    AllInt (subToRegister r t) := by
  cases t <;> simp only [OpndOK] at ht <;> simp only [subToRegister] <;> pl

theorem allInt_subToSpill {p : Nat} {t : Temporary} (hp : p < 256) (ht : OpndOK t) :
    AllInt (subToSpill p t) := by
  cases t <;> simp only [OpndOK] at ht <;> simp only [subToSpill] <;> pl

theorem allInt_single {c : Code} (h : plainInt c = true) : AllInt [c] := by
  simp [AllInt, h]

theorem allInt_MOVS_slot {r p : Nat} (hp : p < 256) : AllInt [Code.MOVS r STACK (stackOffset p)] := by pl

theorem allInt_MOV {r r1 : Nat} (hr : 1 ≤ r) : AllInt [Code.MOV r r1] := by pl

theorem allInt_opCommutative {f : Reg → Temporary → List Code} {g : Nat → Temporary → List Code}
    (hf : ∀ r t, 1 ≤ r → OpndOK t → AllInt (f r t)) (hg : ∀ p t, p < 256 → OpndOK t → AllInt (g p t))
    {t s1 s2 : Temporary} (ht : OpndOK t) (h1 : OpndOK s1) (h2 : OpndOK s2) :
    AllInt (opCommutative f g t s1 s2) := by
  cases t with
  | reg r =>
    have hr : 1 ≤ r := ht.1
    simp only [opCommutative]
    split
    · exact hf _ _ hr h2
    · split
      · exact hf _ _ hr h1
      · exact allInt_append (allInt_moveToRegister hr h1) (hf _ _ hr h2)
  | spill p =>
    have hp : p < 256 := ht
    simp only [opCommutative]
    split
    · exact hg _ _ hp h2
    · split
      · exact hg _ _ hp h1
      · exact allInt_append (allInt_append (allInt_moveToRegister (by decide) h1) (hf _ _ (by decide) h2))
          (allInt_MOVS_slot hp)

theorem allInt_add {t s1 s2 : Temporary} (ht : OpndOK t) (h1 : OpndOK s1) (h2 : OpndOK s2) :
    AllInt (add t s1 s2) :=
  allInt_opCommutative (fun _ _ => allInt_addToRegister) (fun _ _ => allInt_addToSpill) ht h1 h2

theorem allInt_mul {t s1 s2 : Temporary} (ht : OpndOK t) (h1 : OpndOK s1) (h2 : OpndOK s2) :
    AllInt (mul t s1 s2) :=
  allInt_opCommutative (fun _ _ => allInt_mulToRegister) (fun _ _ => allInt_mulToSpill) ht h1 h2

theorem allInt_sub {t s1 s2 : Temporary} (ht : OpndOK t) (h1 : OpndOK s1) (h2 : OpndOK s2) :
    AllInt (sub t s1 s2) := by
  cases t with
  | reg r =>
    have hr : 1 ≤ r := ht.1
    simp only [sub]
    split
    · exact allInt_subToRegister hr h2
    · split
      · exact allInt_append (allInt_append (allInt_moveToRegister (by decide) h1)
          (allInt_subToRegister (by decide) h2)) (allInt_MOV hr)
      · exact allInt_append (allInt_moveToRegister hr h1) (allInt_subToRegister hr h2)
  | spill p =>
    have hp : p < 256 := ht
    simp only [sub]
    split
    · exact allInt_subToSpill hp h2
    · exact allInt_append (allInt_append (allInt_moveToRegister (by decide) h1)
        (allInt_subToRegister (by decide) h2)) (allInt_MOVS_slot hp)

theorem allInt_divBy {t : Temporary} (ht : OpndOK t) : AllInt (divBy t) := by
  cases t with
  | reg r => simp only [divBy]; split <;> pl
  | spill p => simp only [OpndOK] at ht; simp only [divBy]; pl

theorem allInt_div {t s1 s2 : Temporary} (ht : OpndOK t) (h1 : OpndOK s1) (h2 : OpndOK s2) :
    AllInt (div t s1 s2) := by
  unfold div
  exact allInt_append (allInt_append (allInt_append (allInt_append (allInt_append (allInt_append (allInt_append
    (allInt_MOV (by decide)) (allInt_moveFromRegister ht)) (allInt_moveToRegister (by decide) h1))
    (allInt_divBy h2)) (allInt_MOV (by decide))) (allInt_moveToRegister (by decide) ht))
    (allInt_moveFromRegister ht)) (allInt_MOV (by decide))

theorem allInt_rem {t s1 s2 : Temporary} (ht : OpndOK t) (h1 : OpndOK s1) (h2 : OpndOK s2) :
    AllInt (rem t s1 s2) := by
  unfold rem
  exact allInt_append (allInt_append (allInt_append (allInt_append (allInt_append (allInt_append
    (allInt_MOV (by decide)) (allInt_moveFromRegister ht)) (allInt_moveToRegister (by decide) h1))
    (allInt_divBy h2)) (allInt_moveToRegister (by decide) ht))
    (allInt_moveFromRegister ht)) (allInt_MOV (by decide))

theorem allInt_binop (o : BinOp) {t s1 s2 : Temporary} (ht : OpndOK t) (h1 : OpndOK s1) (h2 : OpndOK s2) :
    AllInt (binop o t s1 s2) := by
  cases o with
  | sum => exact allInt_add ht h1 h2
  | sub => exact allInt_sub ht h1 h2
  | prod => exact allInt_mul ht h1 h2
  | div => exact allInt_div ht h1 h2
  | rem => exact allInt_rem ht h1 h2

theorem allInt_mov {t s : Temporary} (ht : OpndOK t) (hs : OpndOK s) : AllInt (mov t s) := by
  cases s with
  | reg r => exact allInt_moveFromRegister ht
  | spill p =>
    cases t with
    | reg q => exact allInt_moveToRegister ht.1 hs
    | spill q =>
      exact allInt_append (allInt_moveToRegister (by decide) hs) (allInt_moveFromRegister ht)

theorem allInt_compare {a b : Temporary} (ha : OpndOK a) (hb : OpndOK b) : AllInt (compare a b) := by
  cases a <;> cases b <;> simp only [OpndOK] at ha hb <;> simp only [compare] <;> pl

theorem allInt_compareImmediate {a : Temporary} (ha : OpndOK a) (i : Int) : AllInt (compareImmediate a i) := by
  cases a <;> simp only [OpndOK] at ha <;> simp only [compareImmediate] <;> pl

theorem allInt_condJump (sort : IfSort) {l : String} (hl : l ≠ "asm_main") : AllInt [condJump sort l] := by
  cases sort <;> simp [AllInt, condJump, plainInt, plainCC, isStackOp, codeWrites, codeMems, isIndirect,
    codeJumpRef, hl]

theorem allInt_jumpLabelIf (sort : IfSort) {a b : Temporary} (ha : OpndOK a) (hb : OpndOK b) {l : String}
    (hl : l ≠ "asm_main") : AllInt (jumpLabelIf sort a b l) :=
  allInt_append (allInt_compare ha hb) (allInt_condJump sort hl)

theorem allInt_jumpLabelIfZero (sort : IfSort) {a : Temporary} (ha : OpndOK a) {l : String}
    (hl : l ≠ "asm_main") : AllInt (jumpLabelIfZero sort a l) :=
  allInt_append (allInt_compareImmediate ha 0) (allInt_condJump sort hl)

theorem allInt_loadImmediate {t : Temporary} (ht : OpndOK t) (n : Int) : AllInt (loadImmediate t n) := by
  cases t with
  | reg r => simp only [OpndOK] at ht; simp only [loadImmediate]; pl
  | spill p => simp only [OpndOK] at ht; simp only [loadImmediate]; split <;> pl

theorem allInt_storeTemporary {t : Temporary} (ht : OpndOK t) (sp : Bool) : AllInt (storeTemporary t sp) := by
  cases t <;> simp only [OpndOK] at ht <;> simp only [storeTemporary] <;> cases sp <;>
    simp [AllInt, plainInt, plainCC, isStackOp, codeWrites, codeMems, isIndirect, codeJumpRef,
      STACK_eq, TEMP_eq, slotOK_stackOffset, SPILL_TEMP, consts, *]

theorem allInt_restoreTemporary {t : Temporary} (ht : OpndOK t) (sp : Bool) : AllInt (restoreTemporary t sp) := by
  cases t <;> simp only [OpndOK] at ht <;> simp only [restoreTemporary] <;> cases sp <;>
    simp [AllInt, plainInt, plainCC, isStackOp, codeWrites, codeMems, isIndirect, codeJumpRef,
      STACK_eq, TEMP_eq, slotOK_stackOffset, SPILL_TEMP, consts, *] <;> omega

/-! ## memory.rs and the indirect-control methods: plain instructions (general programs) -/

abbrev AllCC (l : List Code) : Prop := l.all plainCC = true

theorem allCC_of_allInt {l : List Code} (h : AllInt l) : AllCC l := by
  unfold AllCC AllInt at *
  rw [List.all_eq_true] at *
  exact fun c hc => plainCC_of_plainInt (h c hc)

theorem allCC_append {a b : List Code} (ha : AllCC a) (hb : AllCC b) : AllCC (a ++ b) := by
  unfold AllCC at *; rw [List.all_append, ha, hb]; rfl

theorem allCC_cons {c : Code} {l : List Code} (hc : plainCC c = true) (hl : AllCC l) : AllCC (c :: l) := by
  unfold AllCC at *; rw [List.all_cons, hc, hl]; rfl

theorem allCC_nil : AllCC [] := rfl

theorem allCC_ite {c : Prop} [Decidable c] {a b : List Code} (ha : AllCC a) (hb : AllCC b) :
    AllCC (if c then a else b) := by split <;> assumption

theorem HEAP_eq2 : HEAP = 2 := rfl
theorem FREE_eq2 : FREE = 3 := rfl

macro "plc" : tactic =>
  `(tactic| (simp [AllCC, plainCC, isStackOp, codeWrites, codeMems,
      STACK_eq, TEMP_eq, RETURN1_eq, RETURN2_eq, HEAP_eq2, FREE_eq2, slotOK_stackOffset, OpndOK, *] <;> omega))

theorem plainCC_COMMENT (m : String) : plainCC (.COMMENT m) = true := rfl
theorem plainCC_LAB (m : String) : plainCC (.LAB m) = true := rfl

theorem allCC_jump {t : Temporary} (ht : OpndOK t) : AllCC (jump t) := by
  cases t <;> simp only [OpndOK] at ht <;> simp only [jump] <;> plc

theorem allCC_loadLabel {t : Temporary} (ht : OpndOK t) (l : String) : AllCC (loadLabel t l) := by
  cases t <;> simp only [OpndOK] at ht <;> simp only [loadLabel] <;> plc

theorem allCC_addAndJump {t : Temporary} (ht : OpndOK t) (k : Int) : AllCC (addAndJump t k) := by
  cases t <;> simp only [OpndOK] at ht <;> simp only [addAndJump] <;> plc

abbrev PostCC (m : GenM (List Code)) : Prop := Post m AllCC

theorem postCC_skipIfZero {cond : Temporary} (hc : OpndOK cond) {body : List Code} (hb : AllCC body) :
    PostCC (skipIfZero cond body) := by
  unfold skipIfZero
  exact Post.bind (Post.true _) fun l _ => Post.pure
    (allCC_append (allCC_append (allCC_append (allCC_of_allInt (allInt_compareImmediate hc 0))
      (by plc)) hb) (by plc))

theorem postCC_ifZeroThenElse {cond : Nat} (hc : 1 ≤ cond) (offset : Option Int) {tb eb : List Code}
    (ht : AllCC tb) (he : AllCC eb) : PostCC (ifZeroThenElse cond offset tb eb) := by
  unfold ifZeroThenElse
  refine Post.bind (Post.true _) fun l1 _ => Post.bind (Post.true _) fun l2 _ => Post.pure ?_
  have hcmp : plainCC (match offset with
      | some off => Code.CMPIM cond off 0
      | none => Code.CMPI cond 0) = true := by
    cases offset <;> simp [plainCC, isStackOp, codeWrites, codeMems] <;> omega
  exact allCC_append (allCC_append (allCC_append (allCC_append
    (allCC_cons hcmp (by plc)) he) (by plc)) ht) (by plc)

theorem postCC_eraseValidObject {r : Nat} (hr : 1 ≤ r) : PostCC (eraseValidObject r) := by
  unfold eraseValidObject
  exact postCC_ifZeroThenElse hr _ (by plc) (by plc)

theorem opndOK_TEMP : OpndOK (.reg TEMP) := ⟨by decide, by decide⟩

theorem postCC_eraseBlock {t : Temporary} (ht : OpndOK t) : PostCC (eraseBlock t) := by
  unfold eraseBlock
  cases t with
  | reg r =>
    exact Post.bind (postCC_eraseValidObject ht.1) fun c hc =>
      postCC_skipIfZero ht (allCC_append (by plc) hc)
  | spill p =>
    simp only [OpndOK] at ht
    exact Post.bind (postCC_eraseValidObject (by decide)) fun c hc =>
      Post.bind (postCC_skipIfZero opndOK_TEMP (allCC_append (by plc) hc)) fun r hr =>
        Post.pure (allCC_append (by plc) hr)

theorem postCC_shareBlockN {t : Temporary} (ht : OpndOK t) (n : Nat) : PostCC (shareBlockN t n) := by
  unfold shareBlockN
  cases t with
  | reg r =>
    have := ht.1
    exact postCC_skipIfZero ht (by plc)
  | spill p =>
    have hp : p < 256 := ht
    exact postCC_skipIfZero ht (by plc)

theorem postCC_eraseFields {r : Nat} (hr : 1 ≤ r) : ∀ (n offset : Nat), PostCC (eraseFields r n offset)
  | 0, _ => by unfold eraseFields; exact Post.pure allCC_nil
  | n + 1, offset => by
    unfold eraseFields
    exact Post.bind (postCC_eraseBlock opndOK_TEMP) fun c hc =>
      Post.bind (postCC_eraseFields hr n (offset + 1)) fun rest hrest =>
        Post.pure (allCC_append (allCC_append (by plc) hc) hrest)

theorem postCC_acquireBlock {t : Temporary} (ht : OpndOK t) : PostCC (acquireBlock t) := by
  unfold acquireBlock
  dsimp only
  have hhead : ∀ (u : Temporary), OpndOK u → AllCC (match u with
      | .reg newBlockRegister => [Code.MOV newBlockRegister HEAP]
      | .spill newBlockPosition => [Code.MOV TEMP HEAP, Code.MOVS HEAP STACK (stackOffset newBlockPosition)]) := by
    intro u hu
    cases u <;> simp only [OpndOK] at hu <;> plc
  have hinit : ∀ (u : Temporary), OpndOK u → plainCC (match u with
      | .reg newBlockRegister => Code.MOVIM newBlockRegister REFERENCE_COUNT_OFFSET 0
      | .spill _ => Code.MOVIM TEMP REFERENCE_COUNT_OFFSET 0) = true := by
    intro u hu
    cases u <;> simp only [OpndOK] at hu <;> simp [plainCC, isStackOp, codeWrites, codeMems, TEMP_eq] <;> omega
  refine Post.bind (postCC_eraseFields (r := HEAP) (by decide) FIELDS_PER_BLOCK 0) fun erased he => ?_
  refine Post.bind (postCC_ifZeroThenElse (cond := FREE) (by decide) none (by plc)
    (allCC_append (by plc) he)) fun inner hi => ?_
  refine Post.bind (postCC_ifZeroThenElse (cond := HEAP) (by decide) none
    (allCC_append (by plc) hi) (allCC_cons rfl (allCC_cons (hinit t ht) allCC_nil))) fun outer ho => ?_
  exact Post.pure (allCC_append (allCC_append (hhead t ht) (by plc)) ho)

theorem allCC_releaseBlock {r : Nat} (hr : 1 ≤ r) : AllCC (releaseBlock r) := by
  simp only [releaseBlock]; plc

theorem allCC_storeZero {r : Nat} (hr : 1 ≤ r) (off : Nat) : AllCC (storeZero r off) := by
  simp only [storeZero]; plc

theorem allCC_storeZeros {r : Nat} (hr : 1 ≤ r) (k : Nat) : AllCC (storeZeros k r) := by
  unfold AllCC
  rw [List.all_eq_true]
  intro code hc
  simp only [storeZeros, List.mem_flatten, List.mem_map, List.mem_range] at hc
  obtain ⟨l, ⟨off, hoff, rfl⟩, hcl⟩ := hc
  exact List.all_eq_true.1 (allCC_storeZero hr off) code hcl

theorem postCC_storeField (n : TempNum) (ctx : Ctx) {r : Nat} (hr : 1 ≤ r) (off : Nat) :
    PostCC (storeField n ctx r off) := by
  unfold storeField
  refine Post.bind (post_freshTemporary n ctx) fun t ht => ?_
  cases t <;> simp only [OpndOK] at ht <;> exact Post.pure (by plc)

theorem postCC_loadField (n : TempNum) (ctx : Ctx) {r : Nat} (hr : 1 ≤ r) (off : Nat) :
    PostCC (loadField n ctx r off) := by
  unfold loadField
  refine Post.bind (post_freshTemporary n ctx) fun t ht => ?_
  cases t <;> simp only [OpndOK] at ht <;> exact Post.pure (by plc)

theorem postCC_storeValue (b : Binding) (ctx : Ctx) {r : Nat} (hr : 1 ≤ r) (off : Nat) :
    PostCC (storeValue b ctx r off) := by
  unfold storeValue
  refine Post.bind (postCC_storeField .snd ctx hr off) fun c1 h1 => ?_
  split
  · exact Post.pure (allCC_append h1 (allCC_storeZero hr off))
  · exact Post.bind (postCC_storeField .fst ctx hr off) fun c2 h2 => Post.pure (allCC_append h1 h2)

theorem postCC_shareBlock {t : Temporary} (ht : OpndOK t) : PostCC (shareBlock t) := postCC_shareBlockN ht 1

theorem postCC_loadValue (b : Binding) (ctx : Ctx) {r : Nat} (hr : 1 ≤ r) (off : Nat)
    (mode : LoadMode) : PostCC (loadValue b ctx r off mode) := by
  unfold loadValue
  refine Post.bind (postCC_loadField .snd ctx hr off) fun c1 h1 => ?_
  split
  · refine Post.bind (postCC_loadField .fst ctx hr off) fun c2 h2 => ?_
    refine Post.bind (post_freshTemporary .fst ctx) fun t ht => ?_
    have hreg : ∀ (u : Temporary), OpndOK u →
        OpndOK (.reg (match u with | .reg register => register | .spill _ => TEMP)) := by
      intro u hu
      cases u with
      | reg rt => exact hu
      | spill p => exact opndOK_TEMP
    dsimp only
    split
    · exact Post.bind (postCC_shareBlock (hreg t ht)) fun c3 h3 =>
        Post.pure (allCC_append (allCC_append h1 h2) h3)
    · exact Post.pure (allCC_append h1 h2)
  · exact Post.pure h1

theorem postCC_storeValuesLoop (ctx : Ctx) {r : Nat} (hr : 1 ≤ r) : ∀ (l : List Binding) (ff : Nat),
    Post (storeValuesLoop ctx r l ff) (fun res => AllCC res.1)
  | [], ff => by unfold storeValuesLoop; exact Post.pure allCC_nil
  | b :: rest, ff => by
    unfold storeValuesLoop
    refine Post.bind (Post.true _) fun off _ => ?_
    refine Post.bind (postCC_storeValue b _ hr off) fun c hc => ?_
    refine Post.bind (postCC_storeValuesLoop ctx hr rest off) fun res hres => ?_
    obtain ⟨cs, ff'⟩ := res
    exact Post.pure (allCC_append hc hres)

theorem postCC_storeValues (toStore ctx : Ctx) {r : Nat} (hr : 1 ≤ r) (ff : Nat) :
    PostCC (storeValues toStore ctx r ff) := by
  unfold storeValues
  refine Post.bind (postCC_storeValuesLoop ctx hr toStore.reverse ff) fun res hres => ?_
  obtain ⟨cs, ff'⟩ := res
  exact Post.pure (allCC_append (allCC_append (allCC_append (by plc) hres)
    (allCC_ite (by plc) allCC_nil)) (allCC_storeZeros hr _))

theorem postCC_loadValuesLoop (ctx : Ctx) {r : Nat} (hr : 1 ≤ r) (mode : LoadMode) :
    ∀ (l : List Binding) (ff : Nat), PostCC (loadValuesLoop ctx r mode l ff)
  | [], ff => by unfold loadValuesLoop; exact Post.pure allCC_nil
  | b :: rest, ff => by
    unfold loadValuesLoop
    refine Post.bind (Post.true _) fun off _ => ?_
    refine Post.bind (postCC_loadValue b _ hr off mode) fun c hc => ?_
    exact Post.bind (postCC_loadValuesLoop ctx hr mode rest off) fun cs hcs =>
      Post.pure (allCC_append hc hcs)

theorem postCC_loadValues (toLoad ctx : Ctx) {r : Nat} (hr : 1 ≤ r) (ff : Nat)
    (mode : LoadMode) : PostCC (loadValues toLoad ctx r ff mode) := by
  unfold loadValues
  exact Post.bind (postCC_loadValuesLoop ctx hr mode toLoad.reverse ff) fun cs hcs =>
    Post.pure (allCC_append (by plc) hcs)

theorem postCC_storeFields : ∀ (fuel : Nat) (toStore ctx : Ctx) (pos : BlockPosition),
    PostCC (storeFields fuel toStore ctx pos)
  | 0, _, _, _ => by unfold storeFields; exact Post.throw
  | fuel + 1, toStore, ctx, pos => by
    have hHEAP : 1 ≤ HEAP := by decide
    unfold storeFields
    split
    · split
      · exact Post.bind (post_freshTemporary .fst ctx) fun t ht =>
          Post.pure (allCC_append (by plc) (allCC_of_allInt (allInt_loadImmediate ht 0)))
      · exact Post.pure allCC_nil
    · dsimp only
      split
      · refine Post.bind (postCC_storeField .fst _ hHEAP _) fun c hc =>
          Post.bind (Post.pure (allCC_append (allCC_cons (plainCC_COMMENT _) allCC_nil) hc)) fun c1 h1 => ?_
        refine Post.bind (postCC_storeValues _ _ hHEAP _) fun c3 h3 => ?_
        refine Post.bind (post_freshTemporary .fst _) fun t ht => ?_
        refine Post.bind (postCC_acquireBlock ht) fun c4 h4 => ?_
        refine Post.bind (postCC_storeFields fuel _ ctx .other) fun c5 h5 => ?_
        exact Post.pure (allCC_append (allCC_append (allCC_append (allCC_append
          (allCC_append h1 (allCC_ite (by plc) allCC_nil)) h3) (by plc)) h4) h5)
      · refine Post.bind (Post.pure allCC_nil) fun c1 h1 => ?_
        refine Post.bind (postCC_storeValues _ _ hHEAP _) fun c3 h3 => ?_
        refine Post.bind (post_freshTemporary .fst _) fun t ht => ?_
        refine Post.bind (postCC_acquireBlock ht) fun c4 h4 => ?_
        refine Post.bind (postCC_storeFields fuel _ ctx .other) fun c5 h5 => ?_
        exact Post.pure (allCC_append (allCC_append (allCC_append (allCC_append
          (allCC_append h1 (allCC_ite (by plc) allCC_nil)) h3) (by plc)) h4) h5)

theorem postCC_store (toStore ctx : Ctx) : PostCC (store toStore ctx) :=
  postCC_storeFields _ _ _ _

theorem postCC_loadFieldsBlock {r : Nat} (hr : 1 ≤ r) (toLoadNext c1 c2 : Ctx) (pos : BlockPosition)
    (mode : LoadMode) : PostCC (loadFieldsBlock r toLoadNext c1 c2 pos mode) := by
  unfold loadFieldsBlock
  have h1 : AllCC (if mode = .release then
      [Code.COMMENT "###release block"] ++ releaseBlock r else []) :=
    allCC_ite (allCC_append (by plc) (allCC_releaseBlock hr)) allCC_nil
  dsimp only
  split
  · refine Post.bind (postCC_loadField .fst _ hr _) fun c hc =>
      Post.bind (Post.pure (allCC_append (allCC_cons (plainCC_COMMENT _) allCC_nil) hc)) fun c2' h2 => ?_
    exact Post.bind (postCC_loadValues _ _ hr _ mode) fun c3 h3 =>
      Post.pure (allCC_append (allCC_append h1 h2) h3)
  · refine Post.bind (Post.pure allCC_nil) fun c2' h2 => ?_
    exact Post.bind (postCC_loadValues _ _ hr _ mode) fun c3 h3 =>
      Post.pure (allCC_append (allCC_append h1 h2) h3)

theorem postCC_loadFields : ∀ (fuel : Nat) (toLoad ctx : Ctx) (pos : BlockPosition) (mode : LoadMode)
    (freed : Bool), Post (loadFields fuel toLoad ctx pos mode freed) (fun res => AllCC res.1)
  | 0, _, _, _, _, _ => by unfold loadFields; exact Post.throw
  | fuel + 1, toLoad, ctx, pos, mode, freed => by
    unfold loadFields
    split
    · exact Post.pure allCC_nil
    · refine Post.bind (postCC_loadFields fuel _ ctx .other mode freed) fun res hres => ?_
      obtain ⟨c0, freed'⟩ := res
      refine Post.bind (post_freshTemporary .fst _) fun t ht => ?_
      cases t with
      | reg r =>
        exact Post.bind (postCC_loadFieldsBlock ht.1 _ _ _ pos mode) fun c hc =>
          Post.pure (allCC_append hres hc)
      | spill p =>
        simp only [OpndOK] at ht
        refine Post.bind (postCC_loadFieldsBlock (r := TEMPORARY_TEMP) (by decide) _ _ _ pos mode) fun c hc => ?_
        refine Post.pure (allCC_append (allCC_append (allCC_append (allCC_append hres ?_)
          ?_) hc) ?_)
        · exact allCC_ite (by simp [AllCC, plainCC, isStackOp, codeWrites, codeMems, STACK_eq, slotOK_stackOffset, SPILL_TEMP, consts]) allCC_nil
        · simp [AllCC, plainCC, isStackOp, codeWrites, codeMems, STACK_eq, slotOK_stackOffset, TEMPORARY_TEMP, consts, ht]
        · exact allCC_ite (by simp [AllCC, plainCC, isStackOp, codeWrites, codeMems, STACK_eq, slotOK_stackOffset, SPILL_TEMP, TEMPORARY_TEMP, consts]) allCC_nil

theorem postCC_loadRegister {r : Nat} (hr : 1 ≤ r) (toLoad ctx : Ctx) :
    PostCC (loadRegister r toLoad ctx) := by
  unfold loadRegister
  refine Post.bind (postCC_loadFields _ toLoad ctx .last .release false) fun res1 h1 => ?_
  obtain ⟨cThen, f1⟩ := res1
  refine Post.bind (postCC_loadFields _ toLoad ctx .last .share false) fun res2 h2 => ?_
  obtain ⟨cElse, f2⟩ := res2
  refine Post.bind (postCC_ifZeroThenElse hr _
    (allCC_append (by plc) h1)
    (allCC_append (by plc) h2))
    fun c hc => Post.pure (allCC_append (by plc) hc)

theorem postCC_load (toLoad ctx : Ctx) : PostCC (load toLoad ctx) := by
  unfold load
  split
  · exact Post.pure allCC_nil
  · refine Post.bind (post_freshTemporary .fst ctx) fun t ht => ?_
    cases t with
    | reg r =>
      exact Post.bind (postCC_loadRegister ht.1 toLoad ctx) fun c hc =>
        Post.pure (allCC_append (by plc) hc)
    | spill p =>
      simp only [OpndOK] at ht
      exact Post.bind (postCC_loadRegister (r := TEMP) (by decide) toLoad ctx) fun c hc =>
        Post.pure (allCC_append (by plc) hc)

end Methods

/-! ## label names -/

theorem append_ne_prefix {p x t : String} (h : (p.toList.isPrefixOf t.toList) = false) : p ++ x ≠ t := by
  intro e
  have h2 := congrArg String.toList e
  rw [String.toList_append] at h2
  have : p.toList <+: t.toList := ⟨x.toList, h2⟩
  rw [← List.isPrefixOf_iff_prefix] at this
  rw [this] at h
  cases h

theorem append_ne_suffix {x s t : String} (h : (s.toList.isSuffixOf t.toList) = false) : x ++ s ≠ t := by
  intro e
  have h2 := congrArg String.toList e
  rw [String.toList_append] at h2
  have : s.toList <:+ t.toList := ⟨x.toList, h2⟩
  rw [← List.isSuffixOf_iff_suffix] at this
  rw [this] at h
  cases h

/-- labels that may be the target of a direct jump in a body: not the routine entry -/
def LabOK (l : String) : Prop := l ≠ "asm_main"

theorem labOK_def (x : Ident) : LabOK (x.print ++ "_") := append_ne_suffix (by decide)
theorem labOK_cleanup : LabOK "cleanup" := by unfold LabOK; decide
theorem labOK_fresh (s : String) : LabOK ("lab" ++ s) := append_ne_prefix (by decide)

/-! ## the instances of the generic lifting -/

theorem ccShape_ofInt {l : List Code} (h : AllInt l) : CCShape plainInt l := CCShape.ofAll h
theorem ccShape_ofCC {l : List Code} (h : AllCC l) : CCShape plainCC l := CCShape.ofAll h

/-- INTEGER programs: every method that the generator reaches emits plain instructions of integer
    programs, except `print_i64`, which emits one print block -/
theorem opsShape_x86_int :
    OpsShape x86Backend (CCShape plainInt) OpndOK PrintSrc LabOK False where
  nil := .nil
  append := CCShape.append
  temp := opndOK_temp
  return1 := (⟨by decide, by decide⟩ : OpndOK (.reg RETURN1))
  vt := post_variableTemporary
  vtSrc := post_variableTemporary_src
  labDef := labOK_def
  labCleanup := labOK_cleanup
  labFresh := labOK_fresh
  comment := fun _ => ccShape_ofInt rfl
  label := fun _ => ccShape_ofInt rfl
  jumpLabel := fun l hl => ccShape_ofInt (by
    show AllInt [Code.JMPL l]
    simp [AllInt, plainInt, plainCC, isStackOp, codeWrites, codeMems, isIndirect, codeJumpRef]
    exact hl)
  jumpLabelIf := fun s _ _ _ ha hb hl => ccShape_ofInt (allInt_jumpLabelIf s ha hb hl)
  jumpLabelIfZero := fun s _ _ ha hl => ccShape_ofInt (allInt_jumpLabelIfZero s ha hl)
  loadImmediate := fun _ n ht => ccShape_ofInt (allInt_loadImmediate ht n)
  binop := fun o _ _ _ ht h1 h2 => ccShape_ofInt (allInt_binop o ht h1 h2)
  mov := fun _ _ ht hs => ccShape_ofInt (allInt_mov ht hs)
  printI64 := fun nl _ ctx _ hs => Post.pure (CCShape.printBlock hs)
  storeTemporary := fun _ sp ht => ccShape_ofInt (allInt_storeTemporary ht sp)
  restoreTemporary := fun _ sp ht => ccShape_ofInt (allInt_restoreTemporary ht sp)
  jump := fun h => h.elim
  jumpLabelFixed := fun h => h.elim
  loadLabel := fun h => h.elim
  addAndJump := fun h => h.elim
  eraseBlock := fun h => h.elim
  shareBlockN := fun h => h.elim
  store := fun h => h.elim
  load := fun h => h.elim

theorem ccShape_cc_ofInt {l : List Code} (h : AllInt l) : CCShape plainCC l :=
  CCShape.ofAll (allCC_of_allInt h)

/-- ALL programs -/
theorem opsShape_x86 :
    OpsShape x86Backend (CCShape plainCC) OpndOK PrintSrc (fun _ => True) True where
  nil := .nil
  append := CCShape.append
  temp := opndOK_temp
  return1 := (⟨by decide, by decide⟩ : OpndOK (.reg RETURN1))
  vt := post_variableTemporary
  vtSrc := post_variableTemporary_src
  labDef := fun _ => trivial
  labCleanup := trivial
  labFresh := fun _ => trivial
  comment := fun _ => ccShape_ofCC rfl
  label := fun _ => ccShape_ofCC rfl
  jumpLabel := fun l _ => ccShape_ofCC (by show AllCC [Code.JMPL l]; rfl)
  jumpLabelIf := fun s a b l ha hb _ => ccShape_ofCC (allCC_append (allCC_of_allInt (allInt_compare ha hb))
    (by cases s <;> rfl))
  jumpLabelIfZero := fun s a l ha _ => ccShape_ofCC (allCC_append (allCC_of_allInt (allInt_compareImmediate ha 0))
    (by cases s <;> rfl))
  loadImmediate := fun _ n ht => ccShape_cc_ofInt (allInt_loadImmediate ht n)
  binop := fun o _ _ _ ht h1 h2 => ccShape_cc_ofInt (allInt_binop o ht h1 h2)
  mov := fun _ _ ht hs => ccShape_cc_ofInt (allInt_mov ht hs)
  printI64 := fun nl _ ctx _ hs => Post.pure (CCShape.printBlock hs)
  storeTemporary := fun _ sp ht => ccShape_cc_ofInt (allInt_storeTemporary ht sp)
  restoreTemporary := fun _ sp ht => ccShape_cc_ofInt (allInt_restoreTemporary ht sp)
  jump := fun _ _ ht => ccShape_ofCC (allCC_jump ht)
  jumpLabelFixed := fun _ l => ccShape_ofCC (by show AllCC [Code.JMPLN l]; rfl)
  loadLabel := fun _ _ l ht => ccShape_ofCC (allCC_loadLabel ht l)
  addAndJump := fun _ _ k ht => ccShape_ofCC (allCC_addAndJump ht k)
  eraseBlock := fun _ _ ht => (postCC_eraseBlock ht).mono fun _ => ccShape_ofCC
  shareBlockN := fun _ _ n ht => (postCC_shareBlockN ht n).mono fun _ => ccShape_ofCC
  store := fun _ a b => (postCC_store a b).mono fun _ => ccShape_ofCC
  load := fun _ a b => (postCC_load a b).mono fun _ => ccShape_ofCC

/-- C13 (a), the SHAPE of every compiled body: plain instructions and whole print blocks.  No
    hypothesis on the program: capacity = the compiler succeeds. -/
theorem compile_ccShape {p : AxCut.Prog} {hooks : Bool} {c0 : Nat} {body : List Code} {nargs : Nat}
    (h : compileX86 p hooks c0 = .ok (body, nargs)) : CCShape plainCC body := by
  unfold compileX86 at h
  split at h
  · cases h
  · rename_i r c' hr
    cases h
    exact Scc.Backend.Shape.post_compileR opsShape_x86 hooks Scc.Backend.natRen p (Or.inl trivial) c0 _ c' hr

/-- the same for integer programs, with the stronger notion of plain instruction -/
theorem compile_ccShape_int {p : AxCut.Prog} (hp : IntProgC p) {hooks : Bool} {c0 : Nat} {body : List Code}
    {nargs : Nat} (h : compileX86 p hooks c0 = .ok (body, nargs)) : CCShape plainInt body := by
  unfold compileX86 at h
  split at h
  · cases h
  · rename_i r c' hr
    cases h
    exact Scc.Backend.Shape.post_compileR opsShape_x86_int hooks Scc.Backend.natRen p (Or.inr hp) c0 _ c' hr

end Scc.X86
