/-
  Scc.X86.RefClosHX3 — basic facts about the relation `X3R` (RefHeapDefs.lean): it does not look at the
  program counter / step counter of the machine; the roots of `HRef` matter only as a multiset; heads of
  represented objects are addresses inside the heap (so `imgWord` is the word of `imgW`); what `Preserved`
  and `FrameT` preserve of it.
  NOTE (fork): this file is the closure-aware version of Scc/X86/RefHeapX3.lean (same proofs, the
  three-way relation additionally carries the per-instance code-pointer map `κ`), in the namespace
  `Scc.X86.Ref.K`.  The original file is kept unchanged because Scc/X86/Conc*.lean (C09/C10/C13 on concrete
  runs) is built on its definitions.
-/
import Scc.X86.RefClosHTr
import Scc.X86.RefStep
import Scc.X86.MemProofsLoad
import Scc.Props.C09Refine
import Scc.Backend.ProofsRep2

set_option linter.unusedVariables false
set_option linter.unusedSimpArgs false

namespace Scc.X86.Ref.K

open Scc.AxCut Scc.Backend Scc.Backend.Abs Scc.Backend.Sim Scc.X86
open Scc.Heap (HState InvS InvW)
open Scc.Heap.Refine (HRef imgW fieldImg kindB)

/-! ## temporaries of positions -/

theorem posTemp_ne_low (t : Nat) {r : Nat} (hr : r < 4) : posTemp t ≠ .reg r := by
  unfold posTemp
  split
  · intro e; injection e with e; omega
  · intro e; cases e

theorem posTemp_ne_spill0' (t : Nat) : posTemp t ≠ .spill 0 := by
  unfold posTemp
  split
  · intro e; cases e
  · intro e; injection e with e; omega

/-! ## roots as a multiset -/

theorem HRef.roots_congr {h : Heap} {rs rs' : List Nat} {next : Nat} {s : HState} {ι : Nat → Nat}
    (R : HRef h rs next s ι) (hc : ∀ x, rs'.count x = rs.count x) : HRef h rs' next s ι := by
  have hp : rs'.Perm rs := List.perm_iff_count.2 hc
  obtain ⟨lin, lazy, live, F, I⟩ := R.conc
  refine ⟨Scc.Backend.Sim2.heapOK_count_congr R.abs hc, R.ord, ⟨lin, lazy, live, F, ?_⟩, R.shape, R.disj⟩
  exact InvW.roots_congr I (fun b _ => (hp.map ι).count_eq b)

/-! ## heads of objects are heap addresses -/

theorem href_head_lt {h : Heap} {rs : List Nat} {next : Nat} {s : HState} {ι : Nat → Nat}
    (R : HRef h rs next s ι) {e : Nat × Obj} (he : e ∈ h) : ι e.1 + 64 ≤ s.limit := by
  obtain ⟨lin, lazy, live, F, I⟩ := R.conc
  have hl := Scc.Heap.Refine.C09R_chains_live R I e he _ (Scc.Heap.Refine.head_mem_blocksOf (R.shape e he))
  have h1 := I.live_block hl
  have h2 := I.frontier_room
  have h3 := I.frontier_block
  unfold Scc.Heap.IsBlock at h1 h3
  omega

/-- a live reference (a root) -/
theorem href_root_mem {h : Heap} {rs : List Nat} {next : Nat} {s : HState} {ι : Nat → Nat}
    (R : HRef h rs next s ι) {r : Nat} (hr : r ∈ rs) : ∃ o, (r, o) ∈ h := by
  have hrl : (h.get r).isSome := by
    apply R.abs.live
    have : 0 < rs.count r := List.count_pos_iff.mpr hr
    rw [Scc.Backend.Sim2.refCount_eq]; omega
  exact Scc.Backend.Sim.heap_get_isSome_mem hrl

theorem imgWord_toNat {ι : Nat → Nat} {r : Word} (h : r ≠ 0 → ι r.toNat < 2 ^ 64) :
    (imgWord ι r).toNat = imgW ι r := by
  unfold imgWord imgW
  by_cases h0 : r = 0
  · simp [h0]
  · rw [if_neg h0, if_neg h0]
    simp [BitVec.toNat_ofNat, Nat.mod_eq_of_lt (h h0)]

/-! ## the machine side -/

theorem heapRel_setPS {c : MachCfg} {st : State} {hs : HState} (R : HeapRel c st hs) (pc k : Nat) :
    HeapRel c (setPS st pc k) hs := ⟨R.base, R.limit, R.mem, R.heap, R.free⟩

theorem X3R.setPS {F : Frame} {Γ : Ctx} {cfg : Config} {rs : List Nat} {hs : HState} {ι : Nat → Nat} {κ : Nat → Nat → Word}
    {st : State} (X : X3R F Γ cfg rs hs ι κ st) (pc k : Nat) : X3R F Γ cfg rs hs ι κ (setPS st pc k) :=
  ⟨⟨X.bnd.size, X.bnd.rsp, X.bnd.sp⟩, X.cap,
   fun i hi a ha => by rw [tempVal_setPS]; exact X.words i hi a ha,
   fun i hi hc r hr => by rw [tempVal_setPS]; exact X.ptrs i hi hc r hr,
   X.out, X.frame, heapRel_setPS X.hrel pc k, X.href⟩

/-- `X3R` does not look at the abstract program counter -/
theorem X3R.setPc {F : Frame} {Γ : Ctx} {cfg : Config} {rs : List Nat} {hs : HState} {ι : Nat → Nat} {κ : Nat → Nat → Word}
    {st : State} (X : X3R F Γ cfg rs hs ι κ st) (pc : Nat) : X3R F Γ { cfg with pc := pc } rs hs ι κ st :=
  ⟨X.bnd, X.cap, X.words, X.ptrs, X.out, X.frame, X.hrel, X.href⟩

/-- `Preserved` keeps the heap view: the heap memory is the same, HEAP and FREE are no targets -/
theorem heapRel_preserved {c : MachCfg} {sp : Word} {st st' : State} {hs : HState} (R : HeapRel c st hs)
    {u : Option Temporary} (P : Preserved sp st st' u) (h2 : u ≠ some (.reg HEAP)) (h3 : u ≠ some (.reg FREE)) :
    HeapRel c st' hs := by
  refine ⟨R.base, R.limit, ?_, ?_, ?_⟩
  · intro a; rw [P.same.heapMem]; exact R.mem a
  · obtain ⟨w, hw, e⟩ := R.heap
    refine ⟨w, ?_, e⟩
    unfold regIs at hw ⊢
    rw [P.regs HEAP (by decide) (by decide) (fun e => h2 e.symm)]
    exact hw
  · obtain ⟨w, hw, e⟩ := R.free
    refine ⟨w, ?_, e⟩
    unfold regIs at hw ⊢
    rw [P.regs FREE (by decide) (by decide) (fun e => h3 e.symm)]
    exact hw

/-! ## what a step keeps of the positions (for the closure invariant, RefClos*.lean) -/

/-- the first `n` positions are untouched: their abstract temporaries, and the machine's temporaries that
hold their word parts -/
structure KeepPos (F : Frame) (n : Nat) (cfg cfg' : Config) (st st' : State) : Prop where
  temps : ∀ t, t < 2 * n → cfg'.temps.get t = cfg.temps.get t
  mach : ∀ i, i < n → tempVal F.sp st' (posTemp (2 * i + 1)) = tempVal F.sp st (posTemp (2 * i + 1))

theorem mach_keep_some {F : Frame} {st st2 : State} {t0 : Nat} (ht0 : t0 < 267)
    (P : Preserved F.sp st st2 (some (posTemp t0))) {t : Nat} (ht : t < 267) (hne : t ≠ t0) :
    tempVal F.sp st2 (posTemp t) = tempVal F.sp st (posTemp t) := by
  have hok := tempOK_posTemp ht0
  have hlt : ∀ q, some (posTemp t0) = some (Temporary.spill q) → q < 256 := by
    intro q e; injection e with e; rw [e] at hok; exact hok.2
  have hok' := tempOK_posTemp ht
  exact P.temp hok'.opnd hok'.ne_temp (fun e => hne (posTemp_inj.1 (Option.some.inj e))) hlt

theorem mach_keep_none {F : Frame} {st st2 : State} (P : Preserved F.sp st st2 none) {t : Nat} (ht : t < 267) :
    tempVal F.sp st2 (posTemp t) = tempVal F.sp st (posTemp t) := by
  have hok := tempOK_posTemp ht
  exact P.temp hok.opnd hok.ne_temp (by simp) (by simp)

/-- the machine's temporaries of all positions are untouched -/
def MachKeep (F : Frame) (st st' : State) : Prop :=
  ∀ t, t < 267 → tempVal F.sp st' (posTemp t) = tempVal F.sp st (posTemp t)

theorem MachKeep.refl (F : Frame) (st : State) : MachKeep F st st := fun _ _ => rfl

theorem MachKeep.trans {F : Frame} {a b c : State} (h1 : MachKeep F a b) (h2 : MachKeep F b c) : MachKeep F a c :=
  fun t ht => (h2 t ht).trans (h1 t ht)

theorem MachKeep.setPS_right {F : Frame} {a b : State} (h : MachKeep F a b) (pc k : Nat) :
    MachKeep F a (setPS b pc k) := fun t ht => by rw [tempVal_setPS]; exact h t ht

theorem MachKeep.setPS_left {F : Frame} {a b : State} (h : MachKeep F (setPS a pc k) b) : MachKeep F a b :=
  fun t ht => by have := h t ht; rw [tempVal_setPS] at this; exact this

end Scc.X86.Ref.K
