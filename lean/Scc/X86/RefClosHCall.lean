/-
  Scc.X86.RefClosHCall — THREE-WAY SIMULATION of `call` (jump to a definition) and `exit` (result into rax,
  jump to `cleanup`, epilogue, `ret` with a successful exit check) under the typed relation `X3`.
  * `XDefsAt cs hooks prog`: the x86 code of every definition is in the loaded routine behind its label.
  NOTE (fork): this file is the closure-aware version of Scc/X86/RefHeapCall.lean (same proofs, the
  three-way relation additionally carries the per-instance code-pointer map `κ`), in the namespace
  `Scc.X86.Ref.K`.  The original file is kept unchanged because Scc/X86/Conc*.lean (C09/C10/C13 on concrete
  runs) is built on its definitions.
-/
import Scc.X86.RefClosHInt

set_option linter.unusedVariables false
set_option linter.unusedSimpArgs false

namespace Scc.X86.Ref.K

open Scc.AxCut Scc.AxCut.Pos Scc.Backend Scc.Backend.Abs Scc.Backend.Sim Scc.Backend.Sim2 Scc.X86
open Scc.Heap (HState InvS InvW)
open Scc.Heap.Refine (HRef)

/-- every definition's x86 code is in the routine, behind its label -/
def XDefsAt (cs : List Code) (hooks : Bool) (prog : AxCut.Prog) : Prop :=
  ∀ d ∈ prog.defs, ∃ i k k' items, labIdx cs (d.name.print ++ "_") = some i ∧
    cs[i]? = some (Code.LAB (d.name.print ++ "_")) ∧
    (codeStatementR x86Backend hooks natRen prog.types d.body d.ctx).run k = .ok (items, k') ∧
    XAt cs (i + 1) items

/-- the relation depends on the context only through its kinds -/
theorem X3.ctxCongr {F : Frame} {Γ Δ : Ctx} {cfg : Config} {hs : HState} {ι : Nat → Nat} {κ : Nat → Nat → Word} {st : State}
    (X : X3 F Γ cfg hs ι κ st) (hc : Γ.map (·.chi) = Δ.map (·.chi)) : X3 F Δ cfg hs ι κ st := by
  have hlen : Γ.length = Δ.length := by simpa using congrArg List.length hc
  have hchi : ∀ i (h1 : i < Γ.length) (h2 : i < Δ.length), Δ[i].chi = Γ[i].chi := by
    intro i h1 h2
    have := congrArg (fun l => l[i]?) hc
    simp only [List.getElem?_map, List.getElem?_eq_getElem h1, List.getElem?_eq_getElem h2,
      Option.map_some, Option.some.injEq] at this
    exact this.symm
  refine ⟨X.bnd, by rw [← hlen]; exact X.cap, ?_, ?_, X.out, X.frame, X.hrel, ?_⟩
  · intro i hi a ha
    rw [hchi i (by omega) hi]
    exact X.words i (by omega) a ha
  · intro i hi hcx r hr
    exact X.ptrs i (by omega) (by rw [← hchi i (by omega) hi]; exact hcx) r hr
  · have : roots Δ cfg.temps = roots Γ cfg.temps := by
      unfold roots
      exact (roots_go_chi _ Γ Δ 0 hc).symm
    rw [this]
    exact X.href

section Call3

variable {F : Frame} (HF : FrameOK F) {mon : MonCfg} (hmon : mon.mach = F.c)
  {px : X86.Prog} {cs : List Code} (L : Loaded px cs) (hndL : (labs cs).Nodup)

include hmon L in
/-- THREE-WAY SIMULATION OF `call` -/
theorem call_x3 {P : Program} {hooks : Bool} {prog : AxCut.Prog} {Γ : Ctx} {ρ : List Value} {l : Ident}
    {args : Ctx} {cfg : Config} {d : Def}
    (R : RelX P hooks prog ⟨Γ, ρ, .call l args⟩ cfg) (D : DefsAt P hooks prog) (DX : XDefsAt cs hooks prog)
    (hd : Pos.findDef prog.defs l = some d) (hchi : Pos.chiTys Γ = Pos.chiTys d.ctx)
    {hs : HState} {ι : Nat → Nat} {κ : Nat → Nat → Word} {st : State} (X : X3 F Γ cfg hs ι κ st)
    {kx kx' : Nat} {items : List Code}
    (hrunX : (codeStatementR x86Backend hooks natRen prog.types (.call l args) Γ).run kx = .ok (items, kx'))
    (hatX : XAt cs st.pc items) :
    ∃ cfg' st' m, stepsTo P 1 cfg cfg' ∧ stepN mon px m st = .inl st' ∧
      cfg'.out = cfg.out ∧ cfg'.next = cfg.next ∧
      RelX P hooks prog ⟨d.ctx, ρ, d.body⟩ cfg' ∧ X3 F d.ctx cfg' hs ι κ st' ∧
      ∃ k1 k1' items', (codeStatementR x86Backend hooks natRen prog.types d.body d.ctx).run k1 = .ok (items', k1') ∧
        XAt cs st'.pc items' ∧ cfg'.heap = cfg.heap ∧ KeepPos F Γ.length cfg cfg' st st' := by
  obtain ⟨cfg', hst, hout, hnext, R'⟩ := sim2_call R D hd hchi
  have hstep := stepsTo_one_inv hst
  have J : JumpFacts cfg cfg' := by
    obtain ⟨c, c', ops, hrun, hat⟩ := R.code
    simp only [codeStatementR, run_pure_ok] at hrun
    obtain ⟨rfl, rfl⟩ := hrun
    simp only [mockSym_comment, mockSym_jumpLabel, List.append_assoc, CodeAt_hook] at hat
    simp only [List.cons_append, List.nil_append, CodeAt] at hat
    exact step_jumpLabel_facts hat.1 hstep
  have hmem : d ∈ prog.defs := List.mem_of_find?_eq_some hd
  have hname : d.name = l := by
    have := List.find?_some hd
    exact Ident.eq_of_beq this
  obtain ⟨i, k1, k1', ditems, hidx, hlab, hdrun, hdat⟩ := DX d hmem
  -- the x86 code
  simp only [codeStatementR, run_pure_ok] at hrunX
  obtain ⟨rfl, rfl⟩ := hrunX
  generalize hc0 : hookCode x86Backend hooks Γ ++ [x86Backend.comment (l.print ++ "(...)")] = c0 at hatX
  have hc0c : ∀ y ∈ c0, ∃ m', y = Code.COMMENT m' := by rw [← hc0]; exact hook_comments hooks Γ _
  replace hatX : XAt cs st.pc (c0 ++ [Code.JMPL (l.print ++ "_")]) := hatX
  obtain ⟨k0, hk0⟩ := x_steps_straight mon L hatX.left
    (execStraight_comments mon.mach px.labelAddr c0 st hc0c)
  have X0 : X3 F Γ cfg hs ι κ (setPS st (st.pc + c0.length) k0) := X3R.setPS X _ _
  obtain ⟨csa, csb, hcs, hpcA⟩ := hatX.right
  obtain ⟨k2, hk2⟩ := Scc.X86.Ref.step_jump mon L (cs1 := csa) (code := Code.JMPL (l.print ++ "_")) (rest := csb)
    (s := setPS st (st.pc + c0.length) k0) (by rw [hcs]; simp [List.append_assoc]) (by simp [setPS]; exact hpcA.symm)
    (show execCode mon.mach px.labelAddr (Code.JMPL (l.print ++ "_")) _ = .ok (_, .jumpLabel (l.print ++ "_")) from rfl)
    (by rw [← hname]; exact hidx)
  -- the label of the definition
  have hsplit : cs = cs.take i ++ Code.LAB (d.name.print ++ "_") :: cs.drop (i + 1) := by
    have hlt : i < cs.length := by
      rcases Nat.lt_or_ge i cs.length with h | h
      · exact h
      · rw [List.getElem?_eq_none h] at hlab; cases hlab
    have h1 : cs.drop i = cs[i] :: cs.drop (i + 1) := List.drop_eq_getElem_cons hlt
    have h2 : cs[i] = Code.LAB (d.name.print ++ "_") := by
      rw [List.getElem?_eq_getElem hlt] at hlab; exact Option.some.inj hlab
    conv => lhs; rw [← List.take_append_drop i cs, h1, h2]
  have hilt : i < cs.length := by
    rcases Nat.lt_or_ge i cs.length with h | h
    · exact h
    · rw [List.getElem?_eq_none h] at hlab; cases hlab
  obtain ⟨k3, hk3⟩ := step_fall mon L hsplit (s := setPS (setPS st (st.pc + c0.length) k0) i k2)
    (by simp [setPS, Nat.min_eq_left (Nat.le_of_lt hilt)])
    (show execCode mon.mach px.labelAddr (Code.LAB (d.name.print ++ "_")) _ = .ok (_, .next) from rfl)
  have hkeys : Γ.map (·.chi) = d.ctx.map (·.chi) := by
    have := congrArg (List.map Prod.fst) hchi
    simp only [Pos.chiTys, List.map_map] at this
    exact this
  refine ⟨cfg', _, _, hst, stepN_trans mon px hk0 (stepN_trans mon px ((stepN_one mon px _).trans hk2)
    ((stepN_one mon px _).trans hk3)), hout, hnext, R', ?_, _, _, ditems, hdrun, ?_, J.heap,
    ⟨fun t ht => by rw [J.temps, get_clobberTemp _ (by unfold Mock.T_TEMP; have := X.cap; omega)],
     fun i hi => by rw [tempVal_setPS, tempVal_setPS, tempVal_setPS]⟩⟩
  · exact X3R.setPS (X3R.setPS ((X0.jump J).ctxCongr hkeys) _ _) _ _
  · have : (setPS (setPS (setPS st (st.pc + c0.length) k0) i k2) ((cs.take i).length + 1) k3).pc = i + 1 := by
      simp [setPS, Nat.min_eq_left (Nat.le_of_lt hilt)]
    rw [this]
    exact hdat

end Call3

/-! ## `exit` -/

section Exit3

variable {F : Frame} (HF : FrameOK F) {mon : MonCfg} (hmon : mon.mach = F.c)
  {px : X86.Prog} {cs pre : List Code} (L : Loaded px cs) (hcs : cs = pre ++ cleanup)
  (hclean : "cleanup" ∉ labs pre) {st0 : State} {h : Word} (E : EntryFacts F st0 h)

include HF hmon L hcs hclean E in
/-- THREE-WAY SIMULATION OF `exit`: the result goes to rax, the jump to `cleanup`, the epilogue and `ret`
pass the exit check and return the result -/
theorem exit_x3 {P : Program} {hooks : Bool} {prog : AxCut.Prog} {Γ : Ctx} {ρ : List Value} {a : Ident}
    {cfg : Config} {v : Word}
    (R : RelX P hooks prog ⟨Γ, ρ, .exit a⟩ cfg) (ha : readInt Γ ρ a = .ok v)
    {hs : HState} {ι : Nat → Nat} {κ : Nat → Nat → Word} {st : State} (X : X3 F Γ cfg hs ι κ st)
    {kx kx' : Nat} {items : List Code}
    (hrunX : (codeStatementR x86Backend hooks natRen prog.types (.exit a) Γ).run kx = .ok (items, kx'))
    (hatX : XAt cs st.pc items) :
    ∃ k stL, stepN mon px k st = .inl stL ∧ step mon px stL = .inr (.done v) ∧ stL.out = cfg.out := by
  obtain ⟨i, hi, hl, hg⟩ := R.readInt ha
  simp only at hi hl
  rw [ctxPosition_eq_posOf] at hi
  have hchi : Γ[i].chi = .ext := by
    have := (R.vals i hl (by show _ < ρ.length; have hlen : ρ.length = Γ.length := R.len; omega)).2.2.1
    simp only at this
    obtain ⟨_, hpo, hval⟩ := readInt_ok ha
    rw [hi] at hpo
    cases hpo
    rw [List.getElem?_eq_getElem (by show _ < ρ.length; have hlen : ρ.length = Γ.length := R.len; omega)] at hval
    injection hval with hval
    rw [this, hval]; rfl
  simp only [codeStatementR, run_bind_ok, run_pure_ok] at hrunX
  obtain ⟨tX, _, htX, rfl, rfl⟩ := hrunX
  obtain ⟨pX, hpX, hltX, rfl, rfl⟩ := (x86_vt_run_ok _ _ _ _ _ _).1 htX
  rw [hi] at hpX
  injection hpX with hpX
  subst hpX
  simp only [TempNum.toNat] at hltX
  generalize hc0 : hookCode x86Backend hooks Γ ++ [x86Backend.comment ("exit " ++ a.print)] = c0 at hatX
  have hc0c : ∀ y ∈ c0, ∃ m', y = Code.COMMENT m' := by rw [← hc0]; exact hook_comments hooks Γ _
  replace hatX : XAt cs st.pc (c0 ++ (mov (.reg RETURN1) (posTemp (2 * i + 1)) ++ [Code.JMPL "cleanup"])) := by
    have : x86Backend.mov x86Backend.return1 (posTemp (2 * i + TempNum.snd.toNat)) ++
        x86Backend.jumpLabel "cleanup" = mov (.reg RETURN1) (posTemp (2 * i + 1)) ++ [Code.JMPL "cleanup"] := rfl
    rw [← this]
    simpa [List.append_assoc] using hatX
  obtain ⟨k0, hk0⟩ := x_steps_straight mon L hatX.left
    (execStraight_comments mon.mach px.labelAddr c0 st hc0c)
  have X0 : X3 F Γ cfg hs ι κ (setPS st (st.pc + c0.length) k0) := X3R.setPS X _ _
  have hw := X0.words i hl v hg
  rw [hchi] at hw
  have hr : TempOK (.reg RETURN1) := ⟨by decide, by decide⟩
  obtain ⟨st1, e1, B1, hv1, P1⟩ := mov_correct (la := px.labelAddr) X0.bnd hr (tempOK_posTemp hltX)
  rw [← hmon] at e1
  obtain ⟨k1, hk1⟩ := x_steps_straight mon L (s := setPS st (st.pc + c0.length) k0) hatX.right.left e1
  have hrax : tempVal F.sp st1 (.reg RETURN1) = some v := by rw [hv1]; exact hw
  -- the jump
  have hidx : labIdx cs "cleanup" = some pre.length := by
    have : cs = pre ++ Code.LAB "cleanup" :: (epilogue.tail ++ [Code.RET]) := by
      rw [hcs, cleanup_eq]; rfl
    rw [this]
    exact labIdx_append_of_not_mem _ _ _ hclean
  obtain ⟨csa, csb, hcsJ, hpcJ⟩ := hatX.right.right
  obtain ⟨k2, hk2⟩ := Scc.X86.Ref.step_jump mon L (cs1 := csa) (code := Code.JMPL "cleanup") (rest := csb)
    (s := setPS st1 ((setPS st (st.pc + c0.length) k0).pc + (mov (.reg RETURN1) (posTemp (2 * i + 1))).length) k1)
    (by rw [hcsJ]; simp [List.append_assoc]) (by simp [setPS] at hpcJ ⊢; omega)
    (show execCode mon.mach px.labelAddr (Code.JMPL "cleanup") _ = .ok (_, .jumpLabel "cleanup") from rfl) hidx
  -- the epilogue
  have hsp1 : F.st1.regs[0]? = some (some F.sp) := E.pro.rsp
  obtain ⟨st3, e3, S3, hsize3, hrsp3, hcal3, hreg3, hmem3⟩ :=
    prologue_epilogue_machine (la := px.labelAddr) E.entry E.pro (st2 := setPS (setPS st1 _ k1) pre.length k2)
      B1.size (by show st1.regs[0]? = _; rw [B1.rsp, hsp1])
      (fun n hn => by
        show st1.stackMem[n]? = _
        rw [P1.frame HF n hn]
        exact X0.frame n hn)
  have hcE : cs = pre ++ epilogue ++ [Code.RET] := by rw [hcs, cleanup_eq]; simp
  rw [← hmon] at e3
  obtain ⟨k3, hk3⟩ := steps_block mon L hcE (by simp [setPS]) e3
  -- `ret`
  have hcR : cs = (pre ++ epilogue) ++ Code.RET :: [] := by rw [hcE]
  obtain ⟨code', hf', hs'⟩ := L.fetch hcR
  have hcode' := stripC_ret hs'
  subst hcode'
  have hret : retCheck mon.mach (setPS st3 (pre.length + epilogue.length) k3) = .ok v := by
    rw [hmon]
    have hm := E.mtop
    apply retCheck_ok HF.cfg E.top8 E.room
    · show st3.regs[0]? = _
      rw [hrsp3, hm]
    · show st3.stackMem[F.c.stackTop - 8]? = _
      rw [hmem3 _ (by rw [hm]; exact Nat.le_refl _)]
      exact E.retw
    · intro r hr'
      show st3.regs[r]? = _
      rw [hcal3 r (by simpa [calleeSaved] using hr')]
      exact E.callee r hr'
    · show st3.regs[4]? = _
      rw [hreg3 4 (by decide) (by decide) (by decide)]
      show st1.regs[4]? = _
      have := hrax
      simp only [tempVal, RETURN1_eq] at this
      cases h4 : st1.regs[4]? with
      | none => rw [h4] at this; simp at this
      | some x => rw [h4] at this; simp at this; rw [this]
  refine ⟨_, _, stepN_trans mon px hk0 (stepN_trans mon px hk1 (stepN_trans mon px ((stepN_one mon px _).trans hk2)
    hk3)), step_ret (by simpa [setPS, Nat.add_assoc] using hf') hret, ?_⟩
  show st3.out = cfg.out
  rw [S3.out]
  show st1.out = cfg.out
  rw [P1.same.out]
  exact X0.out

end Exit3

end Scc.X86.Ref.K
