/-
  Scc.X86.ConcKInv — the heap invariant of C09 ON THE CONCRETE x86-64 MACHINE STATE, derived from the
  CLOSURE-AWARE three-way relation `Scc.X86.Ref.K.X3` (Scc/X86/RefClosHDefs.lean) at a statement boundary.
  The port of Scc/X86/ConcInv.lean (`heapInvAt_of_x3`) to the relation with the code-pointer map `κ`: the
  predicate `HeapInvAt`, the monitor's root locations and the counting lemmas are those of ConcInv.lean
  (they do not mention the relation); a closure is a heap object like a constructor object — its pointer
  part is a root, its word part (a code address) is not looked at by the heap invariant.
  Also: statement boundaries up to labels and comments (`Tol`): the machine state reached by the `jmp reg`
  of an `invoke` is the boundary state moved forward over items of size 0; everything the heap invariant
  reads is the same in both (`heapInvAt_tol`).
-/
import Scc.X86.ConcInv
import Scc.X86.RefClosHRun

set_option linter.unusedVariables false
set_option linter.unusedSimpArgs false

namespace Scc.X86.ConcK

open Scc Scc.AxCut Scc.Backend Scc.Backend.Abs Scc.Backend.Sim Scc.X86 Scc.X86.Ref
open Scc.Backend.Sim2
open Scc.Heap (HState InvS InvW)
open Scc.Heap.Refine (HRef imgW)
open Scc.X86.Conc (HeapInvAt memFn ctxKinds rootLocs readLoc_tempLoc mapM_ok zipIdx_filter_kinds count_roots)

/-- THE HEAP INVARIANT ON THE CONCRETE MACHINE STATE at a statement boundary (closure-aware relation) -/
theorem heapInvAt_of_x3 {F : Frame} {m : MonCfg} (hm : m.mach = F.c) (hk : m.consts = consts)
    {P : Program} {hooks : Bool} {prog : AxCut.Prog} {Γ : Ctx} {ρ : List Pos.Value} {s : Stmt} {cfg : Config}
    {hs : HState} {ι : Nat → Nat} {κ : Nat → Nat → Word} {st : State}
    (R : RelX P hooks prog ⟨Γ, ρ, s⟩ cfg) (X : K.X3 F Γ cfg hs ι κ st) :
    HeapInvAt m st (ctxKinds Γ) (F.c.heapBase + F.c.heapBytes) ∧ hs.limit = F.c.heapBase + F.c.heapBytes := by
  obtain ⟨w, hw, ew⟩ := X.hrel.heap
  obtain ⟨f, hf, ef⟩ := X.hrel.free
  obtain ⟨lin, lazy, live, Fr, I⟩ := X.href.conc
  -- the pointer parts on the abstract machine
  let val : Nat → Word := fun i => K.imgWord ι ((cfg.temps.get (2 * i)).getD 0)
  have hlen : ρ.length = Γ.length := R.len
  have hdef : ∀ i (hi : i < Γ.length), Γ[i].chi ≠ .ext → ∃ r, cfg.temps.get (2 * i) = some r ∧
      tempVal F.sp st (posTemp (2 * i)) = some (val i) ∧ (val i).toNat = imgW ι r := by
    intro i hi hc
    have hv := (R.vals i hi (by rw [hlen]; exact hi)).2.2.2 ((chi_bne_ext _).mpr hc)
    cases hg : cfg.temps.get (2 * i) with
    | none => rw [hg] at hv; cases hv
    | some r =>
      refine ⟨r, rfl, ?_, ?_⟩
      · have := X.ptrs i hi hc r hg
        simpa [val, hg] using this
      · simp only [val, hg, Option.getD_some]
        exact K.imgWord_toNat (fun h0 => (K.X3R.ref_lt X hi hc hg h0).1)
  -- what the monitor reads
  have hread : (rootLocs m.consts (ctxKinds Γ)).mapM (fun l => readLoc m.mach st l) =
      .ok (((ctxKinds Γ).zipIdx.filter (·.1)).map (fun (ki : Bool × Nat) => val ki.2)) := by
    unfold rootLocs
    rw [hk, hm]
    have := mapM_ok (fun (ki : Bool × Nat) => readLoc F.c st (tempLoc consts (2 * ki.2)))
      (fun (ki : Bool × Nat) => val ki.2) ((ctxKinds Γ).zipIdx.filter (·.1)) (by
        intro ki hki
        rw [List.mem_filter] at hki
        obtain ⟨hmem, hk1⟩ := hki
        obtain ⟨hidx, hlt, hget⟩ := List.mem_zipIdx hmem
        simp only [Nat.zero_add, Nat.sub_zero] at hlt hget
        have hlt' : ki.2 < Γ.length := by simpa [ctxKinds] using hlt
        have hc : Γ[ki.2].chi ≠ .ext := by
          have : (ctxKinds Γ)[ki.2] = true := by rw [← hget]; exact hk1
          apply (chi_bne_ext _).mp
          simpa [ctxKinds] using this
        obtain ⟨r, _, hv, _⟩ := hdef ki.2 hlt' hc
        exact readLoc_tempLoc X.bnd (by have := X.cap; omega) hv)
    rw [List.mapM_map]
    exact this
  refine ⟨⟨_, w, f, lin, lazy, live, Fr, hread, ?_, ?_, ?_⟩, X.hrel.limit⟩
  · rw [hk]; exact rd_regIs hw
  · rw [hk]; exact rd_regIs hf
  · have hmem : memFn st = hs.mem.get := by
      funext a; exact (X.hrel.mem a).symm
    rw [hm, hmem, ew, ef, ← X.hrel.limit, ← X.hrel.base]
    refine InvW.roots_congr I (fun b hb => ?_)
    rw [List.map_map]
    have e1 := zipIdx_filter_kinds Γ 0 (fun i => (val i).toNat)
    have e1' : List.map ((fun (x : Word) => x.toNat) ∘ fun (ki : Bool × Nat) => val ki.2)
        (List.filter (fun x => x.1) (ctxKinds Γ).zipIdx) =
        (((ctxKinds Γ).zipIdx 0).filter (·.1)).map (fun (ki : Bool × Nat) => (val ki.2).toNat) := rfl
    rw [e1', e1]
    have := count_roots cfg.temps ι (fun i => (val i).toNat) b hb Γ 0 (by
      intro j hj hc
      obtain ⟨r, hr, _, hv⟩ := hdef j hj hc
      exact ⟨r, by rw [Nat.zero_add]; exact hr, by rw [Nat.zero_add]; exact hv⟩)
    rw [this]
    rfl

/-! ## states that differ in the program counter only -/

theorem readLoc_setPS (c : MachCfg) (s : State) (pc k : Nat) (l : Loc) :
    readLoc c (setPS s pc k) l = readLoc c s l := by
  cases l <;> rfl

theorem heapInvAt_setPS {m : MonCfg} {s : State} {kinds : List Bool} {limit : Nat} (pc k : Nat)
    (h : HeapInvAt m s kinds limit) : HeapInvAt m (setPS s pc k) kinds limit := by
  obtain ⟨roots, hh, f, lin, lazy, live, F, h1, h2, h3, h4⟩ := h
  refine ⟨roots, hh, f, lin, lazy, live, F, ?_, h2, h3, h4⟩
  have e : (fun l => readLoc m.mach (setPS s pc k) l) = fun l => readLoc m.mach s l := by
    funext l; exact readLoc_setPS _ _ _ _ l
  rw [e]; exact h1

/-- the heap invariant does not see the tolerance: a state that is a boundary state moved forward over
labels and comments satisfies the same `HeapInvAt` -/
theorem heapInvAt_tol {m : MonCfg} {cs : List Code} {X0 X : State} {kinds : List Bool} {limit : Nat}
    (T : Tol cs X0 X) (h : HeapInvAt m X0 kinds limit) : HeapInvAt m X kinds limit := by
  rw [T.eq]; exact heapInvAt_setPS _ _ h

end Scc.X86.ConcK
