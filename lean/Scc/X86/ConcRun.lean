/-
  Scc.X86.ConcRun — the STATEMENT BOUNDARIES of the x86-64 run of a program with data types, made explicit.

  * `BChain mon px Q sts X` — from `X` the machine passes (by `stepN`, i.e. without fault) through a chain
    of states, one for each positional-machine state of the list `sts`, each in relation `Q` to it.
  * `run3_chain` — the induction of `run3_aux` (Scc/X86/RefHeapRun.lean) keeping every intermediate
    boundary: along a terminating run of the positional machine, the machine passes through states related
    by `Rel3` to EVERY state `Pos.statesOf` of the run, in order (the "k-th big step" of `run3_aux`).
  * `entry_setup` — the part of `data_programs_items` before the run: loader, header (`init_sim3`),
    Theorem A at the entry, the first `Rel3`.
  * `data_programs_chain` — their composition: from the machine's initial state.
-/
import Scc.X86.ConcInv

set_option linter.unusedVariables false
set_option linter.unusedSimpArgs false

namespace Scc.X86.Conc

open Scc Scc.AxCut Scc.AxCut.Pos Scc.Backend Scc.Backend.Abs Scc.Backend.Sim Scc.Backend.Subst Scc.X86 Scc.X86.Ref
open Scc.Backend.Sim2 Scc.Backend.Keys
open Scc.Props.C14Generic (LabelSafe)
open Scc.Props.C06Generic (outAfter WithinCapacity Reachable EnoughHeap CodeFits statesOf stopsWithin
  reachable_mem_statesOf)
open Scc.Heap (HState InvS InvW)
open Scc.Heap.Refine (HRef FrLe Room)

/-- from `X` the machine passes through a chain of states (by `stepN`: no fault, no end of the run in
between), one for each positional state of the list, each in relation `Q` to it -/
def BChain (mon : MonCfg) (px : X86.Prog) (Q : Pos.State → State → Prop) : List Pos.State → State → Prop
  | [], _ => True
  | st :: rest, X => Q st X ∧ (rest = [] ∨ ∃ n X', stepN mon px n X = .inl X' ∧ BChain mon px Q rest X')

theorem BChain.mem {mon : MonCfg} {px : X86.Prog} {Q : Pos.State → State → Prop} :
    ∀ {sts : List Pos.State} {X : State}, BChain mon px Q sts X → ∀ st ∈ sts,
      ∃ n X', stepN mon px n X = .inl X' ∧ Q st X'
  | [], _, _, st, h => by simp at h
  | s0 :: rest, X, hc, st, h => by
    rcases List.mem_cons.1 h with rfl | h
    · exact ⟨0, X, rfl, hc.1⟩
    · rcases hc.2 with e | ⟨n, X', hn, hc'⟩
      · subst e; simp at h
      · obtain ⟨n', X'', hn', hq⟩ := BChain.mem hc' st h
        exact ⟨n + n', X'', stepN_trans mon px hn hn', hq⟩

theorem BChain.mono {mon : MonCfg} {px : X86.Prog} {Q Q' : Pos.State → State → Prop}
    (hq : ∀ st X, Q st X → Q' st X) :
    ∀ {sts : List Pos.State} {X : State}, BChain mon px Q sts X → BChain mon px Q' sts X
  | [], _, _ => trivial
  | s0 :: rest, X, hc => by
    refine ⟨hq _ _ hc.1, ?_⟩
    rcases hc.2 with e | ⟨n, X', hn, hc'⟩
    · exact Or.inl e
    · exact Or.inr ⟨n, X', hn, BChain.mono hq hc'⟩

/-- prefixing a chain by machine steps -/
theorem BChain.prepend {mon : MonCfg} {px : X86.Prog} {Q : Pos.State → State → Prop} {n : Nat} {X0 X : State}
    (h0 : stepN mon px n X0 = .inl X) :
    ∀ {sts : List Pos.State}, BChain mon px Q sts X → ∀ st ∈ sts, ∃ n' X', stepN mon px n' X0 = .inl X' ∧ Q st X' := by
  intro sts hc st hm
  obtain ⟨n', X', h1, h2⟩ := hc.mem st hm
  exact ⟨n + n', X', stepN_trans mon px h0 h1, h2⟩

section Run3

variable {F : Frame} (HF : FrameOK F) (h8 : F.c.heapBase % 8 = 0) {mon : MonCfg} (hmon : mon.mach = F.c)
  {px : X86.Prog} {cs pre : List Code} (LA : LoadedA F.c px cs) (hndL : (labs cs).Nodup)
  (hfitX : addrAt F.c.codeBase cs cs.length < 2 ^ 64) (hcs : cs = pre ++ cleanup)
  (hclean : "cleanup" ∉ labs pre) {st0 : State} {h : Word} (E : EntryFacts F st0 h)

include HF h8 hmon LA hndL hfitX hcs hclean E in
/-- THE THREE-WAY RUN WITH ALL ITS BOUNDARIES: along a terminating run of the positional machine from a
represented state the machine passes through a state related by `Rel3` to EVERY state of the run -/
theorem run3_chain (hooks : Bool) (prog : AxCut.Prog) (c : Nat) (code : List MockOp) (nargs c' : Nat)
    (hcomp : (compile mockSym hooks prog).run c = .ok ((code, nargs), c'))
    (hsafe : LabelSafe prog = true) (htp : LinTypedProg prog) (hfit : CodeFits code)
    (DX : XDefsAt cs hooks prog) (hprog : ProgOK prog) :
    ∀ (fuel : Nat) (st : Pos.State) (acc : List (Bool × Word)) (cfg : Config) (hs : HState) (X : State)
      (out : List (Bool × Word)) (v : Word),
      Pos.StateTyped prog st → (∀ st', Reachable prog st st' → 2 * st'.ctx.length ≤ 266) →
      Rel3 F cs (Program.ofOps code) hooks prog st cfg hs X → StmtOK st.stmt →
      cfg.out = acc → cfg.next + fuel < 2 ^ 64 → Room hs (64 * 134 * fuel) →
      Pos.runState prog fuel st acc = ⟨out, .done v⟩ →
      BChain mon px (fun st X => ∃ cfg hs, Rel3 F cs (Program.ofOps code) hooks prog st cfg hs X)
        (statesOf prog fuel st) X
  | 0, st, acc, cfg, hs, X, out, v, _, _, _, _, _, _, _, h => by simp [Pos.runState] at h
  | fuel + 1, st, acc, cfg, hs, X, out, v, T, hcap, R, hok, hacc, hnext, hroom, h => by
    have hsim := step3 HF h8 hmon LA hndL hfitX hcs hclean E hooks prog c code nargs c' hcomp hsafe htp hfit
      DX hprog st cfg hs X R T (by unfold EnoughHeap; omega) hok (hroom.mono (by omega))
    have hsafe' := Pos.step_safe htp st T
    have hw : ∃ rs lin lazy live F, InvS hs rs [] lin lazy live F := by
      obtain ⟨Γ', ι, _, _, X3h, _⟩ := R
      obtain ⟨lin, lazy, live, Fr, I⟩ := X3h.href.conc
      exact ⟨_, lin, lazy, live, Fr, I⟩
    unfold StepSim3 at hsim
    simp only [Pos.runState] at h
    simp only [statesOf]
    cases hst : Pos.step prog st with
    | stuck w => simp [hst] at h
    | done v' => exact ⟨⟨cfg, hs, R⟩, Or.inl rfl⟩
    | next st' o =>
      simp only [hst] at h hsim
      rw [hst] at hsafe'
      have hc' := hcap st' (Reachable.step Reachable.refl hst)
      obtain ⟨cfg', hs', X', n, h1, h2, h3, hfr, R', hok'⟩ := hsim (withinCapacity_of_le hc') hc'
      have hacc' : cfg'.out = outAfter o acc := by rw [h2, hacc]
      have h' : Pos.runState prog fuel st' (outAfter o acc) = ⟨out, .done v⟩ := by
        cases o <;> exact h
      have hroom' : Room hs' (64 * 134 * fuel) :=
        (hroom.step hfr (by omega) hw).mono (by omega)
      have ih := run3_chain hooks prog c code nargs c' hcomp hsafe htp hfit DX hprog fuel st'
        (outAfter o acc) cfg' hs' X' out v hsafe'
        (fun st'' hr => hcap st'' (Scc.Props.C06Generic.reachable_prepend hst hr)) R' hok' hacc' (by omega)
        hroom' h'
      exact ⟨⟨cfg, hs, R⟩, Or.inr ⟨n, X', h1, ih⟩⟩

end Run3

/-- a terminating run stops within its fuel -/
theorem stopsWithin_of_done (prog : AxCut.Prog) : ∀ (fuel : Nat) (st : Pos.State) (acc out : List (Bool × Word))
    (v : Word), Pos.runState prog fuel st acc = ⟨out, .done v⟩ → stopsWithin prog fuel st = true
  | 0, _, _, _, _, h => by simp [Pos.runState] at h
  | fuel + 1, st, acc, out, v, h => by
    simp only [Pos.runState] at h
    simp only [stopsWithin]
    cases hst : Pos.step prog st with
    | stuck w => rfl
    | done v' => rfl
    | next st' o =>
      simp only [hst] at h
      exact stopsWithin_of_done prog fuel st' _ out v h

/-! ## the entry: everything `data_programs_items` establishes before the run -/

/-- what the header of the routine establishes: the frame, the loaded routine, the first boundary -/
structure Entry (p : AxCut.Prog) (args : List Word) (hooks : Bool) (routine : List Code) (d0 : Def)
    (ops : List MockOp) (cfg : MonCfg) (items : List (Code × Nat)) (F : Frame) (pre : List Code)
    (st0 : State) (h : Word) (n0 : Nat) (X0 : State) (a : Nat) : Prop where
  fc : F.c = cfg.mach
  frame : FrameOK F
  loaded : LoadedA F.c (mkProg cfg.mach items) routine
  split : routine = pre ++ cleanup
  clean : "cleanup" ∉ labs pre
  entry : EntryFacts F st0 h
  defs : XDefsAt routine hooks p
  main : (mkProg cfg.mach items).labelIdx["asm_main"]? = some 6
  steps : stepN cfg (mkProg cfg.mach items) n0 (initState cfg.mach args 6) = .inl X0
  rel : Rel3 F routine (Program.ofOps ops) hooks p ⟨d0.ctx, args.map .int, d0.body⟩ (initConfig a args)
    (Scc.Heap.init F.c.heapBase (F.c.heapBase + F.c.heapBytes)) X0
  next1 : (initConfig a args).next = 1
  typed : Pos.StateTyped p ⟨d0.ctx, args.map .int, d0.body⟩
  nargs : args.length ≤ 5

theorem entry_setup (p : AxCut.Prog) (args : List Word) (hooks : Bool) (body routine : List Code)
    (nargs : Nat) (d0 : Def) (ops : List MockOp) (c' : Nat)
    (hsafe : LabelSafe p = true) (htp : LinTypedProg p)
    (hcompM : (compile mockSym hooks p).run 0 = .ok ((ops, nargs), c'))
    (hcompX : compileX86 p hooks 0 = .ok (body, nargs)) (hrout : intoRoutine body nargs = .ok routine)
    (hnd : (labs routine).Nodup)
    (hd : p.defs.head? = some d0) (hentry : ∀ b ∈ d0.ctx, b.chi = .ext ∧ b.ty = .i64)
    (hlen : d0.ctx.length = args.length) (hc0 : 2 * d0.ctx.length ≤ 266)
    (cfg : MonCfg) (MO : MachOK cfg.mach)
    (hb0 : 0 < cfg.mach.heapBase) (hbytes : 128 ≤ cfg.mach.heapBytes)
    (items : List (Code × Nat)) (hitems : (items.map (·.1)).map stripC = routine.map stripC) :
    ∃ F pre st0 h n0 X0 a, Entry p args hooks routine d0 ops cfg items F pre st0 h n0 X0 a := by
  have hmem : d0 ∈ p.defs := by
    cases hdefs : p.defs with
    | nil => rw [hdefs] at hd; simp at hd
    | cons d ds => rw [hdefs] at hd; simp at hd; subst hd; simp
  have hnodupD := Scc.Props.C14Generic.labels_unique hooks p 0 ops nargs c' hcompM hsafe
  obtain ⟨_, hnargs⟩ := compile_mock_entry hcompM hd
  rw [hnargs, hlen] at hrout
  have hargs : args.length ≤ 5 := by
    obtain ⟨moves, hm, _⟩ := intoRoutine_shape hrout
    exact moveArguments_le _ _ hm
  -- the loader and the header
  have LA := loadedA_mkProg cfg.mach items routine hitems
  have L := LA.loaded
  obtain ⟨hdr, F, h, st0', k0, st2, hcs, hlabs, hidx, hFc, HF, E, hk0, hpc, R, HR⟩ :=
    init_sim3 MO hargs hrout L
  -- Theorem A at the entry
  obtain ⟨a, hlab, RX, hn1⟩ := init_relX hooks p 0 ops nargs c' hcompM hnodupD d0 hmem
    (fun b hb => (hentry b hb).1) args hlen (withinCapacity_of_le hc0)
  have T : Pos.StateTyped p ⟨d0.ctx, args.map .int, d0.body⟩ :=
    ⟨htp d0 hmem, Pos.ints_typed d0.ctx args hlen hentry⟩
  -- the definitions
  have DX : XDefsAt routine hooks p := xdefsAt_of_compile hcompX hcs hnd
  obtain ⟨i, kx, kx', ditems, hi, hget, hdrun, hdat⟩ := DX d0 hmem
  -- the entry label is the first item of the body
  have hi0 : i = hdr.length := by
    unfold compileX86 at hcompX
    cases hx : (compile x86Backend hooks p).run 0 with
    | error e => rw [hx] at hcompX; cases hcompX
    | ok r =>
      obtain ⟨⟨body', nargs'⟩, c''⟩ := r
      rw [hx] at hcompX
      simp only [Except.ok.injEq, Prod.mk.injEq] at hcompX
      obtain ⟨rfl, rfl⟩ := hcompX
      unfold compile compileR at hx
      cases hdefs : p.defs with
      | nil => rw [hdefs] at hd; simp at hd
      | cons d ds =>
        rw [hdefs] at hd hx
        simp only [List.head?_cons, Option.some.injEq] at hd
        subst hd
        simp only [run_bind_ok, run_pure_ok, translateR] at hx
        obtain ⟨blocks, c1, ⟨is, c2, h1, rest, c3, h2, rfl, rfl⟩, e, rfl⟩ := hx
        injection e with e1 e2
        have hb : body' = Code.LAB (d.name.print ++ "_") :: (is ++ assemble x86Backend rest (ds.map (·.name))) := by
          rw [← e1]; rfl
        have hget' : routine[hdr.length]? = some (Code.LAB (d.name.print ++ "_")) := by
          rw [hcs, hb]; simp
        have := labIdx_of_nodup hnd hget'
        rw [hi] at this
        exact Option.some.inj this
  subst hi0
  have hsplit : routine = hdr ++ Code.LAB (d0.name.print ++ "_") :: routine.drop (hdr.length + 1) := by
    have hlt : hdr.length < routine.length := by
      rcases Nat.lt_or_ge hdr.length routine.length with h | h
      · exact h
      · rw [List.getElem?_eq_none h] at hget; cases hget
    have h1 : routine.drop hdr.length = routine[hdr.length] :: routine.drop (hdr.length + 1) :=
      List.drop_eq_getElem_cons hlt
    have h2 : routine[hdr.length] = Code.LAB (d0.name.print ++ "_") := by
      rw [List.getElem?_eq_getElem hlt] at hget; exact Option.some.inj hget
    have h3 : routine.take hdr.length = hdr := by
      rw [hcs]; simp [List.append_assoc]
    conv => lhs; rw [← List.take_append_drop hdr.length routine, h1, h2, h3]
  obtain ⟨k3, hk3⟩ := step_fall cfg L hsplit (s := st2) hpc
    (show execCode cfg.mach (mkProg cfg.mach items).labelAddr (Code.LAB (d0.name.print ++ "_")) _ = .ok (_, .next)
      from rfl)
  have hbytes' : 128 ≤ F.c.heapBytes := by rw [hFc]; omega
  have X3i : X3 F d0.ctx (initConfig a args)
      (Scc.Heap.init F.c.heapBase (F.c.heapBase + F.c.heapBytes)) id (setPS st2 (hdr.length + 1) k3) :=
    X3R.setPS (x3_init R HR (fun b hb => (hentry b hb).1) hc0 (by rw [hFc]; exact hb0) hbytes' id) _ _
  have R3 : Rel3 F routine (Program.ofOps ops) hooks p ⟨d0.ctx, args.map .int, d0.body⟩ (initConfig a args)
      (Scc.Heap.init F.c.heapBase (F.c.heapBase + F.c.heapBytes)) (setPS st2 (hdr.length + 1) k3) :=
    ⟨d0.ctx, id, rfl, RX, X3i, kx, kx', ditems, hdrun, hdat⟩
  have hclean : "cleanup" ∉ labs (hdr ++ body) := by
    rw [hcs, labs_append] at hnd
    have := (List.nodup_append.1 hnd).2.2
    intro hm
    exact this _ hm _ (by simp [labs, codeLabelDef, cleanup]) rfl
  have hlabI : (mkProg cfg.mach items).labelIdx["asm_main"]? = some 6 := by rw [L.labels]; exact hidx
  refine ⟨F, hdr ++ body, st0', h, k0 + 1, _, a, hFc, HF, by rw [hFc]; exact LA, hcs, hclean, E,
    xdefsAt_of_compile hcompX hcs hnd, hlabI, ?_, R3, hn1, T, hargs⟩
  exact stepN_trans cfg _ hk0 ((stepN_one cfg _ _).trans hk3)


/-! ## composition -/

/-- a machine state at a STATEMENT BOUNDARY of the run of the routine: related by the three-way relation
`Rel3` (for the frame of the run) to a state of the positional machine -/
def BoundaryOf (p : AxCut.Prog) (hooks : Bool) (routine : List Code) (ops : List MockOp) (cfg : MonCfg)
    (st : Pos.State) (X : State) : Prop :=
  ∃ (F : Frame) (cfgA : Config) (hs : HState), F.c = cfg.mach ∧
    Rel3 F routine (Program.ofOps ops) hooks p st cfgA hs X

theorem ctxKinds_keys {Γ Δ : Ctx} (h : Γ.keys = Δ.keys) : ctxKinds Γ = ctxKinds Δ := by
  have := keys_chi h
  unfold ctxKinds
  have e : ∀ (Γ : Ctx), Γ.map (fun b => b.chi != Chi.ext) = (Γ.map (·.chi)).map (· != Chi.ext) := by
    intro Γ; rw [List.map_map]; rfl
  rw [e, e, this]

/-- THE HEAP INVARIANT AT EVERY STATEMENT BOUNDARY: a machine state related by `Rel3` to a positional state
satisfies the monitor's predicate for the kinds of that state's context -/
theorem heapInvAt_of_boundary {p : AxCut.Prog} {hooks : Bool} {routine : List Code} {ops : List MockOp}
    {cfg : MonCfg} (hk : cfg.consts = consts) {st : Pos.State} {X : State}
    (B : BoundaryOf p hooks routine ops cfg st X) :
    HeapInvAt cfg X (ctxKinds st.ctx) (cfg.mach.heapBase + cfg.mach.heapBytes) := by
  obtain ⟨F, cfgA, hs, hFc, Γ', ι, hkeys, RX, X3h, _⟩ := B
  have := (heapInvAt_of_x3 (m := cfg) hFc.symm hk RX X3h).1
  rw [ctxKinds_keys hkeys, hFc] at this
  exact this

/-- the whole run from the machine's initial state: the machine passes through a boundary state for EVERY
state of the terminating run of the positional machine, in order -/
theorem data_programs_chain (p : AxCut.Prog) (args : List Word) (hooks : Bool) (body routine : List Code)
    (nargs : Nat) (d0 : Def) (ops : List MockOp) (c' : Nat)
    (hsafe : LabelSafe p = true) (htp : LinTypedProg p) (hprog : ProgOK p)
    (hcompM : (compile mockSym hooks p).run 0 = .ok ((ops, nargs), c')) (hfit : CodeFits ops)
    (hcompX : compileX86 p hooks 0 = .ok (body, nargs)) (hrout : intoRoutine body nargs = .ok routine)
    (hnd : (labs routine).Nodup)
    (hd : p.defs.head? = some d0) (hentry : ∀ b ∈ d0.ctx, b.chi = .ext ∧ b.ty = .i64)
    (hcap : ∀ st, Reachable p ⟨d0.ctx, args.map .int, d0.body⟩ st → 2 * st.ctx.length ≤ 266)
    (fuel : Nat) (out : List (Bool × Word)) (v : Word) (hfuel : fuel + 1 < 2 ^ 64)
    (hrun : Pos.run p args fuel = ⟨out, .done v⟩)
    (cfg : MonCfg) (MO : MachOK cfg.mach)
    (hb8 : cfg.mach.heapBase % 8 = 0) (hb0 : 0 < cfg.mach.heapBase)
    (hbytes : 128 + 64 * 134 * fuel ≤ cfg.mach.heapBytes)
    (items : List (Code × Nat)) (hitems : (items.map (·.1)).map stripC = routine.map stripC)
    (hfitX : addrAt cfg.mach.codeBase routine routine.length < 2 ^ 64) :
    (mkProg cfg.mach items).labelIdx["asm_main"]? = some 6 ∧
    ∃ n0 X0, stepN cfg (mkProg cfg.mach items) n0 (initState cfg.mach args 6) = .inl X0 ∧
      BChain cfg (mkProg cfg.mach items) (BoundaryOf p hooks routine ops cfg)
        (statesOf p fuel ⟨d0.ctx, args.map .int, d0.body⟩) X0 ∧
      stopsWithin p fuel ⟨d0.ctx, args.map .int, d0.body⟩ = true := by
  have hmem : d0 ∈ p.defs := by
    cases hdefs : p.defs with
    | nil => rw [hdefs] at hd; simp at hd
    | cons d ds => rw [hdefs] at hd; simp at hd; subst hd; simp
  have hlen : d0.ctx.length = args.length ∧
      Pos.runState p fuel ⟨d0.ctx, args.map .int, d0.body⟩ [] = ⟨out, .done v⟩ := by
    unfold Pos.run at hrun
    cases hdefs : p.defs with
    | nil => rw [hdefs] at hd; simp at hd
    | cons d ds =>
      rw [hdefs] at hd hrun
      simp only [List.head?_cons, Option.some.injEq] at hd
      subst hd
      simp only at hrun
      by_cases hl : d.ctx.length ≠ args.length
      · simp [hl] at hrun
      · simp only [hl, if_false] at hrun
        exact ⟨by omega, hrun⟩
  obtain ⟨hlen, hrun'⟩ := hlen
  have hc0 := hcap _ Reachable.refl
  simp only at hc0
  obtain ⟨F, pre, st0, h, n0, X0, a, En⟩ := entry_setup p args hooks body routine nargs d0 ops c' hsafe htp
    hcompM hcompX hrout hnd hd hentry hlen hc0 cfg MO hb0 (by omega) items hitems
  have hFc := En.fc
  have hch := run3_chain En.frame (by rw [hFc]; exact hb8) hFc.symm En.loaded hnd (by rw [hFc]; exact hfitX)
    En.split En.clean En.entry hooks p 0 ops nargs c' hcompM hsafe htp hfit En.defs hprog fuel _ []
    (initConfig a args) _ X0 out v En.typed hcap En.rel (hprog.2 d0 hmem) rfl (by rw [En.next1]; omega)
    (room_init (by rw [hFc]; exact hb0) (by rw [hFc]; omega) (by rw [hFc]; omega)) hrun'
  refine ⟨En.main, n0, X0, En.steps, ?_, stopsWithin_of_done p fuel _ _ _ _ hrun'⟩
  exact BChain.mono (fun st X ⟨cfgA, hs, R⟩ => ⟨F, cfgA, hs, hFc, R⟩) hch

end Scc.X86.Conc
