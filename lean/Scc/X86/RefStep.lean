/-
  Scc.X86.RefStep — Theorem B (x86-64), heap-free instructions, on the transition functions:
  `sim_step`: one step `Abs.step P cfg = .next cfg'` of the abstract backend machine on the laid-out mock
  code `ops` is simulated by `k ≥ 1` transitions of the x86-64 SPEC machine on the loaded item list
  `cs = hdr ++ body ++ post` whose `body` renders `ops` (`Seg`), re-establishing `RepX86` and the
  correspondence of the program counters (`At`);
  `sim_halt`: the halting step (`jumplabel cleanup` with the result in RET1) is simulated by the jump
  to `cleanup`, the epilogue and `ret`, whose exit check succeeds with the same result.
-/
import Scc.X86.RefSim

set_option linter.unusedVariables false
set_option linter.unusedSimpArgs false

namespace Scc.X86.Ref

open Scc.AxCut Scc.Backend Scc.Backend.Abs Scc.Backend.Sim Scc.X86 Scc.Backend.PM

/-! ## labels of item lists -/

/-- names of the labels defined in an item list -/
def labs (cs : List Code) : List String := cs.filterMap codeLabelDef

theorem labs_append (a b : List Code) : labs (a ++ b) = labs a ++ labs b := by
  simp [labs, List.filterMap_append]

theorem labs_nil_of {cs : List Code} (h : ∀ c ∈ cs, codeLabelDef c = none) : labs cs = [] := by
  unfold labs
  rw [List.filterMap_eq_nil_iff]
  exact h

theorem labIdx_append_of_not_mem (pre rest : List Code) (l : String) (h : l ∉ labs pre) :
    labIdx (pre ++ Code.LAB l :: rest) l = some pre.length := by
  unfold labIdx
  rw [List.findIdx?_append]
  have : List.findIdx? (fun c => decide (c = Code.LAB l)) pre = none := by
    rw [List.findIdx?_eq_none_iff]
    intro c hc
    simp only [decide_eq_false_iff_not]
    intro e
    apply h
    unfold labs
    rw [List.mem_filterMap]
    exact ⟨c, hc, by rw [e]; rfl⟩
  rw [this]
  simp [List.findIdx?_cons]

theorem noLab_moveToRegister (r : Nat) (t : Temporary) : ∀ c ∈ moveToRegister r t, codeLabelDef c = none := by
  cases t <;> simp [moveToRegister, codeLabelDef]

theorem noLab_moveFromRegister (t : Temporary) (r : Nat) : ∀ c ∈ moveFromRegister t r, codeLabelDef c = none := by
  cases t <;> simp [moveFromRegister, codeLabelDef]

theorem noLab_append {a b : List Code} (ha : ∀ c ∈ a, codeLabelDef c = none)
    (hb : ∀ c ∈ b, codeLabelDef c = none) : ∀ c ∈ a ++ b, codeLabelDef c = none := by
  intro c hc
  rcases List.mem_append.1 hc with h | h
  · exact ha c h
  · exact hb c h

theorem noLab_mov (t s : Temporary) : ∀ c ∈ mov t s, codeLabelDef c = none := by
  cases s with
  | reg r => exact noLab_moveFromRegister t r
  | spill p =>
    cases t with
    | reg r => exact noLab_moveToRegister r (.spill p)
    | spill q => exact noLab_append (noLab_moveToRegister TEMP (.spill p)) (noLab_moveFromRegister (.spill q) TEMP)

theorem noLab_storeTemporary (t : Temporary) (b : Bool) : ∀ c ∈ storeTemporary t b, codeLabelDef c = none := by
  rw [storeTemporary_eq]; exact noLab_mov _ _

theorem noLab_restoreTemporary (t : Temporary) (b : Bool) :
    ∀ c ∈ restoreTemporary t b, codeLabelDef c = none := by
  cases b
  · rw [restoreTemporary_false_eq]; exact noLab_moveFromRegister _ _
  · rw [restoreTemporary_true_eq]; exact noLab_mov _ _

theorem noLab_loadImmediate (t : Temporary) (i : Int) : ∀ c ∈ loadImmediate t i, codeLabelDef c = none := by
  cases t with
  | reg r => simp [loadImmediate, codeLabelDef]
  | spill p =>
    simp only [loadImmediate]
    split <;> simp [codeLabelDef]

theorem noLab_compare (a b : Temporary) : ∀ c ∈ compare a b, codeLabelDef c = none := by
  cases a <;> cases b <;> simp [compare, codeLabelDef]

theorem noLab_compareImmediate (a : Temporary) (i : Int) :
    ∀ c ∈ compareImmediate a i, codeLabelDef c = none := by
  cases a <;> simp [compareImmediate, codeLabelDef]

theorem noLab_condJump (s : IfSort) (l : String) : codeLabelDef (condJump s l) = none := by
  cases s <;> rfl

theorem noLab_single {c : Code} (h : codeLabelDef c = none) : ∀ x ∈ [c], codeLabelDef x = none := by
  intro x hx; simp at hx; subst hx; exact h

theorem noLab_opReg {f : Nat → Temporary → List Code} {mk1 : Nat → Nat → Code} {mk2 : Nat → Nat → Int → Code}
    (h1 : ∀ r r1, f r (.reg r1) = [mk1 r r1]) (h2 : ∀ r p, f r (.spill p) = [mk2 r STACK (stackOffset p)])
    (n1 : ∀ r r1, codeLabelDef (mk1 r r1) = none) (n2 : ∀ r b i, codeLabelDef (mk2 r b i) = none)
    (r : Nat) (t : Temporary) : ∀ c ∈ f r t, codeLabelDef c = none := by
  cases t with
  | reg r1 => rw [h1]; exact noLab_single (n1 _ _)
  | spill p => rw [h2]; exact noLab_single (n2 _ _ _)

theorem noLab_addToRegister (r : Nat) (t : Temporary) : ∀ c ∈ addToRegister r t, codeLabelDef c = none :=
  noLab_opReg (mk1 := .ADD) (mk2 := .ADDRM) (fun _ _ => rfl) (fun _ _ => rfl) (fun _ _ => rfl)
    (fun _ _ _ => rfl) r t
theorem noLab_subToRegister (r : Nat) (t : Temporary) : ∀ c ∈ subToRegister r t, codeLabelDef c = none :=
  noLab_opReg (mk1 := .SUB) (mk2 := .SUBRM) (fun _ _ => rfl) (fun _ _ => rfl) (fun _ _ => rfl)
    (fun _ _ _ => rfl) r t
theorem noLab_mulToRegister (r : Nat) (t : Temporary) : ∀ c ∈ mulToRegister r t, codeLabelDef c = none :=
  noLab_opReg (mk1 := .IMUL) (mk2 := .IMULRM) (fun _ _ => rfl) (fun _ _ => rfl) (fun _ _ => rfl)
    (fun _ _ _ => rfl) r t

theorem noLab_addToSpill (p : Nat) (t : Temporary) : ∀ c ∈ addToSpill p t, codeLabelDef c = none := by
  cases t <;> simp [addToSpill, codeLabelDef]
theorem noLab_subToSpill (p : Nat) (t : Temporary) : ∀ c ∈ subToSpill p t, codeLabelDef c = none := by
  cases t <;> simp [subToSpill, codeLabelDef]
theorem noLab_mulToSpill (p : Nat) (t : Temporary) : ∀ c ∈ mulToSpill p t, codeLabelDef c = none := by
  cases t <;> simp [mulToSpill, codeLabelDef]

theorem noLab_opCommutative {fr : Nat → Temporary → List Code} {fs : Nat → Temporary → List Code}
    (hr : ∀ r t, ∀ c ∈ fr r t, codeLabelDef c = none) (hs : ∀ p t, ∀ c ∈ fs p t, codeLabelDef c = none)
    (t s1 s2 : Temporary) : ∀ c ∈ opCommutative fr fs t s1 s2, codeLabelDef c = none := by
  cases t with
  | reg r =>
    simp only [opCommutative]
    split
    · exact hr _ _
    · split
      · exact hr _ _
      · exact noLab_append (noLab_moveToRegister _ _) (hr _ _)
  | spill p =>
    simp only [opCommutative]
    split
    · exact hs _ _
    · split
      · exact hs _ _
      · exact noLab_append (noLab_append (noLab_moveToRegister _ _) (hr _ _)) (noLab_single rfl)

theorem noLab_sub (t s1 s2 : Temporary) : ∀ c ∈ sub t s1 s2, codeLabelDef c = none := by
  cases t with
  | reg r =>
    simp only [sub]
    split
    · exact noLab_subToRegister _ _
    · split
      · exact noLab_append (noLab_append (noLab_moveToRegister _ _) (noLab_subToRegister _ _))
          (noLab_single rfl)
      · exact noLab_append (noLab_moveToRegister _ _) (noLab_subToRegister _ _)
  | spill p =>
    simp only [sub]
    split
    · exact noLab_subToSpill _ _
    · exact noLab_append (noLab_append (noLab_moveToRegister _ _) (noLab_subToRegister _ _))
        (noLab_single rfl)

theorem noLab_divBy (s : Temporary) : ∀ c ∈ divBy s, codeLabelDef c = none := by
  cases s with
  | reg r => simp only [divBy]; split <;> simp [codeLabelDef]
  | spill p => simp [divBy, codeLabelDef]

theorem noLab_div (t s1 s2 : Temporary) : ∀ c ∈ div t s1 s2, codeLabelDef c = none := by
  unfold div
  exact noLab_append (noLab_append (noLab_append (noLab_append (noLab_append (noLab_append
    (noLab_append (noLab_single rfl) (noLab_moveFromRegister _ _)) (noLab_moveToRegister _ _))
    (noLab_divBy _)) (noLab_single rfl)) (noLab_moveToRegister _ _)) (noLab_moveFromRegister _ _))
    (noLab_single rfl)

theorem noLab_rem (t s1 s2 : Temporary) : ∀ c ∈ rem t s1 s2, codeLabelDef c = none := by
  unfold rem
  exact noLab_append (noLab_append (noLab_append (noLab_append (noLab_append (noLab_append
    (noLab_single rfl) (noLab_moveFromRegister _ _)) (noLab_moveToRegister _ _))
    (noLab_divBy _)) (noLab_moveToRegister _ _)) (noLab_moveFromRegister _ _))
    (noLab_single rfl)

theorem noLab_binop (o : BinOp) (t s1 s2 : Temporary) : ∀ c ∈ binop o t s1 s2, codeLabelDef c = none := by
  cases o with
  | sum => exact noLab_opCommutative noLab_addToRegister noLab_addToSpill t s1 s2
  | sub => exact noLab_sub t s1 s2
  | prod => exact noLab_opCommutative noLab_mulToRegister noLab_mulToSpill t s1 s2
  | div => exact noLab_div t s1 s2
  | rem => exact noLab_rem t s1 s2

theorem noLab_map {α : Type} (f : α → Code) (hf : ∀ a, codeLabelDef (f a) = none) (l : List α) :
    ∀ c ∈ l.map f, codeLabelDef c = none := by
  intro c hc
  obtain ⟨a, _, rfl⟩ := List.mem_map.1 hc
  exact hf a

theorem noLab_ite {P : Prop} [Decidable P] {a b : List Code} (ha : ∀ c ∈ a, codeLabelDef c = none)
    (hb : ∀ c ∈ b, codeLabelDef c = none) : ∀ c ∈ (if P then a else b), codeLabelDef c = none := by
  split <;> assumption

theorem noLab_nil : ∀ c ∈ ([] : List Code), codeLabelDef c = none := by simp

theorem noLab_save (first : Nat) (L : List Nat) :
    ∀ c ∈ saveCallerSaveRegisters first L, codeLabelDef c = none := by
  unfold saveCallerSaveRegisters
  exact noLab_append (noLab_append (noLab_map _ (fun _ => rfl) _) (noLab_map _ (fun _ => rfl) _))
    (noLab_ite (noLab_single rfl) noLab_nil)

theorem noLab_restore (first : Nat) (L : List Nat) :
    ∀ c ∈ restoreCallerSaveRegisters first L, codeLabelDef c = none := by
  unfold restoreCallerSaveRegisters
  exact noLab_append (noLab_append (noLab_map _ (fun _ => rfl) _) (noLab_ite (noLab_single rfl) noLab_nil))
    (noLab_map _ (fun _ => rfl) _)

theorem noLab_printI64 (nl : Bool) (s : Temporary) (ctx : Ctx) :
    ∀ c ∈ printI64 nl s ctx, codeLabelDef c = none := by
  unfold printI64
  simp only
  refine noLab_append (noLab_append (noLab_append (noLab_append (noLab_append (noLab_append ?_
    (noLab_single rfl)) (noLab_save _ _)) (noLab_single rfl)) ?_) ?_) (noLab_restore _ _)
  · cases s with
    | reg r => exact noLab_nil
    | spill p => exact noLab_append (noLab_single rfl) (noLab_moveToRegister _ _)
  · cases s <;> exact noLab_single rfl
  · intro c hc
    simp only [List.mem_cons, List.not_mem_nil, or_false] at hc
    rcases hc with rfl | rfl <;> rfl

/-- the labels of the rendering are the labels of the abstract instruction -/
theorem OpRel.labs {g g' : Mode} {op : MockOp} {blk : List Code} (h : OpRel g op blk g') :
    labs blk = labelNames [op] := by
  cases op <;> simp only [OpRel] at h
  case comment m => rw [h.1]; rfl
  case label n => rw [h.1]; rfl
  case jumpLabel n => rw [h.1]; rfl
  case jif c a b n =>
    rw [h.1]
    exact labs_nil_of (noLab_append (noLab_compare _ _) (noLab_single (noLab_condJump _ _)))
  case jifz c a n =>
    rw [h.1]
    exact labs_nil_of (noLab_append (noLab_compareImmediate _ _) (noLab_single (noLab_condJump _ _)))
  case li t imm => rw [h.1]; exact labs_nil_of (noLab_loadImmediate _ _)
  case binop o t a b => rw [h.1]; exact labs_nil_of (noLab_binop _ _ _ _)
  case mov t s =>
    rcases h with h | h
    · rw [h.2.2.1]; exact labs_nil_of (noLab_mov _ _)
    · rw [h.2.2.1]; exact labs_nil_of (noLab_mov _ _)
  case print nl s kinds =>
    obtain ⟨ctx, h1, _⟩ := h
    rw [h1]; exact labs_nil_of (noLab_printI64 _ _ _)
  case save t sp =>
    obtain ⟨b, h1, _⟩ := h
    rw [h1]; exact labs_nil_of (noLab_storeTemporary _ _)
  case restore t sp =>
    obtain ⟨b, h1, _⟩ := h
    rw [h1]; exact labs_nil_of (noLab_restoreTemporary _ _)
  all_goals exact absurd h (by simp)

theorem Seg.labs {g g' : Mode} {ops : List MockOp} {cs : List Code} (h : Seg g ops cs g') :
    labs cs = labelNames ops := by
  induction h with
  | nil g => rfl
  | @cons g g1 g' op blk ops cs hop _ ih =>
    rw [labs_append, hop.labs, ih, show op :: ops = [op] ++ ops from rfl, labelNames_append]


/-! ## layout facts of the abstract program -/

theorem icount_append : ∀ (a b : List MockOp), instrCount (a ++ b) = instrCount a + instrCount b
  | [], b => by simp [instrCount]
  | op :: a, b => by
    cases op <;> simp [instrCount, icount_append a b] <;> omega

theorem labelNames_split {n : String} : ∀ {ops : List MockOp}, n ∈ labelNames ops →
    ∃ o1 o2, ops = o1 ++ MockOp.label n :: o2 ∧ n ∉ labelNames o1
  | [], h => by simp [labelNames] at h
  | op :: r, h => by
    by_cases hop : op = .label n
    · subst hop
      exact ⟨[], r, rfl, by simp [labelNames]⟩
    · have hr : n ∈ labelNames r := by
        cases op <;> simp only [labelNames, List.mem_cons] at h <;> try exact h
        rcases h with h | h
        · subst h; exact absurd rfl hop
        · exact h
      obtain ⟨o1, o2, e, hn⟩ := labelNames_split hr
      refine ⟨op :: o1, o2, by rw [e]; rfl, ?_⟩
      cases op <;> simp only [labelNames, List.mem_cons, not_or] <;> try exact hn
      exact ⟨fun e' => hop (by rw [e']), hn⟩

theorem mem_labelNames_of_labelAddr {ops : List MockOp} {n : String} {a : Nat}
    (h : (Program.ofOps ops).labelAddr n = some a) : n ∈ labelNames ops := by
  unfold Program.labelAddr lookupLabel at h
  cases hf : (Program.ofOps ops).labels.find? (fun e => e.1 == n) with
  | none => simp [hf] at h
  | some e =>
    have hm := List.mem_of_find?_eq_some hf
    have he := List.find?_some hf
    simp only [beq_iff_eq] at he
    rw [← layout_snd_names ops 0, ← he]
    exact List.mem_map.2 ⟨e, hm, rfl⟩

theorem ofOps_size (ops : List MockOp) : (Program.ofOps ops).code.size = instrCount ops := by
  simp [Program.ofOps, layout_fst_length]

theorem tempVal_setPS (sp : Word) (st : State) (pc k : Nat) (t : Temporary) :
    tempVal sp (setPS st pc k) t = tempVal sp st t := by
  cases t <;> rfl

theorem RepX86.setPS {F : Frame} {g : Mode} {cfg : Config} {st : State} (R : RepX86 F g cfg st)
    (pc k : Nat) : RepX86 F g cfg (setPS st pc k) :=
  ⟨⟨R.bnd.size, R.bnd.rsp, R.bnd.sp⟩, fun t v ht hg => by rw [tempVal_setPS]; exact R.temps t v ht hg,
   fun v hg => by rw [tempVal_setPS]; exact R.ret v hg,
   fun b hb w hw => by rw [tempVal_setPS]; exact R.scratch b hb w hw, R.out, R.frame⟩

/-- `RepX86` does not look at the abstract program counter -/
theorem RepX86.setPc {F : Frame} {g : Mode} {cfg : Config} {st : State} (R : RepX86 F g cfg st)
    (pc : Nat) : RepX86 F g { cfg with pc := pc } st :=
  ⟨R.bnd, R.temps, R.ret, R.scratch, R.out, R.frame⟩

section World

variable {F : Frame} (H : FrameOK F) {mon : MonCfg} (hmon : mon.mach = F.c) {p : Prog}
  {ops : List MockOp} {cs hdr body post : List Code}
  (L : Loaded p cs) (hcs : cs = hdr ++ body ++ post) (W : Seg .normal ops body .normal)
  (hnodup : (labelNames ops).Nodup) (hhdr : ∀ n ∈ labelNames ops, n ∉ labs hdr)

include hcs W hnodup hhdr in
/-- a label of the abstract program resolves, on the x86 side, to the corresponding item -/
theorem label_at {name : String} {a : Nat} (hl : (Program.ofOps ops).labelAddr name = some a) :
    ∃ i, labIdx cs name = some i ∧ At ops cs a i .normal := by
  have hmem := mem_labelNames_of_labelAddr hl
  obtain ⟨o1, o2, ho, hn1⟩ := labelNames_split hmem
  have hca := codeAt_ofOps ops (by rw [← labelNames_eq_dfns]; exact hnodup) o1 _ ho
  simp only [CodeAt] at hca
  have ha : a = instrCount o1 := by
    have := hca.1; rw [hl] at this; injection this
  rw [ho] at W
  obtain ⟨c1, c2, gm, hb, S1, S2⟩ := Seg.split W
  cases S2 with
  | @cons _ g1 _ _ blk _ c2' hop S2' =>
    simp only [OpRel] at hop
    obtain ⟨rfl, rfl, rfl⟩ := hop
    have hidx : labIdx cs name = some (hdr ++ c1).length := by
      have : cs = (hdr ++ c1) ++ Code.LAB name :: (c2' ++ post) := by
        rw [hcs, hb]; simp
      rw [this]
      apply labIdx_append_of_not_mem
      rw [labs_append, S1.labs, List.mem_append]
      rintro (h | h)
      · exact hhdr name hmem h
      · exact hn1 h
    refine ⟨_, hidx, o1, _, hdr ++ c1, [Code.LAB name] ++ c2', post, ho, ?_, ha.symm, rfl, ?_⟩
    · rw [hcs, hb]; simp
    · exact Seg.cons (by simp [OpRel]) S2'

/-- the correspondence after an instruction that falls through -/
theorem At.advance {ops1 ops2 : List MockOp} {op : MockOp} {cs1 blk cs2 tail : List Code} {g1 : Mode}
    (ho : ops = ops1 ++ op :: ops2) (hc : cs = cs1 ++ (blk ++ cs2) ++ tail)
    (hop : instrCount [op] = 1) (S : Seg g1 ops2 cs2 .normal) :
    At ops cs (instrCount ops1 + 1) (cs1.length + blk.length) g1 :=
  ⟨ops1 ++ [op], ops2, cs1 ++ blk, cs2, tail, by rw [ho]; simp, by rw [hc]; simp,
    by rw [icount_append, hop], by simp, S⟩



omit hcs W hhdr in
theorem preserved_refl (sp : Word) (st : State) : Preserved sp st st none :=
  ⟨Same.refl st, fun _ _ _ _ => rfl, fun _ _ => rfl⟩

theorem step_mov' (P : Program) (cfg : Config) (t s : Nat)
    (hc : P.code[cfg.pc]? = some (.mov t s)) (ht : t ≠ Mock.T_TEMP) :
    Abs.step P cfg = .next
      { cfg with pc := cfg.pc + 1, temps := (clobberTemp cfg.temps).put t (cfg.temps.get s) } := by
  have : (t == Abs.T_TEMP) = false := by simp [Abs.T_TEMP, ht]
  simp [Abs.step, hc, this]

theorem step_save' (P : Program) (cfg : Config) (t : Nat) (sp : Bool)
    (hc : P.code[cfg.pc]? = some (.save t sp)) :
    Abs.step P cfg = .next
      { cfg with pc := cfg.pc + 1, temps := clobberTemp cfg.temps, scratch := cfg.temps.get t } := by
  simp [Abs.step, hc]

theorem step_restore' (P : Program) (cfg : Config) (t : Nat) (sp : Bool)
    (hc : P.code[cfg.pc]? = some (.restore t sp)) (ht : t ≠ Mock.T_TEMP) :
    Abs.step P cfg = .next
      { cfg with pc := cfg.pc + 1, temps := (clobberTemp cfg.temps).put t cfg.scratch } := by
  have : (t == Abs.T_TEMP) = false := by simp [Abs.T_TEMP, ht]
  simp [Abs.step, hc, this]

/-- the abstract instruction at the program counter -/
theorem fetch_of_split (hnodup : (labelNames ops).Nodup) {ops1 ops2 : List MockOp} {op : MockOp}
    (ho : ops = ops1 ++ op :: ops2) (h1 : ∀ m, op ≠ .comment m) (h2 : ∀ n, op ≠ .label n) :
    (Program.ofOps ops).code[instrCount ops1]? = some op := by
  have hca := codeAt_ofOps ops (by rw [← labelNames_eq_dfns]; exact hnodup) ops1 _ ho
  cases op <;> simp only [CodeAt] at hca <;> first | exact hca.1 | exact absurd rfl (h1 _) | exact absurd rfl (h2 _)

include H hmon L hcs W hnodup hhdr in
/-- THEOREM B, one step: the x86-64 machine simulates a step of the abstract backend machine -/
theorem sim_step_aux {cfg cfg' : Config} (hs : Abs.step (Program.ofOps ops) cfg = .next cfg') :
    ∀ (ops2 ops1 : List MockOp) (cs1 cs2 tail : List Code) (g : Mode) (st : State),
      ops = ops1 ++ ops2 → cs = cs1 ++ cs2 ++ tail → instrCount ops1 = cfg.pc → cs1.length = st.pc →
      Seg g ops2 cs2 .normal → RepX86 F g cfg st →
      ∃ k st' g', stepN mon p k st = .inl st' ∧ RepX86 F g' cfg' st' ∧ At ops cs cfg'.pc st'.pc g'
  | [], ops1, cs1, cs2, tail, g, st, ho, hc, ha, hi, S, R => by
    exfalso
    have : (Program.ofOps ops).code[cfg.pc]? = none := by
      rw [Array.getElem?_eq_none_iff, ofOps_size, ← ha, ho]; simp
    simp [Abs.step, this, stuck] at hs
  | op :: ops2, ops1, cs1, cs2, tail, g, st, ho, hc, ha, hi, S, R => by
    cases S with
    | @cons _ g1 _ _ blk _ cs2' hop S' =>
    have hc' : cs = cs1 ++ blk ++ (cs2' ++ tail) := by rw [hc]; simp
    have hcA : cs = cs1 ++ (blk ++ cs2') ++ tail := hc
    -- an instruction that falls through: straight block, abstract pc + 1
    have fin : ∀ (s' : State) (cfgN : Config), instrCount [op] = 1 →
        execStraight F.c p.labelAddr blk st = .ok s' → RepX86 F g1 cfgN s' →
        cfg' = { cfgN with pc := cfg.pc + 1 } →
        ∃ k st' g', stepN mon p k st = .inl st' ∧ RepX86 F g' cfg' st' ∧ At ops cs cfg'.pc st'.pc g' := by
      intro s' cfgN hop1 hx R' hcfg
      rw [← hmon] at hx
      obtain ⟨k, hk⟩ := steps_block mon L hc' hi.symm hx
      refine ⟨_, _, g1, hk, ?_, ?_⟩
      · rw [hcfg]; exact (R'.setPS _ _).setPc _
      · rw [hcfg]
        simp only [setPS]
        rw [← ha]
        exact At.advance ho hcA hop1 S'
    -- a jump to label `n` executed from `s1` (the jump instruction is at index `cs1 ++ pre`)
    have jmp : ∀ (s1 : State) (n : String),
        RepX86 F .normal { cfg with pc := cfg.pc, temps := clobberTemp cfg.temps } s1 →
        ∀ (pre : List Code) {code : Code} {rest : List Code}, cs = (cs1 ++ pre) ++ code :: rest →
        (cs1 ++ pre).length = s1.pc →
        execCode mon.mach p.labelAddr code s1 = .ok (s1, .jumpLabel n) →
        jumpTo (Program.ofOps ops) cfg n = .next cfg' →
        ∃ k st' g', stepN mon p k s1 = .inl st' ∧ RepX86 F g' cfg' st' ∧ At ops cs cfg'.pc st'.pc g' := by
      intro s1 n R1 pre code rest hcJ hpc hx hj
      unfold jumpTo at hj
      cases hl : (Program.ofOps ops).labelAddr n with
      | none => simp [hl, stuck] at hj
      | some a' =>
        simp only [hl] at hj
        injection hj with hj
        obtain ⟨i, hidx, A'⟩ := label_at hcs W hnodup hhdr hl
        obtain ⟨k1, hk1⟩ := step_jump mon L hcJ hpc.symm hx hidx
        refine ⟨1, _, .normal, by rw [stepN_one]; exact hk1, ?_, ?_⟩
        · rw [← hj]
          exact (R1.setPS _ _).setPc a'
        · rw [← hj]; exact A'
    -- compare; conditional jump
    have br : ∀ (s1 : State) (pre : List Code) (c : IfSort) (n : String) (b : Bool),
        execStraight F.c p.labelAddr pre st = .ok s1 →
        RepX86 F .normal { cfg with pc := cfg.pc, temps := clobberTemp cfg.temps } s1 →
        execCode F.c p.labelAddr (condJump c n) s1 = .ok (s1, if b = true then .jumpLabel n else .next) →
        blk = pre ++ [condJump c n] → g1 = .normal → instrCount [op] = 1 →
        (if b = true then jumpTo (Program.ofOps ops) cfg n
          else .next { cfg with pc := cfg.pc + 1, temps := clobberTemp cfg.temps }) = .next cfg' →
        ∃ k st' g', stepN mon p k st = .inl st' ∧ RepX86 F g' cfg' st' ∧ At ops cs cfg'.pc st'.pc g' := by
      intro s1 pre c n b hx R1 hcj hblk hg1 hop1 hs'
      rw [← hmon] at hx hcj
      have hcP : cs = cs1 ++ pre ++ (condJump c n :: (cs2' ++ tail)) := by rw [hc', hblk]; simp
      obtain ⟨k0, hk0⟩ := steps_block mon L hcP hi.symm hx
      have hcj2 : execCode mon.mach p.labelAddr (condJump c n) (setPS s1 (cs1.length + pre.length) k0) =
          .ok (setPS s1 (cs1.length + pre.length) k0, if b = true then .jumpLabel n else .next) := by
        rw [execCode_setPS, hcj]; rfl
      have hcJ : cs = (cs1 ++ pre) ++ condJump c n :: (cs2' ++ tail) := by rw [hcP]
      cases b with
      | true =>
        simp only [if_true] at hs' hcj2
        obtain ⟨k, st', g', hk, R', A'⟩ := jmp _ n (R1.setPS _ _) pre hcJ (by simp [setPS]) hcj2 hs'
        exact ⟨pre.length + k, st', g', by rw [stepN_add mon p _ k st _ hk0]; exact hk, R', A'⟩
      | false =>
        simp only [Bool.false_eq_true, if_false] at hs' hcj2
        injection hs' with hs'
        obtain ⟨k1, hk1⟩ := step_fall mon L hcJ (by simp [setPS]) hcj2
        refine ⟨pre.length + 1, setPS (setPS s1 (cs1.length + pre.length) k0) ((cs1 ++ pre).length + 1) k1,
          .normal, ?_, ?_, ?_⟩
        · rw [stepN_add mon p _ 1 st _ hk0, stepN_one]; exact hk1
        · rw [← hs']
          exact ((R1.setPS _ _).setPS _ _).setPc _
        · rw [← hs']
          simp only [setPS]
          rw [← ha]
          have := At.advance (cs := cs) (blk := blk) ho hcA hop1 S'
          rw [hg1] at this
          rw [hblk] at this
          simpa [Nat.add_assoc] using this
    cases op <;> simp only [OpRel] at hop
    case comment m =>
      obtain ⟨rfl, rfl⟩ := hop
      have hcF : cs = cs1 ++ Code.COMMENT m :: (cs2' ++ tail) := by rw [hc]; simp
      obtain ⟨k1, hk1⟩ := step_fall mon L hcF hi.symm
        (show execCode mon.mach p.labelAddr (.COMMENT m) st = .ok (st, .next) from rfl)
      obtain ⟨k, st', g', hk, R', A'⟩ := sim_step_aux hs ops2 (ops1 ++ [.comment m]) (cs1 ++ [.COMMENT m])
        cs2' tail g1 (setPS st (cs1.length + 1) k1) (by rw [ho]; simp) (by rw [hc]; simp)
        (by rw [icount_append]; simpa [instrCount] using ha) (by simp [setPS]) S' (R.setPS _ _)
      refine ⟨1 + k, st', g', ?_, R', A'⟩
      rw [stepN_add mon p 1 k st _ (by rw [stepN_one]; exact hk1)]
      exact hk
    case label n =>
      obtain ⟨rfl, rfl, rfl⟩ := hop
      have hcF : cs = cs1 ++ Code.LAB n :: (cs2' ++ tail) := by rw [hc]; simp
      obtain ⟨k1, hk1⟩ := step_fall mon L hcF hi.symm
        (show execCode mon.mach p.labelAddr (.LAB n) st = .ok (st, .next) from rfl)
      obtain ⟨k, st', g', hk, R', A'⟩ := sim_step_aux hs ops2 (ops1 ++ [.label n]) (cs1 ++ [.LAB n])
        cs2' tail .normal (setPS st (cs1.length + 1) k1) (by rw [ho]; simp) (by rw [hc]; simp)
        (by rw [icount_append]; simpa [instrCount] using ha) (by simp [setPS]) S' (R.setPS _ _)
      refine ⟨1 + k, st', g', ?_, R', A'⟩
      rw [stepN_add mon p 1 k st _ (by rw [stepN_one]; exact hk1)]
      exact hk
    case li t imm =>
      obtain ⟨rfl, ht, h64, rfl, rfl⟩ := hop
      have hf := fetch_of_split hnodup ho (by simp) (by simp)
      rw [ha] at hf
      rw [step_li _ cfg t imm hf (posW_ne_temp ht)] at hs
      injection hs with hs
      obtain ⟨s', hx, R'⟩ := rep_li H (la := p.labelAddr) R ht h64
      exact fin s' _ rfl hx R' hs.symm
    case binop o t a b =>
      obtain ⟨rfl, ht, hpa, hpb, hta, htb, h3, rfl, rfl⟩ := hop
      have hf := fetch_of_split hnodup ho (by simp) (by simp)
      rw [ha] at hf
      simp only [Abs.step, hf] at hs
      obtain ⟨va, hva, hs⟩ := getT_next hs
      obtain ⟨vb, hvb, hs⟩ := getT_next hs
      cases hev : Abs.evalBinOp o va vb with
      | error e => simp [hev, stuck] at hs
      | ok v =>
        have hstep := step_binop _ cfg o t a b va vb v hf (posW_ne_temp ht) hva hvb hev
        simp only [Abs.step, hf, getT, hva, hvb] at hstep
        rw [hstep] at hs
        injection hs with hs
        obtain ⟨s', hx, R'⟩ := rep_binop H (la := p.labelAddr) R ht hpa hpb hta htb h3 hva hvb hev
        exact fin s' _ rfl hx R' hs.symm
    case jumpLabel n =>
      obtain ⟨rfl, rfl, hg⟩ := hop
      have hf := fetch_of_split hnodup ho (by simp) (by simp)
      rw [ha] at hf
      simp only [Abs.step, hf] at hs
      by_cases hn : (n == "cleanup") = true
      · rw [if_pos hn] at hs
        unfold getT at hs
        cases hv : cfg.temps.get T_RET1 <;> simp [hv, stuck] at hs
      · rw [if_neg hn] at hs
        have hg' : g = .normal := by
          rcases hg with h | ⟨_, h⟩
          · exact h
          · subst h; simp at hn
        subst hg'
        exact jmp st n (R.keep H R.bnd (preserved_refl _ _)) [] (code := .JMPL n) (rest := cs2' ++ tail)
          (by rw [hc]; simp) (by simpa using hi) rfl hs
    case jif c a b n =>
      obtain ⟨rfl, hpa, hpb, rfl, rfl⟩ := hop
      have hf := fetch_of_split hnodup ho (by simp) (by simp)
      rw [ha] at hf
      simp only [Abs.step, hf] at hs
      obtain ⟨va, hva, hs⟩ := getT_next hs
      obtain ⟨vb, hvb, hs⟩ := getT_next hs
      obtain ⟨s1, hx, R1, hcj⟩ := rep_jif H (la := p.labelAddr) R hpa hpb hva hvb n cfg.pc
      exact br s1 _ c n (Abs.evalCond c va vb) hx R1 hcj rfl rfl rfl hs
    case jifz c a n =>
      obtain ⟨rfl, hpa, rfl, rfl⟩ := hop
      have hf := fetch_of_split hnodup ho (by simp) (by simp)
      rw [ha] at hf
      simp only [Abs.step, hf] at hs
      obtain ⟨va, hva, hs⟩ := getT_next hs
      obtain ⟨s1, hx, R1, hcj⟩ := rep_jifz H (la := p.labelAddr) R hpa hva n cfg.pc
      exact br s1 _ c n (Abs.evalCond c va 0) hx R1 hcj rfl rfl rfl hs
    case mov t s' =>
      have hf := fetch_of_split hnodup ho (by simp) (by simp)
      rw [ha] at hf
      rcases hop with ⟨rfl, hps, rfl, rfl, rfl⟩ | ⟨hpt, hps, rfl, rfl, hns⟩
      · rw [step_mov' _ cfg _ s' hf (by decide)] at hs
        injection hs with hs
        obtain ⟨s1, hx, R'⟩ := rep_movRet H (la := p.labelAddr) R hps cfg.pc
        exact fin s1 _ rfl hx R' hs.symm
      · rw [step_mov' _ cfg t s' hf (posW_ne_temp hpt)] at hs
        injection hs with hs
        obtain ⟨s1, hx, R'⟩ := rep_mov H (la := p.labelAddr) R hpt hps hns cfg.pc
        exact fin s1 _ rfl hx R' hs.symm
    case save t sp =>
      obtain ⟨b, rfl, hpt, hg, rfl⟩ := hop
      have hf := fetch_of_split hnodup ho (by simp) (by simp)
      rw [ha] at hf
      rw [step_save' _ cfg t sp hf] at hs
      injection hs with hs
      obtain ⟨s1, hx, R'⟩ := rep_save H (la := p.labelAddr) R hpt b hg cfg.pc
      exact fin s1 _ rfl hx R' hs.symm
    case restore t sp =>
      obtain ⟨b, rfl, hpt, rfl, rfl⟩ := hop
      have hf := fetch_of_split hnodup ho (by simp) (by simp)
      rw [ha] at hf
      rw [step_restore' _ cfg t sp hf (posW_ne_temp hpt)] at hs
      injection hs with hs
      obtain ⟨s1, hx, R'⟩ := rep_restore H (la := p.labelAddr) b R hpt cfg.pc
      exact fin s1 _ rfl hx R' hs.symm
    case print nl s' kinds =>
      obtain ⟨ctx, rfl, rfl, hps, hlive, rfl, rfl⟩ := hop
      have hf := fetch_of_split hnodup ho (by simp) (by simp)
      rw [ha] at hf
      simp only [Abs.step, hf] at hs
      obtain ⟨v, hv, hs⟩ := getT_next hs
      injection hs with hs
      obtain ⟨s1, hx, R'⟩ := rep_print H (la := p.labelAddr) R (nl := nl) hps ctx hlive hv cfg.pc
      rw [← hmon] at hx
      obtain ⟨k, hk⟩ := steps_block_seq mon L hc' hi.symm hx
      refine ⟨_, _, .normal, hk, ?_, ?_⟩
      · rw [← hs]
        have hl : (Mock.kindsOf ctx).length = ctx.length := by simp [Mock.kindsOf]
        rw [hl]
        exact (R'.setPS _ _).setPc _
      · rw [← hs]
        simp only [setPS]
        rw [← ha]
        exact At.advance ho hcA rfl S'
    all_goals exact absurd hop (by simp)


include H hmon L hcs W hnodup hhdr in
/-- THEOREM B for one step of the abstract backend machine -/
theorem sim_step {cfg cfg' : Config} {g : Mode} {st : State}
    (hs : Abs.step (Program.ofOps ops) cfg = .next cfg') (R : RepX86 F g cfg st)
    (A : At ops cs cfg.pc st.pc g) :
    ∃ k st' g', stepN mon p k st = .inl st' ∧ RepX86 F g' cfg' st' ∧ At ops cs cfg'.pc st'.pc g' := by
  obtain ⟨ops1, ops2, cs1, cs2, tail, ho, hc, ha, hi, S⟩ := A
  exact sim_step_aux H hmon L hcs W hnodup hhdr hs ops2 ops1 cs1 cs2 tail g st ho hc ha hi S R

end World

/-! ## the halting step -/

/-- only `jumplabel cleanup` halts the abstract machine with a result -/
theorem step_done_inv {P : Program} {cfg : Config} {op : MockOp} {v : Word}
    (hf : P.code[cfg.pc]? = some op) (hs : Abs.step P cfg = .halt (.done v)) :
    op = .jumpLabel "cleanup" ∧ cfg.temps.get Mock.T_RET1 = some v := by
  simp only [Abs.step, hf] at hs
  cases op <;> simp only [] at hs
  case jumpLabel n =>
    by_cases hn : (n == "cleanup") = true
    · rw [if_pos hn] at hs
      obtain ⟨w, hw, hk⟩ := getT_done hs
      injection hk with hk
      injection hk with hk
      simp only [beq_iff_eq] at hn
      rw [hn]
      refine ⟨rfl, ?_⟩
      rw [← hk]; exact hw
    · rw [if_neg hn] at hs
      unfold jumpTo at hs
      split at hs <;> simp [stuck] at hs
  all_goals (first | (simp [getT, stuck, jumpTo] at hs; done) | skip)
  all_goals
    repeat' (first
      | (have hd := getT_done hs; clear hs; obtain ⟨_, _, hs⟩ := hd)
      | (unfold jumpTo at hs)
      | (split at hs)
      | (simp [stuck] at hs; done))

/-- what the run knows about its entry state `st0` (System V entry of `asm_main`) -/
structure EntryFacts (F : Frame) (st0 : State) (h : Word) : Prop where
  entry : EntryOK F.c st0 F.m
  pro : AfterPrologueM st0 F.st1 F.m h
  mtop : F.m = F.c.stackTop - 8
  top8 : F.c.stackTop % 8 = 0
  room : F.c.stackLow + 8 ≤ F.c.stackTop
  retw : st0.stackMem[F.c.stackTop - 8]? = some retSentinel
  callee : ∀ r ∈ calleeSaved, st0.regs[r]? = some (some (calleeSentinel r))

theorem retCheck_steps (c : MachCfg) (s : State) (k : Nat) :
    retCheck c { s with steps := k } = retCheck c s := rfl

/-- the transition of `ret` -/
theorem step_ret {m : MonCfg} {p : Prog} {s : State} {v : Word} (hf : p.code[s.pc]? = some Code.RET)
    (hr : retCheck m.mach s = .ok v) : step m p s = .inr (.done v) := by
  unfold step
  simp only [hf, execCode]
  have : codeSize Code.RET = 3 := rfl
  simp only [this, show ¬ (3 = 0) by decide, if_false, retCheck_steps, hr]

theorem stripC_ret {code : Code} (h : stripC code = stripC Code.RET) : code = Code.RET := by
  cases code <;> first | rfl | (simp [stripC] at h)

section Halt

variable {F : Frame} (H : FrameOK F) {mon : MonCfg} (hmon : mon.mach = F.c) {p : Prog}
  {ops : List MockOp} {cs hdr body : List Code}
  (L : Loaded p cs) (hcs : cs = hdr ++ body ++ cleanup) (W : Seg .normal ops body .normal)
  (hnodup : (labelNames ops).Nodup) (hclean : "cleanup" ∉ labs hdr ++ labelNames ops)
  {st0 : State} {h : Word} (E : EntryFacts F st0 h)

include H hmon L hcs W hnodup hclean E in
/-- THEOREM B, the halting step: jump to `cleanup`, epilogue, `ret` with a successful exit check -/
theorem sim_halt_aux {cfg : Config} {v : Word}
    (hs : Abs.step (Program.ofOps ops) cfg = .halt (.done v)) :
    ∀ (ops2 ops1 : List MockOp) (cs1 cs2 tail : List Code) (g : Mode) (st : State),
      ops = ops1 ++ ops2 → cs = cs1 ++ cs2 ++ tail → instrCount ops1 = cfg.pc → cs1.length = st.pc →
      Seg g ops2 cs2 .normal → RepX86 F g cfg st →
      ∃ k stL, stepN mon p k st = .inl stL ∧ step mon p stL = .inr (.done v) ∧ stL.out = cfg.out
  | [], ops1, cs1, cs2, tail, g, st, ho, hc, ha, hi, S, R => by
    exfalso
    have : (Program.ofOps ops).code[cfg.pc]? = none := by
      rw [Array.getElem?_eq_none_iff, ofOps_size, ← ha, ho]; simp
    simp [Abs.step, this, stuck] at hs
  | op :: ops2, ops1, cs1, cs2, tail, g, st, ho, hc, ha, hi, S, R => by
    cases S with
    | @cons _ g1 _ _ blk _ cs2' hop S' =>
    by_cases hcm : ∃ m, op = .comment m
    · obtain ⟨m, rfl⟩ := hcm
      simp only [OpRel] at hop
      obtain ⟨rfl, rfl⟩ := hop
      have hcF : cs = cs1 ++ Code.COMMENT m :: (cs2' ++ tail) := by rw [hc]; simp
      obtain ⟨k1, hk1⟩ := step_fall mon L hcF hi.symm
        (show execCode mon.mach p.labelAddr (.COMMENT m) st = .ok (st, .next) from rfl)
      obtain ⟨k, stL, hk, hL, hout⟩ := sim_halt_aux hs ops2 (ops1 ++ [.comment m]) (cs1 ++ [.COMMENT m])
        cs2' tail g1 (setPS st (cs1.length + 1) k1) (by rw [ho]; simp) (by rw [hc]; simp)
        (by rw [icount_append]; simpa [instrCount] using ha) (by simp [setPS]) S' (R.setPS _ _)
      exact ⟨1 + k, stL, by rw [stepN_add mon p 1 k st _ (by rw [stepN_one]; exact hk1)]; exact hk, hL, hout⟩
    by_cases hlb : ∃ n, op = .label n
    · obtain ⟨n, rfl⟩ := hlb
      simp only [OpRel] at hop
      obtain ⟨rfl, rfl, rfl⟩ := hop
      have hcF : cs = cs1 ++ Code.LAB n :: (cs2' ++ tail) := by rw [hc]; simp
      obtain ⟨k1, hk1⟩ := step_fall mon L hcF hi.symm
        (show execCode mon.mach p.labelAddr (.LAB n) st = .ok (st, .next) from rfl)
      obtain ⟨k, stL, hk, hL, hout⟩ := sim_halt_aux hs ops2 (ops1 ++ [.label n]) (cs1 ++ [.LAB n])
        cs2' tail .normal (setPS st (cs1.length + 1) k1) (by rw [ho]; simp) (by rw [hc]; simp)
        (by rw [icount_append]; simpa [instrCount] using ha) (by simp [setPS]) S' (R.setPS _ _)
      exact ⟨1 + k, stL, by rw [stepN_add mon p 1 k st _ (by rw [stepN_one]; exact hk1)]; exact hk, hL, hout⟩
    -- a real instruction: it is `jumplabel cleanup`
    have hf := fetch_of_split hnodup ho (fun m e => hcm ⟨m, e⟩) (fun n e => hlb ⟨n, e⟩)
    rw [ha] at hf
    obtain ⟨rfl, hv⟩ := step_done_inv hf hs
    simp only [OpRel] at hop
    obtain ⟨rfl, _, _⟩ := hop
    obtain ⟨hg, hrax⟩ := R.ret v hv
    -- the jump
    have hidx : labIdx cs "cleanup" = some (hdr ++ body).length := by
      have : cs = (hdr ++ body) ++ Code.LAB "cleanup" :: (epilogue.tail ++ [Code.RET]) := by
        rw [hcs, cleanup_eq]; rfl
      rw [this]
      apply labIdx_append_of_not_mem
      rw [labs_append, W.labs]
      exact hclean
    have hcJ : cs = cs1 ++ Code.JMPL "cleanup" :: (cs2' ++ tail) := by rw [hc]; simp
    obtain ⟨k1, hk1⟩ := step_jump mon L hcJ hi.symm
      (show execCode mon.mach p.labelAddr (.JMPL "cleanup") st = .ok (st, .jumpLabel "cleanup") from rfl) hidx
    -- the epilogue
    have R2 := R.setPS (hdr ++ body).length k1
    have hsp1 : F.st1.regs[0]? = some (some F.sp) := E.pro.rsp
    obtain ⟨st3, e3, S3, hsize3, hrsp3, hcal3, hreg3, hmem3⟩ :=
      prologue_epilogue_machine (la := p.labelAddr) E.entry E.pro R2.bnd.size
        (by rw [R2.bnd.rsp, hsp1]) R2.frame
    have hcE : cs = (hdr ++ body) ++ epilogue ++ [Code.RET] := by rw [hcs, cleanup_eq]; simp
    rw [← hmon] at e3
    obtain ⟨k2, hk2⟩ := steps_block mon L hcE (by simp [setPS]) e3
    -- `ret`
    have hcR : cs = ((hdr ++ body) ++ epilogue) ++ Code.RET :: [] := by rw [hcE]
    obtain ⟨code', hf', hs'⟩ := L.fetch hcR
    have hcode' := stripC_ret hs'
    subst hcode'
    have hret : retCheck mon.mach (setPS st3 ((hdr ++ body).length + epilogue.length) k2) = .ok v := by
      rw [hmon]
      have hm := E.mtop
      apply retCheck_ok H.cfg E.top8 E.room
      · show st3.regs[0]? = _
        rw [hrsp3, hm]
      · show st3.stackMem[F.c.stackTop - 8]? = _
        rw [hmem3 _ (by rw [hm]; exact Nat.le_refl _)]
        exact E.retw
      · intro r hr
        show st3.regs[r]? = _
        rw [hcal3 r (by simpa [calleeSaved] using hr)]
        exact E.callee r hr
      · show st3.regs[4]? = _
        rw [hreg3 4 (by decide) (by decide) (by decide)]
        show st.regs[4]? = _
        have := hrax
        simp only [tempVal, RETURN1_eq] at this
        cases h4 : st.regs[4]? with
        | none => rw [h4] at this; simp at this
        | some x => rw [h4] at this; simp at this; rw [this]
    refine ⟨1 + epilogue.length, _, ?_, step_ret (by simpa [setPS, Nat.add_assoc] using hf') hret, ?_⟩
    · rw [stepN_add mon p 1 _ st _ (by rw [stepN_one]; exact hk1)]
      exact hk2
    · show st3.out = cfg.out
      rw [S3.out]
      exact R.out

include H hmon L hcs W hnodup hclean E in
theorem sim_halt {cfg : Config} {v : Word} {g : Mode} {st : State}
    (hs : Abs.step (Program.ofOps ops) cfg = .halt (.done v)) (R : RepX86 F g cfg st)
    (A : At ops cs cfg.pc st.pc g) :
    ∃ k stL, stepN mon p k st = .inl stL ∧ step mon p stL = .inr (.done v) ∧ stL.out = cfg.out := by
  obtain ⟨ops1, ops2, cs1, cs2, tail, ho, hc, ha, hi, S⟩ := A
  exact sim_halt_aux H hmon L hcs W hnodup hclean E hs ops2 ops1 cs1 cs2 tail g st ho hc ha hi S R

end Halt

end Scc.X86.Ref
