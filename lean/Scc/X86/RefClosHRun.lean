/-
  Scc.X86.RefClosHRun — THE RUN THEOREM on x86-64 for ALL programs (data types and closures): the three-way
  step (`step3`: all eleven statement forms, from Theorem A's `TheoremA_full` with the machine carried
  along; the closure invariant `XC` of RefClosDefs.lean is part of the relation), the three-way run
  (`run3_aux`), and the composition with the initial state (`programs_items`).
  NOTE (fork): this file is the closure-aware version of Scc/X86/RefHeapRun.lean (same proofs, the
  three-way relation additionally carries the per-instance code-pointer map `κ`), in the namespace
  `Scc.X86.Ref.K`.  The original file is kept unchanged because Scc/X86/Conc*.lean (C09/C10/C13 on concrete
  runs) is built on its definitions.
-/
import Scc.X86.RefClosHInit
import Scc.X86.RefClosInvoke
import Scc.X86.RefCompose
import Scc.Props.C06Generic

set_option linter.unusedVariables false
set_option linter.unusedSimpArgs false

namespace Scc.X86.Ref.K

open Scc Scc.AxCut Scc.AxCut.Pos Scc.Backend Scc.Backend.Abs Scc.Backend.Sim Scc.Backend.Subst Scc.X86
open Scc.Backend.Sim2 Scc.Backend.Keys
open Scc.Props.C14Generic (LabelSafe)
open Scc.Props.C06Generic (outAfter WithinCapacity Reachable EnoughHeap CodeFits fits_of_codeFits
  kinds_of_fieldsTyped chiTys_fst fresh_of_nodup_snoc take_of_append)
open Scc.Heap (HState InvS InvW)
open Scc.Heap.Refine (HRef FrLe Room)

mutual
  /-- statements of programs with data types but without closures: no `create`, no `invoke` -/
  def DataStmt : Stmt → Prop
    | .lit _ _ next _ => DataStmt next
    | .op _ _ _ _ next _ => DataStmt next
    | .print _ _ next _ => DataStmt next
    | .ifc _ _ _ t e => DataStmt t ∧ DataStmt e
    | .exit _ => True
    | .call _ _ => True
    | .subst _ next => DataStmt next
    | .letS _ _ _ _ next _ => DataStmt next
    | .switch _ _ clauses _ => DataClauses clauses
    | .create _ _ _ _ _ _ _ => False
    | .invoke _ _ _ _ => False
  def DataClauses : Clauses → Prop
    | .nil => True
    | .cons _ _ body rest => DataStmt body ∧ DataClauses rest
end

/-- what the run needs of the current statement: literals within i64 (the same is kept for the methods of
every closure VALUE by the closure invariant `XC`) -/
def StmtOK (s : Stmt) : Prop := StmtB (fun n => fitsI64 n = true) maxSubstX86 s

/-- the same for the program: tables of at most `maxTagsX86` xtors, every definition `StmtOK`
(`ProgInRange`) -/
def ProgOK (p : AxCut.Prog) : Prop :=
  (∀ d ∈ p.types, d.xtors.length ≤ maxTagsX86) ∧ ∀ d ∈ p.defs, StmtOK d.body

theorem dataClauses_nth : ∀ {cs : Clauses} {i : Nat} {c : Clause}, DataClauses cs → nthClause cs i = some c →
    DataStmt c.body
  | .nil, _, _, _, h => by simp [nthClause] at h
  | .cons x ctx body rest, 0, c, hd, h => by
    simp only [nthClause, Option.some.injEq] at h
    subst h
    exact hd.1
  | .cons x ctx body rest, i + 1, c, hd, h => by
    simp only [nthClause] at h
    exact dataClauses_nth hd.2 h

theorem clausesB_nth {L : Int → Prop} {M : Nat} : ∀ {cs : Clauses} {i : Nat} {c : Clause},
    ClausesB L M cs → nthClause cs i = some c → StmtB L M c.body
  | .nil, _, _, _, h => by simp [nthClause] at h
  | .cons x ctx body rest, 0, c, hd, h => by
    simp only [nthClause, Option.some.injEq] at h
    subst h
    exact hd.1
  | .cons x ctx body rest, i + 1, c, hd, h => by
    simp only [nthClause] at h
    exact clausesB_nth hd.2 h

theorem FrLe.refl' (s : HState) {δ : Nat} : FrLe s s δ :=
  ⟨rfl, rfl, fun _ _ _ _ _ _ _ _ _ _ J J' => by
    have := (Scc.Heap.InvS.witness_unique J J').2.2; omega⟩

theorem FrLe.mono' {s s' : HState} {a b : Nat} (h : FrLe s s' a) (hab : a ≤ b) : FrLe s s' b :=
  ⟨h.1, h.2.1, fun _ _ _ _ _ _ _ _ _ _ J J' => by have := h.2.2 _ _ _ _ _ _ _ _ _ _ J J'; omega⟩

/-- THE THREE-WAY RELATION at a statement boundary (with the closure invariant `XC`) -/
def Rel3 (F : Frame) (cs : List Code) (P : Program) (hooks : Bool) (prog : AxCut.Prog) (st : Pos.State)
    (cfg : Config) (hs : HState) (X : State) : Prop :=
  ∃ (Γ' : Ctx) (ι : Nat → Nat) (κ : Nat → Nat → Word), Γ'.keys = st.ctx.keys ∧ RelX P hooks prog ⟨Γ', st.env, st.stmt⟩ cfg ∧
    X3 F Γ' cfg hs ι κ X ∧ XC P F.c cs hooks prog.types F Γ' st.env cfg κ X ∧
    ∃ k k' items, (codeStatementR x86Backend hooks natRen prog.types st.stmt Γ').run k = .ok (items, k') ∧
      XAt cs X.pc items

/-- the three-way simulation claim for one step of the positional machine.  The relation holds again at
the statement-boundary state `X'`; the machine itself is at `XR`, which is `X'` or `X'` moved forward over
labels and comments (`Tol`: after the `jmp reg` of an `invoke` of a single-method closure) -/
def StepSim3 (F : Frame) (mon : MonCfg) (px : X86.Prog) (cs : List Code) (P : Program) (hooks : Bool)
    (prog : AxCut.Prog) (st : Pos.State) (cfg : Config) (hs : HState) (X : State) : Prop :=
  match Pos.step prog st with
  | .next st' o =>
    WithinCapacity st'.ctx → 2 * st'.ctx.length ≤ 266 →
    ∃ cfg' hs' X' XR n, stepN mon px n X = .inl XR ∧ Tol cs X' XR ∧ cfg'.out = outAfter o cfg.out ∧
      cfg'.next ≤ cfg.next + 1 ∧
      FrLe hs hs' (64 * 133) ∧ Rel3 F cs P hooks prog st' cfg' hs' X' ∧ StmtOK st'.stmt
  | .done v => ∃ n XL, stepN mon px n X = .inl XL ∧ step mon px XL = .inr (.done v) ∧ XL.out = cfg.out
  | .stuck _ => True

/-- behind every item of the routine there is one of non-zero size (the `ret` of the cleanup) -/
theorem real_after (pre : List Code) : ∀ idx, idx < (pre ++ cleanup).length →
    ∃ i, idx ≤ i ∧ ∃ h : i < (pre ++ cleanup).length, codeSize (pre ++ cleanup)[i] ≠ 0 := by
  intro idx hidx
  have hl : cleanup.length = cleanup.length - 1 + 1 := rfl
  have hget : (pre ++ cleanup)[pre.length + (cleanup.length - 1)]? = some Code.RET := by
    rw [List.getElem?_append_right (by omega), Nat.add_sub_cancel_left]
    rfl
  obtain ⟨h, he⟩ := List.getElem?_eq_some_iff.mp hget
  refine ⟨pre.length + (cleanup.length - 1), ?_, h, ?_⟩
  · simp only [List.length_append] at hidx
    omega
  · rw [he]
    simp [codeSize]

section Run3

variable {F : Frame} (HF : FrameOK F) (h8 : F.c.heapBase % 8 = 0) {mon : MonCfg} (hmon : mon.mach = F.c)
  {px : X86.Prog} {cs pre : List Code} (LA : LoadedA F.c px cs) (hndL : (labs cs).Nodup)
  (hfitX : addrAt F.c.codeBase cs cs.length < 2 ^ 64) (hcs : cs = pre ++ cleanup)
  (hclean : "cleanup" ∉ labs pre) {st0 : State} {h : Word} (E : EntryFacts F st0 h)

include HF h8 hmon LA hndL hfitX hcs hclean E in
/-- THE THREE-WAY STEP: Theorem A's `TheoremA_full` with the x86-64 machine carried along, for ALL ELEVEN
statement forms -/
theorem step3 (hooks : Bool) (prog : AxCut.Prog) (c : Nat) (code : List MockOp) (nargs c' : Nat)
    (hcomp : (compile mockSym hooks prog).run c = .ok ((code, nargs), c'))
    (hsafe : LabelSafe prog = true) (htp : LinTypedProg prog) (hfit : CodeFits code)
    (DX : XDefsAt cs hooks prog) (hprog : ProgOK prog)
    (st : Pos.State) (cfg : Config) (hs : HState) (X : State)
    (R : Rel3 F cs (Program.ofOps code) hooks prog st cfg hs X)
    (T : Pos.StateTyped prog st) (hheap : EnoughHeap cfg) (hok : StmtOK st.stmt)
    (hroom : Room hs (64 * 134)) :
    StepSim3 F mon px cs (Program.ofOps code) hooks prog st cfg hs X := by
  have L := LA.loaded
  have hreal : ∀ idx, idx < cs.length → ∃ i, idx ≤ i ∧ ∃ h : i < cs.length, codeSize cs[i] ≠ 0 := by
    rw [hcs]; exact real_after pre
  have hnodup := Scc.Props.C14Generic.labels_unique hooks prog c code nargs c' hcomp hsafe
  have D := defsAt_of_compile hooks prog c code nargs c' hcomp hnodup
  have hfits := fits_of_codeFits hfit
  obtain ⟨Γ, ρ, s⟩ := st
  obtain ⟨Γ', ι, κ, hk, RX, X3h, C, kx, kx', items, hrunX, hatX⟩ := R
  obtain ⟨hty, henv⟩ := T
  simp only at hk RX hty henv C
  have hlenk : Γ'.length = Γ.length := keys_length hk
  have hlenρ : ρ.length = Γ'.length := RX.len
  have hdef := X3h.mach_def RX
  unfold StepSim3
  simp only [StmtOK] at hok
  have hcapX3 := X3h.cap
  cases hty with
  | lit hn hfr hnext =>
    rename_i x n next fv
    simp only [Pos.step]
    intro hcap hcap2
    obtain ⟨cfg', X', m, h1, hm, h2, h3, h4, h5, k1, k1', items', hr', hat', hh, K⟩ :=
      lit_x3 HF hmon L RX (mem_ids_keys hk hfr)
      (by simp [WithinCapacity] at hcap; omega) X3h hrunX hatX hok.1
    exact ⟨cfg', hs, X', X', m, hm, Tol.refl _ _, h2, by omega, FrLe.refl' hs,
      ⟨Γ' ++ [⟨x, .ext, .i64⟩], ι, κ, keys_append hk rfl, h4, h5, C.snoc_int hlenρ K hh _ _,
        k1, k1', items', hr', hat'⟩, hok.2⟩
  | op hn ha hb hfr hnext =>
    rename_i x a o b next fv
    simp only [Pos.step]
    cases hra : readInt Γ ρ a with
    | error e => simp
    | ok va =>
      cases hrb : readInt Γ ρ b with
      | error e => simp
      | ok vb =>
        cases hv : Pos.evalOp o va vb with
        | error e => simp [hv]
        | ok v =>
          simp only [hv]
          intro hcap hcap2
          obtain ⟨cfg', X', m, h1, hm, h2, h3, h4, h5, k1, k1', items', hr', hat', hh, K⟩ :=
            op_x3 HF hmon L RX (mem_ids_keys hk hfr)
            (by simp [WithinCapacity] at hcap; omega)
            (by rw [readInt_keys hk]; exact hra) (by rw [readInt_keys hk]; exact hrb) hv X3h hrunX hatX
          exact ⟨cfg', hs, X', X', m, hm, Tol.refl _ _, h2, by omega, FrLe.refl' hs,
            ⟨Γ' ++ [⟨x, .ext, .i64⟩], ι, κ, keys_append hk rfl, h4, h5, C.snoc_int hlenρ K hh _ _,
              k1, k1', items', hr', hat'⟩, hok⟩
  | print hn ha hnext =>
    rename_i nl a next fv
    simp only [Pos.step]
    cases hra : readInt Γ ρ a with
    | error e => simp
    | ok v =>
      simp only
      intro _ _
      obtain ⟨cfg', X', m, h1, hm, h2, h3, h4, h5, k1, k1', items', hr', hat', hh, K⟩ := print_x3 HF hmon L RX
        (by rw [readInt_keys hk]; exact hra) X3h hrunX hatX
      exact ⟨cfg', hs, X', X', m, hm, Tol.refl _ _, h2, by omega, FrLe.refl' hs,
        ⟨Γ', ι, κ, hk, h4, h5, C.keep rfl K hh, k1, k1', items', hr', hat'⟩, hok⟩
  | ifc hn ha hb ht he =>
    rename_i srt a b t e
    simp only [Pos.step]
    cases hra : readInt Γ ρ a with
    | error err => simp
    | ok va =>
      cases b with
      | none =>
        simp only
        intro _ _
        obtain ⟨cfg', X', m, h1, hm, h2, h3, h4, h5, k1, k1', items', hr', hat', hh, K⟩ :=
          ifc_x3 HF hmon L hndL (b := none) (vb := 0) RX
          (by rw [readInt_keys hk]; exact hra) rfl X3h hrunX hatX
        refine ⟨cfg', hs, X', X', m, hm, Tol.refl _ _, h2, by omega, FrLe.refl' hs,
          ⟨Γ', ι, κ, hk, h4, h5, C.keep rfl K hh, k1, k1', items', hr', hat'⟩, ?_⟩
        show StmtB _ _ (if Pos.evalCmp srt va 0 then t else e)
        split
        · exact hok.1
        · exact hok.2
      | some b' =>
        simp only
        cases hrb : readInt Γ ρ b' with
        | error err => simp
        | ok vb =>
          simp only
          intro _ _
          obtain ⟨cfg', X', m, h1, hm, h2, h3, h4, h5, k1, k1', items', hr', hat', hh, K⟩ :=
            ifc_x3 HF hmon L hndL (b := some b') (vb := vb) RX
            (by rw [readInt_keys hk]; exact hra) (by simp only; rw [readInt_keys hk]; exact hrb)
            X3h hrunX hatX
          refine ⟨cfg', hs, X', X', m, hm, Tol.refl _ _, h2, by omega, FrLe.refl' hs,
            ⟨Γ', ι, κ, hk, h4, h5, C.keep rfl K hh, k1, k1', items', hr', hat'⟩, ?_⟩
          show StmtB _ _ (if Pos.evalCmp srt va vb then t else e)
          split
          · exact hok.1
          · exact hok.2
  | exit hn ha =>
    rename_i a
    simp only [Pos.step]
    cases hra : readInt Γ ρ a with
    | error e => simp
    | ok v =>
      simp only
      exact exit_x3 HF hmon L hcs hclean E RX (by rw [readInt_keys hk]; exact hra) X3h hrunX hatX
  | call hn hf hc =>
    rename_i l args params
    simp only [Pos.step]
    cases hd : Pos.findDef prog.defs l with
    | none => simp
    | some d =>
      simp only
      by_cases hsh : Pos.chiTys Γ ≠ Pos.chiTys d.ctx ∨ ρ.length ≠ Γ.length
      · simp [hsh]
      · simp only [hsh, if_false]
        intro _ _
        have hchi : Pos.chiTys Γ = Pos.chiTys d.ctx := by
          by_cases h : Pos.chiTys Γ = Pos.chiTys d.ctx
          · exact h
          · exact absurd (Or.inl h) hsh
        obtain ⟨cfg', X', m, h1, hm, h2, h3, h4, h5, k1, k1', items', hr', hat', hh, K⟩ := call_x3 hmon L RX D DX hd
          (by rw [keys_chiTys hk]; exact hchi) X3h hrunX hatX
        have hdm : d ∈ prog.defs := List.mem_of_find?_eq_some hd
        have hchi' : Γ'.map (·.chi) = d.ctx.map (·.chi) := by
          rw [keys_chi hk]
          have := congrArg (List.map (·.1)) hchi
          simpa [Pos.chiTys, Function.comp_def] using this
        exact ⟨cfg', hs, X', X', m, hm, Tol.refl _ _, h2, by omega, FrLe.refl' hs,
          ⟨d.ctx, ι, κ, rfl, h4, h5, C.keep hchi' K hh, k1, k1', items', hr', hat'⟩, hprog.2 d hdm⟩
  | subst hn hhas hnew hnext =>
    rename_i pairs next
    simp only [Pos.step]
    cases hb : Pos.step.build Γ ρ pairs with
    | error e => simp
    | ok vs =>
      simp only
      intro hcap hcap2
      have hnew' : (pairs.map (·.1.var.id)).Nodup := by
        have : ((pairs.map (·.1)).map (·.var.id)).Nodup := hnew
        rw [List.map_map] at this
        exact this
      have hold : ∀ p ∈ pairs, ∃ b ∈ Γ', b.var.id = p.2.id ∧ b.chi = p.1.chi := by
        intro p hp
        obtain ⟨b, hb', hid, hchi, _⟩ := hasVar_keys hk (hhas p hp)
        exact ⟨b, hb', hid, hchi⟩
      have hpl : 2 * pairs.length ≤ 266 := by simpa using hcap2
      obtain ⟨k, cfg', X', hs', m, h1, hm, hfr, h2, h3, h4, h5, k1, k1', items', hr', hat', SP⟩ :=
        subst_x3 HF h8 hmon L hndL RX
        (nodup_keys hk hn) hnew' hold
        (by simpa [WithinCapacity] using hcap) (by rw [build_keys hk]; exact hb) X3h hrunX hatX
        (by omega) hpl
      exact ⟨cfg', hs', X', X', m, hm, Tol.refl _ _, h2, by omega, FrLe.mono' hfr (by omega),
        ⟨pairs.map (·.1), ι, κ, rfl, h4, h5, XC.subst C hlenρ RX.heap h1 h4 SP, k1, k1', items', hr', hat'⟩,
        hok.2⟩
  | @letS _ Γ0 Γa x ty tag args sig next fv hn hsplit hkeys hs hs' hfr hnext =>
    have hlenA : Γa.length = args.length := keys_length hkeys
    have hsplit' : Γ = Γ0 ++ Γa := hsplit
    have hkA : args.length ≤ Γ.length := by rw [hsplit']; simp; omega
    simp only [Pos.step]
    by_cases hsh : Γ.length < args.length ∨ ρ.length ≠ Γ.length
    · rw [if_pos hsh]; trivial
    · rw [if_neg hsh]
      cases hpos : Pos.tagPosition prog.types ty tag with
      | error e => trivial
      | ok pos =>
        simp only
        intro hcap hcap2
        have hn0 : Γ.length - args.length = Γ0.length := by rw [hsplit']; simp; omega
        have htake : Γ.take (Γ.length - args.length) = Γ0 := by
          rw [← hlenA]; exact take_of_append hsplit'
        have hkt : Ctx.keys (Γ'.take (Γ'.length - args.length)) = Γ0.keys := by
          rw [hlenk, keys_take hk, htake]
        have hargs133 : args.length ≤ 133 := by omega
        obtain ⟨dT, hdT, hxT⟩ := tagPosition_ok hpos
        have hposlt : pos < dT.xtors.length := by
          have := xtorPosition_go_lt dT.xtors tag 0 pos hxT
          omega
        have hdTm : dT ∈ prog.types := by
          cases ty with
          | i64 => simp [lookupTypeDecl] at hdT
          | decl nm => exact List.mem_of_find?_eq_some hdT
        have hfitT : fitsI64 (jumpLength pos) = true := by
          have := hprog.1 dT hdTm
          unfold maxTagsX86 at this
          unfold fitsI64 jumpLength
          have e5 : (consts.jumpLengthFactor : Int) = 5 := rfl
          rw [e5]
          simp only [decide_eq_true_eq, Bool.and_eq_true]
          omega
        obtain ⟨cfg', X', hs', ι', κ', m, h1, hm, hfr, h2, h3, h4, h5, k1, k1', items', hr', hat', LP⟩ :=
          let_x3 HF h8 hmon L hndL RX
          (by rw [hlenk]; exact hkA) (mem_ids_keys hkt hfr) hpos
          (by
            simp only [WithinCapacity, htake, List.length_append, List.length_singleton] at hcap
            rw [hlenk, hn0]; exact hcap) hheap X3h hrunX hatX
          (hroom.mono (by omega)) hfitT
        obtain ⟨C0, r, hr, hXB⟩ := XC.let_parts C hlenρ (Nat.sub_le _ _) RX.heap hheap hdef LP
        have hNlen : (Γ'.take (Γ'.length - args.length)).length = Γ'.length - args.length := by simp
        have C' := XC.snoc C0 (by simp [hlenρ]) ⟨x, .prd, ty⟩ (.obj pos (ρ.drop (Γ'.length - args.length)))
          (fun w hw => by
            rw [hNlen, hr]
            exact .obj pos _ r _ w hXB)
        rw [hlenk] at h4 h5 C' hr'
        refine ⟨cfg', hs', X', X', m, hm, Tol.refl _ _, h2, h3, FrLe.mono' hfr (by omega),
          ⟨_, ι', κ', ?_, h4, h5, C', k1, k1', items', hr', hat'⟩, hok⟩
        show Ctx.keys (Γ'.take (Γ.length - args.length) ++ [_]) =
          Ctx.keys (Γ.take (Γ.length - args.length) ++ [_])
        rw [htake, ← hlenk]
        exact keys_append hkt rfl
  | @create _ Γn Γe Γc x ty clauses next fc fn d hn hsplit hkeys hd hm hcl hfr hnext =>
    have hlenE : Γe.length = Γc.length := keys_length hkeys
    have hsplit' : Γ = Γn ++ Γe := hsplit
    have hkA : Γc.length ≤ Γ.length := by rw [hsplit']; simp; omega
    simp only [Pos.step]
    by_cases hsh : Γ.length < Γc.length ∨ ρ.length ≠ Γ.length
    · rw [if_pos hsh]; trivial
    · rw [if_neg hsh]
      simp only
      intro hcap hcap2
      have hn0 : Γ.length - Γc.length = Γn.length := by rw [hsplit']; simp; omega
      have htake : Γ.take (Γ.length - Γc.length) = Γn := by
        rw [← hlenE]; exact take_of_append hsplit'
      have hdrop : Γ.drop (Γ.length - Γc.length) = Γe := by
        rw [hn0, hsplit']; simp
      have hkt : Ctx.keys (Γ'.take (Γ'.length - Γc.length)) = Γn.keys := by
        rw [hlenk, keys_take hk, htake]
      have hkd : Ctx.keys (Γ'.drop (Γ'.length - Γc.length)) = Γc.keys := by
        rw [hlenk, keys_drop hk, hdrop]; exact hkeys
      have hc133 : Γc.length ≤ 133 := by omega
      obtain ⟨cfg', X', hs', ι', κ', m, h1, hm, hfr, h2, h3, h4, h5, k1, k1', items', hr', hat', LP, a, w0, ha, hw0,
        hmeth, hxm⟩ := create_x3 HF h8 hmon L hndL LA RX (by rw [hlenk]; exact hkA) hkd (mem_ids_keys hkt hfr)
          (by
            simp only [WithinCapacity, htake, List.length_append, List.length_singleton] at hcap
            rw [hlenk, hn0]; exact hcap) hheap X3h hrunX hatX (hroom.mono (by omega))
      obtain ⟨C0, r, hr, hXB⟩ := XC.let_parts C hlenρ (Nat.sub_le _ _) RX.heap hheap hdef LP
      have hNlen : (Γ'.take (Γ'.length - Γc.length)).length = Γ'.length - Γc.length := by simp
      have C' := XC.snoc C0 (by simp [hlenρ]) ⟨x, .cns, ty⟩ (.clo Γc (ρ.drop (Γ'.length - Γc.length)) clauses)
        (fun w hw => by
          rw [hNlen, hr, ha]
          rw [hNlen, hw0] at hw
          injection hw with hw
          subst hw
          exact .clo Γc _ _ clauses r a w0 hkd hXB hmeth hxm hok.1)
      rw [hlenk] at h4 h5 C' hr'
      refine ⟨cfg', hs', X', X', m, hm, Tol.refl _ _, h2, h3, FrLe.mono' hfr (by omega),
        ⟨_, ι', κ', ?_, h4, h5, C', k1, k1', items', hr', hat'⟩, hok.2⟩
      show Ctx.keys (Γ'.take (Γ.length - Γc.length) ++ [_]) =
        Ctx.keys (Γ.take (Γ.length - Γc.length) ++ [_])
      rw [htake, ← hlenk]
      exact keys_append hkt rfl
  | @switch _ Γ0 b x ty cls fv d hn hsplit hb hd hm hcl =>
    subst hsplit
    obtain ⟨ρ', v, rfl, hρ', hv⟩ := Pos.env_last henv
    have hbid : b.var.id = x.id := congrArg (·.1) hb
    have hbchi : b.chi = .prd := congrArg (·.2.1) hb
    have hbty : b.ty = ty := congrArg (·.2.2) hb
    rw [hbchi, hbty] at hv
    have hlen : (ρ' ++ [v]).length = (Γ0 ++ [b]).length := by
      rw [henv.length_eq, Pos.chiTys_length]
    have hcnd : ¬ (b.var.id ≠ x.id ∨ (ρ' ++ [v]).length ≠ (Γ0 ++ [b]).length) := by
      simp [hbid, hlen]
    cases hv with
    | obj hd' hx hf =>
      rename_i d' tag xt fields
      have := Pos.lookupTypeDecl_unique hd hd'
      subst this
      obtain ⟨cl, hc1, hc2, hc3⟩ := Pos.nthClause_ok d.xtors cls tag xt hm hx
      have hfl : fields.length = cl.ctx.length := by
        rw [hf.length_eq, hc2, Pos.chiTys_length]
      simp only [Pos.step, List.getLast?_concat, if_neg hcnd, hc1, hfl, ne_eq, not_true_eq_false,
        if_false, List.dropLast_concat]
      intro hcap hcap2
      obtain ⟨Γ0', b', rfl, hk0, hkb⟩ := keys_snoc hk
      have hb'id : b'.var.id = x.id := by
        have := congrArg (·.1) hkb
        simp only [Binding.key] at this
        rw [this]; exact hbid
      have hb'chi : b'.chi = .prd := by
        have := congrArg (·.2.1) hkb
        simp only [Binding.key] at this
        rw [this]; exact hbchi
      have hkinds : fields.map Sim2.kindOf = Mock.kindsOf cl.ctx := by
        rw [kinds_of_fieldsTyped hf, hc2, chiTys_fst]
      have hfr : x.id ∉ Γ0.ids := by rw [← hbid]; exact fresh_of_nodup_snoc hn
      have hlen0 : ρ'.length = Γ0'.length := by simpa using hlenρ
      obtain ⟨k, cfg', X', hs', m, h1, hm, hfr', h2, h3, h4, h5, k1, k1', items', hr', hat', LP⟩ :=
        switch_x3 HF h8 hmon LA hndL hfitX RX
        hfits hb'id (mem_ids_keys hk0 hfr) hc1 hkinds
        (by
          simp only [WithinCapacity, List.length_append] at hcap
          rw [keys_length hk0]; exact hcap) X3h hrunX hatX
        (by
          simp only [List.length_append] at hcap2
          rw [keys_length hk0]; exact hcap2)
      have hXB : ∀ r, cfg.temps.get (2 * Γ0'.length) = some r →
          XB (Program.ofOps code) F.c cs hooks prog.types cfg.heap κ fields r := by
        intro r hr
        have hi1 : Γ0'.length < (Γ0' ++ [b']).length := by simp
        have hi2 : Γ0'.length < (ρ' ++ [Value.obj tag fields]).length := by simp [hlen0]
        obtain ⟨w, hw⟩ := Option.isSome_iff_exists.mp (hdef _ hi1)
        have hC := C _ hi1 hi2 w hw
        have g1 : (Γ0' ++ [b'])[Γ0'.length] = b' := by simp
        have g2 : (ρ' ++ [Value.obj tag fields])[Γ0'.length] = .obj tag fields := by
          rw [List.getElem_append_right (by omega)]; simp [hlen0]
        rw [g1, g2, hb'chi, hr] at hC
        obtain ⟨r', hr', hB⟩ := hC.obj_inv
        simp only [show ((Chi.prd == Chi.ext) = true) = False from by decide, if_false,
          Option.some.injEq] at hr'
        rw [hr']; exact hB
      exact ⟨cfg', hs', X', X', m, hm, Tol.refl _ _, h2, by omega, FrLe.mono' hfr' (by omega),
        ⟨Γ0' ++ cl.ctx, ι, κ, keys_append hk0 rfl, h4, h5,
          XC.load C hlen0 rfl RX.heap h1 h4 hkinds LP hXB, k1, k1', items', hr', hat'⟩,
        clausesB_nth hok hc1⟩
  | @invoke _ Γa b x tag ty args sig hn hsplit hb hs hs' =>
    subst hsplit
    obtain ⟨ρ', v, rfl, hρ', hv⟩ := Pos.env_last henv
    have hbid : b.var.id = x.id := congrArg (·.1) hb
    have hbchi : b.chi = .cns := congrArg (·.2.1) hb
    have hbty : b.ty = ty := congrArg (·.2.2) hb
    rw [hbchi, hbty] at hv
    have hlen : (ρ' ++ [v]).length = (Γa ++ [b]).length := by
      rw [henv.length_eq, Pos.chiTys_length]
    have hcnd : ¬ (b.var.id ≠ x.id ∨ (ρ' ++ [v]).length ≠ (Γa ++ [b]).length) := by
      simp [hbid, hlen]
    obtain ⟨d, xt, i, hd, hx, hxs, htp'⟩ := Pos.tagPosition_ok hs
    cases hv with
    | clo hd' hm hf hcl =>
      rename_i d' Γc env cls
      have := Pos.lookupTypeDecl_unique hd hd'
      subst this
      obtain ⟨cl, hc1, hc2, hc3⟩ := Pos.nthClause_ok d.xtors cls i xt hm hx
      have hal : (Γa ++ [b]).length - 1 = cl.ctx.length := by
        have : Γa.length = cl.ctx.length := by
          rw [← Pos.chiTys_length Γa, hs', ← hxs, hc2, Pos.chiTys_length]
        simp [this]
      simp only [Pos.step, List.getLast?_concat, if_neg hcnd, htp', hc1, hal, ne_eq, not_true_eq_false,
        if_false, List.dropLast_concat]
      intro hcap hcap2
      obtain ⟨Γa', b', rfl, hk0, hkb⟩ := keys_snoc hk
      have hb'id : b'.var.id = x.id := by
        have := congrArg (·.1) hkb
        simp only [Binding.key] at this
        rw [this]; exact hbid
      have hb'chi : b'.chi = .cns := by
        have := congrArg (·.2.1) hkb
        simp only [Binding.key] at this
        rw [this]; exact hbchi
      have hkinds : env.map Sim2.kindOf = Mock.kindsOf Γc := by
        rw [kinds_of_fieldsTyped hf, chiTys_fst]
      have hfr : x.id ∉ Γa.ids := by rw [← hbid]; exact fresh_of_nodup_snoc hn
      have hargs : Γa'.map (·.chi) = cl.ctx.map (·.chi) := by
        rw [keys_chi hk0]
        have h1 : Ctx.chiTys Γa = Ctx.chiTys cl.ctx := by rw [hs', ← hxs, hc2]
        have := congrArg (List.map (·.1)) h1
        simpa [Ctx.chiTys, Function.comp_def] using this
      have hlen0 : ρ'.length = Γa'.length := by simpa using hlenρ
      -- the closure at the last position: its methods on both sides
      have hi1 : Γa'.length < (Γa' ++ [b']).length := by simp
      have hi2 : Γa'.length < (ρ' ++ [Value.clo Γc env cls]).length := by simp [hlen0]
      obtain ⟨w, hw⟩ := Option.isSome_iff_exists.mp (hdef _ hi1)
      have hC := C _ hi1 hi2 w hw
      have g2 : (ρ' ++ [Value.clo Γc env cls])[Γa'.length] = .clo Γc env cls := by
        rw [List.getElem_append_right (by omega)]; simp [hlen0]
      rw [g2] at hC
      obtain ⟨r0, a, envCtx', hp0, ha0, hke, hXB0, hmeth, hxm, hcb⟩ := hC.clo_inv
      obtain ⟨_, hsome, _, _⟩ := RX.vals _ hi1 hi2
      obtain ⟨aw, haw⟩ := Option.isSome_iff_exists.mp hsome
      have hword : cfg.temps.get (2 * Γa'.length + 1) = some (BitVec.ofNat 64 a) := by
        rw [haw] at ha0 ⊢
        simp only [Option.getD_some] at ha0
        rw [ha0]
      have hposlt : i < d.xtors.length := by
        obtain ⟨dT, hdT, hxT⟩ := tagPosition_ok htp'
        have := Pos.lookupTypeDecl_unique hd hdT
        subst this
        have := xtorPosition_go_lt d.xtors tag 0 i hxT
        omega
      have hdm : d ∈ prog.types := by
        cases ty with
        | i64 => simp [lookupTypeDecl] at hd
        | decl nm => exact List.mem_of_find?_eq_some hd
      have hi32 : fitsI32 (jumpLength i) = true := by
        have := hprog.1 d hdm
        unfold maxTagsX86 at this
        unfold fitsI32 jumpLength
        have e5 : (consts.jumpLengthFactor : Int) = 5 := rfl
        rw [e5]
        simp only [decide_eq_true_eq, Bool.and_eq_true]
        omega
      have hcapW : 2 * (cl.ctx.length + Γc.length) + 2 < Mock.T_TEMP := by
        simpa [WithinCapacity] using hcap
      obtain ⟨k, cfg', X', XR, hs', m, h1, hm, T', hfr', h2, h3, h4, h5, k1, k1', items', hr', hat', LP⟩ :=
        invoke_x3 HF h8 hmon LA hndL hfitX hreal RX hfits hb'id (mem_ids_keys hk0 hfr) htp' hc1
        (fun d0 hd0 => by
          have := Pos.lookupTypeDecl_unique hd hd0
          subst this
          exact Scc.Props.C06Generic.clausesMatch_length _ _ hm)
        hargs hkinds hcapW X3h hke hword hmeth hw hxm hrunX hatX
        (by simpa using hcap2) hi32
      have hXB : ∀ r, cfg.temps.get (2 * Γa'.length) = some r →
          XB (Program.ofOps code) F.c cs hooks prog.types cfg.heap κ env r := by
        intro r hr
        have g1 : (Γa' ++ [b'])[Γa'.length] = b' := by simp
        rw [g1, hb'chi, hr] at hp0
        simp only [show ((Chi.cns == Chi.ext) = true) = False from by decide, if_false,
          Option.some.injEq] at hp0
        rw [hp0]; exact hXB0
      have hkinds' : env.map Sim2.kindOf = Mock.kindsOf envCtx' := by
        rw [show Mock.kindsOf envCtx' = Mock.kindsOf Γc from kinds_of_keys hke]; exact hkinds
      exact ⟨cfg', hs', X', XR, m, hm, T', h2, by omega, FrLe.mono' hfr' (by omega),
        ⟨cl.ctx ++ envCtx', ι, κ, keys_append rfl hke, h4, h5,
          XC.load C hlen0 hargs RX.heap h1 h4 hkinds' LP hXB, k1, k1', items', hr', hat'⟩,
        clausesB_nth hcb hc1⟩

theorem withinCapacity_of_le {Γ : Ctx} (h : 2 * Γ.length ≤ 266) : WithinCapacity Γ := by
  unfold WithinCapacity
  show 2 * Γ.length + 2 < 1000001
  omega

include HF h8 hmon LA hndL hfitX hcs hclean E in
/-- THE THREE-WAY RUN: a terminating run of the positional machine from a represented state is reproduced
by the x86-64 machine.  The machine is at `X`, the relation holds at the boundary state `X0` (`Tol`) -/
theorem run3_aux (hooks : Bool) (prog : AxCut.Prog) (c : Nat) (code : List MockOp) (nargs c' : Nat)
    (hcomp : (compile mockSym hooks prog).run c = .ok ((code, nargs), c'))
    (hsafe : LabelSafe prog = true) (htp : LinTypedProg prog) (hfit : CodeFits code)
    (DX : XDefsAt cs hooks prog) (hprog : ProgOK prog) :
    ∀ (fuel : Nat) (st : Pos.State) (acc : List (Bool × Word)) (cfg : Config) (hs : HState) (X0 X : State)
      (out : List (Bool × Word)) (v : Word),
      Pos.StateTyped prog st → (∀ st', Reachable prog st st' → 2 * st'.ctx.length ≤ 266) →
      Tol cs X0 X →
      Rel3 F cs (Program.ofOps code) hooks prog st cfg hs X0 → StmtOK st.stmt →
      cfg.out = acc → cfg.next + fuel < 2 ^ 64 → Room hs (64 * 134 * fuel) →
      Pos.runState prog fuel st acc = ⟨out, .done v⟩ →
      ∃ n XL, stepN mon px n X = .inl XL ∧ step mon px XL = .inr (.done v) ∧ XL.out.reverse = out
  | 0, st, acc, cfg, hs, X0, X, out, v, _, _, _, _, _, _, _, _, h => by simp [Pos.runState] at h
  | fuel + 1, st, acc, cfg, hs, X0, X, out, v, T, hcap, TL, R, hok, hacc, hnext, hroom, h => by
    have L := LA.loaded
    have hsim := step3 HF h8 hmon LA hndL hfitX hcs hclean E hooks prog c code nargs c' hcomp hsafe htp hfit
      DX hprog st cfg hs X0 R T (by unfold EnoughHeap; omega) hok (hroom.mono (by omega))
    have hsafe' := Pos.step_safe htp st T
    have hw : ∃ rs lin lazy live F, InvS hs rs [] lin lazy live F := by
      obtain ⟨Γ', ι, κ, _, _, X3h, _⟩ := R
      obtain ⟨lin, lazy, live, Fr, I⟩ := X3h.href.conc
      exact ⟨_, lin, lazy, live, Fr, I⟩
    unfold StepSim3 at hsim
    simp only [Pos.runState] at h
    cases hst : Pos.step prog st with
    | stuck w => simp [hst] at h
    | done v' =>
      simp only [hst] at h hsim
      obtain ⟨n, XL, h1, h2, h3⟩ := hsim
      simp only [Pos.Behaviour.mk.injEq, Pos.Result.done.injEq] at h
      obtain ⟨rfl, rfl⟩ := h
      obtain ⟨k, hk⟩ := tol_run_done mon L TL h1 h2
      exact ⟨k, XL, hk, h2, by rw [h3, hacc]⟩
    | next st' o =>
      simp only [hst] at h hsim
      rw [hst] at hsafe'
      have hc' := hcap st' (Reachable.step Reachable.refl hst)
      obtain ⟨cfg', hs', X', XR, n, h1, T', h2, h3, hfr, R', hok'⟩ := hsim (withinCapacity_of_le hc') hc'
      have hacc' : cfg'.out = outAfter o acc := by rw [h2, hacc]
      have h' : Pos.runState prog fuel st' (outAfter o acc) = ⟨out, .done v⟩ := by
        cases o <;> exact h
      have hroom' : Room hs' (64 * 134 * fuel) :=
        (hroom.step hfr (by omega) hw).mono (by omega)
      rcases tol_run mon L TL h1 with ⟨k, hk⟩ | T2
      · obtain ⟨n', XL, g1, g2, g3⟩ := run3_aux hooks prog c code nargs c' hcomp hsafe htp hfit DX hprog fuel st'
          (outAfter o acc) cfg' hs' X' XR out v hsafe'
          (fun st'' hr => hcap st'' (Scc.Props.C06Generic.reachable_prepend hst hr)) T' R' hok' hacc' (by omega)
          hroom' h'
        exact ⟨k + n', XL, stepN_trans mon px hk g1, g2, g3⟩
      · exact run3_aux hooks prog c code nargs c' hcomp hsafe htp hfit DX hprog fuel st'
          (outAfter o acc) cfg' hs' X' X out v hsafe'
          (fun st'' hr => hcap st'' (Scc.Props.C06Generic.reachable_prepend hst hr)) (T'.trans T2) R' hok' hacc'
          (by omega) hroom' h'

end Run3

/-! ## the definitions in the routine -/

theorem assemble_split_x86 (hooks : Bool) (ren : Nat → String) (types : List TypeDecl) :
    ∀ (defs : List Def) (c : Nat) (blocks : List (List Code)) (c' : Nat),
      (translateR x86Backend hooks ren types defs).run c = .ok (blocks, c') →
      ∀ d ∈ defs, ∃ pre post ck ck' items,
        assemble x86Backend blocks (defs.map (·.name)) =
          pre ++ Code.LAB (d.name.print ++ "_") :: (items ++ post) ∧
        (codeStatementR x86Backend hooks ren types d.body d.ctx).run ck = .ok (items, ck')
  | [], c, blocks, c', _, d, hd => by simp at hd
  | d0 :: ds, c, blocks, c', h, d, hd => by
    simp only [translateR, run_bind_ok, run_pure_ok] at h
    obtain ⟨is, k1, h1, rest, k2, h2, rfl, rfl⟩ := h
    simp only [List.mem_cons] at hd
    rcases hd with rfl | hd
    · exact ⟨[], assemble x86Backend rest (ds.map (·.name)), c, k1, is, by simp [assemble]; rfl, h1⟩
    · obtain ⟨pre, post, ck, ck', items, e, hr⟩ := assemble_split_x86 hooks ren types ds k1 rest _ h2 d hd
      refine ⟨Code.LAB (d0.name.print ++ "_") :: is ++ pre, post, ck, ck', items, ?_, hr⟩
      simp only [assemble, List.map_cons, e]
      simp
      rfl

/-- every definition's code is in the routine behind its label -/
theorem xdefsAt_of_compile {hooks : Bool} {prog : AxCut.Prog} {c : Nat} {body : List Code} {nargs : Nat}
    (h : compileX86 prog hooks c = .ok (body, nargs)) {cs hdr post : List Code} (hcs : cs = hdr ++ body ++ post)
    (hnd : (labs cs).Nodup) : XDefsAt cs hooks prog := by
  intro d hd
  unfold compileX86 at h
  cases hx : (compile x86Backend hooks prog).run c with
  | error e => rw [hx] at h; cases h
  | ok r =>
    obtain ⟨⟨body', nargs'⟩, c'⟩ := r
    rw [hx] at h
    simp only [Except.ok.injEq, Prod.mk.injEq] at h
    obtain ⟨rfl, rfl⟩ := h
    unfold compile compileR at hx
    cases hdefs : prog.defs with
    | nil => rw [hdefs] at hd; simp at hd
    | cons d0 ds =>
      simp only [hdefs, run_bind_ok, run_pure_ok] at hx
      obtain ⟨blocks, k, h1, h2, rfl⟩ := hx
      cases h2
      rw [hdefs] at hd
      obtain ⟨pre, post', ck, ck', items, e, hr⟩ := assemble_split_x86 hooks natRen prog.types _ c blocks _ h1 d hd
      have hcs' : cs = (hdr ++ pre) ++ Code.LAB (d.name.print ++ "_") :: (items ++ (post' ++ post)) := by
        rw [hcs, e]; simp [List.append_assoc]
      have hget : cs[(hdr ++ pre).length]? = some (Code.LAB (d.name.print ++ "_")) := by
        rw [hcs']; simp
      refine ⟨(hdr ++ pre).length, ck, ck', items, labIdx_of_nodup hnd hget, hget, hr,
        (hdr ++ pre) ++ [Code.LAB (d.name.print ++ "_")], post' ++ post, ?_, by simp; omega⟩
      rw [hcs']; simp [List.append_assoc]

/-! ## the initial state -/

theorem href_init' {base limit : Nat} (ι : Nat → Nat) (hb : 0 < base) (hl : base + 128 ≤ limit) :
    HRef [] [] 1 (Scc.Heap.init base limit) ι := by
  refine ⟨⟨by omega, by simp, by simp, by simp, ?_⟩, by simp, ?_, by simp, by simp⟩
  · intro id hid
    simp [Scc.Backend.Sim.refCount] at hid
  · exact ⟨[base], [], [], base + 64, Scc.Heap.init_inv hb hl⟩

theorem room_init {base limit n : Nat} (hb : 0 < base) (hl : base + 128 ≤ limit) (hn : base + 64 + n ≤ limit) :
    Room (Scc.Heap.init base limit) n := by
  intro rs lin lazy live Fr J
  have := (Scc.Heap.InvS.witness_unique (Scc.Heap.init_inv hb hl) J).2.2
  have hlim : (Scc.Heap.init base limit).limit = limit := rfl
  omega

/-- the right half of the relation at the entry: integer parameters, empty heap -/
theorem x3_init {F : Frame} {args : List Word} {st : State} {Γ : Ctx} {a : Nat}
    (R : RepX86 F .normal (initConfig 0 args) st)
    (HR : HeapRel F.c st (Scc.Heap.init F.c.heapBase (F.c.heapBase + F.c.heapBytes)))
    (hext : ∀ b ∈ Γ, b.chi = .ext) (hcap : 2 * Γ.length ≤ 266)
    (hb : 0 < F.c.heapBase) (hl : 128 ≤ F.c.heapBytes) (ι : Nat → Nat) (κ : Nat → Nat → Word) :
    X3 F Γ (initConfig a args) (Scc.Heap.init F.c.heapBase (F.c.heapBase + F.c.heapBytes)) ι κ st := by
  have hroots : roots Γ (initConfig a args).temps = [] := roots_go_all_ext _ Γ 0 hext
  unfold X3
  rw [hroots]
  refine ⟨R.bnd, hcap, ?_, ?_, R.out, R.frame, HR, href_init' ι hb (by omega)⟩
  · intro i hi w hw
    have hc : Γ[i].chi = .ext := hext _ (List.getElem_mem hi)
    rw [hc]
    exact R.temps (2 * i + 1) w ⟨by omega, by omega⟩ hw
  · intro i hi hc
    exact absurd (hext _ (List.getElem_mem hi)) hc

/-! ## THEOREM A ∘ THEOREM B for all programs -/

/-- END TO END for ALL programs (data types and closures), on the ITEMS of the emitted routine: a
terminating run of the AxCut positional machine is reproduced — same trace, same result — by the x86-64
SPEC machine started at `asm_main` on any item list that agrees with the emitted routine up to the text
of comments. -/
theorem programs_items (p : AxCut.Prog) (args : List Word) (hooks : Bool) (body routine : List Code)
    (nargs : Nat) (d0 : Def) (ops : List MockOp) (c' : Nat)
    (hsafe : LabelSafe p = true) (htp : LinTypedProg p) (hprog : ProgOK p)
    (hcompM : (compile mockSym hooks p).run 0 = .ok ((ops, nargs), c')) (hfit : CodeFits ops)
    (hcompX : compileX86 p hooks 0 = .ok (body, nargs)) (hrout : intoRoutine body nargs = .ok routine)
    (hnd : (labs routine).Nodup)
    (hd : p.defs.head? = some d0) (hentry : ∀ b ∈ d0.ctx, b.chi = .ext ∧ b.ty = .i64)
    (hcap : ∀ st, Reachable p ⟨d0.ctx, args.map .int, d0.body⟩ st → 2 * st.ctx.length ≤ 266)
    (fuel : Nat) (out : List (Bool × Word)) (v : Word) (hfuel : fuel + 1 < 2 ^ 64)
    (hrun : Pos.run p args fuel = ⟨out, .done v⟩)
    (cfg : MonCfg) (MO : MachOK cfg.mach) (hheap : cfg.heap = false)
    (hb8 : cfg.mach.heapBase % 8 = 0) (hb0 : 0 < cfg.mach.heapBase)
    (hbytes : 128 + 64 * 134 * fuel ≤ cfg.mach.heapBytes)
    (items : List (Code × Nat)) (hitems : (items.map (·.1)).map stripC = routine.map stripC)
    (hfitX : addrAt cfg.mach.codeBase routine routine.length < 2 ^ 64) :
    ∃ fuel', (runItems items args fuel' cfg).out = out ∧ (runItems items args fuel' cfg).res = .done v := by
  have hmem : d0 ∈ p.defs := by
    cases hdefs : p.defs with
    | nil => rw [hdefs] at hd; simp at hd
    | cons d ds => rw [hdefs] at hd; simp at hd; subst hd; simp
  have hnodupD := Scc.Props.C14Generic.labels_unique hooks p 0 ops nargs c' hcompM hsafe
  obtain ⟨_, hnargs⟩ := compile_mock_entry hcompM hd
  -- the run of the positional machine
  have hlen : d0.ctx.length = args.length ∧
      Pos.runState p fuel ⟨d0.ctx, args.map .int, d0.body⟩ [] = ⟨out, .done v⟩ := by
    unfold Pos.run at hrun
    cases hdefs : p.defs with
    | nil => rw [hdefs] at hd; simp at hd
    | cons d ds =>
      rw [hdefs] at hd hrun
      simp only [List.head?_cons, Option.some.injEq] at hd
      subst hd
      simp only at hrun
      by_cases hl : d.ctx.length ≠ args.length
      · simp [hl] at hrun
      · simp only [hl, if_false] at hrun
        exact ⟨by omega, hrun⟩
  obtain ⟨hlen, hrun'⟩ := hlen
  have hc0 := hcap _ Reachable.refl
  simp only at hc0
  rw [hnargs, hlen] at hrout
  have hargs : args.length ≤ 5 := by
    obtain ⟨moves, hm, _⟩ := intoRoutine_shape hrout
    exact moveArguments_le _ _ hm
  -- the loader and the header
  have LA := loadedA_mkProg cfg.mach items routine hitems
  have L := LA.loaded
  obtain ⟨hdr, F, h, st0', k0, st2, hcs, hlabs, hidx, hFc, HF, E, hk0, hpc, R, HR⟩ :=
    init_sim3 MO hargs hrout L
  -- Theorem A at the entry
  obtain ⟨a, hlab, RX, hn1⟩ := init_relX hooks p 0 ops nargs c' hcompM hnodupD d0 hmem
    (fun b hb => (hentry b hb).1) args hlen (withinCapacity_of_le hc0)
  have T : Pos.StateTyped p ⟨d0.ctx, args.map .int, d0.body⟩ :=
    ⟨htp d0 hmem, Pos.ints_typed d0.ctx args hlen hentry⟩
  -- the definitions
  have DX : XDefsAt routine hooks p := xdefsAt_of_compile hcompX hcs hnd
  obtain ⟨i, kx, kx', ditems, hi, hget, hdrun, hdat⟩ := DX d0 hmem
  -- the entry label is the first item of the body
  have hi0 : i = hdr.length := by
    unfold compileX86 at hcompX
    cases hx : (compile x86Backend hooks p).run 0 with
    | error e => rw [hx] at hcompX; cases hcompX
    | ok r =>
      obtain ⟨⟨body', nargs'⟩, c''⟩ := r
      rw [hx] at hcompX
      simp only [Except.ok.injEq, Prod.mk.injEq] at hcompX
      obtain ⟨rfl, rfl⟩ := hcompX
      unfold compile compileR at hx
      cases hdefs : p.defs with
      | nil => rw [hdefs] at hd; simp at hd
      | cons d ds =>
        rw [hdefs] at hd hx
        simp only [List.head?_cons, Option.some.injEq] at hd
        subst hd
        simp only [run_bind_ok, run_pure_ok, translateR] at hx
        obtain ⟨blocks, c1, ⟨is, c2, h1, rest, c3, h2, rfl, rfl⟩, e, rfl⟩ := hx
        injection e with e1 e2
        have hb : body' = Code.LAB (d.name.print ++ "_") :: (is ++ assemble x86Backend rest (ds.map (·.name))) := by
          rw [← e1]; rfl
        have hget' : routine[hdr.length]? = some (Code.LAB (d.name.print ++ "_")) := by
          rw [hcs, hb]; simp
        have := labIdx_of_nodup hnd hget'
        rw [hi] at this
        exact Option.some.inj this
  subst hi0
  have hsplit : routine = hdr ++ Code.LAB (d0.name.print ++ "_") :: routine.drop (hdr.length + 1) := by
    have hlt : hdr.length < routine.length := by
      rcases Nat.lt_or_ge hdr.length routine.length with h | h
      · exact h
      · rw [List.getElem?_eq_none h] at hget; cases hget
    have h1 : routine.drop hdr.length = routine[hdr.length] :: routine.drop (hdr.length + 1) :=
      List.drop_eq_getElem_cons hlt
    have h2 : routine[hdr.length] = Code.LAB (d0.name.print ++ "_") := by
      rw [List.getElem?_eq_getElem hlt] at hget; exact Option.some.inj hget
    have h3 : routine.take hdr.length = hdr := by
      rw [hcs]; simp [List.append_assoc]
    conv => lhs; rw [← List.take_append_drop hdr.length routine, h1, h2, h3]
  obtain ⟨k3, hk3⟩ := step_fall cfg L hsplit (s := st2) hpc
    (show execCode cfg.mach (mkProg cfg.mach items).labelAddr (Code.LAB (d0.name.print ++ "_")) _ = .ok (_, .next)
      from rfl)
  have hbytes' : 128 ≤ F.c.heapBytes := by rw [hFc]; omega
  have X3i : X3 F d0.ctx (initConfig a args)
      (Scc.Heap.init F.c.heapBase (F.c.heapBase + F.c.heapBytes)) id (fun _ _ => 0) (setPS st2 (hdr.length + 1) k3) :=
    X3R.setPS (x3_init R HR (fun b hb => (hentry b hb).1) hc0 (by rw [hFc]; exact hb0) hbytes' id (fun _ _ => 0)) _ _
  have R3 : Rel3 F routine (Program.ofOps ops) hooks p ⟨d0.ctx, args.map .int, d0.body⟩ (initConfig a args)
      (Scc.Heap.init F.c.heapBase (F.c.heapBase + F.c.heapBytes)) (setPS st2 (hdr.length + 1) k3) :=
    ⟨d0.ctx, id, fun _ _ => 0, rfl, RX, X3i, fun i h1 h2 w hw => by
      simp only [List.getElem_map]
      exact .int _ _ _ _, kx, kx', ditems, hdrun, hdat⟩
  have hclean : "cleanup" ∉ labs (hdr ++ body) := by
    rw [hcs, labs_append] at hnd
    have := (List.nodup_append.1 hnd).2.2
    intro hm
    exact this _ hm _ (by simp [labs, codeLabelDef, cleanup]) rfl
  obtain ⟨n, XL, g1, g2, g3⟩ := run3_aux HF (by rw [hFc]; exact hb8) hFc.symm (by rw [hFc]; exact LA) hnd
    (by rw [hFc]; exact hfitX) hcs hclean E hooks p 0 ops nargs c' hcompM hsafe htp hfit
    (xdefsAt_of_compile hcompX hcs hnd) hprog fuel _ [] (initConfig a args) _ _ _ out v T hcap (Tol.refl _ _) R3
    (hprog.2 d0 hmem) rfl (by rw [hn1]; omega)
    (room_init (by rw [hFc]; exact hb0) (by omega) (by rw [hFc]; omega)) hrun'
  -- the run loop
  refine ⟨k0 + (1 + (n + 1)), ?_⟩
  have hlabI : (mkProg cfg.mach items).labelIdx["asm_main"]? = some 6 := by rw [L.labels]; exact hidx
  have hrl : runItems items args (k0 + (1 + (n + 1))) cfg =
      runLoop cfg (mkProg cfg.mach items) (k0 + (1 + (n + 1))) (initState cfg.mach args 6) 0 := by
    unfold runItems
    simp only [hlabI]
    rw [if_neg (by omega)]
  rw [hrl, runLoop_stepN hheap _ k0 (1 + (n + 1)) _ _ 0 hk0,
    runLoop_stepN hheap _ 1 (n + 1) _ _ 0 ((stepN_one cfg _ _).trans hk3), runLoop_stepN hheap _ n 1 _ _ 0 g1]
  obtain ⟨h1, h2⟩ := runLoop_done hheap (mkProg cfg.mach items) 0 XL 0 g2
  exact ⟨by rw [h1]; exact g3, h2⟩

end Scc.X86.Ref.K
