/-
  Scc.X86.ProofsCC — calling-convention lemmas (property C13) for the x86-64 backend, on the
  functional view of Proofs.lean (transfer to the machine by `sim_execList`):
  push / pop lists, `setup` / `cleanup` of into_routine.rs (prologue_epilogue), the stack-pointer
  invariant, and the alignment of `rsp` at the call of the print runtime FOR EVERY CONTEXT
  (code.rs caller_save_registers_info / save_caller_save_registers).
-/
import Scc.X86.ProofsFrame

namespace Scc.X86

/-- An 8-byte stack word the machine may access. -/
structure StackWord (c : MachCfg) (n : Nat) : Prop where
  aligned : n % 8 = 0
  low : c.stackLow ≤ n
  high : n + 8 ≤ c.stackTop

theorem aaddr_stackWord {c : MachCfg} (hc : CfgOK c) {n : Nat} (h : StackWord c n) :
    aaddr c (BitVec.ofNat 64 n) = some n := by
  have h1 := hc.top
  have h2 := hc.heapBelow
  have hlt : n < 2 ^ 64 := by have := h.high; omega
  have e : (BitVec.ofNat 64 n).toNat = n := by simp [BitVec.toNat_ofNat, Nat.mod_eq_of_lt hlt]
  have : n % 8 = 0 ∧ inHeap c n = false ∧ inStack c n = true := by
    refine ⟨h.aligned, ?_, ?_⟩
    · unfold inHeap
      rw [Bool.and_eq_false_iff]; right
      rw [decide_eq_false_iff_not]; have := h.low; omega
    · unfold inStack
      rw [Bool.and_eq_true, decide_eq_true_eq, decide_eq_true_eq]; exact ⟨h.low, h.high⟩
  simp [aaddr, e, this]

theorem ofNat_sub {m k : Nat} (hk : k ≤ m) (hm : m < 2 ^ 64) :
    BitVec.ofNat 64 m - BitVec.ofNat 64 k = BitVec.ofNat 64 (m - k) := by
  apply BitVec.eq_of_toNat_eq
  simp only [BitVec.toNat_sub, BitVec.toNat_ofNat]
  have hk' : k < 2 ^ 64 := by omega
  rw [Nat.mod_eq_of_lt hm, Nat.mod_eq_of_lt hk', Nat.mod_eq_of_lt (by omega : m - k < 2 ^ 64)]
  omega

theorem ofNat_add {m k : Nat} (hm : m + k < 2 ^ 64) :
    BitVec.ofNat 64 m + BitVec.ofNat 64 k = BitVec.ofNat 64 (m + k) := by
  apply BitVec.eq_of_toNat_eq
  simp only [BitVec.toNat_add, BitVec.toNat_ofNat]
  rw [Nat.mod_eq_of_lt (by omega : m < 2 ^ 64), Nat.mod_eq_of_lt (by omega : k < 2 ^ 64),
    Nat.mod_eq_of_lt hm]

section Micro
variable {c : MachCfg} {la : String → Option Nat} {a : AState}

/-- `push r` with `rsp = m`: the (possibly undefined) register goes to `[m - 8]`, `rsp = m - 8` -/
theorem aexec_PUSH (hc : CfgOK c) {r m : Nat} (hr : r < 16) (hsp : a.reg 0 = some (BitVec.ofNat 64 m))
    (h8 : 8 ≤ m) (hw : StackWord c (m - 8)) :
    aexec c la (.PUSH r) a =
      some ((a.setMem (m - 8) (a.reg r)).setReg 0 (some (BitVec.ofNat 64 (m - 8)))) := by
  have hm : m < 2 ^ 64 := by have := hw.high; have := hc.top; omega
  have e : BitVec.ofNat 64 m - 8 = BitVec.ofNat 64 (m - 8) := ofNat_sub (k := 8) h8 hm
  simp only [aexec, ardRaw, hr, if_true, ard, show (0 : Nat) < 16 by decide, hsp, e, astoreRaw,
    aaddr_stackWord hc hw, awr, awrRaw]

/-- `pop r` with `rsp = m` -/
theorem aexec_POP (hc : CfgOK c) {r m : Nat} (hr : r < 16) (hsp : a.reg 0 = some (BitVec.ofNat 64 m))
    (hw : StackWord c m) :
    aexec c la (.POP r) a =
      some ((a.setReg 0 (some (BitVec.ofNat 64 (m + 8)))).setReg r (a.mem m)) := by
  have hm : m + 8 < 2 ^ 64 := by have := hw.high; have := hc.top; omega
  have e : BitVec.ofNat 64 m + 8 = BitVec.ofNat 64 (m + 8) := ofNat_add (k := 8) hm
  simp only [aexec, ard, show (0 : Nat) < 16 by decide, if_true, hsp, aloadRaw, aaddr_stackWord hc hw,
    awr, awrRaw, e, hr]

/-- `sub rsp, k` -/
theorem aexec_SUBI_rsp {m : Nat} {k : Nat} {i : Int} (hi : i = (k : Int))
    (hsp : a.reg 0 = some (BitVec.ofNat 64 m)) (hk : k ≤ m)
    (hm : m < 2 ^ 64) (hk32 : fitsI32 (k : Int) = true) :
    aexec c la (.SUBI 0 i) a =
      some { a.setReg 0 (some (BitVec.ofNat 64 (m - k))) with flags := none } := by
  subst hi
  have e : BitVec.ofNat 64 m - BitVec.ofInt 64 (k : Int) = BitVec.ofNat 64 (m - k) := by
    rw [show BitVec.ofInt 64 (k : Int) = BitVec.ofNat 64 k from by simp [BitVec.ofInt_natCast]]
    exact ofNat_sub hk hm
  simp only [aexec, aalu, areadLoc, ard, show (0 : Nat) < 16 by decide, if_true, hsp, areadSrc, aimm32,
    hk32, awriteLoc, awr, awrRaw, e]

/-- `add rsp, k` -/
theorem aexec_ADDI_rsp {m : Nat} {k : Nat} {i : Int} (hi : i = (k : Int))
    (hsp : a.reg 0 = some (BitVec.ofNat 64 m))
    (hm : m + k < 2 ^ 64) (hk32 : fitsI32 (k : Int) = true) :
    aexec c la (.ADDI 0 i) a =
      some { a.setReg 0 (some (BitVec.ofNat 64 (m + k))) with flags := none } := by
  subst hi
  have e : BitVec.ofNat 64 m + BitVec.ofInt 64 (k : Int) = BitVec.ofNat 64 (m + k) := by
    rw [show BitVec.ofInt 64 (k : Int) = BitVec.ofNat 64 k from by simp [BitVec.ofInt_natCast]]
    exact ofNat_add hm
  simp only [aexec, aalu, areadLoc, ard, show (0 : Nat) < 16 by decide, if_true, hsp, areadSrc, aimm32,
    hk32, awriteLoc, awr, awrRaw, e]

theorem aexec_MOV' {r r1 : Nat} (hr : r < 16) (hr1 : r1 < 16) :
    aexec c la (.MOV r r1) a = some (a.setReg r (a.reg r1)) := by
  simp [aexec, ardRaw, awrRaw, hr, hr1]

theorem aexec_COMMENT (msg : String) : aexec c la (.COMMENT msg) a = some a := rfl

end Micro

/-! ## push lists and pop lists -/

section Lists
variable {c : MachCfg} {la : String → Option Nat}

theorem aexecList_cons' (code : Code) (rest : List Code) (a : AState) :
    aexecList c la (code :: rest) a =
      match aexec c la code a with
      | some a1 => aexecList c la rest a1
      | none => none := rfl

/-- Effect of `push l[0]; push l[1]; …` from `rsp = m`. -/
structure Pushed (a a' : AState) (m : Nat) (l : List Nat) : Prop where
  rsp : a'.reg 0 = some (BitVec.ofNat 64 (m - 8 * l.length))
  regs : ∀ r, r ≠ 0 → a'.reg r = a.reg r
  flags : a'.flags = a.flags
  saved : ∀ k (h : k < l.length), a'.mem (m - 8 * (k + 1)) = a.reg l[k]
  mem : ∀ n, (∀ k, k < l.length → n ≠ m - 8 * (k + 1)) → a'.mem n = a.mem n

theorem a_pushList (hc : CfgOK c) (l : List Nat) (hl : ∀ r ∈ l, r < 16 ∧ r ≠ 0) (a : AState) (m : Nat)
    (hsp : a.reg 0 = some (BitVec.ofNat 64 m)) (h8 : m % 8 = 0)
    (hlow : c.stackLow + 8 * l.length ≤ m) (htop : m ≤ c.stackTop) :
    ∃ a', aexecList c la (l.map Code.PUSH) a = some a' ∧ Pushed a a' m l := by
  induction l generalizing a m with
  | nil => exact ⟨a, rfl, ⟨by simpa using hsp, fun _ _ => rfl, rfl, fun k h => by simp at h, fun _ _ => rfl⟩⟩
  | cons r rest ih =>
    have hr := hl r (by simp)
    have hlen : (r :: rest).length = rest.length + 1 := rfl
    rw [hlen] at hlow
    have hw : StackWord c (m - 8) := ⟨by omega, by omega, by omega⟩
    have h8m : 8 ≤ m := by omega
    simp only [List.map_cons, aexecList_cons', aexec_PUSH hc hr.1 hsp h8m hw]
    obtain ⟨a', e, P⟩ := ih (fun r' h' => hl r' (by simp [h']))
      ((a.setMem (m - 8) (a.reg r)).setReg 0 (some (BitVec.ofNat 64 (m - 8)))) (m - 8) (by simp)
      (by omega) (by omega) (by omega)
    refine ⟨a', e, ⟨?_, ?_, ?_, ?_, ?_⟩⟩
    · rw [P.rsp, hlen]; congr 2; omega
    · intro r' hr'
      rw [P.regs r' hr']
      simp [hr']
    · rw [P.flags]; rfl
    · intro k hk
      cases k with
      | zero =>
        have : a'.mem (m - 8) = ((a.setMem (m - 8) (a.reg r)).setReg 0 (some (BitVec.ofNat 64 (m - 8)))).mem (m - 8) := by
          apply P.mem
          intro k hk'
          omega
        simpa using this
      | succ k =>
        have hk' : k < rest.length := by simpa using hk
        have := P.saved k hk'
        have e2 : m - 8 - 8 * (k + 1) = m - 8 * (k + 1 + 1) := by omega
        rw [e2] at this
        rw [this]
        have hne : rest[k] ≠ 0 := (hl rest[k] (by simp)).2
        simp [hne]
    · intro n hn
      have h0 : n ≠ m - 8 := by have := hn 0 (by simp); simpa using this
      rw [P.mem n (fun k hk => by
        have := hn (k + 1) (by simpa using hk)
        omega)]
      simp [h0]

/-- Effect of `pop l[0]; pop l[1]; …` from `rsp = m`. -/
structure Popped (a a' : AState) (m : Nat) (l : List Nat) : Prop where
  rsp : a'.reg 0 = some (BitVec.ofNat 64 (m + 8 * l.length))
  regs : ∀ r, r ≠ 0 → r ∉ l → a'.reg r = a.reg r
  flags : a'.flags = a.flags
  restored : ∀ k (h : k < l.length), a'.reg l[k] = a.mem (m + 8 * k)
  mem : a'.mem = a.mem

theorem a_popList (hc : CfgOK c) (l : List Nat) (hl : ∀ r ∈ l, r < 16 ∧ r ≠ 0) (hnd : l.Nodup)
    (a : AState) (m : Nat) (hsp : a.reg 0 = some (BitVec.ofNat 64 m)) (h8 : m % 8 = 0)
    (hlow : c.stackLow ≤ m) (htop : m + 8 * l.length ≤ c.stackTop) :
    ∃ a', aexecList c la (l.map Code.POP) a = some a' ∧ Popped a a' m l := by
  induction l generalizing a m with
  | nil => exact ⟨a, rfl, ⟨by simpa using hsp, fun _ _ _ => rfl, rfl, fun k h => by simp at h, rfl⟩⟩
  | cons r rest ih =>
    have hr := hl r (by simp)
    have hlen : (r :: rest).length = rest.length + 1 := rfl
    rw [hlen] at htop
    have hw : StackWord c m := ⟨h8, hlow, by omega⟩
    simp only [List.map_cons, aexecList_cons', aexec_POP hc hr.1 hsp hw]
    have hnd' := List.nodup_cons.1 hnd
    have hr0 : ¬ (0 = r) := fun e => hr.2 e.symm
    obtain ⟨a', e, P⟩ := ih (fun r' h' => hl r' (by simp [h'])) hnd'.2
      ((a.setReg 0 (some (BitVec.ofNat 64 (m + 8)))).setReg r (a.mem m)) (m + 8)
      (by simp [hr0]) (by omega) (by omega) (by omega)
    refine ⟨a', e, ⟨?_, ?_, ?_, ?_, ?_⟩⟩
    · rw [P.rsp, hlen]; congr 2; omega
    · intro r' hr' hnot
      have h1 : r' ≠ r := fun e => hnot (by simp [e])
      have h2 : r' ∉ rest := fun e => hnot (by simp [e])
      rw [P.regs r' hr' h2]
      simp [h1, hr']
    · rw [P.flags]; rfl
    · intro k hk
      cases k with
      | zero =>
        have : a'.reg r = ((a.setReg 0 (some (BitVec.ofNat 64 (m + 8)))).setReg r (a.mem m)).reg r :=
          P.regs r hr.2 hnd'.1
        simpa using this
      | succ k =>
        have hk' : k < rest.length := by simpa using hk
        have := P.restored k hk'
        simp only [List.getElem_cons_succ]
        rw [this]
        have e2 : m + 8 + 8 * k = m + 8 * (k + 1) := by omega
        simp [e2]
    · rw [P.mem]; rfl

/-! ## setup / cleanup (into_routine.rs) -/

/-- the registers `setup` pushes, as a concrete list (= `consts.calleeSavePushed`) -/
theorem calleeSavePushed_eq : consts.calleeSavePushed = [2, 3, 12, 13, 14, 15] := rfl

/-- `setup` without the parameter moves -/
def prologue : List Code :=
  [.COMMENT "setup", .COMMENT "save registers"] ++ [2, 3, 12, 13, 14, 15].map Code.PUSH ++
  [.COMMENT "reserve space for register spills", .SUBI 0 2048, .COMMENT "initialize heap pointer",
   .MOV 2 7, .COMMENT "initialize free pointer", .MOV 3 2, .ADDI 3 64]

theorem setup_eq (n : Nat) (moves : List Code) (h : moveArguments n = .ok moves) :
    setup n = .ok (prologue ++ moves) := by
  simp [setup, h, prologue, calleeSavePushed_eq, STACK, HEAP, FREE, ARG0, SPILL_SPACE, consts, fieldOffset,
    address, FIELD_SLOT_SIZE, FIELDS_PER_BLOCK, Scc.Backend.TempNum.toNat]

/-- `cleanup` without the final `ret` -/
def epilogue : List Code :=
  [.LAB "cleanup", .COMMENT "free space for register spills", .ADDI 0 2048, .COMMENT "restore registers"] ++
  [15, 14, 13, 12, 3, 2].map Code.POP

theorem cleanup_eq : cleanup = epilogue ++ [.RET] := by
  simp [cleanup, epilogue, calleeSavePushed_eq, STACK, SPILL_SPACE, consts]

/-- State after `prologue` from an entry state with `rsp = m`: the six callee-saved registers are
    in the save area `[m - 48, m)`, `rsp = m - 48 - 2048`, HEAP = rdi, FREE = rdi + 64. -/
structure AfterPrologue (a a' : AState) (m : Nat) (h : Word) : Prop where
  rsp : a'.reg 0 = some (BitVec.ofNat 64 (m - 2096))
  heap : a'.reg 2 = some h
  free : a'.reg 3 = some (h + 64)
  regs : ∀ r, r ≠ 0 → r ≠ 2 → r ≠ 3 → a'.reg r = a.reg r
  saved : ∀ k (hk : k < 6), a'.mem (m - 8 * (k + 1)) = a.reg ([2, 3, 12, 13, 14, 15][k]'hk)
  mem : ∀ n, (∀ k, k < 6 → n ≠ m - 8 * (k + 1)) → a'.mem n = a.mem n

theorem a_prologue (hc : CfgOK c) (a : AState) (m : Nat) (h : Word)
    (hsp : a.reg 0 = some (BitVec.ofNat 64 m)) (h8 : m % 8 = 0)
    (hlow : c.stackLow + 2096 ≤ m) (htop : m ≤ c.stackTop) (h7 : a.reg 7 = some h) :
    ∃ a', aexecList c la prologue a = some a' ∧ AfterPrologue a a' m h := by
  obtain ⟨a1, e1, P⟩ := a_pushList (la := la) hc [2, 3, 12, 13, 14, 15] (by decide) a m hsp h8
    (by simp; omega) htop
  have hm : m - 8 * 6 < 2 ^ 64 := by have := hc.top; omega
  have l1 : ([2, 3, 12, 13, 14, 15] : List Nat).length = 6 := rfl
  have hrsp1 : a1.reg 0 = some (BitVec.ofNat 64 (m - 8 * 6)) := by rw [P.rsp, l1]
  have e48 : m - 8 * 6 - 2048 = m - 2096 := by omega
  unfold prologue
  rw [aexecList_append, aexecList_append]
  simp only [aexecList_cons', aexec_COMMENT, e1, aexecList]
  have hsub := aexec_SUBI_rsp (c := c) (la := la) (k := 2048) (i := 2048) rfl hrsp1 (by omega) hm (by decide)
  rw [hsub]
  simp only [aexec_MOV' (by decide : 2 < 16) (by decide : 7 < 16),
    aexec_MOV' (by decide : 3 < 16) (by decide : 2 < 16)]
  have h7' : a1.reg 7 = some h := by rw [P.regs 7 (by decide)]; exact h7
  refine ⟨_, by
    simp only [aexec, aalu, areadLoc, ard, show (3 : Nat) < 16 by decide, if_true, areadSrc, aimm32,
      show fitsI32 64 = true by decide, awriteLoc, awr, awrRaw, AState.setReg_reg]
    simp [h7']
    rfl, ?_⟩
  refine ⟨by simp [e48], by simp [h7'], by simp, ?_, ?_, ?_⟩
  · intro r h0 h2 h3
    simp [h0, h2, h3, P.regs r h0]
  · intro k hk
    have := P.saved k (by simpa using hk)
    simpa using this
  · intro n hn
    have := P.mem n (fun k hk => hn k (by simpa using hk))
    simpa using this

/-- State after `epilogue`: callee-saved registers reloaded from the save area, `rsp = m`. -/
structure AfterEpilogue (a a' : AState) (m : Nat) : Prop where
  rsp : a'.reg 0 = some (BitVec.ofNat 64 m)
  restored : ∀ k (hk : k < 6), a'.reg ([2, 3, 12, 13, 14, 15][k]'hk) = a.mem (m - 8 * (k + 1))
  regs : ∀ r, r ≠ 0 → r ∉ [2, 3, 12, 13, 14, 15] → a'.reg r = a.reg r
  mem : a'.mem = a.mem

theorem a_epilogue (hc : CfgOK c) (a : AState) (m : Nat)
    (hsp : a.reg 0 = some (BitVec.ofNat 64 (m - 2096))) (h8 : m % 8 = 0)
    (hlow : c.stackLow + 2096 ≤ m) (htop : m ≤ c.stackTop) :
    ∃ a', aexecList c la epilogue a = some a' ∧ AfterEpilogue a a' m := by
  have ht := hc.top
  have hadd := aexec_ADDI_rsp (c := c) (la := la) (k := 2048) (i := 2048) rfl hsp (by omega) (by decide)
  have e1 : m - 2096 + 2048 = m - 48 := by omega
  rw [e1] at hadd
  obtain ⟨a2, e2, P⟩ := a_popList (la := la) hc [15, 14, 13, 12, 3, 2] (by decide) (by decide)
    ({ a.setReg 0 (some (BitVec.ofNat 64 (m - 48))) with flags := none } : AState) (m - 48) (by simp)
    (by omega) (by omega) (by simp; omega)
  refine ⟨a2, ?_, ?_⟩
  · unfold epilogue
    rw [aexecList_append]
    simp only [aexecList_cons', aexec_COMMENT, hadd, aexecList]
    rw [show aexec c la (Code.LAB "cleanup") a = some a from rfl]
    simp only [hadd]
    exact e2
  · have l1 : ([15, 14, 13, 12, 3, 2] : List Nat).length = 6 := rfl
    refine ⟨?_, ?_, ?_, ?_⟩
    · rw [P.rsp, l1]; congr 2; omega
    · intro k hk
      have h0 := P.restored 5 (by decide)
      have h1 := P.restored 4 (by decide)
      have h2 := P.restored 3 (by decide)
      have h3 := P.restored 2 (by decide)
      have h4 := P.restored 1 (by decide)
      have h5 := P.restored 0 (by decide)
      simp only [List.getElem_cons_succ, List.getElem_cons_zero] at h0 h1 h2 h3 h4 h5
      have hk' : k = 0 ∨ k = 1 ∨ k = 2 ∨ k = 3 ∨ k = 4 ∨ k = 5 := by omega
      rcases hk' with rfl | rfl | rfl | rfl | rfl | rfl
      · simp only [List.getElem_cons_zero]; rw [h0]; simp; congr 1; omega
      · simp only [List.getElem_cons_succ, List.getElem_cons_zero]; rw [h1]; simp; congr 1; omega
      · simp only [List.getElem_cons_succ, List.getElem_cons_zero]; rw [h2]; simp; congr 1; omega
      · simp only [List.getElem_cons_succ, List.getElem_cons_zero]; rw [h3]; simp; congr 1; omega
      · simp only [List.getElem_cons_succ, List.getElem_cons_zero]; rw [h4]; simp; congr 1; omega
      · simp only [List.getElem_cons_succ, List.getElem_cons_zero]; rw [h5]; simp
    · intro r h0 hnot
      rw [P.regs r h0 (by simp at hnot ⊢; omega)]
      simp [h0]
    · rw [P.mem]; rfl

/-- prologue_epilogue (view level): whatever the body does, as long as it leaves `rsp` where the
    prologue put it and does not write the save area or anything above it, the epilogue returns
    with the six callee-saved registers and `rsp` at their entry values and the stack above the
    entry `rsp` (the return address) intact. -/
theorem a_prologue_epilogue (hc : CfgOK c) (a0 a1 a2 : AState) (m : Nat) (h : Word)
    (h8 : m % 8 = 0) (hlow : c.stackLow + 2096 ≤ m) (htop : m ≤ c.stackTop)
    (hpro : AfterPrologue a0 a1 m h)
    (hbody_rsp : a2.reg 0 = a1.reg 0)
    (hbody_mem : ∀ n, m - 48 ≤ n → a2.mem n = a1.mem n) :
    ∃ a3, aexecList c la epilogue a2 = some a3 ∧
      a3.reg 0 = some (BitVec.ofNat 64 m) ∧
      (∀ r, r ∈ [2, 3, 12, 13, 14, 15] → a3.reg r = a0.reg r) ∧
      (∀ r, r ≠ 0 → r ∉ [2, 3, 12, 13, 14, 15] → a3.reg r = a2.reg r) ∧
      (∀ n, m ≤ n → a3.mem n = a0.mem n) := by
  obtain ⟨a3, e, E⟩ := a_epilogue (la := la) hc a2 m (by rw [hbody_rsp, hpro.rsp]) h8 hlow htop
  refine ⟨a3, e, E.rsp, ?_, E.regs, ?_⟩
  · intro r hr
    have key : ∀ k (hk : k < 6), a3.reg ([2, 3, 12, 13, 14, 15][k]'hk) = a0.reg ([2, 3, 12, 13, 14, 15][k]'hk) := by
      intro k hk
      rw [E.restored k hk, hbody_mem _ (by omega), hpro.saved k hk]
    simp only [List.mem_cons, List.not_mem_nil, or_false] at hr
    rcases hr with rfl | rfl | rfl | rfl | rfl | rfl
    · exact key 0 (by decide)
    · exact key 1 (by decide)
    · exact key 2 (by decide)
    · exact key 3 (by decide)
    · exact key 4 (by decide)
    · exact key 5 (by decide)
  · intro n hn
    rw [E.mem, hbody_mem n (by omega), hpro.mem n (fun k hk => by omega)]

/-- sp_invariant: with the System V entry alignment (`rsp ≡ 8 mod 16`), `rsp ≡ 8 (mod 16)` after the
    prologue, i.e. at every statement boundary (all statement code preserves `rsp`: `Preserved`). -/
theorem sp_invariant {m : Nat} (h : m % 16 = 8) (hm : 2096 ≤ m) : (m - 2096) % 16 = 8 := by omega

/-! ## alignment of rsp at the call of the print runtime, for every context -/

open Scc.AxCut in
/-- registers_to_save of a context prefix whose first position is `k` -/
def regsToSave (l : List Binding) (k : Nat) : List Nat :=
  ((l.zipIdx k).map (fun (bo : Binding × Nat) =>
      if bo.1.chi == .ext then [CALLER_SAVE_FIRST + 2 * bo.2 + 1]
      else [CALLER_SAVE_FIRST + 2 * bo.2, CALLER_SAVE_FIRST + 2 * bo.2 + 1])).flatten

theorem csri_eq (ctx : Scc.AxCut.Ctx) :
    callerSaveRegistersInfo ctx = (max (2 * ctx.length + 4) 12, regsToSave (ctx.take 4) 0) := rfl

theorem regsToSave_bounds (l : List Scc.AxCut.Binding) (k : Nat) :
    (∀ r ∈ regsToSave l k, 4 + 2 * k ≤ r ∧ r < 4 + 2 * (k + l.length)) ∧
    (regsToSave l k).length ≤ 2 * l.length := by
  induction l generalizing k with
  | nil => simp [regsToSave]
  | cons b rest ih =>
    obtain ⟨ih1, ih2⟩ := ih (k + 1)
    have hcons : regsToSave (b :: rest) k =
        (if b.chi == .ext then [CALLER_SAVE_FIRST + 2 * k + 1]
         else [CALLER_SAVE_FIRST + 2 * k, CALLER_SAVE_FIRST + 2 * k + 1]) ++ regsToSave rest (k + 1) := by
      simp [regsToSave, List.zipIdx_cons]
    rw [hcons]
    have hF : CALLER_SAVE_FIRST = 4 := rfl
    constructor
    · intro r hr
      rw [List.mem_append] at hr
      rcases hr with hr | hr
      · split at hr <;> simp [hF] at hr <;> (simp only [List.length_cons]; omega)
      · have := ih1 r hr
        simp only [List.length_cons]; omega
    · rw [List.length_append]
      split <;> simp only [List.length_cons, List.length_nil] <;> omega

/-- the MOV block of save_caller_save_registers: register `l[j]` is copied to `first + k + j` -/
def backupMoves (first : Nat) (l : List Nat) (k : Nat) : List Code :=
  (l.zipIdx k).map (fun (ro : Nat × Nat) => Code.MOV (first + ro.2) ro.1)

/-- the MOV block of restore_caller_save_registers -/
def restoreMoves (first : Nat) (l : List Nat) (k : Nat) : List Code :=
  (l.zipIdx k).map (fun (ro : Nat × Nat) => Code.MOV ro.1 (first + ro.2))

theorem a_backupMoves (l : List Nat) (first k : Nat) (a : AState) (hsrc : ∀ r ∈ l, r < first)
    (h1 : 1 ≤ first) (hlen : l.length = 0 ∨ first + k + l.length ≤ 16) :
    ∃ a', aexecList c la (backupMoves first l k) a = some a' ∧
      (∀ j (h : j < l.length), a'.reg (first + k + j) = a.reg l[j]) ∧
      (∀ r, (r < first + k ∨ first + k + l.length ≤ r) → a'.reg r = a.reg r) ∧
      a'.mem = a.mem ∧ a'.flags = a.flags := by
  induction l generalizing k a with
  | nil => exact ⟨a, rfl, fun j h => by simp at h, fun _ _ => rfl, rfl, rfl⟩
  | cons r rest ih =>
    have hr : r < first := hsrc r (by simp)
    simp only [List.length_cons] at hlen
    have hlen : first + k + (rest.length + 1) ≤ 16 := by omega
    have hcons : backupMoves first (r :: rest) k = Code.MOV (first + k) r :: backupMoves first rest (k + 1) := by
      simp [backupMoves, List.zipIdx_cons]
    rw [hcons, aexecList_cons', aexec_MOV' (by omega) (by omega)]
    obtain ⟨a', e, h2, h3, h4, h5⟩ := ih (k + 1) (a.setReg (first + k) (a.reg r))
      (fun r' h' => hsrc r' (by simp [h'])) (by omega)
    refine ⟨a', e, ?_, ?_, by rw [h4]; rfl, by rw [h5]; rfl⟩
    · intro j hj
      cases j with
      | zero =>
        have := h3 (first + k) (Or.inl (by omega))
        simpa using this
      | succ j =>
        have hj' : j < rest.length := by simpa using hj
        have := h2 j hj'
        have e2 : first + (k + 1) + j = first + k + (j + 1) := by omega
        rw [e2] at this
        rw [this]
        have : rest[j] < first := hsrc rest[j] (by simp)
        have hne : rest[j] ≠ first + k := by omega
        simp [hne]
    · intro r' hr'
      simp only [List.length_cons] at hr'
      rw [h3 r' (by omega)]
      have hne : r' ≠ first + k := by omega
      simp [hne]

theorem save_eq (first : Nat) (L : List Nat) :
    saveCallerSaveRegisters first L =
      backupMoves first (L.take (backupRegistersUsed first L)) 0 ++
      (L.drop (backupRegistersUsed first L)).map Code.PUSH ++
      (if (L.length - backupRegistersUsed first L) % 2 = 0 then [Code.SUBI 0 8] else []) := by
  simp [saveCallerSaveRegisters, backupMoves, STACK, address, FIELD_SLOT_SIZE, consts]

/-- State after the save sequence of `print_i64`. -/
structure Saved (a a' : AState) (m m' : Nat) (first : Nat) (L : List Nat) : Prop where
  rsp : a'.reg 0 = some (BitVec.ofNat 64 m')
  /-- print_alignment: the call happens with `rsp ≡ 0 (mod 16)` -/
  aligned : m' % 16 = 0
  below : m' ≤ m
  room : m ≤ m' + 72

/-- print_alignment FOR EVERY CONTEXT: from a statement boundary (`rsp ≡ 8 mod 16`) the save
    sequence ends with `rsp ≡ 0 (mod 16)`: `|registers_to_save| - backup_registers_used` registers are
    pushed and one padding word is added exactly when that number is even. -/
theorem a_save_aligned (hc : CfgOK c) (ctx : Scc.AxCut.Ctx) (a : AState) (m : Nat)
    (hsp : a.reg 0 = some (BitVec.ofNat 64 m)) (h16 : m % 16 = 8)
    (hlow : c.stackLow + 72 ≤ m) (htop : m ≤ c.stackTop) :
    ∃ a' m', aexecList c la (saveCallerSaveRegisters (callerSaveRegistersInfo ctx).1
        (callerSaveRegistersInfo ctx).2) a = some a' ∧
      Saved a a' m m' (callerSaveRegistersInfo ctx).1 (callerSaveRegistersInfo ctx).2 := by
  rw [csri_eq]
  dsimp only
  generalize hfirst : max (2 * ctx.length + 4) 12 = first
  generalize hL : regsToSave (ctx.take 4) 0 = L
  have hb := regsToSave_bounds (ctx.take 4) 0
  rw [hL] at hb
  obtain ⟨hb1, hb2⟩ := hb
  have hlen4 : (ctx.take 4).length ≤ 4 := by simp; omega
  have hLlen : L.length ≤ 8 := by omega
  have hLr : ∀ r ∈ L, 4 ≤ r ∧ r < 12 := fun r hr => by have := hb1 r hr; omega
  have hf12 : 12 ≤ first := by rw [← hfirst]; exact Nat.le_max_right _ _
  generalize hused : backupRegistersUsed first L = used
  have hu1 : used ≤ L.length := by
    rw [← hused]; unfold backupRegistersUsed; omega
  have hu2 : first + used ≤ 16 ∨ used = 0 := by
    rw [← hused]; unfold backupRegistersUsed
    simp only [show REGISTER_NUM = 16 from rfl]; omega
  rw [save_eq, hused, aexecList_append, aexecList_append]
  -- moves
  obtain ⟨a1, e1, _, r1, _, _⟩ := a_backupMoves (la := la) (L.take used) first 0 a
    (fun r hr => by have := hLr r (List.mem_of_mem_take hr); omega) (by omega)
    (by simp only [List.length_take]; omega)
  have hsp1 : a1.reg 0 = some (BitVec.ofNat 64 m) := by rw [r1 0 (Or.inl (by omega))]; exact hsp
  rw [e1]
  dsimp only
  -- pushes
  have hdl : (L.drop used).length = L.length - used := by simp
  obtain ⟨a2, e2, P⟩ := a_pushList (la := la) hc (L.drop used)
    (fun r hr => by have := hLr r (List.mem_of_mem_drop hr); omega) a1 m hsp1 (by omega)
    (by rw [hdl]; omega) htop
  rw [e2]
  dsimp only
  have Prsp : a2.reg 0 = some (BitVec.ofNat 64 (m - 8 * (L.length - used))) := by
    rw [P.rsp, hdl]
  by_cases hpar : (L.length - used) % 2 = 0
  · rw [if_pos hpar]
    have hm : m - 8 * (L.length - used) < 2 ^ 64 := by have := hc.top; omega
    have hsub := aexec_SUBI_rsp (c := c) (la := la) (a := a2) (k := 8) (i := 8) rfl Prsp (by omega) hm
      (by decide)
    refine ⟨_, m - 8 * (L.length - used) - 8, by
      rw [aexecList_cons', hsub]; rfl, ⟨by simp, by omega, by omega, by omega⟩⟩
  · rw [if_neg hpar]
    exact ⟨a2, m - 8 * (L.length - used), rfl, ⟨Prsp, by omega, by omega, by omega⟩⟩

end Lists

end Scc.X86
