/-
  Scc.X86.LoaderNames — WHICH STRINGS the generic code generator (Scc/Backend/Generic.lean) hands to the
  label- and comment-taking methods of a backend.  Generic in the backend record `B`.

  Part 1: strings.  `NoNL s` (no line break), `StrOK okc s` (all characters in a class `okc`), closure
  under `++`, `toString`, `intercalate`, `String.join`, and the printed forms of identifiers / contexts /
  the comment texts of Generic.lean.
  Part 2: `progNamesOK okc p` — the DECIDABLE hypothesis on the names of a program: every identifier
  (definition names, variables, xtor / destructor tags) consists of `okc` characters, every type name
  is free of line breaks, and the mangled name of every type that a `switch` / `create` dispatches on
  consists of `okc` characters.
  Part 3: `OpsNames B P LOK` — what the generator needs from the backend methods for a predicate `P` on
  codes: comments without line break and labels in `LOK` give `P`-codes — and the lifting
  `post_compileR_names`: for a program with `progNamesOK`, every code that `compileR B hooks ren p`
  emits satisfies `P`, where `LOK = GenLabel okc ren`: labels are `okc`-strings containing `_`
  (`f_`, `Ty_7`, `Ty_7_Cons`), `lab<n>`, or `cleanup`.
  Proof file.
-/
import Scc.X86.ProofsWfProg
import Scc.X86.LoaderLemmas

set_option linter.unusedVariables false
set_option linter.unusedSimpArgs false

namespace Scc.X86.Loader

open Scc.AxCut Scc.Backend Scc.X86

/-! ## Part 1: strings -/

def NoNL (s : String) : Prop := '\n' ∉ s.toList

instance (s : String) : Decidable (NoNL s) := by unfold NoNL; exact inferInstance

def StrOK (okc : Char → Bool) (s : String) : Prop := ∀ c ∈ s.toList, okc c = true

theorem noNL_append {a b : String} : NoNL (a ++ b) ↔ NoNL a ∧ NoNL b := by
  simp [NoNL, String.toList_append, not_or]

theorem strOK_append {okc : Char → Bool} {a b : String} : StrOK okc (a ++ b) ↔ StrOK okc a ∧ StrOK okc b := by
  simp only [StrOK, String.toList_append, List.mem_append]
  constructor
  · intro h; exact ⟨fun c hc => h c (Or.inl hc), fun c hc => h c (Or.inr hc)⟩
  · rintro ⟨h1, h2⟩ c (hc | hc)
    · exact h1 c hc
    · exact h2 c hc

/-- what the character class of label-safe names must satisfy -/
structure OkcSpec (okc : Char → Bool) : Prop where
  nl : ∀ c, okc c = true → c ≠ '\n'
  us : okc '_' = true
  digit : ∀ c, c.isDigit = true → okc c = true

theorem StrOK.noNL {okc : Char → Bool} (H : OkcSpec okc) {s : String} (h : StrOK okc s) : NoNL s :=
  fun hm => H.nl _ (h _ hm) rfl

theorem natToString_toList (n : Nat) : (toString n).toList = Nat.toDigits 10 n := by
  show (Nat.repr n).toList = _
  exact Nat.toList_repr

theorem strOK_natToString {okc : Char → Bool} (H : OkcSpec okc) (n : Nat) : StrOK okc (toString n) := by
  intro c hc
  rw [natToString_toList] at hc
  exact H.digit c (isDigit_toDigits n c hc)

theorem noNL_natToString (n : Nat) : NoNL (toString n) := by
  intro hc
  rw [natToString_toList] at hc
  exact absurd (isDigit_toDigits n _ hc) (by decide)

theorem noNL_intToString (i : Int) : NoNL (toString i) := by
  intro hc
  have := immC_chars i '\n' hc
  revert this; decide

theorem strOK_us {okc : Char → Bool} (H : OkcSpec okc) : StrOK okc "_" := by
  intro c hc
  have : c = '_' := by simpa using hc
  subst this; exact H.us

theorem mem_intercalate {α : Type} {sep : List α} {c : α} : ∀ {ls : List (List α)},
    c ∈ sep.intercalate ls → c ∈ sep ∨ ∃ l ∈ ls, c ∈ l
  | [], h => by simp [Scc.Str.intercalate_nil'] at h
  | [x], h => by rw [Scc.Str.intercalate_singleton'] at h; exact Or.inr ⟨x, by simp, h⟩
  | x :: y :: r, h => by
    rw [Scc.Str.intercalate_cons_cons'] at h
    rcases List.mem_append.1 h with h | h
    · rcases List.mem_append.1 h with h | h
      · exact Or.inr ⟨x, by simp, h⟩
      · exact Or.inl h
    · rcases mem_intercalate (ls := y :: r) h with h | ⟨l, hl, hc⟩
      · exact Or.inl h
      · exact Or.inr ⟨l, by simp at hl ⊢; right; exact hl, hc⟩

theorem noNL_intercalate {sep : String} {l : List String} (hs : NoNL sep) (hl : ∀ x ∈ l, NoNL x) :
    NoNL (sep.intercalate l) := by
  intro hc
  rw [String.toList_intercalate] at hc
  rcases mem_intercalate hc with h | ⟨x, hx, hcx⟩
  · exact hs h
  · obtain ⟨y, hy, rfl⟩ := List.mem_map.1 hx
    exact hl y hy hcx

theorem noNL_join {l : List String} (hl : ∀ x ∈ l, NoNL x) : NoNL (String.join l) := by
  intro hc
  rw [String.toList_join] at hc
  obtain ⟨x, hx, hcx⟩ := List.mem_flatMap.1 hc
  exact hl x hx hcx

/-! ### identifiers, types, contexts -/

def identOK (okc : Char → Bool) (i : Ident) : Bool := i.name.toList.all okc

theorem strOK_print {okc : Char → Bool} (H : OkcSpec okc) {i : Ident} (h : identOK okc i = true) :
    StrOK okc i.print := by
  have hn : StrOK okc i.name := by
    intro c hc
    simp only [identOK, List.all_eq_true] at h
    exact h c hc
  unfold Ident.print
  split
  · exact hn
  · exact strOK_append.2 ⟨strOK_append.2 ⟨hn, strOK_us H⟩, strOK_natToString H _⟩

theorem noNL_print {okc : Char → Bool} (H : OkcSpec okc) {i : Ident} (h : identOK okc i = true) :
    NoNL i.print := (strOK_print H h).noNL H

/-- the printed form of a type has no line break -/
def tyNoNL (ty : Ty) : Bool := (tyPrint ty).toList.all (· != '\n')

/-- the mangled name of a type that a `switch` / `create` dispatches on is label-safe -/
def tyLabelOK (okc : Char → Bool) (ty : Ty) : Bool := (mangleTy ty).toList.all okc

theorem noNL_tyPrint {ty : Ty} (h : tyNoNL ty = true) : NoNL (tyPrint ty) := by
  simp only [tyNoNL, List.all_eq_true, bne_iff_ne, ne_eq] at h
  exact fun hm => h _ hm rfl

theorem strOK_mangleTy {okc : Char → Bool} {ty : Ty} (h : tyLabelOK okc ty = true) : StrOK okc (mangleTy ty) := by
  intro c hc
  simp only [tyLabelOK, List.all_eq_true] at h
  exact h c hc

def bindingOK (okc : Char → Bool) (b : Binding) : Bool := identOK okc b.var && tyNoNL b.ty

def ctxOK (okc : Char → Bool) (c : Ctx) : Bool := c.all (bindingOK okc)

/-- the invariant on the generator's current context: variable names are label-safe -/
def CtxVars (okc : Char → Bool) (c : Ctx) : Prop := ∀ b ∈ c, identOK okc b.var = true

theorem ctxVars_of_ctxOK {okc : Char → Bool} {c : Ctx} (h : ctxOK okc c = true) : CtxVars okc c := by
  intro b hb
  simp only [ctxOK, List.all_eq_true, bindingOK, Bool.and_eq_true] at h
  exact (h b hb).1

theorem CtxVars.append {okc : Char → Bool} {a b : Ctx} (ha : CtxVars okc a) (hb : CtxVars okc b) :
    CtxVars okc (a ++ b) := fun x hx => (List.mem_append.1 hx).elim (ha x) (hb x)

theorem CtxVars.single {okc : Char → Bool} {v : Ident} {chi : Chi} {ty : Ty} (h : identOK okc v = true) :
    CtxVars okc [⟨v, chi, ty⟩] := by
  intro b hb; simp only [List.mem_singleton] at hb; subst hb; exact h

theorem CtxVars.sub {okc : Char → Bool} {a b : Ctx} (hb : CtxVars okc b) (h : ∀ x ∈ a, x ∈ b) : CtxVars okc a :=
  fun x hx => hb x (h x hx)

theorem noNL_chiStr (c : Chi) : NoNL (chiStr c) := by cases c <;> decide
theorem noNL_ifSortSym (s : IfSort) : NoNL (ifSortSym s) := by cases s <;> decide
theorem noNL_opSym (o : BinOp) : NoNL o.sym := by cases o <;> decide

theorem noNL_varsPrint {okc : Char → Bool} (H : OkcSpec okc) {c : Ctx} (h : CtxVars okc c) : NoNL (varsPrint c) := by
  unfold varsPrint
  refine noNL_intercalate (by decide) ?_
  intro x hx
  obtain ⟨b, hb, rfl⟩ := List.mem_map.1 hx
  exact noNL_print H (h b hb)

theorem noNL_ctxPrint {okc : Char → Bool} (H : OkcSpec okc) {c : Ctx} (h : ctxOK okc c = true) : NoNL (ctxPrint c) := by
  unfold ctxPrint
  refine noNL_intercalate (by decide) ?_
  intro x hx
  obtain ⟨b, hb, rfl⟩ := List.mem_map.1 hx
  simp only [ctxOK, List.all_eq_true, bindingOK, Bool.and_eq_true] at h
  unfold bindingPrint
  simp only [noNL_append]
  exact ⟨⟨⟨⟨⟨noNL_print H (h b hb).1, by decide⟩, by decide⟩, noNL_chiStr _⟩, by decide⟩, noNL_tyPrint (h b hb).2⟩

theorem noNL_ctxHookComment {okc : Char → Bool} (H : OkcSpec okc) {c : Ctx} (h : CtxVars okc c) :
    NoNL (ctxHookComment c) := by
  unfold ctxHookComment
  simp only [noNL_append]
  refine ⟨⟨by decide, noNL_intercalate (by decide) ?_⟩, by decide⟩
  intro x hx
  obtain ⟨b, hb, rfl⟩ := List.mem_map.1 hx
  simp only [noNL_append]
  exact ⟨⟨noNL_print H (h b hb), by decide⟩, noNL_chiStr _⟩

theorem noNL_substComment {okc : Char → Bool} (H : OkcSpec okc) {r : List (Binding × Ident)}
    (h : ∀ e ∈ r, identOK okc e.1.var = true ∧ identOK okc e.2 = true) : NoNL (substComment r) := by
  unfold substComment
  simp only [noNL_append]
  refine ⟨⟨by decide, noNL_join ?_⟩, by decide⟩
  intro x hx
  obtain ⟨e, he, rfl⟩ := List.mem_map.1 hx
  simp only [noNL_append]
  exact ⟨⟨⟨⟨by decide, noNL_print H (h e he).1⟩, by decide⟩, noNL_print H (h e he).2⟩, by decide⟩

theorem noNL_ifcComment {okc : Char → Bool} (H : OkcSpec okc) (sort : IfSort) {fst : Ident} {snd : Option Ident}
    (h1 : identOK okc fst = true) (h2 : ∀ s, snd = some s → identOK okc s = true) :
    NoNL (ifcComment sort fst snd) := by
  unfold ifcComment
  simp only [noNL_append]
  refine ⟨⟨⟨⟨⟨⟨by decide, noNL_print H h1⟩, by decide⟩, noNL_ifSortSym _⟩, by decide⟩, ?_⟩, by decide⟩
  cases snd with
  | none => decide
  | some s => exact noNL_print H (h2 s rfl)

theorem noNL_invokePrint {okc : Char → Bool} (H : OkcSpec okc) {var tag : Ident} {args : Ctx}
    (h1 : identOK okc var = true) (h2 : identOK okc tag = true) (h3 : ctxOK okc args = true) :
    NoNL (invokePrint var tag args) := by
  unfold invokePrint
  simp only [noNL_append]
  refine ⟨⟨⟨⟨by decide, noNL_print H h1⟩, by decide⟩, noNL_print H h2⟩, ?_⟩
  split
  · decide
  · simp only [noNL_append]
    exact ⟨⟨by decide, noNL_ctxPrint H h3⟩, by decide⟩

/-! ## Part 2: the decidable hypothesis on the names of a program -/

mutual
  def stmtNamesOK (okc : Char → Bool) : Stmt → Bool
    | .subst pairs next =>
      pairs.all (fun e => identOK okc e.1.var && identOK okc e.2) && stmtNamesOK okc next
    | .call label _ => identOK okc label
    | .letS var ty tag args next _ =>
      identOK okc var && tyNoNL ty && identOK okc tag && ctxOK okc args && stmtNamesOK okc next
    | .switch var ty clauses _ => identOK okc var && tyLabelOK okc ty && clausesNamesOK okc clauses
    | .create var ty env clauses next _ _ =>
      identOK okc var && tyNoNL ty && tyLabelOK okc ty &&
      (match env with | some e => ctxOK okc e | none => true) &&
      clausesNamesOK okc clauses && stmtNamesOK okc next
    | .invoke var tag _ args => identOK okc var && identOK okc tag && ctxOK okc args
    | .lit var _ next _ => identOK okc var && stmtNamesOK okc next
    | .op var fst _ snd next _ => identOK okc var && identOK okc fst && identOK okc snd && stmtNamesOK okc next
    | .print _ var next _ => identOK okc var && stmtNamesOK okc next
    | .ifc _ fst snd thenc elsec =>
      identOK okc fst && (match snd with | some s => identOK okc s | none => true) &&
      stmtNamesOK okc thenc && stmtNamesOK okc elsec
    | .exit var => identOK okc var
  def clausesNamesOK (okc : Char → Bool) : Clauses → Bool
    | .nil => true
    | .cons xtor ctx body rest =>
      identOK okc xtor && ctxOK okc ctx && stmtNamesOK okc body && clausesNamesOK okc rest
end

def defNamesOK (okc : Char → Bool) (d : Def) : Bool :=
  identOK okc d.name && ctxOK okc d.ctx && stmtNamesOK okc d.body

/-- **the decidable hypothesis on names**: see the file header -/
def progNamesOK (okc : Char → Bool) (p : AxCut.Prog) : Bool := p.defs.all (defNamesOK okc)

/-! ## Part 3: the generator -/

/-- the labels the generic generator produces -/
def GenLabel (okc : Char → Bool) (ren : Nat → String) (l : String) : Prop :=
  (StrOK okc l ∧ '_' ∈ l.toList) ∨ (∃ n, l = "lab" ++ ren n) ∨ l = "cleanup"

section Generic

variable {Code T : Type} (B : Backend Code T) (P : Code → Prop) (LOK : String → Prop)

/-- what the generic generator needs from the backend methods: comments without line break and
    labels in `LOK` give `P`-codes, whatever the temporaries and numbers are -/
structure OpsNames : Prop where
  comment : ∀ m, NoNL m → P (B.comment m)
  label : ∀ l, LOK l → P (B.label l)
  jump : ∀ t, AllP P (B.jump t)
  jumpLabel : ∀ l, LOK l → AllP P (B.jumpLabel l)
  jumpLabelFixed : ∀ l, LOK l → AllP P (B.jumpLabelFixed l)
  jumpLabelIf : ∀ s a b l, LOK l → AllP P (B.jumpLabelIf s a b l)
  jumpLabelIfZero : ∀ s a l, LOK l → AllP P (B.jumpLabelIfZero s a l)
  loadImmediate : ∀ t n, AllP P (B.loadImmediate t n)
  loadLabel : ∀ t l, LOK l → AllP P (B.loadLabel t l)
  addAndJump : ∀ t k, AllP P (B.addAndJump t k)
  binop : ∀ o t s1 s2, AllP P (B.binop o t s1 s2)
  mov : ∀ t s, AllP P (B.mov t s)
  printI64 : ∀ nl t ctx, Post (B.printI64 nl t ctx) (AllP P)
  eraseBlock : ∀ t, Post (B.eraseBlock t) (AllP P)
  shareBlockN : ∀ t n, Post (B.shareBlockN t n) (AllP P)
  store : ∀ a b, Post (B.store a b) (AllP P)
  load : ∀ a b, Post (B.load a b) (AllP P)
  storeTemporary : ∀ t sp, AllP P (B.storeTemporary t sp)
  restoreTemporary : ∀ t sp, AllP P (B.restoreTemporary t sp)

variable {B P LOK}

/-! ### parallel moves and substitutions emit only fixed comments -/

mutual
theorem allPN_treeMoves (S : OpsNames B P LOK) (t : T) (sp : Bool) : ∀ (tr : Tree T), AllP P (treeMoves B t sp tr)
  | .backEdge => by simp only [treeMoves]; exact S.storeTemporary _ _
  | .node target kids => by
    simp only [treeMoves]
    exact AllP.append (allPN_treeMovesList S target sp kids) (S.mov _ _)
theorem allPN_treeMovesList (S : OpsNames B P LOK) (t : T) (sp : Bool) :
    ∀ (trs : List (Tree T)), AllP P (treeMovesList B t sp trs)
  | [] => by simp only [treeMovesList]; exact AllP.nil
  | k :: ks => by
    simp only [treeMovesList]
    exact AllP.append (allPN_treeMoves S t sp k) (allPN_treeMovesList S t sp ks)
end

theorem allPN_rootMoves (S : OpsNames B P LOK) (root : Root T) : AllP P (rootMoves B root) := by
  cases root with
  | startNode t kids =>
    simp only [rootMoves]
    exact AllP.append (allPN_treeMovesList S _ _ _) (AllP.ite (S.restoreTemporary _ _) AllP.nil)

theorem allPN_parallelMoves (S : OpsNames B P LOK) {conns : List (T × List T)} {code : List Code}
    (h : parallelMoves B conns = .ok code) : AllP P code := by
  unfold parallelMoves at h
  split at h
  · cases h
  · rename_i forest _
    cases h
    refine AllP.append (AllP.ite (AllP.single (S.comment _ (by decide))) AllP.nil) (AllP.flatten ?_)
    intro l hl
    obtain ⟨r, _, rfl⟩ := List.mem_map.1 hl
    exact allPN_rootMoves S r

theorem postN_codeExchange (S : OpsNames B P LOK) (tm : List (Binding × List Nat)) (context newContext : Ctx) :
    Post (codeExchange B tm context newContext) (AllP P) := by
  unfold codeExchange
  refine Post.bind (Post.true _) fun conns _ => ?_
  cases hpm : parallelMoves B conns with
  | error e => exact Post.throw
  | ok code => exact Post.pure (allPN_parallelMoves S hpm)

theorem postN_updateReferenceCount (S : OpsNames B P LOK) (var : Ident) (hv : NoNL var.print) (context : Ctx)
    (newCount : Nat) : Post (updateReferenceCount B var context newCount) (AllP P) := by
  unfold updateReferenceCount
  refine Post.bind (Post.true _) fun t _ => ?_
  match newCount with
  | 0 =>
    exact Post.bind (S.eraseBlock t) fun code hc =>
      Post.pure (AllP.cons (S.comment _ (noNL_append.2 ⟨by decide, hv⟩)) hc)
  | 1 => exact Post.pure AllP.nil
  | n + 2 =>
    exact Post.bind (S.shareBlockN t (n + 1)) fun code hc =>
      Post.pure (AllP.cons (S.comment _ (noNL_append.2 ⟨by decide, hv⟩)) hc)

theorem postN_codeWeakeningContraction (S : OpsNames B P LOK) (context : Ctx) :
    ∀ (tm : List (Binding × List Nat)), (∀ e ∈ tm, NoNL e.1.var.print) →
      Post (codeWeakeningContraction B tm context) (AllP P)
  | [], _ => by simp only [codeWeakeningContraction]; exact Post.pure AllP.nil
  | (binding, targets) :: rest, h => by
    simp only [codeWeakeningContraction]
    refine Post.bind (Q1 := AllP P) ?_ fun code hc => ?_
    · split
      · exact postN_updateReferenceCount S _ (h (binding, targets) (by simp)) _ _
      · exact Post.pure AllP.nil
    · exact Post.bind (postN_codeWeakeningContraction S context rest (fun e he => h e (by simp [he])))
        fun codeRest hr => Post.pure (AllP.append hc hr)

/-- the keys of the transposed substitution are bindings of the context -/
theorem transpose_keys (rearrange : List (Binding × Ident)) (context : Ctx) {Q : Binding → Prop}
    (hctx : ∀ b ∈ context, Q b) : ∀ e ∈ transpose rearrange context, Q e.1 := by
  unfold transpose
  suffices h : ∀ (l : Ctx) (acc : List (Binding × List Nat)), (∀ b ∈ l, Q b) →
      (∀ e ∈ acc, Q e.1 ∧ True) →
      ∀ e ∈ l.foldl (fun targetMap binding =>
        mapInsert bindingCmp binding
          ((rearrange.filter fun x => binding.var.id == x.2.id).map fun x => x.1.var.id) targetMap) acc,
        Q e.1 ∧ True from
    fun e he => (h context [] hctx (by simp) e he).1
  intro l
  induction l with
  | nil => intro acc _ hacc; simpa using hacc
  | cons b rest ih =>
    intro acc hl hacc
    simp only [List.foldl_cons]
    exact ih _ (fun x hx => hl x (by simp [hx]))
      (mem_mapInsert bindingCmp b _ (QK := Q) (QV := fun _ => True) (hl b (by simp)) trivial acc hacc)

end Generic

section Traversal

variable {Code T : Type} {B : Backend Code T} {P : Code → Prop} {okc : Char → Bool} {ren : Nat → String}

theorem genLabel_us (H : OkcSpec okc) {a : String} (ha : StrOK okc a) {b : String} (hb : StrOK okc b) :
    GenLabel okc ren (a ++ "_" ++ b) := by
  refine Or.inl ⟨strOK_append.2 ⟨strOK_append.2 ⟨ha, strOK_us H⟩, hb⟩, ?_⟩
  simp [String.toList_append]

theorem genLabel_us' (H : OkcSpec okc) {a : String} (ha : StrOK okc a) : GenLabel okc ren (a ++ "_") := by
  refine Or.inl ⟨strOK_append.2 ⟨ha, strOK_us H⟩, ?_⟩
  simp [String.toList_append]

theorem strOK_of_genLabel_us (H : OkcSpec okc) {a : String} (ha : StrOK okc a) {b : String} (hb : StrOK okc b) :
    StrOK okc (a ++ "_" ++ b) := strOK_append.2 ⟨strOK_append.2 ⟨ha, strOK_us H⟩, hb⟩

theorem post_freshLabelStr (ren : Nat → String) : Post (freshLabelStr ren) (fun s => ∃ n, s = ren n) := by
  unfold freshLabelStr
  exact Post.bind (Post.true _) fun n _ => Post.pure ⟨n, rfl⟩

theorem allPN_hookCode (H : OkcSpec okc) (S : OpsNames B P (GenLabel okc ren)) (hooks : Bool) {ctx : Ctx}
    (hc : CtxVars okc ctx) : AllP P (hookCode B hooks ctx) := by
  unfold hookCode
  exact AllP.ite (AllP.single (S.comment _ (noNL_ctxHookComment H hc))) AllP.nil

theorem allPN_c0 (H : OkcSpec okc) (S : OpsNames B P (GenLabel okc ren)) (hooks : Bool) {ctx : Ctx}
    (hc : CtxVars okc ctx) {m : String} (hm : NoNL m) : AllP P (hookCode B hooks ctx ++ [B.comment m]) :=
  AllP.append (allPN_hookCode H S hooks hc) (AllP.single (S.comment _ hm))

theorem allPN_codeTable (H : OkcSpec okc) (S : OpsNames B P (GenLabel okc ren)) {base : String}
    (hbase : StrOK okc base) : ∀ (cs : Clauses), clausesNamesOK okc cs = true → AllP P (codeTable B cs base)
  | .nil, _ => by simp only [codeTable]; exact AllP.nil
  | .cons xtor _ _ rest, h => by
    simp only [clausesNamesOK, Bool.and_eq_true] at h
    simp only [codeTable]
    exact AllP.append (S.jumpLabelFixed _ (genLabel_us H hbase (strOK_print H h.1.1.1)))
      (allPN_codeTable H S hbase rest h.2)

theorem ctxVars_take {ctx : Ctx} (h : CtxVars okc ctx) (n : Nat) : CtxVars okc (ctx.take n) :=
  h.sub (fun _ hx => List.mem_of_mem_take hx)
theorem ctxVars_drop {ctx : Ctx} (h : CtxVars okc ctx) (n : Nat) : CtxVars okc (ctx.drop n) :=
  h.sub (fun _ hx => List.mem_of_mem_drop hx)
theorem ctxVars_dropLast {ctx : Ctx} (h : CtxVars okc ctx) : CtxVars okc ctx.dropLast :=
  h.sub (fun _ hx => by rw [List.dropLast_eq_take] at hx; exact List.mem_of_mem_take hx)

theorem post_splitOffLast {ctx : Ctx} (h : CtxVars okc ctx) (n : Nat) :
    Post (splitOffLast ctx n) (fun r => CtxVars okc r.1 ∧ CtxVars okc r.2) := by
  unfold splitOffLast
  split
  · exact Post.pure ⟨ctxVars_take h _, ctxVars_drop h _⟩
  · exact Post.throw

mutual
theorem postN_codeStatementR (H : OkcSpec okc) (hren : ∀ n, StrOK okc (ren n))
    (S : OpsNames B P (GenLabel okc ren)) (hooks : Bool) (types : List TypeDecl) :
    ∀ (s : Stmt) (context : Ctx), stmtNamesOK okc s = true → CtxVars okc context →
      Post (codeStatementR B hooks ren types s context) (AllP P)
  | .subst rearrange next, context, hb, hc => by
    simp only [codeStatementR]
    simp only [stmtNamesOK, Bool.and_eq_true, List.all_eq_true] at hb
    have hnew : CtxVars okc (rearrange.map (·.1)) := by
      intro b hbm
      obtain ⟨e, he, rfl⟩ := List.mem_map.1 hbm
      exact (hb.1 e he).1
    refine Post.bind (postN_codeWeakeningContraction S context _
      (transpose_keys rearrange context (Q := fun b => NoNL b.var.print)
        (fun b hbm => noNL_print H (hc b hbm)))) fun c1 h1 => ?_
    refine Post.bind (postN_codeExchange S _ _ _) fun c2 h2 => ?_
    refine Post.bind (postN_codeStatementR H hren S hooks types next _ hb.2 hnew) fun c3 h3 => ?_
    exact Post.pure (AllP.append (AllP.append (AllP.append
      (allPN_c0 H S _ hc (noNL_substComment H hb.1)) h1) h2) h3)
  | .call label args, context, hb, hc => by
    simp only [codeStatementR]
    simp only [stmtNamesOK] at hb
    exact Post.pure (AllP.append (allPN_c0 H S _ hc (noNL_append.2 ⟨noNL_print H hb, by decide⟩))
      (S.jumpLabel _ (genLabel_us' H (strOK_print H hb))))
  | .letS var ty tag args next fv, context, hb, hc => by
    simp only [codeStatementR]
    simp only [stmtNamesOK, Bool.and_eq_true] at hb
    obtain ⟨⟨⟨⟨hvar, hty⟩, htag⟩, hargs⟩, hnext⟩ := hb
    refine Post.bind (Post.true _) fun decl _ => ?_
    refine Post.bind (Post.true _) fun pos _ => ?_
    refine Post.bind (post_splitOffLast hc _) fun sp hsp => ?_
    obtain ⟨context1, arguments⟩ := sp
    dsimp only
    refine Post.bind (S.store _ _) fun c1 h1 => ?_
    refine Post.bind (Post.true _) fun t _ => ?_
    refine Post.bind (postN_codeStatementR H hren S hooks types next _ hnext
      (hsp.1.append (CtxVars.single hvar))) fun c3 h3 => ?_
    refine Post.pure (AllP.append (AllP.append (AllP.append (allPN_c0 H S _ hc ?_) h1)
      (AllP.cons (S.comment _ (by decide)) (S.loadImmediate _ _))) h3)
    simp only [noNL_append]
    exact ⟨⟨⟨⟨⟨⟨⟨⟨by decide, noNL_print H hvar⟩, by decide⟩, noNL_tyPrint hty⟩, by decide⟩, noNL_print H htag⟩,
      by decide⟩, noNL_varsPrint H (ctxVars_of_ctxOK hargs)⟩, by decide⟩
  | .switch var ty clauses fv, context, hb, hc => by
    simp only [codeStatementR]
    simp only [stmtNamesOK, Bool.and_eq_true] at hb
    obtain ⟨⟨hvar, hty⟩, hcl⟩ := hb
    refine Post.bind (post_freshLabelStr ren) fun num hnum => ?_
    obtain ⟨n, rfl⟩ := hnum
    have hbase : StrOK okc (mangleTy ty ++ "_" ++ ren n) :=
      strOK_of_genLabel_us H (strOK_mangleTy hty) (hren n)
    have hlbl : GenLabel okc ren (mangleTy ty ++ "_" ++ ren n) := genLabel_us H (strOK_mangleTy hty) (hren n)
    refine Post.bind (Q1 := AllP P) ?_ fun c1 h1 => ?_
    · split
      · exact Post.pure (AllP.single (S.comment _ (by decide)))
      · exact Post.bind (Post.true _) fun t _ =>
          Post.pure (AllP.append (AllP.append (S.loadLabel _ _ hlbl) (S.binop _ _ _ _)) (S.jump _))
    · refine Post.bind (postN_codeClausesR H hren S hooks types _ (ctxVars_dropLast hc) clauses _ hcl hbase)
        fun c3 h3 => ?_
      exact Post.pure (AllP.append (AllP.append (AllP.append
        (allPN_c0 H S _ hc (noNL_append.2 ⟨noNL_append.2 ⟨by decide, noNL_print H hvar⟩, by decide⟩)) h1)
        (AllP.cons (S.label _ hlbl) (AllP.ite (allPN_codeTable H S hbase clauses hcl) AllP.nil))) h3)
  | .create var ty env clauses next fv1 fv2, context, hb, hc => by
    cases env with
    | none => simp only [codeStatementR]; exact Post.throw
    | some envCtx =>
      simp only [codeStatementR]
      simp only [stmtNamesOK, Bool.and_eq_true] at hb
      obtain ⟨⟨⟨⟨⟨hvar, hty⟩, htyl⟩, henv⟩, hcl⟩, hnext⟩ := hb
      refine Post.bind (post_splitOffLast hc _) fun sp hsp => ?_
      obtain ⟨context1, closureEnvironment⟩ := sp
      dsimp only
      refine Post.bind (S.store _ _) fun c1 h1 => ?_
      refine Post.bind (post_freshLabelStr ren) fun num hnum => ?_
      obtain ⟨n, rfl⟩ := hnum
      have hbase : StrOK okc (mangleTy ty ++ "_" ++ ren n) :=
        strOK_of_genLabel_us H (strOK_mangleTy htyl) (hren n)
      have hlbl : GenLabel okc ren (mangleTy ty ++ "_" ++ ren n) := genLabel_us H (strOK_mangleTy htyl) (hren n)
      refine Post.bind (Post.true _) fun t _ => ?_
      refine Post.bind (postN_codeStatementR H hren S hooks types next _ hnext
        (hsp.1.append (CtxVars.single hvar))) fun c3 h3 => ?_
      refine Post.bind (postN_codeMethodsR H hren S hooks types _ hsp.2 clauses _ hcl hbase) fun c5 h5 => ?_
      refine Post.pure (AllP.append (AllP.append (AllP.append (AllP.append (AllP.append
        (allPN_c0 H S _ hc ?_) h1)
        (AllP.cons (S.comment _ (by decide)) (S.loadLabel _ _ hlbl))) h3)
        (AllP.cons (S.label _ hlbl) (AllP.ite (allPN_codeTable H S hbase clauses hcl) AllP.nil))) h5)
      simp only [noNL_append]
      exact ⟨⟨⟨⟨⟨⟨by decide, noNL_print H hvar⟩, by decide⟩, noNL_tyPrint hty⟩, by decide⟩,
        noNL_varsPrint H (ctxVars_of_ctxOK henv)⟩, by decide⟩
  | .invoke var tag ty args, context, hb, hc => by
    simp only [codeStatementR]
    simp only [stmtNamesOK, Bool.and_eq_true] at hb
    obtain ⟨⟨hvar, htag⟩, hargs⟩ := hb
    have hcom := noNL_invokePrint H hvar htag hargs
    refine Post.bind (Post.true _) fun t _ => ?_
    refine Post.bind (Post.true _) fun decl _ => ?_
    split
    · exact Post.pure (AllP.append (AllP.append (allPN_c0 H S _ hc hcom)
        (AllP.single (S.comment _ (by decide)))) (S.jump _))
    · exact Post.bind (Post.true _) fun pos _ =>
        Post.pure (AllP.append (allPN_c0 H S _ hc hcom) (S.addAndJump _ _))
  | .lit var n next fv, context, hb, hc => by
    simp only [codeStatementR]
    simp only [stmtNamesOK, Bool.and_eq_true] at hb
    refine Post.bind (Post.true _) fun t _ => ?_
    refine Post.bind (postN_codeStatementR H hren S hooks types next _ hb.2
      (hc.append (CtxVars.single hb.1))) fun c2 h2 => ?_
    refine Post.pure (AllP.append (AllP.append (allPN_c0 H S _ hc ?_) (S.loadImmediate _ _)) h2)
    simp only [noNL_append]
    exact ⟨⟨⟨⟨by decide, noNL_print H hb.1⟩, by decide⟩, noNL_intToString n⟩, by decide⟩
  | .op var fst o snd next fv, context, hb, hc => by
    simp only [codeStatementR]
    simp only [stmtNamesOK, Bool.and_eq_true] at hb
    obtain ⟨⟨⟨hvar, hfst⟩, hsnd⟩, hnext⟩ := hb
    refine Post.bind (Post.true _) fun t _ => ?_
    refine Post.bind (Post.true _) fun s1 _ => ?_
    refine Post.bind (Post.true _) fun s2 _ => ?_
    refine Post.bind (postN_codeStatementR H hren S hooks types next _ hnext
      (hc.append (CtxVars.single hvar))) fun c2 h2 => ?_
    refine Post.pure (AllP.append (AllP.append (allPN_c0 H S _ hc ?_) (S.binop _ _ _ _)) h2)
    simp only [noNL_append]
    exact ⟨⟨⟨⟨⟨⟨⟨noNL_print H hvar, by decide⟩, noNL_print H hfst⟩, by decide⟩, noNL_opSym o⟩, by decide⟩,
      noNL_print H hsnd⟩, by decide⟩
  | .print newline var next fv, context, hb, hc => by
    simp only [codeStatementR]
    simp only [stmtNamesOK, Bool.and_eq_true] at hb
    refine Post.bind (Post.true _) fun t _ => ?_
    refine Post.bind (S.printI64 _ _ _) fun c1 h1 => ?_
    refine Post.bind (postN_codeStatementR H hren S hooks types next _ hb.2 hc) fun c2 h2 => ?_
    refine Post.pure (AllP.append (AllP.append (allPN_c0 H S _ hc ?_) h1) h2)
    simp only [noNL_append]
    refine ⟨⟨⟨?_, by decide⟩, noNL_print H hb.1⟩, by decide⟩
    cases newline <;> decide
  | .ifc sort fst snd thenc elsec, context, hb, hc => by
    simp only [codeStatementR]
    simp only [stmtNamesOK, Bool.and_eq_true] at hb
    obtain ⟨⟨⟨hfst, hsnd⟩, hthen⟩, helse⟩ := hb
    refine Post.bind (post_freshLabelStr ren) fun num hnum => ?_
    obtain ⟨n, rfl⟩ := hnum
    have hlbl : GenLabel okc ren ("lab" ++ ren n) := Or.inr (Or.inl ⟨n, rfl⟩)
    refine Post.bind (Q1 := AllP P) ?_ fun c1 h1 => ?_
    · cases snd with
      | none =>
        dsimp only
        exact Post.bind (Post.true _) fun a _ => Post.pure (S.jumpLabelIfZero _ _ _ hlbl)
      | some snd =>
        dsimp only
        exact Post.bind (Post.true _) fun a _ => Post.bind (Post.true _) fun b _ =>
          Post.pure (S.jumpLabelIf _ _ _ _ hlbl)
    · refine Post.bind (postN_codeStatementR H hren S hooks types elsec _ helse hc) fun c2 h2 => ?_
      refine Post.bind (postN_codeStatementR H hren S hooks types thenc _ hthen hc) fun c3 h3 => ?_
      have hcom : NoNL (ifcComment sort fst snd) := by
        refine noNL_ifcComment H sort hfst ?_
        intro s hs; subst hs; exact hsnd
      exact Post.pure (AllP.append (AllP.append (AllP.append (AllP.append (AllP.append
        (allPN_c0 H S _ hc hcom) h1)
        (AllP.single (S.comment _ (by decide)))) h2)
        (AllP.cons (S.label _ hlbl) (AllP.single (S.comment _ (by decide))))) h3)
  | .exit var, context, hb, hc => by
    simp only [codeStatementR]
    simp only [stmtNamesOK] at hb
    exact Post.bind (Post.true _) fun t _ =>
      Post.pure (AllP.append (AllP.append
        (allPN_c0 H S _ hc (noNL_append.2 ⟨by decide, noNL_print H hb⟩)) (S.mov _ _))
        (S.jumpLabel _ (Or.inr (Or.inr rfl))))
theorem postN_codeClausesR (H : OkcSpec okc) (hren : ∀ n, StrOK okc (ren n))
    (S : OpsNames B P (GenLabel okc ren)) (hooks : Bool) (types : List TypeDecl) (context : Ctx)
    (hc : CtxVars okc context) :
    ∀ (cs : Clauses) (baseLabel : String), clausesNamesOK okc cs = true → StrOK okc baseLabel →
      Post (codeClausesR B hooks ren types context cs baseLabel) (AllP P)
  | .nil, _, _, _ => by simp only [codeClausesR]; exact Post.pure AllP.nil
  | .cons xtor clauseCtx body rest, baseLabel, hb, hbase => by
    simp only [codeClausesR]
    simp only [clausesNamesOK, Bool.and_eq_true] at hb
    obtain ⟨⟨⟨hx, hctx⟩, hbody⟩, hrest⟩ := hb
    refine Post.bind (S.load _ _) fun c1 h1 => ?_
    refine Post.bind (postN_codeStatementR H hren S hooks types body _ hbody
      (hc.append (ctxVars_of_ctxOK hctx))) fun c2 h2 => ?_
    refine Post.bind (postN_codeClausesR H hren S hooks types context hc rest baseLabel hrest hbase) fun c3 h3 => ?_
    exact Post.pure (AllP.cons (S.label _ (genLabel_us H hbase (strOK_print H hx)))
      (AllP.append (AllP.append h1 h2) h3))
theorem postN_codeMethodsR (H : OkcSpec okc) (hren : ∀ n, StrOK okc (ren n))
    (S : OpsNames B P (GenLabel okc ren)) (hooks : Bool) (types : List TypeDecl) (env : Ctx)
    (hc : CtxVars okc env) :
    ∀ (cs : Clauses) (baseLabel : String), clausesNamesOK okc cs = true → StrOK okc baseLabel →
      Post (codeMethodsR B hooks ren types env cs baseLabel) (AllP P)
  | .nil, _, _, _ => by simp only [codeMethodsR]; exact Post.pure AllP.nil
  | .cons xtor clauseCtx body rest, baseLabel, hb, hbase => by
    simp only [codeMethodsR]
    simp only [clausesNamesOK, Bool.and_eq_true] at hb
    obtain ⟨⟨⟨hx, hctx⟩, hbody⟩, hrest⟩ := hb
    refine Post.bind (S.load _ _) fun c1 h1 => ?_
    refine Post.bind (postN_codeStatementR H hren S hooks types body _ hbody
      ((ctxVars_of_ctxOK hctx).append hc)) fun c2 h2 => ?_
    refine Post.bind (postN_codeMethodsR H hren S hooks types env hc rest baseLabel hrest hbase) fun c3 h3 => ?_
    exact Post.pure (AllP.cons (S.label _ (genLabel_us H hbase (strOK_print H hx)))
      (AllP.append (AllP.append h1 h2) h3))
end

theorem postN_translateR (H : OkcSpec okc) (hren : ∀ n, StrOK okc (ren n))
    (S : OpsNames B P (GenLabel okc ren)) (hooks : Bool) (types : List TypeDecl) :
    ∀ (defs : List Def), (∀ d ∈ defs, defNamesOK okc d = true) →
      Post (translateR B hooks ren types defs) (fun blocks => ∀ b ∈ blocks, AllP P b)
  | [], _ => by simp only [translateR]; exact Post.pure (by simp)
  | d :: ds, h => by
    simp only [translateR]
    have hd := h d (by simp)
    simp only [defNamesOK, Bool.and_eq_true] at hd
    refine Post.bind (postN_codeStatementR H hren S hooks types d.body d.ctx hd.2
      (ctxVars_of_ctxOK hd.1.2)) fun is his => ?_
    refine Post.bind (postN_translateR H hren S hooks types ds (fun x hx => h x (by simp [hx]))) fun rest hr => ?_
    exact Post.pure (by
      intro b hb
      simp only [List.mem_cons] at hb
      rcases hb with rfl | hb
      · exact his
      · exact hr b hb)

theorem allPN_assemble (H : OkcSpec okc) (S : OpsNames B P (GenLabel okc ren)) :
    ∀ (blocks : List (List Code)) (names : List Ident), (∀ b ∈ blocks, AllP P b) →
      (∀ n ∈ names, identOK okc n = true) → AllP P (assemble B blocks names)
  | [], _, _, _ => by simp only [assemble]; exact AllP.nil
  | _ :: _, [], _, _ => by simp only [assemble]; exact AllP.nil
  | block :: blocks, name :: names, h, hn => by
    simp only [assemble]
    exact AllP.cons (S.label _ (genLabel_us' H (strOK_print H (hn name (by simp)))))
      (AllP.append (h block (by simp))
        (allPN_assemble H S blocks names (fun b hb => h b (by simp [hb])) (fun n hnm => hn n (by simp [hnm]))))

/-- GENERIC LIFTING for names: every code emitted for a program whose names are label-safe satisfies
    `P`, if the backend methods produce `P`-codes from line-break-free comments and `GenLabel`s -/
theorem post_compileR_names (H : OkcSpec okc) (hren : ∀ n, StrOK okc (ren n))
    (S : OpsNames B P (GenLabel okc ren)) (hooks : Bool) (p : AxCut.Prog) (hp : progNamesOK okc p = true) :
    Post (compileR B hooks ren p) (fun r => AllP P r.1) := by
  unfold compileR
  simp only [progNamesOK, List.all_eq_true] at hp
  cases hd : p.defs with
  | nil => exact Post.throw
  | cons d0 ds =>
    dsimp only
    refine Post.bind (postN_translateR H hren S hooks p.types _ (by rw [← hd]; exact hp)) fun blocks hb => ?_
    refine Post.pure (allPN_assemble H S _ _ hb ?_)
    intro n hn
    obtain ⟨d, hdm, rfl⟩ := List.mem_map.1 hn
    have := hp d (by rw [hd]; exact hdm)
    simp only [defNamesOK, Bool.and_eq_true] at this
    exact this.1.1

end Traversal

end Scc.X86.Loader
