/-
  Scc.X86.ConcKMCall — THE THREE-WAY SIMULATION OF `call` AND `exit` (Scc/X86/RefClosHCall.lean) WITH THE PROGRAM
  COUNTERS IN BETWEEN (`Mid`, Scc/X86/ConcKMid.lean; gap (4b) of `C09_x86_monitor_statement`):
  * `call_x3M`: `call_x3` with two more conjuncts: the machine executes an item of non-zero size (the `jmp`; for
    the progress argument, ConcKProgress.lean), and none of the states strictly between the boundary of the call
    and the boundary of the callee's body is at a `#ctx` comment (the name of the label must not start with `#`:
    the statement comment starts with it);
  * `exit_x3M`: `exit_x3` with the states up to the final `ret` (the epilogue: `cleanup`, its comments, the pops).
-/
import Scc.X86.ConcKNoCtx
import Scc.X86.ConcPeak

set_option linter.unusedVariables false
set_option linter.unusedSimpArgs false

namespace Scc.X86.Ref.K

open Scc Scc.AxCut Scc.AxCut.Pos Scc.Backend Scc.Backend.Abs Scc.Backend.Sim Scc.Backend.Sim2 Scc.Backend.Subst Scc.X86
open Scc.Backend.Keys
open Scc.Heap (HState InvS InvW)
open Scc.Heap.Refine (HRef)

/-- an item of non-zero size at the program counter is not a label or a comment -/
theorem not_noop_of_xat {cs : List Code} {pc : Nat} {code : Code} {rest : List Code}
    (h : XAt cs pc (code :: rest)) (hs : codeSize code ≠ 0) : ¬ NoopAt cs pc := by
  obtain ⟨cs1, rest', e, hl⟩ := h
  rintro ⟨c, hc, hz⟩
  have : cs[pc]? = some code := by
    rw [e, ← hl]
    simp
  rw [this] at hc
  injection hc with hc
  subst hc
  exact hs hz

section Call3M

variable {F : Frame} (HF : FrameOK F) {mon : MonCfg} (hmon : mon.mach = F.c)
  {px : X86.Prog} {cs : List Code} (L : Loaded px cs) (hndL : (labs cs).Nodup)

include hmon L in
/-- THREE-WAY SIMULATION OF `call` -/
theorem call_x3M {P : Program} {hooks : Bool} {prog : AxCut.Prog} {Γ : Ctx} {ρ : List Value} {l : Ident}
    {args : Ctx} {cfg : Config} {d : Def}
    (R : RelX P hooks prog ⟨Γ, ρ, .call l args⟩ cfg) (D : DefsAt P hooks prog) (DX : XDefsAt cs hooks prog)
    (hd : Pos.findDef prog.defs l = some d) (hchi : Pos.chiTys Γ = Pos.chiTys d.ctx)
    {hs : HState} {ι : Nat → Nat} {κ : Nat → Nat → Word} {st : State} (X : X3 F Γ cfg hs ι κ st)
    {kx kx' : Nat} {items : List Code}
    (hrunX : (codeStatementR x86Backend hooks natRen prog.types (.call l args) Γ).run kx = .ok (items, kx'))
    (hatX : XAt cs st.pc items) (hlh : HashFree l) :
    ∃ cfg' st' m, stepsTo P 1 cfg cfg' ∧ stepN mon px m st = .inl st' ∧
      cfg'.out = cfg.out ∧ cfg'.next = cfg.next ∧
      RelX P hooks prog ⟨d.ctx, ρ, d.body⟩ cfg' ∧ X3 F d.ctx cfg' hs ι κ st' ∧
      ∃ k1 k1' items', (codeStatementR x86Backend hooks natRen prog.types d.body d.ctx).run k1 = .ok (items', k1') ∧
        XAt cs st'.pc items' ∧ cfg'.heap = cfg.heap ∧ KeepPos F Γ.length cfg cfg' st st' ∧
        (∃ n1 Xm, n1 < m ∧ stepN mon px n1 st = .inl Xm ∧ ¬ NoopAt cs Xm.pc) ∧ Mid mon px cs m st := by
  obtain ⟨cfg', hst, hout, hnext, R'⟩ := sim2_call R D hd hchi
  have hstep := stepsTo_one_inv hst
  have J : JumpFacts cfg cfg' := by
    obtain ⟨c, c', ops, hrun, hat⟩ := R.code
    simp only [codeStatementR, run_pure_ok] at hrun
    obtain ⟨rfl, rfl⟩ := hrun
    simp only [mockSym_comment, mockSym_jumpLabel, List.append_assoc, CodeAt_hook] at hat
    simp only [List.cons_append, List.nil_append, CodeAt] at hat
    exact step_jumpLabel_facts hat.1 hstep
  have hmem : d ∈ prog.defs := List.mem_of_find?_eq_some hd
  have hname : d.name = l := by
    have := List.find?_some hd
    exact Ident.eq_of_beq this
  obtain ⟨i, k1, k1', ditems, hidx, hlab, hdrun, hdat⟩ := DX d hmem
  -- the x86 code
  simp only [codeStatementR, run_pure_ok] at hrunX
  obtain ⟨rfl, rfl⟩ := hrunX
  generalize hc0 : hookCode x86Backend hooks Γ ++ [x86Backend.comment (l.print ++ "(...)")] = c0 at hatX
  have hc0c : ∀ y ∈ c0, ∃ m', y = Code.COMMENT m' := by rw [← hc0]; exact hook_comments hooks Γ _
  replace hatX : XAt cs st.pc (c0 ++ [Code.JMPL (l.print ++ "_")]) := hatX
  obtain ⟨k0, hk0⟩ := x_steps_straight mon L hatX.left
    (execStraight_comments mon.mach px.labelAddr c0 st hc0c)
  have X0 : X3 F Γ cfg hs ι κ (setPS st (st.pc + c0.length) k0) := X3R.setPS X _ _
  obtain ⟨csa, csb, hcs, hpcA⟩ := hatX.right
  obtain ⟨k2, hk2⟩ := Scc.X86.Ref.step_jump mon L (cs1 := csa) (code := Code.JMPL (l.print ++ "_")) (rest := csb)
    (s := setPS st (st.pc + c0.length) k0) (by rw [hcs]; simp [List.append_assoc]) (by simp [setPS]; exact hpcA.symm)
    (show execCode mon.mach px.labelAddr (Code.JMPL (l.print ++ "_")) _ = .ok (_, .jumpLabel (l.print ++ "_")) from rfl)
    (by rw [← hname]; exact hidx)
  -- the label of the definition
  have hsplit : cs = cs.take i ++ Code.LAB (d.name.print ++ "_") :: cs.drop (i + 1) := by
    have hlt : i < cs.length := by
      rcases Nat.lt_or_ge i cs.length with h | h
      · exact h
      · rw [List.getElem?_eq_none h] at hlab; cases hlab
    have h1 : cs.drop i = cs[i] :: cs.drop (i + 1) := List.drop_eq_getElem_cons hlt
    have h2 : cs[i] = Code.LAB (d.name.print ++ "_") := by
      rw [List.getElem?_eq_getElem hlt] at hlab; exact Option.some.inj hlab
    conv => lhs; rw [← List.take_append_drop i cs, h1, h2]
  have hilt : i < cs.length := by
    rcases Nat.lt_or_ge i cs.length with h | h
    · exact h
    · rw [List.getElem?_eq_none h] at hlab; cases hlab
  obtain ⟨k3, hk3⟩ := step_fall mon L hsplit (s := setPS (setPS st (st.pc + c0.length) k0) i k2)
    (by simp [setPS, Nat.min_eq_left (Nat.le_of_lt hilt)])
    (show execCode mon.mach px.labelAddr (Code.LAB (d.name.print ++ "_")) _ = .ok (_, .next) from rfl)
  have hkeys : Γ.map (·.chi) = d.ctx.map (·.chi) := by
    have := congrArg (List.map Prod.fst) hchi
    simp only [Pos.chiTys, List.map_map] at this
    exact this
  have hmid : Mid mon px cs _ st := Mid.trans (mid_comments mon L hatX.left hc0c (by
      rw [← hc0]; exact noCtx_tail_hook hooks Γ (not_isCtx_name_first hlh (by decide)))) hk0
    (MidS.trans (midS_one (not_ctxAt_of_xat hatX.right (not_isCtx_of_noComment rfl)))
      ((stepN_one mon px _).trans hk2) (midS_one (not_ctxAt_of_getElem hlab (not_isCtx_of_noComment rfl))))
    (by rw [← hc0]; exact hookCode_length_pos _ _ _)
  refine ⟨cfg', _, _, hst, stepN_trans mon px hk0 (stepN_trans mon px ((stepN_one mon px _).trans hk2)
    ((stepN_one mon px _).trans hk3)), hout, hnext, R', ?_, _, _, ditems, hdrun, ?_, J.heap,
    ⟨fun t ht => by rw [J.temps, get_clobberTemp _ (by unfold Mock.T_TEMP; have := X.cap; omega)],
     fun i hi => by rw [tempVal_setPS, tempVal_setPS, tempVal_setPS]⟩,
    ⟨c0.length, _, by omega, hk0, not_noop_of_xat hatX.right (by simp [codeSize])⟩, hmid⟩
  · exact X3R.setPS (X3R.setPS ((X0.jump J).ctxCongr hkeys) _ _) _ _
  · have : (setPS (setPS (setPS st (st.pc + c0.length) k0) i k2) ((cs.take i).length + 1) k3).pc = i + 1 := by
      simp [setPS, Nat.min_eq_left (Nat.le_of_lt hilt)]
    rw [this]
    exact hdat

end Call3M

section Exit3M

variable {F : Frame} (HF : FrameOK F) {mon : MonCfg} (hmon : mon.mach = F.c)
  {px : X86.Prog} {cs pre : List Code} (L : Loaded px cs) (hcs : cs = pre ++ cleanup)
  (hclean : "cleanup" ∉ labs pre) {st0 : State} {h : Word} (E : EntryFacts F st0 h)

include HF hmon L hcs hclean E in
/-- THREE-WAY SIMULATION OF `exit`: the result goes to rax, the jump to `cleanup`, the epilogue and `ret`
pass the exit check and return the result -/
theorem exit_x3M {P : Program} {hooks : Bool} {prog : AxCut.Prog} {Γ : Ctx} {ρ : List Value} {a : Ident}
    {cfg : Config} {v : Word}
    (R : RelX P hooks prog ⟨Γ, ρ, .exit a⟩ cfg) (ha : readInt Γ ρ a = .ok v)
    {hs : HState} {ι : Nat → Nat} {κ : Nat → Nat → Word} {st : State} (X : X3 F Γ cfg hs ι κ st)
    {kx kx' : Nat} {items : List Code}
    (hrunX : (codeStatementR x86Backend hooks natRen prog.types (.exit a) Γ).run kx = .ok (items, kx'))
    (hatX : XAt cs st.pc items) :
    ∃ k stL, stepN mon px k st = .inl stL ∧ step mon px stL = .inr (.done v) ∧ stL.out = cfg.out ∧
      Mid mon px cs k st ∧ ¬ CtxAt cs stL.pc := by
  obtain ⟨i, hi, hl, hg⟩ := R.readInt ha
  simp only at hi hl
  rw [ctxPosition_eq_posOf] at hi
  have hchi : Γ[i].chi = .ext := by
    have := (R.vals i hl (by show _ < ρ.length; have hlen : ρ.length = Γ.length := R.len; omega)).2.2.1
    simp only at this
    obtain ⟨_, hpo, hval⟩ := readInt_ok ha
    rw [hi] at hpo
    cases hpo
    rw [List.getElem?_eq_getElem (by show _ < ρ.length; have hlen : ρ.length = Γ.length := R.len; omega)] at hval
    injection hval with hval
    rw [this, hval]; rfl
  simp only [codeStatementR, run_bind_ok, run_pure_ok] at hrunX
  obtain ⟨tX, _, htX, rfl, rfl⟩ := hrunX
  obtain ⟨pX, hpX, hltX, rfl, rfl⟩ := (x86_vt_run_ok _ _ _ _ _ _).1 htX
  rw [hi] at hpX
  injection hpX with hpX
  subst hpX
  simp only [TempNum.toNat] at hltX
  generalize hc0 : hookCode x86Backend hooks Γ ++ [x86Backend.comment ("exit " ++ a.print)] = c0 at hatX
  have hc0c : ∀ y ∈ c0, ∃ m', y = Code.COMMENT m' := by rw [← hc0]; exact hook_comments hooks Γ _
  replace hatX : XAt cs st.pc (c0 ++ (mov (.reg RETURN1) (posTemp (2 * i + 1)) ++ [Code.JMPL "cleanup"])) := by
    have : x86Backend.mov x86Backend.return1 (posTemp (2 * i + TempNum.snd.toNat)) ++
        x86Backend.jumpLabel "cleanup" = mov (.reg RETURN1) (posTemp (2 * i + 1)) ++ [Code.JMPL "cleanup"] := rfl
    rw [← this]
    simpa [List.append_assoc] using hatX
  obtain ⟨k0, hk0⟩ := x_steps_straight mon L hatX.left
    (execStraight_comments mon.mach px.labelAddr c0 st hc0c)
  have X0 : X3 F Γ cfg hs ι κ (setPS st (st.pc + c0.length) k0) := X3R.setPS X _ _
  have hw := X0.words i hl v hg
  rw [hchi] at hw
  have hr : TempOK (.reg RETURN1) := ⟨by decide, by decide⟩
  obtain ⟨st1, e1, B1, hv1, P1⟩ := mov_correct (la := px.labelAddr) X0.bnd hr (tempOK_posTemp hltX)
  rw [← hmon] at e1
  obtain ⟨k1, hk1⟩ := x_steps_straight mon L (s := setPS st (st.pc + c0.length) k0) hatX.right.left e1
  have hrax : tempVal F.sp st1 (.reg RETURN1) = some v := by rw [hv1]; exact hw
  -- the jump
  have hidx : labIdx cs "cleanup" = some pre.length := by
    have : cs = pre ++ Code.LAB "cleanup" :: (epilogue.tail ++ [Code.RET]) := by
      rw [hcs, cleanup_eq]; rfl
    rw [this]
    exact labIdx_append_of_not_mem _ _ _ hclean
  obtain ⟨csa, csb, hcsJ, hpcJ⟩ := hatX.right.right
  obtain ⟨k2, hk2⟩ := Scc.X86.Ref.step_jump mon L (cs1 := csa) (code := Code.JMPL "cleanup") (rest := csb)
    (s := setPS st1 ((setPS st (st.pc + c0.length) k0).pc + (mov (.reg RETURN1) (posTemp (2 * i + 1))).length) k1)
    (by rw [hcsJ]; simp [List.append_assoc]) (by simp [setPS] at hpcJ ⊢; omega)
    (show execCode mon.mach px.labelAddr (Code.JMPL "cleanup") _ = .ok (_, .jumpLabel "cleanup") from rfl) hidx
  -- the epilogue
  have hsp1 : F.st1.regs[0]? = some (some F.sp) := E.pro.rsp
  obtain ⟨st3, e3, S3, hsize3, hrsp3, hcal3, hreg3, hmem3⟩ :=
    prologue_epilogue_machine (la := px.labelAddr) E.entry E.pro (st2 := setPS (setPS st1 _ k1) pre.length k2)
      B1.size (by show st1.regs[0]? = _; rw [B1.rsp, hsp1])
      (fun n hn => by
        show st1.stackMem[n]? = _
        rw [P1.frame HF n hn]
        exact X0.frame n hn)
  have hcE : cs = pre ++ epilogue ++ [Code.RET] := by rw [hcs, cleanup_eq]; simp
  rw [← hmon] at e3
  obtain ⟨k3, hk3⟩ := steps_block mon L hcE (by simp [setPS]) e3
  -- `ret`
  have hcR : cs = (pre ++ epilogue) ++ Code.RET :: [] := by rw [hcE]
  obtain ⟨code', hf', hs'⟩ := L.fetch hcR
  have hcode' := stripC_ret hs'
  subst hcode'
  have hret : retCheck mon.mach (setPS st3 (pre.length + epilogue.length) k3) = .ok v := by
    rw [hmon]
    have hm := E.mtop
    apply retCheck_ok HF.cfg E.top8 E.room
    · show st3.regs[0]? = _
      rw [hrsp3, hm]
    · show st3.stackMem[F.c.stackTop - 8]? = _
      rw [hmem3 _ (by rw [hm]; exact Nat.le_refl _)]
      exact E.retw
    · intro r hr'
      show st3.regs[r]? = _
      rw [hcal3 r (by simpa [calleeSaved] using hr')]
      exact E.callee r hr'
    · show st3.regs[4]? = _
      rw [hreg3 4 (by decide) (by decide) (by decide)]
      show st1.regs[4]? = _
      have := hrax
      simp only [tempVal, RETURN1_eq] at this
      cases h4 : st1.regs[4]? with
      | none => rw [h4] at this; simp at this
      | some x => rw [h4] at this; simp at this; rw [this]
  have hmid : Mid mon px cs _ st := Mid.trans (mid_comments mon L hatX.left hc0c (by
      rw [← hc0]; exact noCtx_tail_hook hooks Γ (by
        exact not_isCtx_lit_head _ _ (c := 'e') (by decide) (by decide)))) hk0
    (MidS.trans (midS_straight mon L hatX.right.left e1 (noCtx_mov _ _)) hk1
      (MidS.trans (midS_one (not_ctxAt_of_xat hatX.right.right (not_isCtx_of_noComment rfl)))
        ((stepN_one mon px _).trans hk2)
        (midS_straight mon L (blk := epilogue) ⟨pre, [Code.RET], hcE, by simp [setPS]⟩ e3
          (by unfold epilogue; nc))))
    (by rw [← hc0]; exact hookCode_length_pos _ _ _)
  refine ⟨_, _, stepN_trans mon px hk0 (stepN_trans mon px hk1 (stepN_trans mon px ((stepN_one mon px _).trans hk2)
    hk3)), step_ret (by simpa [setPS, Nat.add_assoc] using hf') hret, ?_, hmid,
    not_ctxAt_of_split hcR (by simp [setPS]) (not_isCtx_of_noComment rfl)⟩
  show st3.out = cfg.out
  rw [S3.out]
  show st1.out = cfg.out
  rw [P1.same.out]
  exact X0.out

end Exit3M

end Scc.X86.Ref.K
