/-
  Scc.X86.ConcKMon — THE HEAP MONITOR NEVER REPORTS, on the run of the machine from `asm_main`, ALL PROGRAMS (data
  types and closures), every amount of machine fuel, terminating or not: the composition of `run3_monD` /
  `run3_monP` (ConcKMRun.lean) with the entry (`entry_setupM`: the states of the header are not at `#ctx`
  comments) and the run loop (`runLoop_no_invFail`).
  * `ExactBoundary`: the machine state is in relation `K.Rel3` (hooks on) to the positional state — the states at
    which the monitor finds a `#ctx` hook;
  * `HooksParse`, `WindowOK B`: the two hypotheses about the run (see `MonFrom`, ConcKMRun.lean), on the machine's
    run from its initial state; `windowOK_small`: the window hypothesis holds for `B ≤ 7`;
    `hooksParse_of_hparse`: the hooks parse if the round trip holds for every context whose hook is in the routine;
    `hooksOneVar` / `hparse_of_oneVar`: a decidable sufficient condition on the routine — no hook lists more than
    one variable (then a blank inside a name would show up in the comment).
  * `programs_monitor`: `(runItems items args fuel' cfg).res ≠ .invFail what ln`.
-/
import Scc.X86.ConcKMRun
import Scc.X86.ConcKAllFuel

set_option linter.unusedVariables false
set_option linter.unusedSimpArgs false

namespace Scc.X86.ConcK

open Scc Scc.AxCut Scc.AxCut.Pos Scc.Backend Scc.Backend.Abs Scc.Backend.Sim Scc.Backend.Subst Scc.X86 Scc.X86.Ref
open Scc.Backend.Sim2 Scc.Backend.Keys Scc.Str
open Scc.Props.C14Generic (LabelSafe)
open Scc.Props.C06Generic (outAfter WithinCapacity Reachable EnoughHeap CodeFits statesOf stopsWithin)
open Scc.Heap (HState InvS InvW Exhausted)
open Scc.Heap.Refine (HRef FrLe Room FrPk)
open Scc.X86.Conc (BChain FrBound LiveLe LiveLe0 HeapShapeAt ctxKinds stmtSize clausesSize stmtSize_pos
  run_eq_runState post_first_hook ctxKinds_keys parseCtx_hook valsFields)

/-! ## the hypotheses about the run -/

/-- the machine state `X` is AT the statement boundary of the positional state `st` (hooks on): in relation
`K.Rel3`, not moved over labels and comments — its program counter is at the `#ctx` hook of the statement -/
def ExactBoundary (p : AxCut.Prog) (routine : List Code) (ops : List MockOp) (cfg : MonCfg) (st : Pos.State)
    (X : State) : Prop :=
  ∃ (F : Frame) (cfgA : Config) (hs : HState), F.c = cfg.mach ∧
    K.Rel3 F routine (Program.ofOps ops) true p st cfgA hs X

/-- THE HOOKS PARSE: at every statement boundary of the machine's run (from `asm_main`) the monitor's parser reads
the kinds of the positional state's context from the comment at the program counter -/
def HooksParse (p : AxCut.Prog) (routine : List Code) (ops : List MockOp) (cfg : MonCfg)
    (items : List (Code × Nat)) (args : List Word) (st0 : Pos.State) : Prop :=
  ∀ n X st, Reachable p st0 st → stepN cfg (mkProg cfg.mach items) n (initState cfg.mach args 6) = .inl X →
    ExactBoundary p routine ops cfg st X →
    ∀ msg, routine[X.pc]? = some (Code.COMMENT msg) → parseCtx msg = some (ctxKinds st.ctx)

/-- THE WINDOW HYPOTHESIS (gap (3)): at every statement boundary of the machine's run with at most `B` blocks
below the frontier, the frontier block lies at most 512 bytes above the highest heap address written -/
def WindowOK (p : AxCut.Prog) (routine : List Code) (ops : List MockOp) (cfg : MonCfg)
    (items : List (Code × Nat)) (args : List Word) (B : Nat) : Prop :=
  ∀ n X st, stepN cfg (mkProg cfg.mach items) n (initState cfg.mach args 6) = .inl X →
    ExactBoundary p routine ops cfg st X → ∀ below inUse, HeapShapeAt cfg X below inUse → below ≤ B →
    64 * below + 64 ≤ X.maxHeapWritten + 512

/-- while at most 7 blocks lie below the frontier, the frontier block is inside the window whatever was written -/
theorem windowOK_small (p : AxCut.Prog) (routine : List Code) (ops : List MockOp) (cfg : MonCfg)
    (items : List (Code × Nat)) (args : List Word) {B : Nat} (hB : B ≤ 7) :
    WindowOK p routine ops cfg items args B := by
  intro n X st _ _ below inUse _ hb
  omega

/-- the hooks parse if the printer/parser round trip holds for every context whose hook is in the routine -/
theorem hooksParse_of_hparse {p : AxCut.Prog} {routine : List Code} {ops : List MockOp} {cfg : MonCfg}
    {items : List (Code × Nat)} {args : List Word} {st0 : Pos.State}
    (hparse : ∀ Γ, Code.COMMENT (ctxHookComment Γ) ∈ routine → parseCtx (ctxHookComment Γ) = some (ctxKinds Γ)) :
    HooksParse p routine ops cfg items args st0 := by
  intro n X st _ _ ⟨F, cfgA, hs, hFc, R⟩ msg hmsg
  obtain ⟨Γ', ι, κ, hkeys, RX, X3h, _, k, k', its, hrun, hat⟩ := R
  obtain ⟨rest, hfirst⟩ := post_first_hook natRen p.types st.stmt Γ' k its k' hrun
  obtain ⟨cs1, cs2, hcs, hlen⟩ := hat
  have hget : routine[X.pc]? = some (Code.COMMENT (ctxHookComment Γ')) := by
    rw [hcs, hfirst, ← hlen]
    simp
  rw [hget] at hmsg
  simp only [Option.some.injEq, Code.COMMENT.injEq] at hmsg
  subst hmsg
  rw [hparse Γ' (List.mem_of_getElem? hget), ctxKinds_keys hkeys]

/-! ## a decidable sufficient condition: hooks with at most one variable -/

/-- no `#ctx [` comment of the list has a blank behind the bracket: every hook lists at most one variable -/
def hooksOneVar (cs : List Code) : Bool :=
  cs.all fun c =>
    match c with
    | .COMMENT msg => !(msg.toList.take 6 == "#ctx [".toList) || !((msg.toList.drop 6).contains ' ')
    | _ => true

theorem mem_intercalate_of_mem {sep : List Char} : ∀ (ls : List (List Char)) (l : List Char), l ∈ ls →
    ∀ c ∈ l, c ∈ sep.intercalate ls
  | [], _, h, _, _ => by cases h
  | [a], l, h, c, hc => by
    rw [intercalate_singleton']
    simp only [List.mem_singleton] at h
    subst h; exact hc
  | a :: b :: t, l, h, c, hc => by
    rw [intercalate_cons_cons']
    rcases List.mem_cons.1 h with e | h'
    · subst e
      exact List.mem_append.2 (Or.inl (List.mem_append.2 (Or.inl hc)))
    · exact List.mem_append.2 (Or.inr (mem_intercalate_of_mem (b :: t) l h' c hc))

/-- the round trip for every hook of a routine whose hooks list at most one variable -/
theorem hparse_of_oneVar {routine : List Code} (h1 : hooksOneVar routine = true) :
    ∀ Γ, Code.COMMENT (ctxHookComment Γ) ∈ routine → parseCtx (ctxHookComment Γ) = some (ctxKinds Γ) := by
  intro Γ hmem
  apply parseCtx_hook
  intro b hb hblank
  let W : List String := Γ.map fun b => b.var.print ++ ":" ++ chiStr b.chi
  have hmsg : (ctxHookComment Γ).toList = "#ctx [".toList ++ ((" ".intercalate W).toList ++ [']']) := by
    show ("#ctx [" ++ " ".intercalate W ++ "]").toList = _
    rw [String.toList_append, String.toList_append, List.append_assoc]
    rfl
  unfold hooksOneVar at h1
  rw [List.all_eq_true] at h1
  have := h1 _ hmem
  simp only at this
  have htake : (ctxHookComment Γ).toList.take 6 = "#ctx [".toList := by
    rw [hmsg]; rfl
  have hdrop : (ctxHookComment Γ).toList.drop 6 = (" ".intercalate W).toList ++ [']'] := by
    rw [hmsg]; rfl
  rw [htake, hdrop] at this
  simp only [beq_self_eq_true, Bool.not_true, Bool.false_or, Bool.not_eq_true', List.contains_eq_mem,
    decide_eq_false_iff_not] at this
  apply this
  apply List.mem_append.2
  left
  rw [intercalate_space]
  apply mem_intercalate_of_mem (W.map String.toList) (b.var.print ++ ":" ++ chiStr b.chi).toList
    (List.mem_map.2 ⟨_, List.mem_map.2 ⟨b, hb, rfl⟩, rfl⟩)
  rw [String.toList_append, String.toList_append]
  exact List.mem_append.2 (Or.inl (List.mem_append.2 (Or.inl hblank)))

/-! ## the run loop -/

theorem PassUpto.mono {mon : MonCfg} {px : X86.Prog} {a b : Nat} {X : State} (h : PassUpto mon px b X)
    (hab : a ≤ b) : PassUpto mon px a X :=
  fun t sk ht hsk => h t sk (by omega) hsk

/-- after the last transition there are no states -/
theorem stepN_stop {m : MonCfg} {p : Prog} {k : Nat} {X XL : State} {r : Res} (hk : stepN m p k X = .inl XL)
    (hr : step m p XL = .inr r) : ∀ t sk, k < t → stepN m p t X ≠ .inl sk := by
  intro t sk ht hsk
  rw [stepN_split hk t (by omega)] at hsk
  have e : t - k = (t - k - 1) + 1 := by omega
  rw [e] at hsk
  simp only [stepN, hr] at hsk
  cases hsk

/-- the monitor passes at every state of a run that ends after `k` transitions, whatever the fuel -/
theorem passUpto_of_stop {m : MonCfg} {p : Prog} {k : Nat} {X XL : State} {r : Res}
    (hk : stepN m p k X = .inl XL) (hr : step m p XL = .inr r) (h : PassUpto m p (k + 1) X) (f : Nat) :
    PassUpto m p f X := by
  intro t sk _ hsk
  by_cases hlt : t < k + 1
  · exact h t sk hlt hsk
  · exact absurd hsk (stepN_stop hk hr t sk (by omega))

/-! ## the run from `asm_main` -/

/-- THE HEAP MONITOR NEVER REPORTS (hooks on; monitor on or off), ALL PROGRAMS, EVERY AMOUNT OF MACHINE FUEL: on the
items of the routine with their comment texts, under the footprint hypothesis of C10 (`PeakHyp`), the two hypotheses
about the run (`HooksParse`, `WindowOK (Pk + 1)`) and `K.AllHF` (the target of an `op` and the label of a `call` do
not start with `#`: their names start comments of the generated code), the run of the machine never ends in a
report `inv:` of the heap monitor — provided the positional machine never gets stuck. -/
theorem programs_monitor (p : AxCut.Prog) (args : List Word) (body routine : List Code)
    (nargs : Nat) (d0 : Def) (ops : List MockOp) (c' : Nat)
    (hsafe : LabelSafe p = true) (htp : LinTypedProg p) (hprog : K.ProgOK p)
    (hcompM : (compile mockSym true p).run 0 = .ok ((ops, nargs), c')) (hfit : CodeFits ops)
    (hcompX : compileX86 p true 0 = .ok (body, nargs)) (hrout : intoRoutine body nargs = .ok routine)
    (hnd : (labs routine).Nodup)
    (hd : p.defs.head? = some d0) (hentry : ∀ b ∈ d0.ctx, b.chi = .ext ∧ b.ty = .i64)
    (hlen : d0.ctx.length = args.length)
    (hcap : ∀ st, Reachable p ⟨d0.ctx, args.map .int, d0.body⟩ st → 2 * st.ctx.length ≤ 266)
    (hnostuck : ∀ fuel w, (Pos.run p args fuel).res ≠ .stuck w)
    (hHF : ∀ d ∈ p.defs, K.AllHF d.body)
    (cfg : MonCfg) (MO : MachOK cfg.mach) (hk : cfg.consts = consts)
    (hb8 : cfg.mach.heapBase % 8 = 0) (hb0 : 0 < cfg.mach.heapBase)
    (Pk A M : Nat) (hA : ∀ d ∈ p.defs, K.AllocLe A d.body) (hM : ∀ d ∈ p.defs, stmtSize d.body ≤ M)
    (hbytes : 64 * (Pk + A + 2) ≤ cfg.mach.heapBytes)
    (items : List (Code × Nat)) (hitems : items.map (·.1) = routine)
    (hfitX : addrAt cfg.mach.codeBase routine routine.length < 2 ^ 64)
    (fuel' : Nat) (hf : fuel' * (M + 1) + stmtSize d0.body + 1 < 2 ^ 64)
    (hPH : PeakHyp p true routine ops cfg items args d0 Pk (A * (fuel' * (M + 1) + stmtSize d0.body) + 1))
    (hHook : HooksParse p routine ops cfg items args ⟨d0.ctx, args.map .int, d0.body⟩)
    (hWin : WindowOK p routine ops cfg items args (Pk + 1)) :
    ∀ what ln, (runItems items args fuel' cfg).res ≠ .invFail what ln := by
  have hmem : d0 ∈ p.defs := by
    cases hdefs : p.defs with
    | nil => rw [hdefs] at hd; simp at hd
    | cons d ds => rw [hdefs] at hd; simp at hd; subst hd; simp
  have hc0 := hcap _ Reachable.refl
  simp only at hc0
  obtain ⟨F, pre, st0, h, n0, X0, a, En⟩ := entry_setupM p args true body routine nargs d0 ops c' hsafe htp
    hcompM hcompX hrout hnd hd hentry hlen hc0 cfg MO hb0 (by omega) items (by rw [hitems])
  have hFc := En.fc
  have hfb0 : FrBound (Scc.Heap.init F.c.heapBase (F.c.heapBase + F.c.heapBytes)) (Pk + 1) :=
    frBound_init (by rw [hFc]; exact hb0) (by rw [hFc]; omega) (by omega)
  have hcb0 : FrBound (Scc.Heap.init F.c.heapBase (F.c.heapBase + F.c.heapBytes)) 1 :=
    frBound_init (by rw [hFc]; exact hb0) (by rw [hFc]; omega) (Nat.le_refl _)
  -- the two hypotheses about the run, from the first boundary on
  have hMF : MonFrom F cfg (mkProg cfg.mach items) routine (Program.ofOps ops) true p
      ⟨d0.ctx, args.map .int, d0.body⟩ X0 (Pk + 1) := by
    intro n X' st' cfg' hs' hr hn R
    have hB : ExactBoundary p routine ops cfg st' X' := ⟨F, cfg', hs', hFc, R⟩
    exact ⟨hHook (n0 + n) X' st' hr (stepN_trans cfg _ En.steps hn) hB,
      hWin (n0 + n) X' st' (stepN_trans cfg _ En.steps hn) hB⟩
  have hhdr : PassUpto cfg (mkProg cfg.mach items) n0 (initState cfg.mach args 6) := passUpto_of_midS hitems En.mid
  -- the monitor passes at the first `fuel'` states of the run
  have hpass : PassUpto cfg (mkProg cfg.mach items) fuel' (initState cfg.mach args 6) := by
    have hrs := run_eq_runState hd hlen (fuel' * (M + 1) + stmtSize d0.body)
    cases hres : Pos.run p args (fuel' * (M + 1) + stmtSize d0.body) with
    | mk out res =>
    cases res with
    | stuck w => exact absurd (by rw [hres]) (hnostuck (fuel' * (M + 1) + stmtSize d0.body) w)
    | done v =>
      rw [hrs] at hres
      obtain ⟨n, XL, g1, g2, g3, hp⟩ := run3_monD En.frame (by rw [hFc]; exact hb8) hFc.symm hk hitems En.loaded hnd
        (by rw [hFc]; exact hfitX) En.split En.clean En.entry p 0 ops nargs c' hcompM hsafe htp hfit En.defs
        hprog Pk (A * (fuel' * (M + 1) + stmtSize d0.body) + 1) A hA hHF (by rw [hFc]; exact hbytes)
        (fuel' * (M + 1) + stmtSize d0.body) _ [] (initConfig a args) _ X0 X0 out v 1 En.typed
        hcap (Tol.refl _ _) (Or.inl rfl) En.rel (hprog.2 d0 hmem) (hA d0 hmem) (K.valAll_ints _ args) (hHF d0 hmem)
        (K.valAll_ints _ args) rfl (by rw [En.next1]; omega) hfb0 hcb0 (by omega)
        (hPH F n0 X0 hFc En.steps) hMF hres
      have hall : PassUpto cfg (mkProg cfg.mach items) (n0 + n + 1) (initState cfg.mach args 6) := by
        rw [Nat.add_assoc]; exact hhdr.trans En.steps hp
      exact passUpto_of_stop (stepN_trans cfg _ En.steps g1) g2 hall fuel'
    | outOfFuel =>
      rw [hrs] at hres
      obtain ⟨n, X, hn, hX, hp⟩ := run3_monP En.frame (by rw [hFc]; exact hb8) hFc.symm hk hitems En.loaded hnd
        (by rw [hFc]; exact hfitX) En.split En.clean En.entry p 0 ops nargs c' hcompM hsafe htp hfit En.defs
        hprog Pk (A * (fuel' * (M + 1) + stmtSize d0.body) + 1) A M hA hM hHF (by rw [hFc]; exact hbytes)
        (fuel' * (M + 1) + stmtSize d0.body) fuel' _ [] (initConfig a args) _ X0 X0 out 1 En.typed
        hcap (Tol.refl _ _) (Or.inl rfl) En.rel (hprog.2 d0 hmem) (hA d0 hmem) (K.valAll_ints _ args) (hM d0 hmem)
        (K.valAll_ints _ args) (hHF d0 hmem) (K.valAll_ints _ args) (by rw [En.next1]; omega) hfb0 hcb0 (by omega)
        (hPH F n0 X0 hFc En.steps) hMF hres (Nat.le_refl _)
      exact (hhdr.trans En.steps hp).mono (by omega)
  intro what ln
  have hargs' : ¬ args.length > 5 := by have := En.nargs; omega
  unfold runItems
  simp only [En.main]
  rw [if_neg hargs']
  exact runLoop_no_invFail cfg _ fuel' _ 0 hpass what ln

/-- … with the room hypothesis on the SOURCE PROGRAM (`valsFields st.env ≤ D` for every reachable state: the
object and closure values held by the variables have at most `D` fields) -/
theorem programs_monitor_size (p : AxCut.Prog) (args : List Word) (body routine : List Code)
    (nargs : Nat) (d0 : Def) (ops : List MockOp) (c' : Nat)
    (hsafe : LabelSafe p = true) (htp : LinTypedProg p) (hprog : K.ProgOK p)
    (hcompM : (compile mockSym true p).run 0 = .ok ((ops, nargs), c')) (hfit : CodeFits ops)
    (hcompX : compileX86 p true 0 = .ok (body, nargs)) (hrout : intoRoutine body nargs = .ok routine)
    (hnd : (labs routine).Nodup)
    (hd : p.defs.head? = some d0) (hentry : ∀ b ∈ d0.ctx, b.chi = .ext ∧ b.ty = .i64)
    (hlen : d0.ctx.length = args.length)
    (hcap : ∀ st, Reachable p ⟨d0.ctx, args.map .int, d0.body⟩ st → 2 * st.ctx.length ≤ 266)
    (hnostuck : ∀ fuel w, (Pos.run p args fuel).res ≠ .stuck w)
    (hHF : ∀ d ∈ p.defs, K.AllHF d.body)
    (D : Nat) (hD : ∀ st, Reachable p ⟨d0.ctx, args.map .int, d0.body⟩ st → valsFields st.env ≤ D)
    (cfg : MonCfg) (MO : MachOK cfg.mach) (hk : cfg.consts = consts)
    (hb8 : cfg.mach.heapBase % 8 = 0) (hb0 : 0 < cfg.mach.heapBase)
    (A M : Nat) (hA : ∀ d ∈ p.defs, K.AllocLe A d.body) (hM : ∀ d ∈ p.defs, stmtSize d.body ≤ M)
    (hbytes : 64 * (D + A + 2) ≤ cfg.mach.heapBytes)
    (items : List (Code × Nat)) (hitems : items.map (·.1) = routine)
    (hfitX : addrAt cfg.mach.codeBase routine routine.length < 2 ^ 64)
    (fuel' : Nat) (hf : fuel' * (M + 1) + stmtSize d0.body + 1 < 2 ^ 64)
    (hHook : HooksParse p routine ops cfg items args ⟨d0.ctx, args.map .int, d0.body⟩)
    (hWin : WindowOK p routine ops cfg items args (D + 1)) :
    ∀ what ln, (runItems items args fuel' cfg).res ≠ .invFail what ln :=
  programs_monitor p args body routine nargs d0 ops c' hsafe htp hprog hcompM hfit hcompX hrout hnd hd hentry hlen
    hcap hnostuck hHF cfg MO hk hb8 hb0 D A M hA hM hbytes items hitems hfitX fuel' hf (peakHyp_of_data hD) hHook hWin

end Scc.X86.ConcK
