/-
  Scc.X86.MemProofsView — the MEMORY-LEVEL VIEW of the SPEC machine (Machine.lean) on which the
  contracts of memory.rs (`acquire_block`, `store`, `load`) are proved.

  A view state `MState` is: the contents of every temporary (registers rcx..r15 and the spill slots
  of the current frame, as in the temporary-level view of ProofsFrame.lean), the flags, and the heap
  as a total function from byte addresses to words.  `mexec` gives the semantics of the instruction
  forms that memory.rs emits — register moves, rsp-relative spill accesses, and HEAP accesses
  `[r + disp]` through a register `r ≠ rsp` holding a heap address (`maddr`: aligned, inside the heap
  region) — and `mFwd` runs a block with forward local labels exactly like `execFwd`.

  `msim_fwd`: whatever the view executes, the machine executes with the same effect (`MRep`), leaving
  trace, pc, step counter and all stack memory outside the spill area unchanged (`Inert`).
  So a contract proved on the view — plain functional states, no `Array`/`HashMap`, no address
  arithmetic for spill slots — is a contract of the machine.
-/
import Scc.X86.ProofsMem

set_option linter.unusedSimpArgs false
set_option linter.unusedVariables false

namespace Scc.X86

open Scc.AxCut

/-! ## view states -/

structure MState where
  val : Temporary → Option Word
  flags : Option (Word × Word)
  heap : Nat → Word

def MState.setT (μ : MState) (t : Temporary) (v : Option Word) : MState :=
  { μ with val := fun u => if u = t then v else μ.val u }

def MState.setH (μ : MState) (a : Nat) (w : Word) : MState :=
  { μ with heap := fun b => if b = a then w else μ.heap b }

def MState.setF (μ : MState) (f : Option (Word × Word)) : MState := { μ with flags := f }

def MState.ts (μ : MState) : TState := { val := μ.val, flags := μ.flags }

def MState.withT (μ : MState) (τ : TState) : MState := { μ with val := τ.val, flags := τ.flags }

@[simp] theorem MState.setT_val (μ : MState) (t u : Temporary) (v : Option Word) :
    (μ.setT t v).val u = if u = t then v else μ.val u := rfl
@[simp] theorem MState.setT_flags (μ : MState) (t : Temporary) (v : Option Word) :
    (μ.setT t v).flags = μ.flags := rfl
@[simp] theorem MState.setT_heap (μ : MState) (t : Temporary) (v : Option Word) :
    (μ.setT t v).heap = μ.heap := rfl
@[simp] theorem MState.setH_val (μ : MState) (a : Nat) (w : Word) : (μ.setH a w).val = μ.val := rfl
@[simp] theorem MState.setH_flags (μ : MState) (a : Nat) (w : Word) : (μ.setH a w).flags = μ.flags := rfl
@[simp] theorem MState.setH_heap (μ : MState) (a b : Nat) (w : Word) :
    (μ.setH a w).heap b = if b = a then w else μ.heap b := rfl
@[simp] theorem MState.setF_val (μ : MState) (f : Option (Word × Word)) : (μ.setF f).val = μ.val := rfl
@[simp] theorem MState.setF_flags (μ : MState) (f : Option (Word × Word)) : (μ.setF f).flags = f := rfl
@[simp] theorem MState.setF_heap (μ : MState) (f : Option (Word × Word)) : (μ.setF f).heap = μ.heap := rfl
@[simp] theorem MState.setH_setF (μ : MState) (f : Option (Word × Word)) (a : Nat) (w : Word) :
    (μ.setF f).setH a w = (μ.setH a w).setF f := rfl
@[simp] theorem MState.setT_setF (μ : MState) (f : Option (Word × Word)) (t : Temporary) (v : Option Word) :
    (μ.setF f).setT t v = (μ.setT t v).setF f := rfl
@[simp] theorem MState.setF_setF (μ : MState) (f g : Option (Word × Word)) : (μ.setF f).setF g = μ.setF g := rfl

/-- the word `x + i` as a heap address: the displacement a 32-bit field, the sum 8-aligned and inside
the heap region -/
def haddr (c : MachCfg) (x : Word) (i : Int) : Option Nat :=
  if fitsI32 i = true ∧ (x + BitVec.ofInt 64 i).toNat % 8 = 0 ∧
      inHeap c (x + BitVec.ofInt 64 i).toNat = true then
    some (x + BitVec.ofInt 64 i).toNat
  else none

/-- heap address `[b + i]`: `b` a register other than rsp holding a defined word -/
def maddr (c : MachCfg) (μ : MState) (b : Nat) (i : Int) : Option Nat :=
  if 1 ≤ b ∧ b < 16 then
    match μ.val (.reg b) with
    | some x => haddr c x i
    | none => none
  else none

/-- semantics of the fall-through instruction forms of memory.rs on the view -/
def mexec (c : MachCfg) (code : Code) (μ : MState) : Option MState :=
  match code with
  | .MOV r r1 =>
    match regOpnd r, regOpnd r1 with
    | some d, some s => some (μ.setT d (μ.val s))
    | _, _ => none
  | .MOVL r b i =>
    if b = 0 then
      match regOpnd r, memOpnd 0 i with
      | some d, some s => some (μ.setT d (μ.val s))
      | _, _ => none
    else
      match regOpnd r, maddr c μ b i with
      | some d, some a => some (μ.setT d (some (μ.heap a)))
      | _, _ => none
  | .MOVS r b i =>
    if b = 0 then
      match memOpnd 0 i, regOpnd r with
      | some d, some s => some (μ.setT d (μ.val s))
      | _, _ => none
    else
      match regOpnd r, maddr c μ b i with
      | some s, some a =>
        match μ.val s with
        | some v => some (μ.setH a v)
        | none => none
      | _, _ => none
  | .MOVI r i =>
    match regOpnd r with
    | some d => if fitsI64 i then some (μ.setT d (some (BitVec.ofInt 64 i))) else none
    | none => none
  | .MOVIM b i1 i2 =>
    if b = 0 then
      match memOpnd 0 i1 with
      | some d => if fitsI32 i2 then some (μ.setT d (some (BitVec.ofInt 64 i2))) else none
      | none => none
    else
      match maddr c μ b i1 with
      | some a => if fitsI32 i2 then some (μ.setH a (BitVec.ofInt 64 i2)) else none
      | none => none
  | .ADDI r i =>
    match regOpnd r with
    | some d =>
      match μ.val d with
      | some x => if fitsI32 i then some ((μ.setT d (some (x + BitVec.ofInt 64 i))).setF none) else none
      | none => none
    | none => none
  | .ADDIM b i1 i2 =>
    if b = 0 then none
    else
      match maddr c μ b i1 with
      | some a =>
        if fitsI32 i2 then some ((μ.setH a (μ.heap a + BitVec.ofInt 64 i2)).setF none) else none
      | none => none
  | .CMPI r i =>
    match regOpnd r with
    | some d =>
      match μ.val d with
      | some x => if fitsI32 i then some (μ.setF (some (x, BitVec.ofInt 64 i))) else none
      | none => none
    | none => none
  | .CMPIM b i1 i2 =>
    if b = 0 then
      match memOpnd 0 i1 with
      | some d =>
        match μ.val d with
        | some x => if fitsI32 i2 then some (μ.setF (some (x, BitVec.ofInt 64 i2))) else none
        | none => none
      | none => none
    else
      match maddr c μ b i1 with
      | some a => if fitsI32 i2 then some (μ.setF (some (μ.heap a, BitVec.ofInt 64 i2))) else none
      | none => none
  | .LAB _ | .COMMENT _ => some μ
  | _ => none

/-- … with the two jumps of memory.rs -/
def mexecC (c : MachCfg) (code : Code) (μ : MState) : Option (MState × Ctl) :=
  match code with
  | .JEL l =>
    match μ.flags with
    | some (a, b) => some (μ, if a = b then .jumpLabel l else .next)
    | none => none
  | .JMPL l => some (μ, .jumpLabel l)
  | code => (mexec c code μ).map (fun μ' => (μ', Ctl.next))

/-- blocks with forward local labels on the view (same recursion as `execFwd`) -/
def mFwd (c : MachCfg) (code : List Code) (μ : MState) : Option (MState × Ctl) :=
  match code with
  | [] => some (μ, .next)
  | cd :: cs =>
    match mexecC c cd μ with
    | none => none
    | some (μ1, .next) => mFwd c cs μ1
    | some (μ1, .jumpLabel l) =>
      match _h : skipTo l cs with
      | some rest => mFwd c rest μ1
      | none => some (μ1, .jumpLabel l)
    | some (μ1, ctl) => some (μ1, ctl)
termination_by code.length
decreasing_by
  · simp
  · have := skipTo_length _h; simp; omega

/-- how the continuation of a block is entered -/
def mcont (c : MachCfg) (b : List Code) : Option (MState × Ctl) → Option (MState × Ctl)
  | none => none
  | some (μ', .next) => mFwd c b μ'
  | some (μ', .jumpLabel l) =>
    match skipTo l b with
    | some rest => mFwd c rest μ'
    | none => some (μ', .jumpLabel l)
  | some (μ', ctl) => some (μ', ctl)

section MFwd
variable (c : MachCfg)

theorem mFwd_nil (μ : MState) : mFwd c [] μ = some (μ, .next) := by rw [mFwd]

theorem mFwd_cons (cd : Code) (cs : List Code) (μ : MState) :
    mFwd c (cd :: cs) μ = mcont c cs (mexecC c cd μ) := by
  rw [mFwd]
  cases h : mexecC c cd μ with
  | none => simp [mcont]
  | some r =>
    obtain ⟨μ1, n⟩ := r
    cases n with
    | next => simp [mcont]
    | jumpLabel l =>
      simp only [mcont]
      split <;> rename_i h2 <;> simp [h2]
    | jumpAddr a => simp [mcont]
    | callExt f => simp [mcont]
    | ret => simp [mcont]

/-- sequential composition of blocks -/
theorem mFwd_append (b : List Code) : ∀ (n : Nat) (a : List Code) (μ : MState), a.length ≤ n →
    mFwd c (a ++ b) μ = mcont c b (mFwd c a μ) := by
  intro n
  induction n with
  | zero =>
    intro a μ h
    have : a = [] := List.eq_nil_of_length_eq_zero (Nat.le_zero.mp h)
    subst this
    simp [mFwd_nil, mcont]
  | succ n ih =>
    intro a μ h
    cases a with
    | nil => simp [mFwd_nil, mcont]
    | cons cd cs =>
      have hcs : cs.length ≤ n := by simpa using h
      rw [List.cons_append, mFwd_cons, mFwd_cons]
      cases hex : mexecC c cd μ with
      | none => simp [mcont]
      | some r =>
        obtain ⟨μ1, nx⟩ := r
        cases nx with
        | next => simp only [mcont]; exact ih cs μ1 hcs
        | jumpAddr x => simp [mcont]
        | callExt f => simp [mcont]
        | ret => simp [mcont]
        | jumpLabel l =>
          simp only [mcont, skipTo_append]
          cases hsk : skipTo l cs with
          | none => simp
          | some r =>
            have := skipTo_length hsk
            simp only
            exact ih r μ1 (by omega)

/-- a block that runs to its end, followed by another block -/
theorem mFwd_seq {a b : List Code} {μ μ1 : MState} {r : Option (MState × Ctl)}
    (ha : mFwd c a μ = some (μ1, .next)) (hb : mFwd c b μ1 = r) : mFwd c (a ++ b) μ = r := by
  rw [mFwd_append c b a.length a μ (Nat.le_refl _), ha]
  simpa only [mcont] using hb

/-- one fall-through instruction, then the rest -/
theorem mFwd_step {cd : Code} {cs : List Code} {μ μ1 : MState} {r : Option (MState × Ctl)}
    (h1 : mexec c cd μ = some μ1) (h2 : mFwd c cs μ1 = r) :
    mFwd c (cd :: cs) μ = r := by
  rw [mFwd_cons]
  have : mexecC c cd μ = some (μ1, .next) := by
    cases cd <;> first | (simp [mexec] at h1; done) | simp only [mexecC, h1, Option.map_some]
  rw [this]
  simpa only [mcont] using h2

theorem mexecC_JEL (l : String) {μ : MState} {a b : Word} (hf : μ.flags = some (a, b)) :
    mexecC c (.JEL l) μ = some (μ, if a = b then .jumpLabel l else .next) := by
  simp [mexecC, hf]

theorem mexecC_LAB (l : String) (μ : MState) : mexecC c (.LAB l) μ = some (μ, .next) := rfl
theorem mexecC_COMMENT (m : String) (μ : MState) : mexecC c (.COMMENT m) μ = some (μ, .next) := rfl
theorem mexecC_JMPL (l : String) (μ : MState) : mexecC c (.JMPL l) μ = some (μ, .jumpLabel l) := rfl

/-- `je l; body; l:` with equal operands recorded: the body is skipped -/
theorem mFwd_jel_taken (body : List Code) (l : String) (μ : MState) {a : Word}
    (hf : μ.flags = some (a, a)) (hfresh : skipTo l body = none) :
    mFwd c ([.JEL l] ++ body ++ [.LAB l]) μ = some (μ, .next) := by
  rw [List.append_assoc, List.singleton_append, mFwd_cons, mexecC_JEL c l hf]
  simp [mcont, skipTo_append, hfresh, skipTo, mFwd_nil]

/-- `je l; body; l:` with different operands recorded: the body runs -/
theorem mFwd_jel_not_taken (body : List Code) (l : String) (μ μ' : MState) {a b : Word}
    (hf : μ.flags = some (a, b)) (hne : a ≠ b) (hbody : mFwd c body μ = some (μ', .next)) :
    mFwd c ([.JEL l] ++ body ++ [.LAB l]) μ = some (μ', .next) := by
  rw [List.append_assoc, List.singleton_append, mFwd_cons, mexecC_JEL c l hf]
  simp only [hne, if_false, mcont]
  rw [mFwd_append c _ body.length body μ (Nat.le_refl _), hbody]
  simp only [mcont]
  rw [mFwd_cons]
  simp [mexecC_LAB, mcont, mFwd_nil]

/-- `je lt; else; jmp le; lt: then; le:` with equal operands recorded: exactly the then-branch runs -/
theorem mFwd_ite_then (thenB elseB : List Code) (lt le : String) (μ μ' : MState) {a : Word}
    (hf : μ.flags = some (a, a)) (hfresh : skipTo lt elseB = none)
    (hthen : mFwd c thenB μ = some (μ', .next)) :
    mFwd c ([.JEL lt] ++ elseB ++ [.JMPL le, .LAB lt] ++ thenB ++ [.LAB le]) μ = some (μ', .next) := by
  simp only [List.append_assoc, List.singleton_append, List.cons_append, List.nil_append]
  rw [mFwd_cons, mexecC_JEL c lt hf]
  simp only [if_true, mcont, skipTo_append, hfresh]
  simp only [List.cons_append, List.nil_append, skipTo, if_true]
  rw [mFwd_append c _ thenB.length thenB μ (Nat.le_refl _), hthen]
  simp only [mcont]
  rw [mFwd_cons]
  simp [mexecC_LAB, mcont, mFwd_nil]

/-- … with different operands recorded: exactly the else-branch runs -/
theorem mFwd_ite_else (thenB elseB : List Code) (lt le : String) (μ μ' : MState) {a b : Word}
    (hf : μ.flags = some (a, b)) (hne : a ≠ b) (hlab : lt ≠ le) (hfresh : skipTo le thenB = none)
    (helse : mFwd c elseB μ = some (μ', .next)) :
    mFwd c ([.JEL lt] ++ elseB ++ [.JMPL le, .LAB lt] ++ thenB ++ [.LAB le]) μ = some (μ', .next) := by
  simp only [List.append_assoc, List.singleton_append, List.cons_append, List.nil_append]
  rw [mFwd_cons, mexecC_JEL c lt hf]
  simp only [hne, if_false, mcont]
  rw [mFwd_append c _ elseB.length elseB μ (Nat.le_refl _), helse]
  simp only [mcont, List.cons_append, List.nil_append]
  rw [mFwd_cons]
  simp only [mexecC_JMPL, mcont, skipTo, hlab, if_false, skipTo_append, hfresh, if_true]
  simp [mFwd_nil]

end MFwd

/-! ## the representation of view states by machine states -/

/-- machine state `st` (with `rsp = sp` at a statement boundary) is viewed as `μ` -/
structure MRep (c : MachCfg) (sp : Word) (st : State) (μ : MState) : Prop where
  bd : Boundary c st sp
  vals : ∀ u, OpndOK u → tempVal sp st u = μ.val u
  flags : st.flags = μ.flags
  heap : ∀ a, st.heapMem.getD a 0 = μ.heap a

/-- what no instruction of memory.rs touches: trace, pc, step counter, and all stack memory outside
the spill area of the frame -/
structure Inert (sp : Word) (st st' : State) : Prop where
  out : st'.out = st.out
  pc : st'.pc = st.pc
  steps : st'.steps = st.steps
  outside : ∀ n, (∀ p, p < 256 → n ≠ slotAddr sp p) → st'.stackMem[n]? = st.stackMem[n]?

theorem Inert.refl (sp : Word) (st : State) : Inert sp st st := ⟨rfl, rfl, rfl, fun _ _ => rfl⟩

theorem Inert.trans {sp : Word} {s1 s2 s3 : State} (h1 : Inert sp s1 s2) (h2 : Inert sp s2 s3) :
    Inert sp s1 s3 :=
  ⟨h2.out.trans h1.out, h2.pc.trans h1.pc, h2.steps.trans h1.steps,
   fun n hn => (h2.outside n hn).trans (h1.outside n hn)⟩

/-- the view of a machine state -/
def mview (sp : Word) (st : State) : MState :=
  { val := tempVal sp st, flags := st.flags, heap := fun a => st.heapMem.getD a 0 }

theorem mrep_mview {c : MachCfg} {sp : Word} {st : State} (B : Boundary c st sp) :
    MRep c sp st (mview sp st) := ⟨B, fun _ _ => rfl, rfl, fun _ => rfl⟩

section Sim
variable {c : MachCfg} {sp : Word} {st : State} {μ : MState}

theorem MRep.trel (M : MRep c sp st μ) : TRel sp st.view μ.ts := by
  refine ⟨?_, ?_, ?_, M.flags⟩
  · have := view_reg st M.bd.size (by decide : 0 < 16)
    rw [M.bd.rsp] at this
    injection this with h
    exact h.symm
  · intro r h1 h2
    exact M.vals (.reg r) ⟨h1, h2⟩
  · intro p hp
    exact M.vals (.spill p) hp

/-- every instruction of the temporary level is an instruction of the view that leaves the heap alone -/
theorem msim_lift (la : String → Option Nat) (M : MRep c sp st μ) {code : Code} {τ' : TState}
    (hx : texec la code μ.ts = some τ') :
    ∃ st', execCode c la code st = .ok (st', .next) ∧ MRep c sp st' (μ.withT τ') ∧ Inert sp st st' := by
  obtain ⟨a', ea, ra, oa⟩ := tsim_exec M.bd.sp la M.trel hx
  obtain ⟨st', es, rs, ss⟩ := sim_exec la (st.rel_view M.bd.size) ea
  refine ⟨st', es, ⟨⟨rs.size, by rw [rs.regs 0 (by decide), ra.rsp], M.bd.sp⟩, ?_, ?_, ?_⟩,
    ⟨ss.out, ss.pc, ss.steps, ?_⟩⟩
  · intro u hu
    cases u with
    | reg r => simp [tempVal, rs.regs r hu.2, ra.regs r hu.1 hu.2, MState.withT]
    | spill p => simp only [tempVal, MState.withT]; rw [rs.mem, ra.slots p hu]
  · rw [rs.flags, ra.flags]; rfl
  · intro a; rw [ss.heapMem]; exact M.heap a
  · intro n hn
    rw [rs.mem, oa n hn]
    rfl

theorem MRep.regIs (M : MRep c sp st μ) {r : Nat} (h1 : 1 ≤ r) (h2 : r < 16) {x : Word}
    (hx : μ.val (.reg r) = some x) : regIs st r x :=
  regIs_of_tempVal (sp := sp) (by rw [M.vals (.reg r) ⟨h1, h2⟩]; exact hx)

theorem MRep.regRaw (M : MRep c sp st μ) {r : Nat} (h1 : 1 ≤ r) (h2 : r < 16) :
    st.regs[r]? = some (μ.val (.reg r)) := by
  have := M.vals (.reg r) ⟨h1, h2⟩
  simp only [tempVal] at this
  have hlt : r < st.regs.size := by rw [M.bd.size]; exact h2
  rw [Array.getElem?_eq_getElem hlt] at this ⊢
  simpa using this

theorem tempVal_setReg {r : Nat} (hr : r < st.regs.size) (v : Option Word) (u : Temporary) :
    tempVal sp (st.setReg r v) u = if u = .reg r then v else tempVal sp st u := by
  cases u with
  | reg x =>
    by_cases e : x = r
    · subst e; simp [tempVal, setReg_same hr]
    · have : Temporary.reg x ≠ Temporary.reg r := fun h => e (by injection h)
      simp [tempVal, setReg_other e, this]
  | spill p => simp [tempVal, State.setReg]

theorem MRep.setReg (M : MRep c sp st μ) {r : Nat} (h1 : 1 ≤ r) (h2 : r < 16) (v : Option Word) :
    MRep c sp (st.setReg r v) (μ.setT (.reg r) v) ∧ Inert sp st (st.setReg r v) := by
  have hlt : r < st.regs.size := by rw [M.bd.size]; exact h2
  refine ⟨⟨⟨by rw [setReg_size]; exact M.bd.size, ?_, M.bd.sp⟩, ?_, M.flags, M.heap⟩,
    ⟨rfl, rfl, rfl, fun _ _ => rfl⟩⟩
  · rw [setReg_other (by omega)]; exact M.bd.rsp
  · intro u hu
    rw [tempVal_setReg hlt, MState.setT_val, M.vals u hu]

theorem MRep.heapSet (M : MRep c sp st μ) (p v : Word) :
    MRep c sp (st.heapSet c p v) (μ.setH p.toNat v) ∧ Inert sp st (st.heapSet c p v) := by
  refine ⟨⟨⟨M.bd.size, M.bd.rsp, M.bd.sp⟩, fun u hu => ?_, M.flags, fun a => ?_⟩,
    ⟨rfl, rfl, rfl, fun _ _ => rfl⟩⟩
  · have := M.vals u hu
    cases u <;> exact this
  · simp only [State.heapSet, Std.HashMap.getD_insert, MState.setH_heap]
    by_cases e : p.toNat = a
    · subst e; simp
    · have : ¬ a = p.toNat := fun h => e h.symm
      have e' : (p.toNat == a) = false := by simpa using e
      rw [e', if_neg this]; exact M.heap a

theorem MRep.setFlags (M : MRep c sp st μ) (f : Option (Word × Word)) :
    MRep c sp { st with flags := f } (μ.setF f) ∧ Inert sp st { st with flags := f } :=
  ⟨⟨⟨M.bd.size, M.bd.rsp, M.bd.sp⟩, fun u hu => by
      have := M.vals u hu
      cases u <;> exact this, rfl, M.heap⟩, ⟨rfl, rfl, rfl, fun _ _ => rfl⟩⟩

theorem regOpnd_some {r : Nat} {d : Temporary} (h : regOpnd r = some d) : d = .reg r ∧ 1 ≤ r ∧ r < 16 :=
  regOpnd_spec h

/-- what `maddr` says about the machine: the effective address is a heap address -/
theorem maddr_machine (M : MRep c sp st μ) {b : Nat} {i : Int} {a : Nat} (h : maddr c μ b i = some a) :
    ∃ p : Word, ea st b i = .ok p ∧ p.toNat = a ∧ HeapAddr c p := by
  unfold maddr at h
  split at h
  · rename_i hc
    obtain ⟨h1, h2⟩ := hc
    split at h
    · rename_i x hx
      unfold haddr at h
      split at h
      · rename_i ha
        cases h
        refine ⟨x + BitVec.ofInt 64 i, ?_, rfl, ⟨ha.2.1, ha.2.2⟩⟩
        simp [ea, rd_regIs (M.regIs h1 h2 hx), imm32, ha.1]
      · cases h
    · cases h
  · cases h

end Sim

/-! ## the simulation -/

section Sim2
variable {c : MachCfg} {sp : Word} {st : State} {μ : MState}

theorem withT_ts (μ μ' : MState) (hh : μ'.heap = μ.heap) : μ.withT μ'.ts = μ' := by
  cases μ; cases μ'; simp only [MState.withT, MState.ts] at *; subst hh; rfl

/-- a view step that is a temporary-level step -/
theorem msim_of_texec (la : String → Option Nat) (M : MRep c sp st μ) {code : Code} {μ' : MState}
    (hx : texec la code μ.ts = some μ'.ts) (hh : μ'.heap = μ.heap) :
    ∃ st', execCode c la code st = .ok (st', .next) ∧ MRep c sp st' μ' ∧ Inert sp st st' := by
  obtain ⟨st', e, m, i⟩ := msim_lift la M hx
  rw [withT_ts μ μ' hh] at m
  exact ⟨st', e, m, i⟩

/-- SIMULATION, one fall-through instruction -/
theorem msim_exec (la : String → Option Nat) (M : MRep c sp st μ) {code : Code} {μ' : MState}
    (hx : mexec c code μ = some μ') :
    ∃ st', execCode c la code st = .ok (st', .next) ∧ MRep c sp st' μ' ∧ Inert sp st st' := by
  cases code <;> simp only [mexec] at hx
  case MOV r r1 =>
    split at hx
    · rename_i d s hd hs
      cases hx
      exact msim_of_texec la M (by simp [texec, tmove, hd, hs, MState.ts, MState.setT, TState.set]) rfl
    · cases hx
  case MOVL r b i =>
    split at hx
    · rename_i hb
      subst hb
      split at hx
      · rename_i d s hd hs
        cases hx
        exact msim_of_texec la M (by simp [texec, tmove, hd, hs, MState.ts, MState.setT, TState.set]) rfl
      · cases hx
    · rename_i hb
      split at hx
      · rename_i d a hd ha
        cases hx
        obtain ⟨rfl, h1, h2⟩ := regOpnd_some hd
        obtain ⟨p, hea, hpa, hp⟩ := maddr_machine M ha
        subst hpa
        have hlt : r < st.regs.size := by rw [M.bd.size]; exact h2
        have hl : loadWordRaw c st p = .ok (some (μ.heap p.toNat)) := by
          rw [← M.heap]
          simp [loadWordRaw, hp.aligned, hp.inHeap]
        obtain ⟨m, i⟩ := M.setReg h1 h2 (some (μ.heap p.toNat))
        exact ⟨_, by simp [execCode, hea, hl, wrRaw_ok hlt, seqNext], m, i⟩
      · cases hx
  case MOVS r b i =>
    split at hx
    · rename_i hb
      subst hb
      split at hx
      · rename_i d s hd hs
        cases hx
        exact msim_of_texec la M (by simp [texec, tmove, hd, hs, MState.ts, MState.setT, TState.set]) rfl
      · cases hx
    · rename_i hb
      split at hx
      · rename_i s a hs ha
        obtain ⟨rfl, h1, h2⟩ := regOpnd_some hs
        split at hx
        · rename_i v hv
          cases hx
          obtain ⟨p, hea, hpa, hp⟩ := maddr_machine M ha
          subst hpa
          have hst := storeWord_heap (st := st) hp v
          simp only [storeWord] at hst
          obtain ⟨m, i⟩ := M.heapSet p v
          exact ⟨_, by simp [execCode, rdRaw_regIs (M.regIs h1 h2 hv), hea, hst, seqNext], m, i⟩
        · cases hx
      · cases hx
  case MOVI r i =>
    split at hx
    · rename_i d hd
      split at hx
      · rename_i hf
        cases hx
        exact msim_of_texec la M (by simp [texec, hd, hf, MState.ts, MState.setT, TState.set]) rfl
      · cases hx
    · cases hx
  case MOVIM b i1 i2 =>
    split at hx
    · rename_i hb
      subst hb
      split at hx
      · rename_i d hd
        split at hx
        · rename_i hf
          cases hx
          exact msim_of_texec la M (by simp [texec, hd, hf, MState.ts, MState.setT, TState.set]) rfl
        · cases hx
      · cases hx
    · rename_i hb
      split at hx
      · rename_i a ha
        split at hx
        · rename_i hf
          cases hx
          obtain ⟨p, hea, hpa, hp⟩ := maddr_machine M ha
          subst hpa
          obtain ⟨m, i⟩ := M.heapSet p (BitVec.ofInt 64 i2)
          exact ⟨_, by simp [execCode, imm32, hf, writeLoc, hea, storeWord_heap hp, seqNext], m, i⟩
        · cases hx
      · cases hx
  case ADDI r i =>
    split at hx
    · rename_i d hd
      split at hx
      · rename_i x hv
        split at hx
        · rename_i hf
          cases hx
          exact msim_of_texec la M
            (by simp [texec, talu, timm, hd, hf, hv, MState.ts, MState.setT, MState.setF, TState.set]) rfl
        · cases hx
      · cases hx
    · cases hx
  case ADDIM b i1 i2 =>
    split at hx
    · cases hx
    · rename_i hb
      split at hx
      · rename_i a ha
        split at hx
        · rename_i hf
          cases hx
          obtain ⟨p, hea, hpa, hp⟩ := maddr_machine M ha
          subst hpa
          have hg : st.heapGet p = μ.heap p.toNat := M.heap _
          obtain ⟨m1, i1'⟩ := M.heapSet p (μ.heap p.toNat + BitVec.ofInt 64 i2)
          obtain ⟨m2, i2'⟩ := m1.setFlags none
          refine ⟨_, ?_, m2, i1'.trans i2'⟩
          simp [execCode, alu, readLoc, readSrc, writeLoc, hea, loadWord_heap hp, storeWord_heap hp,
            imm32, hf, seqNext, hg]
        · cases hx
      · cases hx
  case CMPI r i =>
    split at hx
    · rename_i d hd
      split at hx
      · rename_i x hv
        split at hx
        · rename_i hf
          cases hx
          exact msim_of_texec la M
            (by simp [texec, tcmp, timm, hd, hf, hv, MState.ts, MState.setF]) rfl
        · cases hx
      · cases hx
    · cases hx
  case CMPIM b i1 i2 =>
    split at hx
    · rename_i hb
      subst hb
      split at hx
      · rename_i d hd
        split at hx
        · rename_i x hv
          split at hx
          · rename_i hf
            cases hx
            exact msim_of_texec la M
              (by simp [texec, tcmp, timm, hd, hf, hv, MState.ts, MState.setF]) rfl
          · cases hx
        · cases hx
      · cases hx
    · rename_i hb
      split at hx
      · rename_i a ha
        split at hx
        · rename_i hf
          cases hx
          obtain ⟨p, hea, hpa, hp⟩ := maddr_machine M ha
          subst hpa
          have hg : st.heapGet p = μ.heap p.toNat := M.heap _
          obtain ⟨m, i⟩ := M.setFlags (some (μ.heap p.toNat, BitVec.ofInt 64 i2))
          refine ⟨_, ?_, m, i⟩
          simp [execCode, cmpOp, readLoc, readSrc, hea, loadWord_heap hp, imm32, hf, seqNext, hg]
        · cases hx
      · cases hx
  case LAB l => cases hx; exact ⟨st, rfl, M, Inert.refl sp st⟩
  case COMMENT l => cases hx; exact ⟨st, rfl, M, Inert.refl sp st⟩
  all_goals cases hx

/-- SIMULATION, one instruction with its control outcome -/
theorem msim_execC (la : String → Option Nat) (M : MRep c sp st μ) {code : Code} {μ' : MState} {ctl : Ctl}
    (hx : mexecC c code μ = some (μ', ctl)) :
    ∃ st', execCode c la code st = .ok (st', ctl) ∧ MRep c sp st' μ' ∧ Inert sp st st' := by
  have key : ∀ (hne : ∀ l, code ≠ .JEL l ∧ code ≠ .JMPL l),
      (mexec c code μ).map (fun μ' => (μ', Ctl.next)) = some (μ', ctl) →
      ∃ st', execCode c la code st = .ok (st', ctl) ∧ MRep c sp st' μ' ∧ Inert sp st st' := by
    intro _ h
    cases hm : mexec c code μ with
    | none => simp [hm] at h
    | some μ1 =>
      simp only [hm, Option.map_some, Option.some.injEq, Prod.mk.injEq] at h
      obtain ⟨rfl, rfl⟩ := h
      exact msim_exec la M hm
  cases code
  case JEL l =>
    simp only [mexecC] at hx
    split at hx
    · rename_i a b hf
      simp only [Option.some.injEq, Prod.mk.injEq] at hx
      obtain ⟨rfl, rfl⟩ := hx
      exact ⟨st, exec_JEL c la l (M.flags.trans hf), M, Inert.refl sp st⟩
    · cases hx
  case JMPL l =>
    simp only [mexecC, Option.some.injEq, Prod.mk.injEq] at hx
    obtain ⟨rfl, rfl⟩ := hx
    exact ⟨st, rfl, M, Inert.refl sp st⟩
  all_goals exact key (fun l => ⟨by simp, by simp⟩) hx

/-- SIMULATION for blocks with forward local labels -/
theorem msim_fwd (la : String → Option Nat) : ∀ (n : Nat) (codes : List Code) (st : State) (μ : MState),
    codes.length ≤ n → MRep c sp st μ → ∀ {μ' : MState} {ctl : Ctl}, mFwd c codes μ = some (μ', ctl) →
    ∃ st', execFwd c la codes st = .ok (st', ctl) ∧ MRep c sp st' μ' ∧ Inert sp st st' := by
  intro n
  induction n with
  | zero =>
    intro codes st μ h M μ' ctl hx
    have : codes = [] := List.eq_nil_of_length_eq_zero (Nat.le_zero.mp h)
    subst this
    rw [mFwd_nil] at hx
    simp only [Option.some.injEq, Prod.mk.injEq] at hx
    obtain ⟨rfl, rfl⟩ := hx
    exact ⟨st, execFwd_nil c la st, M, Inert.refl sp st⟩
  | succ n ih =>
    intro codes st μ h M μ' ctl hx
    cases codes with
    | nil =>
      rw [mFwd_nil] at hx
      simp only [Option.some.injEq, Prod.mk.injEq] at hx
      obtain ⟨rfl, rfl⟩ := hx
      exact ⟨st, execFwd_nil c la st, M, Inert.refl sp st⟩
    | cons cd cs =>
      have hcs : cs.length ≤ n := by simpa using h
      rw [mFwd_cons] at hx
      cases hex : mexecC c cd μ with
      | none => simp [hex, mcont] at hx
      | some r =>
        obtain ⟨μ1, c1⟩ := r
        rw [hex] at hx
        obtain ⟨st1, e1, M1, I1⟩ := msim_execC la M hex
        rw [execFwd_cons, e1]
        cases c1 with
        | next =>
          simp only [mcont] at hx
          obtain ⟨st', e, m, i⟩ := ih cs st1 μ1 hcs M1 hx
          exact ⟨st', by simpa only [contFwd] using e, m, I1.trans i⟩
        | jumpLabel l =>
          simp only [mcont] at hx
          simp only [contFwd]
          cases hsk : skipTo l cs with
          | none =>
            simp only [hsk, Option.some.injEq, Prod.mk.injEq] at hx
            obtain ⟨rfl, rfl⟩ := hx
            exact ⟨st1, rfl, M1, I1⟩
          | some rest =>
            simp only [hsk] at hx
            have := skipTo_length hsk
            obtain ⟨st', e, m, i⟩ := ih rest st1 μ1 (by omega) M1 hx
            exact ⟨st', e, m, I1.trans i⟩
        | jumpAddr a =>
          simp only [mcont, Option.some.injEq, Prod.mk.injEq] at hx
          obtain ⟨rfl, rfl⟩ := hx
          exact ⟨st1, rfl, M1, I1⟩
        | callExt f =>
          simp only [mcont, Option.some.injEq, Prod.mk.injEq] at hx
          obtain ⟨rfl, rfl⟩ := hx
          exact ⟨st1, rfl, M1, I1⟩
        | ret =>
          simp only [mcont, Option.some.injEq, Prod.mk.injEq] at hx
          obtain ⟨rfl, rfl⟩ := hx
          exact ⟨st1, rfl, M1, I1⟩

/-- THE TRANSFER: a run of the view from the view of a boundary state is a run of the machine -/
theorem mtransfer (la : String → Option Nat) (B : Boundary c st sp) {codes : List Code} {μ' : MState}
    (hx : mFwd c codes (mview sp st) = some (μ', .next)) :
    ∃ st', execFwd c la codes st = .ok (st', .next) ∧ MRep c sp st' μ' ∧ Inert sp st st' :=
  msim_fwd la codes.length codes st _ (Nat.le_refl _) (mrep_mview B) hx

/-- what a memory operation leaves alone: trace, pc, step counter, all stack memory outside the spill
area, and every temporary (register rcx..r15 / spill slot of the frame) not in `changed`
(rsp itself is kept by `Boundary … sp` on both sides) -/
structure FrameT (sp : Word) (st st' : State) (changed : Temporary → Prop) : Prop where
  out : st'.out = st.out
  pc : st'.pc = st.pc
  steps : st'.steps = st.steps
  outside : ∀ n, (∀ p, p < 256 → n ≠ slotAddr sp p) → st'.stackMem[n]? = st.stackMem[n]?
  temps : ∀ u, OpndOK u → ¬ changed u → tempVal sp st' u = tempVal sp st u

/-- a run of the view from the view of a boundary state, with its frame, on the machine -/
theorem m_to_machine (la : String → Option Nat) (B : Boundary c st sp) {codes : List Code} {μ' : MState}
    (hx : mFwd c codes (mview sp st) = some (μ', .next)) {changed : Temporary → Prop}
    (hfr : ∀ u, ¬ changed u → μ'.val u = (mview sp st).val u) :
    ∃ st', execFwd c la codes st = .ok (st', .next) ∧ Boundary c st' sp ∧ MRep c sp st' μ' ∧
      FrameT sp st st' changed := by
  obtain ⟨st', e, M, I⟩ := mtransfer la B hx
  exact ⟨st', e, M.bd, M, ⟨I.out, I.pc, I.steps, I.outside, fun u hu hc => by
    rw [M.vals u hu, hfr u hc]; rfl⟩⟩

end Sim2

end Scc.X86
