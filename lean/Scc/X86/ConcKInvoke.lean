/-
  Scc.X86.ConcKInvoke — THE THREE-WAY SIMULATION OF `invoke` (Scc/X86/RefClosInvoke.lean) WITH A REAL MACHINE
  TRANSITION EXPORTED: among the transitions of the x86-64 machine that simulate an `invoke` there is one at
  an item of non-zero size — the indirect `jmp reg` (behind `loadPtr`, resp. `add reg, 5·pos` for a method
  table).  This is what the progress argument of the all-fuel theorems needs: the machine may be ahead of the
  statement boundary by labels and comments (`Tol`), so the NUMBER of transitions from the boundary state says
  nothing; an executed item of non-zero size does (`tol_next_real`, ConcKPeakRun.lean).
  `invoke_nav_x86P`, `invoke_x3P` are `invoke_nav_x86`, `invoke_x3` with this one more conjunct (same proofs),
  and with the program counters in between (`Mid`, Scc/X86/ConcKMid.lean; gap (4b) of
  `C09_x86_monitor_statement`): no state strictly between the boundary of the `invoke` and the state the `jmp reg`
  lands on is at a `#ctx` comment, and the landing state is the boundary state of the method or not at one.
-/
import Scc.X86.ConcKPeak

set_option linter.unusedVariables false
set_option linter.unusedSimpArgs false

namespace Scc.X86.Ref.K

open Scc.AxCut Scc.AxCut.Pos Scc.Backend Scc.Backend.Abs Scc.Backend.Sim Scc.Backend.Sim2 Scc.X86
open Scc.Heap (HState InvS InvW)
open Scc.Heap.Refine (HRef FrLe Room loadAbs)

section Invoke3P

variable {F : Frame} (H : FrameOK F) (h8 : F.c.heapBase % 8 = 0) {mon : MonCfg} (hmon : mon.mach = F.c)
  {px : X86.Prog} {cs : List Code} (LA : LoadedA F.c px cs) (hnd : (labs cs).Nodup)
  (hfitX : addrAt F.c.codeBase cs cs.length < 2 ^ 64)
  (hreal : ∀ idx, idx < cs.length → ∃ i, idx ≤ i ∧ ∃ h : i < cs.length, codeSize cs[i] ≠ 0)

include H hmon LA hnd hfitX hreal in
/-- the machine from the `invoke` to the `load` of the selected method; with one method the machine may be
ahead of the boundary state `st4` by labels and comments (`Tol`) -/
theorem invoke_nav_x86P {hooks : Bool} {types : List TypeDecl} {Γa : Ctx} {b : Binding} {cfg : Config}
    {hs : HState} {ι : Nat → Nat} {κ : Nat → Nat → Word} {st : State} {x tag : Ident} {ty : Ty} {args : Ctx}
    {clauses : Clauses} {d : TypeDecl} {pos : Nat} {c : Clause} {envCtx' : Ctx} {w : Word}
    (X : X3 F (Γa ++ [b]) cfg hs ι κ st)
    (hb : b.var.id = x.id) (hfresh : ∀ b' ∈ Γa, b'.var.id ≠ x.id) (hbchi : b.chi = .cns)
    (hd : lookupTypeDecl types ty = some d) (hx : xtorPosition d tag = some pos)
    (hclause : nthClause clauses pos = some c) (hlc : clauses.length = d.xtors.length)
    (hw : tempVal F.sp st (posTemp (2 * Γa.length + 1)) = some w)
    (hXM : XMethodsAt F.c cs hooks types w envCtx' clauses)
    (hi32 : fitsI32 (jumpLength pos) = true)
    {k k' : Nat} {items : List Code}
    (hrun : (codeStatementR x86Backend hooks natRen types (.invoke x tag ty args) (Γa ++ [b])).run k =
      .ok (items, k'))
    (hat : XAt cs st.pc items) :
    ∃ stR st4 n4 kl kl' lcode kb' body, stepN mon px n4 st = .inl stR ∧ Tol cs st4 stR ∧
      X3 F (Γa ++ [b]) cfg hs ι κ st4 ∧
      (load envCtx' c.ctx).run kl = .ok (lcode, kl') ∧
      (codeStatementR x86Backend hooks natRen types c.body (c.ctx ++ envCtx')).run kl' = .ok (body, kb') ∧
      XAt cs st4.pc (lcode ++ body) ∧
      (∀ t, t < 267 → t ≠ 2 * Γa.length + 1 → tempVal F.sp st4 (posTemp t) = tempVal F.sp st (posTemp t)) ∧
      (∃ n1 Xm, n1 < n4 ∧ stepN mon px n1 st = .inl Xm ∧ ¬ NoopAt cs Xm.pc) ∧
      Mid mon px cs n4 st ∧ (stR = st4 ∨ ¬ CtxAt cs stR.pc) := by
  have L := LA.loaded
  have hcapX := X.cap
  simp only [List.length_append, List.length_singleton] at hcapX
  have hn1 : Γa.length < (Γa ++ [b]).length := by simp
  have hgb : (Γa ++ [b])[Γa.length] = b := by simp
  obtain ⟨base, km, km', mcode, idx, hmrun, hatM, hwe⟩ := hXM
  have hposlt := nthClause_lt clauses pos c hclause
  -- decode the code
  simp only [codeStatementR, run_bind_ok, lookupTypeDeclM_run_ok] at hrun
  obtain ⟨tt, k1, htt, decl, k2, ⟨hd', rfl⟩, hrun⟩ := hrun
  rw [hd] at hd'; cases hd'
  obtain ⟨p, hp, hlt, rfl, rfl⟩ := (x86_vt_run_ok _ _ _ _ _ _).1 htt
  have hp' : p = Γa.length := by
    have := posOf_append_fresh Γa b (fun b' hb' => by rw [hb]; exact hfresh b' hb')
    rw [hb] at this
    rw [this] at hp
    exact (Option.some.inj hp).symm
  subst hp'
  simp only [TempNum.toNat] at hlt
  have hok := tempOK_posTemp hlt
  -- the table label in the routine
  obtain ⟨csM, restM, hcsM, hlenM⟩ := hatM
  have hidxlt : idx < cs.length := by rw [hcsM]; simp; omega
  have hbound : addrAt F.c.codeBase cs idx < 2 ^ 64 :=
    Nat.lt_of_le_of_lt (addrAt_mono _ _ (Nat.le_of_lt hidxlt)) hfitX
  have hwn : w.toNat = addrAt F.c.codeBase cs idx := by rw [hwe]; exact toNat_ofNat_lt hbound
  by_cases hle : d.xtors.length ≤ 1
  · -- a single method: `jmp` to the address of the label
    have hpos0 : pos = 0 := by omega
    subst hpos0
    simp only [hle, if_true, run_pure_ok] at hrun
    obtain ⟨rfl, rfl⟩ := hrun
    have hgt : ¬ (clauses.length > 1) := by omega
    simp only [hgt, if_false, List.nil_append] at hcsM
    obtain ⟨post0, kl', lcode, kb', body, hc0, hload, hbody⟩ :=
      x_codeMethods_head hooks natRen types envCtx' clauses base c _ _ _ hmrun hclause
    rw [hc0] at hcsM
    -- the comments
    have hje : x86Backend.jump (posTemp (2 * Γa.length + TempNum.snd.toNat)) =
        loadPtr (posTemp (2 * Γa.length + 1)) ++ [Code.JMP (jumpReg (posTemp (2 * Γa.length + 1)))] :=
      jump_eq _
    rw [hje] at hat
    generalize hc0' : hookCode x86Backend hooks (Γa ++ [b]) ++ [x86Backend.comment (invokePrint x tag args)] ++
      [x86Backend.comment "#there is only one clause, so we can jump there directly"] = c0 at hat
    have hc0c : ∀ y ∈ c0, ∃ m', y = Code.COMMENT m' := by
      rw [← hc0']
      intro y hy
      rcases List.mem_append.1 hy with hy | hy
      · exact hook_comments hooks _ _ y hy
      · simp only [List.mem_singleton] at hy; exact ⟨_, hy⟩
    have hatA : XAt cs st.pc (c0 ++ (loadPtr (posTemp (2 * Γa.length + 1)) ++
        [Code.JMP (jumpReg (posTemp (2 * Γa.length + 1)))])) := by
      simpa [List.append_assoc] using hat
    obtain ⟨k0, hk0⟩ := x_steps_straight mon L hatA.left
      (execStraight_comments mon.mach px.labelAddr c0 st hc0c)
    have Xa : X3 F (Γa ++ [b]) cfg hs ι κ (setPS st (st.pc + c0.length) k0) := X3R.setPS X _ _
    have hwa : tempVal F.sp (setPS st (st.pc + c0.length) k0) (posTemp (2 * Γa.length + 1)) = some w := by
      rw [tempVal_setPS]; exact hw
    obtain ⟨sb, hxb, Bb, hreg, Pb⟩ := loadPtr_correct (la := px.labelAddr) Xa.bnd hok hwa
    rw [← hmon] at hxb
    obtain ⟨kb, hkb⟩ := x_steps_straight mon L (s := setPS st (st.pc + c0.length) k0) hatA.right.left hxb
    have Xb : X3 F (Γa ++ [b]) cfg hs ι κ (setPS sb ((setPS st (st.pc + c0.length) k0).pc +
        (loadPtr (posTemp (2 * Γa.length + 1))).length) kb) := X3R.setPS (X3R.keep H Xa Bb Pb) _ _
    -- the jump lands on the first item of non-zero size
    obtain ⟨i0, hi0, hi0lt, hsz0, hnoop, haddr0⟩ := first_real F.c.codeBase cs idx (hreal idx hidxlt)
    have hidxA : px.addrIdx[addrAt F.c.codeBase cs idx]? = some i0 := by
      rw [← haddr0]; exact LA.addrIdx i0 hi0lt hsz0
    have hjx : execCode mon.mach px.labelAddr (Code.JMP (jumpReg (posTemp (2 * Γa.length + 1))))
        (setPS sb ((setPS st (st.pc + c0.length) k0).pc + (loadPtr (posTemp (2 * Γa.length + 1))).length) kb) =
        .ok (setPS sb ((setPS st (st.pc + c0.length) k0).pc + (loadPtr (posTemp (2 * Γa.length + 1))).length) kb,
          .jumpAddr (addrAt F.c.codeBase cs idx)) := by
      rw [execCode_setPS, exec_jmp hreg, hwn]
      rfl
    obtain ⟨cs1, rest1, hcs1, hpc1⟩ := hatA.right.right
    obtain ⟨kc, hkc⟩ := step_jumpA mon L (cs1 := cs1)
      (code := Code.JMP (jumpReg (posTemp (2 * Γa.length + 1)))) (rest := rest1)
      (by rw [hcs1]; simp) (by simp [setPS] at hpc1 ⊢; omega) hjx hidxA
    -- the two labels of the method are passed
    have hcsM' : cs = csM ++ Code.LAB base :: Code.LAB (clauseLabel base c.xtor) ::
        ((lcode ++ body) ++ (post0 ++ restM)) := by
      rw [hcsM]; simp [List.append_assoc]
    have hg0 : cs[idx]? = some (Code.LAB base) := by
      rw [hcsM', ← hlenM]; exact getElem?_mid _ _ _
    have hg1 : cs[idx + 1]? = some (Code.LAB (clauseLabel base c.xtor)) := by
      have e : cs = (csM ++ [Code.LAB base]) ++ Code.LAB (clauseLabel base c.xtor) ::
          ((lcode ++ body) ++ (post0 ++ restM)) := by rw [hcsM']; simp
      have : idx + 1 = (csM ++ [Code.LAB base]).length := by simp [hlenM]
      rw [this]; conv => lhs; rw [e]
      exact getElem?_mid _ _ _
    have hi02 : idx + 2 ≤ i0 := by
      have h0 : i0 ≠ idx := by
        intro e; subst e
        rw [List.getElem?_eq_getElem hi0lt] at hg0
        injection hg0 with hg0
        rw [hg0] at hsz0; exact hsz0 rfl
      have h1 : i0 ≠ idx + 1 := by
        intro e; subst e
        rw [List.getElem?_eq_getElem hi0lt] at hg1
        injection hg1 with hg1
        rw [hg1] at hsz0; exact hsz0 rfl
      omega
    generalize hsR : setPS (setPS sb ((setPS st (st.pc + c0.length) k0).pc +
      (loadPtr (posTemp (2 * Γa.length + 1))).length) kb) i0 kc = sR at hkc
    have XR : X3 F (Γa ++ [b]) cfg hs ι κ sR := by rw [← hsR]; exact X3R.setPS Xb _ _
    have hpcR : sR.pc = i0 := by rw [← hsR]; rfl
    have hninv : ¬ IsCtx (Code.COMMENT (invokePrint x tag args)) := by
      unfold invokePrint; simp only [String.append_assoc]
      exact not_isCtx_lit_head _ _ (c := 'i') (by decide) (by decide)
    have hmid : Mid mon px cs _ st := Mid.trans (mid_comments mon L hatA.left hc0c (by
        rw [← hc0']
        exact noCtx_tail_append (noCtx_tail_hook hooks _ hninv) (NoCtx.cons (by nc_item) NoCtx.nil) (by simp))) hk0
      (MidS.trans (midS_straight mon L hatA.right.left hxb
          (noCtx_append.1 (by rw [← jump_eq]; exact noCtx_jump _)).1) hkb
        (midS_one (not_ctxAt_of_xat hatA.right.right (not_isCtx_of_noComment rfl))))
      (by rw [← hc0']; simp)
    refine ⟨sR, setPS sR (idx + 2) sR.steps, _, km, kl', lcode, kb', body,
      stepN_trans mon px hk0 (stepN_trans mon px hkb ((stepN_one mon px _).trans hkc)), ?_, X3R.setPS XR _ _,
      hload, hbody, ?_, ?_, ⟨c0.length + (loadPtr (posTemp (2 * Γa.length + 1))).length, _, by omega,
      stepN_trans mon px hk0 hkb, not_noop_of_xat hatA.right.right (by simp [codeSize])⟩, hmid,
      Or.inr (by rw [hpcR]; exact not_ctxAt_of_size hi0lt hsz0)⟩
    · refine ⟨by simp [setPS]; omega, ?_, ?_⟩
      · simp [setPS]
      · intro i h1 h2
        exact hnoop i (by simp [setPS] at h1; omega) (by rw [hpcR] at h2; exact h2)
    · refine ⟨csM ++ [Code.LAB base, Code.LAB (clauseLabel base c.xtor)], post0 ++ restM, ?_, ?_⟩
      · rw [hcsM']; simp [List.append_assoc]
      · simp [setPS, hlenM]
    · intro t ht hne
      rw [tempVal_setPS, ← hsR, tempVal_setPS, tempVal_setPS, mach_keep_none Pb ht, tempVal_setPS]
  · -- through the method table
    have hgt : clauses.length > 1 := by omega
    simp only [hle, if_false, run_bind_ok, run_pure_ok, xtorPositionM_run_ok] at hrun
    obtain ⟨pos', k3, ⟨hx', rfl⟩, rfl, rfl⟩ := hrun
    rw [hx] at hx'; cases hx'
    simp only [hgt, if_true] at hcsM
    obtain ⟨pre, post, kl, kl', lcode, kb', body, hc3, hload, hbody⟩ :=
      x_codeMethods_nth hooks natRen types envCtx' clauses base pos c _ _ _ hmrun hclause
    generalize hT : codeTable x86Backend clauses base = table at hcsM
    have htab : table[pos]? = some (.JMPLN (clauseLabel base c.xtor)) := by
      rw [← hT]; exact x_codeTable_nth base clauses pos c hclause
    have htlen : table.length = clauses.length := by rw [← hT]; exact x_codeTable_length base clauses
    have htsz : table.map codeSize = List.replicate table.length 5 := by
      rw [htlen, ← hT]; exact x_codeTable_sizes base clauses
    generalize hsfx : pre ++ Code.LAB (clauseLabel base c.xtor) :: (lcode ++ (body ++ post)) ++ restM = sfx
    have hcsT : cs = csM ++ (Code.LAB base :: table) ++ sfx := by
      rw [hcsM, hc3, ← hsfx]; simp [List.append_assoc]
    -- the comments
    have hje : x86Backend.addAndJump (posTemp (2 * Γa.length + TempNum.snd.toNat)) (x86Backend.jumpLength pos) =
        addAndJump (posTemp (2 * Γa.length + 1)) (jumpLength pos) := rfl
    rw [hje] at hat
    generalize hc0' : hookCode x86Backend hooks (Γa ++ [b]) ++ [x86Backend.comment (invokePrint x tag args)] = c0
      at hat
    have hc0c : ∀ y ∈ c0, ∃ m', y = Code.COMMENT m' := by rw [← hc0']; exact hook_comments hooks _ _
    have hwa0 : tempVal F.sp (setPS st (st.pc + c0.length) 0) (posTemp (2 * Γa.length + 1)) = some w := by
      rw [tempVal_setPS]; exact hw
    obtain ⟨k0, hk0⟩ := x_steps_straight mon L hat.left
      (execStraight_comments mon.mach px.labelAddr c0 st hc0c)
    have Xa : X3 F (Γa ++ [b]) cfg hs ι κ (setPS st (st.pc + c0.length) k0) := X3R.setPS X _ _
    have hwa : tempVal F.sp (setPS st (st.pc + c0.length) k0) (posTemp (2 * Γa.length + 1)) = some w := by
      rw [tempVal_setPS]; exact hw
    have heq := addAndJump_eq (posTemp (2 * Γa.length + 1)) (jumpLength pos)
    obtain ⟨sb, hxb, Bb, Pb, hdefb, hjxb⟩ := addAndJumpPre_correct' (la := px.labelAddr) Xa.bnd hok hi32 hwa
    rw [heq] at hat
    have hatA : XAt cs st.pc (c0 ++ (addAndJumpPre (posTemp (2 * Γa.length + 1)) (jumpLength pos) ++
        [Code.JMP (jumpReg (posTemp (2 * Γa.length + 1)))])) := hat
    rw [← hmon] at hxb
    obtain ⟨kb, hkb⟩ := x_steps_straight mon L (s := setPS st (st.pc + c0.length) k0) hatA.right.left hxb
    have Xb0 : X3 F (Γa ++ [b]) cfg hs ι κ sb :=
      X3R.keep_cns H Xa Bb hn1 (by rw [hgb]; exact hbchi) Pb hdefb
    have Xb : X3 F (Γa ++ [b]) cfg hs ι κ (setPS sb ((setPS st (st.pc + c0.length) k0).pc +
        (addAndJumpPre (posTemp (2 * Γa.length + 1)) (jumpLength pos)).length) kb) := X3R.setPS Xb0 _ _
    -- the jump lands on the table entry
    have hTlt : csM.length + 1 + pos < cs.length := by rw [hcsT]; simp; omega
    have haddrT := addrAt_table F.c.codeBase csM table sfx base htsz pos (by omega)
    rw [← hcsT, hlenM] at haddrT
    have hbound2 : addrAt F.c.codeBase cs idx + 5 * pos < 2 ^ 64 := by
      rw [← haddrT]
      exact Nat.lt_of_le_of_lt (addrAt_mono _ _ (by rw [← hlenM]; exact Nat.le_of_lt hTlt)) hfitX
    have hcsTe : cs[idx + 1 + pos]? = some (.JMPLN (clauseLabel base c.xtor)) := by
      rw [← hlenM, hcsT, List.append_assoc, List.getElem?_append_right (by omega)]
      rw [show csM.length + 1 + pos - csM.length = pos + 1 by omega]
      simp only [List.cons_append, List.getElem?_cons_succ]
      rw [List.getElem?_append_left (by omega)]
      exact htab
    have hTlt' : idx + 1 + pos < cs.length := by rw [← hlenM]; exact hTlt
    have hidxA : px.addrIdx[addrAt F.c.codeBase cs idx + 5 * pos]? = some (idx + 1 + pos) := by
      rw [← haddrT]
      apply LA.addrIdx _ hTlt'
      have := List.getElem?_eq_getElem hTlt'
      rw [hcsTe] at this
      rw [← Option.some.inj this]
      simp [codeSize]
    have hwadd : (w + BitVec.ofInt 64 (jumpLength pos)).toNat = addrAt F.c.codeBase cs idx + 5 * pos := by
      have e5 : BitVec.ofInt 64 (jumpLength pos) = BitVec.ofNat 64 pos * 5#64 := by
        show BitVec.ofInt 64 ((5 : Int) * (pos : Int)) = BitVec.ofNat 64 pos * 5#64
        rw [BitVec.ofInt_mul, BitVec.mul_comm]
        simp
      rw [e5, hwe]
      exact toNat_table_addr hbound2
    have hjx : execCode mon.mach px.labelAddr (Code.JMP (jumpReg (posTemp (2 * Γa.length + 1))))
        (setPS sb ((setPS st (st.pc + c0.length) k0).pc +
          (addAndJumpPre (posTemp (2 * Γa.length + 1)) (jumpLength pos)).length) kb) =
        .ok (setPS sb ((setPS st (st.pc + c0.length) k0).pc +
          (addAndJumpPre (posTemp (2 * Γa.length + 1)) (jumpLength pos)).length) kb,
          .jumpAddr (addrAt F.c.codeBase cs idx + 5 * pos)) := by
      rw [execCode_setPS, hmon, hjxb, hwadd]
      rfl
    obtain ⟨cs1, rest1, hcs1, hpc1⟩ := hatA.right.right
    obtain ⟨kc, hkc⟩ := step_jumpA mon L (cs1 := cs1)
      (code := Code.JMP (jumpReg (posTemp (2 * Γa.length + 1)))) (rest := rest1)
      (by rw [hcs1]; simp) (by simp [setPS] at hpc1 ⊢; omega) hjx hidxA
    -- the table entry jumps to the method
    have hiC : cs[idx + 1 + table.length + pre.length]? = some (Code.LAB (clauseLabel base c.xtor)) := by
      have e : cs = (csM ++ (Code.LAB base :: table) ++ pre) ++
          Code.LAB (clauseLabel base c.xtor) :: (lcode ++ (body ++ post) ++ restM) := by
        rw [hcsT, ← hsfx]; simp [List.append_assoc]
      have hlen : (csM ++ (Code.LAB base :: table) ++ pre).length = idx + 1 + table.length + pre.length := by
        simp [hlenM]; omega
      rw [← hlen]
      conv => lhs; rw [e]
      exact getElem?_mid _ _ _
    have hTsplit : cs = cs.take (idx + 1 + pos) ++ Code.JMPLN (clauseLabel base c.xtor) ::
        cs.drop (idx + 1 + pos + 1) := by
      have h1 : cs.drop (idx + 1 + pos) = cs[idx + 1 + pos] :: cs.drop (idx + 1 + pos + 1) :=
        List.drop_eq_getElem_cons hTlt'
      have h2 : cs[idx + 1 + pos] = Code.JMPLN (clauseLabel base c.xtor) := by
        have := List.getElem?_eq_getElem hTlt'
        rw [hcsTe] at this
        exact (Option.some.inj this).symm
      conv => lhs; rw [← List.take_append_drop (idx + 1 + pos) cs, h1, h2]
    obtain ⟨kd, hkd⟩ := Scc.X86.Ref.step_jump mon L hTsplit
      (s := setPS (setPS sb ((setPS st (st.pc + c0.length) k0).pc +
          (addAndJumpPre (posTemp (2 * Γa.length + 1)) (jumpLength pos)).length) kb) (idx + 1 + pos) kc)
      (by simp only [setPS, List.length_take]; exact (Nat.min_eq_left (Nat.le_of_lt hTlt')).symm)
      (l := clauseLabel base c.xtor) rfl
      (labIdx_of_nodup hnd hiC)
    -- the label of the method
    obtain ⟨ke, hke⟩ := step_fall mon L
      (cs1 := csM ++ (Code.LAB base :: table) ++ pre)
      (code := Code.LAB (clauseLabel base c.xtor)) (rest := lcode ++ (body ++ post) ++ restM)
      (by rw [hcsT, ← hsfx]; simp [List.append_assoc])
      (s := setPS (setPS (setPS sb ((setPS st (st.pc + c0.length) k0).pc +
          (addAndJumpPre (posTemp (2 * Γa.length + 1)) (jumpLength pos)).length) kb) (idx + 1 + pos) kc)
        (idx + 1 + table.length + pre.length) kd)
      (by simp [setPS, hlenM]; omega) (s1 := _) rfl
    have hninv : ¬ IsCtx (Code.COMMENT (invokePrint x tag args)) := by
      unfold invokePrint; simp only [String.append_assoc]
      exact not_isCtx_lit_head _ _ (c := 'i') (by decide) (by decide)
    have hmid : Mid mon px cs _ st := Mid.trans (mid_comments mon L hatA.left hc0c (by
        rw [← hc0']; exact noCtx_tail_hook hooks _ hninv)) hk0
      (MidS.trans (midS_straight mon L hatA.right.left hxb
          (noCtx_append.1 (by rw [← addAndJump_eq]; exact noCtx_addAndJump _ _)).1) hkb
        (MidS.trans (midS_one (not_ctxAt_of_xat hatA.right.right (not_isCtx_of_noComment rfl)))
          ((stepN_one mon px _).trans hkc)
          (MidS.trans (midS_one (not_ctxAt_of_getElem hcsTe (not_isCtx_of_noComment rfl)))
            ((stepN_one mon px _).trans hkd)
            (midS_one (not_ctxAt_of_getElem hiC (not_isCtx_of_noComment rfl))))))
      (by rw [← hc0']; simp)
    refine ⟨_, _, _, kl, kl', lcode, kb', body,
      stepN_trans mon px hk0 (stepN_trans mon px hkb (stepN_trans mon px ((stepN_one mon px _).trans hkc)
        (stepN_trans mon px ((stepN_one mon px _).trans hkd) ((stepN_one mon px _).trans hke)))),
      Tol.refl _ _, X3R.setPS (X3R.setPS (X3R.setPS Xb _ _) _ _) _ _, hload, hbody, ?_, ?_,
      ⟨c0.length + (addAndJumpPre (posTemp (2 * Γa.length + 1)) (jumpLength pos)).length, _, by omega,
      stepN_trans mon px hk0 hkb, not_noop_of_xat hatA.right.right (by simp [codeSize])⟩, hmid, Or.inl rfl⟩
    · refine ⟨csM ++ (Code.LAB base :: table) ++ pre ++ [Code.LAB (clauseLabel base c.xtor)], post ++ restM, ?_, ?_⟩
      · rw [hcsT, ← hsfx]; simp [List.append_assoc]
      · simp [setPS, hlenM]; omega
    · intro t ht hne
      rw [tempVal_setPS, tempVal_setPS, tempVal_setPS, tempVal_setPS, mach_keep_some hlt Pb ht hne, tempVal_setPS]

include H h8 hmon LA hnd hfitX hreal in
/-- THREE-WAY SIMULATION OF `invoke`.  The closure facts (`hword` … `hXM`) come from the closure invariant
`XC`; the machine may end ahead of the boundary state `st'` by labels and comments (`Tol cs st' stR`). -/
theorem invoke_x3P {P : Program} {hooks : Bool} {prog : AxCut.Prog} {Γa : Ctx} {b : Binding}
    {ρa : List Value} {Γc : Ctx} {ρc : List Value} {clauses : Clauses} {x tag : Ident} {ty : Ty}
    {args : Ctx} {cfg : Config} {c : Clause} {pos : Nat}
    (R : RelX P hooks prog ⟨Γa ++ [b], ρa ++ [.clo Γc ρc clauses], .invoke x tag ty args⟩ cfg)
    (hfits : Fits P)
    (hb : b.var.id = x.id) (hfresh : ∀ b' ∈ Γa, b'.var.id ≠ x.id)
    (hpos : Pos.tagPosition prog.types ty tag = .ok pos)
    (hclause : nthClause clauses pos = some c)
    (hlenc : ∀ d, lookupTypeDecl prog.types ty = some d → clauses.length = d.xtors.length)
    (hargs : Γa.map (·.chi) = c.ctx.map (·.chi))
    (hkinds : ρc.map Sim2.kindOf = Mock.kindsOf Γc)
    (hcap : 2 * (c.ctx.length + Γc.length) + 2 < Mock.T_TEMP)
    {hs : HState} {ι : Nat → Nat} {κ : Nat → Nat → Word} {st : State} (X : X3 F (Γa ++ [b]) cfg hs ι κ st)
    {a : Nat} {envCtx' : Ctx} {w : Word} (hkeys : envCtx'.keys = Γc.keys)
    (hword : cfg.temps.get (2 * Γa.length + 1) = some (BitVec.ofNat 64 a))
    (hmeth : MethodsAt P hooks prog.types a envCtx' clauses)
    (hw : tempVal F.sp st (posTemp (2 * Γa.length + 1)) = some w)
    (hXM : XMethodsAt F.c cs hooks prog.types w envCtx' clauses)
    {k k' : Nat} {items : List Code}
    (hrun : (codeStatementR x86Backend hooks natRen prog.types (.invoke x tag ty args) (Γa ++ [b])).run k =
      .ok (items, k'))
    (hat : XAt cs st.pc items)
    (hcapX : 2 * (c.ctx.length + Γc.length) ≤ 266)
    (hi32 : fitsI32 (jumpLength pos) = true) :
    ∃ kk cfg' st' stR hs' n, stepsTo P kk cfg cfg' ∧ stepN mon px n st = .inl stR ∧ Tol cs st' stR ∧
      FrLe hs hs' 0 ∧ cfg'.out = cfg.out ∧ cfg'.next = cfg.next ∧
      RelX P hooks prog ⟨c.ctx ++ envCtx', ρa ++ ρc, c.body⟩ cfg' ∧
      X3 F (c.ctx ++ envCtx') cfg' hs' ι κ st' ∧
      ∃ k1 k1' items', (codeStatementR x86Backend hooks natRen prog.types c.body (c.ctx ++ envCtx')).run k1 =
          .ok (items', k1') ∧ XAt cs st'.pc items' ∧ LoadProv F Γa.length envCtx' cfg cfg' κ st st' ∧
        (∃ n1 Xm, n1 < n ∧ stepN mon px n1 st = .inl Xm ∧ ¬ NoopAt cs Xm.pc) ∧
        Mid mon px cs n st ∧ (stR = st' ∨ ¬ CtxAt cs stR.pc) := by
  have L := LA.loaded
  have hlen : ρa.length = Γa.length := by have := R.len; simpa using this
  have hlenA : Γa.length = c.ctx.length := by simpa using congrArg List.length hargs
  have hkenv : Mock.kindsOf envCtx' = Mock.kindsOf Γc := kinds_of_keys hkeys
  have hlenv : envCtx'.length = Γc.length := Sim2.length_of_keys hkeys
  have hkinds' : ρc.map Sim2.kindOf = Mock.kindsOf envCtx' := by rw [hkenv]; exact hkinds
  have hcap' : 2 * (Γa.length + envCtx'.length) + 2 < Mock.T_TEMP := by rw [hlenA, hlenv]; exact hcap
  -- the closure position
  have hn1 : Γa.length < (Γa ++ [b]).length := by simp
  have hn2 : Γa.length < (ρa ++ [Value.clo Γc ρc clauses]).length := by simp [hlen]
  obtain ⟨hrep, hsome, hkind, hptr⟩ := R.vals Γa.length hn1 hn2
  have g1 : (Γa ++ [b])[Γa.length] = b := by simp
  have g2 : (ρa ++ [Value.clo Γc ρc clauses])[Γa.length] = .clo Γc ρc clauses := by
    rw [List.getElem_append_right (by omega)]; simp [hlen]
  simp only [g1, g2] at hrep hkind hptr
  have hbchi : b.chi = .cns := hkind
  have hbne : b.chi ≠ .ext := by rw [hbchi]; decide
  have hbe : (b.chi == .ext) = false := (chi_beq_ext_false _).mpr hbne
  simp only [hbe, Bool.false_eq_true, if_false] at hrep
  obtain ⟨r, a'', envCtx'', hr, hB, _, _, _⟩ := hrep.clo_inv
  obtain ⟨d, hd, hx⟩ := tagPosition_ok hpos
  -- both machines up to the `load` of the method
  obtain ⟨k4, cfg4, hst4, h4heap, h4next, h4out, h4temps, hloadM, hcode⟩ :=
    invoke_nav_abs R hfits hb hfresh hpos hclause hlenc hlenA hword hmeth
  obtain ⟨stR, st4, n4, kl, kl', lcode, kb', body, hn4, T4, X4, hload, hbody, hat4, hmk4, ⟨n1, Xm, hn1lt, hn1, hreal1⟩, hmid4, hland4⟩ :=
    invoke_nav_x86P H hmon LA hnd hfitX hreal X hb hfresh hbchi hd hx hclause (hlenc d hd) hw hXM hi32 hrun hat
  have X4' : X3 F (c.ctx ++ [b]) cfg hs ι κ st4 := X4.ctxCongr (by simp [hargs])
  obtain ⟨cfg', hstep, hout', hnext', R'⟩ := load_enter (Γ'' := c.ctx) (Δ := envCtx') (s' := c.body)
    (cfg4 := cfg4) R hargs hbne hr hB hkinds' hcap' h4heap h4next h4out h4temps hloadM hcode
  have hcapX' : 2 * (Γa.length + envCtx'.length) ≤ 266 := by rw [hlenA, hlenv]; exact hcapX
  have hcapXa := X.cap
  simp only [List.length_append, List.length_singleton] at hcapXa
  cases hctx : envCtx' with
  | nil =>
    -- no environment: nothing is loaded, no code
    have hf0 : ρc = [] := by
      have := congrArg List.length hkinds'
      rw [hctx] at this
      simpa [Mock.kindsOf] using this
    subst hf0
    have hr0 : r = 0 := by cases hB; rfl
    subst hr0
    rw [hctx] at hloadM hload
    have hA := step_load_empty P cfg4 _ hloadM
    rw [hstep] at hA
    injection hA with hA
    have hl0 : lcode = [] := by
      have : (load [] c.ctx).run kl = .ok ([], kl) := rfl
      rw [this] at hload
      injection hload with hload
      injection hload with e1 _
      exact e1.symm
    subst hl0
    rw [hctx] at hbody R'
    rw [List.nil_append] at hat4
    have hlow : ∀ t, t < 2 * (Γa.length + 1) → cfg'.temps.get t = cfg.temps.get t := by
      intro t ht
      rw [hA]
      simp only
      rw [get_clobberTemp _ (by unfold Mock.T_TEMP; omega), h4temps t ht]
    refine ⟨k4 + 1, cfg', st4, stR, hs, n4, stepsTo_trans P _ _ _ _ _ hst4 (stepsTo_one P _ _ hstep), hn4, T4,
      Scc.Heap.Refine.FrLe.refl hs, hout', hnext', R', ?_, kl', kb', body, hbody, hat4, ?_, ⟨n1, Xm, hn1lt, hn1, hreal1⟩, hmid4, hland4⟩
    · rw [List.append_nil]
      refine ⟨X4'.bnd, by omega, ?_, ?_, by rw [X4'.out, hA]; exact h4out.symm, X4'.frame, X4'.hrel, ?_⟩
      · intro i hi a0 ha
        rw [hlow _ (by omega)] at ha
        have := X4'.words i (by simp; omega) a0 ha
        rw [List.getElem_append_left hi] at this
        exact this
      · intro i hi hc r' hr'
        rw [hlow _ (by omega)] at hr'
        exact X4'.ptrs i (by simp; omega) (by rw [List.getElem_append_left hi]; exact hc) r' hr'
      · have e1 : cfg'.heap = cfg.heap := by rw [hA]; exact h4heap
        have e2 : cfg'.next = cfg.next := by rw [hA]; exact h4next
        have e3 : roots (c.ctx ++ [b]) cfg.temps = roots c.ctx cfg'.temps := by
          rw [roots_snoc]
          have : rootOf cfg.temps b c.ctx.length = [] := by
            unfold rootOf; rw [← hlenA, hr]; simp
          rw [this, List.append_nil]
          exact (roots_congr _ _ _ (fun i hi => hlow (2 * i) (by omega))).symm
        rw [e1, e2, ← e3]
        exact X4'.href
    · refine ⟨⟨fun t ht => hlow t (by omega), fun i hi => hmk4 _ (by omega) (by omega)⟩, Or.inl ⟨rfl, ?_⟩⟩
      rw [hA]; exact h4heap
  | cons b0 Δ =>
    rw [hctx] at hkinds'
    cases hB with
    | empty => simp [Mock.kindsOf] at hkinds'
    | block v vs _ o hr0 hg hF =>
      have hk : o.fields.map (·.chi) = Mock.kindsOf envCtx' := by
        rw [RepF.kinds hF, hctx]; exact hkinds'
      have hne : o.fields ≠ [] := by
        intro e
        rw [e, hctx] at hk
        simp [Mock.kindsOf] at hk
      have hr' : cfg.temps.get (2 * c.ctx.length) = some r := by rw [← hlenA]; exact hr
      have hr4 : cfg4.temps.get (2 * Γa.length) = some r := by rw [h4temps _ (by omega)]; exact hr
      have hg4 : cfg4.heap.get r.toNat = some o := by rw [h4heap]; exact hg
      have hk4 : o.fields.map (·.chi) = b0.chi :: Mock.kindsOf Δ := by rw [hk, hctx]; rfl
      have hloadM' : P.code[cfg4.pc]? = some (.load (b0.chi :: Mock.kindsOf Δ) Γa.length) := by
        rw [hloadM, hctx]; rfl
      -- the abstract step, explicitly
      have hexp : ∃ h', loadAbs cfg.heap r.toNat o = .ok h' ∧ cfg' =
          { cfg4 with pc := cfg4.pc + 1, temps := writeFields (clobberTemp cfg4.temps) o.fields Γa.length, heap := h' } := by
        by_cases hc0 : o.count = 0
        · have hA := step_load_unique P cfg4 _ _ _ r o hloadM' hr4 hr0 hg4 hk4 hc0
          rw [hstep] at hA
          injection hA with hA
          refine ⟨cfg.heap.remove r.toNat, ?_, by rw [hA, h4heap]⟩
          unfold loadAbs
          simp [hc0]
        · cases hsh : (cfg4.heap.set r.toNat { o with count := o.count - 1 }).shareAll o.children with
          | error e =>
            exfalso
            have h1 : (r == 0) = false := by rw [beq_eq_false_iff_ne]; exact hr0
            have h2 : (o.fields.map (·.chi) != b0.chi :: Mock.kindsOf Δ) = false := by rw [hk4]; exact kinds_bne_self _
            have h3 : (o.count == 0) = false := by rw [beq_eq_false_iff_ne]; exact hc0
            simp only [Abs.step, hloadM', getT, hr4, h1, hg4, h2, h3, hsh, Bool.false_eq_true, if_false,
              stuck] at hstep
            cases hstep
          | ok h' =>
            have hA := step_load_shared P cfg4 _ _ _ r o h' hloadM' hr4 hr0 hg4 hk4 hc0 hsh
            rw [hstep] at hA
            injection hA with hA
            refine ⟨h', ?_, hA⟩
            unfold loadAbs
            have : (o.count == 0) = false := by rw [beq_eq_false_iff_ne]; exact hc0
            rw [if_neg (by rw [this]; simp), ← h4heap]
            exact hsh
      obtain ⟨h', hlo, hcfg'⟩ := hexp
      rw [hlenA] at hcfg' h4temps hcapX'
      obtain ⟨code, kk', hrunL, _, _, st5, hs', hx5, hpc5, X5, hfrL, hkeep5, hval5⟩ :=
        load_x3 (la := px.labelAddr) H h8 X4' hbne hr' hr0 hg hk hne hcapX' h4next h4out h4temps hlo hcfg' kl
      have hcode' : code = lcode := by
        rw [hload] at hrunL
        injection hrunL with hrunL
        injection hrunL with e1 _
        exact e1.symm
      subst hcode'
      rw [← hmon] at hx5
      obtain ⟨n5, steps5, hn5, hm5s⟩ := x_steps_fwdM mon L hnd hat4.left hx5 (noCtx_load hload)
      have hLP : LoadProv F Γa.length envCtx' cfg cfg' κ st (setPS st5 (st4.pc + code.length) steps5) := by
        refine ⟨⟨fun t ht => ?_, fun i hi => ?_⟩, Or.inr ⟨r, o, hr, hr0, hg, hk, fun j hj => ⟨?_, ?_, ?_⟩⟩⟩
        · rw [hcfg']
          simp only
          rw [writeFields_get_low _ _ _ _ (by omega), get_clobberTemp _ (by unfold Mock.T_TEMP; omega),
            h4temps t (by omega)]
        · rw [tempVal_setPS, hkeep5 _ (by omega), hmk4 _ (by omega) (by omega)]
        · rw [hcfg', hlenA]; exact writeFields_get_val _ _ _ _ hj
        · rw [hcfg', hlenA]; exact writeFields_get_ptr _ _ _ _ hj
        · rw [tempVal_setPS, hlenA]; exact hval5 j hj
      rw [← hctx]
      rcases tol_run_midS mon L T4 hn5 hm5s with ⟨m5, hm5, hmm5⟩ | T5
      · exact ⟨k4 + 1, cfg', _, _, hs', _, stepsTo_trans P _ _ _ _ _ hst4 (stepsTo_one P _ _ hstep),
          stepN_trans mon px hn4 hm5, Tol.refl _ _, hfrL, hout', hnext', R', X3R.setPS X5 _ _, kl', kb', body,
          hbody, hat4.right, hLP, ⟨n1, Xm, by omega, hn1, hreal1⟩, Mid.trans hmid4 hn4 hmm5 (by omega), Or.inl rfl⟩
      · exact ⟨k4 + 1, cfg', _, stR, hs', _, stepsTo_trans P _ _ _ _ _ hst4 (stepsTo_one P _ _ hstep),
          hn4, T5, hfrL, hout', hnext', R', X3R.setPS X5 _ _, kl', kb', body, hbody, hat4.right, hLP,
          ⟨n1, Xm, hn1lt, hn1, hreal1⟩, hmid4, (by
            rcases hland4 with e | h
            · left
              have hle := T5.le
              have heq := T5.eq
              have hpc : stR.pc = (setPS st5 (st4.pc + code.length) steps5).pc := by
                have : stR.pc = st4.pc := by rw [e]
                simp only [setPS] at hle ⊢
                omega
              rw [heq, hpc]; rfl
            · exact Or.inr h)⟩

end Invoke3P

end Scc.X86.Ref.K
