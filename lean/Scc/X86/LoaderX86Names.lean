/-
  Scc.X86.LoaderX86Names — the x86-64 instance of `OpsNames` (LoaderNames.lean): every method of the
  x86-64 backend (Scc/X86/Backend.lean) returns only codes whose label operands pass the loader's symbol
  test and whose comments are free of line breaks (`nmB`), given that the labels it is handed do.
  Internal labels are `lab<n>` (`labName`), internal comments are literals or
  `#####check child <k> for erasure`.
  Consequence `routine_namesOK`: every item of the routine emitted for a program whose names are
  label-safe (`progNamesOK okcX`) passes `nmB`; with the operand ranges of ProofsWfProg.lean
  (`routine_rangesOK`) every item is `CodeOK`, hence the routine text LOADS (`routine_textLoads`).
  Proof file.
-/
import Scc.X86.LoaderNames
import Scc.X86.LoaderText

set_option linter.unusedVariables false
set_option linter.unusedSimpArgs false

namespace Scc.X86.Loader

open Scc.AxCut Scc.Backend Scc.X86

/-! ## the character class and the label test of the x86-64 loader -/

/-- characters of a symbol of the x86-64 loader that are not line breaks -/
def okcX (c : Char) : Bool := isSymChar c && c != '\n'

theorem okcSpecX : OkcSpec okcX where
  nl := by
    intro c h e; subst e; revert h; decide
  us := by decide
  digit := by
    intro c hc
    have h : ∀ d : Char, d.isDigit = true → d ≠ ' ' ∧ d ≠ ',' ∧ d ≠ '[' ∧ d ≠ ']' ∧ d ≠ ':' ∧ d ≠ ';' ∧ d ≠ '\n' := by
      intro d hd
      refine ⟨?_, ?_, ?_, ?_, ?_, ?_, ?_⟩ <;> (intro e; subst e; revert hd; decide)
    obtain ⟨h1, h2, h3, h4, h5, h6, h7⟩ := h c hc
    simp [okcX, isSymChar, h1, h2, h3, h4, h5, h6, h7]

/-- executable form of `symOKC l.toList` -/
def labOKB (l : String) : Bool :=
  !l.toList.isEmpty && l.toList.all okcX && (regOfName l).isNone && (parseInt l.toList).isNone

def comOKB (m : String) : Bool := m.toList.all (· != '\n')

theorem symOKC_of_labOKB {l : String} (h : labOKB l = true) : symOKC l.toList := by
  simp only [labOKB, Bool.and_eq_true, Bool.not_eq_true', List.all_eq_true, Option.isNone_iff_eq_none] at h
  obtain ⟨⟨⟨h1, h2⟩, h3⟩, h4⟩ := h
  refine ⟨?_, ?_, by rw [String.ofList_toList]; exact h3, h4⟩
  · intro e; rw [e] at h1; cases h1
  · intro c hc
    have := h2 c hc
    simp only [okcX, Bool.and_eq_true, bne_iff_ne, ne_eq] at this
    exact this

theorem noNL_of_comOKB {m : String} (h : comOKB m = true) : NoNL m := by
  simp only [comOKB, List.all_eq_true, bne_iff_ne, ne_eq] at h
  exact fun hm => h _ hm rfl

theorem comOKB_of_noNL {m : String} (h : NoNL m) : comOKB m = true := by
  simp only [comOKB, List.all_eq_true, bne_iff_ne, ne_eq]
  intro c hc e; subst e; exact h hc

/-- the strings of an item are text-safe -/
def nmB : Code → Bool
  | .JMPL l | .JMPLN l | .LEAL _ l | .JEL l | .JNEL l | .JLL l | .JLEL l | .JGL l | .JGEL l
  | .CALL l | .GLOBAL l | .LAB l | .EXTERN l => labOKB l
  | .COMMENT m => comOKB m
  | _ => true

abbrev NmOK (l : List Code) : Prop := l.all nmB = true

theorem nmOK_append {a b : List Code} : NmOK (a ++ b) ↔ NmOK a ∧ NmOK b := by
  simp [NmOK, List.all_append]

theorem nmOK_cons {c : Code} {l : List Code} : NmOK (c :: l) ↔ nmB c = true ∧ NmOK l := by
  simp [NmOK, List.all_cons]

theorem nmOK_nil : NmOK [] := rfl

theorem allP_iff {l : List Code} : AllP (fun c => nmB c = true) l ↔ NmOK l := by
  simp [AllP, NmOK, List.all_eq_true]

/-! ## labels of the generator pass the loader's test -/

theorem parseInt_chars {cs : List Char} {i : Int} (h : parseInt cs = some i) : ∀ c ∈ cs, immChar c = true := by
  unfold parseInt at h
  split at h
  · rename_i ds
    split at h
    · rename_i hd
      simp only [isDigitStr, Bool.and_eq_true, List.all_eq_true] at hd
      intro c hc
      simp only [List.mem_cons] at hc
      rcases hc with rfl | hc
      · rfl
      · simp [immChar, hd.2 c hc]
    · cases h
  · split at h
    · rename_i hd
      simp only [isDigitStr, Bool.and_eq_true, List.all_eq_true] at hd
      intro c hc
      simp [immChar, hd.2 c hc]
    · cases h

theorem labOKB_of_us {l : String} (h1 : StrOK okcX l) (h2 : '_' ∈ l.toList) : labOKB l = true := by
  simp only [labOKB, Bool.and_eq_true, Bool.not_eq_true', List.all_eq_true, Option.isNone_iff_eq_none]
  refine ⟨⟨⟨?_, h1⟩, ?_⟩, ?_⟩
  · cases hl : l.toList with
    | nil => rw [hl] at h2; simp at h2
    | cons _ _ => rfl
  · cases hr : regOfName l with
    | none => rfl
    | some r =>
      have hm := regOfName_some hr
      have : ∀ s ∈ regNames, '_' ∉ s.toList := by decide
      exact absurd h2 (this l hm)
  · cases hp : parseInt l.toList with
    | none => rfl
    | some i =>
      have := parseInt_chars hp '_' h2
      exact absurd this (by decide)

theorem labOKB_lab (n : Nat) : labOKB ("lab" ++ toString n) = true := by
  have hl : ("lab" ++ toString n).toList = 'l' :: 'a' :: 'b' :: Nat.toDigits 10 n := by
    rw [String.toList_append, natToString_toList]; rfl
  simp only [labOKB, Bool.and_eq_true, Bool.not_eq_true', List.all_eq_true, Option.isNone_iff_eq_none, hl]
  refine ⟨⟨⟨rfl, ?_⟩, ?_⟩, ?_⟩
  · intro c hc
    simp only [List.mem_cons] at hc
    rcases hc with rfl | rfl | rfl | hc
    · decide
    · decide
    · decide
    · exact okcSpecX.digit c (isDigit_toDigits n c hc)
  · have := regOfName_none_of_head (cs := ("lab" ++ toString n).toList) (by rw [hl]; simp)
    rw [String.ofList_toList] at this
    exact this
  · simp [parseInt, isDigitStr]

theorem labOKB_genLabel {l : String} (h : GenLabel okcX natRen l) : labOKB l = true := by
  rcases h with ⟨h1, h2⟩ | ⟨n, rfl⟩ | rfl
  · exact labOKB_of_us h1 h2
  · exact labOKB_lab n
  · decide

theorem labOKB_labName (n : Nat) : labOKB (labName n) = true := labOKB_lab n

/-! ## code.rs -/

theorem nm_moveFromRegister (t : Temporary) (r : Reg) : NmOK (moveFromRegister t r) := by
  unfold moveFromRegister; split <;> rfl
theorem nm_moveToRegister (r : Reg) (t : Temporary) : NmOK (moveToRegister r t) := by
  unfold moveToRegister; split <;> rfl
theorem nm_addToRegister (r : Reg) (t : Temporary) : NmOK (addToRegister r t) := by
  unfold addToRegister; split <;> rfl
theorem nm_addToSpill (p : Nat) (t : Temporary) : NmOK (addToSpill p t) := by
  unfold addToSpill; split <;> rfl
theorem nm_mulToRegister (r : Reg) (t : Temporary) : NmOK (mulToRegister r t) := by
  unfold mulToRegister; split <;> rfl
theorem nm_mulToSpill (p : Nat) (t : Temporary) : NmOK (mulToSpill p t) := by
  unfold mulToSpill; split <;> rfl
theorem nm_subToRegister (r : Reg) (t : Temporary) : NmOK (subToRegister r t) := by
  unfold subToRegister; split <;> rfl
theorem nm_subToSpill (p : Nat) (t : Temporary) : NmOK (subToSpill p t) := by
  unfold subToSpill; split <;> rfl

theorem nm_opCommutative {f : Reg → Temporary → List Code} {g : Nat → Temporary → List Code}
    (hf : ∀ r t, NmOK (f r t)) (hg : ∀ p t, NmOK (g p t)) (t s1 s2 : Temporary) :
    NmOK (opCommutative f g t s1 s2) := by
  unfold opCommutative
  split
  · split
    · exact hf _ _
    · split
      · exact hf _ _
      · exact nmOK_append.2 ⟨nm_moveToRegister _ _, hf _ _⟩
  · split
    · exact hg _ _
    · split
      · exact hg _ _
      · exact nmOK_append.2 ⟨nmOK_append.2 ⟨nm_moveToRegister _ _, hf _ _⟩, rfl⟩

theorem nm_sub (t s1 s2 : Temporary) : NmOK (sub t s1 s2) := by
  unfold sub
  split
  · split
    · exact nm_subToRegister _ _
    · split
      · exact nmOK_append.2 ⟨nmOK_append.2 ⟨nm_moveToRegister _ _, nm_subToRegister _ _⟩, rfl⟩
      · exact nmOK_append.2 ⟨nm_moveToRegister _ _, nm_subToRegister _ _⟩
  · split
    · exact nm_subToSpill _ _
    · exact nmOK_append.2 ⟨nmOK_append.2 ⟨nm_moveToRegister _ _, nm_subToRegister _ _⟩, rfl⟩

theorem nm_divBy (d : Temporary) : NmOK (divBy d) := by
  unfold divBy
  split
  · split <;> rfl
  · rfl

theorem nm_compare (a b : Temporary) : NmOK (compare a b) := by
  unfold compare; split <;> rfl

theorem nm_compareImmediate (t : Temporary) (i : Int) : NmOK (compareImmediate t i) := by
  unfold compareImmediate; split <;> rfl

theorem nm_div (t s1 s2 : Temporary) : NmOK (div t s1 s2) := by
  unfold div
  simp only [nmOK_append]
  exact ⟨⟨⟨⟨⟨⟨⟨rfl, nm_moveFromRegister _ _⟩, nm_moveToRegister _ _⟩, nm_divBy _⟩, rfl⟩,
    nm_moveToRegister _ _⟩, nm_moveFromRegister _ _⟩, rfl⟩

theorem nm_rem (t s1 s2 : Temporary) : NmOK (rem t s1 s2) := by
  unfold rem
  simp only [nmOK_append]
  exact ⟨⟨⟨⟨⟨⟨rfl, nm_moveFromRegister _ _⟩, nm_moveToRegister _ _⟩, nm_divBy _⟩,
    nm_moveToRegister _ _⟩, nm_moveFromRegister _ _⟩, rfl⟩

theorem nm_binop (o : BinOp) (t s1 s2 : Temporary) : NmOK (binop o t s1 s2) := by
  cases o
  · exact nm_div t s1 s2
  · exact nm_opCommutative nm_mulToRegister nm_mulToSpill t s1 s2
  · exact nm_rem t s1 s2
  · exact nm_opCommutative nm_addToRegister nm_addToSpill t s1 s2
  · exact nm_sub t s1 s2

theorem nm_mov (t s : Temporary) : NmOK (mov t s) := by
  unfold mov
  split
  · exact nm_moveFromRegister _ _
  · split
    · exact nm_moveToRegister _ _
    · exact nmOK_append.2 ⟨nm_moveToRegister _ _, nm_moveFromRegister _ _⟩

theorem nm_jump (t : Temporary) : NmOK (jump t) := by
  unfold jump; split <;> rfl

theorem nm_condJump (s : IfSort) {l : String} (h : labOKB l = true) : nmB (condJump s l) = true := by
  cases s <;> exact h

theorem nm_jumpLabelIf (s : IfSort) (a b : Temporary) {l : String} (h : labOKB l = true) :
    NmOK (jumpLabelIf s a b l) := by
  unfold jumpLabelIf
  exact nmOK_append.2 ⟨nm_compare _ _, nmOK_cons.2 ⟨nm_condJump s h, nmOK_nil⟩⟩

theorem nm_jumpLabelIfZero (s : IfSort) (a : Temporary) {l : String} (h : labOKB l = true) :
    NmOK (jumpLabelIfZero s a l) := by
  unfold jumpLabelIfZero
  exact nmOK_append.2 ⟨nm_compareImmediate _ _, nmOK_cons.2 ⟨nm_condJump s h, nmOK_nil⟩⟩

theorem nm_loadImmediate (t : Temporary) (i : Int) : NmOK (loadImmediate t i) := by
  unfold loadImmediate
  split
  · rfl
  · split <;> rfl

theorem nm_loadLabel (t : Temporary) {l : String} (h : labOKB l = true) : NmOK (loadLabel t l) := by
  unfold loadLabel
  split
  · exact nmOK_cons.2 ⟨h, nmOK_nil⟩
  · exact nmOK_cons.2 ⟨h, rfl⟩

theorem nm_addAndJump (t : Temporary) (i : Int) : NmOK (addAndJump t i) := by
  unfold addAndJump; split <;> rfl

theorem nm_storeTemporary (t : Temporary) (sp : Bool) : NmOK (storeTemporary t sp) := by
  unfold storeTemporary
  split
  · split <;> rfl
  · cases sp <;> rfl

theorem nm_restoreTemporary (t : Temporary) (sp : Bool) : NmOK (restoreTemporary t sp) := by
  unfold restoreTemporary
  split
  · split <;> rfl
  · cases sp <;> rfl

theorem nm_map_of {α : Type} (f : α → Code) (h : ∀ a, nmB (f a) = true) (l : List α) : NmOK (l.map f) := by
  simp only [NmOK, List.all_map, List.all_eq_true, Function.comp]
  exact fun a _ => h a

theorem nm_saveCallerSaveRegisters (first : Nat) (L : List Nat) : NmOK (saveCallerSaveRegisters first L) := by
  unfold saveCallerSaveRegisters
  simp only [nmOK_append]
  refine ⟨⟨nm_map_of _ (fun _ => rfl) _, nm_map_of _ (fun _ => rfl) _⟩, ?_⟩
  split <;> rfl

theorem nm_restoreCallerSaveRegisters (first : Nat) (L : List Nat) :
    NmOK (restoreCallerSaveRegisters first L) := by
  unfold restoreCallerSaveRegisters
  simp only [nmOK_append]
  refine ⟨⟨nm_map_of _ (fun _ => rfl) _, ?_⟩, nm_map_of _ (fun _ => rfl) _⟩
  split <;> rfl

theorem nm_printI64 (nl : Bool) (t : Temporary) (ctx : Ctx) : NmOK (printI64 nl t ctx) := by
  unfold printI64
  simp only [nmOK_append]
  refine ⟨⟨⟨⟨⟨⟨?_, by decide⟩, nm_saveCallerSaveRegisters _ _⟩, by decide⟩, ?_⟩, ?_⟩,
    nm_restoreCallerSaveRegisters _ _⟩
  · split
    · exact nmOK_append.2 ⟨by decide, nm_moveToRegister _ _⟩
    · rfl
  · split <;> rfl
  · cases nl <;> decide

/-! ## memory.rs -/

abbrev PostNm (m : GenM (List Code)) : Prop := Post m NmOK

theorem postNm_skipIfZero (cond : Temporary) {body : List Code} (hb : NmOK body) :
    PostNm (skipIfZero cond body) := by
  unfold skipIfZero
  refine Post.bind (Post.true _) fun l _ => Post.pure ?_
  simp only [nmOK_append]
  exact ⟨⟨⟨nm_compareImmediate _ _, nmOK_cons.2 ⟨labOKB_labName l, nmOK_nil⟩⟩, hb⟩,
    nmOK_cons.2 ⟨labOKB_labName l, nmOK_nil⟩⟩

theorem postNm_ifZeroThenElse (cond : Nat) (offset : Option Int) {tb eb : List Code} (ht : NmOK tb)
    (he : NmOK eb) : PostNm (ifZeroThenElse cond offset tb eb) := by
  unfold ifZeroThenElse
  refine Post.bind (Post.true _) fun l1 _ => Post.bind (Post.true _) fun l2 _ => Post.pure ?_
  have hcmp : nmB (match offset with
      | some off => Code.CMPIM cond off 0
      | none => Code.CMPI cond 0) = true := by
    cases offset <;> rfl
  simp only [nmOK_append]
  exact ⟨⟨⟨⟨nmOK_cons.2 ⟨hcmp, nmOK_cons.2 ⟨labOKB_labName l1, nmOK_nil⟩⟩, he⟩,
    nmOK_cons.2 ⟨labOKB_labName l2, nmOK_cons.2 ⟨labOKB_labName l1, nmOK_nil⟩⟩⟩, ht⟩,
    nmOK_cons.2 ⟨labOKB_labName l2, nmOK_nil⟩⟩

theorem postNm_eraseValidObject (r : Nat) : PostNm (eraseValidObject r) := by
  unfold eraseValidObject
  exact postNm_ifZeroThenElse _ _ (nmOK_cons.2 ⟨by decide, rfl⟩) (nmOK_cons.2 ⟨by decide, rfl⟩)

theorem postNm_eraseBlock (t : Temporary) : PostNm (eraseBlock t) := by
  unfold eraseBlock
  cases t with
  | reg r =>
    exact Post.bind (postNm_eraseValidObject _) fun c hc =>
      postNm_skipIfZero _ (nmOK_append.2 ⟨by decide, hc⟩)
  | spill p =>
    exact Post.bind (postNm_eraseValidObject _) fun c hc =>
      Post.bind (postNm_skipIfZero _ (nmOK_append.2 ⟨by decide, hc⟩)) fun r hr =>
        Post.pure (nmOK_append.2 ⟨rfl, hr⟩)

theorem postNm_shareBlockN (t : Temporary) (n : Nat) : PostNm (shareBlockN t n) := by
  unfold shareBlockN
  cases t with
  | reg r => exact postNm_skipIfZero _ (nmOK_append.2 ⟨by decide, rfl⟩)
  | spill p => exact postNm_skipIfZero _ (nmOK_append.2 ⟨by decide, rfl⟩)

theorem postNm_shareBlock (t : Temporary) : PostNm (shareBlock t) := postNm_shareBlockN t 1

theorem comOKB_checkChild (k : Nat) : comOKB ("#####check child " ++ toString k ++ " for erasure") = true :=
  comOKB_of_noNL (noNL_append.2 ⟨noNL_append.2 ⟨by decide, noNL_natToString k⟩, by decide⟩)

theorem postNm_eraseFields (r : Nat) : ∀ (n offset : Nat), PostNm (eraseFields r n offset)
  | 0, _ => by unfold eraseFields; exact Post.pure nmOK_nil
  | n + 1, offset => by
    unfold eraseFields
    exact Post.bind (postNm_eraseBlock _) fun c hc =>
      Post.bind (postNm_eraseFields r n (offset + 1)) fun rest hrest =>
        Post.pure (nmOK_append.2 ⟨nmOK_append.2
          ⟨nmOK_cons.2 ⟨comOKB_checkChild _, rfl⟩, hc⟩, hrest⟩)

theorem postNm_acquireBlock (t : Temporary) : PostNm (acquireBlock t) := by
  unfold acquireBlock
  dsimp only
  have hhead : ∀ (u : Temporary), NmOK (match u with
      | .reg newBlockRegister => [Code.MOV newBlockRegister HEAP]
      | .spill newBlockPosition => [Code.MOV TEMP HEAP, Code.MOVS HEAP STACK (stackOffset newBlockPosition)]) := by
    intro u; cases u <;> rfl
  have hinit : ∀ (u : Temporary), nmB (match u with
      | .reg newBlockRegister => Code.MOVIM newBlockRegister REFERENCE_COUNT_OFFSET 0
      | .spill _ => Code.MOVIM TEMP REFERENCE_COUNT_OFFSET 0) = true := by
    intro u; cases u <;> rfl
  refine Post.bind (postNm_eraseFields _ _ _) fun erased he => ?_
  refine Post.bind (postNm_ifZeroThenElse _ _ (by decide)
    (nmOK_append.2 ⟨by decide, he⟩)) fun inner hi => ?_
  refine Post.bind (postNm_ifZeroThenElse _ _ (nmOK_append.2 ⟨by decide, hi⟩)
    (nmOK_cons.2 ⟨by decide, nmOK_cons.2 ⟨hinit t, nmOK_nil⟩⟩)) fun outer ho => ?_
  exact Post.pure (nmOK_append.2 ⟨nmOK_append.2 ⟨hhead t, by decide⟩, ho⟩)

theorem nm_releaseBlock (r : Nat) : NmOK (releaseBlock r) := rfl

theorem nm_storeZero (r off : Nat) : NmOK (storeZero r off) := rfl

theorem nm_storeZeros (k r : Nat) : NmOK (storeZeros k r) := by
  unfold storeZeros
  simp only [NmOK, List.all_eq_true]
  intro c hc
  obtain ⟨l, hl, hcl⟩ := List.mem_flatten.1 hc
  obtain ⟨o, _, rfl⟩ := List.mem_map.1 hl
  simp only [storeZero, List.mem_singleton] at hcl
  subst hcl; rfl

theorem postNm_storeField (n : TempNum) (ctx : Ctx) (r off : Nat) : PostNm (storeField n ctx r off) := by
  unfold storeField
  refine Post.bind (Post.true _) fun t _ => ?_
  cases t <;> exact Post.pure rfl

theorem postNm_loadField (n : TempNum) (ctx : Ctx) (r off : Nat) : PostNm (loadField n ctx r off) := by
  unfold loadField
  refine Post.bind (Post.true _) fun t _ => ?_
  cases t <;> exact Post.pure rfl

theorem postNm_storeValue (b : Binding) (ctx : Ctx) (r off : Nat) : PostNm (storeValue b ctx r off) := by
  unfold storeValue
  refine Post.bind (postNm_storeField _ _ _ _) fun c1 h1 => ?_
  split
  · exact Post.pure (nmOK_append.2 ⟨h1, nm_storeZero _ _⟩)
  · exact Post.bind (postNm_storeField _ _ _ _) fun c2 h2 => Post.pure (nmOK_append.2 ⟨h1, h2⟩)

theorem postNm_loadValue (b : Binding) (ctx : Ctx) (r off : Nat) (mode : LoadMode) :
    PostNm (loadValue b ctx r off mode) := by
  unfold loadValue
  refine Post.bind (postNm_loadField _ _ _ _) fun c1 h1 => ?_
  split
  · refine Post.bind (postNm_loadField _ _ _ _) fun c2 h2 => ?_
    refine Post.bind (Post.true _) fun t _ => ?_
    dsimp only
    by_cases hm : mode = LoadMode.share
    · rw [if_pos hm]
      exact Post.bind (postNm_shareBlock _) fun c3 h3 =>
        Post.pure (nmOK_append.2 ⟨nmOK_append.2 ⟨h1, h2⟩, h3⟩)
    · rw [if_neg hm]
      exact Post.pure (nmOK_append.2 ⟨h1, h2⟩)
  · exact Post.pure h1

theorem postNm_storeValuesLoop (ctx : Ctx) (r : Nat) : ∀ (l : List Binding) (ff : Nat),
    Post (storeValuesLoop ctx r l ff) (fun res => NmOK res.1)
  | [], ff => by unfold storeValuesLoop; exact Post.pure nmOK_nil
  | b :: rest, ff => by
    unfold storeValuesLoop
    refine Post.bind (Post.true _) fun off _ => ?_
    refine Post.bind (postNm_storeValue _ _ _ _) fun c hc => ?_
    refine Post.bind (postNm_storeValuesLoop ctx r rest off) fun res hres => ?_
    obtain ⟨cs, ff'⟩ := res
    exact Post.pure (nmOK_append.2 ⟨hc, hres⟩)

theorem postNm_storeValues (toStore ctx : Ctx) (r ff : Nat) : PostNm (storeValues toStore ctx r ff) := by
  unfold storeValues
  refine Post.bind (postNm_storeValuesLoop _ _ _ _) fun res hres => ?_
  obtain ⟨cs, ff'⟩ := res
  refine Post.pure ?_
  simp only [nmOK_append]
  refine ⟨⟨⟨by decide, hres⟩, ?_⟩, nm_storeZeros _ _⟩
  split
  · decide
  · rfl

theorem postNm_loadValuesLoop (ctx : Ctx) (r : Nat) (mode : LoadMode) : ∀ (l : List Binding) (ff : Nat),
    PostNm (loadValuesLoop ctx r mode l ff)
  | [], ff => by unfold loadValuesLoop; exact Post.pure nmOK_nil
  | b :: rest, ff => by
    unfold loadValuesLoop
    refine Post.bind (Post.true _) fun off _ => ?_
    refine Post.bind (postNm_loadValue _ _ _ _ _) fun c hc => ?_
    refine Post.bind (postNm_loadValuesLoop ctx r mode rest off) fun cs hcs => ?_
    exact Post.pure (nmOK_append.2 ⟨hc, hcs⟩)

theorem postNm_loadValues (toLoad ctx : Ctx) (r ff : Nat) (mode : LoadMode) :
    PostNm (loadValues toLoad ctx r ff mode) := by
  unfold loadValues
  exact Post.bind (postNm_loadValuesLoop _ _ _ _ _) fun cs hcs =>
    Post.pure (nmOK_append.2 ⟨by decide, hcs⟩)

theorem postNm_storeFields : ∀ (fuel : Nat) (toStore ctx : Ctx) (pos : BlockPosition),
    PostNm (storeFields fuel toStore ctx pos)
  | 0, _, _, _ => by unfold storeFields; exact Post.throw
  | fuel + 1, toStore, ctx, pos => by
    unfold storeFields
    split
    · split
      · exact Post.bind (Post.true _) fun t _ =>
          Post.pure (nmOK_append.2 ⟨by decide, nm_loadImmediate _ _⟩)
      · exact Post.pure nmOK_nil
    · have hrest : ∀ c1, NmOK c1 → PostNm (do
          let c3 ← storeValues (toStore.drop (restLength toStore.length pos))
            (ctx ++ toStore.take (restLength toStore.length pos)) HEAP (FIELDS_PER_BLOCK - pos.toNat)
          let t ← freshTemporary .fst (ctx ++ toStore.take (restLength toStore.length pos))
          let c4 ← acquireBlock t
          let c5 ← storeFields fuel (toStore.take (restLength toStore.length pos)) ctx .other
          pure (c1 ++ (if pos = .last then [Code.COMMENT "#allocate memory"] else []) ++ c3 ++
            [Code.COMMENT "##acquire free block from heap register"] ++ c4 ++ c5)) := by
        intro c1 h1
        refine Post.bind (postNm_storeValues _ _ _ _) fun c3 h3 => ?_
        refine Post.bind (Post.true _) fun t _ => ?_
        refine Post.bind (postNm_acquireBlock _) fun c4 h4 => ?_
        refine Post.bind (postNm_storeFields fuel _ _ _) fun c5 h5 => ?_
        refine Post.pure ?_
        simp only [nmOK_append]
        refine ⟨⟨⟨⟨⟨h1, ?_⟩, h3⟩, by decide⟩, h4⟩, h5⟩
        split
        · decide
        · rfl
      dsimp only
      split
      · exact Post.bind (postNm_storeField _ _ _ _) fun c hc =>
          Post.bind (Post.pure (nmOK_append.2 ⟨by decide, hc⟩)) fun c1 h1 => hrest c1 h1
      · exact Post.bind (Post.pure nmOK_nil) fun c1 h1 => hrest c1 h1

theorem postNm_store (toStore ctx : Ctx) : PostNm (store toStore ctx) := postNm_storeFields _ _ _ _

theorem postNm_loadFieldsBlock (r : Nat) (toLoadNext c1 c2 : Ctx) (pos : BlockPosition) (mode : LoadMode) :
    PostNm (loadFieldsBlock r toLoadNext c1 c2 pos mode) := by
  unfold loadFieldsBlock
  have h1 : NmOK (if mode = .release then
      [Code.COMMENT "###release block"] ++ releaseBlock r else []) := by
    split
    · exact nmOK_append.2 ⟨by decide, nm_releaseBlock _⟩
    · rfl
  dsimp only
  split
  · refine Post.bind (postNm_loadField _ _ _ _) fun c hc =>
      Post.bind (Post.pure (nmOK_append.2 ⟨by decide, hc⟩)) fun c2' h2 => ?_
    exact Post.bind (postNm_loadValues _ _ _ _ _) fun c3 h3 =>
      Post.pure (nmOK_append.2 ⟨nmOK_append.2 ⟨h1, h2⟩, h3⟩)
  · refine Post.bind (Post.pure nmOK_nil) fun c2' h2 => ?_
    exact Post.bind (postNm_loadValues _ _ _ _ _) fun c3 h3 =>
      Post.pure (nmOK_append.2 ⟨nmOK_append.2 ⟨h1, h2⟩, h3⟩)

theorem postNm_loadFields : ∀ (fuel : Nat) (toLoad ctx : Ctx) (pos : BlockPosition) (mode : LoadMode)
    (freed : Bool), Post (loadFields fuel toLoad ctx pos mode freed) (fun res => NmOK res.1)
  | 0, _, _, _, _, _ => by unfold loadFields; exact Post.throw
  | fuel + 1, toLoad, ctx, pos, mode, freed => by
    unfold loadFields
    split
    · exact Post.pure nmOK_nil
    · refine Post.bind (postNm_loadFields fuel _ _ _ _ _) fun res hres => ?_
      obtain ⟨c0, freed'⟩ := res
      dsimp only
      refine Post.bind (Post.true _) fun mb _ => ?_
      cases mb with
      | reg r =>
        dsimp only
        exact Post.bind (postNm_loadFieldsBlock _ _ _ _ _ _) fun c hc =>
          Post.pure (nmOK_append.2 ⟨hres, hc⟩)
      | spill p =>
        dsimp only
        refine Post.bind (postNm_loadFieldsBlock _ _ _ _ _ _) fun c hc => Post.pure ?_
        simp only [nmOK_append]
        refine ⟨⟨⟨⟨hres, ?_⟩, rfl⟩, hc⟩, ?_⟩
        · split
          · decide
          · rfl
        · split
          · decide
          · rfl

theorem postNm_loadRegister (r : Nat) (toLoad ctx : Ctx) : PostNm (loadRegister r toLoad ctx) := by
  unfold loadRegister
  refine Post.bind (postNm_loadFields _ _ _ _ _ _) fun res1 h1 => ?_
  obtain ⟨cThen, f1⟩ := res1
  dsimp only
  refine Post.bind (postNm_loadFields _ _ _ _ _ _) fun res2 h2 => ?_
  obtain ⟨cElse, f2⟩ := res2
  dsimp only
  refine Post.bind (postNm_ifZeroThenElse _ _ (nmOK_append.2 ⟨by decide, h1⟩)
    (nmOK_append.2 ⟨nmOK_cons.2 ⟨by decide, rfl⟩, h2⟩)) fun c hc => ?_
  exact Post.pure (nmOK_append.2 ⟨by decide, hc⟩)

theorem postNm_load (toLoad ctx : Ctx) : PostNm (load toLoad ctx) := by
  unfold load
  split
  · exact Post.pure nmOK_nil
  · refine Post.bind (Post.true _) fun mb _ => ?_
    cases mb with
    | reg r =>
      exact Post.bind (postNm_loadRegister _ _ _) fun c hc => Post.pure (nmOK_append.2 ⟨by decide, hc⟩)
    | spill p =>
      exact Post.bind (postNm_loadRegister _ _ _) fun c hc =>
        Post.pure (nmOK_append.2 ⟨nmOK_cons.2 ⟨by decide, rfl⟩, hc⟩)

/-! ## the instance -/

theorem allP_of_nm {l : List Code} (h : NmOK l) : AllP (fun c => nmB c = true) l := allP_iff.2 h

theorem opsNames_x86 : OpsNames x86Backend (fun c => nmB c = true) (GenLabel okcX natRen) where
  comment := fun m hm => comOKB_of_noNL hm
  label := fun l hl => labOKB_genLabel hl
  jump := fun t => allP_of_nm (nm_jump t)
  jumpLabel := fun l hl => allP_of_nm (nmOK_cons.2 ⟨labOKB_genLabel hl, nmOK_nil⟩)
  jumpLabelFixed := fun l hl => allP_of_nm (nmOK_cons.2 ⟨labOKB_genLabel hl, nmOK_nil⟩)
  jumpLabelIf := fun s a b l hl => allP_of_nm (nm_jumpLabelIf s a b (labOKB_genLabel hl))
  jumpLabelIfZero := fun s a l hl => allP_of_nm (nm_jumpLabelIfZero s a (labOKB_genLabel hl))
  loadImmediate := fun t n => allP_of_nm (nm_loadImmediate t n)
  loadLabel := fun t l hl => allP_of_nm (nm_loadLabel t (labOKB_genLabel hl))
  addAndJump := fun t k => allP_of_nm (nm_addAndJump t k)
  binop := fun o t s1 s2 => allP_of_nm (nm_binop o t s1 s2)
  mov := fun t s => allP_of_nm (nm_mov t s)
  printI64 := fun nl t ctx => Post.pure (allP_of_nm (nm_printI64 nl t ctx))
  eraseBlock := fun t => (postNm_eraseBlock t).mono fun _ => allP_of_nm
  shareBlockN := fun t n => (postNm_shareBlockN t n).mono fun _ => allP_of_nm
  store := fun a b => (postNm_store a b).mono fun _ => allP_of_nm
  load := fun a b => (postNm_load a b).mono fun _ => allP_of_nm
  storeTemporary := fun t sp => allP_of_nm (nm_storeTemporary t sp)
  restoreTemporary := fun t sp => allP_of_nm (nm_restoreTemporary t sp)

/-! ## whole programs -/

/-- the names of every item of the body emitted for a program with label-safe names are text-safe -/
theorem compile_namesOK {p : AxCut.Prog} {hooks : Bool} {c0 : Nat} {body : List Code} {nargs : Nat}
    (hp : progNamesOK okcX p = true) (h : compileX86 p hooks c0 = .ok (body, nargs)) : NmOK body := by
  unfold compileX86 at h
  split at h
  · cases h
  · rename_i r c' hr
    cases h
    exact allP_iff.1 (post_compileR_names okcSpecX (fun n => strOK_natToString okcSpecX n) opsNames_x86
      hooks p hp c0 _ c' hr)

theorem nm_moveArguments : ∀ (n : Nat) (codes : List Code), moveArguments n = .ok codes → NmOK codes
  | 0, codes, h => by simp only [moveArguments] at h; cases h; decide
  | 1, codes, h => by
    simp only [moveArguments] at h
    split at h
    · cases h; exact nmOK_cons.2 ⟨by decide, rfl⟩
    · cases h
  | n + 2, codes, h => by
    simp only [moveArguments] at h
    split at h
    · cases h
    · split at h
      · rename_i rest hrest
        cases h
        exact nmOK_append.2 ⟨nmOK_cons.2 ⟨by decide, rfl⟩, nm_moveArguments (n + 1) _ hrest⟩
      · cases h

theorem nm_setup {n : Nat} {codes : List Code} (h : setup n = .ok codes) : NmOK codes := by
  unfold setup at h
  split at h
  · cases h
  · rename_i moves hm
    cases h
    simp only [nmOK_append]
    exact ⟨⟨⟨by decide, nm_map_of _ (fun _ => rfl) _⟩, by decide⟩, nm_moveArguments _ _ hm⟩

theorem nm_cleanup : NmOK cleanup := by
  unfold cleanup
  simp only [nmOK_append]
  exact ⟨⟨by decide, nm_map_of _ (fun _ => rfl) _⟩, rfl⟩

theorem routine_namesOK {p : AxCut.Prog} {hooks : Bool} {c0 : Nat} {body routine : List Code} {nargs : Nat}
    (hp : progNamesOK okcX p = true) (h : compileX86 p hooks c0 = .ok (body, nargs))
    (hr : intoRoutine body nargs = .ok routine) : NmOK routine := by
  have hb := compile_namesOK hp h
  unfold intoRoutine at hr
  split at hr
  · cases hr
  · rename_i su hsu
    cases hr
    simp only [nmOK_append]
    exact ⟨⟨⟨⟨⟨by decide, by decide⟩, nm_setup hsu⟩, by decide⟩, hb⟩, nm_cleanup⟩

/-- registers in range and names text-safe: the item is `CodeOK` -/
theorem codeOK_of_range_names {c : Code} (hr : ∀ r ∈ codeRegs c, r < 16) (hn : nmB c = true) : CodeOK c := by
  refine ⟨hr, ?_, ?_, ?_, ?_⟩
  · intro l hl
    cases c <;> simp only [codeLabelRef] at hl <;> first | (cases hl; exact symOKC_of_labOKB hn) | cases hl
  · intro l hl
    cases c <;> simp only [codeLabelDef] at hl <;> first | (cases hl; exact symOKC_of_labOKB hn) | cases hl
  · intro f hf; subst hf; exact symOKC_of_labOKB hn
  · intro m hm; subst hm; exact noNL_of_comOKB hn

/-- **the routine the backend model emits for a program in range with label-safe names LOADS**: the
    machine's parser reads its printed text back, up to the text of comments — for every program, no
    evaluation -/
theorem routine_textLoads {p : AxCut.Prog} {hooks : Bool} {c0 : Nat} {body routine : List Code} {nargs : Nat}
    (hrange : ProgInRange p) (hp : progNamesOK okcX p = true)
    (h : compileX86 p hooks c0 = .ok (body, nargs)) (hr : intoRoutine body nargs = .ok routine) :
    ∃ items, parseText (printProg routine) = .ok items ∧
      (items.map (·.1)).map stripC = routine.map stripC := by
  have hn := routine_namesOK hp h hr
  have hrg := routine_rangesOK hrange h hr
  apply parseText_printProg
  intro c hc
  simp only [NmOK, List.all_eq_true] at hn
  exact codeOK_of_range_names (hrg c hc).1 (hn c hc)

end Scc.X86.Loader
