/-
  Scc.X86.RefHeapAddr — byte addresses of the items of a loaded routine (Machine.lean `layoutFrom`,
  `mkAddrIdx`): needed for the COMPUTED jumps of `switch` (`lea TEMP, [table]; add TEMP, tag; jmp TEMP`
  lands on the `tag/5`-th `jmp` of the table, each of which is 5 bytes long).
  * `addrAt base cs i`: the address of item `i`.
  * `LoadedA c p cs`: `Loaded p cs` (RefBridge.lean) together with the address table and the
    address ↦ index map of the program; `loadedA_mkProg`: what `mkProg` builds is loaded in this sense.
  * `step_jumpAddr`: the machine's transition for a jump through a register.
-/
import Scc.X86.RefHeapBridge
import Scc.X86.RefInit

set_option linter.unusedVariables false
set_option linter.unusedSimpArgs false

namespace Scc.X86.Ref

open Scc.AxCut Scc.Backend Scc.X86

/-- byte address of item `i` of `cs` when the first item is placed at `base` -/
def addrAt (base : Nat) (cs : List Code) (i : Nat) : Nat := base + ((cs.take i).map codeSize).sum

theorem addrAt_zero (base : Nat) (cs : List Code) : addrAt base cs 0 = base := by simp [addrAt]

theorem addrAt_succ (base : Nat) (cs : List Code) (i : Nat) (h : i < cs.length) :
    addrAt base cs (i + 1) = addrAt base cs i + codeSize cs[i] := by
  unfold addrAt
  rw [List.take_succ_eq_append_getElem h, List.map_append, List.sum_append]
  simp [Nat.add_assoc]

theorem addrAt_cons (base : Nat) (c : Code) (cs : List Code) (i : Nat) :
    addrAt base (c :: cs) (i + 1) = addrAt (base + codeSize c) cs i := by
  simp [addrAt, Nat.add_assoc]

theorem addrAt_append_right (base : Nat) (a b : List Code) (j : Nat) :
    addrAt base (a ++ b) (a.length + j) = addrAt (addrAt base a a.length) b j := by
  unfold addrAt
  rw [List.take_append, List.take_length]
  simp [List.take_of_length_le, Nat.add_assoc]

theorem addrAt_mono (base : Nat) (cs : List Code) {i j : Nat} (h : i ≤ j) : addrAt base cs i ≤ addrAt base cs j := by
  induction j with
  | zero => have : i = 0 := by omega
            subst this; exact Nat.le_refl _
  | succ j ih =>
    by_cases e : i = j + 1
    · subst e; exact Nat.le_refl _
    · have h1 := ih (by omega)
      by_cases hj : j < cs.length
      · rw [addrAt_succ _ _ _ hj]; omega
      · have : addrAt base cs (j + 1) = addrAt base cs j := by
          unfold addrAt
          rw [List.take_of_length_le (by omega), List.take_of_length_le (by omega)]
        omega

theorem layoutFrom_get : ∀ (cs : List Code) (a i : Nat), i < cs.length →
    (layoutFrom a cs)[i]? = some (addrAt a cs i)
  | [], _, _, h => by simp at h
  | c :: cs, a, 0, _ => by simp [layoutFrom, addrAt]
  | c :: cs, a, i + 1, h => by
    simp only [layoutFrom, List.getElem?_cons_succ]
    rw [layoutFrom_get cs (a + codeSize c) i (by simpa using h), addrAt_cons]

theorem layoutFrom_length : ∀ (cs : List Code) (a : Nat), (layoutFrom a cs).length = cs.length
  | [], _ => rfl
  | c :: cs, a => by simp [layoutFrom, layoutFrom_length cs]

/-! ## the address ↦ index map -/

def addrF (m : Std.HashMap Nat Nat) (cai : (Code × Nat) × Nat) : Std.HashMap Nat Nat :=
  if codeSize cai.1.1 = 0 then m else m.insert cai.1.2 cai.2

theorem mkAddrIdx_eq (cs : List Code) (addrs : List Nat) :
    mkAddrIdx cs addrs = ((cs.zip addrs).zipIdx.foldl addrF ∅) := rfl

/-- folding over items laid out from address `A` on: a lookup at an address below `A` is not affected;
the sized item at index `i` is found at its address -/
theorem addrF_fold : ∀ (cs : List Code) (A k : Nat) (m : Std.HashMap Nat Nat),
    (∀ a, a < A → (((cs.zip (layoutFrom A cs)).zipIdx k).foldl addrF m)[a]? = m[a]?) ∧
    (∀ i (h : i < cs.length), codeSize cs[i] ≠ 0 →
      (((cs.zip (layoutFrom A cs)).zipIdx k).foldl addrF m)[addrAt A cs i]? = some (k + i))
  | [], A, k, m => ⟨fun _ _ => rfl, fun i h => by simp at h⟩
  | c :: cs, A, k, m => by
    simp only [layoutFrom, List.zip_cons_cons, List.zipIdx_cons, List.foldl_cons]
    obtain ⟨ih1, ih2⟩ := addrF_fold cs (A + codeSize c) (k + 1) (addrF m ((c, A), k))
    constructor
    · intro a ha
      rw [ih1 a (by omega)]
      unfold addrF
      simp only
      split
      · rfl
      · rw [Std.HashMap.getElem?_insert]
        have : (A == a) = false := by simp; omega
        simp [this]
    · intro i hi hsz
      cases i with
      | zero =>
        simp only [List.getElem_cons_zero] at hsz
        rw [addrAt_zero, ih1 A (by omega)]
        unfold addrF
        simp only [hsz, if_false]
        rw [Std.HashMap.getElem?_insert_self]
        simp
      | succ i =>
        simp only [List.getElem_cons_succ] at hsz
        rw [addrAt_cons, ih2 i (by simpa using hi) hsz]
        congr 1
        omega

theorem mkAddrIdx_get (cs : List Code) (base i : Nat) (h : i < cs.length) (hsz : codeSize cs[i] ≠ 0) :
    (mkAddrIdx cs (layoutFrom base cs))[addrAt base cs i]? = some i := by
  rw [mkAddrIdx_eq, show (cs.zip (layoutFrom base cs)).zipIdx = (cs.zip (layoutFrom base cs)).zipIdx 0 from rfl]
  have := (addrF_fold cs base 0 ∅).2 i h hsz
  simpa using this

/-! ## loaded with addresses -/

/-- sizes do not depend on the text of comments -/
theorem map_codeSize_strip {a b : List Code} (h : a.map stripC = b.map stripC) :
    a.map codeSize = b.map codeSize := by
  have : ∀ l : List Code, l.map codeSize = (l.map stripC).map codeSize := by
    intro l
    rw [List.map_map]
    apply List.map_congr_left
    intro c _
    exact (codeSize_strip c).symm
  rw [this a, this b, h]

theorem addrAt_strip {a b : List Code} (h : a.map stripC = b.map stripC) (base i : Nat) :
    addrAt base a i = addrAt base b i := by
  unfold addrAt
  have : (a.take i).map stripC = (b.take i).map stripC := by
    rw [List.map_take, List.map_take, h]
  rw [map_codeSize_strip this]

/-- the program `p` holds the item list `cs` (up to the text of comments) laid out from `c.codeBase` -/
structure LoadedA (c : MachCfg) (p : Prog) (cs : List Code) : Prop where
  loaded : Loaded p cs
  addr : ∀ i, i < cs.length → p.addr[i]? = some (addrAt c.codeBase cs i)
  addrIdx : ∀ i (h : i < cs.length), codeSize cs[i] ≠ 0 → p.addrIdx[addrAt c.codeBase cs i]? = some i

theorem loadedA_mkProg (c : MachCfg) (items : List (Code × Nat)) (cs : List Code)
    (h : (items.map (·.1)).map stripC = cs.map stripC) : LoadedA c (mkProg c items) cs := by
  have hlen : (items.map (·.1)).length = cs.length := by
    have := congrArg List.length h
    simpa using this
  refine ⟨loaded_mkProg c items cs h, ?_, ?_⟩
  · intro i hi
    show (layoutFrom c.codeBase (items.map (·.1))).toArray[i]? = _
    rw [List.getElem?_toArray, layoutFrom_get _ _ _ (by rw [hlen]; exact hi), addrAt_strip h]
  · intro i hi hsz
    show (mkAddrIdx (items.map (·.1)) (layoutFrom c.codeBase (items.map (·.1))))[_]? = _
    rw [← addrAt_strip h]
    apply mkAddrIdx_get _ _ _ (by rw [hlen]; exact hi)
    have e : stripC (items.map (·.1))[i] = stripC cs[i] := by
      have := congrArg (fun l => l[i]?) h
      simp only [List.getElem?_map, List.getElem?_eq_getElem hi,
        List.getElem?_eq_getElem (show i < (items.map (·.1)).length by rw [hlen]; exact hi),
        Option.map_some, Option.some.injEq] at this
      exact this
    rw [← codeSize_strip, e, codeSize_strip]
    exact hsz

/-- a label's address is the address of the item that defines it -/
theorem LoadedA.labelAddr {c : MachCfg} {p : Prog} {cs : List Code} (L : LoadedA c p cs)
    (hnd : (labs cs).Nodup) {i : Nat} {l : String} (h : cs[i]? = some (.LAB l)) :
    p.labelAddr l = some (addrAt c.codeBase cs i) := by
  have hi : i < cs.length := by
    rcases Nat.lt_or_ge i cs.length with h' | h'
    · exact h'
    · rw [List.getElem?_eq_none h'] at h; cases h
  unfold Prog.labelAddr
  rw [L.loaded.labels, labIdx_of_nodup hnd h]
  exact L.addr i hi

/-- the machine's transition for a jump through a register -/
theorem step_jumpAddr {m : MonCfg} {p : Prog} {s s1 : State} {code : Code} {a i : Nat}
    (hf : p.code[s.pc]? = some code)
    (hx : execCode m.mach p.labelAddr code s = .ok (s1, .jumpAddr a)) (hl : p.addrIdx[a]? = some i) :
    step m p s = .inl (setPS s1 i (s.steps + (if codeSize code = 0 then 0 else 1))) := by
  obtain ⟨_, hst⟩ := execCode_pc_steps hx
  unfold step
  simp only [hf, hx, hl]
  by_cases h0 : codeSize code = 0
  · simp only [h0, if_true, Nat.add_zero, setPS, ← hst]
  · simp only [h0, if_false, setPS, hst]

/-- the address of the `j`-th entry of a table of 5-byte jumps behind a label -/
theorem addrAt_table (base : Nat) (cs1 table rest : List Code) (l : String)
    (hsz : table.map codeSize = List.replicate table.length 5) :
    ∀ j, j ≤ table.length →
      addrAt base (cs1 ++ (Code.LAB l :: table) ++ rest) (cs1.length + 1 + j) =
        addrAt base (cs1 ++ (Code.LAB l :: table) ++ rest) cs1.length + 5 * j := by
  intro j
  induction j with
  | zero =>
    intro _
    have hlt : cs1.length < (cs1 ++ (Code.LAB l :: table) ++ rest).length := by simp
    rw [Nat.add_zero, addrAt_succ _ _ _ hlt]
    have : (cs1 ++ (Code.LAB l :: table) ++ rest)[cs1.length] = Code.LAB l := by simp
    rw [this]
    try simp [codeSize]
  | succ j ih =>
    intro hj
    have hlt : cs1.length + 1 + j < (cs1 ++ (Code.LAB l :: table) ++ rest).length := by simp; omega
    rw [show cs1.length + 1 + (j + 1) = cs1.length + 1 + j + 1 by omega, addrAt_succ _ _ _ hlt, ih (by omega)]
    have h1 : (cs1 ++ (Code.LAB l :: table) ++ rest)[cs1.length + 1 + j]? = some (table[j]'(by omega)) := by
      rw [List.append_assoc, List.getElem?_append_right (by omega)]
      rw [show cs1.length + 1 + j - cs1.length = j + 1 by omega]
      simp only [List.cons_append, List.getElem?_cons_succ]
      rw [List.getElem?_append_left (by omega), List.getElem?_eq_getElem]
    have hget : (cs1 ++ (Code.LAB l :: table) ++ rest)[cs1.length + 1 + j] = table[j]'(by omega) := by
      have := List.getElem?_eq_getElem hlt
      rw [h1] at this
      exact (Option.some.inj this).symm
    have hs5 : codeSize (table[j]'(by omega)) = 5 := by
      have := congrArg (fun x => x[j]?) hsz
      simp only [List.getElem?_map, List.getElem?_eq_getElem (show j < table.length by omega),
        Option.map_some] at this
      rw [List.getElem?_replicate] at this
      simp only [show j < table.length by omega, if_true, Option.some.injEq] at this
      exact this
    rw [hget, hs5]
    omega


/-- one instruction that jumps through a register, on a loaded item list -/
theorem step_jumpA (m : MonCfg) {p : Prog} {cs cs1 rest : List Code} {code : Code} (L : Loaded p cs)
    (hcs : cs = cs1 ++ code :: rest) {s s1 : State} (hpc : s.pc = cs1.length) {a i : Nat}
    (hx : execCode m.mach p.labelAddr code s = .ok (s1, .jumpAddr a)) (hl : p.addrIdx[a]? = some i) :
    ∃ k, step m p s = .inl (setPS s1 i k) := by
  obtain ⟨code', hf, hs⟩ := L.fetch hcs
  have hx' : execCode m.mach p.labelAddr code' s = .ok (s1, .jumpAddr a) := by
    rw [← execCode_strip, hs, execCode_strip]; exact hx
  exact ⟨_, step_jumpAddr (by rw [hpc]; exact hf) hx' hl⟩

/-- labels and comments do nothing -/
theorem execStraight_noops (c : MachCfg) (la : String → Option Nat) : ∀ (l : List Code) (s : State),
    (∀ x ∈ l, (∃ m, x = Code.COMMENT m) ∨ ∃ n, x = Code.LAB n) → execStraight c la l s = .ok s
  | [], _, _ => rfl
  | x :: l, s, h => by
    have ih := execStraight_noops c la l s (fun y hy => h y (by simp [hy]))
    rcases h x (by simp) with ⟨m, rfl⟩ | ⟨n, rfl⟩
    · simp only [execStraight, execCode]; exact ih
    · simp only [execStraight, execCode]; exact ih

end Scc.X86.Ref
