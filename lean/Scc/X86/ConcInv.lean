/-
  Scc.X86.ConcInv — the heap invariant of C09 ON THE CONCRETE x86-64 MACHINE STATE, derived from the
  three-way relation at a statement boundary.

  `HeapInvAt m s kinds limit` is the predicate of the executable heap monitor (`heapCheck` of
  Scc/X86/Machine.lean) with the decision procedure `Scc.Heap.invCheckFn` replaced by what it decides,
  the invariant `Scc.Heap.InvW` (Scc/Heap/Inv.lean), on the raw machine components:
    * memory   = the machine's heap words (unwritten words read 0), as naturals;
    * heap/free = the contents of the registers HEAP (rbx) and FREE (rbp);
    * roots    = the contents of the FIRST temporaries (utils.rs temporary_from_position: registers 4..15,
                 then spill slots) of the non-`ext` variables of the context, read exactly as the monitor
                 reads them (`readLoc` of `tempLoc`; in particular they are DEFINED);
    * region   = `[heapBase, limit)`.
  `heapInvAt_of_x3`: a machine state in the right half `X3` of the three-way relation (with the left half
  `RelX`, which makes the pointer temporaries of non-`ext` variables defined) satisfies `HeapInvAt` with
  `limit = heapBase + heapBytes`: `HeapRel` (machine memory = block-level state) ∘ `HRef.conc` (the
  block-level state satisfies `InvS` w.r.t. the images of the abstract roots) ∘ agreement of the roots up
  to null pointers (`InvW.roots_congr`).
-/
import Scc.X86.RefHeapRun

set_option linter.unusedVariables false
set_option linter.unusedSimpArgs false

namespace Scc.X86.Conc

open Scc Scc.AxCut Scc.Backend Scc.Backend.Abs Scc.Backend.Sim Scc.X86 Scc.X86.Ref
open Scc.Backend.Sim2
open Scc.Heap (HState InvS InvW)
open Scc.Heap.Refine (HRef imgW)

/-- the machine's heap memory as the invariant sees it (`heapCheck`: `fun a => (s.heapMem.getD a 0).toNat`) -/
def memFn (s : State) : Nat → Nat := fun a => (s.heapMem.getD a 0).toNat

/-- the kinds a `#ctx […]` hook lists: `true` = not `ext` (the variable has a pointer part) -/
def ctxKinds (Γ : Ctx) : List Bool := Γ.map (fun b => b.chi != Chi.ext)

/-- where the monitor reads the roots (`heapCheck`) -/
def rootLocs (k : X86Consts) (kinds : List Bool) : List Loc :=
  (kinds.zipIdx.filter (·.1)).map (fun (ki : Bool × Nat) => tempLoc k (2 * ki.2))

/-- THE MONITOR'S PREDICATE on a machine state (with `invCheckFn` replaced by `InvW`): the roots, HEAP
and FREE are readable (defined), and the invariant holds for the raw machine memory in `[heapBase, limit)` -/
def HeapInvAt (m : MonCfg) (s : State) (kinds : List Bool) (limit : Nat) : Prop :=
  ∃ (roots : List Word) (h f : Word) (lin lazy live : List Nat) (F : Nat),
    (rootLocs m.consts kinds).mapM (fun l => readLoc m.mach s l) = .ok roots ∧
    rd s m.consts.heap = .ok h ∧ rd s m.consts.free = .ok f ∧
    InvW (memFn s) m.mach.heapBase limit h.toNat f.toNat (roots.map (·.toNat)) [] lin lazy live F

/-! ## reading a temporary the way the monitor does -/

theorem tempLoc_reg {t : Nat} (h : t + 4 < 16) : tempLoc consts t = .r (t + 4) := by
  simp [tempLoc, consts, h]

theorem tempLoc_spill {t : Nat} (h : ¬ t + 4 < 16) : tempLoc consts t = .m 0 (stackOffset (t - 11)) := by
  have e : ((256 * 8 : Nat) : Int) - 8 * (((t + 4 - 16 + 1 : Nat) : Int) + 1) = stackOffset (t - 11) := by
    rw [stackOffset_eq]; omega
  simp only [tempLoc, consts, h, if_false]
  rw [← e]

/-- `readLoc (tempLoc t)` is `tempVal (posTemp t)` at a statement boundary -/
theorem readLoc_tempLoc {c : MachCfg} {st : State} {sp : Word} (B : Boundary c st sp) {t : Nat}
    (ht : t < 267) {w : Word} (h : tempVal sp st (posTemp t) = some w) :
    readLoc c st (tempLoc consts t) = .ok w := by
  unfold posTemp at h
  by_cases hr : t + 4 < 16
  · rw [if_pos hr] at h
    rw [tempLoc_reg hr]
    exact rd_regIs (regIs_of_tempVal h)
  · rw [if_neg hr] at h
    rw [tempLoc_spill hr]
    have hp : t - 11 < 256 := by omega
    simp only [tempVal] at h
    have hsp : rd st 0 = .ok sp := by simp [rd, B.rsp]
    have hea : ea st 0 (stackOffset (t - 11)) = .ok (sp + BitVec.ofInt 64 (stackOffset (t - 11))) := by
      simp [ea, hsp, imm32, fitsI32_stackOffset hp]
    have hn := slot_toNat B.sp hp
    have h0 := B.sp.aligned
    have h1 := B.sp.high
    have h2 := B.sp.low
    have h3 := B.sp.cfg.heapBelow
    have hal : slotAddr sp (t - 11) % 8 = 0 := by simp only [slotAddr]; omega
    have hnh : inHeap c (slotAddr sp (t - 11)) = false := by
      unfold inHeap slotAddr
      rw [Bool.and_eq_false_iff]; right
      rw [decide_eq_false_iff_not]; omega
    have hst : inStack c (slotAddr sp (t - 11)) = true := by
      unfold inStack slotAddr
      rw [Bool.and_eq_true, decide_eq_true_eq, decide_eq_true_eq]; omega
    simp only [readLoc, hea, loadWord, loadWordRaw, hn, hal, hnh, hst, h]
    simp

/-! ## `mapM` in `Except` -/

theorem mapM_ok {α β : Type} (f : α → Except String β) (g : α → β) :
    ∀ (l : List α), (∀ x ∈ l, f x = .ok (g x)) → l.mapM f = .ok (l.map g)
  | [], _ => rfl
  | a :: l, h => by
    rw [List.mapM_cons, h a (by simp), mapM_ok f g l (fun x hx => h x (by simp [hx]))]
    rfl

/-! ## the roots the monitor reads against the roots of the refinement -/

/-- the positions the monitor reads, with their indices -/
theorem zipIdx_filter_kinds : ∀ (Γ : Ctx) (k : Nat) (f : Nat → Nat),
    (((ctxKinds Γ).zipIdx k).filter (·.1)).map (fun (ki : Bool × Nat) => f ki.2) =
      (Γ.zipIdx k).filterMap (fun (bi : Binding × Nat) => if bi.1.chi != Chi.ext then some (f bi.2) else none)
  | [], _, _ => rfl
  | b :: Γ, k, f => by
    have ih := zipIdx_filter_kinds Γ (k + 1) f
    simp only [ctxKinds] at ih ⊢
    simp only [List.map_cons, List.zipIdx_cons, List.filter_cons, List.filterMap_cons]
    by_cases hb : (b.chi != Chi.ext) = true
    · simp only [hb, if_true, List.map_cons, ih]
    · have hb' : (b.chi != Chi.ext) = false := by simpa using hb
      simp only [hb', Bool.false_eq_true, if_false, ih]

/-- multiplicities of the non-null roots: the machine words of the pointer temporaries of the non-`ext`
variables against the images of the abstract roots -/
theorem count_roots (σ : Temps) (ι : Nat → Nat) (val : Nat → Nat) (b : Nat) (hb : b ≠ 0) :
    ∀ (Γ : Ctx) (k : Nat),
    (∀ j (hj : j < Γ.length), Γ[j].chi ≠ .ext → ∃ r, σ.get (2 * (k + j)) = some r ∧ val (k + j) = imgW ι r) →
    ((Γ.zipIdx k).filterMap (fun (bi : Binding × Nat) =>
        if bi.1.chi != Chi.ext then some (val bi.2) else none)).count b =
      ((roots.go σ Γ k).map ι).count b
  | [], _, _ => rfl
  | a :: Γ, k, h => by
    have ih := count_roots σ ι val b hb Γ (k + 1) (fun j hj hc => by
      have := h (j + 1) (by simpa using hj) (by simpa using hc)
      rw [show k + (j + 1) = k + 1 + j by omega] at this
      exact this)
    simp only [List.zipIdx_cons, List.filterMap_cons, roots.go]
    by_cases ha : (a.chi != Chi.ext) = true
    · have hne : a.chi ≠ .ext := (chi_bne_ext _).mp ha
      obtain ⟨r, hr, hv⟩ := h 0 (by simp) (by simpa using hne)
      simp only [Nat.add_zero] at hr hv
      simp only [ha, if_true, hr]
      rw [List.count_cons, ih, List.map_append, List.count_append]
      by_cases h0 : r = 0
      · subst h0
        have : ((0 : Word) != 0) = false := by simp
        simp only [this, Bool.false_eq_true, if_false, List.map_nil, List.count_nil, Nat.zero_add]
        rw [hv]
        simp only [imgW, if_true]
        have : ((0 : Nat) == b) = false := by
          rw [beq_eq_false_iff_ne]; exact fun e => hb e.symm
        simp [this]
      · have : (r != 0) = true := by rw [bne_iff_ne]; exact h0
        simp only [this, if_true, List.map_cons, List.map_nil, List.count_cons, List.count_nil]
        rw [hv]
        simp only [imgW, if_neg h0]
        omega
    · have ha' : (a.chi != Chi.ext) = false := by simpa using ha
      simp only [ha', Bool.false_eq_true, if_false, List.nil_append]
      exact ih

/-! ## the invariant on the machine state -/

/-- THE HEAP INVARIANT ON THE CONCRETE MACHINE STATE at a statement boundary -/
theorem heapInvAt_of_x3 {F : Frame} {m : MonCfg} (hm : m.mach = F.c) (hk : m.consts = consts)
    {P : Program} {hooks : Bool} {prog : AxCut.Prog} {Γ : Ctx} {ρ : List Pos.Value} {s : Stmt} {cfg : Config}
    {hs : HState} {ι : Nat → Nat} {st : State}
    (R : RelX P hooks prog ⟨Γ, ρ, s⟩ cfg) (X : X3 F Γ cfg hs ι st) :
    HeapInvAt m st (ctxKinds Γ) (F.c.heapBase + F.c.heapBytes) ∧ hs.limit = F.c.heapBase + F.c.heapBytes := by
  obtain ⟨w, hw, ew⟩ := X.hrel.heap
  obtain ⟨f, hf, ef⟩ := X.hrel.free
  obtain ⟨lin, lazy, live, Fr, I⟩ := X.href.conc
  -- the pointer parts on the abstract machine
  let val : Nat → Word := fun i => imgWord ι ((cfg.temps.get (2 * i)).getD 0)
  have hlen : ρ.length = Γ.length := R.len
  have hdef : ∀ i (hi : i < Γ.length), Γ[i].chi ≠ .ext → ∃ r, cfg.temps.get (2 * i) = some r ∧
      tempVal F.sp st (posTemp (2 * i)) = some (val i) ∧ (val i).toNat = imgW ι r := by
    intro i hi hc
    have hv := (R.vals i hi (by rw [hlen]; exact hi)).2.2.2 ((chi_bne_ext _).mpr hc)
    cases hg : cfg.temps.get (2 * i) with
    | none => rw [hg] at hv; cases hv
    | some r =>
      refine ⟨r, rfl, ?_, ?_⟩
      · have := X.ptrs i hi hc r hg
        simpa [val, hg] using this
      · simp only [val, hg, Option.getD_some]
        exact imgWord_toNat (fun h0 => (X3R.ref_lt X hi hc hg h0).1)
  -- what the monitor reads
  have hread : (rootLocs m.consts (ctxKinds Γ)).mapM (fun l => readLoc m.mach st l) =
      .ok (((ctxKinds Γ).zipIdx.filter (·.1)).map (fun (ki : Bool × Nat) => val ki.2)) := by
    unfold rootLocs
    rw [hk, hm]
    have := mapM_ok (fun (ki : Bool × Nat) => readLoc F.c st (tempLoc consts (2 * ki.2)))
      (fun (ki : Bool × Nat) => val ki.2) ((ctxKinds Γ).zipIdx.filter (·.1)) (by
        intro ki hki
        rw [List.mem_filter] at hki
        obtain ⟨hmem, hk1⟩ := hki
        obtain ⟨hidx, hlt, hget⟩ := List.mem_zipIdx hmem
        simp only [Nat.zero_add, Nat.sub_zero] at hlt hget
        have hlt' : ki.2 < Γ.length := by simpa [ctxKinds] using hlt
        have hc : Γ[ki.2].chi ≠ .ext := by
          have : (ctxKinds Γ)[ki.2] = true := by rw [← hget]; exact hk1
          apply (chi_bne_ext _).mp
          simpa [ctxKinds] using this
        obtain ⟨r, _, hv, _⟩ := hdef ki.2 hlt' hc
        exact readLoc_tempLoc X.bnd (by have := X.cap; omega) hv)
    rw [List.mapM_map]
    exact this
  refine ⟨⟨_, w, f, lin, lazy, live, Fr, hread, ?_, ?_, ?_⟩, X.hrel.limit⟩
  · rw [hk]; exact rd_regIs hw
  · rw [hk]; exact rd_regIs hf
  · have hmem : memFn st = hs.mem.get := by
      funext a; exact (X.hrel.mem a).symm
    rw [hm, hmem, ew, ef, ← X.hrel.limit, ← X.hrel.base]
    refine InvW.roots_congr I (fun b hb => ?_)
    rw [List.map_map]
    have e1 := zipIdx_filter_kinds Γ 0 (fun i => (val i).toNat)
    have e1' : List.map ((fun (x : Word) => x.toNat) ∘ fun (ki : Bool × Nat) => val ki.2)
        (List.filter (fun x => x.1) (ctxKinds Γ).zipIdx) =
        (((ctxKinds Γ).zipIdx 0).filter (·.1)).map (fun (ki : Bool × Nat) => (val ki.2).toNat) := rfl
    rw [e1', e1]
    have := count_roots cfg.temps ι (fun i => (val i).toNat) b hb Γ 0 (by
      intro j hj hc
      obtain ⟨r, hr, _, hv⟩ := hdef j hj hc
      exact ⟨r, by rw [Nat.zero_add]; exact hr, by rw [Nat.zero_add]; exact hv⟩)
    rw [this]
    rfl

end Scc.X86.Conc
