/-
  Scc.X86.ConcHook — THE HEAP MONITOR AT A STATEMENT BOUNDARY (hooks on): the machine state at a statement
  boundary has its program counter at the `#ctx […]` comment of the statement (`first_hook`: with hooks, the
  code of every statement starts with `comment (ctxHookComment Γ)`), the monitor's parser reads the kinds of
  the context back from it (`parseCtx_hook`: printer/parser round trip, for variable names without blanks),
  and its check succeeds there (`heapCheck_ok`): `monitor_boundary`.
-/
import Scc.X86.ConcCheck
import Scc.X86.ConcC10
import Scc.X86.ProofsWfAll
import Scc.StringLemmasAscii

set_option linter.unusedVariables false
set_option linter.unusedSimpArgs false

namespace Scc.X86.Conc

open Scc Scc.AxCut Scc.AxCut.Pos Scc.Backend Scc.Backend.Abs Scc.X86 Scc.X86.Ref Scc.Str
open Scc.Heap (HState InvS InvW)

/-! ## the first item of the code of a statement -/

/-- with hooks, the code of every statement starts with the `#ctx` comment of its context -/
theorem post_first_hook (ren : Nat → String) (types : List TypeDecl) : ∀ (s : Stmt) (Γ : Ctx),
    Post (codeStatementR x86Backend true ren types s Γ)
      (fun items => ∃ rest, items = Code.COMMENT (ctxHookComment Γ) :: rest)
  | .subst rearrange next, Γ => by
    simp only [codeStatementR]
    refine Post.bind (Post.true _) fun c1 _ => ?_
    refine Post.bind (Post.true _) fun c2 _ => ?_
    refine Post.bind (Post.true _) fun c3 _ => ?_
    exact Post.pure ⟨_, rfl⟩
  | .call label args, Γ => by
    simp only [codeStatementR]
    exact Post.pure ⟨_, rfl⟩
  | .letS var ty tag args next fv, Γ => by
    simp only [codeStatementR]
    refine Post.bind (Post.true _) fun decl _ => ?_
    refine Post.bind (Post.true _) fun pos _ => ?_
    refine Post.bind (Post.true _) fun sp _ => ?_
    obtain ⟨context1, arguments⟩ := sp
    dsimp only
    refine Post.bind (Post.true _) fun c1 _ => ?_
    refine Post.bind (Post.true _) fun t _ => ?_
    refine Post.bind (Post.true _) fun c3 _ => ?_
    exact Post.pure ⟨_, rfl⟩
  | .switch var ty clauses fv, Γ => by
    simp only [codeStatementR]
    refine Post.bind (Post.true _) fun num _ => ?_
    refine Post.bind (Post.true _) fun c1 _ => ?_
    refine Post.bind (Post.true _) fun c3 _ => ?_
    exact Post.pure ⟨_, rfl⟩
  | .create var ty env clauses next fv1 fv2, Γ => by
    cases env with
    | none => simp only [codeStatementR]; exact Post.throw
    | some envCtx =>
      simp only [codeStatementR]
      refine Post.bind (Post.true _) fun sp _ => ?_
      obtain ⟨context1, closureEnvironment⟩ := sp
      dsimp only
      refine Post.bind (Post.true _) fun c1 _ => ?_
      refine Post.bind (Post.true _) fun num _ => ?_
      refine Post.bind (Post.true _) fun t _ => ?_
      refine Post.bind (Post.true _) fun c3 _ => ?_
      refine Post.bind (Post.true _) fun c5 _ => ?_
      exact Post.pure ⟨_, rfl⟩
  | .invoke var tag ty args, Γ => by
    simp only [codeStatementR]
    refine Post.bind (Post.true _) fun t _ => ?_
    refine Post.bind (Post.true _) fun decl _ => ?_
    split
    · exact Post.pure ⟨_, rfl⟩
    · exact Post.bind (Post.true _) fun pos _ => Post.pure ⟨_, rfl⟩
  | .lit var n next fv, Γ => by
    simp only [codeStatementR]
    refine Post.bind (Post.true _) fun t _ => ?_
    refine Post.bind (Post.true _) fun c2 _ => ?_
    exact Post.pure ⟨_, rfl⟩
  | .op var fst o snd next fv, Γ => by
    simp only [codeStatementR]
    refine Post.bind (Post.true _) fun t _ => ?_
    refine Post.bind (Post.true _) fun s1 _ => ?_
    refine Post.bind (Post.true _) fun s2 _ => ?_
    refine Post.bind (Post.true _) fun c2 _ => ?_
    exact Post.pure ⟨_, rfl⟩
  | .print newline var next fv, Γ => by
    simp only [codeStatementR]
    refine Post.bind (Post.true _) fun t _ => ?_
    refine Post.bind (Post.true _) fun c1 _ => ?_
    refine Post.bind (Post.true _) fun c2 _ => ?_
    exact Post.pure ⟨_, rfl⟩
  | .ifc sort fst snd thenc elsec, Γ => by
    simp only [codeStatementR]
    refine Post.bind (Post.true _) fun num _ => ?_
    refine Post.bind (Post.true _) fun c1 _ => ?_
    refine Post.bind (Post.true _) fun c2 _ => ?_
    refine Post.bind (Post.true _) fun c3 _ => ?_
    exact Post.pure ⟨_, rfl⟩
  | .exit var, Γ => by
    simp only [codeStatementR]
    exact Post.bind (Post.true _) fun t _ => Post.pure ⟨_, rfl⟩

/-! ## the printer/parser round trip of the hook comment -/

theorem dropPrefix_append : ∀ (p r : List Char), dropPrefix? p (p ++ r) = some r
  | [], r => by cases r <;> rfl
  | x :: p, r => by
    simp only [List.cons_append, dropPrefix?, if_true]
    exact dropPrefix_append p r

/-- splitting the blank-joined words gives the words back (words without blanks) -/
theorem splitList_intercalate : ∀ (ls : List (List Char)), ls ≠ [] → (∀ l ∈ ls, ' ' ∉ l) →
    splitList ' ' ([' '].intercalate ls) = ls
  | [], h, _ => absurd rfl h
  | [a], _, h => by
    rw [intercalate_singleton']
    exact splitList_of_not_mem ' ' a (h a (by simp))
  | a :: b :: t, _, h => by
    rw [intercalate_cons_cons']
    have : a ++ [' '] ++ [' '].intercalate (b :: t) = a ++ ' ' :: [' '].intercalate (b :: t) := by simp
    rw [this, splitList_append_sep ' ' a _ (h a (by simp)),
      splitList_intercalate (b :: t) (by simp) (fun l hl => h l (by simp [hl]))]

theorem chiStr_no_colon (c : Chi) : ':' ∉ (chiStr c).toList := by cases c <;> decide
theorem chiStr_no_space (c : Chi) : ' ' ∉ (chiStr c).toList := by cases c <;> decide

theorem chiStr_ne_ext (c : Chi) : (some (chiStr c) != some "ext") = (c != Chi.ext) := by cases c <;> decide

/-- the last `:`-separated piece of `name:kind` is the kind -/
theorem hookWord_kind (name : String) (c : Chi) :
    ((name ++ ":" ++ chiStr c).splitOn ":").getLast? = some (chiStr c) := by
  rw [splitOn_colon]
  have e : (name ++ ":" ++ chiStr c).toList = name.toList ++ ':' :: (chiStr c).toList := by
    simp [String.toList_append]
  rw [e, splitList_append_sep', splitList_of_not_mem ':' _ (chiStr_no_colon c)]
  simp

/-- THE ROUND TRIP: the monitor's parser reads the kinds of the context back from the hook comment
(variable names without blanks) -/
theorem parseCtx_hook (Γ : Ctx) (h : ∀ b ∈ Γ, ' ' ∉ b.var.print.toList) :
    parseCtx (ctxHookComment Γ) = some (ctxKinds Γ) := by
  let W : List String := Γ.map fun b => b.var.print ++ ":" ++ chiStr b.chi
  have hmsg : (ctxHookComment Γ).toList = "#ctx [".toList ++ ((" ".intercalate W).toList ++ [']']) := by
    show ("#ctx [" ++ " ".intercalate W ++ "]").toList = _
    rw [String.toList_append, String.toList_append, List.append_assoc]
    rfl
  unfold parseCtx
  rw [hmsg, dropPrefix_append]
  simp only [List.reverse_append, List.reverse_cons, List.reverse_nil, List.nil_append, List.singleton_append,
    List.reverse_reverse]
  have hof : String.ofList (" ".intercalate W).toList = " ".intercalate W := String.ofList_toList
  rw [hof, splitOn_space, intercalate_space]
  -- the words
  have hwords : ((splitList ' ' ([' '].intercalate (W.map String.toList))).map String.ofList).filter
      (fun x => decide (x ≠ "")) = W := by
    cases hΓ : Γ with
    | nil =>
      have : W = [] := by simp [W, hΓ]
      rw [this]
      rfl
    | cons b0 t =>
      have hne : W.map String.toList ≠ [] := by simp [W, hΓ]
      rw [splitList_intercalate _ hne (by
        intro l hl
        obtain ⟨w, hw, rfl⟩ := List.mem_map.1 hl
        obtain ⟨b, hb, rfl⟩ := List.mem_map.1 hw
        rw [String.toList_append, String.toList_append]
        intro hm
        rcases List.mem_append.1 hm with hm | hm
        · rcases List.mem_append.1 hm with hm | hm
          · exact h b hb hm
          · exact absurd hm (by decide)
        · exact chiStr_no_space b.chi hm)]
      rw [List.map_map]
      have hid : (String.ofList ∘ String.toList) = id := by funext x; simp
      rw [hid, List.map_id]
      rw [List.filter_eq_self]
      intro w hw
      obtain ⟨b, hb, rfl⟩ := List.mem_map.1 hw
      simp only [decide_eq_true_eq]
      intro e
      have := congrArg String.toList e
      rw [String.toList_append, String.toList_append] at this
      have hm : ':' ∈ b.var.print.toList ++ ":".toList ++ (chiStr b.chi).toList := by
        simp
      rw [this] at hm
      simp at hm
  rw [hwords]
  congr 1
  simp only [W, List.map_map, ctxKinds]
  apply List.map_congr_left
  intro b hb
  simp only [Function.comp]
  rw [hookWord_kind, chiStr_ne_ext]

/-! ## the monitor at a statement boundary -/

/-- THE MONITOR AT A STATEMENT BOUNDARY, hooks on, on the items of the routine: the item at the program
counter is the `#ctx` comment of the boundary's context; if the parser reads its kinds back, the monitor runs
`heapCheck` with them and — inside its window — the check succeeds -/
theorem monitor_boundary {F : Frame} {cfg : MonCfg} (hFc : F.c = cfg.mach) (hk : cfg.consts = consts)
    {routine : List Code} {items : List (Code × Nat)} (hitems : items.map (·.1) = routine)
    {P : Program} {prog : AxCut.Prog} {st : Pos.State} {cfgA : Config} {hs : HState} {X : State}
    (R : Rel3 F routine P true prog st cfgA hs X)
    (hparse : ∀ Γ, Code.COMMENT (ctxHookComment Γ) ∈ routine → parseCtx (ctxHookComment Γ) = some (ctxKinds Γ)) :
    ∃ below inUse, HeapShapeAt cfg X below inUse ∧
      (cfg.heap = false → monitor cfg (mkProg cfg.mach items) X = .ok none) ∧
      (cfg.heap = true → 64 * below + 64 ≤ X.maxHeapWritten + 512 →
        monitor cfg (mkProg cfg.mach items) X = .ok (some below)) := by
  obtain ⟨Γ', ι, hkeys, RX, X3h, k, k', its, hrun, hat⟩ := R
  obtain ⟨rest, hfirst⟩ := post_first_hook natRen prog.types st.stmt Γ' k its k' hrun
  -- the item at the program counter
  obtain ⟨cs1, cs2, hcs, hlen⟩ := hat
  have hget : routine[X.pc]? = some (Code.COMMENT (ctxHookComment Γ')) := by
    rw [hcs, hfirst, ← hlen]
    simp
  have hmem : Code.COMMENT (ctxHookComment Γ') ∈ routine := List.mem_of_getElem? hget
  have hcode : (mkProg cfg.mach items).code[X.pc]? = some (Code.COMMENT (ctxHookComment Γ')) := by
    show (items.map (·.1)).toArray[X.pc]? = _
    rw [hitems, List.getElem?_toArray]
    exact hget
  obtain ⟨⟨roots, h, f, lin, lazy, live, Fr, hr, hh, hf, I⟩, _⟩ := heapInvAt_of_x3 (m := cfg) hFc.symm hk RX X3h
  rw [hFc] at I
  refine ⟨(Fr - cfg.mach.heapBase) / 64, live.length, ⟨h, f, _, lin, lazy, live, Fr, hh, hf, I, rfl, rfl⟩, ?_, ?_⟩
  · intro hoff
    simp [monitor, hoff]
  · intro hon hw
    have hFb := I.frontier_block
    unfold Scc.Heap.IsBlock at hFb
    have hchk := heapCheck_ok hr hh hf I (by omega)
    unfold monitor
    simp only [hon, Bool.not_true, Bool.false_eq_true, if_false, hcode, hparse Γ' hmem, hchk]

end Scc.X86.Conc
