/-
  Scc.X86.CCProofsFrame — property C13, x86-64: what ONE instruction can do on the SPEC machine
  (Scc/X86/Machine.lean), whatever the values involved (no definedness hypothesis):

  * `MErr e`: the error messages that `execCode` can raise (`execCode_err`).  None of them is one of
    the faults of the calling-convention monitor (`misaligned-call`, `ret-to-non-sentinel`): those come
    only from `callExt` and `retCheck`.
  * `Fr W A s s'`: `s'` has as many registers as `s`, agrees with `s` on every register outside `W`
    and on every stack word whose address does not satisfy `A`.  `execCode_fr`: an instruction other
    than push / pop relates its pre- and post-state by `Fr (codeWrites code) (its memory operands)`:
    `codeWrites` / `codeMems` (CCProofsStatic.lean) are SOUND for the machine.
  * `execCode_ctl`: control after an instruction: fall through, or the direct jump `codeJumpRef`, or the
    instruction is an indirect jump / jump-table entry / call / ret.
-/
import Scc.X86.CCProofsSites

set_option linter.unusedVariables false
set_option linter.unusedSimpArgs false

namespace Scc.X86

/-! ## error messages of `execCode` -/

def errPrefixes : List String :=
  ["bad-register ", "read-undefined ", "unaligned ", "oob ", "store-undefined-to-heap ",
   "imm-out-of-range ", "undefined-label "]

def errFixed : List String :=
  ["idiv-rdx-not-sign-extension", "div-by-zero", "div-overflow", "illegal-instruction imul-to-memory"]

/-- the error messages of the instruction semantics -/
inductive MErr : String → Prop where
  | pre (p x : String) : p ∈ errPrefixes → MErr (p ++ x)
  | fixed (e : String) : e ∈ errFixed → MErr e

/-- messages that are not raised by the calling-convention monitor (nor by `execSeq` for a control
    transfer inside a straight-line segment) -/
def OKErr (e : String) : Prop :=
  e ≠ "misaligned-call" ∧ e ≠ "ret-to-non-sentinel" ∧ e ≠ "control-transfer"

theorem MErr.okErr {e : String} (h : MErr e) : OKErr e := by
  cases h with
  | pre p x hp =>
    simp only [errPrefixes, List.mem_cons, List.not_mem_nil, or_false] at hp
    rcases hp with rfl | rfl | rfl | rfl | rfl | rfl | rfl <;>
      exact ⟨append_ne_prefix (by decide), append_ne_prefix (by decide), append_ne_prefix (by decide)⟩
  | fixed e he =>
    simp only [errFixed, List.mem_cons, List.not_mem_nil, or_false] at he
    rcases he with rfl | rfl | rfl | rfl <;> exact ⟨by decide, by decide, by decide⟩

theorem merr_badReg (r : Nat) : MErr s!"bad-register {r}" :=
  MErr.pre "bad-register " (toString r) (by simp [errPrefixes])
theorem merr_undefReg (r : Nat) : MErr s!"read-undefined {regName r}" :=
  MErr.pre "read-undefined " (regName r) (by simp [errPrefixes])
theorem merr_undefMem (n : Nat) : MErr s!"read-undefined [{n}]" := by
  have : (s!"read-undefined [{n}]" : String) = "read-undefined " ++ ("[" ++ toString n ++ "]") := by
    show "read-undefined [" ++ toString n ++ "]" = _
    rw [show ("read-undefined [" : String) = "read-undefined " ++ "[" from by decide]
    simp only [String.append_assoc]
  rw [this]
  exact MErr.pre _ _ (by simp [errPrefixes])
theorem merr_undefFlags : MErr "read-undefined flags" :=
  MErr.pre "read-undefined " "flags" (by simp [errPrefixes])
theorem merr_unaligned (n : Nat) : MErr s!"unaligned {n}" :=
  MErr.pre "unaligned " (toString n) (by simp [errPrefixes])
theorem merr_oob (n : Nat) : MErr s!"oob {n}" := MErr.pre "oob " (toString n) (by simp [errPrefixes])
theorem merr_storeUndef (n : Nat) : MErr s!"store-undefined-to-heap {n}" :=
  MErr.pre "store-undefined-to-heap " (toString n) (by simp [errPrefixes])
theorem merr_imm (i : Int) : MErr s!"imm-out-of-range {i}" :=
  MErr.pre "imm-out-of-range " (toString i) (by simp [errPrefixes])
theorem merr_undefLabel (l : String) : MErr s!"undefined-label {l}" :=
  MErr.pre "undefined-label " l (by simp [errPrefixes])

section Errs
variable {c : MachCfg} {s : State} {e : String}

theorem rdRaw_err {r : Reg} (h : rdRaw s r = .error e) : MErr e := by
  unfold rdRaw at h
  split at h
  · cases h
  · cases h; exact merr_badReg r

theorem rd_err {r : Reg} (h : rd s r = .error e) : MErr e := by
  unfold rd at h
  split at h
  · cases h
  · cases h; exact merr_undefReg r
  · cases h; exact merr_badReg r

theorem wrRaw_err {r : Reg} {v : Option Word} (h : wrRaw s r v = .error e) : MErr e := by
  unfold wrRaw at h
  split at h
  · cases h
  · cases h; exact merr_badReg r

theorem wr_err {r : Reg} {v : Word} (h : wr s r v = .error e) : MErr e := wrRaw_err h

theorem loadWordRaw_err {a : Word} (h : loadWordRaw c s a = .error e) : MErr e := by
  unfold loadWordRaw at h
  dsimp only at h
  split at h
  · cases h; exact merr_unaligned _
  · split at h
    · cases h
    · split at h
      · cases h
      · cases h; exact merr_oob _

theorem loadWord_err {a : Word} (h : loadWord c s a = .error e) : MErr e := by
  unfold loadWord at h
  split at h
  · cases h
  · cases h; exact merr_undefMem _
  · rename_i e' he
    cases h; exact loadWordRaw_err he

theorem storeWordRaw_err {a : Word} {v : Option Word} (h : storeWordRaw c s a v = .error e) : MErr e := by
  unfold storeWordRaw at h
  dsimp only at h
  split at h
  · cases h; exact merr_unaligned _
  · split at h
    · split at h
      · cases h
      · cases h; exact merr_storeUndef _
    · split at h
      · cases h
      · cases h; exact merr_oob _

theorem imm32_err {i : Int} {e : String} (h : imm32 i = .error e) : MErr e := by
  unfold imm32 at h
  split at h
  · cases h
  · cases h; exact merr_imm i

theorem ea_err {r : Reg} {i : Int} (h : ea s r i = .error e) : MErr e := by
  unfold ea at h
  cases h1 : rd s r with
  | error e1 => simp only [h1] at h; cases h; exact rd_err h1
  | ok b =>
    cases h2 : imm32 i with
    | error e2 => simp only [h1, h2] at h; cases h; exact imm32_err h2
    | ok d => simp only [h1, h2] at h; cases h

theorem readLoc_err {l : Loc} (h : readLoc c s l = .error e) : MErr e := by
  cases l with
  | r r => exact rd_err h
  | m b d =>
    simp only [readLoc] at h
    split at h
    · exact loadWord_err h
    · rename_i e' he; cases h; exact ea_err he

theorem writeLoc_err {l : Loc} {v : Word} (h : writeLoc c s l v = .error e) : MErr e := by
  cases l with
  | r r => exact wr_err h
  | m b d =>
    simp only [writeLoc] at h
    split at h
    · exact storeWordRaw_err h
    · rename_i e' he; cases h; exact ea_err he

theorem readSrc_err {l : Src} (h : readSrc c s l = .error e) : MErr e := by
  cases l with
  | loc l => exact readLoc_err h
  | imm i => exact imm32_err h

theorem alu_err {op : Word → Word → Word} {dst : Loc} {src : Src} (h : alu c op s dst src = .error e) :
    MErr e := by
  unfold alu at h
  split at h
  · rename_i e' he; cases h; exact readLoc_err he
  · split at h
    · rename_i e' he; cases h; exact readSrc_err he
    · split at h
      · rename_i e' he; cases h; exact writeLoc_err he
      · cases h

theorem cmpOp_err {a : Loc} {b : Src} (h : cmpOp c s a b = .error e) : MErr e := by
  unfold cmpOp at h
  split at h
  · rename_i e' he; cases h; exact readLoc_err he
  · split at h
    · rename_i e' he; cases h; exact readSrc_err he
    · cases h

theorem idivOp_err {src : Loc} (h : idivOp c s src = .error e) : MErr e := by
  unfold idivOp at h
  cases h1 : rd s 4 with
  | error e1 => simp only [h1] at h; cases h; exact rd_err h1
  | ok a =>
    cases h2 : rd s 5 with
    | error e2 => simp only [h1, h2] at h; cases h; exact rd_err h2
    | ok d =>
      cases h3 : readLoc c s src with
      | error e3 => simp only [h1, h2, h3] at h; cases h; exact readLoc_err h3
      | ok b =>
        simp only [h1, h2, h3] at h
        by_cases c1 : d ≠ (if a.slt 0 then BitVec.ofInt 64 (-1) else 0)
        · rw [if_pos c1] at h; cases h; exact .fixed _ (by simp [errFixed])
        · rw [if_neg c1] at h
          by_cases c2 : b = 0
          · rw [if_pos c2] at h; cases h; exact .fixed _ (by simp [errFixed])
          · rw [if_neg c2] at h
            by_cases c3 : (a = minInt64 && b = BitVec.ofInt 64 (-1)) = true
            · rw [if_pos c3] at h; cases h; exact .fixed _ (by simp [errFixed])
            · rw [if_neg c3] at h
              cases h4 : wr s 4 (a.sdiv b) with
              | error e4 => simp only [h4] at h; cases h; exact wr_err h4
              | ok s1 =>
                simp only [h4] at h
                cases h5 : wr s1 5 (a.srem b) with
                | error e5 => simp only [h5] at h; cases h; exact wr_err h5
                | ok s2 => simp only [h5] at h; cases h

theorem seqNext_err {r : M State} (h : seqNext r = .error e) : r = .error e := by
  cases r with
  | ok s1 => simp [seqNext] at h
  | error e1 => simp only [seqNext, Except.error.injEq] at h; rw [h]

theorem jcc_err {cond : Word → Word → Bool} {l : String} (h : jcc s cond l = .error e) : MErr e := by
  unfold jcc at h
  split at h
  · cases h; exact merr_undefFlags
  · cases h

/-- every error of the instruction semantics is one of the listed messages -/
theorem execCode_err {la : String → Option Nat} {code : Code} (h : execCode c la code s = .error e) :
    MErr e := by
  cases code <;> simp only [execCode] at h
  case ADD => exact alu_err (seqNext_err h)
  case ADDRM => exact alu_err (seqNext_err h)
  case ADDMR => exact alu_err (seqNext_err h)
  case ADDI => exact alu_err (seqNext_err h)
  case ADDIM => exact alu_err (seqNext_err h)
  case SUB => exact alu_err (seqNext_err h)
  case SUBRM => exact alu_err (seqNext_err h)
  case SUBMR => exact alu_err (seqNext_err h)
  case SUBI => exact alu_err (seqNext_err h)
  case IMUL => exact alu_err (seqNext_err h)
  case IMULRM => exact alu_err (seqNext_err h)
  case IMULMR => cases h; exact .fixed _ (by simp [errFixed])
  case IDIV => exact idivOp_err (seqNext_err h)
  case IDIVM => exact idivOp_err (seqNext_err h)
  case CQO =>
    split at h
    · rename_i e' he; cases h; exact rd_err he
    · exact wr_err (seqNext_err h)
  case JMP =>
    split at h
    · rename_i e' he; cases h; exact rd_err he
    · cases h
  case LEAL r l =>
    split at h
    · cases h; exact merr_undefLabel l
    · exact wr_err (seqNext_err h)
  case MOV =>
    split at h
    · rename_i e' he; cases h; exact rdRaw_err he
    · exact wrRaw_err (seqNext_err h)
  case MOVS r r1 i =>
    cases h1 : rdRaw s r with
    | error e1 => simp only [h1] at h; cases h; exact rdRaw_err h1
    | ok v =>
      cases h2 : ea s r1 i with
      | error e2 => simp only [h1, h2] at h; cases h; exact ea_err h2
      | ok a => simp only [h1, h2] at h; exact storeWordRaw_err (seqNext_err h)
  case MOVL =>
    split at h
    · rename_i e' he; cases h; exact ea_err he
    · split at h
      · rename_i e' he; cases h; exact loadWordRaw_err he
      · exact wrRaw_err (seqNext_err h)
  case MOVI r i =>
    split at h
    · exact wr_err (seqNext_err h)
    · cases h; exact merr_imm i
  case MOVIM =>
    split at h
    · rename_i e' he; cases h; exact imm32_err he
    · exact writeLoc_err (seqNext_err h)
  case CMP => exact cmpOp_err (seqNext_err h)
  case CMPRM => exact cmpOp_err (seqNext_err h)
  case CMPMR => exact cmpOp_err (seqNext_err h)
  case CMPI => exact cmpOp_err (seqNext_err h)
  case CMPIM => exact cmpOp_err (seqNext_err h)
  case JEL => exact jcc_err h
  case JNEL => exact jcc_err h
  case JLL => exact jcc_err h
  case JLEL => exact jcc_err h
  case JGL => exact jcc_err h
  case JGEL => exact jcc_err h
  case PUSH r =>
    cases h1 : rdRaw s r with
    | error e1 => simp only [h1] at h; cases h; exact rdRaw_err h1
    | ok v =>
      cases h2 : rd s 0 with
      | error e2 => simp only [h1, h2] at h; cases h; exact rd_err h2
      | ok sp =>
        simp only [h1, h2] at h
        split at h
        · rename_i e' he; cases h; exact storeWordRaw_err he
        · exact wr_err (seqNext_err h)
  case POP =>
    split at h
    · rename_i e' he; cases h; exact rd_err he
    · split at h
      · rename_i e' he; cases h; exact loadWordRaw_err he
      · split at h
        · rename_i e' he; cases h; exact wr_err he
        · exact wrRaw_err (seqNext_err h)
  all_goals (cases h)

end Errs

/-! ## frames -/

/-- `s'` differs from `s` at most in the registers `W`, the stack words with an address in `A`, and in
    flags / heap / trace / counters -/
structure Fr (W : List Nat) (A : Nat → Prop) (s s' : State) : Prop where
  size : s'.regs.size = s.regs.size
  regs : ∀ r, r ∉ W → s'.regs[r]? = s.regs[r]?
  mem : ∀ n, ¬ A n → s'.stackMem[n]? = s.stackMem[n]?

theorem Fr.refl (W : List Nat) (A : Nat → Prop) (s : State) : Fr W A s s := ⟨rfl, fun _ _ => rfl, fun _ _ => rfl⟩

theorem Fr.mono {W W' : List Nat} {A A' : Nat → Prop} {s s' : State} (h : Fr W A s s')
    (hW : ∀ r, r ∈ W → r ∈ W') (hA : ∀ n, A n → A' n) : Fr W' A' s s' :=
  ⟨h.size, fun r hr => h.regs r (fun h' => hr (hW r h')), fun n hn => h.mem n (fun h' => hn (hA n h'))⟩

theorem Fr.trans {W : List Nat} {A : Nat → Prop} {s1 s2 s3 : State} (h1 : Fr W A s1 s2) (h2 : Fr W A s2 s3) :
    Fr W A s1 s3 :=
  ⟨h2.size.trans h1.size, fun r hr => (h2.regs r hr).trans (h1.regs r hr),
   fun n hn => (h2.mem n hn).trans (h1.mem n hn)⟩

theorem Fr.setFlags {W : List Nat} {A : Nat → Prop} {s s' : State} (h : Fr W A s s') (f : Option (Word × Word)) :
    Fr W A s { s' with flags := f } := ⟨h.size, h.regs, h.mem⟩

def NoAddr : Nat → Prop := fun _ => False

section Frames
variable {c : MachCfg} {s s' : State}

theorem wrRaw_fr {r : Reg} {v : Option Word} (h : wrRaw s r v = .ok s') : Fr [r] NoAddr s s' := by
  unfold wrRaw at h
  split at h
  · cases h
    refine ⟨by simp, ?_, fun _ _ => rfl⟩
    intro x hx
    have hne : ¬ r = x := fun e => hx (by simp [e])
    simp only [Array.set!_eq_setIfInBounds, Array.getElem?_setIfInBounds, hne, if_false]
  · cases h

theorem wr_fr {r : Reg} {v : Word} (h : wr s r v = .ok s') : Fr [r] NoAddr s s' := wrRaw_fr h

theorem storeWordRaw_fr {a : Word} {v : Option Word} (h : storeWordRaw c s a v = .ok s') :
    Fr [] (· = a.toNat) s s' := by
  unfold storeWordRaw at h
  dsimp only at h
  split at h
  · cases h
  · split at h
    · split at h
      · cases h; exact ⟨rfl, fun _ _ => rfl, fun _ _ => rfl⟩
      · cases h
    · split at h
      · cases h
        refine ⟨rfl, fun _ _ => rfl, ?_⟩
        intro n hn
        have hne : ¬ a.toNat = n := fun e => hn e.symm
        cases v with
        | none => simp only [Std.HashMap.getElem?_erase]; simp [hne]
        | some w => simp only [Std.HashMap.getElem?_insert]; simp [hne]
      · cases h

/-- address of the memory operand `[b + i]` in state `s` -/
def OpAddr (s : State) (b : Nat) (i : Int) : Nat → Prop :=
  fun n => ∃ v, rd s b = .ok v ∧ n = (v + BitVec.ofInt 64 i).toNat

theorem ea_spec {b : Reg} {i : Int} {a : Word} (h : ea s b i = .ok a) :
    ∃ v, rd s b = .ok v ∧ a = v + BitVec.ofInt 64 i := by
  unfold ea at h
  split at h
  · rename_i v d hv hd
    cases h
    refine ⟨v, hv, ?_⟩
    unfold imm32 at hd
    split at hd
    · cases hd; rfl
    · cases hd
  · cases h
  · cases h

theorem writeLoc_fr_r {r : Reg} {v : Word} (h : writeLoc c s (.r r) v = .ok s') : Fr [r] NoAddr s s' := wr_fr h

theorem writeLoc_fr_m {b : Reg} {i : Int} {v : Word} (h : writeLoc c s (.m b i) v = .ok s') :
    Fr [] (OpAddr s b i) s s' := by
  simp only [writeLoc] at h
  split at h
  · rename_i a ha
    obtain ⟨w, hw, rfl⟩ := ea_spec ha
    exact (storeWordRaw_fr h).mono (fun _ h => h) (fun n hn => ⟨w, hw, hn⟩)
  · cases h

theorem alu_fr_r {op : Word → Word → Word} {r : Reg} {src : Src} (h : alu c op s (.r r) src = .ok s') :
    Fr [r] NoAddr s s' := by
  unfold alu at h
  split at h
  · cases h
  · split at h
    · cases h
    · split at h
      · cases h
      · rename_i s1 hw
        cases h
        exact (writeLoc_fr_r hw).setFlags none

theorem alu_fr_m {op : Word → Word → Word} {b : Reg} {i : Int} {src : Src}
    (h : alu c op s (.m b i) src = .ok s') : Fr [] (OpAddr s b i) s s' := by
  unfold alu at h
  split at h
  · cases h
  · split at h
    · cases h
    · split at h
      · cases h
      · rename_i s1 hw
        cases h
        exact (writeLoc_fr_m hw).setFlags none

theorem cmpOp_fr {a : Loc} {b : Src} (h : cmpOp c s a b = .ok s') : Fr [] NoAddr s s' := by
  unfold cmpOp at h
  split at h
  · cases h
  · split at h
    · cases h
    · cases h; exact ⟨rfl, fun _ _ => rfl, fun _ _ => rfl⟩

theorem idivOp_fr {src : Loc} (h : idivOp c s src = .ok s') : Fr [4, 5] NoAddr s s' := by
  unfold idivOp at h
  cases h1 : rd s 4 with
  | error e1 => simp only [h1] at h; cases h
  | ok a =>
    cases h2 : rd s 5 with
    | error e2 => simp only [h1, h2] at h; cases h
    | ok d =>
      cases h3 : readLoc c s src with
      | error e3 => simp only [h1, h2, h3] at h; cases h
      | ok b =>
        simp only [h1, h2, h3] at h
        by_cases c1 : d ≠ (if a.slt 0 then BitVec.ofInt 64 (-1) else 0)
        · rw [if_pos c1] at h; cases h
        · rw [if_neg c1] at h
          by_cases c2 : b = 0
          · rw [if_pos c2] at h; cases h
          · rw [if_neg c2] at h
            by_cases c3 : (a = minInt64 && b = BitVec.ofInt 64 (-1)) = true
            · rw [if_pos c3] at h; cases h
            · rw [if_neg c3] at h
              cases h4 : wr s 4 (a.sdiv b) with
              | error e4 => simp only [h4] at h; cases h
              | ok s1 =>
                simp only [h4] at h
                cases h5 : wr s1 5 (a.srem b) with
                | error e5 => simp only [h5] at h; cases h
                | ok s2 =>
                  simp only [h5] at h
                  cases h
                  have f1 : Fr [4, 5] NoAddr s s1 := (wr_fr h4).mono (by simp) (fun _ h => h)
                  have f2 : Fr [4, 5] NoAddr s1 s2 := (wr_fr h5).mono (by simp) (fun _ h => h)
                  exact (f1.trans f2).setFlags none

theorem seqNext_ok_inv {r : M State} {ctl : Ctl} (h : seqNext r = .ok (s', ctl)) : r = .ok s' ∧ ctl = .next := by
  cases r with
  | ok s1 =>
    simp only [seqNext, Except.ok.injEq, Prod.mk.injEq] at h
    exact ⟨by rw [h.1], h.2.symm⟩
  | error e1 => simp [seqNext] at h

/-- the stack words an instruction may write: the addresses of its memory operands -/
def MemAddrs (s : State) (code : Code) : Nat → Prop :=
  fun n => ∃ b i, (b, i) ∈ codeMems code ∧ OpAddr s b i n

/-- SOUNDNESS of `codeWrites` / `codeMems`: an instruction other than push / pop changes at most the
    registers it is said to write and the stack words its memory operands address -/
theorem execCode_fr {la : String → Option Nat} {code : Code} {ctl : Ctl}
    (h : execCode c la code s = .ok (s', ctl)) (hns : isStackOp code = false) :
    Fr (codeWrites code) (MemAddrs s code) s s' := by
  have memI : ∀ {b : Nat} {i : Int}, (b, i) ∈ codeMems code → ∀ n, OpAddr s b i n → MemAddrs s code n :=
    fun hm n hn => ⟨_, _, hm, hn⟩
  cases code <;> simp only [execCode] at h <;> try (simp [isStackOp] at hns)
  case ADD r r1 => exact (alu_fr_r (seqNext_ok_inv h).1).mono (by simp [codeWrites]) (fun _ h => h.elim)
  case ADDRM r r1 i => exact (alu_fr_r (seqNext_ok_inv h).1).mono (by simp [codeWrites]) (fun _ h => h.elim)
  case ADDMR r1 i r => exact (alu_fr_m (seqNext_ok_inv h).1).mono (by simp) (memI (by simp [codeMems]))
  case ADDI r i => exact (alu_fr_r (seqNext_ok_inv h).1).mono (by simp [codeWrites]) (fun _ h => h.elim)
  case ADDIM r i1 i2 => exact (alu_fr_m (seqNext_ok_inv h).1).mono (by simp) (memI (by simp [codeMems]))
  case SUB r r1 => exact (alu_fr_r (seqNext_ok_inv h).1).mono (by simp [codeWrites]) (fun _ h => h.elim)
  case SUBRM r r1 i => exact (alu_fr_r (seqNext_ok_inv h).1).mono (by simp [codeWrites]) (fun _ h => h.elim)
  case SUBMR r1 i r => exact (alu_fr_m (seqNext_ok_inv h).1).mono (by simp) (memI (by simp [codeMems]))
  case SUBI r i => exact (alu_fr_r (seqNext_ok_inv h).1).mono (by simp [codeWrites]) (fun _ h => h.elim)
  case IMUL r r1 => exact (alu_fr_r (seqNext_ok_inv h).1).mono (by simp [codeWrites]) (fun _ h => h.elim)
  case IMULRM r r1 i => exact (alu_fr_r (seqNext_ok_inv h).1).mono (by simp [codeWrites]) (fun _ h => h.elim)
  case IDIV r => exact (idivOp_fr (seqNext_ok_inv h).1).mono (by simp [codeWrites]) (fun _ h => h.elim)
  case IDIVM r i => exact (idivOp_fr (seqNext_ok_inv h).1).mono (by simp [codeWrites]) (fun _ h => h.elim)
  case CQO =>
    split at h
    · cases h
    · exact (wr_fr (seqNext_ok_inv h).1).mono (by simp [codeWrites]) (fun _ h => h.elim)
  case JMP r =>
    split at h
    · cases h
    · cases h; exact Fr.refl _ _ _
  case JMPL l => cases h; exact Fr.refl _ _ _
  case JMPLN l => cases h; exact Fr.refl _ _ _
  case LEAL r l =>
    split at h
    · cases h
    · exact (wr_fr (seqNext_ok_inv h).1).mono (by simp [codeWrites]) (fun _ h => h.elim)
  case MOV r r1 =>
    split at h
    · cases h
    · exact (wrRaw_fr (seqNext_ok_inv h).1).mono (by simp [codeWrites]) (fun _ h => h.elim)
  case MOVS r r1 i =>
    split at h
    · cases h
    · cases h
    · rename_i v a hv ha
      obtain ⟨w, hw, rfl⟩ := ea_spec ha
      exact (storeWordRaw_fr (seqNext_ok_inv h).1).mono (by simp)
        (fun n hn => memI (b := r1) (i := i) (by simp [codeMems]) n ⟨w, hw, hn⟩)
  case MOVL r r1 i =>
    split at h
    · cases h
    · split at h
      · cases h
      · exact (wrRaw_fr (seqNext_ok_inv h).1).mono (by simp [codeWrites]) (fun _ h => h.elim)
  case MOVI r i =>
    split at h
    · exact (wr_fr (seqNext_ok_inv h).1).mono (by simp [codeWrites]) (fun _ h => h.elim)
    · cases h
  case MOVIM r i1 i2 =>
    split at h
    · cases h
    · exact (writeLoc_fr_m (seqNext_ok_inv h).1).mono (by simp) (memI (by simp [codeMems]))
  case CMP r r1 => exact (cmpOp_fr (seqNext_ok_inv h).1).mono (by simp) (fun _ h => h.elim)
  case CMPRM r r1 i => exact (cmpOp_fr (seqNext_ok_inv h).1).mono (by simp) (fun _ h => h.elim)
  case CMPMR r i r1 => exact (cmpOp_fr (seqNext_ok_inv h).1).mono (by simp) (fun _ h => h.elim)
  case CMPI r i => exact (cmpOp_fr (seqNext_ok_inv h).1).mono (by simp) (fun _ h => h.elim)
  case CMPIM r i1 i2 => exact (cmpOp_fr (seqNext_ok_inv h).1).mono (by simp) (fun _ h => h.elim)
  case JEL l => unfold jcc at h; split at h <;> cases h; exact Fr.refl _ _ _
  case JNEL l => unfold jcc at h; split at h <;> cases h; exact Fr.refl _ _ _
  case JLL l => unfold jcc at h; split at h <;> cases h; exact Fr.refl _ _ _
  case JLEL l => unfold jcc at h; split at h <;> cases h; exact Fr.refl _ _ _
  case JGL l => unfold jcc at h; split at h <;> cases h; exact Fr.refl _ _ _
  case JGEL l => unfold jcc at h; split at h <;> cases h; exact Fr.refl _ _ _
  all_goals (cases h; try exact Fr.refl _ _ _)

/-- control after an instruction: fall through, or exactly the transfer the instruction denotes -/
theorem execCode_ctl {la : String → Option Nat} {code : Code} {ctl : Ctl}
    (h : execCode c la code s = .ok (s', ctl)) :
    ctl = .next ∨ (∃ l, codeJumpRef code = some l ∧ ctl = .jumpLabel l) ∨
      (∃ l, code = .JMPLN l ∧ ctl = .jumpLabel l) ∨ (∃ r a, code = .JMP r ∧ ctl = .jumpAddr a) ∨
      (∃ f, code = .CALL f ∧ ctl = .callExt f ∧ s' = s) ∨ (code = .RET ∧ ctl = .ret ∧ s' = s) := by
  have jc : ∀ {cond : Word → Word → Bool} {l : String}, jcc s cond l = .ok (s', ctl) →
      ctl = .next ∨ ctl = .jumpLabel l := by
    intro cond l hj
    unfold jcc at hj
    split at hj
    · cases hj
    · cases hj
      split
      · exact Or.inr rfl
      · exact Or.inl rfl
  cases code <;> simp only [execCode] at h
  case ADD => exact Or.inl (seqNext_ok_inv h).2
  case ADDRM => exact Or.inl (seqNext_ok_inv h).2
  case ADDMR => exact Or.inl (seqNext_ok_inv h).2
  case ADDI => exact Or.inl (seqNext_ok_inv h).2
  case ADDIM => exact Or.inl (seqNext_ok_inv h).2
  case SUB => exact Or.inl (seqNext_ok_inv h).2
  case SUBRM => exact Or.inl (seqNext_ok_inv h).2
  case SUBMR => exact Or.inl (seqNext_ok_inv h).2
  case SUBI => exact Or.inl (seqNext_ok_inv h).2
  case IMUL => exact Or.inl (seqNext_ok_inv h).2
  case IMULRM => exact Or.inl (seqNext_ok_inv h).2
  case IMULMR => cases h
  case IDIV => exact Or.inl (seqNext_ok_inv h).2
  case IDIVM => exact Or.inl (seqNext_ok_inv h).2
  case CQO =>
    split at h
    · cases h
    · exact Or.inl (seqNext_ok_inv h).2
  case JMP r =>
    split at h
    · cases h
    · cases h; exact Or.inr (Or.inr (Or.inr (Or.inl ⟨r, _, rfl, rfl⟩)))
  case JMPL l => cases h; exact Or.inr (Or.inl ⟨l, rfl, rfl⟩)
  case JMPLN l => cases h; exact Or.inr (Or.inr (Or.inl ⟨l, rfl, rfl⟩))
  case LEAL =>
    split at h
    · cases h
    · exact Or.inl (seqNext_ok_inv h).2
  case MOV =>
    split at h
    · cases h
    · exact Or.inl (seqNext_ok_inv h).2
  case MOVS r r1 i =>
    cases h1 : rdRaw s r with
    | error e1 => simp only [h1] at h; cases h
    | ok v =>
      cases h2 : ea s r1 i with
      | error e2 => simp only [h1, h2] at h; cases h
      | ok a => simp only [h1, h2] at h; exact Or.inl (seqNext_ok_inv h).2
  case MOVL =>
    split at h
    · cases h
    · split at h
      · cases h
      · exact Or.inl (seqNext_ok_inv h).2
  case MOVI =>
    split at h
    · exact Or.inl (seqNext_ok_inv h).2
    · cases h
  case MOVIM =>
    split at h
    · cases h
    · exact Or.inl (seqNext_ok_inv h).2
  case CMP => exact Or.inl (seqNext_ok_inv h).2
  case CMPRM => exact Or.inl (seqNext_ok_inv h).2
  case CMPMR => exact Or.inl (seqNext_ok_inv h).2
  case CMPI => exact Or.inl (seqNext_ok_inv h).2
  case CMPIM => exact Or.inl (seqNext_ok_inv h).2
  case JEL l => exact (jc h).elim Or.inl fun e => Or.inr (Or.inl ⟨l, rfl, e⟩)
  case JNEL l => exact (jc h).elim Or.inl fun e => Or.inr (Or.inl ⟨l, rfl, e⟩)
  case JLL l => exact (jc h).elim Or.inl fun e => Or.inr (Or.inl ⟨l, rfl, e⟩)
  case JLEL l => exact (jc h).elim Or.inl fun e => Or.inr (Or.inl ⟨l, rfl, e⟩)
  case JGL l => exact (jc h).elim Or.inl fun e => Or.inr (Or.inl ⟨l, rfl, e⟩)
  case JGEL l => exact (jc h).elim Or.inl fun e => Or.inr (Or.inl ⟨l, rfl, e⟩)
  case PUSH r =>
    cases h1 : rdRaw s r with
    | error e1 => simp only [h1] at h; cases h
    | ok v =>
      cases h2 : rd s 0 with
      | error e2 => simp only [h1, h2] at h; cases h
      | ok sp =>
        simp only [h1, h2] at h
        split at h
        · cases h
        · exact Or.inl (seqNext_ok_inv h).2
  case POP =>
    split at h
    · cases h
    · split at h
      · cases h
      · split at h
        · cases h
        · exact Or.inl (seqNext_ok_inv h).2
  case CALL f => cases h; exact Or.inr (Or.inr (Or.inr (Or.inr (Or.inl ⟨f, rfl, rfl, rfl⟩))))
  case RET => cases h; exact Or.inr (Or.inr (Or.inr (Or.inr (Or.inr ⟨rfl, rfl, rfl⟩))))
  all_goals (cases h; exact Or.inl rfl)

end Frames

end Scc.X86
