/-
  Scc.X86.WfItems — C14 for x86-64: the validator `wfItems` (Scc/X86/Machine.lean) characterised on the
  proof side.  `WfSpec codes` lists, as propositions about the item list, what `wfItems` tests with a hash
  map and `find?`:
    labels pairwise distinct; `extern` symbols are runtime symbols and not defined; every referenced label is
    defined or external; every item passes `codeOperandError`; `call` only of external symbols; `jmp near`
    only directly after a label or another `jmp near` (comments aside).
  `wfItems_of_spec`: `WfSpec (items.map (·.1)) → wfItems items = .ok ()` (line numbers are irrelevant), and
  `WfSpec` does not depend on the text of comments (`wfSpec_of_stripC`).
  Proof file.
-/
import Scc.X86.Machine
import Scc.X86.RefStep

set_option linter.unusedVariables false
set_option linter.unusedSimpArgs false

namespace Scc.X86.Wf

open Scc.X86 Scc.X86.Ref

/-- the `extern` symbols of an item list -/
def extsOf (codes : List Code) : List String :=
  codes.filterMap fun c => match c with | .EXTERN f => some f | _ => none

/-- `tableCheck` without line numbers -/
def tableOK : List Code → Bool → Bool
  | [], _ => true
  | c :: rest, inTable =>
    match c with
    | .JMPLN _ => if inTable then tableOK rest true else false
    | .LAB _ => tableOK rest true
    | .COMMENT _ => tableOK rest inTable
    | _ => tableOK rest false

structure WfSpec (codes : List Code) : Prop where
  nodup : (labs codes).Nodup
  exts : ∀ f ∈ extsOf codes, f ∈ externals ∧ f ∉ labs codes
  refs : ∀ c ∈ codes, ∀ l, codeLabelRef c = some l → l ∈ labs codes ∨ l ∈ extsOf codes
  ops : ∀ c ∈ codes, codeOperandError c = none
  calls : ∀ c ∈ codes, ∀ f, c = .CALL f → f ∈ extsOf codes
  table : tableOK codes false = true

/-! ## the hash map of label definitions -/

abbrev defsOf (items : List (Code × Nat)) : List (String × Nat) :=
  items.filterMap (fun (c, n) => (codeLabelDef c).map (fun l => (l, n)))

abbrev countMap (defs : List (String × Nat)) (m0 : Std.HashMap String Nat) : Std.HashMap String Nat :=
  defs.foldl (fun m (l, _) => m.insert l (m.getD l 0 + 1)) m0

theorem countMap_getD (l : String) : ∀ (defs : List (String × Nat)) (m0 : Std.HashMap String Nat),
    (countMap defs m0).getD l 0 = m0.getD l 0 + (defs.map (·.1)).count l
  | [], m0 => by simp [countMap]
  | (l', n) :: rest, m0 => by
    show (countMap rest (m0.insert l' (m0.getD l' 0 + 1))).getD l 0 = _
    rw [countMap_getD l rest, Std.HashMap.getD_insert]
    simp only [List.map_cons, List.count_cons]
    by_cases e : l' = l
    · subst e; simp; omega
    · have : (l' == l) = false := by simpa using e
      simp [this]

theorem countMap_contains (l : String) : ∀ (defs : List (String × Nat)) (m0 : Std.HashMap String Nat),
    (countMap defs m0).contains l = (m0.contains l || (defs.map (·.1)).contains l)
  | [], m0 => by simp [countMap]
  | (l', n) :: rest, m0 => by
    show (countMap rest (m0.insert l' (m0.getD l' 0 + 1))).contains l = _
    rw [countMap_contains l rest, Std.HashMap.contains_insert]
    simp only [List.map_cons, List.contains_cons]
    by_cases e : l' = l
    · subst e; simp
    · have h1 : (l' == l) = false := by simpa using e
      have h2 : (l == l') = false := by simpa using fun h => e h.symm
      simp [h1, h2]

theorem defsOf_map_fst (items : List (Code × Nat)) : (defsOf items).map (·.1) = labs (items.map (·.1)) := by
  induction items with
  | nil => rfl
  | cons x xs ih =>
    obtain ⟨c, n⟩ := x
    simp only [defsOf, List.filterMap_cons, List.map_cons, labs] at ih ⊢
    cases h : codeLabelDef c with
    | none => simpa [h] using ih
    | some l => simpa [h] using ih

/-! ## tableCheck -/

theorem tableCheck_of_tableOK : ∀ (items : List (Code × Nat)) (b : Bool),
    tableOK (items.map (·.1)) b = true → tableCheck items b = .ok ()
  | [], _, _ => rfl
  | (c, n) :: rest, b, h => by
    cases c <;> simp only [List.map_cons, tableOK, tableCheck] at h ⊢ <;>
      first
        | exact tableCheck_of_tableOK rest _ h
        | (split at h
           · rw [if_pos (by assumption)]; exact tableCheck_of_tableOK rest _ h
           · cases h)

/-! ## the validator -/

theorem find?_none_of {α : Type} {p : α → Bool} {l : List α} (h : ∀ a ∈ l, p a = false) : l.find? p = none := by
  rw [List.find?_eq_none]
  intro a ha
  simp [h a ha]

theorem wfItems_of_spec (items : List (Code × Nat)) (h : WfSpec (items.map (·.1))) : wfItems items = .ok () := by
  have hcount : ∀ l, (countMap (defsOf items) ∅).getD l 0 = (labs (items.map (·.1))).count l := by
    intro l
    rw [countMap_getD, defsOf_map_fst]
    simp
  have hcont : ∀ l, (countMap (defsOf items) ∅).contains l = (labs (items.map (·.1))).contains l := by
    intro l
    rw [countMap_contains, defsOf_map_fst]
    simp
  -- 1. duplicates
  have h1 : (defsOf items).find? (fun (x : String × Nat) => decide ((countMap (defsOf items) ∅).getD x.1 0 ≠ 1)) = none := by
    apply find?_none_of
    intro x hx
    rw [hcount]
    have hm : x.1 ∈ labs (items.map (·.1)) := by
      rw [← defsOf_map_fst]; exact List.mem_map.2 ⟨x, hx, rfl⟩
    have : (labs (items.map (·.1))).count x.1 = 1 := by rw [h.nodup.count, if_pos hm]
    rw [this]; rfl
  -- 2. externs
  have h2 : (extsOf (items.map (·.1))).find?
      (fun f => !externals.contains f || (countMap (defsOf items) ∅).contains f) = none := by
    apply find?_none_of
    intro f hf
    obtain ⟨e1, e2⟩ := h.exts f hf
    rw [hcont]
    have : (labs (items.map (·.1))).contains f = false := by simpa using e2
    have h3 : externals.contains f = true := by simpa using e1
    rw [this, h3]; rfl
  -- 3. references
  have h3 : items.find? (fun (x : Code × Nat) => match codeLabelRef x.1 with
      | some l => !((countMap (defsOf items) ∅).contains l || (extsOf (items.map (·.1))).contains l)
      | none => false) = none := by
    apply find?_none_of
    intro x hx
    cases hr : codeLabelRef x.1 with
    | none => rfl
    | some l =>
      dsimp only
      rw [hcont]
      rcases h.refs x.1 (List.mem_map.2 ⟨x, hx, rfl⟩) l hr with hl | hl
      · have : (labs (items.map (·.1))).contains l = true := by simpa using hl
        rw [this]; rfl
      · have : (extsOf (items.map (·.1))).contains l = true := by simpa using hl
        rw [this, Bool.or_true]; rfl
  -- 4. operands
  have h4 : items.findSome? (fun (x : Code × Nat) => (codeOperandError x.1).map (fun e => s!"line {x.2}: {e}")) = none := by
    rw [List.findSome?_eq_none_iff]
    intro x hx
    rw [h.ops x.1 (List.mem_map.2 ⟨x, hx, rfl⟩)]
    rfl
  -- 5. calls
  have h5 : items.find? (fun (x : Code × Nat) => match x.1 with
      | .CALL f => !(extsOf (items.map (·.1))).contains f | _ => false) = none := by
    apply find?_none_of
    intro x hx
    obtain ⟨c, n⟩ := x
    cases c <;> try rfl
    rename_i f
    have := h.calls _ (List.mem_map.2 ⟨_, hx, rfl⟩) f rfl
    have : (extsOf (items.map (·.1))).contains f = true := by simpa using this
    show (!(extsOf (items.map (·.1))).contains f) = false
    rw [this]; rfl
  have h6 := tableCheck_of_tableOK items false h.table
  unfold wfItems
  dsimp only
  generalize hE : (List.filterMap _ items : List String) = E
  have hE' : E = extsOf (items.map (·.1)) := by
    rw [← hE]; unfold extsOf; rw [List.filterMap_map]; rfl
  subst hE'
  split
  · rename_i l n heq; exact absurd (h1.symm.trans heq) (by simp)
  · split
    · rename_i f heq; exact absurd (h2.symm.trans heq) (by simp)
    · split
      · rename_i c n heq; exact absurd (h3.symm.trans heq) (by simp)
      · split
        · rename_i e heq; exact absurd (h4.symm.trans heq) (by simp)
        · split
          · rename_i c n heq; exact absurd (h5.symm.trans heq) (by simp)
          · exact h6

/-- conversely, the validator rejects every item list that defines a label twice -/
theorem wfItems_nodup (items : List (Code × Nat)) (h : wfItems items = .ok ()) :
    (labs (items.map (·.1))).Nodup := by
  have hcount : ∀ l, (countMap (defsOf items) ∅).getD l 0 = (labs (items.map (·.1))).count l := by
    intro l
    rw [countMap_getD, defsOf_map_fst]
    simp
  unfold wfItems at h
  dsimp only at h
  split at h
  · cases h
  · rename_i hnone
    rw [List.nodup_iff_count]
    intro l
    by_cases hl : l ∈ labs (items.map (·.1))
    · rw [← defsOf_map_fst] at hl
      obtain ⟨x, hx, rfl⟩ := List.mem_map.1 hl
      have := List.find?_eq_none.1 hnone x hx
      have h1 : (countMap (defsOf items) ∅).getD x.1 0 = 1 := by simpa using this
      rw [hcount] at h1
      omega
    · have : (labs (items.map (·.1))).count l = 0 := List.count_eq_zero.2 hl
      omega

/-! ## comments -/

theorem labs_map_stripC (codes : List Code) : labs (codes.map stripC) = labs codes := by
  unfold labs
  rw [List.filterMap_map]
  congr 1
  funext c
  cases c <;> rfl

theorem extsOf_map_stripC (codes : List Code) : extsOf (codes.map stripC) = extsOf codes := by
  unfold extsOf
  rw [List.filterMap_map]
  congr 1
  funext c
  cases c <;> rfl

theorem tableOK_map_stripC : ∀ (codes : List Code) (b : Bool), tableOK (codes.map stripC) b = tableOK codes b
  | [], _ => rfl
  | c :: rest, b => by
    cases c <;> simp only [List.map_cons, stripC, tableOK, tableOK_map_stripC rest]

theorem codeLabelRef_stripC (c : Code) : codeLabelRef (stripC c) = codeLabelRef c := by cases c <;> rfl
theorem codeOperandError_stripC (c : Code) : codeOperandError (stripC c) = codeOperandError c := by
  cases c <;> rfl
theorem call_stripC {c : Code} {f : String} : stripC c = .CALL f ↔ c = .CALL f := by
  cases c <;> simp [stripC]

/-- `WfSpec` does not depend on the text of comments -/
theorem wfSpec_stripC_iff (codes : List Code) : WfSpec (codes.map stripC) ↔ WfSpec codes := by
  constructor
  · intro h
    refine ⟨by rw [← labs_map_stripC]; exact h.nodup, ?_, ?_, ?_, ?_, by rw [← tableOK_map_stripC]; exact h.table⟩
    · intro f hf
      have := h.exts f (by rw [extsOf_map_stripC]; exact hf)
      rwa [labs_map_stripC] at this
    · intro c hc l hl
      have := h.refs (stripC c) (List.mem_map.2 ⟨c, hc, rfl⟩) l (by rw [codeLabelRef_stripC]; exact hl)
      rwa [labs_map_stripC, extsOf_map_stripC] at this
    · intro c hc
      have := h.ops (stripC c) (List.mem_map.2 ⟨c, hc, rfl⟩)
      rwa [codeOperandError_stripC] at this
    · intro c hc f hf
      have := h.calls (stripC c) (List.mem_map.2 ⟨c, hc, rfl⟩) f (call_stripC.2 hf)
      rwa [extsOf_map_stripC] at this
  · intro h
    refine ⟨by rw [labs_map_stripC]; exact h.nodup, ?_, ?_, ?_, ?_, by rw [tableOK_map_stripC]; exact h.table⟩
    · intro f hf
      rw [extsOf_map_stripC] at hf
      rw [labs_map_stripC]
      exact h.exts f hf
    · intro c' hc l hl
      obtain ⟨c, hc0, rfl⟩ := List.mem_map.1 hc
      rw [labs_map_stripC, extsOf_map_stripC]
      exact h.refs c hc0 l (by rw [← codeLabelRef_stripC]; exact hl)
    · intro c' hc
      obtain ⟨c, hc0, rfl⟩ := List.mem_map.1 hc
      rw [codeOperandError_stripC]
      exact h.ops c hc0
    · intro c' hc f hf
      obtain ⟨c, hc0, rfl⟩ := List.mem_map.1 hc
      rw [extsOf_map_stripC]
      exact h.calls c hc0 f (call_stripC.1 hf)

theorem wfSpec_of_stripC {codes codes' : List Code} (e : codes'.map stripC = codes.map stripC)
    (h : WfSpec codes) : WfSpec codes' :=
  (wfSpec_stripC_iff codes').1 (e ▸ (wfSpec_stripC_iff codes).2 h)

end Scc.X86.Wf
