/-
  Scc.X86.ConcKPeakRun — THE THREE-WAY RUN WITH THE FOOTPRINT BOUND OF C10, ALL PROGRAMS (data types and
  closures): the port of Scc/X86/ConcPeakRun.lean to the closure-aware relation `Scc.X86.Ref.K.Rel3`.
  If at no statement boundary of the run more than `Pk` blocks are in use (`PeakFrom`), the allocation frontier
  never rises above `Pk + 1` blocks, so a heap of `64·(Pk + A + 2)` bytes is enough for a run of ANY length,
  `A` = the largest number of fields of a `let` / of variables captured by a `create` of the program
  (`K.AllocLe A`: a closure environment is stored by the same `Memory::store` as the fields of an object).
  The bound `AllocLe A` is kept for the current statement AND for the clauses of every closure inside the
  values of the environment (`K.ValAll`, `K.hered_step`): `invoke` continues with a statement taken out of a
  closure value.  The machine may be ahead of the boundary state by labels and comments (`Tol`).
  `FrBound`, `LiveLe0`, `FrBound.step`, `Room.of_frBound` are those of ConcPeakRun.lean (block level).
-/
import Scc.X86.ConcKRun
import Scc.X86.ConcPeakRun

set_option linter.unusedVariables false
set_option linter.unusedSimpArgs false

namespace Scc.X86.ConcK

open Scc Scc.AxCut Scc.AxCut.Pos Scc.Backend Scc.Backend.Abs Scc.Backend.Sim Scc.Backend.Subst Scc.X86 Scc.X86.Ref
open Scc.Backend.Sim2 Scc.Backend.Keys
open Scc.Props.C14Generic (LabelSafe)
open Scc.Props.C06Generic (outAfter WithinCapacity Reachable EnoughHeap CodeFits statesOf stopsWithin)
open Scc.Heap (HState InvS InvW Exhausted)
open Scc.Heap.Refine (HRef FrLe Room FrPk)
open Scc.X86.Conc (BChain FrBound LiveLe LiveLe0)

/-- THE PEAK HYPOTHESIS from the machine state `X` on: at every statement boundary the machine reaches from
`X` (up to labels and comments, `Tol`; with at most `C` blocks below the frontier), at most `Pk` blocks are
in use -/
def PeakFrom (F : Frame) (mon : MonCfg) (px : X86.Prog) (cs : List Code) (P : Program) (hooks : Bool)
    (prog : AxCut.Prog) (st : Pos.State) (X : State) (Pk C : Nat) : Prop :=
  ∀ n XR X' st' cfg' hs', Reachable prog st st' → stepN mon px n X = .inl XR → Tol cs X' XR →
    K.Rel3 F cs P hooks prog st' cfg' hs' X' → FrBound hs' C → LiveLe0 hs' Pk

theorem PeakFrom.step {F : Frame} {mon : MonCfg} {px : X86.Prog} {cs : List Code} {P : Program} {hooks : Bool}
    {prog : AxCut.Prog} {st st1 : Pos.State} {o : Option (Bool × Word)} {X X' : State} {Pk C n : Nat}
    (h : PeakFrom F mon px cs P hooks prog st X Pk C) (hs : Pos.step prog st = .next st1 o)
    (hn : stepN mon px n X = .inl X') : PeakFrom F mon px cs P hooks prog st1 X' Pk C :=
  fun n' XR X'' st' cfg' hs' hr hn' T R =>
    h (n + n') XR X'' st' cfg' hs' (Scc.Props.C06Generic.reachable_prepend hs hr) (stepN_trans mon px hn hn') T R

/-- the relation of the chains of this file: the machine state is a boundary state up to `Tol`, with the two
bounds on the frontier -/
def ChainRel (F : Frame) (cs : List Code) (P : Program) (hooks : Bool) (prog : AxCut.Prog) (Pk C : Nat)
    (st : Pos.State) (X : State) : Prop :=
  ∃ X0 cfg hs, Tol cs X0 X ∧ K.Rel3 F cs P hooks prog st cfg hs X0 ∧ FrBound hs (Pk + 1) ∧ FrBound hs C

section Run3P

variable {F : Frame} (HF : FrameOK F) (h8 : F.c.heapBase % 8 = 0) {mon : MonCfg} (hmon : mon.mach = F.c)
  {px : X86.Prog} {cs pre : List Code} (LA : LoadedA F.c px cs) (hndL : (labs cs).Nodup)
  (hfitX : addrAt F.c.codeBase cs cs.length < 2 ^ 64) (hcs : cs = pre ++ cleanup)
  (hclean : "cleanup" ∉ labs pre) {st0 : State} {h : Word} (E : EntryFacts F st0 h)

include HF h8 hmon LA hndL hfitX hcs hclean E in
/-- THE THREE-WAY RUN UNDER THE FOOTPRINT BOUND, all programs: a heap of `64·(Pk + A + 2)` bytes is enough for a
terminating run of any length whose boundaries have at most `Pk` blocks in use; the frontier stays below
`Pk + 1` blocks at every boundary -/
theorem run3_peak (hooks : Bool) (prog : AxCut.Prog) (c : Nat) (code : List MockOp) (nargs c' : Nat)
    (hcomp : (compile mockSym hooks prog).run c = .ok ((code, nargs), c'))
    (hsafe : LabelSafe prog = true) (htp : LinTypedProg prog) (hfit : CodeFits code)
    (DX : K.XDefsAt cs hooks prog) (hprog : K.ProgOK prog) (Pk C A : Nat)
    (hA : ∀ d ∈ prog.defs, K.AllocLe A d.body)
    (hbytes : 64 * (Pk + A + 2) ≤ F.c.heapBytes) :
    ∀ (fuel : Nat) (st : Pos.State) (acc : List (Bool × Word)) (cfg : Config) (hs : HState) (X0 X : State)
      (out : List (Bool × Word)) (v : Word) (Cb : Nat),
      Pos.StateTyped prog st → (∀ st', Reachable prog st st' → 2 * st'.ctx.length ≤ 266) →
      Tol cs X0 X →
      K.Rel3 F cs (Program.ofOps code) hooks prog st cfg hs X0 → K.StmtOK st.stmt → K.AllocLe A st.stmt →
      (∀ w ∈ st.env, K.ValAll (K.AllocLeClauses A) w) →
      cfg.out = acc → cfg.next + fuel < 2 ^ 64 → FrBound hs (Pk + 1) →
      FrBound hs Cb → Cb + A * fuel ≤ C →
      PeakFrom F mon px cs (Program.ofOps code) hooks prog st X Pk C →
      Pos.runState prog fuel st acc = ⟨out, .done v⟩ →
      (∃ n XL, stepN mon px n X = .inl XL ∧ step mon px XL = .inr (.done v) ∧ XL.out.reverse = out) ∧
      BChain mon px (ChainRel F cs (Program.ofOps code) hooks prog Pk C) (statesOf prog fuel st) X
  | 0, st, acc, cfg, hs, X0, X, out, v, Cb, _, _, _, _, _, _, _, _, _, _, _, _, _, h => by
    simp [Pos.runState] at h
  | fuel + 1, st, acc, cfg, hs, X0, X, out, v, Cb, T, hcap, TL, R, hok, hlet, hvals, hacc, hnext, hfb, hcb, hC,
      hP, h => by
    have L := LA.loaded
    have hcC : FrBound hs C := fun rs lin lazy live F J => by have := hcb rs lin lazy live F J; omega
    have hX3 : ∃ Γ' ι κ, K.X3 F Γ' cfg hs ι κ X0 := by
      obtain ⟨Γ', ι, κ, _, _, X3h, _⟩ := R
      exact ⟨Γ', ι, κ, X3h⟩
    obtain ⟨Γ0, ι0, κ0, X3h⟩ := hX3
    have hbase := X3h.hrel.base
    have hlimit := X3h.hrel.limit
    have hAr := K.allocArity_le hlet
    have hCm : Cb + A ≤ C := by
      have : A ≤ A * (fuel + 1) := Nat.le_mul_of_pos_right A (by omega)
      omega
    have hroom : Room hs (64 * K.allocArity st.stmt + 64) :=
      Conc.Room.of_frBound hfb (by rw [hbase, hlimit]; omega)
    have hsim := K.step3P HF h8 hmon LA hndL hfitX hcs hclean E hooks prog c code nargs c' hcomp hsafe htp hfit
      DX hprog st cfg hs X0 R T (by unfold EnoughHeap; omega) hok hroom
    have hsafe' := Pos.step_safe htp st T
    have hw : ∃ rs lin lazy live F, InvS hs rs [] lin lazy live F := by
      obtain ⟨lin, lazy, live, Fr, I⟩ := X3h.href.conc
      exact ⟨_, lin, lazy, live, Fr, I⟩
    unfold K.StepSim3P at hsim
    simp only [Pos.runState] at h
    simp only [statesOf]
    cases hst : Pos.step prog st with
    | stuck w => simp [hst] at h
    | done v' =>
      simp only [hst] at h hsim
      obtain ⟨n, XL, h1, h2, h3⟩ := hsim
      simp only [Pos.Behaviour.mk.injEq, Pos.Result.done.injEq] at h
      obtain ⟨rfl, rfl⟩ := h
      obtain ⟨k, hk⟩ := tol_run_done mon L TL h1 h2
      exact ⟨⟨k, XL, hk, h2, by rw [h3, hacc]⟩, ⟨X0, cfg, hs, TL, R, hfb, hcC⟩, Or.inl rfl⟩
    | next st' o =>
      simp only [hst] at h hsim
      rw [hst] at hsafe'
      have hc' := hcap st' (Reachable.step Reachable.refl hst)
      obtain ⟨cfg', hs', X', XR, n, h1, T', hreal, h2, h3, hfr, hpk, R', hok'⟩ :=
        hsim (K.withinCapacity_of_le hc') hc'
      obtain ⟨k, XR', hk, T''⟩ := tol_next mon L TL h1 T'
      have hacc' : cfg'.out = outAfter o acc := by rw [h2, hacc]
      have h' : Pos.runState prog fuel st' (outAfter o acc) = ⟨out, .done v⟩ := by
        cases o <;> exact h
      obtain ⟨hlet', hvals'⟩ := K.hered_step (K.hered_allocLe A) hA hst hlet hvals
      have hcb' : FrBound hs' (Cb + A) := hcb.of_frLe (K.FrLe.mono' hfr (by omega)) hw
      have hlive' : LiveLe0 hs' Pk := hP k XR' X' st' cfg' hs' (Reachable.step Reachable.refl hst) hk T'' R'
        (fun rs lin lazy live F J => by have := hcb' rs lin lazy live F J; omega)
      have hfb' : FrBound hs' (Pk + 1) := hfb.step hfr.2.1 hpk hw hlive'
      have hC' : Cb + A + A * fuel ≤ C := by
        have : A * (fuel + 1) = A * fuel + A := Nat.mul_succ A fuel
        omega
      obtain ⟨⟨n', XL, g1, g2, g3⟩, hch⟩ := run3_peak hooks prog c code nargs c' hcomp hsafe htp hfit DX hprog Pk C A
        hA hbytes fuel st' (outAfter o acc) cfg' hs' X' XR' out v (Cb + A) hsafe'
        (fun st'' hr => hcap st'' (Scc.Props.C06Generic.reachable_prepend hst hr)) T'' R' hok' hlet' hvals' hacc'
        (by omega) hfb' hcb' hC' (hP.step hst hk) h'
      exact ⟨⟨k + n', XL, stepN_trans mon px hk g1, g2, g3⟩, ⟨X0, cfg, hs, TL, R, hfb, hcC⟩,
        Or.inr ⟨k, XR', hk, hch⟩⟩

include HF h8 hmon LA hndL hfitX hcs hclean E in
/-- THE THREE-WAY RUN, EVERY PREFIX (terminating or not), all programs: for ANY number `fuel` of steps of the
positional machine from a represented state, the machine passes — without fault — through a boundary state
for every state `statesOf prog fuel st` the positional machine goes through, under the footprint bound -/
theorem run3_prefix (hooks : Bool) (prog : AxCut.Prog) (c : Nat) (code : List MockOp) (nargs c' : Nat)
    (hcomp : (compile mockSym hooks prog).run c = .ok ((code, nargs), c'))
    (hsafe : LabelSafe prog = true) (htp : LinTypedProg prog) (hfit : CodeFits code)
    (DX : K.XDefsAt cs hooks prog) (hprog : K.ProgOK prog) (Pk C A : Nat)
    (hA : ∀ d ∈ prog.defs, K.AllocLe A d.body)
    (hbytes : 64 * (Pk + A + 2) ≤ F.c.heapBytes) :
    ∀ (fuel : Nat) (st : Pos.State) (cfg : Config) (hs : HState) (X0 X : State) (Cb : Nat),
      Pos.StateTyped prog st → (∀ st', Reachable prog st st' → 2 * st'.ctx.length ≤ 266) →
      Tol cs X0 X →
      K.Rel3 F cs (Program.ofOps code) hooks prog st cfg hs X0 → K.StmtOK st.stmt → K.AllocLe A st.stmt →
      (∀ w ∈ st.env, K.ValAll (K.AllocLeClauses A) w) →
      cfg.next + fuel < 2 ^ 64 → FrBound hs (Pk + 1) →
      FrBound hs Cb → Cb + A * fuel ≤ C →
      PeakFrom F mon px cs (Program.ofOps code) hooks prog st X Pk C →
      BChain mon px (ChainRel F cs (Program.ofOps code) hooks prog Pk C) (statesOf prog fuel st) X
  | 0, st, cfg, hs, X0, X, Cb, _, _, TL, R, _, _, _, _, hfb, hcb, hC, _ =>
    ⟨⟨X0, cfg, hs, TL, R, hfb, fun rs lin lazy live F J => by have := hcb rs lin lazy live F J; omega⟩, Or.inl rfl⟩
  | fuel + 1, st, cfg, hs, X0, X, Cb, T, hcap, TL, R, hok, hlet, hvals, hnext, hfb, hcb, hC, hP => by
    have L := LA.loaded
    have hcC : FrBound hs C := fun rs lin lazy live F J => by have := hcb rs lin lazy live F J; omega
    have hX3 : ∃ Γ' ι κ, K.X3 F Γ' cfg hs ι κ X0 := by
      obtain ⟨Γ', ι, κ, _, _, X3h, _⟩ := R
      exact ⟨Γ', ι, κ, X3h⟩
    obtain ⟨Γ0, ι0, κ0, X3h⟩ := hX3
    have hbase := X3h.hrel.base
    have hlimit := X3h.hrel.limit
    have hAr := K.allocArity_le hlet
    have hCm : Cb + A ≤ C := by
      have : A ≤ A * (fuel + 1) := Nat.le_mul_of_pos_right A (by omega)
      omega
    have hroom : Room hs (64 * K.allocArity st.stmt + 64) :=
      Conc.Room.of_frBound hfb (by rw [hbase, hlimit]; omega)
    have hsim := K.step3P HF h8 hmon LA hndL hfitX hcs hclean E hooks prog c code nargs c' hcomp hsafe htp hfit
      DX hprog st cfg hs X0 R T (by unfold EnoughHeap; omega) hok hroom
    have hsafe' := Pos.step_safe htp st T
    have hw : ∃ rs lin lazy live F, InvS hs rs [] lin lazy live F := by
      obtain ⟨lin, lazy, live, Fr, I⟩ := X3h.href.conc
      exact ⟨_, lin, lazy, live, Fr, I⟩
    unfold K.StepSim3P at hsim
    simp only [statesOf]
    cases hst : Pos.step prog st with
    | stuck w => exact ⟨⟨X0, cfg, hs, TL, R, hfb, hcC⟩, Or.inl rfl⟩
    | done v' => exact ⟨⟨X0, cfg, hs, TL, R, hfb, hcC⟩, Or.inl rfl⟩
    | next st' o =>
      simp only [hst] at hsim
      rw [hst] at hsafe'
      have hc' := hcap st' (Reachable.step Reachable.refl hst)
      obtain ⟨cfg', hs', X', XR, n, h1, T', hreal, h2, h3, hfr, hpk, R', hok'⟩ :=
        hsim (K.withinCapacity_of_le hc') hc'
      obtain ⟨k, XR', hk, T''⟩ := tol_next mon L TL h1 T'
      obtain ⟨hlet', hvals'⟩ := K.hered_step (K.hered_allocLe A) hA hst hlet hvals
      have hcb' : FrBound hs' (Cb + A) := hcb.of_frLe (K.FrLe.mono' hfr (by omega)) hw
      have hlive' : LiveLe0 hs' Pk := hP k XR' X' st' cfg' hs' (Reachable.step Reachable.refl hst) hk T'' R'
        (fun rs lin lazy live F J => by have := hcb' rs lin lazy live F J; omega)
      have hfb' : FrBound hs' (Pk + 1) := hfb.step hfr.2.1 hpk hw hlive'
      have hC' : Cb + A + A * fuel ≤ C := by
        have : A * (fuel + 1) = A * fuel + A := Nat.mul_succ A fuel
        omega
      have hch := run3_prefix hooks prog c code nargs c' hcomp hsafe htp hfit DX hprog Pk C A
        hA hbytes fuel st' cfg' hs' X' XR' (Cb + A) hsafe'
        (fun st'' hr => hcap st'' (Scc.Props.C06Generic.reachable_prepend hst hr)) T'' R' hok' hlet' hvals'
        (by omega) hfb' hcb' hC' (hP.step hst hk)
      exact ⟨⟨X0, cfg, hs, TL, R, hfb, hcC⟩, Or.inr ⟨k, XR', hk, hch⟩⟩

end Run3P

end Scc.X86.ConcK
