/-
  Scc.X86.ConcKProgress — PROGRESS of the x86-64 machine along a run of the positional machine that does not
  end, ALL PROGRAMS (the port of Scc/X86/ConcProgress.lean to programs with closures).
  Every `call` AND every `invoke` makes the machine execute an item of non-zero size (`K.IsJump`; the
  `jmp label` resp. the indirect `jmp reg` — also when the machine is ahead of the statement boundary by
  labels and comments: `tol_next_real`), and every other step of the positional machine moves to a strictly
  smaller statement (`size_step`).  The statement an `invoke` continues with is a clause of a closure VALUE;
  its size is bounded by `M` (the largest definition body) because every closure inside the values of the
  environment was made by a `create` of the program text: the hereditary predicate `stmtSize · ≤ M` /
  `clausesSize · ≤ M` (`hered_size`, `K.hered_step`).  So along a run of the positional machine that is still
  going after `N·(M + 1) + |stmt|` steps the machine makes at least `N` transitions WITHOUT FAULT
  (`run3_progress`).
-/
import Scc.X86.ConcKPeakRun
import Scc.X86.ConcProgress

set_option linter.unusedVariables false
set_option linter.unusedSimpArgs false

namespace Scc.X86.ConcK

open Scc Scc.AxCut Scc.AxCut.Pos Scc.Backend Scc.Backend.Abs Scc.Backend.Sim Scc.Backend.Subst Scc.X86 Scc.X86.Ref
open Scc.Backend.Sim2 Scc.Backend.Keys
open Scc.Props.C14Generic (LabelSafe)
open Scc.Props.C06Generic (outAfter WithinCapacity Reachable EnoughHeap CodeFits statesOf stopsWithin)
open Scc.Heap (HState InvS InvW Exhausted)
open Scc.Heap.Refine (HRef FrLe Room FrPk)
open Scc.X86.Conc (BChain FrBound LiveLe LiveLe0 stmtSize clausesSize stmtSize_pos clausesSize_nth)

/-- the size bound passes to sub-statements and to the clauses of a `switch` / `create` -/
theorem hered_size (M : Nat) : K.Hered (fun s => stmtSize s ≤ M) (fun cl => clausesSize cl ≤ M) where
  lit h := by simp only [stmtSize] at h; omega
  op h := by simp only [stmtSize] at h; omega
  print h := by simp only [stmtSize] at h; omega
  ifc h := by simp only [stmtSize] at h; exact ⟨by omega, by omega⟩
  subst h := by simp only [stmtSize] at h; omega
  letS h := by simp only [stmtSize] at h; omega
  switch h := by simp only [stmtSize] at h; omega
  create h := by simp only [stmtSize] at h; exact ⟨by omega, by omega⟩
  nth h hc := by have := clausesSize_nth hc; omega

/-- a step of the positional machine is a `call` or an `invoke`, or moves to a strictly smaller statement -/
theorem size_step {prog : AxCut.Prog} {st st' : Pos.State} {o : Option (Bool × Word)}
    (hs : Pos.step prog st = .next st' o) :
    K.IsJump st.stmt ∨ stmtSize st'.stmt < stmtSize st.stmt := by
  obtain ⟨Γ, ρ, s⟩ := st
  cases s with
  | lit x n next fv =>
    simp only [Pos.step] at hs
    injection hs with h1 h2; subst h1; right; simp only [stmtSize]; omega
  | op x a o b next fv =>
    simp only [Pos.step] at hs
    split at hs
    · cases hs
    · split at hs
      · cases hs
      · split at hs
        · cases hs
        · injection hs with h1 h2; subst h1; right; simp only [stmtSize]; omega
  | print nl a next fv =>
    simp only [Pos.step] at hs
    split at hs
    · cases hs
    · injection hs with h1 h2; subst h1; right; simp only [stmtSize]; omega
  | ifc srt a b t e =>
    simp only [Pos.step] at hs
    right
    split at hs
    · cases hs
    · split at hs
      · injection hs with h1 h2; subst h1
        show stmtSize (if _ then t else e) < _
        simp only [stmtSize]
        split <;> omega
      · split at hs
        · cases hs
        · injection hs with h1 h2; subst h1
          show stmtSize (if _ then t else e) < _
          simp only [stmtSize]
          split <;> omega
  | exit a =>
    simp only [Pos.step] at hs
    split at hs <;> cases hs
  | letS x ty tag args next fv =>
    simp only [Pos.step] at hs
    split at hs
    · cases hs
    · split at hs
      · cases hs
      · injection hs with h1 h2; subst h1; right; simp only [stmtSize]; omega
  | switch x ty clauses fv =>
    simp only [Pos.step] at hs
    right
    split at hs
    · split at hs
      · cases hs
      · split at hs
        · split at hs
          · cases hs
          · rename_i c hc
            split at hs
            · cases hs
            · injection hs with h1 h2; subst h1
              have := clausesSize_nth hc
              simp only [stmtSize]
              exact this
        · cases hs
    · cases hs
  | create x ty env clauses next f1 f2 =>
    simp only [Pos.step] at hs
    right
    split at hs
    · cases hs
    · split at hs
      · cases hs
      · injection hs with h1 h2; subst h1; simp only [stmtSize]; omega
  | invoke x tag ty args => exact Or.inl trivial
  | call l args => exact Or.inl trivial
  | subst pairs next =>
    simp only [Pos.step] at hs
    split at hs
    · cases hs
    · injection hs with h1 h2; subst h1; right; simp only [stmtSize]; omega

section Run3P

variable {F : Frame} (HF : FrameOK F) (h8 : F.c.heapBase % 8 = 0) {mon : MonCfg} (hmon : mon.mach = F.c)
  {px : X86.Prog} {cs pre : List Code} (LA : LoadedA F.c px cs) (hndL : (labs cs).Nodup)
  (hfitX : addrAt F.c.codeBase cs cs.length < 2 ^ 64) (hcs : cs = pre ++ cleanup)
  (hclean : "cleanup" ∉ labs pre) {st0 : State} {h : Word} (E : EntryFacts F st0 h)

include HF h8 hmon LA hndL hfitX hcs hclean E in
/-- PROGRESS, all programs: along a run of the positional machine that is still going after
`N·(M + 1) + |stmt|` steps, the machine makes at least `N` transitions without fault -/
theorem run3_progress (hooks : Bool) (prog : AxCut.Prog) (c : Nat) (code : List MockOp) (nargs c' : Nat)
    (hcomp : (compile mockSym hooks prog).run c = .ok ((code, nargs), c'))
    (hsafe : LabelSafe prog = true) (htp : LinTypedProg prog) (hfit : CodeFits code)
    (DX : K.XDefsAt cs hooks prog) (hprog : K.ProgOK prog) (Pk C A M : Nat)
    (hA : ∀ d ∈ prog.defs, K.AllocLe A d.body) (hM : ∀ d ∈ prog.defs, stmtSize d.body ≤ M)
    (hbytes : 64 * (Pk + A + 2) ≤ F.c.heapBytes) :
    ∀ (fuel N : Nat) (st : Pos.State) (acc : List (Bool × Word)) (cfg : Config) (hs : HState) (X0 X : State)
      (out : List (Bool × Word)) (Cb : Nat),
      Pos.StateTyped prog st → (∀ st', Reachable prog st st' → 2 * st'.ctx.length ≤ 266) →
      Tol cs X0 X →
      K.Rel3 F cs (Program.ofOps code) hooks prog st cfg hs X0 → K.StmtOK st.stmt → K.AllocLe A st.stmt →
      (∀ w ∈ st.env, K.ValAll (K.AllocLeClauses A) w) →
      stmtSize st.stmt ≤ M → (∀ w ∈ st.env, K.ValAll (fun cl => clausesSize cl ≤ M) w) →
      cfg.next + fuel < 2 ^ 64 → FrBound hs (Pk + 1) →
      FrBound hs Cb → Cb + A * fuel ≤ C →
      PeakFrom F mon px cs (Program.ofOps code) hooks prog st X Pk C →
      Pos.runState prog fuel st acc = ⟨out, .outOfFuel⟩ → N * (M + 1) + stmtSize st.stmt ≤ fuel →
      ∃ n X', N ≤ n ∧ stepN mon px n X = .inl X'
  | _, 0, _, _, _, _, _, X, _, _, _, _, _, _, _, _, _, _, _, _, _, _, _, _, _, _ => ⟨0, X, Nat.le_refl _, rfl⟩
  | 0, N + 1, st, _, _, _, _, _, _, _, _, _, _, _, _, _, _, _, _, _, _, _, _, _, _, hN => by
    have := stmtSize_pos st.stmt
    omega
  | fuel + 1, N + 1, st, acc, cfg, hs, X0, X, out, Cb, T, hcap, TL, R, hok, hlet, hvals, hszM, hvalsM, hnext, hfb,
      hcb, hC, hP, hrun, hN => by
    have L := LA.loaded
    have hX3 : ∃ Γ' ι κ, K.X3 F Γ' cfg hs ι κ X0 := by
      obtain ⟨Γ', ι, κ, _, _, X3h, _⟩ := R
      exact ⟨Γ', ι, κ, X3h⟩
    obtain ⟨Γ0, ι0, κ0, X3h⟩ := hX3
    have hbase := X3h.hrel.base
    have hlimit := X3h.hrel.limit
    have hAr := K.allocArity_le hlet
    have hroom : Room hs (64 * K.allocArity st.stmt + 64) :=
      Conc.Room.of_frBound hfb (by rw [hbase, hlimit]; omega)
    have hsim := K.step3P HF h8 hmon LA hndL hfitX hcs hclean E hooks prog c code nargs c' hcomp hsafe htp hfit
      DX hprog st cfg hs X0 R T (by unfold EnoughHeap; omega) hok hroom
    have hsafe' := Pos.step_safe htp st T
    have hw : ∃ rs lin lazy live F, InvS hs rs [] lin lazy live F := by
      obtain ⟨lin, lazy, live, Fr, I⟩ := X3h.href.conc
      exact ⟨_, lin, lazy, live, Fr, I⟩
    unfold K.StepSim3P at hsim
    simp only [Pos.runState] at hrun
    cases hst : Pos.step prog st with
    | stuck w => simp [hst] at hrun
    | done v' => simp [hst] at hrun
    | next st' o =>
      simp only [hst] at hrun hsim
      rw [hst] at hsafe'
      have hc' := hcap st' (Reachable.step Reachable.refl hst)
      obtain ⟨cfg', hs', X', XR, n, h1, T', hreal, h2, h3, hfr, hpk, R', hok'⟩ :=
        hsim (K.withinCapacity_of_le hc') hc'
      obtain ⟨hlet', hvals'⟩ := K.hered_step (K.hered_allocLe A) hA hst hlet hvals
      obtain ⟨hszM', hvalsM'⟩ := K.hered_step (hered_size M) hM hst hszM hvalsM
      have hcb' : FrBound hs' (Cb + A) := hcb.of_frLe (K.FrLe.mono' hfr (by omega)) hw
      have hC' : Cb + A + A * fuel ≤ C := by
        have : A * (fuel + 1) = A * fuel + A := Nat.mul_succ A fuel
        omega
      have hrun' : Pos.runState prog fuel st' (outAfter o acc) = ⟨out, .outOfFuel⟩ := by
        cases o <;> exact hrun
      have hcapr : ∀ st'', Reachable prog st' st'' → 2 * st''.ctx.length ≤ 266 :=
        fun st'' hr => hcap st'' (Scc.Props.C06Generic.reachable_prepend hst hr)
      have hliveOf : ∀ k XR', stepN mon px k X = .inl XR' → Tol cs X' XR' → LiveLe0 hs' Pk :=
        fun k XR' hk T'' => hP k XR' X' st' cfg' hs' (Reachable.step Reachable.refl hst) hk T'' R'
          (fun rs lin lazy live F J => by
            have := hcb' rs lin lazy live F J
            have : A ≤ A * (fuel + 1) := Nat.le_mul_of_pos_right A (by omega)
            omega)
      rcases size_step hst with hj | hsz
      · -- a call or an invoke: at least one machine transition; the statement continued with is at most `M`
        obtain ⟨k, XR', hk1, hk, T''⟩ := tol_next_real mon L TL h1 T' (hreal hj)
        have hfb' : FrBound hs' (Pk + 1) := hfb.step hfr.2.1 hpk hw (hliveOf k XR' hk T'')
        have hN' : N * (M + 1) + stmtSize st'.stmt ≤ fuel := by
          have : (N + 1) * (M + 1) = N * (M + 1) + (M + 1) := Nat.succ_mul N (M + 1)
          have := stmtSize_pos st.stmt
          omega
        obtain ⟨n', X'', hn', hX''⟩ := run3_progress hooks prog c code nargs c' hcomp hsafe htp hfit DX hprog Pk C A M
          hA hM hbytes fuel N st' (outAfter o acc) cfg' hs' X' XR' out (Cb + A) hsafe' hcapr T'' R' hok' hlet' hvals'
          hszM' hvalsM' (by omega) hfb' hcb' hC' (hP.step hst hk) hrun' hN'
        exact ⟨k + n', X'', by omega, stepN_trans mon px hk hX''⟩
      · -- a smaller statement: same target
        obtain ⟨k, XR', hk, T''⟩ := tol_next mon L TL h1 T'
        have hfb' : FrBound hs' (Pk + 1) := hfb.step hfr.2.1 hpk hw (hliveOf k XR' hk T'')
        have hN' : (N + 1) * (M + 1) + stmtSize st'.stmt ≤ fuel := by omega
        obtain ⟨n', X'', hn', hX''⟩ := run3_progress hooks prog c code nargs c' hcomp hsafe htp hfit DX hprog Pk C A M
          hA hM hbytes fuel (N + 1) st' (outAfter o acc) cfg' hs' X' XR' out (Cb + A) hsafe' hcapr T'' R' hok' hlet'
          hvals' hszM' hvalsM' (by omega) hfb' hcb' hC' (hP.step hst hk) hrun' hN'
        exact ⟨k + n', X'', by omega, stepN_trans mon px hk hX''⟩

end Run3P

end Scc.X86.ConcK
