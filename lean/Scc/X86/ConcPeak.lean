/-
  Scc.X86.ConcPeak — the three-way step of Theorem B with the heap (Scc/X86/RefHeapRun.lean `step3`) with
  the C10 bookkeeping that `FrLe` does not carry:
  * the allocation frontier moves ONLY when both free lists are exhausted afterwards (`FrPk`, from
    `storeObj_spec`: fresh memory is taken only when both lists are empty);
  * the room a step needs and the distance the frontier may move are those of the CURRENT statement
    (`stmtArity`: the number of fields of a `let`, 0 for every other statement) instead of the uniform 134
    blocks of `step3`.
  `store_x3P`, `let_x3P`, `step3P` are `store_x3`, `let_x3`, `step3` with these refinements (same proofs).
  `LetLe A s`: every `let` of the statement `s` has at most `A` fields (preserved by the steps of the
  positional machine on programs without closures: `letLe_step`).
-/
import Scc.X86.RefHeapRun

set_option linter.unusedVariables false
set_option linter.unusedSimpArgs false

namespace Scc.Heap.Refine

open Scc.Heap
open Scc.Backend.Abs (Heap Obj Word)

/-- the frontier has not moved, or both free lists are exhausted (the reusable list is the one block it
always keeps, the deferred list is empty) — for all witnesses of the invariant -/
def FrPk (s s' : HState) : Prop :=
  ∀ rs lin lazy live F rs' lin' lazy' live' F', InvS s rs [] lin lazy live F →
    InvS s' rs' [] lin' lazy' live' F' → F' ≤ F ∨ Exhausted lin' lazy'

theorem FrPk.refl (s : HState) : FrPk s s :=
  fun _ _ _ _ _ _ _ _ _ _ J J' => Or.inl (by have := (InvS.witness_unique J J').2.2; omega)

theorem FrPk.of_frLe0 {s s' : HState} (h : FrLe s s' 0) : FrPk s s' :=
  fun _ _ _ _ _ _ _ _ _ _ J J' => Or.inl (by have := h.2.2 _ _ _ _ _ _ _ _ _ _ J J'; omega)

theorem frPk_store {h : Heap} {rsKeep : List Nat} {next : Nat} {s s' : HState} {ι : Nat → Nat} {o : Obj}
    {p : Nat} (R : HRef h (rsKeep ++ o.children) next s ι)
    (hroom : Room s (64 * o.fields.length + 64))
    (hs : storeObj s (o.fields.map (fieldImg ι)) = .ok (s', p)) : FrPk s s' := by
  obtain ⟨lin, lazy, live, F, I⟩ := R.conc
  obtain ⟨s'', p'', lin', lazy', live', F', hst, hsame, I', _, hF', _, hd⟩ :=
    storeObj_spec (o.fields.map (fieldImg ι)) (rsKeep.map ι) I
      (by
        intro x hx
        rw [children_eq, List.map_append, List.count_append, count_ptrsOf_children ι _ x hx]
        omega)
      (by have := hroom _ _ _ _ _ I; simp only [List.length_map]; omega)
  rw [hs] at hst
  injection hst with hst
  injection hst with e1 _
  subst e1
  intro rs1 lin1 lazy1 live1 F1 rs2 lin2 lazy2 live2 F2 J J'
  obtain ⟨_, _, e1⟩ := InvS.witness_unique I J
  obtain ⟨e2, e3, e4⟩ := InvS.witness_unique I' J'
  rcases hd with hd | hd
  · exact Or.inl (by omega)
  · exact Or.inr (by rw [e2, e3]; exact hd)

end Scc.Heap.Refine

namespace Scc.X86.Ref

open Scc Scc.AxCut Scc.AxCut.Pos Scc.Backend Scc.Backend.Abs Scc.Backend.Sim Scc.Backend.Subst Scc.X86
open Scc.Backend.Sim2 Scc.Backend.Keys
open Scc.Props.C14Generic (LabelSafe)
open Scc.Props.C06Generic (outAfter WithinCapacity Reachable EnoughHeap CodeFits fits_of_codeFits
  kinds_of_fieldsTyped chiTys_fst fresh_of_nodup_snoc take_of_append)
open Scc.Heap (HState InvS InvW)
open Scc.Heap.Refine (HRef imgW fieldImg kindB href_store FrLe Room frLe_store FrPk frPk_store)

/-- the number of fields a statement stores into a fresh object: the room it needs (in blocks, plus one) and
the distance the allocation frontier may move -/
def stmtArity : Stmt → Nat
  | .letS _ _ _ args _ _ => args.length
  | _ => 0

mutual
  /-- every `let` of the statement has at most `A` fields -/
  def LetLe (A : Nat) : Stmt → Prop
    | .lit _ _ next _ => LetLe A next
    | .op _ _ _ _ next _ => LetLe A next
    | .print _ _ next _ => LetLe A next
    | .ifc _ _ _ t e => LetLe A t ∧ LetLe A e
    | .exit _ => True
    | .call _ _ => True
    | .subst _ next => LetLe A next
    | .letS _ _ _ args next _ => args.length ≤ A ∧ LetLe A next
    | .switch _ _ clauses _ => LetLeClauses A clauses
    | .create _ _ _ clauses next _ _ => LetLeClauses A clauses ∧ LetLe A next
    | .invoke _ _ _ _ => True
  def LetLeClauses (A : Nat) : Clauses → Prop
    | .nil => True
    | .cons _ _ body rest => LetLe A body ∧ LetLeClauses A rest
end

theorem letLeClauses_nth {A : Nat} : ∀ {cs : Clauses} {i : Nat} {c : Clause}, LetLeClauses A cs →
    nthClause cs i = some c → LetLe A c.body
  | .nil, _, _, _, h => by simp [nthClause] at h
  | .cons x ctx body rest, 0, c, hd, h => by
    simp only [nthClause, Option.some.injEq] at h
    subst h
    exact hd.1
  | .cons x ctx body rest, i + 1, c, hd, h => by
    simp only [nthClause] at h
    exact letLeClauses_nth hd.2 h

mutual
  theorem LetLe.mono {A B : Nat} (hAB : A ≤ B) : ∀ (s : Stmt), LetLe A s → LetLe B s
    | .lit _ _ next _, h => LetLe.mono hAB next h
    | .op _ _ _ _ next _, h => LetLe.mono hAB next h
    | .print _ _ next _, h => LetLe.mono hAB next h
    | .ifc _ _ _ t e, h => ⟨LetLe.mono hAB t h.1, LetLe.mono hAB e h.2⟩
    | .exit _, _ => trivial
    | .call _ _, _ => trivial
    | .subst _ next, h => LetLe.mono hAB next h
    | .letS _ _ _ args next _, h => ⟨Nat.le_trans h.1 hAB, LetLe.mono hAB next h.2⟩
    | .switch _ _ clauses _, h => LetLeClauses.mono hAB clauses h
    | .create _ _ _ clauses next _ _, h => ⟨LetLeClauses.mono hAB clauses h.1, LetLe.mono hAB next h.2⟩
    | .invoke _ _ _ _, _ => trivial
  theorem LetLeClauses.mono {A B : Nat} (hAB : A ≤ B) : ∀ (cs : Clauses), LetLeClauses A cs → LetLeClauses B cs
    | .nil, _ => trivial
    | .cons _ _ body rest, h => ⟨LetLe.mono hAB body h.1, LetLeClauses.mono hAB rest h.2⟩
end

mutual
  /-- the largest number of fields of a `let` of the statement -/
  def maxLet : Stmt → Nat
    | .lit _ _ next _ => maxLet next
    | .op _ _ _ _ next _ => maxLet next
    | .print _ _ next _ => maxLet next
    | .ifc _ _ _ t e => max (maxLet t) (maxLet e)
    | .exit _ => 0
    | .call _ _ => 0
    | .subst _ next => maxLet next
    | .letS _ _ _ args next _ => max args.length (maxLet next)
    | .switch _ _ clauses _ => maxLetClauses clauses
    | .create _ _ _ clauses next _ _ => max (maxLetClauses clauses) (maxLet next)
    | .invoke _ _ _ _ => 0
  def maxLetClauses : Clauses → Nat
    | .nil => 0
    | .cons _ _ body rest => max (maxLet body) (maxLetClauses rest)
end

mutual
  theorem letLe_maxLet : ∀ (s : Stmt), LetLe (maxLet s) s
    | .lit _ _ next _ => letLe_maxLet next
    | .op _ _ _ _ next _ => letLe_maxLet next
    | .print _ _ next _ => letLe_maxLet next
    | .ifc _ _ _ t e => ⟨LetLe.mono (Nat.le_max_left _ _) t (letLe_maxLet t),
        LetLe.mono (Nat.le_max_right _ _) e (letLe_maxLet e)⟩
    | .exit _ => trivial
    | .call _ _ => trivial
    | .subst _ next => letLe_maxLet next
    | .letS _ _ _ args next _ => ⟨Nat.le_max_left _ _, LetLe.mono (Nat.le_max_right _ _) next (letLe_maxLet next)⟩
    | .switch _ _ clauses _ => letLeClauses_maxLet clauses
    | .create _ _ _ clauses next _ _ => ⟨LetLeClauses.mono (Nat.le_max_left _ _) clauses (letLeClauses_maxLet clauses),
        LetLe.mono (Nat.le_max_right _ _) next (letLe_maxLet next)⟩
    | .invoke _ _ _ _ => trivial
  theorem letLeClauses_maxLet : ∀ (cs : Clauses), LetLeClauses (maxLetClauses cs) cs
    | .nil => trivial
    | .cons _ _ body rest => ⟨LetLe.mono (Nat.le_max_left _ _) body (letLe_maxLet body),
        LetLeClauses.mono (Nat.le_max_right _ _) rest (letLeClauses_maxLet rest)⟩
end

/-- the largest number of fields of a `let` of the program -/
def progMaxLet (p : AxCut.Prog) : Nat := (p.defs.map fun d => maxLet d.body).foldr max 0

theorem le_foldr_max : ∀ (l : List Nat) (x : Nat), x ∈ l → x ≤ l.foldr max 0
  | [], _, h => by simp at h
  | a :: l, x, h => by
    simp only [List.foldr_cons]
    rcases List.mem_cons.1 h with rfl | h
    · exact Nat.le_max_left _ _
    · exact Nat.le_trans (le_foldr_max l x h) (Nat.le_max_right _ _)

theorem letLe_progMaxLet (p : AxCut.Prog) : ∀ d ∈ p.defs, LetLe (progMaxLet p) d.body := by
  intro d hd
  exact LetLe.mono (le_foldr_max _ _ (List.mem_map.2 ⟨d, hd, rfl⟩)) d.body (letLe_maxLet d.body)

theorem stmtArity_le {A : Nat} {s : Stmt} (h : LetLe A s) : stmtArity s ≤ A := by
  cases s <;> simp only [stmtArity] <;> first | exact Nat.zero_le _ | exact h.1

/-- THE ABSTRACT `store` (at least one field) AGAINST `Memory::store` -/
theorem store_x3P {F : Frame} (H : FrameOK F) (h8 : F.c.heapBase % 8 = 0) {la : String → Option Nat}
    {Γ : Ctx} {cfg cfg1 : Config} {hs : HState} {ι : Nat → Nat} {st : State}
    (X : X3 F Γ cfg hs ι st) {n : Nat} (hn : n < Γ.length) {fields : List Abs.Field}
    (hf : readFields cfg.temps (Mock.kindsOf (Γ.drop n)) n = some fields)
    (hch : Obj.children ⟨0, fields⟩ = roots.go cfg.temps (Γ.drop n) n)
    (hnext : cfg.next < 2 ^ 64)
    (hlow : ∀ t, t < 2 * n → cfg1.temps.get t = cfg.temps.get t)
    (hheap : cfg1.heap = (cfg.next, ⟨0, fields⟩) :: cfg.heap) (hnx : cfg1.next = cfg.next + 1)
    (hout : cfg1.out = cfg.out)
    (hroom : Room hs (64 * (Γ.length - n) + 64)) (kk : Nat) :
    ∃ code kk', (store (Γ.drop n) (Γ.take n)).run kk = .ok (code, kk') ∧ kk ≤ kk' ∧ LabsIn code kk kk' ∧
      ∃ st' hs' p, execFwd F.c la code st = .ok (st', .next) ∧ st'.pc = st.pc ∧
        X3R F (Γ.take n) cfg1 (roots (Γ.take n) cfg.temps ++ [cfg.next]) hs'
          (fun i => if i = cfg.next then p else ι i) st' ∧
        tempVal F.sp st' (posTemp (2 * n)) = some (BitVec.ofNat 64 p) ∧ p ≠ 0 ∧ p < 2 ^ 64 ∧
        FrLe hs hs' (64 * (Γ.length - n)) ∧ FrPk hs hs' := by
  have hnle : n ≤ Γ.length := Nat.le_of_lt hn
  have hlenT : (Γ.take n).length = n := by simp [Nat.min_eq_left hnle]
  have hlenD : (Γ.drop n).length = Γ.length - n := by simp
  have hsplit := roots_split cfg.temps Γ n hnle
  -- what the machine holds
  have hE : EnvFields (mview F.sp st) n (Γ.drop n) ((fields.map trF).map (fieldImg ι)) := by
    apply envFields_of_read (Γ.drop n) n fields hf
    · intro j hj a ha
      have hj' : n + j < Γ.length := by rw [hlenD] at hj; omega
      have := X.words (n + j) hj' a ha
      simpa using this
    · intro j hj hc r hr
      have hj' : n + j < Γ.length := by rw [hlenD] at hj; omega
      have hc' : Γ[n + j].chi ≠ .ext := by simpa using hc
      exact ⟨X.ptrs (n + j) hj' hc' r hr, fun h0 => (X3R.ref_lt X hj' hc' hr h0).1⟩
  have hflen : fields.length = Γ.length - n := by
    have := hE.length_eq
    simp only [List.length_map] at this
    rw [← this, hlenD]
  -- the block-level store
  have hcho : Obj.children ⟨0, fields.map trF⟩ = roots.go cfg.temps (Γ.drop n) n := by
    rw [← hch]; exact trO_children ⟨0, fields⟩
  have R0 : HRef (trHeap cfg.heap) (roots (Γ.take n) cfg.temps ++ Obj.children ⟨0, fields.map trF⟩) cfg.next
      hs ι := by
    rw [hcho, ← hsplit]; exact X.href
  obtain ⟨hs', p, hop, R1⟩ := href_store (o := ⟨0, fields.map trF⟩) rfl
    (by
      intro e
      have : fields.length = 0 := by simpa using congrArg List.length e
      omega)
    hnext R0
    (by
      obtain ⟨lin, lazy, live, Fr, I⟩ := X.href.conc
      refine ⟨lin, lazy, live, Fr, ?_, ?_⟩
      · rw [hcho, ← hsplit]; exact I
      · simp only [List.length_map]; rw [hflen]; have := hroom _ _ _ _ _ I; omega)
  have hfr : FrLe hs hs' (64 * (Γ.length - n)) := by
    have := frLe_store (o := ⟨0, fields.map trF⟩) R0
      (by simp only [List.length_map]; rw [hflen]; exact hroom) hop
    simpa [hflen] using this
  have hpk : FrPk hs hs' := frPk_store (o := ⟨0, fields.map trF⟩) R0
    (by simp only [List.length_map]; rw [hflen]; exact hroom) hop
  -- the machine
  obtain ⟨code, kk', hrun, hle, hlabs, st', hx, B', HR', ⟨w, hw, ew⟩, FT⟩ :=
    store_contract (la := la) h8 X.bnd X.hrel (toStore := Γ.drop n) (rem := Γ.take n)
      (by rw [hlenT, hlenD]; have := X.cap; omega) (by rw [hlenT]; exact hE) hop kk
  rw [hlenT] at hw FT
  have hnew : (cfg.next, (⟨0, fields.map trF⟩ : Obj)) ∈ (cfg.next, (⟨0, fields.map trF⟩ : Obj)) :: trHeap cfg.heap :=
    List.mem_cons_self
  have hp0 : p ≠ 0 := by
    have := (R1.shape _ hnew).pos
    simpa using this
  have hplt : p < 2 ^ 64 := by
    have h1 := href_head_lt R1 hnew
    simp only [if_true] at h1
    have h2 := HR'.limit
    have h3 := B'.sp.cfg.heapBelow
    have h4 := B'.sp.cfg.top
    have h5 := B'.sp.high
    have h6 := B'.sp.low
    omega
  have hkeep : ∀ t, t < 2 * n → tempVal F.sp st' (posTemp t) = tempVal F.sp st (posTemp t) := by
    intro t ht
    apply FT.temps _ (tempOK_posTemp (by have := X.cap; omega)).opnd
    intro hc
    rcases hc with e | e | e | ⟨j, _, e⟩
    · exact posTemp_ne_low t (by decide) e
    · exact posTemp_ne_low t (by decide) e
    · exact posTemp_ne_low t (by decide) e
    · have := posTemp_inj.1 e; omega
  refine ⟨code, kk', hrun, hle, hlabs, st', hs', p, hx, FT.pc, ?_, by rw [hw, ofNat_of_toNat ew], hp0, hplt, hfr, hpk⟩
  refine ⟨B', by rw [hlenT]; have := X.cap; omega, ?_, ?_, by rw [FT.out, hout]; exact X.out, ?_, HR', ?_⟩
  · intro i hi a ha
    rw [hlenT] at hi
    rw [hlow _ (by omega)] at ha
    rw [hkeep _ (by omega)]
    have := X.words i (by omega) a ha
    simpa using this
  · intro i hi hc r hr
    rw [hlenT] at hi
    have hi' : i < Γ.length := by omega
    have hc' : Γ[i].chi ≠ .ext := by simpa using hc
    rw [hlow _ (by omega)] at hr
    rw [hkeep _ (by omega), X.ptrs i hi' hc' r hr]
    congr 1
    unfold imgWord
    by_cases h0 : r = 0
    · simp [h0]
    · rw [if_neg h0, if_neg h0]
      have := (X3R.ref_lt X hi' hc' hr h0).2
      show _ = BitVec.ofNat 64 (if r.toNat = cfg.next then p else ι r.toNat)
      rw [if_neg (by omega)]
  · intro m hm
    rw [← X.frame m hm]
    apply FT.outside
    intro q _ e
    have := H.slot_lt q
    omega
  · rw [hheap, hnx]
    exact R1


section Let3

variable {F : Frame} (H : FrameOK F) (h8 : F.c.heapBase % 8 = 0) {mon : MonCfg} (hmon : mon.mach = F.c)
  {px : X86.Prog} {cs : List Code} (L : Loaded px cs) (hnd : (labs cs).Nodup)

include H h8 hmon L hnd in
/-- THREE-WAY SIMULATION OF `let` -/
theorem let_x3P {P : Program} {hooks : Bool} {prog : AxCut.Prog} {Γ : Ctx} {ρ : List Value} {x : Ident}
    {ty : Ty} {tag : Ident} {args : Ctx} {next : Stmt} {fv : FV} {cfg : Config} {pos : Nat}
    (R : RelX P hooks prog ⟨Γ, ρ, .letS x ty tag args next fv⟩ cfg)
    (hk : args.length ≤ Γ.length)
    (hfresh : ∀ b ∈ Γ.take (Γ.length - args.length), b.var.id ≠ x.id)
    (hpos : Pos.tagPosition prog.types ty tag = .ok pos)
    (hcap : 2 * (Γ.length - args.length + 1) + 2 < Mock.T_TEMP)
    (hnext : cfg.next < 2 ^ 64)
    {hs : HState} {ι : Nat → Nat} {st : State} (X : X3 F Γ cfg hs ι st)
    {k k' : Nat} {items : List Code}
    (hrun : (codeStatementR x86Backend hooks natRen prog.types (.letS x ty tag args next fv) Γ).run k =
      .ok (items, k'))
    (hat : XAt cs st.pc items)
    (hroom : Room hs (64 * args.length + 64))
    (hfit : fitsI64 (jumpLength pos) = true) :
    ∃ cfg' st' hs' ι' n, stepsTo P 2 cfg cfg' ∧ stepN mon px n st = .inl st' ∧ FrLe hs hs' (64 * args.length) ∧ FrPk hs hs' ∧
      cfg'.out = cfg.out ∧ cfg'.next ≤ cfg.next + 1 ∧
      RelX P hooks prog ⟨Γ.take (Γ.length - args.length) ++ [⟨x, .prd, ty⟩],
        ρ.take (Γ.length - args.length) ++ [.obj pos (ρ.drop (Γ.length - args.length))], next⟩ cfg' ∧
      X3 F (Γ.take (Γ.length - args.length) ++ [⟨x, .prd, ty⟩]) cfg' hs' ι' st' ∧
      ∃ k1 k1' items', (codeStatementR x86Backend hooks natRen prog.types next
          (Γ.take (Γ.length - args.length) ++ [⟨x, .prd, ty⟩])).run k1 = .ok (items', k1') ∧
        XAt cs st'.pc items' := by
  obtain ⟨cfg', hst, hout', hnx', R'⟩ := sim2_let R hk hfresh hpos hcap hnext
  -- the mock code at the program counter (as in `sim2_let`)
  obtain ⟨c, c', ops, hrunM, hatM⟩ := R.code
  obtain ⟨d, hd, hxp⟩ := tagPosition_ok hpos
  simp only [codeStatementR, run_bind_ok, run_pure_ok, lookupTypeDeclM_run_ok, xtorPositionM_run_ok,
    splitOffLast_run_ok, mockSym_store, mockSym_variableTemporary, vt_run_ok] at hrunM
  obtain ⟨decl, k1, ⟨hd', rfl⟩, pos', k2, ⟨hx', rfl⟩, sp, k3, ⟨_, rfl, rfl⟩, c1, k4, ⟨rfl, rfl⟩, t, k5,
    ⟨p, hp, rfl, rfl⟩, c3, k6, h3, rfl, rfl⟩ := hrunM
  rw [hd] at hd'; cases hd'
  rw [hxp] at hx'; cases hx'
  have hn : (Γ.take (Γ.length - args.length)).length = Γ.length - args.length := by simp
  have hp' : p = Γ.length - args.length := by
    rw [ctxPosition_eq_posOf] at hp
    have := posOf_append_fresh (Γ.take (Γ.length - args.length)) ⟨x, .prd, ty⟩ hfresh
    simp only at hp
    rw [this, hn] at hp
    exact (Option.some.inj hp).symm
  subst hp'
  simp only [mockSym_comment, mockSym_loadImmediate, mockSym_jumpLength, List.append_assoc,
    CodeAt_hook] at hatM
  simp only [List.cons_append, List.nil_append, CodeAt, TempNum.toNat] at hatM
  obtain ⟨hstore, hli, hat3⟩ := hatM
  rw [hn] at hstore
  -- the x86 code at the program counter
  simp only [codeStatementR, run_bind_ok, run_pure_ok, lookupTypeDeclM_run_ok, xtorPositionM_run_ok,
    splitOffLast_run_ok] at hrun
  obtain ⟨declX, _, ⟨hdX, rfl⟩, posX, _, ⟨hxX, rfl⟩, spX, _, ⟨_, rfl, rfl⟩, cst, kst, hstX, tX, _, htX,
    c3X, k6X, h3X, rfl, rfl⟩ := hrun
  rw [hd] at hdX; cases hdX
  rw [hxp] at hxX; cases hxX
  obtain ⟨pX, hpX, hltX, rfl, rfl⟩ := (x86_vt_run_ok _ _ _ _ _ _).1 htX
  have hpX' : pX = Γ.length - args.length := by
    have := posOf_append_fresh (Γ.take (Γ.length - args.length)) ⟨x, .prd, ty⟩ hfresh
    simp only at hpX
    rw [this, hn] at hpX
    exact (Option.some.inj hpX).symm
  subst hpX'
  simp only [TempNum.toNat] at hltX
  generalize hN : Γ.length - args.length = N at *
  have hNle : N ≤ Γ.length := by omega
  -- the two abstract steps, explicitly
  obtain ⟨cA, hsA, cB, hsB, hcB⟩ := hst
  have hcB' : cB = cfg' := hcB
  subst hcB'
  -- layout of the x86 items
  simp only [] at hstX h3X htX hat h3 hp hpX
  have hxc : x86Backend.comment "#load tag" = Code.COMMENT "#load tag" := rfl
  have hxl : x86Backend.loadImmediate (posTemp (2 * N + TempNum.snd.toNat)) (x86Backend.jumpLength pos) =
      loadImmediate (posTemp (2 * N + 1)) (jumpLength pos) := rfl
  rw [hxc, hxl] at hat
  generalize hc0 : hookCode x86Backend hooks Γ ++ [x86Backend.comment
      ("let " ++ x.print ++ ": " ++ tyPrint ty ++ " = " ++ tag.print ++ "(" ++ varsPrint args ++ ");")] = c0 at hat
  have hc0c : ∀ y ∈ c0, ∃ m', y = Code.COMMENT m' := by rw [← hc0]; exact hook_comments hooks Γ _
  have hatA : XAt cs st.pc (c0 ++ (cst ++ ((Code.COMMENT "#load tag" ::
      loadImmediate (posTemp (2 * N + 1)) (jumpLength pos)) ++ c3X))) := by
    simpa [List.append_assoc] using hat
  -- the comments
  obtain ⟨k0, hk0⟩ := x_steps_straight mon L hatA.left
    (execStraight_comments mon.mach px.labelAddr c0 st hc0c)
  have X0 : X3 F Γ cfg hs ι (setPS st (st.pc + c0.length) k0) := X3R.setPS X _ _
  have hat1 : XAt cs (setPS st (st.pc + c0.length) k0).pc (cst ++ ((Code.COMMENT "#load tag" ::
      loadImmediate (posTemp (2 * N + 1)) (jumpLength pos)) ++ c3X)) := hatA.right
  generalize setPS st (st.pc + c0.length) k0 = st0 at hk0 X0 hat1
  -- the fields read by the abstract `store`
  have hlenρ : (ρ.drop N).length = (Γ.drop N).length := by
    have := R.len; simp only at this; simp [this]
  obtain ⟨fields, hf, hrep, hch⟩ := readFields_ok2 (Γ.drop N) (ρ.drop N) N (R.vals.slice N) hlenρ
  have hlenTake : (Γ.take N).length = N := hn
  -- the store on both machines
  have mid : ∃ st1 hs' ι' n1, stepN mon px n1 st0 = .inl st1 ∧ st1.pc = st0.pc + cst.length ∧
      X3R F (Γ.take N) cA (roots (Γ.take N) cA.temps ++ rootOf cA.temps ⟨x, .prd, ty⟩ N) hs' ι' st1 ∧
      (∀ r, cA.temps.get (2 * N) = some r → tempVal F.sp st1 (posTemp (2 * N)) = some (imgWord ι' r)) ∧
      cA.pc = cfg.pc + 1 ∧ FrLe hs hs' (64 * args.length) ∧ FrPk hs hs' := by
    cases hΔ : Γ.drop N with
    | nil =>
      have hNΓ : N = Γ.length := by
        have := congrArg List.length hΔ
        simp at this; omega
      rw [hΔ] at hstore hstX
      have hT : Γ.take N = Γ := by rw [hNΓ]; exact List.take_length
      rw [hT] at hstX ⊢
      have hA := step_store_empty P cfg N hstore
      rw [hsA] at hA
      injection hA with hA
      have hlow : ∀ t, t < 2 * Γ.length → cA.temps.get t = cfg.temps.get t := by
        intro t ht
        rw [hA]
        simp only
        rw [get_set_other _ _ (by omega), get_clobberTemp _ (by unfold Mock.T_TEMP; have := X.cap; omega)]
      obtain ⟨code, kk', hrunS, _, _, st1, hx, hpc1, X1, hv1⟩ :=
        store_x3_empty (la := px.labelAddr) H h8 X0 hlow (by rw [hA]) (by rw [hA]) (by rw [hA]) k
      have hcode : code = cst ∧ kk' = kst := by
        have : (store [] Γ).run k = .ok (cst, kst) := hstX
        rw [hrunS] at this
        injection this with this
        injection this with e1 e2
        exact ⟨e1, e2⟩
      obtain ⟨rfl, rfl⟩ := hcode
      rw [← hmon] at hx
      obtain ⟨n1, steps1, hn1⟩ := x_steps_fwd mon L hnd hat1.left hx
      have h2n : cA.temps.get (2 * N) = some 0 := by
        rw [hA]; simp only; exact get_set_same _ _ _
      refine ⟨_, hs, ι, n1, hn1, rfl, ?_, ?_, by rw [hA], by
        have : args.length = 0 := by omega
        rw [this]; exact Scc.Heap.Refine.FrLe.refl hs, FrPk.refl hs⟩
      · have hr : rootOf cA.temps ⟨x, .prd, ty⟩ N = [] := by
          unfold rootOf; rw [h2n]; simp
        rw [hr, List.append_nil, roots_congr _ _ _ (fun i hi => hlow (2 * i) (by omega))]
        exact X3R.setPS X1 _ _
      · intro r hr
        rw [h2n] at hr
        injection hr with hr
        subst hr
        rw [tempVal_setPS, hNΓ, hv1]
        simp [imgWord]
    | cons b Δ =>
      rw [hΔ] at hstore
      have hfc : readFields cfg.temps (b.chi :: Mock.kindsOf Δ) N = some fields := by
        rw [hΔ] at hf; exact hf
      have hA := step_store_cons P cfg b.chi (Mock.kindsOf Δ) N fields hstore hfc
      rw [hsA] at hA
      injection hA with hA
      have hNlt : N < Γ.length := by
        have := congrArg List.length hΔ
        simp at this; omega
      have hlow : ∀ t, t < 2 * N → cA.temps.get t = cfg.temps.get t := by
        intro t ht
        rw [hA]
        simp only
        rw [get_set_other _ _ (by omega), get_clearPositions, if_neg (by omega),
          get_clobberTemp _ (by unfold Mock.T_TEMP; have := X.cap; omega)]
      obtain ⟨code, kk', hrunS, _, _, st1, hs', p, hx, hpc1, X1, hv1, hp0, hplt, hfrS, hpkS⟩ :=
        store_x3P (la := px.labelAddr) H h8 X0 hNlt hf (hch 0) hnext hlow (by rw [hA]) (by rw [hA]) (by rw [hA])
          (by rw [show Γ.length - N = args.length by omega]; exact hroom) k
      have hcode : code = cst ∧ kk' = kst := by
        have : (store (Γ.drop N) (Γ.take N)).run k = .ok (cst, kst) := hstX
        rw [hrunS] at this
        injection this with this
        injection this with e1 e2
        exact ⟨e1, e2⟩
      obtain ⟨rfl, rfl⟩ := hcode
      rw [← hmon] at hx
      obtain ⟨n1, steps1, hn1⟩ := x_steps_fwd mon L hnd hat1.left hx
      have h2n : cA.temps.get (2 * N) = some (BitVec.ofNat 64 cfg.next) := by
        rw [hA]; simp only; exact get_set_same _ _ _
      have hr0 : BitVec.ofNat 64 cfg.next ≠ 0 := ofNat_ne_zero X.href.abs.pos hnext
      have hrt : (BitVec.ofNat 64 cfg.next).toNat = cfg.next := ofNat_toNat_lt hnext
      refine ⟨_, hs', (fun i => if i = cfg.next then p else ι i), n1, hn1, rfl, ?_, ?_, by rw [hA], by
        rw [show Γ.length - N = args.length by omega] at hfrS; exact hfrS, hpkS⟩
      · have hr : rootOf cA.temps ⟨x, .prd, ty⟩ N = [cfg.next] := by
          unfold rootOf
          rw [h2n]
          have h1 : (Chi.prd != Chi.ext) = true := by decide
          have h2 : (BitVec.ofNat 64 cfg.next != 0) = true := by rw [bne_iff_ne]; exact hr0
          simp only [h1, h2, if_true, hrt]
        rw [hr, roots_congr _ _ _ (fun i hi => hlow (2 * i) (by rw [hlenTake] at hi; omega))]
        exact X3R.setPS X1 _ _
      · intro r hr
        rw [h2n] at hr
        injection hr with hr
        subst hr
        rw [tempVal_setPS, hv1]
        unfold imgWord
        rw [if_neg hr0, hrt]
        simp
  obtain ⟨st1, hs', ι', n1, hn1, hpc1, X1, hptr1, hpcA, hfrM, hpkM⟩ := mid
  -- the tag
  have hB := step_li P cA (2 * N + 1) pos (by rw [hpcA]; exact hli) (by unfold Mock.T_TEMP; omega)
  rw [hsB] at hB
  injection hB with hB
  have hat2 : XAt cs st1.pc ((Code.COMMENT "#load tag" ::
      loadImmediate (posTemp (2 * N + 1)) (jumpLength pos)) ++ c3X) := by
    rw [hpc1]; exact hat1.right
  obtain ⟨st2, hx2, B2, hv2, P2⟩ := loadImmediate_correct (la := px.labelAddr) X1.bnd (tempOK_posTemp hltX) hfit
  have hx2' : execStraight mon.mach px.labelAddr (Code.COMMENT "#load tag" ::
      loadImmediate (posTemp (2 * N + 1)) (jumpLength pos)) st1 = .ok st2 := by
    rw [hmon]
    simp only [execStraight, execCode]
    exact hx2
  obtain ⟨k2, hk2⟩ := x_steps_straight mon L hat2.left hx2'
  have X2 : X3R F (Γ.take N ++ [⟨x, .prd, ty⟩]) cB
      (roots (Γ.take N) cA.temps ++ rootOf cA.temps ⟨x, .prd, ty⟩ N) hs' ι' st2 := by
    refine X3R.snoc H X1 (by rw [hlenTake]; exact hltX) B2 (by rw [hlenTake]; exact P2) (a := BitVec.ofInt 64 pos)
      (by rw [hlenTake, hv2]; exact congrArg some (trW_prd_tag pos)) (by rw [hB, hlenTake])
      (by rw [hB]) (by rw [hB]) (by rw [hB]) ?_
    intro _ r hr
    rw [hlenTake] at hr ⊢
    exact hptr1 r hr
  have hrootsB : roots (Γ.take N ++ [⟨x, .prd, ty⟩]) cB.temps =
      roots (Γ.take N) cA.temps ++ rootOf cA.temps ⟨x, .prd, ty⟩ N := by
    have hgetB : ∀ t, t ≠ 2 * N + 1 → t < 267 → cB.temps.get t = cA.temps.get t := by
      intro t hne ht
      rw [hB]
      simp only
      rw [get_set_other _ _ hne, get_clobberTemp _ (by unfold Mock.T_TEMP; omega)]
    rw [roots_snoc, hlenTake]
    congr 1
    · exact roots_congr _ _ _ (fun i hi => hgetB (2 * i) (by omega) (by rw [hlenTake] at hi; omega))
    · unfold rootOf
      rw [hgetB (2 * N) (by omega) (by omega)]
  refine ⟨cB, _, hs', ι', _, ⟨cA, hsA, cB, hsB, rfl⟩, stepN_trans mon px hk0 (stepN_trans mon px hn1 hk2), hfrM, hpkM,
    hout', hnx', R', ?_, kst, k6X, c3X, h3X, ?_⟩
  · show X3R F _ cB (roots _ cB.temps) hs' ι' _
    rw [hrootsB]
    exact X3R.setPS X2 _ _
  · exact hat2.right

end Let3


section Call3Q

variable {F : Frame} (HF : FrameOK F) {mon : MonCfg} (hmon : mon.mach = F.c)
  {px : X86.Prog} {cs : List Code} (L : Loaded px cs) (hndL : (labs cs).Nodup)

include hmon L in
/-- THREE-WAY SIMULATION OF `call` -/
theorem call_x3Q {P : Program} {hooks : Bool} {prog : AxCut.Prog} {Γ : Ctx} {ρ : List Value} {l : Ident}
    {args : Ctx} {cfg : Config} {d : Def}
    (R : RelX P hooks prog ⟨Γ, ρ, .call l args⟩ cfg) (D : DefsAt P hooks prog) (DX : XDefsAt cs hooks prog)
    (hd : Pos.findDef prog.defs l = some d) (hchi : Pos.chiTys Γ = Pos.chiTys d.ctx)
    {hs : HState} {ι : Nat → Nat} {st : State} (X : X3 F Γ cfg hs ι st)
    {kx kx' : Nat} {items : List Code}
    (hrunX : (codeStatementR x86Backend hooks natRen prog.types (.call l args) Γ).run kx = .ok (items, kx'))
    (hatX : XAt cs st.pc items) :
    ∃ cfg' st' m, stepsTo P 1 cfg cfg' ∧ stepN mon px m st = .inl st' ∧ 1 ≤ m ∧
      cfg'.out = cfg.out ∧ cfg'.next = cfg.next ∧
      RelX P hooks prog ⟨d.ctx, ρ, d.body⟩ cfg' ∧ X3 F d.ctx cfg' hs ι st' ∧
      ∃ k1 k1' items', (codeStatementR x86Backend hooks natRen prog.types d.body d.ctx).run k1 = .ok (items', k1') ∧
        XAt cs st'.pc items' := by
  obtain ⟨cfg', hst, hout, hnext, R'⟩ := sim2_call R D hd hchi
  have hstep := stepsTo_one_inv hst
  have J : JumpFacts cfg cfg' := by
    obtain ⟨c, c', ops, hrun, hat⟩ := R.code
    simp only [codeStatementR, run_pure_ok] at hrun
    obtain ⟨rfl, rfl⟩ := hrun
    simp only [mockSym_comment, mockSym_jumpLabel, List.append_assoc, CodeAt_hook] at hat
    simp only [List.cons_append, List.nil_append, CodeAt] at hat
    exact step_jumpLabel_facts hat.1 hstep
  have hmem : d ∈ prog.defs := List.mem_of_find?_eq_some hd
  have hname : d.name = l := by
    have := List.find?_some hd
    exact Ident.eq_of_beq this
  obtain ⟨i, k1, k1', ditems, hidx, hlab, hdrun, hdat⟩ := DX d hmem
  -- the x86 code
  simp only [codeStatementR, run_pure_ok] at hrunX
  obtain ⟨rfl, rfl⟩ := hrunX
  generalize hc0 : hookCode x86Backend hooks Γ ++ [x86Backend.comment (l.print ++ "(...)")] = c0 at hatX
  have hc0c : ∀ y ∈ c0, ∃ m', y = Code.COMMENT m' := by rw [← hc0]; exact hook_comments hooks Γ _
  replace hatX : XAt cs st.pc (c0 ++ [Code.JMPL (l.print ++ "_")]) := hatX
  obtain ⟨k0, hk0⟩ := x_steps_straight mon L hatX.left
    (execStraight_comments mon.mach px.labelAddr c0 st hc0c)
  have X0 : X3 F Γ cfg hs ι (setPS st (st.pc + c0.length) k0) := X3R.setPS X _ _
  obtain ⟨csa, csb, hcs, hpcA⟩ := hatX.right
  obtain ⟨k2, hk2⟩ := Scc.X86.Ref.step_jump mon L (cs1 := csa) (code := Code.JMPL (l.print ++ "_")) (rest := csb)
    (s := setPS st (st.pc + c0.length) k0) (by rw [hcs]; simp [List.append_assoc]) (by simp [setPS]; exact hpcA.symm)
    (show execCode mon.mach px.labelAddr (Code.JMPL (l.print ++ "_")) _ = .ok (_, .jumpLabel (l.print ++ "_")) from rfl)
    (by rw [← hname]; exact hidx)
  -- the label of the definition
  have hsplit : cs = cs.take i ++ Code.LAB (d.name.print ++ "_") :: cs.drop (i + 1) := by
    have hlt : i < cs.length := by
      rcases Nat.lt_or_ge i cs.length with h | h
      · exact h
      · rw [List.getElem?_eq_none h] at hlab; cases hlab
    have h1 : cs.drop i = cs[i] :: cs.drop (i + 1) := List.drop_eq_getElem_cons hlt
    have h2 : cs[i] = Code.LAB (d.name.print ++ "_") := by
      rw [List.getElem?_eq_getElem hlt] at hlab; exact Option.some.inj hlab
    conv => lhs; rw [← List.take_append_drop i cs, h1, h2]
  have hilt : i < cs.length := by
    rcases Nat.lt_or_ge i cs.length with h | h
    · exact h
    · rw [List.getElem?_eq_none h] at hlab; cases hlab
  obtain ⟨k3, hk3⟩ := step_fall mon L hsplit (s := setPS (setPS st (st.pc + c0.length) k0) i k2)
    (by simp [setPS, Nat.min_eq_left (Nat.le_of_lt hilt)])
    (show execCode mon.mach px.labelAddr (Code.LAB (d.name.print ++ "_")) _ = .ok (_, .next) from rfl)
  have hkeys : Γ.map (·.chi) = d.ctx.map (·.chi) := by
    have := congrArg (List.map Prod.fst) hchi
    simp only [Pos.chiTys, List.map_map] at this
    exact this
  refine ⟨cfg', _, _, hst, stepN_trans mon px hk0 (stepN_trans mon px ((stepN_one mon px _).trans hk2)
    ((stepN_one mon px _).trans hk3)), by omega, hout, hnext, R', ?_, _, _, ditems, hdrun, ?_⟩
  · exact X3R.setPS (X3R.setPS ((X0.jump J).ctxCongr hkeys) _ _) _ _
  · have : (setPS (setPS (setPS st (st.pc + c0.length) k0) i k2) ((cs.take i).length + 1) k3).pc = i + 1 := by
      simp [setPS, Nat.min_eq_left (Nat.le_of_lt hilt)]
    rw [this]
    exact hdat

end Call3Q

/-- the three-way simulation claim for one step of the positional machine -/
def StepSim3P (F : Frame) (mon : MonCfg) (px : X86.Prog) (cs : List Code) (P : Program) (hooks : Bool)
    (prog : AxCut.Prog) (st : Pos.State) (cfg : Config) (hs : HState) (X : State) : Prop :=
  match Pos.step prog st with
  | .next st' o =>
    WithinCapacity st'.ctx → 2 * st'.ctx.length ≤ 266 →
    ∃ cfg' hs' X' n, stepN mon px n X = .inl X' ∧ (∀ l a, st.stmt = .call l a → 1 ≤ n) ∧
      cfg'.out = outAfter o cfg.out ∧ cfg'.next ≤ cfg.next + 1 ∧
      FrLe hs hs' (64 * stmtArity st.stmt) ∧ FrPk hs hs' ∧ Rel3 F cs P hooks prog st' cfg' hs' X' ∧ StmtOK st'.stmt
  | .done v => ∃ n XL, stepN mon px n X = .inl XL ∧ step mon px XL = .inr (.done v) ∧ XL.out = cfg.out
  | .stuck _ => True

section Run3P

variable {F : Frame} (HF : FrameOK F) (h8 : F.c.heapBase % 8 = 0) {mon : MonCfg} (hmon : mon.mach = F.c)
  {px : X86.Prog} {cs pre : List Code} (LA : LoadedA F.c px cs) (hndL : (labs cs).Nodup)
  (hfitX : addrAt F.c.codeBase cs cs.length < 2 ^ 64) (hcs : cs = pre ++ cleanup)
  (hclean : "cleanup" ∉ labs pre) {st0 : State} {h : Word} (E : EntryFacts F st0 h)

include HF h8 hmon LA hndL hfitX hcs hclean E in
/-- THE THREE-WAY STEP: Theorem A's `TheoremA_full` with the x86-64 machine carried along, for the
statements of programs with data types -/
theorem step3P (hooks : Bool) (prog : AxCut.Prog) (c : Nat) (code : List MockOp) (nargs c' : Nat)
    (hcomp : (compile mockSym hooks prog).run c = .ok ((code, nargs), c'))
    (hsafe : LabelSafe prog = true) (htp : LinTypedProg prog) (hfit : CodeFits code)
    (DX : XDefsAt cs hooks prog) (hprog : ProgOK prog)
    (st : Pos.State) (cfg : Config) (hs : HState) (X : State)
    (R : Rel3 F cs (Program.ofOps code) hooks prog st cfg hs X)
    (T : Pos.StateTyped prog st) (hheap : EnoughHeap cfg) (hok : StmtOK st.stmt)
    (hroom : Room hs (64 * stmtArity st.stmt + 64)) :
    StepSim3P F mon px cs (Program.ofOps code) hooks prog st cfg hs X := by
  have L := LA.loaded
  have hnodup := Scc.Props.C14Generic.labels_unique hooks prog c code nargs c' hcomp hsafe
  have D := defsAt_of_compile hooks prog c code nargs c' hcomp hnodup
  have hfits := fits_of_codeFits hfit
  obtain ⟨Γ, ρ, s⟩ := st
  obtain ⟨Γ', ι, hk, RX, X3h, kx, kx', items, hrunX, hatX⟩ := R
  obtain ⟨hty, henv⟩ := T
  simp only at hk RX hty henv
  have hlenk : Γ'.length = Γ.length := keys_length hk
  unfold StepSim3P
  simp only at hok
  have hcapX3 := X3h.cap
  cases hty with
  | lit hn hfr hnext =>
    rename_i x n next fv
    simp only [Pos.step]
    intro hcap hcap2
    obtain ⟨cfg', X', m, h1, hm, h2, h3, h4, h5, h6⟩ := lit_x3 HF hmon L RX (mem_ids_keys hk hfr)
      (by simp [WithinCapacity] at hcap; omega) X3h hrunX hatX hok.2.1
    exact ⟨cfg', hs, X', m, hm, (fun _ _ e => by cases e), h2, by omega, FrLe.refl' hs, FrPk.refl hs,
      ⟨Γ' ++ [⟨x, .ext, .i64⟩], ι, keys_append hk rfl, h4, h5, h6⟩, hok.1, hok.2.2⟩
  | op hn ha hb hfr hnext =>
    rename_i x a o b next fv
    simp only [Pos.step]
    cases hra : readInt Γ ρ a with
    | error e => simp
    | ok va =>
      cases hrb : readInt Γ ρ b with
      | error e => simp
      | ok vb =>
        cases hv : Pos.evalOp o va vb with
        | error e => simp [hv]
        | ok v =>
          simp only [hv]
          intro hcap hcap2
          obtain ⟨cfg', X', m, h1, hm, h2, h3, h4, h5, h6⟩ := op_x3 HF hmon L RX (mem_ids_keys hk hfr)
            (by simp [WithinCapacity] at hcap; omega)
            (by rw [readInt_keys hk]; exact hra) (by rw [readInt_keys hk]; exact hrb) hv X3h hrunX hatX
          exact ⟨cfg', hs, X', m, hm, (fun _ _ e => by cases e), h2, by omega, FrLe.refl' hs, FrPk.refl hs,
            ⟨Γ' ++ [⟨x, .ext, .i64⟩], ι, keys_append hk rfl, h4, h5, h6⟩, hok.1, hok.2⟩
  | print hn ha hnext =>
    rename_i nl a next fv
    simp only [Pos.step]
    cases hra : readInt Γ ρ a with
    | error e => simp
    | ok v =>
      simp only
      intro _ _
      obtain ⟨cfg', X', m, h1, hm, h2, h3, h4, h5, h6⟩ := print_x3 HF hmon L RX
        (by rw [readInt_keys hk]; exact hra) X3h hrunX hatX
      exact ⟨cfg', hs, X', m, hm, (fun _ _ e => by cases e), h2, by omega, FrLe.refl' hs, FrPk.refl hs, ⟨Γ', ι, hk, h4, h5, h6⟩, hok.1, hok.2⟩
  | ifc hn ha hb ht he =>
    rename_i srt a b t e
    simp only [Pos.step]
    cases hra : readInt Γ ρ a with
    | error err => simp
    | ok va =>
      cases b with
      | none =>
        simp only
        intro _ _
        obtain ⟨cfg', X', m, h1, hm, h2, h3, h4, h5, h6⟩ := ifc_x3 HF hmon L hndL (b := none) (vb := 0) RX
          (by rw [readInt_keys hk]; exact hra) rfl X3h hrunX hatX
        refine ⟨cfg', hs, X', m, hm, (fun _ _ e => by cases e), h2, by omega, FrLe.refl' hs, FrPk.refl hs, ⟨Γ', ι, hk, h4, h5, h6⟩, ?_, ?_⟩
        · show DataStmt (if Pos.evalCmp srt va 0 then t else e)
          split
          · exact hok.1.1
          · exact hok.1.2
        · show StmtB _ _ (if Pos.evalCmp srt va 0 then t else e)
          split
          · exact hok.2.1
          · exact hok.2.2
      | some b' =>
        simp only
        cases hrb : readInt Γ ρ b' with
        | error err => simp
        | ok vb =>
          simp only
          intro _ _
          obtain ⟨cfg', X', m, h1, hm, h2, h3, h4, h5, h6⟩ := ifc_x3 HF hmon L hndL (b := some b') (vb := vb) RX
            (by rw [readInt_keys hk]; exact hra) (by simp only; rw [readInt_keys hk]; exact hrb)
            X3h hrunX hatX
          refine ⟨cfg', hs, X', m, hm, (fun _ _ e => by cases e), h2, by omega, FrLe.refl' hs, FrPk.refl hs, ⟨Γ', ι, hk, h4, h5, h6⟩, ?_, ?_⟩
          · show DataStmt (if Pos.evalCmp srt va vb then t else e)
            split
            · exact hok.1.1
            · exact hok.1.2
          · show StmtB _ _ (if Pos.evalCmp srt va vb then t else e)
            split
            · exact hok.2.1
            · exact hok.2.2
  | exit hn ha =>
    rename_i a
    simp only [Pos.step]
    cases hra : readInt Γ ρ a with
    | error e => simp
    | ok v =>
      simp only
      exact exit_x3 HF hmon L hcs hclean E RX (by rw [readInt_keys hk]; exact hra) X3h hrunX hatX
  | call hn hf hc =>
    rename_i l args params
    simp only [Pos.step]
    cases hd : Pos.findDef prog.defs l with
    | none => simp
    | some d =>
      simp only
      by_cases hsh : Pos.chiTys Γ ≠ Pos.chiTys d.ctx ∨ ρ.length ≠ Γ.length
      · simp [hsh]
      · simp only [hsh, if_false]
        intro _ _
        have hchi : Pos.chiTys Γ = Pos.chiTys d.ctx := by
          by_cases h : Pos.chiTys Γ = Pos.chiTys d.ctx
          · exact h
          · exact absurd (Or.inl h) hsh
        obtain ⟨cfg', X', m, h1, hm, hm1, h2, h3, h4, h5, h6⟩ := call_x3Q hmon L RX D DX hd
          (by rw [keys_chiTys hk]; exact hchi) X3h hrunX hatX
        have hdm : d ∈ prog.defs := List.mem_of_find?_eq_some hd
        exact ⟨cfg', hs, X', m, hm, (fun _ _ _ => hm1), h2, by omega, FrLe.refl' hs, FrPk.refl hs, ⟨d.ctx, ι, rfl, h4, h5, h6⟩,
          (hprog.2 d hdm).1, (hprog.2 d hdm).2⟩
  | subst hn hhas hnew hnext =>
    rename_i pairs next
    simp only [Pos.step]
    cases hb : Pos.step.build Γ ρ pairs with
    | error e => simp
    | ok vs =>
      simp only
      intro hcap hcap2
      have hnew' : (pairs.map (·.1.var.id)).Nodup := by
        have : ((pairs.map (·.1)).map (·.var.id)).Nodup := hnew
        rw [List.map_map] at this
        exact this
      have hold : ∀ p ∈ pairs, ∃ b ∈ Γ', b.var.id = p.2.id ∧ b.chi = p.1.chi := by
        intro p hp
        obtain ⟨b, hb', hid, hchi, _⟩ := hasVar_keys hk (hhas p hp)
        exact ⟨b, hb', hid, hchi⟩
      have hpl : 2 * pairs.length ≤ 266 := by simpa using hcap2
      obtain ⟨k, cfg', X', hs', m, h1, hm, hfr, h2, h3, h4, h5, h6⟩ := subst_x3 HF h8 hmon L hndL RX
        (nodup_keys hk hn) hnew' hold
        (by simpa [WithinCapacity] using hcap) (by rw [build_keys hk]; exact hb) X3h hrunX hatX
        (by omega) hpl
      exact ⟨cfg', hs', X', m, hm, (fun _ _ e => by cases e), h2, by omega, FrLe.mono' hfr (by omega), FrPk.of_frLe0 hfr,
        ⟨pairs.map (·.1), ι, rfl, h4, h5, h6⟩, hok.1, hok.2.2⟩
  | @letS _ Γ0 Γa x ty tag args sig next fv hn hsplit hkeys hs hs' hfr hnext =>
    have hlenA : Γa.length = args.length := keys_length hkeys
    have hsplit' : Γ = Γ0 ++ Γa := hsplit
    have hkA : args.length ≤ Γ.length := by rw [hsplit']; simp; omega
    simp only [Pos.step]
    by_cases hsh : Γ.length < args.length ∨ ρ.length ≠ Γ.length
    · rw [if_pos hsh]; trivial
    · rw [if_neg hsh]
      cases hpos : Pos.tagPosition prog.types ty tag with
      | error e => trivial
      | ok pos =>
        simp only
        intro hcap hcap2
        have hn0 : Γ.length - args.length = Γ0.length := by rw [hsplit']; simp; omega
        have htake : Γ.take (Γ.length - args.length) = Γ0 := by
          rw [← hlenA]; exact take_of_append hsplit'
        have hkt : Ctx.keys (Γ'.take (Γ'.length - args.length)) = Γ0.keys := by
          rw [hlenk, keys_take hk, htake]
        have hargs133 : args.length ≤ 133 := by omega
        obtain ⟨dT, hdT, hxT⟩ := tagPosition_ok hpos
        have hposlt : pos < dT.xtors.length := by
          have := xtorPosition_go_lt dT.xtors tag 0 pos hxT
          omega
        have hdTm : dT ∈ prog.types := by
          cases ty with
          | i64 => simp [lookupTypeDecl] at hdT
          | decl nm => exact List.mem_of_find?_eq_some hdT
        have hfitT : fitsI64 (jumpLength pos) = true := by
          have := hprog.1 dT hdTm
          unfold maxTagsX86 at this
          unfold fitsI64 jumpLength
          have e5 : (consts.jumpLengthFactor : Int) = 5 := rfl
          rw [e5]
          simp only [decide_eq_true_eq, Bool.and_eq_true]
          omega
        obtain ⟨cfg', X', hs', ι', m, h1, hm, hfr, hpk, h2, h3, h4, h5, h6⟩ := let_x3P HF h8 hmon L hndL RX
          (by rw [hlenk]; exact hkA) (mem_ids_keys hkt hfr) hpos
          (by
            simp only [WithinCapacity, htake, List.length_append, List.length_singleton] at hcap
            rw [hlenk, hn0]; exact hcap) hheap X3h hrunX hatX
          (by simpa only [stmtArity] using hroom) hfitT
        refine ⟨cfg', hs', X', m, hm, (fun _ _ e => by cases e), h2, h3, (by simpa only [stmtArity] using hfr), hpk,
          ⟨_, ι', ?_, by rw [hlenk] at h4; exact h4, by rw [hlenk] at h5; exact h5, by rw [hlenk] at h6; exact h6⟩,
          hok.1, hok.2⟩
        show Ctx.keys (Γ'.take (Γ.length - args.length) ++ [_]) =
          Ctx.keys (Γ.take (Γ.length - args.length) ++ [_])
        rw [htake, ← hlenk]
        exact keys_append hkt rfl
  | @create _ Γn Γe Γc x ty clauses next fc fn d hn hsplit hkeys hd hm hcl hfr hnext =>
    exact absurd hok.1 (by simp [DataStmt])
  | @switch _ Γ0 b x ty cs fv d hn hsplit hb hd hm hcl =>
    subst hsplit
    obtain ⟨ρ', v, rfl, hρ', hv⟩ := Pos.env_last henv
    have hbid : b.var.id = x.id := congrArg (·.1) hb
    have hbchi : b.chi = .prd := congrArg (·.2.1) hb
    have hbty : b.ty = ty := congrArg (·.2.2) hb
    rw [hbchi, hbty] at hv
    have hlen : (ρ' ++ [v]).length = (Γ0 ++ [b]).length := by
      rw [henv.length_eq, Pos.chiTys_length]
    have hcnd : ¬ (b.var.id ≠ x.id ∨ (ρ' ++ [v]).length ≠ (Γ0 ++ [b]).length) := by
      simp [hbid, hlen]
    cases hv with
    | obj hd' hx hf =>
      rename_i d' tag xt fields
      have := Pos.lookupTypeDecl_unique hd hd'
      subst this
      obtain ⟨cl, hc1, hc2, hc3⟩ := Pos.nthClause_ok d.xtors cs tag xt hm hx
      have hfl : fields.length = cl.ctx.length := by
        rw [hf.length_eq, hc2, Pos.chiTys_length]
      simp only [Pos.step, List.getLast?_concat, if_neg hcnd, hc1, hfl, ne_eq, not_true_eq_false,
        if_false, List.dropLast_concat]
      intro hcap hcap2
      obtain ⟨Γ0', b', rfl, hk0, hkb⟩ := keys_snoc hk
      have hb'id : b'.var.id = x.id := by
        have := congrArg (·.1) hkb
        simp only [Binding.key] at this
        rw [this]; exact hbid
      have hkinds : fields.map Sim2.kindOf = Mock.kindsOf cl.ctx := by
        rw [kinds_of_fieldsTyped hf, hc2, chiTys_fst]
      have hfr : x.id ∉ Γ0.ids := by rw [← hbid]; exact fresh_of_nodup_snoc hn
      obtain ⟨k, cfg', X', hs', m, h1, hm, hfr', h2, h3, h4, h5, h6⟩ := switch_x3 HF h8 hmon LA hndL hfitX RX
        hfits hb'id (mem_ids_keys hk0 hfr) hc1 hkinds
        (by
          simp only [WithinCapacity, List.length_append] at hcap
          rw [keys_length hk0]; exact hcap) X3h hrunX hatX
        (by
          simp only [List.length_append] at hcap2
          rw [keys_length hk0]; exact hcap2)
      exact ⟨cfg', hs', X', m, hm, (fun _ _ e => by cases e), h2, by omega, FrLe.mono' hfr' (by omega), FrPk.of_frLe0 hfr',
        ⟨Γ0' ++ cl.ctx, ι, keys_append hk0 rfl, h4, h5, h6⟩,
        dataClauses_nth hok.1 hc1, clausesB_nth hok.2 hc1⟩
  | @invoke _ Γa b x tag ty args sig hn hsplit hb hs hs' =>
    exact absurd hok.1 (by simp [DataStmt])


end Run3P

/-- the bound on the fields of `let`s is preserved by the steps of the positional machine (statements
without closures) -/
theorem letLe_step {A : Nat} {prog : AxCut.Prog} (hA : ∀ d ∈ prog.defs, LetLe A d.body) {st st' : Pos.State}
    {o : Option (Bool × Word)} (hs : Pos.step prog st = .next st' o) (hd : DataStmt st.stmt)
    (hl : LetLe A st.stmt) : LetLe A st'.stmt := by
  obtain ⟨Γ, ρ, s⟩ := st
  cases s with
  | lit x n next fv =>
    simp only [Pos.step] at hs
    injection hs with h1 h2; subst h1; exact hl
  | op x a o b next fv =>
    simp only [Pos.step] at hs
    split at hs
    · cases hs
    · split at hs
      · cases hs
      · split at hs
        · cases hs
        · injection hs with h1 h2; subst h1; exact hl
  | print nl a next fv =>
    simp only [Pos.step] at hs
    split at hs
    · cases hs
    · injection hs with h1 h2; subst h1; exact hl
  | ifc srt a b t e =>
    simp only [Pos.step] at hs
    split at hs
    · cases hs
    · split at hs
      · injection hs with h1 h2; subst h1
        show LetLe A (if _ then t else e)
        split
        · exact hl.1
        · exact hl.2
      · split at hs
        · cases hs
        · injection hs with h1 h2; subst h1
          show LetLe A (if _ then t else e)
          split
          · exact hl.1
          · exact hl.2
  | exit a =>
    simp only [Pos.step] at hs
    split at hs <;> cases hs
  | letS x ty tag args next fv =>
    simp only [Pos.step] at hs
    split at hs
    · cases hs
    · split at hs
      · cases hs
      · injection hs with h1 h2; subst h1; exact hl.2
  | switch x ty clauses fv =>
    simp only [Pos.step] at hs
    split at hs
    · split at hs
      · cases hs
      · split at hs
        · split at hs
          · cases hs
          · rename_i c hc
            split at hs
            · cases hs
            · injection hs with h1 h2; subst h1
              exact letLeClauses_nth hl hc
        · cases hs
    · cases hs
  | create x ty env clauses next f1 f2 => exact absurd hd (by simp [DataStmt])
  | invoke x tag ty args => exact absurd hd (by simp [DataStmt])
  | call l args =>
    simp only [Pos.step] at hs
    split at hs
    · cases hs
    · rename_i d hfd
      split at hs
      · cases hs
      · injection hs with h1 h2; subst h1
        exact hA d (List.mem_of_find?_eq_some hfd)
  | subst pairs next =>
    simp only [Pos.step] at hs
    split at hs
    · cases hs
    · injection hs with h1 h2; subst h1; exact hl

end Scc.X86.Ref
