/-
  Scc.X86.ProofsCCMachine — the calling-convention lemmas of ProofsCC.lean on the SPEC machine
  (Machine.lean): prologue / epilogue around an arbitrary body, the exit check `retCheck`, and the
  alignment of `rsp` at the call of the print runtime for every context.
-/
import Scc.X86.ProofsCC

namespace Scc.X86

variable {c : MachCfg} {la : String → Option Nat}

theorem csList_lt (k : Nat) (hk : k < 6) : ([2, 3, 12, 13, 14, 15] : List Nat)[k]'hk < 16 := by
  have : k = 0 ∨ k = 1 ∨ k = 2 ∨ k = 3 ∨ k = 4 ∨ k = 5 := by omega
  rcases this with rfl | rfl | rfl | rfl | rfl | rfl <;> simp

/-- Entry conditions of `asm_main` (System V): `rsp = m`, 8-aligned (in fact ≡ 8 mod 16), enough
    stack below for the save area and the spill area, the return address word at `[m]`. -/
structure EntryOK (c : MachCfg) (st : State) (m : Nat) : Prop where
  cfg : CfgOK c
  size : st.regs.size = 16
  rsp : st.regs[0]? = some (some (BitVec.ofNat 64 m))
  aligned : m % 8 = 0
  low : c.stackLow + 2096 ≤ m
  high : m ≤ c.stackTop

/-- State after the prologue. -/
structure AfterPrologueM (st st1 : State) (m : Nat) (h : Word) : Prop where
  same : Same st st1
  size : st1.regs.size = 16
  rsp : st1.regs[0]? = some (some (BitVec.ofNat 64 (m - 2096)))
  heap : st1.regs[2]? = some (some h)
  free : st1.regs[3]? = some (some (h + 64))
  regs : ∀ r : Nat, r < 16 → r ≠ 0 → r ≠ 2 → r ≠ 3 → st1.regs[r]? = st.regs[r]?
  saved : ∀ k (hk : k < 6), some (st1.stackMem[m - 8 * (k + 1)]?) = st.regs[[2, 3, 12, 13, 14, 15][k]'hk]?
  mem : ∀ n, (∀ k, k < 6 → n ≠ m - 8 * (k + 1)) → st1.stackMem[n]? = st.stackMem[n]?

/-- the prologue on the machine -/
theorem prologue_machine {st : State} {m : Nat} (E : EntryOK c st m) {h : Word}
    (h7 : st.regs[7]? = some (some h)) :
    ∃ st1, execStraight c la prologue st = .ok st1 ∧ AfterPrologueM st st1 m h := by
  have R := st.rel_view E.size
  have hv : ∀ r : Nat, r < 16 → st.regs[r]? = some (st.view.reg r) := R.regs
  have hsp : st.view.reg 0 = some (BitVec.ofNat 64 m) := by
    have := hv 0 (by decide); rw [E.rsp] at this; injection this with e; exact e.symm
  have h7' : st.view.reg 7 = some h := by
    have := hv 7 (by decide); rw [h7] at this; injection this with e; exact e.symm
  obtain ⟨a1, e1, P⟩ := a_prologue (la := la) E.cfg st.view m h hsp E.aligned E.low E.high h7'
  obtain ⟨st1, es, R1, S1⟩ := sim_execList la R e1
  refine ⟨st1, es, ⟨S1, R1.size, ?_, ?_, ?_, ?_, ?_, ?_⟩⟩
  · rw [R1.regs 0 (by decide), P.rsp]
  · rw [R1.regs 2 (by decide), P.heap]
  · rw [R1.regs 3 (by decide), P.free]
  · intro r hr h0 h2 h3
    rw [R1.regs r hr, P.regs r h0 h2 h3, hv r hr]
  · intro k hk
    rw [R1.mem, P.saved k hk, hv _ (csList_lt k hk)]
  · intro n hn
    rw [R1.mem, P.mem n hn]; rfl

/-- prologue_epilogue on the machine: for ANY body result `st2` that has `rsp` where the prologue put
    it and the save area and everything above it unchanged, the epilogue ends with `rsp` and the six
    callee-saved registers at their entry values and the caller's stack intact. -/
theorem prologue_epilogue_machine {st0 st1 st2 : State} {m : Nat} {h : Word} (E : EntryOK c st0 m)
    (P : AfterPrologueM st0 st1 m h)
    (hsize : st2.regs.size = 16)
    (hbody_rsp : st2.regs[0]? = st1.regs[0]?)
    (hbody_mem : ∀ n, m - 48 ≤ n → st2.stackMem[n]? = st1.stackMem[n]?) :
    ∃ st3, execStraight c la epilogue st2 = .ok st3 ∧ Same st2 st3 ∧ st3.regs.size = 16 ∧
      st3.regs[0]? = some (some (BitVec.ofNat 64 m)) ∧
      (∀ r, r ∈ [2, 3, 12, 13, 14, 15] → st3.regs[r]? = st0.regs[r]?) ∧
      (∀ r : Nat, r < 16 → r ≠ 0 → r ∉ [2, 3, 12, 13, 14, 15] → st3.regs[r]? = st2.regs[r]?) ∧
      (∀ n, m ≤ n → st3.stackMem[n]? = st0.stackMem[n]?) := by
  have R2 := st2.rel_view hsize
  have hsp2 : st2.view.reg 0 = some (BitVec.ofNat 64 (m - 2096)) := by
    have := R2.regs 0 (by decide); rw [hbody_rsp, P.rsp] at this; injection this with e; exact e.symm
  obtain ⟨a3, e3, E3⟩ := a_epilogue (la := la) E.cfg st2.view m hsp2 E.aligned E.low E.high
  obtain ⟨st3, es, R3, S3⟩ := sim_execList la R2 e3
  refine ⟨st3, es, S3, R3.size, ?_, ?_, ?_, ?_⟩
  · rw [R3.regs 0 (by decide), E3.rsp]
  · intro r hr
    have key : ∀ k (hk : k < 6), st3.regs[[2, 3, 12, 13, 14, 15][k]'hk]? = st0.regs[[2, 3, 12, 13, 14, 15][k]'hk]? := by
      intro k hk
      have hlt := csList_lt k hk
      have hlow := E.low
      rw [R3.regs _ hlt, E3.restored k hk, ← P.saved k hk, ← hbody_mem _ (by omega)]
      rfl
    simp only [List.mem_cons, List.not_mem_nil, or_false] at hr
    rcases hr with rfl | rfl | rfl | rfl | rfl | rfl
    · exact key 0 (by decide)
    · exact key 1 (by decide)
    · exact key 2 (by decide)
    · exact key 3 (by decide)
    · exact key 4 (by decide)
    · exact key 5 (by decide)
  · intro r hr h0 hnot
    rw [R3.regs r hr, E3.regs r h0 hnot, ← R2.regs r hr]
  · intro n hn
    have hlow := E.low
    rw [R3.mem, E3.mem]
    show st2.stackMem[n]? = _
    rw [hbody_mem n (by omega), P.mem n (fun k hk => by omega)]

/-- the exit check succeeds: `ret` at the entry `rsp`, return sentinel on the stack, callee-saved
    registers at their sentinels, a defined result in `rax`. -/
theorem retCheck_ok (hc : CfgOK c) {st : State} {v : Word} (h16 : c.stackTop % 8 = 0)
    (hroom : c.stackLow + 8 ≤ c.stackTop)
    (hsp : st.regs[0]? = some (some (BitVec.ofNat 64 (c.stackTop - 8))))
    (hret : st.stackMem[c.stackTop - 8]? = some retSentinel)
    (hcs : ∀ r ∈ calleeSaved, st.regs[r]? = some (some (calleeSentinel r)))
    (hrax : st.regs[4]? = some (some v)) :
    retCheck c st = .ok v := by
  have ht := hc.top
  have hb := hc.heapBelow
  have hlt : c.stackTop - 8 < 2 ^ 64 := by omega
  have e : (BitVec.ofNat 64 (c.stackTop - 8)).toNat = c.stackTop - 8 := by
    simp [BitVec.toNat_ofNat, Nat.mod_eq_of_lt hlt]
  have hload : loadWord c st (BitVec.ofNat 64 (c.stackTop - 8)) = .ok retSentinel := by
    have h1 : (c.stackTop - 8) % 8 = 0 := by omega
    have h2 : inHeap c (c.stackTop - 8) = false := by
      unfold inHeap; rw [Bool.and_eq_false_iff]; right; rw [decide_eq_false_iff_not]; omega
    have h3 : inStack c (c.stackTop - 8) = true := by
      unfold inStack; rw [Bool.and_eq_true, decide_eq_true_eq, decide_eq_true_eq]; omega
    simp [loadWord, loadWordRaw, e, h1, h2, h3, hret]
  have hfind : calleeSaved.find? (fun r => st.regs[r]? != some (some (calleeSentinel r))) = none := by
    rw [List.find?_eq_none]
    intro r hr
    simp [hcs r hr]
  simp only [retCheck, rd, hsp, hload, hrax, hfind, e]
  simp
  omega

/-- print_alignment on the machine, FOR EVERY CONTEXT: from a statement boundary with
    `rsp ≡ 8 (mod 16)` the save sequence of `print_i64` ends with `rsp ≡ 0 (mod 16)`, which is what the
    machine's external-call check (`misaligned-call`) demands. -/
theorem print_alignment_machine (hc : CfgOK c) (ctx : Scc.AxCut.Ctx) {st : State} {m : Nat}
    (hsize : st.regs.size = 16) (hsp : st.regs[0]? = some (some (BitVec.ofNat 64 m)))
    (h16 : m % 16 = 8) (hlow : c.stackLow + 72 ≤ m) (htop : m ≤ c.stackTop) :
    ∃ st' m', execStraight c la (saveCallerSaveRegisters (callerSaveRegistersInfo ctx).1
        (callerSaveRegistersInfo ctx).2) st = .ok st' ∧ Same st st' ∧
      st'.regs[0]? = some (some (BitVec.ofNat 64 m')) ∧ m' % 16 = 0 ∧ m' ≤ m ∧ m ≤ m' + 72 := by
  have R := st.rel_view hsize
  have hsp' : st.view.reg 0 = some (BitVec.ofNat 64 m) := by
    have := R.regs 0 (by decide); rw [hsp] at this; injection this with e; exact e.symm
  obtain ⟨a', m', e, S⟩ := a_save_aligned (la := la) hc ctx st.view m hsp' h16 hlow htop
  obtain ⟨st', es, R', S'⟩ := sim_execList la R e
  exact ⟨st', m', es, S', by rw [R'.regs 0 (by decide), S.rsp], S.aligned, S.below, S.room⟩

end Scc.X86
