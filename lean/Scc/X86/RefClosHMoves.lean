/-
  Scc.X86.RefClosHMoves — PARALLEL MOVES of ALL temporaries of positions (pointer parts and word parts),
  the move block of `subst` on contexts with object variables.  The integer fragment (RefDefs/RefSim/
  RefParam) tracks word parts only (`PosW`: odd temporaries); here the same development is repeated for
  the moves with the domain `PosT t := t < 267` (the capacity of utils.rs temporary_from_position) and a
  relation `MRel` that looks at nothing but the temporaries and the scratch cell — moves are agnostic of
  what the words mean — and records what the block leaves alone (`MKeep`: trace, heap, HEAP, FREE, the
  callee-save area).
  * `MOpRel`/`MSeg`: the x86 code renders a list of `comment`/`mov`/`save`/`restore`.
  * `mrep_mov`, `mrep_save`, `mrep_restore`: one instruction.
  * `mseg_follow`: a rendered block is executed by both machines in lockstep.
  * `mseg_parallelMoves`, `connections_go_relT`, `mseg_codeExchange`: the x86 code of `code_exchange` renders
    the mock code (parametricity of parallel_moves.rs in the backend, all bindings).
  NOTE (fork): this file is the closure-aware version of Scc/X86/RefHeapMoves.lean (same proofs, the
  three-way relation additionally carries the per-instance code-pointer map `κ`), in the namespace
  `Scc.X86.Ref.K`.  The original file is kept unchanged because Scc/X86/Conc*.lean (C09/C10/C13 on concrete
  runs) is built on its definitions.
-/
import Scc.X86.RefHeapBridge
import Scc.X86.RefParam
import Scc.X86.RefClosHX3

set_option linter.unusedVariables false
set_option linter.unusedSimpArgs false

namespace Scc.X86.Ref.K

open Scc.AxCut Scc.Backend Scc.Backend.Abs Scc.Backend.Sim Scc.X86 Scc.Backend.PM

/-- a temporary of a position within the capacity of utils.rs temporary_from_position -/
def PosT (t : Nat) : Prop := t < 267

theorem posT_ne_temp {t : Nat} (h : PosT t) : t ≠ Mock.T_TEMP := by
  unfold PosT at h; unfold Mock.T_TEMP; omega

/-- `blk` renders the move instruction `op` -/
def MOpRel (g : Mode) (op : MockOp) (blk : List Code) (g' : Mode) : Prop :=
  match op with
  | .comment m => blk = [.COMMENT m] ∧ g' = g
  | .mov t s => PosT t ∧ PosT s ∧ blk = mov (posTemp t) (posTemp s) ∧ g' = g ∧
      (g = .pm false → ¬ (isSpill (posTemp t) = true ∧ isSpill (posTemp s) = true))
  | .save t _ => ∃ b, blk = storeTemporary (posTemp t) b ∧ PosT t ∧ (g = .normal ∨ g = .pm b) ∧ g' = .pm b
  | .restore t _ => ∃ b, blk = restoreTemporary (posTemp t) b ∧ PosT t ∧ g = .pm b ∧ g' = .normal
  | _ => False

inductive MSeg : Mode → List MockOp → List Code → Mode → Prop where
  | nil (g : Mode) : MSeg g [] [] g
  | cons {g g1 g' : Mode} {op : MockOp} {blk : List Code} {ops : List MockOp} {cs : List Code} :
      MOpRel g op blk g1 → MSeg g1 ops cs g' → MSeg g (op :: ops) (blk ++ cs) g'

theorem MSeg.append {g g1 g' : Mode} {o1 o2 : List MockOp} {c1 c2 : List Code}
    (h1 : MSeg g o1 c1 g1) (h2 : MSeg g1 o2 c2 g') : MSeg g (o1 ++ o2) (c1 ++ c2) g' := by
  induction h1 with
  | nil g => simpa using h2
  | cons hop _ ih =>
    rw [List.cons_append, List.append_assoc]
    exact MSeg.cons hop (ih h2)

theorem MSeg.single {g g' : Mode} {op : MockOp} {blk : List Code} (h : MOpRel g op blk g') :
    MSeg g [op] blk g' := by
  have := MSeg.cons h (MSeg.nil g')
  simpa using this

/-- what a block of moves leaves alone -/
structure MKeep (F : Frame) (st0 st : State) : Prop where
  out : st.out = st0.out
  heapMem : st.heapMem = st0.heapMem
  heap : st.regs[HEAP]? = st0.regs[HEAP]?
  free : st.regs[FREE]? = st0.regs[FREE]?
  frame : ∀ n, F.m - 48 ≤ n → st.stackMem[n]? = st0.stackMem[n]?

theorem MKeep.refl (F : Frame) (st : State) : MKeep F st st := ⟨rfl, rfl, rfl, rfl, fun _ _ => rfl⟩

theorem MKeep.step {F : Frame} (H : FrameOK F) {st0 st st' : State} (K : MKeep F st0 st) {u : Option Temporary}
    (P : Preserved F.sp st st' u) (h2 : u ≠ some (.reg HEAP)) (h3 : u ≠ some (.reg FREE)) : MKeep F st0 st' :=
  ⟨by rw [P.same.out]; exact K.out, by rw [P.same.heapMem]; exact K.heapMem,
   by rw [P.regs HEAP (by decide) (by decide) (fun e => h2 e.symm)]; exact K.heap,
   by rw [P.regs FREE (by decide) (by decide) (fun e => h3 e.symm)]; exact K.free,
   fun n hn => by rw [P.frame H n hn]; exact K.frame n hn⟩

theorem MKeep.setPS {F : Frame} {st0 st : State} (K : MKeep F st0 st) (pc k : Nat) :
    MKeep F st0 (setPS st pc k) := ⟨K.out, K.heapMem, K.heap, K.free, K.frame⟩

/-- the relation of the move block: a (shadow) configuration of the abstract machine and the machine agree
on every temporary of a position and on the scratch cell -/
structure MRel (F : Frame) (g : Mode) (st0 : State) (cfg : Config) (st : State) : Prop where
  bnd : Boundary F.c st F.sp
  temps : ∀ t v, PosT t → cfg.temps.get t = some v → tempVal F.sp st (posTemp t) = some v
  scratch : ∀ b, g = .pm b → ∀ w, cfg.scratch = some w → tempVal F.sp st (scratchLoc b) = some w
  keep : MKeep F st0 st

theorem MRel.setPS {F : Frame} {g : Mode} {st0 : State} {cfg : Config} {st : State}
    (R : MRel F g st0 cfg st) (pc k : Nat) : MRel F g st0 cfg (setPS st pc k) :=
  ⟨⟨R.bnd.size, R.bnd.rsp, R.bnd.sp⟩, fun t v ht hg => by rw [tempVal_setPS]; exact R.temps t v ht hg,
   fun b hb w hw => by rw [tempVal_setPS]; exact R.scratch b hb w hw, R.keep.setPS pc k⟩

theorem posTemp_ne_heap_free (t : Nat) : some (posTemp t) ≠ some (Temporary.reg HEAP) ∧
    some (posTemp t) ≠ some (Temporary.reg FREE) :=
  ⟨fun e => posTemp_ne_low t (r := HEAP) (by decide) (Option.some.inj e),
   fun e => posTemp_ne_low t (r := FREE) (by decide) (Option.some.inj e)⟩

theorem scratchLoc_ne_heap_free (b : Bool) : some (scratchLoc b) ≠ some (Temporary.reg HEAP) ∧
    some (scratchLoc b) ≠ some (Temporary.reg FREE) := by
  cases b <;> simp [scratchLoc] <;> decide

section Ops

variable {F : Frame} (H : FrameOK F) {la : String → Option Nat} {st0 : State} {cfg : Config} {st : State}
include H

omit H in
theorem posT_put_others {g : Mode} (R : MRel F g st0 cfg st) {st' : State} {t : Nat} (ht : PosT t)
    (P : Preserved F.sp st st' (some (posTemp t))) (x : Option Word) :
    ∀ t' v', PosT t' → t' ≠ t → ((clobberTemp cfg.temps).put t x).get t' = some v' →
      tempVal F.sp st' (posTemp t') = some v' := by
  intro t' v' ht' hne hg
  have hok := tempOK_posTemp ht
  have hlt : ∀ p, some (posTemp t) = some (Temporary.spill p) → p < 256 := by
    intro p e; injection e with e; rw [e] at hok; exact hok.2
  rw [get_put_other _ _ hne, get_clobberTemp _ (posT_ne_temp ht')] at hg
  rw [P.temp (tempOK_posTemp ht').opnd (tempOK_posTemp ht').ne_temp
    (fun e' => hne (posTemp_inj.1 (by injection e'))) hlt]
  exact R.temps t' v' ht' hg

/-- `mov t s` of parallel moves, in every mode -/
theorem mrep_mov {g : Mode} (R : MRel F g st0 cfg st) {t s : Nat} (ht : PosT t) (hs : PosT s)
    (hns : g = .pm false → ¬ (isSpill (posTemp t) = true ∧ isSpill (posTemp s) = true)) (pc' : Nat) :
    ∃ st', execStraight F.c la (mov (posTemp t) (posTemp s)) st = .ok st' ∧
      MRel F g st0 { cfg with pc := pc', temps := (clobberTemp cfg.temps).put t (cfg.temps.get s) } st' := by
  have hok := tempOK_posTemp ht
  have hlt : ∀ p, some (posTemp t) = some (Temporary.spill p) → p < 256 := by
    intro p e; injection e with e; rw [e] at hok; exact hok.2
  have key : ∃ st', execStraight F.c la (mov (posTemp t) (posTemp s)) st = .ok st' ∧
      Boundary F.c st' F.sp ∧ tempVal F.sp st' (posTemp t) = tempVal F.sp st (posTemp s) ∧
      Preserved F.sp st st' (some (posTemp t)) ∧
      (g = .pm false → tempVal F.sp st' (.reg TEMP) = tempVal F.sp st (.reg TEMP)) := by
    by_cases hg : g = .pm false
    · obtain ⟨st', e, B', hv, P, hT⟩ := mov_keeps_temp (la := la) R.bnd hok (tempOK_posTemp hs) (hns hg)
      exact ⟨st', e, B', hv, P, fun _ => hT⟩
    · obtain ⟨st', e, B', hv, P⟩ := mov_correct (la := la) R.bnd hok (tempOK_posTemp hs)
      exact ⟨st', e, B', hv, P, fun h => absurd h hg⟩
  obtain ⟨st', e, B', hv, P, hT⟩ := key
  refine ⟨st', e, B', ?_, ?_, R.keep.step H P (posTemp_ne_heap_free t).1 (posTemp_ne_heap_free t).2⟩
  · intro t' v' ht' hg
    by_cases e' : t' = t
    · subst e'
      simp only at hg
      rw [get_put_same] at hg
      rw [hv]; exact R.temps s v' hs hg
    · exact posT_put_others R ht P _ t' v' ht' e' hg
  · intro b hb w hw
    cases b with
    | true =>
      rw [P.temp (w := scratchLoc true) (opndOK_scratchLoc true) (by simp [scratchLoc])
        (fun e' => posTemp_ne_spill0 ht (by injection e' with e'; exact e'.symm)) hlt]
      exact R.scratch true hb w hw
    | false =>
      show tempVal F.sp st' (.reg TEMP) = some w
      rw [hT hb]
      exact R.scratch false hb w hw

/-- `save t`: the scratch cell := t (TEMP or the reserved slot SPILL_TEMP) -/
theorem mrep_save {g : Mode} (R : MRel F g st0 cfg st) {t : Nat} (ht : PosT t) (b : Bool)
    (hg : g = .normal ∨ g = .pm b) (pc' : Nat) :
    ∃ st', execStraight F.c la (storeTemporary (posTemp t) b) st = .ok st' ∧
      MRel F (.pm b) st0
        { cfg with pc := pc', temps := clobberTemp cfg.temps, scratch := cfg.temps.get t } st' := by
  have hok := tempOK_posTemp ht
  have hso := opndOK_scratchLoc b
  obtain ⟨st', e, B', hv, P⟩ := transfer_upd R.bnd la hso
    (t_mov (la := la) (τ := tview F.sp st) hso hok.opnd hok.ne_temp)
  have hlt : ∀ p, some (scratchLoc b) = some (Temporary.spill p) → p < 256 := by
    intro p e'; injection e' with e'
    cases b <;> simp [scratchLoc] at e'
    subst e'; decide
  have hne : ∀ {u : Nat}, u < 267 → some (posTemp u) ≠ some (scratchLoc b) := by
    intro u hu e'
    injection e' with e'
    cases b
    · exact (tempOK_posTemp hu).ne_temp e'
    · exact posTemp_ne_spill0 hu e'
  refine ⟨st', by rw [storeTemporary_eq]; exact e, B', ?_, ?_,
    R.keep.step H P (scratchLoc_ne_heap_free b).1 (scratchLoc_ne_heap_free b).2⟩
  · intro t' v' ht' hg'
    simp only at hg'
    rw [get_clobberTemp _ (posT_ne_temp ht')] at hg'
    rw [P.temp (tempOK_posTemp ht').opnd (tempOK_posTemp ht').ne_temp (hne ht') hlt]
    exact R.temps t' v' ht' hg'
  · intro b' hb' w hw
    injection hb' with hb'
    subst hb'
    simp only at hw
    show tempVal F.sp st' (scratchLoc b) = some w
    rw [hv]
    exact R.temps t w ht hw

/-- `restore t`: t := the scratch cell -/
theorem mrep_restore (b : Bool) (R : MRel F (.pm b) st0 cfg st) {t : Nat} (ht : PosT t) (pc' : Nat) :
    ∃ st', execStraight F.c la (restoreTemporary (posTemp t) b) st = .ok st' ∧
      MRel F .normal st0 { cfg with pc := pc', temps := (clobberTemp cfg.temps).put t cfg.scratch } st' := by
  have hok := tempOK_posTemp ht
  have hlt : ∀ p, some (posTemp t) = some (Temporary.spill p) → p < 256 := by
    intro p e; injection e with e; rw [e] at hok; exact hok.2
  have key : ∃ st', execStraight F.c la (restoreTemporary (posTemp t) b) st = .ok st' ∧
      Boundary F.c st' F.sp ∧ tempVal F.sp st' (posTemp t) = tempVal F.sp st (scratchLoc b) ∧
      Preserved F.sp st st' (some (posTemp t)) := by
    cases b with
    | true =>
      rw [restoreTemporary_true_eq]
      exact transfer_upd R.bnd la hok.opnd
        (t_mov (la := la) (τ := tview F.sp st) hok.opnd (opndOK_scratchLoc true) (by simp [scratchLoc]))
    | false =>
      rw [restoreTemporary_false_eq]
      refine transfer_upd R.bnd la hok.opnd ⟨_, t_moveFromRegister opndOK_temp hok.opnd, ?_, ?_⟩
      · simp [scratchLoc, tview]
      · intro u hu _; simp [hu]
  obtain ⟨st', e, B', hv, P⟩ := key
  refine ⟨st', e, B', ?_, (fun b' hb' => by cases hb'),
    R.keep.step H P (posTemp_ne_heap_free t).1 (posTemp_ne_heap_free t).2⟩
  intro t' v' ht' hg
  by_cases e' : t' = t
  · subst e'
    simp only at hg
    rw [get_put_same] at hg
    rw [hv]; exact R.scratch b rfl v' hg
  · exact posT_put_others R ht P _ t' v' ht' e' hg

end Ops


/-! ## a rendered block of moves on both machines -/

section Follow

variable {F : Frame} (H : FrameOK F) {mon : MonCfg} (hmon : mon.mach = F.c) {px : X86.Prog} {cs : List Code}
  (L : Loaded px cs) {P : Program} {st0 : State}

include H hmon L in
/-- the abstract machine (on ANY configuration: moves copy possibly undefined temporaries) and the
x86-64 machine execute a rendered block of moves in lockstep -/
theorem mseg_follow {g g' : Mode} {ops : List MockOp} {items : List Code} (S : MSeg g ops items g') :
    ∀ (cfg : Config) (st : State), CodeAt P cfg.pc ops → XAt cs st.pc items → MRel F g st0 cfg st →
    ∃ cfg' st' n, stepsTo P (instrCount ops) cfg cfg' ∧ stepN mon px n st = .inl st' ∧
      st'.pc = st.pc + items.length ∧ MRel F g' st0 cfg' st' ∧ cfg'.pc = cfg.pc + instrCount ops := by
  induction S with
  | nil g =>
    intro cfg st _ _ R
    exact ⟨cfg, st, 0, rfl, rfl, by simp, R, by simp [instrCount]⟩
  | @cons g g1 g' op blk ops cs' hop S ih =>
    intro cfg st hat hatX R
    -- one instruction
    have one : ∃ cfg1 st1 n1, stepsTo P (instrCount [op]) cfg cfg1 ∧ stepN mon px n1 st = .inl st1 ∧
        st1.pc = st.pc + blk.length ∧ MRel F g1 st0 cfg1 st1 ∧ cfg1.pc = cfg.pc + instrCount [op] ∧
        CodeAt P cfg1.pc ops := by
      cases op <;> simp only [MOpRel] at hop
      case comment m =>
        obtain ⟨rfl, rfl⟩ := hop
        simp only [CodeAt] at hat
        obtain ⟨k0, hk0⟩ := x_steps_straight mon L (blk := [Code.COMMENT m]) hatX.left (by rw [hmon]; rfl)
        exact ⟨cfg, _, _, rfl, hk0, rfl, R.setPS _ _, by simp [instrCount], hat⟩
      case mov t s =>
        obtain ⟨ht, hs, rfl, rfl, hns⟩ := hop
        simp only [CodeAt] at hat
        obtain ⟨hc, hat'⟩ := hat
        obtain ⟨st1, hx, R1⟩ := mrep_mov H (la := px.labelAddr) R ht hs hns (cfg.pc + 1)
        rw [← hmon] at hx
        obtain ⟨k1, hk1⟩ := x_steps_straight mon L hatX.left hx
        exact ⟨_, _, _, stepsTo_one P _ _ (step_mov' P cfg t s hc (posT_ne_temp ht)), hk1, rfl,
          R1.setPS _ _, rfl, hat'⟩
      case save t sp =>
        obtain ⟨b, rfl, ht, hg, rfl⟩ := hop
        simp only [CodeAt] at hat
        obtain ⟨hc, hat'⟩ := hat
        obtain ⟨st1, hx, R1⟩ := mrep_save H (la := px.labelAddr) R ht b hg (cfg.pc + 1)
        rw [← hmon] at hx
        obtain ⟨k1, hk1⟩ := x_steps_straight mon L hatX.left hx
        exact ⟨_, _, _, stepsTo_one P _ _ (step_save' P cfg t sp hc), hk1, rfl, R1.setPS _ _, rfl, hat'⟩
      case restore t sp =>
        obtain ⟨b, rfl, ht, rfl, rfl⟩ := hop
        simp only [CodeAt] at hat
        obtain ⟨hc, hat'⟩ := hat
        obtain ⟨st1, hx, R1⟩ := mrep_restore H (la := px.labelAddr) b R ht (cfg.pc + 1)
        rw [← hmon] at hx
        obtain ⟨k1, hk1⟩ := x_steps_straight mon L hatX.left hx
        exact ⟨_, _, _, stepsTo_one P _ _ (step_restore' P cfg t sp hc (posT_ne_temp ht)), hk1, rfl,
          R1.setPS _ _, rfl, hat'⟩
    obtain ⟨cfg1, st1, n1, hs1, hn1, hpc1, R1, hpcA, hat1⟩ := one
    obtain ⟨cfg2, st2, n2, hs2, hn2, hpc2, R2, hpcB⟩ := ih cfg1 st1 hat1 (by rw [hpc1]; exact hatX.right) R1
    refine ⟨cfg2, st2, n1 + n2, ?_, stepN_trans mon px hn1 hn2, by rw [hpc2, hpc1, List.length_append]; omega,
      R2, ?_⟩
    · have : instrCount (op :: ops) = instrCount [op] + instrCount ops := by
        rw [show op :: ops = [op] ++ ops from rfl, icount_append]
      rw [this]
      exact stepsTo_trans P _ _ _ _ _ hs1 hs2
    · have : instrCount (op :: ops) = instrCount [op] + instrCount ops := by
        rw [show op :: ops = [op] ++ ops from rfl, icount_append]
      rw [hpcB, hpcA, this]; omega

end Follow

/-! ## the x86 moves render the mock moves (parametricity, all temporaries) -/

mutual
  theorem mseg_treeMoves (b : Bool) (parent : Nat) (hp : PosT parent) : ∀ (tr : Tree Nat) (g : Mode),
      (g = .normal ∨ g = .pm b) → TreeOK PosT tr → (b = false → NoSS (posTemp parent) (mapT posTemp tr)) →
      MSeg g (treeMoves mockSym parent false tr) (treeMoves x86Backend (posTemp parent) b (mapT posTemp tr))
        (afterTree b (Tree.refersBack tr) g)
    | .backEdge, g, hg, _, _ => by
      simp only [treeMoves, mapT, Tree.refersBack, afterTree, if_true]
      exact MSeg.single (show MOpRel g (.save parent false) (storeTemporary (posTemp parent) b) (.pm b) from
        ⟨b, rfl, hp, hg, rfl⟩)
    | .node target kids, g, hg, hw, hn => by
      simp only [treeMoves, mapT, Tree.refersBack]
      have hk := mseg_treeMovesList b target hw.1 kids g hg hw.2 (fun hb => (hn hb).2)
      refine MSeg.append hk (MSeg.single ?_)
      show MOpRel _ (.mov target parent) (mov (posTemp target) (posTemp parent)) _
      refine ⟨hw.1, hp, rfl, rfl, ?_⟩
      intro hgm
      have hb : b = false := by
        unfold afterTree at hgm
        split at hgm
        · exact Mode.pm.inj hgm
        · rcases hg with h | h
          · rw [h] at hgm; cases hgm
          · rw [h] at hgm; exact Mode.pm.inj hgm
      have := (hn hb).1
      intro hc
      exact this ⟨hc.2, hc.1⟩
  theorem mseg_treeMovesList (b : Bool) (parent : Nat) (hp : PosT parent) :
      ∀ (l : List (Tree Nat)) (g : Mode),
      (g = .normal ∨ g = .pm b) → TreesOK PosT l → (b = false → NoSSs (posTemp parent) (mapTs posTemp l)) →
      MSeg g (treeMovesList mockSym parent false l)
        (treeMovesList x86Backend (posTemp parent) b (mapTs posTemp l))
        (afterTree b (Tree.anyRefersBack l) g)
    | [], g, _, _, _ => by
      simp only [treeMovesList, mapTs, Tree.anyRefersBack, afterTree]
      exact MSeg.nil g
    | k :: ks, g, hg, hw, hn => by
      simp only [treeMovesList, mapTs, Tree.anyRefersBack]
      have h1 := mseg_treeMoves b parent hp k g hg hw.1 (fun hb => (hn hb).1)
      have hg1 : afterTree b (Tree.refersBack k) g = .normal ∨ afterTree b (Tree.refersBack k) g = .pm b := by
        unfold afterTree; split
        · exact Or.inr rfl
        · exact hg
      have h2 := mseg_treeMovesList b parent hp ks _ hg1 hw.2 (fun hb => (hn hb).2)
      have := MSeg.append h1 h2
      have e : afterTree b (Tree.anyRefersBack ks) (afterTree b (Tree.refersBack k) g) =
          afterTree b (Tree.refersBack k || Tree.anyRefersBack ks) g := by
        unfold afterTree
        cases Tree.refersBack k <;> cases Tree.anyRefersBack ks <;> simp
      rw [e] at this
      exact this
end

theorem mseg_rootMoves (r : Root Nat) (hw : RootOK PosT r) :
    MSeg .normal (rootMoves mockSym r) (rootMoves x86Backend (mapR posTemp r)) .normal := by
  cases r with
  | startNode t kids =>
    simp only [rootMoves, mapR, mockSym_containsSpillEdge, anyRefersBack_map]
    generalize hb : x86Backend.containsSpillEdge (Root.startNode (posTemp t) (mapTs posTemp kids)) = b
    have hk := mseg_treeMovesList b t hw.1 kids .normal (Or.inl rfl) hw.2
      (fun h => noSSs_of_containsSpillEdge _ _ (by rw [← h]; exact hb))
    refine MSeg.append hk ?_
    by_cases hr : Tree.anyRefersBack kids = true
    · simp only [hr, if_true, afterTree]
      exact MSeg.single (show MOpRel (.pm b) (.restore t false) (restoreTemporary (posTemp t) b) .normal from
        ⟨b, rfl, hw.1, rfl, rfl⟩)
    · simp only [hr, afterTree, if_false, Bool.false_eq_true]
      exact MSeg.nil _

theorem mseg_flatten_rootMoves : ∀ (forest : List (Root Nat)), (∀ r ∈ forest, RootOK PosT r) →
    MSeg .normal (forest.map (rootMoves mockSym)).flatten
      ((forest.map (mapR posTemp)).map (rootMoves x86Backend)).flatten .normal
  | [], _ => MSeg.nil _
  | r :: rs, h => by
    simp only [List.map_cons, List.flatten_cons]
    exact MSeg.append (mseg_rootMoves r (h r (by simp)))
      (mseg_flatten_rootMoves rs (fun x hx => h x (by simp [hx])))


/-! ## `parallel_moves` -/

theorem mseg_parallelMoves (pm : List (Nat × List Nat)) (hk : ∀ e ∈ pm, PosT e.1) (hpm : PmOK PosT pm)
    {code : List Code} (h : parallelMoves x86Backend (mapPM posTemp pm) = .ok code) :
    ∃ ops, parallelMoves mockSym pm = .ok ops ∧ MSeg .normal ops code .normal := by
  unfold parallelMoves at h ⊢
  rw [spanningForest_map tempMap_posTemp] at h
  cases hf : spanningForest mockSym pm with
  | error e => rw [hf] at h; simp [Except.map] at h
  | ok forest =>
    rw [hf] at h
    simp only [Except.map, Except.ok.injEq] at h
    have hroots : ∀ r ∈ forest, RootOK PosT r := by
      unfold spanningForest at hf
      exact spanningForestLoop_ok (B := mockSym) _ _ _ forest
        (fun k hk' => by
          obtain ⟨e, he, rfl⟩ := List.mem_map.1 hk'
          exact hk e he) hpm hf
    refine ⟨_, rfl, ?_⟩
    rw [← h]
    have hall : (forest.map (mapR posTemp)).all Root.noTargets = forest.all Root.noTargets := by
      rw [List.all_map]
      congr 1
      funext r
      exact noTargets_map r
    rw [hall]
    refine MSeg.append ?_ (mseg_flatten_rootMoves forest hroots)
    split
    · exact MSeg.single (show MOpRel .normal (.comment "#move variables") [.COMMENT "#move variables"] .normal
        from ⟨rfl, rfl⟩)
    · exact MSeg.nil _


/-! ## `connections` / `code_exchange` for all bindings -/

theorem mapMGen_vt_relT (num : TempNum) (ctx : Ctx) : ∀ (ids : List Nat) (c : Nat) (ts : List Temporary) (c' : Nat),
    (mapMGen (fun id => x86Backend.variableTemporary num ctx id) ids).run c = .ok (ts, c') →
    ∃ tsM, (mapMGen (fun id => mockSym.variableTemporary num ctx id) ids).run c = .ok (tsM, c) ∧
      ts = tsM.map posTemp ∧ c' = c ∧ ∀ t ∈ tsM, PosT t
  | [], c, ts, c', h => by
    simp only [mapMGen, run_pure_ok] at h
    obtain ⟨rfl, rfl⟩ := h
    exact ⟨[], rfl, rfl, rfl, by simp⟩
  | id :: rest, c, ts, c', h => by
    simp only [mapMGen, run_bind_ok, run_pure_ok] at h
    obtain ⟨t, c1, h1, bs, c2, h2, rfl, rfl⟩ := h
    obtain ⟨pos, hp, hlt, rfl, rfl, hm⟩ := vt_rel h1
    obtain ⟨tsM, hM, rfl, rfl, hw⟩ := mapMGen_vt_relT num ctx rest _ _ _ h2
    refine ⟨(2 * pos + num.toNat) :: tsM, ?_, rfl, rfl, ?_⟩
    · simp only [mapMGen, run_bind_ok, run_pure_ok]
      exact ⟨_, _, hm, _, _, hM, rfl, rfl⟩
    · intro t ht
      simp only [List.mem_cons] at ht
      rcases ht with rfl | ht
      · exact hlt
      · exact hw t ht

theorem connections_go_relT (Γ newΓ : Ctx) : ∀ (tm : List (Binding × List Nat))
    (accM : List (Nat × List Nat)) (c : Nat) (connsX : List (Temporary × List Temporary)) (c' : Nat),
    ConnsOK PosT accM →
    (connections.go x86Backend Γ newΓ tm (mapPM posTemp accM)).run c = .ok (connsX, c') →
    ∃ connsM, (connections.go mockSym Γ newΓ tm accM).run c = .ok (connsM, c) ∧
      connsX = mapPM posTemp connsM ∧ c' = c ∧ ConnsOK PosT connsM
  | [], accM, c, connsX, c', hacc, h => by
    simp only [connections.go, run_pure_ok] at h
    obtain ⟨rfl, rfl⟩ := h
    exact ⟨accM, rfl, rfl, rfl, hacc⟩
  | (b, targets) :: rest, accM, c, connsX, c', hacc, h => by
    unfold connections.go at h ⊢
    by_cases hbe : (b.chi == Chi.ext) = true
    · simp only [hbe, if_true, run_bind_ok] at h ⊢
      obtain ⟨k, c1, h1, ts, c2, h2, h3⟩ := h
      obtain ⟨pos, hp, hlt, rfl, rfl, hm⟩ := vt_rel h1
      obtain ⟨tsM, hM, rfl, rfl, hw⟩ := mapMGen_vt_relT .snd newΓ targets _ _ _ h2
      rw [setOfList_map tempMap_posTemp, mapInsert_map tempMap_posTemp] at h3
      obtain ⟨connsM, hgo, e1, e2, hok⟩ := connections_go_relT Γ newΓ rest _ _ _ _
        (mem_mapInsert _ _ _ (QK := PosT) (QV := fun l => ∀ t ∈ l, PosT t) hlt
          (mem_setOfList (B := mockSym) (TOK := PosT) hw) accM hacc) h3
      exact ⟨connsM, ⟨_, _, hm, _, _, hM, hgo⟩, e1, e2, hok⟩
    · simp only [hbe, if_false, Bool.false_eq_true, run_bind_ok] at h ⊢
      obtain ⟨k1, c1, h1, ts1, c2, h2, k2, c3, h3, ts2, c4, h4, h5⟩ := h
      obtain ⟨pos1, hp1, hlt1, rfl, rfl, hm1⟩ := vt_rel h1
      obtain ⟨tsM1, hM1, rfl, rfl, hw1⟩ := mapMGen_vt_relT .fst newΓ targets _ _ _ h2
      obtain ⟨pos2, hp2, hlt2, rfl, rfl, hm2⟩ := vt_rel h3
      obtain ⟨tsM2, hM2, rfl, rfl, hw2⟩ := mapMGen_vt_relT .snd newΓ targets _ _ _ h4
      rw [setOfList_map tempMap_posTemp, setOfList_map tempMap_posTemp, mapInsert_map tempMap_posTemp,
        mapInsert_map tempMap_posTemp] at h5
      obtain ⟨connsM, hgo, e1, e2, hok⟩ := connections_go_relT Γ newΓ rest _ _ _ _
        (mem_mapInsert _ _ _ (QK := PosT) (QV := fun l => ∀ t ∈ l, PosT t) hlt2
          (mem_setOfList (B := mockSym) (TOK := PosT) hw2) _
          (mem_mapInsert _ _ _ (QK := PosT) (QV := fun l => ∀ t ∈ l, PosT t) hlt1
            (mem_setOfList (B := mockSym) (TOK := PosT) hw1) accM hacc)) h5
      exact ⟨connsM, ⟨_, _, hm1, _, _, hM1, _, _, hm2, _, _, hM2, hgo⟩, e1, e2, hok⟩

/-- `code_exchange`, all bindings: the x86 code renders the mock code -/
theorem mseg_codeExchange (tm : List (Binding × List Nat)) (Γ newΓ : Ctx)
    {c : Nat} {code : List Code} {c' : Nat}
    (h : (codeExchange x86Backend tm Γ newΓ).run c = .ok (code, c')) :
    ∃ ops, (codeExchange mockSym tm Γ newΓ).run c = .ok (ops, c') ∧ MSeg .normal ops code .normal := by
  unfold codeExchange connections at h ⊢
  simp only [run_bind_ok] at h ⊢
  obtain ⟨connsX, c1, h1, h2⟩ := h
  obtain ⟨connsM, hgo, rfl, rfl, hok⟩ := connections_go_relT Γ newΓ tm [] c connsX c1
    (fun _ h => by simp at h) h1
  cases hpm : parallelMoves x86Backend (mapPM posTemp connsM) with
  | error e => rw [hpm] at h2; simp [run_throw_ok] at h2
  | ok code' =>
    rw [hpm] at h2
    simp only [run_pure_ok] at h2
    obtain ⟨rfl, rfl⟩ := h2
    obtain ⟨ops, hops, S⟩ := mseg_parallelMoves connsM (fun e he => (hok e he).1) (fun e he => (hok e he).2) hpm
    refine ⟨ops, ⟨connsM, _, hgo, ?_⟩, S⟩
    rw [hops]
    rfl

end Scc.X86.Ref.K
