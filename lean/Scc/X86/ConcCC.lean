/-
  Scc.X86.ConcCC — the calling-convention monitor on runs of programs with data types: independence of the
  run from the heap-monitor flag (a run with the heap monitor ON ends as the run with the monitor OFF or in
  a report of the heap monitor), used to state the dynamic C13 theorem for every monitor configuration.
-/
import Scc.X86.CCProofsRun
import Scc.X86.RefHeapRun

set_option linter.unusedVariables false

namespace Scc.X86.Conc

open Scc.X86 Scc.X86.CC

/-- the run with the heap monitor switched off -/
def monOff (m : MonCfg) : MonCfg := { m with heap := false }

theorem step_monOff (m : MonCfg) (p : Prog) (s : State) : step (monOff m) p s = step m p s := rfl

/-- a run with the heap monitor ON ends as the run with the monitor OFF, or in a report of the HEAP monitor -/
theorem runLoop_monitor_indep (m : MonCfg) (p : Prog) : ∀ (f : Nat) (s : State) (b b' : Nat),
    (runLoop m p f s b).res = (runLoop (monOff m) p f s b').res ∨
      ∃ e ln, (runLoop m p f s b).res = .invFail e ln
  | 0, s, b, b' => Or.inl rfl
  | f + 1, s, b, b' => by
    simp only [runLoop]
    have hoff : monitor (monOff m) p s = .ok none := by simp [monitor, monOff]
    rw [hoff]
    dsimp only
    rw [step_monOff]
    cases hmon : monitor m p s with
    | error r =>
      obtain ⟨e, ln, rfl⟩ := monitor_err hmon
      exact Or.inr ⟨e, ln, rfl⟩
    | ok bb =>
      dsimp only
      cases hs : step m p s with
      | inl s1 => exact runLoop_monitor_indep m p f s1 _ _
      | inr r => exact Or.inl rfl

theorem runItems_monitor_indep (items : List (Code × Nat)) (args : List Word) (f : Nat) (m : MonCfg) :
    (Ref.runItems items args f m).res = (Ref.runItems items args f (monOff m)).res ∨
      ∃ e ln, (Ref.runItems items args f m).res = .invFail e ln := by
  have hm : (monOff m).mach = m.mach := rfl
  unfold Ref.runItems
  dsimp only
  rw [hm]
  cases hl : (mkProg m.mach items).labelIdx["asm_main"]? with
  | none => exact Or.inl rfl
  | some entry =>
    dsimp only
    split
    · exact Or.inl rfl
    · exact runLoop_monitor_indep m _ f _ 0 0

end Scc.X86.Conc
