/-
  Scc.X86.RefInit — Theorem B (x86-64), the INITIAL STATE and the LOADER of the machine:
  * `loaded_mkProg`: the program the machine builds from an item list (`mkProg`) holds the items, and
    its label table maps every label to the index of its FIRST definition (`Loaded`, RefBridge.lean);
  * `init_sim`: from the machine's entry state (`initState`: System V entry of `asm_main`, at most five
    integer arguments in rsi rdx rcx r8 r9, heap base in rdi) the routine header emitted by
    into_routine.rs (`preamble`; `setup` = callee-save pushes, spill area, HEAP/FREE, `move_arguments`)
    leads to the first item of the body in a state that REPRESENTS (`RepX86`) the initial configuration
    of the abstract backend machine (`initConfig`: argument i in the word part of position i).
-/
import Scc.X86.RefRun

set_option linter.unusedVariables false
set_option linter.unusedSimpArgs false

namespace Scc.X86.Ref

open Scc.AxCut Scc.Backend Scc.Backend.Abs Scc.Backend.Sim Scc.X86 Scc.Backend.PM

/-! ## the loader -/

/-- the fold of `mkLabelIdx` -/
def labF (m : Std.HashMap String Nat) (ci : Code × Nat) : Std.HashMap String Nat :=
  match ci.1 with
  | .LAB l => if m.contains l then m else m.insert l ci.2
  | _ => m

theorem mkLabelIdx_eq (cs : List Code) : mkLabelIdx cs = cs.zipIdx.foldl labF ∅ := rfl

theorem labF_fold (l : String) : ∀ (cs : List Code) (k : Nat) (m : Std.HashMap String Nat),
    ((cs.zipIdx k).foldl labF m)[l]? =
      match m[l]? with
      | some i => some i
      | none => (cs.findIdx? (fun c => decide (c = Code.LAB l))).map (· + k)
  | [], k, m => by
    simp only [List.zipIdx_nil, List.foldl_nil, List.findIdx?_nil, Option.map_none]
    cases m[l]? <;> rfl
  | c :: rest, k, m => by
    simp only [List.zipIdx_cons, List.foldl_cons]
    rw [labF_fold l rest (k + 1)]
    by_cases hc : ∃ l', c = Code.LAB l'
    · obtain ⟨l', rfl⟩ := hc
      simp only [labF]
      by_cases hm : m.contains l' = true
      · rw [if_pos hm]
        cases hml : m[l]? with
        | some i => rfl
        | none =>
          have hne : l' ≠ l := by
            intro e; subst e
            rw [Std.HashMap.contains_eq_isSome_getElem?, hml] at hm
            simp at hm
          simp only [List.findIdx?_cons]
          have : decide (Code.LAB l' = Code.LAB l) = false := by simp [hne]
          rw [this]
          cases List.findIdx? (fun c => decide (c = Code.LAB l)) rest <;>
            simp [Nat.add_assoc, Nat.add_comm 1]
      · rw [if_neg hm]
        rw [Std.HashMap.getElem?_insert]
        by_cases hne : l' = l
        · subst hne
          have hml : m[l']? = none := by
            rw [Std.HashMap.contains_eq_isSome_getElem?] at hm
            cases h : m[l']? with
            | none => rfl
            | some x => rw [h] at hm; simp at hm
          simp [hml, List.findIdx?_cons]
        · have hb : (l' == l) = false := by simp [hne]
          simp only [hb, Bool.false_eq_true, if_false]
          cases hml : m[l]? with
          | some i => rfl
          | none =>
            simp only [List.findIdx?_cons]
            have : decide (Code.LAB l' = Code.LAB l) = false := by simp [hne]
            rw [this]
            cases List.findIdx? (fun c => decide (c = Code.LAB l)) rest <;>
              simp [Nat.add_assoc, Nat.add_comm 1]
    · have hF : labF m (c, k) = m := by
        cases c <;> first | rfl | exact absurd ⟨_, rfl⟩ hc
      rw [hF]
      have hd : decide (c = Code.LAB l) = false := by
        simp only [decide_eq_false_iff_not]
        intro e; exact hc ⟨l, e⟩
      cases hml : m[l]? with
      | some i => rfl
      | none =>
        simp only [List.findIdx?_cons, hd]
        cases List.findIdx? (fun c => decide (c = Code.LAB l)) rest <;>
          simp [Nat.add_assoc, Nat.add_comm 1]

theorem mkLabelIdx_get (cs : List Code) (l : String) : (mkLabelIdx cs)[l]? = labIdx cs l := by
  rw [mkLabelIdx_eq, show cs.zipIdx = cs.zipIdx 0 from rfl, labF_fold l cs 0 ∅]
  simp only [Std.HashMap.getElem?_empty, labIdx]
  cases List.findIdx? (fun c => decide (c = Code.LAB l)) cs <;> simp

theorem stripC_lab (c : Code) (l : String) : decide (stripC c = Code.LAB l) = decide (c = Code.LAB l) := by
  cases c <;> simp [stripC]

theorem labIdx_strip {a b : List Code} (h : a.map stripC = b.map stripC) (l : String) :
    labIdx a l = labIdx b l := by
  have key : ∀ (x : List Code), labIdx x l = labIdx (x.map stripC) l := by
    intro x
    unfold labIdx
    rw [List.findIdx?_map]
    congr 1
    funext c
    simp only [Function.comp]
    exact (stripC_lab c l).symm
  rw [key a, key b, h]

/-- THE LOADER: `mkProg` holds the items and resolves labels to their first definitions -/
theorem loaded_mkProg (c : MachCfg) (items : List (Code × Nat)) (cs : List Code)
    (h : (items.map (·.1)).map stripC = cs.map stripC) : Loaded (mkProg c items) cs := by
  constructor
  · intro i
    show ((items.map (·.1)).toArray[i]?).map stripC = _
    rw [List.getElem?_toArray, ← List.getElem?_map, h, List.getElem?_map]
  · intro l
    show (mkLabelIdx (items.map (·.1)))[l]? = _
    rw [mkLabelIdx_get]
    exact labIdx_strip h l


/-! ## the initial configuration of the abstract machine -/

theorem initTemps_get_inv : ∀ (args : List Word) (k t : Nat) (v : Word),
    (initTemps args k).get t = some v → ∃ i, ∃ (hi : i < args.length), t = 2 * (k + i) + 1 ∧ v = args[i]
  | [], k, t, v, h => by simp [initTemps, Temps.get] at h
  | w :: ws, k, t, v, h => by
    simp only [initTemps, Temps.get, List.find?_cons] at h
    by_cases e : (2 * k + 1 == t) = true
    · simp only [e] at h
      simp only [beq_iff_eq] at e
      injection h with h
      exact ⟨0, by simp, by omega, by simp [h]⟩
    · simp only [e] at h
      obtain ⟨i, hi, ht, hv⟩ := initTemps_get_inv ws (k + 1) t v h
      exact ⟨i + 1, by simpa using hi, by omega, by simpa using hv⟩

/-! ## the entry state of the machine -/

/-- sanity of the machine configuration: regions in order, the stack top 16-aligned (so that
    `rsp = stackTop − 8 ≡ 8 (mod 16)` at entry, System V), room for the frame of `asm_main` -/
structure MachOK (c : MachCfg) : Prop where
  cfg : CfgOK c
  top16 : c.stackTop % 16 = 0
  room : c.stackLow + 2176 ≤ c.stackTop

theorem machOK_default : MachOK {} := ⟨cfgOK_default, by decide, by decide⟩

/-- the argument registers of the entry state after the heap pointer (Machine.lean `argRegs`) -/
def argReg (i : Nat) : Nat := [6, 5, 1, 8, 9].getD i 0

/-- what `initState` establishes (at most five arguments) -/
structure InitFacts (c : MachCfg) (args : List Word) (st : State) : Prop where
  size : st.regs.size = 16
  rsp : st.regs[0]? = some (some (BitVec.ofNat 64 (c.stackTop - 8)))
  heap : st.regs[7]? = some (some (BitVec.ofNat 64 c.heapBase))
  callee : ∀ r ∈ calleeSaved, st.regs[r]? = some (some (calleeSentinel r))
  args : ∀ i (hi : i < args.length), st.regs[argReg i]? = some (some args[i])
  retw : st.stackMem[c.stackTop - 8]? = some retSentinel
  out : st.out = []

theorem initFacts (c : MachCfg) (args : List Word) (hn : args.length ≤ 5) (entry : Nat) :
    InitFacts c args (initState c args entry) := by
  have hret : (initState c args entry).stackMem[c.stackTop - 8]? = some retSentinel := by
    simp [initState]
  have hcal : ∀ (regs : Array (Option Word)),
      (regs[2]? = some (some (calleeSentinel 2)) ∧ regs[3]? = some (some (calleeSentinel 3)) ∧
       regs[12]? = some (some (calleeSentinel 12)) ∧ regs[13]? = some (some (calleeSentinel 13)) ∧
       regs[14]? = some (some (calleeSentinel 14)) ∧ regs[15]? = some (some (calleeSentinel 15))) →
      ∀ r ∈ calleeSaved, regs[r]? = some (some (calleeSentinel r)) := by
    intro regs h r hr
    simp only [calleeSaved, List.mem_cons, List.not_mem_nil, or_false] at hr
    obtain ⟨h2, h3, h12, h13, h14, h15⟩ := h
    rcases hr with rfl | rfl | rfl | rfl | rfl | rfl <;> assumption
  match args, hn with
  | [], _ =>
    refine ⟨?_, ?_, ?_, hcal _ ⟨?_, ?_, ?_, ?_, ?_, ?_⟩, fun i hi => by simp at hi, hret, rfl⟩ <;>
      simp [initState, initRegs, calleeSaved, argRegs, Array.set!_eq_setIfInBounds]
  | [a0], _ =>
    refine ⟨?_, ?_, ?_, hcal _ ⟨?_, ?_, ?_, ?_, ?_, ?_⟩, ?_, hret, rfl⟩
    case refine_10 =>
      intro i hi
      have : i = 0 := by simp at hi; omega
      subst this
      simp [initState, initRegs, calleeSaved, argRegs, argReg, Array.set!_eq_setIfInBounds]
    all_goals simp [initState, initRegs, calleeSaved, argRegs, Array.set!_eq_setIfInBounds]
  | [a0, a1], _ =>
    refine ⟨?_, ?_, ?_, hcal _ ⟨?_, ?_, ?_, ?_, ?_, ?_⟩, ?_, hret, rfl⟩
    case refine_10 =>
      intro i hi
      have : i = 0 ∨ i = 1 := by simp at hi; omega
      rcases this with rfl | rfl <;>
        simp [initState, initRegs, calleeSaved, argRegs, argReg, Array.set!_eq_setIfInBounds]
    all_goals simp [initState, initRegs, calleeSaved, argRegs, Array.set!_eq_setIfInBounds]
  | [a0, a1, a2], _ =>
    refine ⟨?_, ?_, ?_, hcal _ ⟨?_, ?_, ?_, ?_, ?_, ?_⟩, ?_, hret, rfl⟩
    case refine_10 =>
      intro i hi
      have : i = 0 ∨ i = 1 ∨ i = 2 := by simp at hi; omega
      rcases this with rfl | rfl | rfl <;>
        simp [initState, initRegs, calleeSaved, argRegs, argReg, Array.set!_eq_setIfInBounds]
    all_goals simp [initState, initRegs, calleeSaved, argRegs, Array.set!_eq_setIfInBounds]
  | [a0, a1, a2, a3], _ =>
    refine ⟨?_, ?_, ?_, hcal _ ⟨?_, ?_, ?_, ?_, ?_, ?_⟩, ?_, hret, rfl⟩
    case refine_10 =>
      intro i hi
      have : i = 0 ∨ i = 1 ∨ i = 2 ∨ i = 3 := by simp at hi; omega
      rcases this with rfl | rfl | rfl | rfl <;>
        simp [initState, initRegs, calleeSaved, argRegs, argReg, Array.set!_eq_setIfInBounds]
    all_goals simp [initState, initRegs, calleeSaved, argRegs, Array.set!_eq_setIfInBounds]
  | [a0, a1, a2, a3, a4], _ =>
    refine ⟨?_, ?_, ?_, hcal _ ⟨?_, ?_, ?_, ?_, ?_, ?_⟩, ?_, hret, rfl⟩
    case refine_10 =>
      intro i hi
      have : i = 0 ∨ i = 1 ∨ i = 2 ∨ i = 3 ∨ i = 4 := by simp at hi; omega
      rcases this with rfl | rfl | rfl | rfl | rfl <;>
        simp [initState, initRegs, calleeSaved, argRegs, argReg, Array.set!_eq_setIfInBounds]
    all_goals simp [initState, initRegs, calleeSaved, argRegs, Array.set!_eq_setIfInBounds]
  | _ :: _ :: _ :: _ :: _ :: _ :: _, h => simp at h

/-! ## `move_arguments` -/

/-- `move_arguments n` (n ≤ 5) on the functional view: parameter i ends in register 2 i + 5 (the word
    part of position i); rsp and the stack are untouched -/
theorem a_moveArguments (c : MachCfg) (la : String → Option Nat) : ∀ (n : Nat) (moves : List Code),
    n ≤ 5 → moveArguments n = .ok moves → ∀ (a : AState),
    ∃ a', aexecList c la moves a = some a' ∧ (∀ i, i < n → a'.reg (2 * i + 5) = a.reg (argReg i)) ∧
      a'.reg 0 = a.reg 0 ∧ a'.mem = a.mem := by
  intro n moves hn h a
  have m75 := fun (x : AState) => aexec_MOV' (c := c) (la := la) (a := x) (by decide : 7 < 16) (by decide : 5 < 16)
  have m56 := fun (x : AState) => aexec_MOV' (c := c) (la := la) (a := x) (by decide : 5 < 16) (by decide : 6 < 16)
  have m91 := fun (x : AState) => aexec_MOV' (c := c) (la := la) (a := x) (by decide : 9 < 16) (by decide : 1 < 16)
  have m118 := fun (x : AState) => aexec_MOV' (c := c) (la := la) (a := x) (by decide : 11 < 16) (by decide : 8 < 16)
  have m139 := fun (x : AState) => aexec_MOV' (c := c) (la := la) (a := x) (by decide : 13 < 16) (by decide : 9 < 16)
  have cases5 : n = 0 ∨ n = 1 ∨ n = 2 ∨ n = 3 ∨ n = 4 ∨ n = 5 := by omega
  rcases cases5 with rfl | rfl | rfl | rfl | rfl | rfl
  · have : moves = [.COMMENT "move parameters into place"] := by
      have : moveArguments 0 = .ok [.COMMENT "move parameters into place"] := rfl
      rw [this] at h; injection h with h; exact h.symm
    subst this
    exact ⟨a, rfl, fun i hi => by omega, rfl, rfl⟩
  · have : moves = [.COMMENT "move parameters into place", .MOV 5 6] := by
      have : moveArguments 1 = .ok [.COMMENT "move parameters into place", .MOV 5 6] := rfl
      rw [this] at h; injection h with h; exact h.symm
    subst this
    refine ⟨_, by simp only [aexecList, aexec_COMMENT, m56]; rfl, ?_, by simp, by simp⟩
    intro i hi
    have : i = 0 := by omega
    subst this; simp [argReg]
  · have : moves = [.COMMENT "move parameters into place", .MOV 7 5,
        .COMMENT "move parameters into place", .MOV 5 6] := by
      have : moveArguments 2 = .ok [.COMMENT "move parameters into place", .MOV 7 5,
        .COMMENT "move parameters into place", .MOV 5 6] := rfl
      rw [this] at h; injection h with h; exact h.symm
    subst this
    refine ⟨_, by simp only [aexecList, aexec_COMMENT, m56, m75]; rfl, ?_, by simp, by simp⟩
    intro i hi
    have : i = 0 ∨ i = 1 := by omega
    rcases this with rfl | rfl <;> simp [argReg]
  · have : moves = [.COMMENT "move parameters into place", .MOV 9 1,
        .COMMENT "move parameters into place", .MOV 7 5,
        .COMMENT "move parameters into place", .MOV 5 6] := by
      have : moveArguments 3 = .ok [.COMMENT "move parameters into place", .MOV 9 1,
        .COMMENT "move parameters into place", .MOV 7 5,
        .COMMENT "move parameters into place", .MOV 5 6] := rfl
      rw [this] at h; injection h with h; exact h.symm
    subst this
    refine ⟨_, by simp only [aexecList, aexec_COMMENT, m56, m75, m91]; rfl, ?_, by simp, by simp⟩
    intro i hi
    have : i = 0 ∨ i = 1 ∨ i = 2 := by omega
    rcases this with rfl | rfl | rfl <;> simp [argReg]
  · have : moves = [.COMMENT "move parameters into place", .MOV 11 8,
        .COMMENT "move parameters into place", .MOV 9 1,
        .COMMENT "move parameters into place", .MOV 7 5,
        .COMMENT "move parameters into place", .MOV 5 6] := by
      have : moveArguments 4 = .ok [.COMMENT "move parameters into place", .MOV 11 8,
        .COMMENT "move parameters into place", .MOV 9 1,
        .COMMENT "move parameters into place", .MOV 7 5,
        .COMMENT "move parameters into place", .MOV 5 6] := rfl
      rw [this] at h; injection h with h; exact h.symm
    subst this
    refine ⟨_, by simp only [aexecList, aexec_COMMENT, m56, m75, m91, m118]; rfl, ?_, by simp, by simp⟩
    intro i hi
    have : i = 0 ∨ i = 1 ∨ i = 2 ∨ i = 3 := by omega
    rcases this with rfl | rfl | rfl | rfl <;> simp [argReg]
  · have : moves = [.COMMENT "move parameters into place", .MOV 13 9,
        .COMMENT "move parameters into place", .MOV 11 8,
        .COMMENT "move parameters into place", .MOV 9 1,
        .COMMENT "move parameters into place", .MOV 7 5,
        .COMMENT "move parameters into place", .MOV 5 6] := by
      have : moveArguments 5 = .ok [.COMMENT "move parameters into place", .MOV 13 9,
        .COMMENT "move parameters into place", .MOV 11 8,
        .COMMENT "move parameters into place", .MOV 9 1,
        .COMMENT "move parameters into place", .MOV 7 5,
        .COMMENT "move parameters into place", .MOV 5 6] := rfl
      rw [this] at h; injection h with h; exact h.symm
    subst this
    refine ⟨_, by simp only [aexecList, aexec_COMMENT, m56, m75, m91, m118, m139]; rfl, ?_, by simp, by simp⟩
    intro i hi
    have : i = 0 ∨ i = 1 ∨ i = 2 ∨ i = 3 ∨ i = 4 := by omega
    rcases this with rfl | rfl | rfl | rfl | rfl <;> simp [argReg]


/-- `move_arguments` accepts at most five parameters ("too many arguments for main") -/
theorem moveArguments_le : ∀ (n : Nat) (moves : List Code), moveArguments n = .ok moves → n ≤ 5
  | 0, _, _ => by omega
  | 1, _, _ => by omega
  | n + 2, moves, h => by
    unfold moveArguments at h
    by_cases hn : n + 2 > 5
    · rw [if_pos hn] at h; cases h
    · omega

theorem labs_moveArguments : ∀ (n : Nat) (moves : List Code), n ≤ 5 → moveArguments n = .ok moves →
    labs moves = [] := by
  intro n moves hn h
  have cases5 : n = 0 ∨ n = 1 ∨ n = 2 ∨ n = 3 ∨ n = 4 ∨ n = 5 := by omega
  rcases cases5 with rfl | rfl | rfl | rfl | rfl | rfl <;> (cases h; rfl)

/-- the shape of the routine (into_routine.rs) -/
theorem intoRoutine_shape {body routine : List Code} {n : Nat} (h : intoRoutine body n = .ok routine) :
    ∃ moves, moveArguments n = .ok moves ∧
      routine = [Code.COMMENT "asmsyntax=nasm", .NOEXECSTACK, .TEXT, .EXTERN "print_i64",
          .EXTERN "println_i64", .GLOBAL "asm_main"] ++ Code.LAB "asm_main" ::
        ((prologue ++ moves ++ [Code.COMMENT "actual code"]) ++ (body ++ cleanup)) := by
  unfold intoRoutine at h
  cases hm : moveArguments n with
  | error e => simp [setup, hm] at h
  | ok moves =>
    rw [setup_eq n moves hm] at h
    simp only [Except.ok.injEq] at h
    refine ⟨moves, rfl, ?_⟩
    rw [← h]
    simp [preamble]

/-- the header of the routine: everything before the body -/
def header (moves : List Code) : List Code :=
  [Code.COMMENT "asmsyntax=nasm", .NOEXECSTACK, .TEXT, .EXTERN "print_i64", .EXTERN "println_i64",
    .GLOBAL "asm_main", .LAB "asm_main"] ++ (prologue ++ moves ++ [Code.COMMENT "actual code"])

theorem labs_header {n : Nat} {moves : List Code} (hn : n ≤ 5) (hm : moveArguments n = .ok moves) :
    labs (header moves) = ["asm_main"] := by
  unfold header
  rw [labs_append, labs_append, labs_append, labs_moveArguments n moves hn hm]
  rfl

/-- THE INITIAL-STATE LEMMA: from the entry state of the machine the header of the routine leads to the
    first item of the body, in a state that represents the initial configuration of the abstract
    machine (entry address 0 = the label of the first definition) -/
theorem init_sim {mon : MonCfg} (MO : MachOK mon.mach) {p : Prog}
    {routine body : List Code} {args : List Word} (hn : args.length ≤ 5)
    (hr : intoRoutine body args.length = .ok routine) (L : Loaded p routine) :
    ∃ (hdr : List Code) (F : Frame) (h : Word) (st0' : State) (k : Nat) (st2 : State),
      routine = hdr ++ body ++ cleanup ∧ labs hdr = ["asm_main"] ∧ labIdx routine "asm_main" = some 6 ∧
      F.c = mon.mach ∧ FrameOK F ∧ EntryFacts F st0' h ∧
      stepN mon p k (initState mon.mach args 6) = .inl st2 ∧ st2.pc = hdr.length ∧
      RepX86 F .normal (initConfig 0 args) st2 := by
  obtain ⟨moves, hm, hshape⟩ := intoRoutine_shape hr
  have I := initFacts mon.mach args hn 6
  have hc8 := MO.top16
  have hroom := MO.room
  have htop := MO.cfg.top
  -- the label `asm_main`
  have hcs1 : routine = [Code.COMMENT "asmsyntax=nasm", .NOEXECSTACK, .TEXT, .EXTERN "print_i64",
      .EXTERN "println_i64", .GLOBAL "asm_main"] ++ Code.LAB "asm_main" ::
      ((prologue ++ moves ++ [Code.COMMENT "actual code"]) ++ (body ++ cleanup)) := hshape
  have hidx : labIdx routine "asm_main" = some 6 := by
    rw [hcs1]
    exact labIdx_append_of_not_mem _ _ _ (by simp [labs, codeLabelDef])
  obtain ⟨k1, hk1⟩ := step_fall mon L hcs1 (s := initState mon.mach args 6) rfl
    (show execCode mon.mach p.labelAddr (.LAB "asm_main") (initState mon.mach args 6) =
      .ok (initState mon.mach args 6, .next) from rfl)
  -- the prologue
  have E : EntryOK mon.mach (setPS (initState mon.mach args 6) 7 k1) (mon.mach.stackTop - 8) :=
    ⟨MO.cfg, I.size, I.rsp, by omega, by omega, by omega⟩
  obtain ⟨st1, e1, P⟩ := prologue_machine (la := p.labelAddr) E (h := BitVec.ofNat 64 mon.mach.heapBase) I.heap
  -- the parameter moves
  have R1 := st1.rel_view P.size
  obtain ⟨a', ea, hargs, hrsp, hmem⟩ := a_moveArguments mon.mach p.labelAddr args.length moves hn hm st1.view
  obtain ⟨st2, e2, R2, S2⟩ := sim_execList p.labelAddr R1 ea
  have hB : execStraight mon.mach p.labelAddr (prologue ++ moves ++ [Code.COMMENT "actual code"])
      (setPS (initState mon.mach args 6) 7 k1) = .ok st2 := by
    rw [execStraight_append, execStraight_append, e1]
    simp only [e2]
    rfl
  have hcs2 : routine = ([Code.COMMENT "asmsyntax=nasm", .NOEXECSTACK, .TEXT, .EXTERN "print_i64",
      .EXTERN "println_i64", .GLOBAL "asm_main"] ++ [Code.LAB "asm_main"]) ++
      (prologue ++ moves ++ [Code.COMMENT "actual code"]) ++ (body ++ cleanup) := by
    rw [hcs1]; simp
  obtain ⟨k2, hk2⟩ := steps_block mon L hcs2 (s := setPS (initState mon.mach args 6) 7 k1) rfl hB
  let F : Frame := ⟨mon.mach, mon.mach.stackTop - 8, st1⟩
  have HF : FrameOK F := ⟨MO.cfg, by show (mon.mach.stackTop - 8) % 16 = 8; omega,
    by show mon.mach.stackLow + 2168 ≤ mon.mach.stackTop - 8; omega, by show mon.mach.stackTop - 8 ≤ mon.mach.stackTop; omega⟩
  refine ⟨header moves, F, BitVec.ofNat 64 mon.mach.heapBase, setPS (initState mon.mach args 6) 7 k1,
    1 + (prologue ++ moves ++ [Code.COMMENT "actual code"]).length,
    setPS st2 (([Code.COMMENT "asmsyntax=nasm", .NOEXECSTACK, .TEXT, .EXTERN "print_i64",
      .EXTERN "println_i64", .GLOBAL "asm_main"] ++ [Code.LAB "asm_main"]).length +
      (prologue ++ moves ++ [Code.COMMENT "actual code"]).length) k2,
    ?_, labs_header hn hm, hidx, rfl, HF, ?_, ?_, ?_, ?_⟩
  · rw [hcs1]; simp [header]
  · exact ⟨E, P, rfl, by show mon.mach.stackTop % 8 = 0; omega, by show mon.mach.stackLow + 8 ≤ mon.mach.stackTop; omega,
      I.retw, I.callee⟩
  · rw [stepN_add mon p 1 _ _ _ (by rw [stepN_one]; exact hk1)]
    exact hk2
  · simp [setPS, header]; omega
  · apply RepX86.setPS
    have hsp : st2.regs[0]? = some (some F.sp) := by
      rw [R2.regs 0 (by decide), hrsp, ← R1.regs 0 (by decide), P.rsp]
      rfl
    refine ⟨⟨R2.size, hsp, HF.spOK⟩, ?_, ?_, ?_, ?_, ?_⟩
    · intro t v ht hg
      obtain ⟨i, hi, rfl, rfl⟩ := initTemps_get_inv args 0 t v hg
      have hi5 : i < 5 := by omega
      have hpos : posTemp (2 * (0 + i) + 1) = .reg (2 * i + 5) := by
        unfold posTemp
        rw [if_pos (by omega)]
        congr 1; omega
      rw [hpos]
      simp only [tempVal]
      have hlt : 2 * i + 5 < 16 := by omega
      have hareg : argReg i < 16 ∧ argReg i ≠ 0 ∧ argReg i ≠ 2 ∧ argReg i ≠ 3 := by
        have : i = 0 ∨ i = 1 ∨ i = 2 ∨ i = 3 ∨ i = 4 := by omega
        rcases this with rfl | rfl | rfl | rfl | rfl <;> simp [argReg]
      rw [R2.regs _ hlt, hargs i hi, ← R1.regs _ hareg.1, P.regs _ hareg.1 hareg.2.1 hareg.2.2.1 hareg.2.2.2]
      show ((initState mon.mach args 6).regs[argReg i]?).join = _
      rw [I.args i hi]
      rfl
    · intro v hg
      obtain ⟨i, hi, ht, _⟩ := initTemps_get_inv args 0 _ v hg
      exfalso
      unfold Mock.T_RET1 at ht
      omega
    · intro b hb; cases hb
    · rw [S2.out, P.same.out]
      exact I.out
    · intro n _
      rw [R2.mem, hmem]
      rfl

end Scc.X86.Ref
