/-
  Scc.X86.ConcKRun — the STATEMENT BOUNDARIES of the x86-64 run of ANY program (data types and closures),
  made explicit.  The port of Scc/X86/ConcRun.lean to the closure-aware three-way relation
  `Scc.X86.Ref.K.Rel3` (Scc/X86/RefClosHRun.lean).

  NEW with closures: the `jmp reg` of an `invoke` of a single-method closure lands on the first item of
  non-zero size behind the method label, so the machine is not AT the statement-boundary state `X0` the
  relation speaks about but at `X0` moved forward over labels and comments (`Tol cs X0 X`,
  Scc/X86/RefClosTol.lean; registers, stack, heap, output are those of `X0`).  A statement boundary of the run
  is therefore a machine state `X` with `Tol cs X0 X` for a state `X0` in relation `K.Rel3`:
  * `tol_next`, `tol_next_real` — the simulation runs from `X0`, the machine from `X`: the machine reaches the
    next boundary (up to `Tol` again), with at least one transition if the simulated step executes an item of
    non-zero size;
  * `run3_chain` — along a terminating run of the positional machine the machine passes through a boundary
    for EVERY state of the run, in order (`Conc.BChain`);
  * `entry_setup` — loader, header, Theorem A at the entry, the first `K.Rel3` (closure invariant: the
    parameters are integers);
  * `BoundaryOf`, `heapInvAt_of_boundary`, `programs_chain`.
-/
import Scc.X86.ConcKInv
import Scc.X86.ConcKStep
import Scc.X86.ConcRun

set_option linter.unusedVariables false
set_option linter.unusedSimpArgs false

namespace Scc.X86.ConcK

open Scc Scc.AxCut Scc.AxCut.Pos Scc.Backend Scc.Backend.Abs Scc.Backend.Sim Scc.Backend.Subst Scc.X86 Scc.X86.Ref
open Scc.Backend.Sim2 Scc.Backend.Keys
open Scc.Props.C14Generic (LabelSafe)
open Scc.Props.C06Generic (outAfter WithinCapacity Reachable EnoughHeap CodeFits statesOf stopsWithin
  reachable_mem_statesOf)
open Scc.Heap (HState InvS InvW)
open Scc.Heap.Refine (HRef FrLe Room)
open Scc.X86.Conc (BChain HeapInvAt ctxKinds stopsWithin_of_done ctxKinds_keys)

/-! ## the machine ahead of the boundary by labels and comments -/

section TolRun
variable (m : MonCfg) {p : Prog} {cs : List Code} (L : Loaded p cs)

include L in
/-- the simulation runs from the boundary state `X0` to the machine state `XR` (the next boundary `X'` up to
`Tol`), the machine is at `X` (`X0` up to `Tol`): the machine reaches a state that is `X'` up to `Tol` -/
theorem tol_next {X0 X X' XR : State} (T : Tol cs X0 X) {n : Nat} (h : stepN m p n X0 = .inl XR)
    (T' : Tol cs X' XR) : ∃ k XR', stepN m p k X = .inl XR' ∧ Tol cs X' XR' := by
  rcases tol_run m L T h with ⟨k, hk⟩ | T2
  · exact ⟨k, XR, hk, T'⟩
  · exact ⟨0, X, rfl, T'.trans T2⟩

include L in
/-- … with at least one transition of the machine, if one of the simulated transitions is at an item of
non-zero size -/
theorem tol_next_real {X0 X X' XR : State} (T : Tol cs X0 X) {n : Nat} (h : stepN m p n X0 = .inl XR)
    (T' : Tol cs X' XR) (hreal : ∃ n1 Xm, n1 < n ∧ stepN m p n1 X0 = .inl Xm ∧ ¬ NoopAt cs Xm.pc) :
    ∃ k XR', 1 ≤ k ∧ stepN m p k X = .inl XR' ∧ Tol cs X' XR' := by
  obtain ⟨n1, Xm, hn1, hXm, hnn⟩ := hreal
  have hle := T.le
  have hd : X.pc - X0.pc ≤ n1 := by
    rcases Nat.lt_or_ge n1 (X.pc - X0.pc) with hlt | hge
    · exfalso
      have h1 := noop_steps m L n1 X0 (fun i h1 h2 => T.noop i h1 (by omega))
      rw [h1] at hXm
      injection hXm with hXm
      subst hXm
      exact hnn (T.noop _ (by simp [setPS]) (by simp [setPS]; omega))
    · exact hge
  refine ⟨n - (X.pc - X0.pc), XR, by omega, ?_, T'⟩
  have := stepN_add m p (X.pc - X0.pc) (n - (X.pc - X0.pc)) X0 X (T.steps m L)
  rw [show X.pc - X0.pc + (n - (X.pc - X0.pc)) = n by omega] at this
  rw [← this]; exact h

end TolRun

section Run3

variable {F : Frame} (HF : FrameOK F) (h8 : F.c.heapBase % 8 = 0) {mon : MonCfg} (hmon : mon.mach = F.c)
  {px : X86.Prog} {cs pre : List Code} (LA : LoadedA F.c px cs) (hndL : (labs cs).Nodup)
  (hfitX : addrAt F.c.codeBase cs cs.length < 2 ^ 64) (hcs : cs = pre ++ cleanup)
  (hclean : "cleanup" ∉ labs pre) {st0 : State} {h : Word} (E : EntryFacts F st0 h)

include HF h8 hmon LA hndL hfitX hcs hclean E in
/-- THE THREE-WAY RUN WITH ALL ITS BOUNDARIES, all programs: along a terminating run of the positional machine
from a represented state the machine passes through a state that is — up to labels and comments — related by
`K.Rel3` to EVERY state of the run -/
theorem run3_chain (hooks : Bool) (prog : AxCut.Prog) (c : Nat) (code : List MockOp) (nargs c' : Nat)
    (hcomp : (compile mockSym hooks prog).run c = .ok ((code, nargs), c'))
    (hsafe : LabelSafe prog = true) (htp : LinTypedProg prog) (hfit : CodeFits code)
    (DX : K.XDefsAt cs hooks prog) (hprog : K.ProgOK prog) :
    ∀ (fuel : Nat) (st : Pos.State) (acc : List (Bool × Word)) (cfg : Config) (hs : HState) (X0 X : State)
      (out : List (Bool × Word)) (v : Word),
      Pos.StateTyped prog st → (∀ st', Reachable prog st st' → 2 * st'.ctx.length ≤ 266) →
      Tol cs X0 X →
      K.Rel3 F cs (Program.ofOps code) hooks prog st cfg hs X0 → K.StmtOK st.stmt →
      cfg.out = acc → cfg.next + fuel < 2 ^ 64 → Room hs (64 * 134 * fuel) →
      Pos.runState prog fuel st acc = ⟨out, .done v⟩ →
      BChain mon px (fun st X => ∃ X0 cfg hs, Tol cs X0 X ∧ K.Rel3 F cs (Program.ofOps code) hooks prog st cfg hs X0)
        (statesOf prog fuel st) X
  | 0, st, acc, cfg, hs, X0, X, out, v, _, _, _, _, _, _, _, _, h => by simp [Pos.runState] at h
  | fuel + 1, st, acc, cfg, hs, X0, X, out, v, T, hcap, TL, R, hok, hacc, hnext, hroom, h => by
    have L := LA.loaded
    have hsim := K.step3 HF h8 hmon LA hndL hfitX hcs hclean E hooks prog c code nargs c' hcomp hsafe htp hfit
      DX hprog st cfg hs X0 R T (by unfold EnoughHeap; omega) hok (hroom.mono (by omega))
    have hsafe' := Pos.step_safe htp st T
    have hw : ∃ rs lin lazy live F, InvS hs rs [] lin lazy live F := by
      obtain ⟨Γ', ι, κ, _, _, X3h, _⟩ := R
      obtain ⟨lin, lazy, live, Fr, I⟩ := X3h.href.conc
      exact ⟨_, lin, lazy, live, Fr, I⟩
    unfold K.StepSim3 at hsim
    simp only [Pos.runState] at h
    simp only [statesOf]
    cases hst : Pos.step prog st with
    | stuck w => simp [hst] at h
    | done v' => exact ⟨⟨X0, cfg, hs, TL, R⟩, Or.inl rfl⟩
    | next st' o =>
      simp only [hst] at h hsim
      rw [hst] at hsafe'
      have hc' := hcap st' (Reachable.step Reachable.refl hst)
      obtain ⟨cfg', hs', X', XR, n, h1, T', h2, h3, hfr, R', hok'⟩ := hsim (K.withinCapacity_of_le hc') hc'
      have hacc' : cfg'.out = outAfter o acc := by rw [h2, hacc]
      have h' : Pos.runState prog fuel st' (outAfter o acc) = ⟨out, .done v⟩ := by
        cases o <;> exact h
      have hroom' : Room hs' (64 * 134 * fuel) :=
        (hroom.step hfr (by omega) hw).mono (by omega)
      obtain ⟨k, XR', hk, T''⟩ := tol_next mon L TL h1 T'
      have ih := run3_chain hooks prog c code nargs c' hcomp hsafe htp hfit DX hprog fuel st'
        (outAfter o acc) cfg' hs' X' XR' out v hsafe'
        (fun st'' hr => hcap st'' (Scc.Props.C06Generic.reachable_prepend hst hr)) T'' R' hok' hacc' (by omega)
        hroom' h'
      exact ⟨⟨X0, cfg, hs, TL, R⟩, Or.inr ⟨k, XR', hk, ih⟩⟩

end Run3

/-! ## the entry: everything `K.programs_items` establishes before the run -/

/-- what the header of the routine establishes: the frame, the loaded routine, the first boundary -/
structure Entry (p : AxCut.Prog) (args : List Word) (hooks : Bool) (routine : List Code) (d0 : Def)
    (ops : List MockOp) (cfg : MonCfg) (items : List (Code × Nat)) (F : Frame) (pre : List Code)
    (st0 : State) (h : Word) (n0 : Nat) (X0 : State) (a : Nat) : Prop where
  fc : F.c = cfg.mach
  frame : FrameOK F
  loaded : LoadedA F.c (mkProg cfg.mach items) routine
  split : routine = pre ++ cleanup
  clean : "cleanup" ∉ labs pre
  entry : EntryFacts F st0 h
  defs : K.XDefsAt routine hooks p
  main : (mkProg cfg.mach items).labelIdx["asm_main"]? = some 6
  steps : stepN cfg (mkProg cfg.mach items) n0 (initState cfg.mach args 6) = .inl X0
  rel : K.Rel3 F routine (Program.ofOps ops) hooks p ⟨d0.ctx, args.map .int, d0.body⟩ (initConfig a args)
    (Scc.Heap.init F.c.heapBase (F.c.heapBase + F.c.heapBytes)) X0
  next1 : (initConfig a args).next = 1
  typed : Pos.StateTyped p ⟨d0.ctx, args.map .int, d0.body⟩
  nargs : args.length ≤ 5

theorem entry_setup (p : AxCut.Prog) (args : List Word) (hooks : Bool) (body routine : List Code)
    (nargs : Nat) (d0 : Def) (ops : List MockOp) (c' : Nat)
    (hsafe : LabelSafe p = true) (htp : LinTypedProg p)
    (hcompM : (compile mockSym hooks p).run 0 = .ok ((ops, nargs), c'))
    (hcompX : compileX86 p hooks 0 = .ok (body, nargs)) (hrout : intoRoutine body nargs = .ok routine)
    (hnd : (labs routine).Nodup)
    (hd : p.defs.head? = some d0) (hentry : ∀ b ∈ d0.ctx, b.chi = .ext ∧ b.ty = .i64)
    (hlen : d0.ctx.length = args.length) (hc0 : 2 * d0.ctx.length ≤ 266)
    (cfg : MonCfg) (MO : MachOK cfg.mach)
    (hb0 : 0 < cfg.mach.heapBase) (hbytes : 128 ≤ cfg.mach.heapBytes)
    (items : List (Code × Nat)) (hitems : (items.map (·.1)).map stripC = routine.map stripC) :
    ∃ F pre st0 h n0 X0 a, Entry p args hooks routine d0 ops cfg items F pre st0 h n0 X0 a := by
  have hmem : d0 ∈ p.defs := by
    cases hdefs : p.defs with
    | nil => rw [hdefs] at hd; simp at hd
    | cons d ds => rw [hdefs] at hd; simp at hd; subst hd; simp
  have hnodupD := Scc.Props.C14Generic.labels_unique hooks p 0 ops nargs c' hcompM hsafe
  obtain ⟨_, hnargs⟩ := compile_mock_entry hcompM hd
  rw [hnargs, hlen] at hrout
  have hargs : args.length ≤ 5 := by
    obtain ⟨moves, hm, _⟩ := intoRoutine_shape hrout
    exact moveArguments_le _ _ hm
  -- the loader and the header
  have LA := loadedA_mkProg cfg.mach items routine hitems
  have L := LA.loaded
  obtain ⟨hdr, F, h, st0', k0, st2, hcs, hlabs, hidx, hFc, HF, E, hk0, hpc, R, HR⟩ :=
    K.init_sim3 MO hargs hrout L
  -- Theorem A at the entry
  obtain ⟨a, hlab, RX, hn1⟩ := init_relX hooks p 0 ops nargs c' hcompM hnodupD d0 hmem
    (fun b hb => (hentry b hb).1) args hlen (K.withinCapacity_of_le hc0)
  have T : Pos.StateTyped p ⟨d0.ctx, args.map .int, d0.body⟩ :=
    ⟨htp d0 hmem, Pos.ints_typed d0.ctx args hlen hentry⟩
  -- the definitions
  have DX : K.XDefsAt routine hooks p := K.xdefsAt_of_compile hcompX hcs hnd
  obtain ⟨i, kx, kx', ditems, hi, hget, hdrun, hdat⟩ := DX d0 hmem
  -- the entry label is the first item of the body
  have hi0 : i = hdr.length := by
    unfold compileX86 at hcompX
    cases hx : (compile x86Backend hooks p).run 0 with
    | error e => rw [hx] at hcompX; cases hcompX
    | ok r =>
      obtain ⟨⟨body', nargs'⟩, c''⟩ := r
      rw [hx] at hcompX
      simp only [Except.ok.injEq, Prod.mk.injEq] at hcompX
      obtain ⟨rfl, rfl⟩ := hcompX
      unfold compile compileR at hx
      cases hdefs : p.defs with
      | nil => rw [hdefs] at hd; simp at hd
      | cons d ds =>
        rw [hdefs] at hd hx
        simp only [List.head?_cons, Option.some.injEq] at hd
        subst hd
        simp only [run_bind_ok, run_pure_ok, translateR] at hx
        obtain ⟨blocks, c1, ⟨is, c2, h1, rest, c3, h2, rfl, rfl⟩, e, rfl⟩ := hx
        injection e with e1 e2
        have hb : body' = Code.LAB (d.name.print ++ "_") :: (is ++ assemble x86Backend rest (ds.map (·.name))) := by
          rw [← e1]; rfl
        have hget' : routine[hdr.length]? = some (Code.LAB (d.name.print ++ "_")) := by
          rw [hcs, hb]; simp
        have := labIdx_of_nodup hnd hget'
        rw [hi] at this
        exact Option.some.inj this
  subst hi0
  have hsplit : routine = hdr ++ Code.LAB (d0.name.print ++ "_") :: routine.drop (hdr.length + 1) := by
    have hlt : hdr.length < routine.length := by
      rcases Nat.lt_or_ge hdr.length routine.length with h | h
      · exact h
      · rw [List.getElem?_eq_none h] at hget; cases hget
    have h1 : routine.drop hdr.length = routine[hdr.length] :: routine.drop (hdr.length + 1) :=
      List.drop_eq_getElem_cons hlt
    have h2 : routine[hdr.length] = Code.LAB (d0.name.print ++ "_") := by
      rw [List.getElem?_eq_getElem hlt] at hget; exact Option.some.inj hget
    have h3 : routine.take hdr.length = hdr := by
      rw [hcs]; simp [List.append_assoc]
    conv => lhs; rw [← List.take_append_drop hdr.length routine, h1, h2, h3]
  obtain ⟨k3, hk3⟩ := step_fall cfg L hsplit (s := st2) hpc
    (show execCode cfg.mach (mkProg cfg.mach items).labelAddr (Code.LAB (d0.name.print ++ "_")) _ = .ok (_, .next)
      from rfl)
  have hbytes' : 128 ≤ F.c.heapBytes := by rw [hFc]; omega
  have X3i : K.X3 F d0.ctx (initConfig a args)
      (Scc.Heap.init F.c.heapBase (F.c.heapBase + F.c.heapBytes)) id (fun _ _ => 0) (setPS st2 (hdr.length + 1) k3) :=
    K.X3R.setPS (K.x3_init R HR (fun b hb => (hentry b hb).1) hc0 (by rw [hFc]; exact hb0) hbytes' id (fun _ _ => 0)) _ _
  have R3 : K.Rel3 F routine (Program.ofOps ops) hooks p ⟨d0.ctx, args.map .int, d0.body⟩ (initConfig a args)
      (Scc.Heap.init F.c.heapBase (F.c.heapBase + F.c.heapBytes)) (setPS st2 (hdr.length + 1) k3) :=
    ⟨d0.ctx, id, fun _ _ => 0, rfl, RX, X3i, fun i h1 h2 w hw => by
      simp only [List.getElem_map]
      exact .int _ _ _ _, kx, kx', ditems, hdrun, hdat⟩
  have hclean : "cleanup" ∉ labs (hdr ++ body) := by
    rw [hcs, labs_append] at hnd
    have := (List.nodup_append.1 hnd).2.2
    intro hm
    exact this _ hm _ (by simp [labs, codeLabelDef, cleanup]) rfl
  have hlabI : (mkProg cfg.mach items).labelIdx["asm_main"]? = some 6 := by rw [L.labels]; exact hidx
  refine ⟨F, hdr ++ body, st0', h, k0 + 1, _, a, hFc, HF, by rw [hFc]; exact LA, hcs, hclean, E,
    K.xdefsAt_of_compile hcompX hcs hnd, hlabI, ?_, R3, hn1, T, hargs⟩
  exact stepN_trans cfg _ hk0 ((stepN_one cfg _ _).trans hk3)

/-! ## composition -/

/-- a machine state at a STATEMENT BOUNDARY of the run of the routine (any program): the state `X0` related by
the closure-aware three-way relation `K.Rel3` (for the frame of the run) to a state of the positional machine,
or that state moved forward over labels and comments (`Tol`: the machine after the `jmp reg` of an `invoke`) -/
def BoundaryOf (p : AxCut.Prog) (hooks : Bool) (routine : List Code) (ops : List MockOp) (cfg : MonCfg)
    (st : Pos.State) (X : State) : Prop :=
  ∃ (F : Frame) (cfgA : Config) (hs : HState) (X0 : State), F.c = cfg.mach ∧ Tol routine X0 X ∧
    K.Rel3 F routine (Program.ofOps ops) hooks p st cfgA hs X0

/-- THE HEAP INVARIANT AT EVERY STATEMENT BOUNDARY, all programs -/
theorem heapInvAt_of_boundary {p : AxCut.Prog} {hooks : Bool} {routine : List Code} {ops : List MockOp}
    {cfg : MonCfg} (hk : cfg.consts = consts) {st : Pos.State} {X : State}
    (B : BoundaryOf p hooks routine ops cfg st X) :
    HeapInvAt cfg X (ctxKinds st.ctx) (cfg.mach.heapBase + cfg.mach.heapBytes) := by
  obtain ⟨F, cfgA, hs, X0, hFc, T, Γ', ι, κ, hkeys, RX, X3h, _⟩ := B
  have := (heapInvAt_of_x3 (m := cfg) hFc.symm hk RX X3h).1
  rw [ctxKinds_keys hkeys, hFc] at this
  exact heapInvAt_tol T this

/-- the whole run from the machine's initial state: the machine passes through a boundary state for EVERY
state of the terminating run of the positional machine, in order -/
theorem programs_chain (p : AxCut.Prog) (args : List Word) (hooks : Bool) (body routine : List Code)
    (nargs : Nat) (d0 : Def) (ops : List MockOp) (c' : Nat)
    (hsafe : LabelSafe p = true) (htp : LinTypedProg p) (hprog : K.ProgOK p)
    (hcompM : (compile mockSym hooks p).run 0 = .ok ((ops, nargs), c')) (hfit : CodeFits ops)
    (hcompX : compileX86 p hooks 0 = .ok (body, nargs)) (hrout : intoRoutine body nargs = .ok routine)
    (hnd : (labs routine).Nodup)
    (hd : p.defs.head? = some d0) (hentry : ∀ b ∈ d0.ctx, b.chi = .ext ∧ b.ty = .i64)
    (hcap : ∀ st, Reachable p ⟨d0.ctx, args.map .int, d0.body⟩ st → 2 * st.ctx.length ≤ 266)
    (fuel : Nat) (out : List (Bool × Word)) (v : Word) (hfuel : fuel + 1 < 2 ^ 64)
    (hrun : Pos.run p args fuel = ⟨out, .done v⟩)
    (cfg : MonCfg) (MO : MachOK cfg.mach)
    (hb8 : cfg.mach.heapBase % 8 = 0) (hb0 : 0 < cfg.mach.heapBase)
    (hbytes : 128 + 64 * 134 * fuel ≤ cfg.mach.heapBytes)
    (items : List (Code × Nat)) (hitems : (items.map (·.1)).map stripC = routine.map stripC)
    (hfitX : addrAt cfg.mach.codeBase routine routine.length < 2 ^ 64) :
    (mkProg cfg.mach items).labelIdx["asm_main"]? = some 6 ∧
    ∃ n0 X0, stepN cfg (mkProg cfg.mach items) n0 (initState cfg.mach args 6) = .inl X0 ∧
      BChain cfg (mkProg cfg.mach items) (BoundaryOf p hooks routine ops cfg)
        (statesOf p fuel ⟨d0.ctx, args.map .int, d0.body⟩) X0 ∧
      stopsWithin p fuel ⟨d0.ctx, args.map .int, d0.body⟩ = true := by
  have hmem : d0 ∈ p.defs := by
    cases hdefs : p.defs with
    | nil => rw [hdefs] at hd; simp at hd
    | cons d ds => rw [hdefs] at hd; simp at hd; subst hd; simp
  have hlen : d0.ctx.length = args.length ∧
      Pos.runState p fuel ⟨d0.ctx, args.map .int, d0.body⟩ [] = ⟨out, .done v⟩ := by
    unfold Pos.run at hrun
    cases hdefs : p.defs with
    | nil => rw [hdefs] at hd; simp at hd
    | cons d ds =>
      rw [hdefs] at hd hrun
      simp only [List.head?_cons, Option.some.injEq] at hd
      subst hd
      simp only at hrun
      by_cases hl : d.ctx.length ≠ args.length
      · simp [hl] at hrun
      · simp only [hl, if_false] at hrun
        exact ⟨by omega, hrun⟩
  obtain ⟨hlen, hrun'⟩ := hlen
  have hc0 := hcap _ Reachable.refl
  simp only at hc0
  obtain ⟨F, pre, st0, h, n0, X0, a, En⟩ := entry_setup p args hooks body routine nargs d0 ops c' hsafe htp
    hcompM hcompX hrout hnd hd hentry hlen hc0 cfg MO hb0 (by omega) items hitems
  have hFc := En.fc
  have hch := run3_chain En.frame (by rw [hFc]; exact hb8) hFc.symm En.loaded hnd (by rw [hFc]; exact hfitX)
    En.split En.clean En.entry hooks p 0 ops nargs c' hcompM hsafe htp hfit En.defs hprog fuel _ []
    (initConfig a args) _ X0 X0 out v En.typed hcap (Tol.refl _ _) En.rel (hprog.2 d0 hmem) rfl
    (by rw [En.next1]; omega)
    (K.room_init (by rw [hFc]; exact hb0) (by rw [hFc]; omega) (by rw [hFc]; omega)) hrun'
  refine ⟨En.main, n0, X0, En.steps, ?_, stopsWithin_of_done p fuel _ _ _ _ hrun'⟩
  exact BChain.mono (fun st X ⟨X1, cfgA, hs, T, R⟩ => ⟨F, cfgA, hs, X1, hFc, T, R⟩) hch

end Scc.X86.ConcK
