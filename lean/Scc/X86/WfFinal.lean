/-
  Scc.X86.WfFinal — C14 for x86-64, the x86-64 instances of the generic label theorems of
  Scc/Backend/ProofsRefs.lean, and the resulting facts about the ROUTINE:

  * `refOps_x86`     which labels the codes returned by every method of `x86Backend` refer to (memory methods:
                     only the local labels `lab<n>` they define themselves) — `RefOps`;
  * `pieceOps_x86`   every method returns codes that are not `extern` / `global` / `imul [mem], reg`, whose
                     `call`s go to the two runtime symbols, and in which `jmp near` only occurs directly after a
                     label or another `jmp near` (`TCq`); `mul` under the hypothesis that the target variable
                     differs from the sources (`Scc.X86.Total.x86_vt_inj`);
  * `wfSpec_routine` `Wf.WfSpec routine` for the routine of every `LabelSafe`, linearly typed program in range.
  One walk through memory.rs (`MW`: shape of every item + closedness of the references), in the style of
  Scc/X86/LoaderX86Names.lean.
  Proof file.
-/
import Scc.Backend.ProofsRefs
import Scc.X86.WfItems
import Scc.X86.RefSideLabels
import Scc.X86.Total

set_option linter.unusedVariables false
set_option linter.unusedSimpArgs false

namespace Scc.X86.Wf

open Scc.AxCut Scc.Backend Scc.X86 Scc.X86.Ref
open Scc.Backend.Refs

/-! ## the label view and the shape predicates -/

/-- the label an item refers to that must be DEFINED in the text (`call` and `global` aside) -/
def iref : Code → Option String
  | .CALL _ | .GLOBAL _ => none
  | c => codeLabelRef c

def V : View Code := ⟨codeLabelDef, iref⟩

theorem V_labs (l : List Code) : V.labs l = labs l := rfl

/-- (Props/C14X86.lean `C14_program_operands`, restated here to avoid the import) -/
theorem C14_program_operands_aux {p : AxCut.Prog} {hooks : Bool} {c0 : Nat} {body routine : List Code}
    {nargs : Nat} (hp : ProgInRange p) (h : compileX86 p hooks c0 = .ok (body, nargs))
    (hr : intoRoutine body nargs = .ok routine) :
    ∀ code ∈ routine, codeOperandError code = none ∨ ∃ b i r, code = .IMULMR b i r := by
  intro code hc
  by_cases hm : ∃ b i r, code = .IMULMR b i r
  · exact Or.inr hm
  · exact Or.inl (operandOK_of_codeRangeOK (routine_rangesOK hp h hr code hc)
      (fun b i r e => hm ⟨b, i, r, e⟩))

/-- lax shape: no `extern`, no `global`, `call` only of the runtime symbols -/
def shB' : Code → Bool
  | .EXTERN _ | .GLOBAL _ => false
  | .CALL f => externals.contains f
  | _ => true

/-- shape: moreover no `imul [mem], reg` -/
def shB : Code → Bool
  | .IMULMR _ _ _ => false
  | c => shB' c

/-- not a `jmp near` -/
def njB : Code → Bool
  | .JMPLN _ => false
  | _ => true

/-- plain items: shape, no label defined, no label referenced -/
def plB (c : Code) : Bool := shB c && (codeLabelDef c).isNone && (iref c).isNone
def plB' (c : Code) : Bool := shB' c && (codeLabelDef c).isNone && (iref c).isNone

abbrev PL (l : List Code) : Prop := l.all plB = true
abbrev PL' (l : List Code) : Prop := l.all plB' = true

theorem pl_append {a b : List Code} : PL (a ++ b) ↔ PL a ∧ PL b := by simp [PL, List.all_append]
theorem pl_cons {c : Code} {l : List Code} : PL (c :: l) ↔ plB c = true ∧ PL l := by simp [PL, List.all_cons]
theorem pl_nil : PL [] := rfl
theorem pl'_append {a b : List Code} : PL' (a ++ b) ↔ PL' a ∧ PL' b := by simp [PL', List.all_append]

theorem plB'_of_plB {c : Code} (h : plB c = true) : plB' c = true := by
  cases c <;> first | exact h | cases h

theorem PL.lax {l : List Code} (h : PL l) : PL' l := by
  simp only [PL, PL', List.all_eq_true] at h ⊢
  exact fun c hc => plB'_of_plB (h c hc)

theorem PL'.noRefs {l : List Code} (h : PL' l) : NoRefs V l := by
  apply noRefs_of_forall
  intro c hc
  simp only [PL', List.all_eq_true] at h
  have := h c hc
  simp only [plB', Bool.and_eq_true, Option.isNone_iff_eq_none] at this
  exact this.2

theorem PL.noRefs {l : List Code} (h : PL l) : NoRefs V l := h.lax.noRefs

theorem PL'.nl {l : List Code} (h : PL' l) : NL l := by
  intro c hc
  simp only [PL', List.all_eq_true] at h
  have := h c hc
  simp only [plB', Bool.and_eq_true, Option.isNone_iff_eq_none] at this
  exact this.1.2

/-! ## code.rs -/

theorem pl_moveFromRegister (t : Temporary) (r : Reg) : PL (moveFromRegister t r) := by
  unfold moveFromRegister; split <;> rfl
theorem pl_moveToRegister (r : Reg) (t : Temporary) : PL (moveToRegister r t) := by
  unfold moveToRegister; split <;> rfl
theorem pl_addToRegister (r : Reg) (t : Temporary) : PL (addToRegister r t) := by
  unfold addToRegister; split <;> rfl
theorem pl_addToSpill (p : Nat) (t : Temporary) : PL (addToSpill p t) := by
  unfold addToSpill; split <;> rfl
theorem pl_mulToRegister (r : Reg) (t : Temporary) : PL (mulToRegister r t) := by
  unfold mulToRegister; split <;> rfl
theorem pl'_mulToSpill (p : Nat) (t : Temporary) : PL' (mulToSpill p t) := by
  unfold mulToSpill; split <;> rfl
theorem pl_subToRegister (r : Reg) (t : Temporary) : PL (subToRegister r t) := by
  unfold subToRegister; split <;> rfl
theorem pl_subToSpill (p : Nat) (t : Temporary) : PL (subToSpill p t) := by
  unfold subToSpill; split <;> rfl

theorem pl_opCommutative {f : Reg → Temporary → List Code} {g : Nat → Temporary → List Code}
    (hf : ∀ r t, PL (f r t)) (hg : ∀ p t, PL (g p t)) (t s1 s2 : Temporary) :
    PL (opCommutative f g t s1 s2) := by
  unfold opCommutative
  split
  · split
    · exact hf _ _
    · split
      · exact hf _ _
      · exact pl_append.2 ⟨pl_moveToRegister _ _, hf _ _⟩
  · split
    · exact hg _ _
    · split
      · exact hg _ _
      · exact pl_append.2 ⟨pl_append.2 ⟨pl_moveToRegister _ _, hf _ _⟩, rfl⟩

theorem pl'_opCommutative {f : Reg → Temporary → List Code} {g : Nat → Temporary → List Code}
    (hf : ∀ r t, PL' (f r t)) (hg : ∀ p t, PL' (g p t)) (t s1 s2 : Temporary) :
    PL' (opCommutative f g t s1 s2) := by
  unfold opCommutative
  split
  · split
    · exact hf _ _
    · split
      · exact hf _ _
      · exact pl'_append.2 ⟨(pl_moveToRegister _ _).lax, hf _ _⟩
  · split
    · exact hg _ _
    · split
      · exact hg _ _
      · exact pl'_append.2 ⟨pl'_append.2 ⟨(pl_moveToRegister _ _).lax, hf _ _⟩, rfl⟩

/-- the target differs from the sources: `op_to_spill` is not used -/
theorem pl_opCommutative_fresh {f : Reg → Temporary → List Code} {g : Nat → Temporary → List Code}
    (hf : ∀ r t, PL (f r t)) {t s1 s2 : Temporary} (h1 : t ≠ s1) (h2 : t ≠ s2) :
    PL (opCommutative f g t s1 s2) := by
  unfold opCommutative
  split
  · rw [if_neg h1, if_neg h2]
    exact pl_append.2 ⟨pl_moveToRegister _ _, hf _ _⟩
  · rw [if_neg h1, if_neg h2]
    exact pl_append.2 ⟨pl_append.2 ⟨pl_moveToRegister _ _, hf _ _⟩, rfl⟩

theorem pl_sub (t s1 s2 : Temporary) : PL (sub t s1 s2) := by
  unfold sub
  split
  · split
    · exact pl_subToRegister _ _
    · split
      · exact pl_append.2 ⟨pl_append.2 ⟨pl_moveToRegister _ _, pl_subToRegister _ _⟩, rfl⟩
      · exact pl_append.2 ⟨pl_moveToRegister _ _, pl_subToRegister _ _⟩
  · split
    · exact pl_subToSpill _ _
    · exact pl_append.2 ⟨pl_append.2 ⟨pl_moveToRegister _ _, pl_subToRegister _ _⟩, rfl⟩

theorem pl_divBy (d : Temporary) : PL (divBy d) := by
  unfold divBy
  split
  · split <;> rfl
  · rfl

theorem pl_compare (a b : Temporary) : PL (compare a b) := by
  unfold compare; split <;> rfl

theorem pl_compareImmediate (t : Temporary) (i : Int) : PL (compareImmediate t i) := by
  unfold compareImmediate; split <;> rfl

theorem pl_div (t s1 s2 : Temporary) : PL (div t s1 s2) := by
  unfold div
  simp only [pl_append]
  exact ⟨⟨⟨⟨⟨⟨⟨rfl, pl_moveFromRegister _ _⟩, pl_moveToRegister _ _⟩, pl_divBy _⟩, rfl⟩,
    pl_moveToRegister _ _⟩, pl_moveFromRegister _ _⟩, rfl⟩

theorem pl_rem (t s1 s2 : Temporary) : PL (rem t s1 s2) := by
  unfold rem
  simp only [pl_append]
  exact ⟨⟨⟨⟨⟨⟨rfl, pl_moveFromRegister _ _⟩, pl_moveToRegister _ _⟩, pl_divBy _⟩,
    pl_moveToRegister _ _⟩, pl_moveFromRegister _ _⟩, rfl⟩

theorem pl'_binop (o : BinOp) (t s1 s2 : Temporary) : PL' (binop o t s1 s2) := by
  cases o
  · exact (pl_div t s1 s2).lax
  · exact pl'_opCommutative (fun r t => (pl_mulToRegister r t).lax) pl'_mulToSpill t s1 s2
  · exact (pl_rem t s1 s2).lax
  · exact (pl_opCommutative pl_addToRegister pl_addToSpill t s1 s2).lax
  · exact (pl_sub t s1 s2).lax

theorem pl_binop_fresh (o : BinOp) {t s1 s2 : Temporary} (h1 : t ≠ s1) (h2 : t ≠ s2) : PL (binop o t s1 s2) := by
  cases o
  · exact pl_div t s1 s2
  · exact pl_opCommutative_fresh pl_mulToRegister h1 h2
  · exact pl_rem t s1 s2
  · exact pl_opCommutative pl_addToRegister pl_addToSpill t s1 s2
  · exact pl_sub t s1 s2

theorem pl_binop_sum (t s1 s2 : Temporary) : PL (binop .sum t s1 s2) :=
  pl_opCommutative pl_addToRegister pl_addToSpill t s1 s2

theorem pl_mov (t s : Temporary) : PL (mov t s) := by
  unfold mov
  split
  · exact pl_moveFromRegister _ _
  · split
    · exact pl_moveToRegister _ _
    · exact pl_append.2 ⟨pl_moveToRegister _ _, pl_moveFromRegister _ _⟩

theorem pl_jump (t : Temporary) : PL (jump t) := by
  unfold jump; split <;> rfl

theorem pl_loadImmediate (t : Temporary) (i : Int) : PL (loadImmediate t i) := by
  unfold loadImmediate
  split
  · rfl
  · split <;> rfl

theorem pl_addAndJump (t : Temporary) (i : Int) : PL (addAndJump t i) := by
  unfold addAndJump; split <;> rfl

theorem pl_storeTemporary (t : Temporary) (sp : Bool) : PL (storeTemporary t sp) := by
  unfold storeTemporary
  split
  · split <;> rfl
  · cases sp <;> rfl

theorem pl_restoreTemporary (t : Temporary) (sp : Bool) : PL (restoreTemporary t sp) := by
  unfold restoreTemporary
  split
  · split <;> rfl
  · cases sp <;> rfl

theorem pl_map_of {α : Type} (f : α → Code) (h : ∀ a, plB (f a) = true) (l : List α) : PL (l.map f) := by
  simp only [PL, List.all_map, List.all_eq_true, Function.comp]
  exact fun a _ => h a

theorem pl_saveCallerSaveRegisters (first : Nat) (L : List Nat) : PL (saveCallerSaveRegisters first L) := by
  unfold saveCallerSaveRegisters
  simp only [pl_append]
  refine ⟨⟨pl_map_of _ (fun _ => rfl) _, pl_map_of _ (fun _ => rfl) _⟩, ?_⟩
  split <;> rfl

theorem pl_restoreCallerSaveRegisters (first : Nat) (L : List Nat) :
    PL (restoreCallerSaveRegisters first L) := by
  unfold restoreCallerSaveRegisters
  simp only [pl_append]
  refine ⟨⟨pl_map_of _ (fun _ => rfl) _, ?_⟩, pl_map_of _ (fun _ => rfl) _⟩
  split <;> rfl

theorem pl_printI64 (nl : Bool) (t : Temporary) (ctx : Ctx) : PL (printI64 nl t ctx) := by
  unfold printI64
  simp only [pl_append]
  refine ⟨⟨⟨⟨⟨⟨?_, by decide⟩, pl_saveCallerSaveRegisters _ _⟩, by decide⟩, ?_⟩, ?_⟩,
    pl_restoreCallerSaveRegisters _ _⟩
  · split
    · exact pl_append.2 ⟨by decide, pl_moveToRegister _ _⟩
    · rfl
  · split <;> rfl
  · cases nl <;> decide

/-! ## references of the label-taking methods -/

theorem iref_condJump (s : IfSort) (l : String) : iref (condJump s l) = some l := by cases s <;> rfl

theorem refsTo_of_pl_single {a : List Code} {c : Code} {l : String} (ha : PL a) (hc : iref c = some l) :
    RefsTo V l (a ++ [c]) := by
  intro r hr
  rw [Refs.refs_append, ha.noRefs, List.nil_append] at hr
  simp only [View.refs, V, List.filterMap_cons, hc, List.filterMap_nil, List.mem_singleton] at hr
  exact hr

theorem refsTo_jumpLabelIf (s : IfSort) (a b : Temporary) (l : String) : RefsTo V l (jumpLabelIf s a b l) :=
  refsTo_of_pl_single (pl_compare a b) (iref_condJump s l)

theorem refsTo_jumpLabelIfZero (s : IfSort) (a : Temporary) (l : String) :
    RefsTo V l (jumpLabelIfZero s a l) :=
  refsTo_of_pl_single (pl_compareImmediate a 0) (iref_condJump s l)

theorem refsTo_loadLabel (t : Temporary) (l : String) : RefsTo V l (loadLabel t l) := by
  unfold loadLabel
  intro r hr
  split at hr <;> simpa [View.refs, V, iref, codeLabelRef] using hr

/-! ## jump tables: `jmp near` only after a label or another `jmp near` -/

/-- the list passes `tableOK` from both states -/
def TCq (l : List Code) : Prop := ∀ b, tableOK l b = true

theorem tableOK_append : ∀ (a c : List Code) (b0 : Bool), tableOK a b0 = true → TCq c → tableOK (a ++ c) b0 = true
  | [], c, b0, _, hc => hc b0
  | x :: rest, c, b0, ha, hc => by
    cases x <;> simp only [List.cons_append, tableOK] at ha ⊢ <;>
      first
        | exact tableOK_append rest c _ ha hc
        | (split at ha
           · rw [if_pos (by assumption)]; exact tableOK_append rest c _ ha hc
           · cases ha)

theorem TCq.append {a c : List Code} (ha : TCq a) (hc : TCq c) : TCq (a ++ c) :=
  fun b => tableOK_append a c b (ha b) hc

theorem TCq.nil : TCq [] := fun _ => rfl

theorem tcq_of_nj : ∀ {l : List Code}, l.all njB = true → TCq l
  | [], _ => TCq.nil
  | x :: rest, h => by
    simp only [List.all_cons, Bool.and_eq_true] at h
    intro b
    cases x <;> simp only [tableOK] <;> first | exact tcq_of_nj h.2 _ | (cases h.1)

theorem tableOK_jmplns : ∀ (ls : List String) (rest : List Code), TCq rest →
    tableOK (ls.map Code.JMPLN ++ rest) true = true
  | [], rest, h => h true
  | l :: ls, rest, h => by
    simp only [List.map_cons, List.cons_append, tableOK, if_true]
    exact tableOK_jmplns ls rest h

theorem tcq_table (l : String) (cs : Clauses) (base : String) :
    TCq (x86Backend.label l :: codeTable x86Backend cs base) := by
  obtain ⟨ls, e⟩ := codeTable_jmplns cs base
  intro b
  rw [e]
  show tableOK (ls.map Code.JMPLN) true = true
  have := tableOK_jmplns ls [] TCq.nil
  rwa [List.append_nil] at this

/-! ## memory.rs: shape and closedness -/

def sjB (c : Code) : Bool := shB c && njB c

/-- every item has the shape `sjB` and every referenced label is defined in the list -/
def MW (l : List Code) : Prop := l.all sjB = true ∧ Closed V l

theorem sjB_of_plB {c : Code} (h : plB c = true) : sjB c = true := by
  cases c <;> first | rfl | cases h | (simpa [plB, sjB, shB, shB', njB, iref, codeLabelDef] using h)

theorem PL.mw {l : List Code} (h : PL l) : MW l := by
  refine ⟨?_, h.noRefs.closed⟩
  simp only [PL, List.all_eq_true] at h ⊢
  exact fun c hc => sjB_of_plB (h c hc)

theorem MW.nil : MW [] := pl_nil.mw

theorem MW.append {a b : List Code} (ha : MW a) (hb : MW b) : MW (a ++ b) :=
  ⟨by rw [List.all_append, ha.1, hb.1]; rfl, ha.2.append hb.2⟩

abbrev PostMW (m : GenM (List Code)) : Prop := Post m MW

theorem labs_single_lab (l : String) : V.labs [Code.LAB l] = [l] := rfl

theorem postMW_skipIfZero (cond : Temporary) {body : List Code} (hb : MW body) :
    PostMW (skipIfZero cond body) := by
  unfold skipIfZero
  refine Post.bind (Post.true _) fun l _ => Post.pure ?_
  refine ⟨?_, ?_⟩
  · simp only [List.all_append, Bool.and_eq_true]
    exact ⟨⟨⟨(pl_compareImmediate _ _).mw.1, rfl⟩, hb.1⟩, rfl⟩
  · intro r hr
    have hn : V.refs (compareImmediate cond 0) = [] := (pl_compareImmediate cond 0).noRefs
    have e1 : V.refs [Code.JEL (labName l)] = [labName l] := rfl
    have e2 : V.refs [Code.LAB (labName l)] = [] := rfl
    have e3 : V.labs [Code.LAB (labName l)] = [labName l] := rfl
    rw [Refs.refs_append, Refs.refs_append, Refs.refs_append, hn, e1, e2] at hr
    rw [Refs.labs_append, Refs.labs_append, Refs.labs_append, e3]
    simp only [List.nil_append, List.append_nil, List.singleton_append, List.mem_cons] at hr
    simp only [List.mem_append, List.mem_singleton]
    rcases hr with rfl | hr
    · exact Or.inr rfl
    · exact Or.inl (Or.inr (hb.2 r hr))

theorem refs_pair_jel {c : Code} (h : iref c = none) (x : String) : V.refs [c, Code.JEL x] = [x] := by
  show List.filterMap iref [c, Code.JEL x] = [x]
  rw [List.filterMap_cons, h]; rfl

theorem postMW_ifZeroThenElse (cond : Nat) (offset : Option Int) {tb eb : List Code} (ht : MW tb)
    (he : MW eb) : PostMW (ifZeroThenElse cond offset tb eb) := by
  unfold ifZeroThenElse
  refine Post.bind (Post.true _) fun l1 _ => Post.bind (Post.true _) fun l2 _ => Post.pure ?_
  have hc : ∀ o : Option Int, plB (match o with
      | some off => Code.CMPIM cond off 0
      | none => Code.CMPI cond 0) = true ∧ iref (match o with
      | some off => Code.CMPIM cond off 0
      | none => Code.CMPI cond 0) = none := by
    intro o; cases o <;> exact ⟨rfl, rfl⟩
  have hcmp := (hc offset).1
  have hcr := (hc offset).2
  refine ⟨?_, ?_⟩
  · simp only [List.all_append, List.all_cons, List.all_nil, Bool.and_eq_true]
    exact ⟨⟨⟨⟨⟨sjB_of_plB hcmp, rfl, trivial⟩, he.1⟩, rfl, rfl, trivial⟩, ht.1⟩, rfl, trivial⟩
  · have key : ∀ (c0 : Code), iref c0 = none → Closed V ([c0, Code.JEL (labName l1)] ++ eb ++
        [Code.JMPL (labName l2), Code.LAB (labName l1)] ++ tb ++ [Code.LAB (labName l2)]) := by
      intro c0 h0 r hr
      have e1 := refs_pair_jel h0 (labName l1)
      have e2 : V.refs [Code.JMPL (labName l2), Code.LAB (labName l1)] = [labName l2] := rfl
      have e3 : V.refs [Code.LAB (labName l2)] = [] := rfl
      have e4 : V.labs [Code.JMPL (labName l2), Code.LAB (labName l1)] = [labName l1] := rfl
      have e5 : V.labs [Code.LAB (labName l2)] = [labName l2] := rfl
      rw [Refs.refs_append, Refs.refs_append, Refs.refs_append, Refs.refs_append, e1, e2, e3] at hr
      rw [Refs.labs_append, Refs.labs_append, Refs.labs_append, Refs.labs_append, e4, e5]
      simp only [List.append_nil, List.mem_append, List.mem_singleton] at hr ⊢
      rcases hr with ((rfl | hr) | rfl) | hr
      · exact Or.inl (Or.inl (Or.inr rfl))
      · exact Or.inl (Or.inl (Or.inl (Or.inr (he.2 r hr))))
      · exact Or.inr rfl
      · exact Or.inl (Or.inr (ht.2 r hr))
    exact key _ hcr

theorem postMW_eraseValidObject (r : Nat) : PostMW (eraseValidObject r) := by
  unfold eraseValidObject
  exact postMW_ifZeroThenElse _ _ (PL.mw (l := [_, _, _]) rfl) (PL.mw (l := [_, _]) rfl)

theorem postMW_eraseBlock (t : Temporary) : PostMW (eraseBlock t) := by
  unfold eraseBlock
  cases t with
  | reg r =>
    exact Post.bind (postMW_eraseValidObject _) fun c hc =>
      postMW_skipIfZero _ (MW.append (PL.mw (l := [_]) rfl) hc)
  | spill p =>
    exact Post.bind (postMW_eraseValidObject _) fun c hc =>
      Post.bind (postMW_skipIfZero _ (MW.append (PL.mw (l := [_]) rfl) hc)) fun r hr =>
        Post.pure (MW.append (PL.mw (l := [_]) rfl) hr)

theorem postMW_shareBlockN (t : Temporary) (n : Nat) : PostMW (shareBlockN t n) := by
  unfold shareBlockN
  cases t with
  | reg r => exact postMW_skipIfZero _ (MW.append (PL.mw (l := [_]) rfl) (PL.mw (l := [_]) rfl))
  | spill p => exact postMW_skipIfZero _ (MW.append (PL.mw (l := [_]) rfl) (PL.mw (l := [_, _]) rfl))

theorem postMW_shareBlock (t : Temporary) : PostMW (shareBlock t) := postMW_shareBlockN t 1

theorem postMW_eraseFields (r : Nat) : ∀ (n offset : Nat), PostMW (eraseFields r n offset)
  | 0, _ => by unfold eraseFields; exact Post.pure MW.nil
  | n + 1, offset => by
    unfold eraseFields
    exact Post.bind (postMW_eraseBlock _) fun c hc =>
      Post.bind (postMW_eraseFields r n (offset + 1)) fun rest hrest =>
        Post.pure (MW.append (MW.append (PL.mw (l := [_, _]) rfl) hc) hrest)

theorem postMW_acquireBlock (t : Temporary) : PostMW (acquireBlock t) := by
  unfold acquireBlock
  dsimp only
  have hhead : ∀ (u : Temporary), PL (match u with
      | .reg newBlockRegister => [Code.MOV newBlockRegister HEAP]
      | .spill newBlockPosition => [Code.MOV TEMP HEAP, Code.MOVS HEAP STACK (stackOffset newBlockPosition)]) := by
    intro u; cases u <;> rfl
  have hinit : ∀ (u : Temporary), plB (match u with
      | .reg newBlockRegister => Code.MOVIM newBlockRegister REFERENCE_COUNT_OFFSET 0
      | .spill _ => Code.MOVIM TEMP REFERENCE_COUNT_OFFSET 0) = true := by
    intro u; cases u <;> rfl
  refine Post.bind (postMW_eraseFields _ _ _) fun erased he => ?_
  refine Post.bind (postMW_ifZeroThenElse _ _ (PL.mw (l := [_, _, _]) rfl)
    (MW.append (PL.mw (l := [_, _, _]) rfl) he)) fun inner hi => ?_
  refine Post.bind (postMW_ifZeroThenElse _ _ (MW.append (PL.mw (l := [_, _, _]) rfl) hi)
    (PL.mw (pl_cons.2 ⟨rfl, pl_cons.2 ⟨hinit t, pl_nil⟩⟩))) fun outer ho => ?_
  exact Post.pure (MW.append (PL.mw (pl_append.2 ⟨hhead t, rfl⟩)) ho)

theorem pl_releaseBlock (r : Nat) : PL (releaseBlock r) := rfl

theorem pl_storeZero (r off : Nat) : PL (storeZero r off) := rfl

theorem pl_storeZeros (k r : Nat) : PL (storeZeros k r) := by
  unfold storeZeros
  simp only [PL, List.all_eq_true]
  intro c hc
  obtain ⟨l, hl, hcl⟩ := List.mem_flatten.1 hc
  obtain ⟨o, _, rfl⟩ := List.mem_map.1 hl
  simp only [storeZero, List.mem_singleton] at hcl
  subst hcl; rfl

theorem postPL_storeField (n : TempNum) (ctx : Ctx) (r off : Nat) : Post (storeField n ctx r off) PL := by
  unfold storeField
  refine Post.bind (Post.true _) fun t _ => ?_
  cases t <;> exact Post.pure rfl

theorem postPL_loadField (n : TempNum) (ctx : Ctx) (r off : Nat) : Post (loadField n ctx r off) PL := by
  unfold loadField
  refine Post.bind (Post.true _) fun t _ => ?_
  cases t <;> exact Post.pure rfl

theorem postPL_storeValue (b : Binding) (ctx : Ctx) (r off : Nat) : Post (storeValue b ctx r off) PL := by
  unfold storeValue
  refine Post.bind (postPL_storeField _ _ _ _) fun c1 h1 => ?_
  split
  · exact Post.pure (pl_append.2 ⟨h1, pl_storeZero _ _⟩)
  · exact Post.bind (postPL_storeField _ _ _ _) fun c2 h2 => Post.pure (pl_append.2 ⟨h1, h2⟩)

theorem postMW_loadValue (b : Binding) (ctx : Ctx) (r off : Nat) (mode : LoadMode) :
    PostMW (loadValue b ctx r off mode) := by
  unfold loadValue
  refine Post.bind (postPL_loadField _ _ _ _) fun c1 h1 => ?_
  split
  · refine Post.bind (postPL_loadField _ _ _ _) fun c2 h2 => ?_
    refine Post.bind (Post.true _) fun t _ => ?_
    dsimp only
    by_cases hm : mode = LoadMode.share
    · rw [if_pos hm]
      exact Post.bind (postMW_shareBlock _) fun c3 h3 =>
        Post.pure (MW.append (MW.append h1.mw h2.mw) h3)
    · rw [if_neg hm]
      exact Post.pure (MW.append h1.mw h2.mw)
  · exact Post.pure h1.mw

theorem postPL_storeValuesLoop (ctx : Ctx) (r : Nat) : ∀ (l : List Binding) (ff : Nat),
    Post (storeValuesLoop ctx r l ff) (fun res => PL res.1)
  | [], ff => by unfold storeValuesLoop; exact Post.pure pl_nil
  | b :: rest, ff => by
    unfold storeValuesLoop
    refine Post.bind (Post.true _) fun off _ => ?_
    refine Post.bind (postPL_storeValue _ _ _ _) fun c hc => ?_
    refine Post.bind (postPL_storeValuesLoop ctx r rest off) fun res hres => ?_
    obtain ⟨cs, ff'⟩ := res
    exact Post.pure (pl_append.2 ⟨hc, hres⟩)

theorem postPL_storeValues (toStore ctx : Ctx) (r ff : Nat) : Post (storeValues toStore ctx r ff) PL := by
  unfold storeValues
  refine Post.bind (postPL_storeValuesLoop _ _ _ _) fun res hres => ?_
  obtain ⟨cs, ff'⟩ := res
  refine Post.pure ?_
  simp only [pl_append]
  refine ⟨⟨⟨by decide, hres⟩, ?_⟩, pl_storeZeros _ _⟩
  split
  · decide
  · rfl

theorem postMW_loadValuesLoop (ctx : Ctx) (r : Nat) (mode : LoadMode) : ∀ (l : List Binding) (ff : Nat),
    PostMW (loadValuesLoop ctx r mode l ff)
  | [], ff => by unfold loadValuesLoop; exact Post.pure MW.nil
  | b :: rest, ff => by
    unfold loadValuesLoop
    refine Post.bind (Post.true _) fun off _ => ?_
    refine Post.bind (postMW_loadValue _ _ _ _ _) fun c hc => ?_
    refine Post.bind (postMW_loadValuesLoop ctx r mode rest off) fun cs hcs => ?_
    exact Post.pure (MW.append hc hcs)

theorem postMW_loadValues (toLoad ctx : Ctx) (r ff : Nat) (mode : LoadMode) :
    PostMW (loadValues toLoad ctx r ff mode) := by
  unfold loadValues
  exact Post.bind (postMW_loadValuesLoop _ _ _ _ _) fun cs hcs =>
    Post.pure (MW.append (PL.mw (l := [_]) (by decide)) hcs)

theorem postMW_storeFields : ∀ (fuel : Nat) (toStore ctx : Ctx) (pos : BlockPosition),
    PostMW (storeFields fuel toStore ctx pos)
  | 0, _, _, _ => by unfold storeFields; exact Post.throw
  | fuel + 1, toStore, ctx, pos => by
    unfold storeFields
    split
    · split
      · exact Post.bind (Post.true _) fun t _ =>
          Post.pure (PL.mw (pl_append.2 ⟨by decide, pl_loadImmediate _ _⟩))
      · exact Post.pure MW.nil
    · have hrest : ∀ c1, PL c1 → PostMW (do
          let c3 ← storeValues (toStore.drop (restLength toStore.length pos))
            (ctx ++ toStore.take (restLength toStore.length pos)) HEAP (FIELDS_PER_BLOCK - pos.toNat)
          let t ← freshTemporary .fst (ctx ++ toStore.take (restLength toStore.length pos))
          let c4 ← acquireBlock t
          let c5 ← storeFields fuel (toStore.take (restLength toStore.length pos)) ctx .other
          pure (c1 ++ (if pos = .last then [Code.COMMENT "#allocate memory"] else []) ++ c3 ++
            [Code.COMMENT "##acquire free block from heap register"] ++ c4 ++ c5)) := by
        intro c1 h1
        refine Post.bind (postPL_storeValues _ _ _ _) fun c3 h3 => ?_
        refine Post.bind (Post.true _) fun t _ => ?_
        refine Post.bind (postMW_acquireBlock _) fun c4 h4 => ?_
        refine Post.bind (postMW_storeFields fuel _ _ _) fun c5 h5 => ?_
        refine Post.pure ?_
        have hpl : PL (c1 ++ (if pos = .last then [Code.COMMENT "#allocate memory"] else []) ++ c3 ++
            [Code.COMMENT "##acquire free block from heap register"]) := by
          simp only [pl_append]
          refine ⟨⟨⟨h1, ?_⟩, h3⟩, by decide⟩
          split
          · decide
          · rfl
        exact MW.append (MW.append hpl.mw h4) h5
      dsimp only
      split
      · exact Post.bind (postPL_storeField _ _ _ _) fun c hc =>
          Post.bind (Post.pure (pl_append.2 ⟨by decide, hc⟩)) fun c1 h1 => hrest c1 h1
      · exact Post.bind (Post.pure pl_nil) fun c1 h1 => hrest c1 h1

theorem postMW_store (toStore ctx : Ctx) : PostMW (store toStore ctx) := postMW_storeFields _ _ _ _

theorem postMW_loadFieldsBlock (r : Nat) (toLoadNext c1 c2 : Ctx) (pos : BlockPosition) (mode : LoadMode) :
    PostMW (loadFieldsBlock r toLoadNext c1 c2 pos mode) := by
  unfold loadFieldsBlock
  have h1 : PL (if mode = .release then
      [Code.COMMENT "###release block"] ++ releaseBlock r else []) := by
    split
    · exact pl_append.2 ⟨by decide, pl_releaseBlock _⟩
    · rfl
  dsimp only
  split
  · refine Post.bind (postPL_loadField _ _ _ _) fun c hc =>
      Post.bind (Post.pure (pl_append.2 ⟨by decide, hc⟩)) fun c2' h2 => ?_
    exact Post.bind (postMW_loadValues _ _ _ _ _) fun c3 h3 =>
      Post.pure (MW.append (PL.mw (pl_append.2 ⟨h1, h2⟩)) h3)
  · refine Post.bind (Post.pure pl_nil) fun c2' h2 => ?_
    exact Post.bind (postMW_loadValues _ _ _ _ _) fun c3 h3 =>
      Post.pure (MW.append (PL.mw (pl_append.2 ⟨h1, h2⟩)) h3)

theorem postMW_loadFields : ∀ (fuel : Nat) (toLoad ctx : Ctx) (pos : BlockPosition) (mode : LoadMode)
    (freed : Bool), Post (loadFields fuel toLoad ctx pos mode freed) (fun res => MW res.1)
  | 0, _, _, _, _, _ => by unfold loadFields; exact Post.throw
  | fuel + 1, toLoad, ctx, pos, mode, freed => by
    unfold loadFields
    split
    · exact Post.pure MW.nil
    · refine Post.bind (postMW_loadFields fuel _ _ _ _ _) fun res hres => ?_
      obtain ⟨c0, freed'⟩ := res
      dsimp only
      refine Post.bind (Post.true _) fun mb _ => ?_
      cases mb with
      | reg r =>
        dsimp only
        exact Post.bind (postMW_loadFieldsBlock _ _ _ _ _ _) fun c hc =>
          Post.pure (MW.append hres hc)
      | spill p =>
        dsimp only
        refine Post.bind (postMW_loadFieldsBlock _ _ _ _ _ _) fun c hc => Post.pure ?_
        have ha : PL (if (!freed') = true then
            [Code.COMMENT "###evacuate additional scratch register for memory block",
             Code.MOVS TEMPORARY_TEMP STACK (stackOffset SPILL_TEMP)] else []) := by
          split
          · decide
          · rfl
        have hb : PL (if pos = BlockPosition.last then
            [Code.COMMENT "###restore evacuated register",
             Code.MOVL TEMPORARY_TEMP STACK (stackOffset SPILL_TEMP)] else []) := by
          split
          · decide
          · rfl
        exact MW.append (MW.append (MW.append (MW.append hres ha.mw) (PL.mw (l := [_]) rfl)) hc) hb.mw

theorem postMW_loadRegister (r : Nat) (toLoad ctx : Ctx) : PostMW (loadRegister r toLoad ctx) := by
  unfold loadRegister
  refine Post.bind (postMW_loadFields _ _ _ _ _ _) fun res1 h1 => ?_
  obtain ⟨cThen, f1⟩ := res1
  dsimp only
  refine Post.bind (postMW_loadFields _ _ _ _ _ _) fun res2 h2 => ?_
  obtain ⟨cElse, f2⟩ := res2
  dsimp only
  refine Post.bind (postMW_ifZeroThenElse _ _ (MW.append (PL.mw (l := [_]) (by decide)) h1)
    (MW.append (PL.mw (l := [_, _]) rfl) h2)) fun c hc => ?_
  exact Post.pure (MW.append (PL.mw (l := [_]) (by decide)) hc)

theorem postMW_load (toLoad ctx : Ctx) : PostMW (load toLoad ctx) := by
  unfold load
  split
  · exact Post.pure MW.nil
  · refine Post.bind (Post.true _) fun mb _ => ?_
    cases mb with
    | reg r =>
      exact Post.bind (postMW_loadRegister _ _ _) fun c hc =>
        Post.pure (MW.append (PL.mw (l := [_]) (by decide)) hc)
    | spill p =>
      exact Post.bind (postMW_loadRegister _ _ _) fun c hc =>
        Post.pure (MW.append (PL.mw (l := [_, _]) rfl) hc)

/-! ## the instances -/

theorem refsTo_single {c : Code} {l : String} (h : iref c = some l) : RefsTo V l [c] := by
  intro r hr
  simpa [View.refs, V, h] using hr

theorem refOps_x86 : RefOps x86Backend V where
  comment := fun _ => ⟨rfl, rfl⟩
  label := fun _ => ⟨rfl, rfl⟩
  jump := fun t => (pl_jump t).noRefs
  jumpLabel := fun l => refsTo_single (c := .JMPL l) rfl
  jumpLabelFixed := fun l => refsTo_single (c := .JMPLN l) rfl
  jumpLabelIf := refsTo_jumpLabelIf
  jumpLabelIfZero := refsTo_jumpLabelIfZero
  loadImmediate := fun t n => (pl_loadImmediate t n).noRefs
  loadLabel := refsTo_loadLabel
  addAndJump := fun t n => (pl_addAndJump t n).noRefs
  binop := fun o t a b => (pl'_binop o t a b).noRefs
  mov := fun t s => (pl_mov t s).noRefs
  printI64 := fun nl t ctx => Post.pure (pl_printI64 nl t ctx).noRefs.closed
  eraseBlock := fun t => (postMW_eraseBlock t).mono fun _ h => h.2
  shareBlockN := fun t n => (postMW_shareBlockN t n).mono fun _ h => h.2
  store := fun a b => (postMW_store a b).mono fun _ h => h.2
  load := fun a b => (postMW_load a b).mono fun _ h => h.2
  storeTemporary := fun t sp => (pl_storeTemporary t sp).noRefs
  restoreTemporary := fun t sp => (pl_restoreTemporary t sp).noRefs

/-- shape of every item, and `jmp near` only in tables -/
def QX (l : List Code) : Prop := l.all shB = true ∧ TCq l

theorem shB_of_sjB {c : Code} (h : sjB c = true) : shB c = true := by
  simp only [sjB, Bool.and_eq_true] at h; exact h.1
theorem njB_of_sjB {c : Code} (h : sjB c = true) : njB c = true := by
  simp only [sjB, Bool.and_eq_true] at h; exact h.2

theorem MW.qx {l : List Code} (h : MW l) : QX l := by
  have h1 := h.1
  simp only [List.all_eq_true] at h1
  refine ⟨?_, tcq_of_nj ?_⟩
  · simp only [List.all_eq_true]; exact fun c hc => shB_of_sjB (h1 c hc)
  · simp only [List.all_eq_true]; exact fun c hc => njB_of_sjB (h1 c hc)

theorem PL.qx {l : List Code} (h : PL l) : QX l := h.mw.qx

theorem QX.append {a b : List Code} (ha : QX a) (hb : QX b) : QX (a ++ b) :=
  ⟨by rw [List.all_append, ha.1, hb.1]; rfl, ha.2.append hb.2⟩

theorem all_shB_codeTable (base : String) (cs : Clauses) : (codeTable x86Backend cs base).all shB = true := by
  obtain ⟨ls, e⟩ := codeTable_jmplns cs base
  rw [e]
  simp only [List.all_map, List.all_eq_true, Function.comp]
  exact fun _ _ => rfl

theorem pieceOps_x86 : PieceOps x86Backend QX where
  nil := pl_nil.qx
  append := QX.append
  comment := fun m => PL.qx (l := [_]) rfl
  label := fun l => ⟨rfl, tcq_of_nj rfl⟩
  table := fun l cs base => ⟨by
    show (true && (codeTable x86Backend cs base).all shB) = true
    rw [all_shB_codeTable]; rfl, tcq_table l cs base⟩
  jump := fun t => (pl_jump t).qx
  jumpLabel := fun l => ⟨rfl, tcq_of_nj rfl⟩
  jumpLabelIf := fun s a b l => by
    refine QX.append (pl_compare a b).qx ⟨?_, tcq_of_nj ?_⟩ <;> cases s <;> rfl
  jumpLabelIfZero := fun s a l => by
    refine QX.append (pl_compareImmediate a 0).qx ⟨?_, tcq_of_nj ?_⟩ <;> cases s <;> rfl
  loadImmediate := fun t n => (pl_loadImmediate t n).qx
  loadLabel := fun t l => by
    show QX (loadLabel t l)
    unfold loadLabel
    split
    · exact ⟨rfl, tcq_of_nj rfl⟩
    · exact ⟨rfl, tcq_of_nj rfl⟩
  addAndJump := fun t n => (pl_addAndJump t n).qx
  binop := fun o Γ x a b t s1 s2 hxa hxb ht h1 h2 => by
    refine (pl_binop_fresh o ?_ ?_).qx
    · intro e; subst e; exact hxa (Scc.X86.Total.x86_vt_inj ht h1).2
    · intro e; subst e; exact hxb (Scc.X86.Total.x86_vt_inj ht h2).2
  binopTemp := fun t => (pl_binop_sum (.reg TEMP) (.reg TEMP) t).qx
  mov := fun t s => (pl_mov t s).qx
  printI64 := fun nl t ctx => Post.pure (pl_printI64 nl t ctx).qx
  eraseBlock := fun t => (postMW_eraseBlock t).mono fun _ h => h.qx
  shareBlockN := fun t n => (postMW_shareBlockN t n).mono fun _ h => h.qx
  store := fun a b => (postMW_store a b).mono fun _ h => h.qx
  load := fun a b => (postMW_load a b).mono fun _ h => h.qx
  storeTemporary := fun t sp => (pl_storeTemporary t sp).qx
  restoreTemporary := fun t sp => (pl_restoreTemporary t sp).qx

/-! ## the body -/

open Scc.Props.C14Generic (LabelSafe progXtorNames)

theorem compileX86_run {p : AxCut.Prog} {hooks : Bool} {k : Nat} {body : List Code} {nargs : Nat}
    (h : compileX86 p hooks k = .ok (body, nargs)) :
    ∃ k', (compileR x86Backend hooks natRen p).run k = .ok ((body, nargs), k') := by
  unfold compileX86 at h
  cases hr : (compile x86Backend hooks p).run k with
  | error e => rw [hr] at h; cases h
  | ok r =>
    obtain ⟨⟨body', nargs'⟩, k'⟩ := r
    rw [hr] at h
    simp only [Except.ok.injEq, Prod.mk.injEq] at h
    obtain ⟨rfl, rfl⟩ := h
    exact ⟨k', hr⟩

/-- the body: every referenced label is defined in the body or is `cleanup`; shape; tables -/
theorem body_facts {p : AxCut.Prog} {hooks : Bool} {k : Nat} {body : List Code} {nargs : Nat}
    (htp : LinTypedProg p) (h : compileX86 p hooks k = .ok (body, nargs)) :
    (∀ l ∈ V.refs body, l ∈ labs body ∨ l = "cleanup") ∧ body.all shB = true ∧ TCq body := by
  obtain ⟨k', hr⟩ := compileX86_run h
  have h1 := refs_defined refOps_x86 hooks natRen p (callsDefined_of_linTyped htp) k _ k' hr
  have h2 := piece_compileR pieceOps_x86 hooks natRen p (opFresh_of_linTypedProg htp) k _ k' hr
  exact ⟨h1, h2.1, h2.2⟩

/-! ## the routine -/

theorem pl_moveArguments : ∀ (n : Nat) (codes : List Code), moveArguments n = .ok codes → PL codes
  | 0, codes, h => by simp only [moveArguments] at h; cases h; decide
  | 1, codes, h => by
    simp only [moveArguments] at h
    split at h
    · cases h; exact pl_cons.2 ⟨by decide, rfl⟩
    · cases h
  | n + 2, codes, h => by
    simp only [moveArguments] at h
    split at h
    · cases h
    · split at h
      · rename_i rest hrest
        cases h
        exact pl_append.2 ⟨pl_cons.2 ⟨by decide, rfl⟩, pl_moveArguments (n + 1) _ hrest⟩
      · cases h

theorem pl_prologue : PL prologue := by decide

theorem count_u_print : ("print_i64".toList.count '_' = 1) ∧ ("println_i64".toList.count '_' = 1) := by decide

/-- a generated label is not a runtime symbol -/
theorem R_ne_ext {l : Lbl} (hl : l ≠ .cleanup) {s : String} (hs : s = "print_i64" ∨ s = "println_i64") :
    R l ≠ s := by
  intro h
  have hl' : (Lbl.render natRen l).toList = s.toList := by rw [← h]
  cases l with
  | defn f => exact render_defn_ne (s := s) (by rcases hs with rfl | rfl <;> decide) h
  | cleanup => exact hl rfl
  | lab n =>
    have := u_not_mem_lab n
    rw [hl'] at this
    exact this (by rcases hs with rfl | rfl <;> decide)
  | base m n =>
    have := lastSeg_base m n
    rw [hl'] at this
    have h2 := toDigits_all_digit n
    rw [← this] at h2
    revert h2
    rcases hs with rfl | rfl <;> decide
  | clause m n x =>
    have := count_u_clause m n x
    have e : (R (.clause m n x)).toList = s.toList := hl'
    rw [e] at this
    revert this
    rcases hs with rfl | rfl <;> decide

theorem extsOf_append (a b : List Code) : extsOf (a ++ b) = extsOf a ++ extsOf b := by
  simp [extsOf, List.filterMap_append]

theorem extsOf_of_shB {l : List Code} (h : l.all shB = true) : extsOf l = [] := by
  unfold extsOf
  rw [List.filterMap_eq_nil_iff]
  intro c hc
  simp only [List.all_eq_true] at h
  have := h c hc
  cases c <;> first | rfl | cases this

theorem shB_of_plB {c : Code} (h : plB c = true) : shB c = true := shB_of_sjB (sjB_of_plB h)

theorem PL.all_shB {l : List Code} (h : PL l) : l.all shB = true := h.qx.1

theorem not_imulmr_of_shB {c : Code} (h : shB c = true) : ∀ b i r, c ≠ .IMULMR b i r := by
  intro b i r e; subst e; cases h

theorem call_of_shB {c : Code} (h : shB c = true) {f : String} (e : c = .CALL f) : f ∈ externals := by
  subst e
  have : externals.contains f = true := h
  simpa using this

/-- plain items refer to no label, except `call` of a runtime symbol -/
theorem ref_of_plB' {c : Code} (h : plB' c = true) {l : String} (hl : codeLabelRef c = some l) :
    l = "print_i64" ∨ l = "println_i64" := by
  cases c <;> first | (cases hl; done) | (cases h; done) | skip
  rename_i f
  cases hl
  have : externals.contains l = true := by simpa [plB', shB', iref, codeLabelDef] using h
  simpa [externals] using this

/-- neither `imul [mem], reg` nor `call` -/
def hcB : Code → Bool
  | .IMULMR _ _ _ | .CALL _ => false
  | _ => true

/-- the first seven items of the routine -/
def head7 : List Code :=
  [Code.COMMENT "asmsyntax=nasm", .NOEXECSTACK, .TEXT, .EXTERN "print_i64", .EXTERN "println_i64",
    .GLOBAL "asm_main", .LAB "asm_main"]

theorem header_eq (moves : List Code) : header moves = head7 ++ (prologue ++ moves ++ [Code.COMMENT "actual code"]) := rfl

/-- **the routine of every `LabelSafe`, linearly typed program in range satisfies `WfSpec`** -/
theorem wfSpec_routine {p : AxCut.Prog} {hooks : Bool} {k : Nat} {body routine : List Code} {nargs : Nat}
    (hsafe : LabelSafe p = true) (htp : LinTypedProg p) (hrange : ProgInRange p)
    (h : compileX86 p hooks k = .ok (body, nargs)) (hr : intoRoutine body nargs = .ok routine) :
    WfSpec routine := by
  obtain ⟨hrefs, hsh, htc⟩ := body_facts htp h
  obtain ⟨moves, hm, hshape⟩ := intoRoutine_shape hr
  have hn5 := moveArguments_le _ _ hm
  have hrt : routine = head7 ++ ((prologue ++ moves ++ [Code.COMMENT "actual code"]) ++ (body ++ cleanup)) := by
    rw [hshape]; simp [head7]
  have hplS : PL (prologue ++ moves ++ [Code.COMMENT "actual code"]) :=
    pl_append.2 ⟨pl_append.2 ⟨pl_prologue, pl_moveArguments _ _ hm⟩, by decide⟩
  generalize hS : prologue ++ moves ++ [Code.COMMENT "actual code"] = S at hrt hplS
  -- labels
  have hnodup := labels_unique_x86 hsafe h hr
  have hlabS : labs S = [] := hplS.lax.nl.labs
  have hlabs : labs routine = "asm_main" :: (labs body ++ ["cleanup"]) := by
    rw [hrt, Ref.labs_append, Ref.labs_append, Ref.labs_append, hlabS, labs_cleanup]; rfl
  have hexts : extsOf routine = ["print_i64", "println_i64"] := by
    rw [hrt, extsOf_append, extsOf_append, extsOf_append, extsOf_of_shB hplS.all_shB, extsOf_of_shB hsh]
    decide
  -- the labels of the body are not runtime symbols
  obtain ⟨k', hab, ls, els, nd, rng, hx⟩ := g_body h hsafe
  have hne : ∀ l ∈ ls, l ≠ Lbl.cleanup := by
    intro l hl e'
    subst e'
    rcases rng _ hl with h1 | h1
    · obtain ⟨d, _, e2⟩ := List.mem_map.1 h1
      cases e2
    · obtain ⟨n, hn, _⟩ := h1
      cases hn
  have hmem : ∀ c ∈ routine, c ∈ head7 ∨ c ∈ S ∨ c ∈ body ∨ c ∈ cleanup := by
    intro c hc
    rw [hrt] at hc
    simpa [List.mem_append] using hc
  have hshS := hplS.all_shB
  simp only [List.all_eq_true] at hshS hsh
  have h7 : head7.all hcB = true := by decide
  have hcl : cleanup.all hcB = true := by decide
  refine ⟨hnodup, ?_, ?_, ?_, ?_, ?_⟩
  · -- externs
    intro f hf
    rw [hexts] at hf
    have hf' : f = "print_i64" ∨ f = "println_i64" := by simpa using hf
    refine ⟨by rcases hf' with rfl | rfl <;> decide, ?_⟩
    rw [hlabs, els]
    simp only [List.mem_cons, List.mem_append, List.mem_map, List.mem_singleton, List.not_mem_nil, or_false,
      not_or, not_exists, not_and]
    refine ⟨by rcases hf' with rfl | rfl <;> decide, fun l hl e => R_ne_ext (hne l hl) hf' e,
      by rcases hf' with rfl | rfl <;> decide⟩
  · -- references
    intro c hc l hl
    rcases hmem c hc with hc | hc | hc | hc
    · -- the seven head items: `global asm_main`
      have : l = "asm_main" := by
        simp only [head7, List.mem_cons, List.not_mem_nil, or_false] at hc
        rcases hc with rfl | rfl | rfl | rfl | rfl | rfl | rfl <;> first | (cases hl; rfl) | cases hl
      subst this
      exact Or.inl (by rw [hlabs]; simp)
    · have := hplS.lax
      simp only [PL', List.all_eq_true] at this
      have hl' := ref_of_plB' (this c hc) hl
      exact Or.inr (by rw [hexts]; rcases hl' with rfl | rfl <;> decide)
    · have hs := hsh c hc
      by_cases hcall : ∃ f, c = .CALL f
      · obtain ⟨f, rfl⟩ := hcall
        cases hl
        have hl' : l = "print_i64" ∨ l = "println_i64" := by
          have : externals.contains l = true := hs
          simpa [externals] using this
        exact Or.inr (by rw [hexts]; rcases hl' with rfl | rfl <;> decide)
      · have hi : iref c = some l := by
          cases c <;> first | exact hl | cases hs | exact absurd ⟨_, rfl⟩ hcall
        have hm : l ∈ V.refs body := List.mem_filterMap.2 ⟨c, hc, hi⟩
        rw [hlabs]
        rcases hrefs l hm with h1 | h1
        · exact Or.inl (by simp [h1])
        · exact Or.inl (by simp [h1])
    · exfalso
      have : ∀ c ∈ cleanup, codeLabelRef c = none := by decide
      rw [this c hc] at hl
      cases hl
  · -- operands
    intro c hc
    rcases C14_program_operands_aux hrange h hr c hc with h1 | ⟨b, i, r, rfl⟩
    · exact h1
    · exfalso
      rcases hmem _ hc with hc | hc | hc | hc
      · exact absurd (List.all_eq_true.1 h7 _ hc) (by simp [hcB])
      · exact not_imulmr_of_shB (hshS _ hc) _ _ _ rfl
      · exact not_imulmr_of_shB (hsh _ hc) _ _ _ rfl
      · exact absurd (List.all_eq_true.1 hcl _ hc) (by simp [hcB])
  · -- calls
    intro c hc f e
    subst e
    rw [hexts]
    have key : f ∈ externals → f ∈ ["print_i64", "println_i64"] := fun h => h
    rcases hmem _ hc with hc | hc | hc | hc
    · exact absurd (List.all_eq_true.1 h7 _ hc) (by simp [hcB])
    · exact key (call_of_shB (hshS _ hc) rfl)
    · exact key (call_of_shB (hsh _ hc) rfl)
    · exact absurd (List.all_eq_true.1 hcl _ hc) (by simp [hcB])
  · -- tables
    rw [hrt]
    have t7 : TCq head7 := tcq_of_nj (by decide)
    have tc : TCq cleanup := tcq_of_nj (by decide)
    exact (t7.append (hplS.qx.2.append (htc.append tc))) false

end Scc.X86.Wf
