/-
  Scc.X86.ConcKAllFuel — EVERY AMOUNT OF MACHINE FUEL, runs that do not terminate included, ALL PROGRAMS (data
  types and closures): the port of Scc/X86/ConcAllFuel.lean and Scc/X86/ConcDataRun.lean to the closure-aware
  relation.  Composition of the progress theorem (`run3_progress`, ConcKProgress.lean), the peak-based runs
  (ConcKPeakRun.lean) and the entry (ConcKRun.lean) with the run loop.
  * `PeakHyp` — the peak hypothesis at the entry, from any source;
  * `peakFrom_of_data` — THE PEAK HYPOTHESIS FROM THE SIZE OF THE SOURCE-LEVEL DATA: at a statement boundary
    whose deferred free list is empty, the blocks in use are at most the fields of the objects of the abstract
    heap (NO GARBAGE, Scc/Heap/RefineNoGarb.lean) and these are at most the fields of the object AND CLOSURE
    nodes of the values of the environment (`Conc.valsFields`, `Conc.heapFields_le_vals`, Scc/X86/ConcData.lean:
    a closure environment is an object of the abstract heap like the fields of a constructor);
  * `programs_run_gen`, `programs_progress_gen`, `programs_prefix_gen` — the runs for any source of the peak
    hypothesis; `programs_all_fuel`, `programs_dsize_all` — every amount of machine fuel.
-/
import Scc.X86.ConcKProgress
import Scc.X86.ConcKC10
import Scc.X86.ConcDataRun

set_option linter.unusedVariables false
set_option linter.unusedSimpArgs false

namespace Scc.X86.ConcK

open Scc Scc.AxCut Scc.AxCut.Pos Scc.Backend Scc.Backend.Abs Scc.Backend.Sim Scc.Backend.Subst Scc.X86 Scc.X86.Ref
open Scc.Backend.Sim2 Scc.Backend.Keys
open Scc.Props.C14Generic (LabelSafe)
open Scc.Props.C06Generic (outAfter WithinCapacity Reachable EnoughHeap CodeFits statesOf stopsWithin)
open Scc.Heap (HState InvS InvW Exhausted)
open Scc.Heap.Refine (HRef FrLe Room FrPk heapFields live_le_heapFields)
open Scc.X86.Conc (BChain FrBound LiveLe LiveLe0 HeapShapeAt stmtSize clausesSize valsFields heapFields_le_vals
  run_eq_runState runLoop_outOfFuel runItems_mhw runItems_eq_tight withHeapBytes machOK_withHeapBytes
  sub_withHeapBytes)

theorem heapFields_trHeap (κ : Nat → Nat → Word) (h : Heap) : heapFields (K.trHeap κ h) = heapFields h := by
  unfold heapFields K.trHeap
  rw [List.map_map]
  congr 1
  apply List.map_congr_left
  intro e _
  simp [Function.comp, K.trO, K.trFs_length]

/-- THE PEAK HYPOTHESIS FROM THE SIZE OF THE SOURCE-LEVEL DATA, all programs -/
theorem peakFrom_of_data {F : Frame} {mon : MonCfg} {px : X86.Prog} {cs : List Code} {P : Program} {hooks : Bool}
    {prog : AxCut.Prog} {st : Pos.State} {X : State} {D C : Nat}
    (hD : ∀ st', Reachable prog st st' → valsFields st'.env ≤ D) :
    PeakFrom F mon px cs P hooks prog st X D C := by
  intro n XR X' st' cfg' hs' hr hn T R hC rs lin live Fr I
  obtain ⟨Γ', ι, κ, _, RX, X3h, _⟩ := R
  have h1 := live_le_heapFields X3h.href I
  rw [heapFields_trHeap] at h1
  have hord : ∀ e ∈ cfg'.heap, ∀ c ∈ e.2.children, c < e.1 := by
    intro e he c hc
    have hm : (e.1, K.trO κ e.1 e.2) ∈ K.trHeap κ cfg'.heap := K.mem_trHeap κ he
    have := X3h.href.ord _ hm c (by rw [K.trO_children]; exact hc)
    exact this
  have h2 := heapFields_le_vals RX hord
  have h3 := hD st' hr
  omega

/-! ## the runs, for any source of the peak hypothesis -/

/-- the peak hypothesis at the entry: whatever frame and first boundary the header establishes -/
def PeakHyp (p : AxCut.Prog) (hooks : Bool) (routine : List Code) (ops : List MockOp) (cfg : MonCfg)
    (items : List (Code × Nat)) (args : List Word) (d0 : Def) (Pk C : Nat) : Prop :=
  ∀ (F : Frame) (n0 : Nat) (X0 : State), F.c = cfg.mach →
    stepN cfg (mkProg cfg.mach items) n0 (initState cfg.mach args 6) = .inl X0 →
    PeakFrom F cfg (mkProg cfg.mach items) routine (Program.ofOps ops) hooks p ⟨d0.ctx, args.map .int, d0.body⟩ X0 Pk C

theorem peakHyp_of_data {p : AxCut.Prog} {hooks : Bool} {routine : List Code} {ops : List MockOp} {cfg : MonCfg}
    {items : List (Code × Nat)} {args : List Word} {d0 : Def} {D C : Nat}
    (hD : ∀ st, Reachable p ⟨d0.ctx, args.map .int, d0.body⟩ st → valsFields st.env ≤ D) :
    PeakHyp p hooks routine ops cfg items args d0 D C :=
  fun _ _ _ _ _ => peakFrom_of_data hD

theorem peakHyp_of_peakAtMost {p : AxCut.Prog} {hooks : Bool} {routine : List Code} {ops : List MockOp}
    {cfg : MonCfg} {items : List (Code × Nat)} {args : List Word} {d0 : Def} {Pk C : Nat}
    (hk : cfg.consts = consts) (hP : PeakAtMost p hooks routine ops cfg items args Pk C) :
    PeakHyp p hooks routine ops cfg items args d0 Pk C :=
  fun F n0 X0 hFc h0 => peakFrom_of_peakAtMost hk hP hFc h0 _

/-- a terminating run, on the run loop (for any source of the peak hypothesis) -/
theorem programs_run_gen (p : AxCut.Prog) (args : List Word) (hooks : Bool) (body routine : List Code)
    (nargs : Nat) (d0 : Def) (ops : List MockOp) (c' : Nat)
    (hsafe : LabelSafe p = true) (htp : LinTypedProg p) (hprog : K.ProgOK p)
    (hcompM : (compile mockSym hooks p).run 0 = .ok ((ops, nargs), c')) (hfit : CodeFits ops)
    (hcompX : compileX86 p hooks 0 = .ok (body, nargs)) (hrout : intoRoutine body nargs = .ok routine)
    (hnd : (labs routine).Nodup)
    (hd : p.defs.head? = some d0) (hentry : ∀ b ∈ d0.ctx, b.chi = .ext ∧ b.ty = .i64)
    (hcap : ∀ st, Reachable p ⟨d0.ctx, args.map .int, d0.body⟩ st → 2 * st.ctx.length ≤ 266)
    (fuel : Nat) (out : List (Bool × Word)) (v : Word) (hfuel : fuel + 1 < 2 ^ 64)
    (hrun : Pos.run p args fuel = ⟨out, .done v⟩)
    (cfg : MonCfg) (MO : MachOK cfg.mach) (hheap : cfg.heap = false)
    (hb8 : cfg.mach.heapBase % 8 = 0) (hb0 : 0 < cfg.mach.heapBase)
    (Pk A : Nat) (hA : ∀ d ∈ p.defs, K.AllocLe A d.body) (hbytes : 64 * (Pk + A + 2) ≤ cfg.mach.heapBytes)
    (items : List (Code × Nat)) (hitems : (items.map (·.1)).map stripC = routine.map stripC)
    (hfitX : addrAt cfg.mach.codeBase routine routine.length < 2 ^ 64)
    (hPH : PeakHyp p hooks routine ops cfg items args d0 Pk (A * fuel + 1)) :
    ∃ fuel', (runItems items args fuel' cfg).out = out ∧ (runItems items args fuel' cfg).res = .done v := by
  have hmem : d0 ∈ p.defs := by
    cases hdefs : p.defs with
    | nil => rw [hdefs] at hd; simp at hd
    | cons d ds => rw [hdefs] at hd; simp at hd; subst hd; simp
  have hlen : d0.ctx.length = args.length := by
    unfold Pos.run at hrun
    cases hdefs : p.defs with
    | nil => rw [hdefs] at hd; simp at hd
    | cons d ds =>
      rw [hdefs] at hd hrun
      simp only [List.head?_cons, Option.some.injEq] at hd
      subst hd
      simp only at hrun
      by_cases hl : d.ctx.length ≠ args.length
      · simp [hl] at hrun
      · omega
  have hrun' : Pos.runState p fuel ⟨d0.ctx, args.map .int, d0.body⟩ [] = ⟨out, .done v⟩ := by
    rw [← run_eq_runState hd hlen]; exact hrun
  have hc0 := hcap _ Reachable.refl
  simp only at hc0
  obtain ⟨F, pre, st0, h, n0, X0, a, En⟩ := entry_setup p args hooks body routine nargs d0 ops c' hsafe htp
    hcompM hcompX hrout hnd hd hentry hlen hc0 cfg MO hb0 (by omega) items hitems
  have hFc := En.fc
  have hfb0 : FrBound (Scc.Heap.init F.c.heapBase (F.c.heapBase + F.c.heapBytes)) (Pk + 1) :=
    frBound_init (by rw [hFc]; exact hb0) (by rw [hFc]; omega) (by omega)
  have hcb0 : FrBound (Scc.Heap.init F.c.heapBase (F.c.heapBase + F.c.heapBytes)) 1 :=
    frBound_init (by rw [hFc]; exact hb0) (by rw [hFc]; omega) (Nat.le_refl _)
  obtain ⟨⟨n, XL, g1, g2, g3⟩, _⟩ := run3_peak En.frame (by rw [hFc]; exact hb8) hFc.symm En.loaded hnd
    (by rw [hFc]; exact hfitX) En.split En.clean En.entry hooks p 0 ops nargs c' hcompM hsafe htp hfit En.defs
    hprog Pk (A * fuel + 1) A hA (by rw [hFc]; exact hbytes) fuel _ [] (initConfig a args) _ X0 X0 out v 1 En.typed
    hcap (Tol.refl _ _) En.rel (hprog.2 d0 hmem) (hA d0 hmem) (K.valAll_ints _ args) rfl
    (by rw [En.next1]; omega) hfb0 hcb0 (by omega) (hPH F n0 X0 hFc En.steps) hrun'
  have hargs : ¬ args.length > 5 := by have := En.nargs; omega
  refine ⟨n0 + (n + 1), ?_⟩
  have hrl : runItems items args (n0 + (n + 1)) cfg =
      runLoop cfg (mkProg cfg.mach items) (n0 + (n + 1)) (initState cfg.mach args 6) 0 := by
    unfold runItems
    simp only [En.main]
    rw [if_neg hargs]
  rw [hrl, runLoop_stepN hheap _ n0 (n + 1) _ _ 0 En.steps, runLoop_stepN hheap _ n 1 _ _ 0 g1]
  obtain ⟨h1, h2⟩ := runLoop_done hheap (mkProg cfg.mach items) 0 XL 0 g2
  exact ⟨by rw [h1]; exact g3, h2⟩

/-- progress from the initial state (for any source of the peak hypothesis) -/
theorem programs_progress_gen (p : AxCut.Prog) (args : List Word) (hooks : Bool) (body routine : List Code)
    (nargs : Nat) (d0 : Def) (ops : List MockOp) (c' : Nat)
    (hsafe : LabelSafe p = true) (htp : LinTypedProg p) (hprog : K.ProgOK p)
    (hcompM : (compile mockSym hooks p).run 0 = .ok ((ops, nargs), c')) (hfit : CodeFits ops)
    (hcompX : compileX86 p hooks 0 = .ok (body, nargs)) (hrout : intoRoutine body nargs = .ok routine)
    (hnd : (labs routine).Nodup)
    (hd : p.defs.head? = some d0) (hentry : ∀ b ∈ d0.ctx, b.chi = .ext ∧ b.ty = .i64)
    (hlen : d0.ctx.length = args.length)
    (hcap : ∀ st, Reachable p ⟨d0.ctx, args.map .int, d0.body⟩ st → 2 * st.ctx.length ≤ 266)
    (fuel : Nat) (hfuel : fuel + 1 < 2 ^ 64)
    (cfg : MonCfg) (MO : MachOK cfg.mach)
    (hb8 : cfg.mach.heapBase % 8 = 0) (hb0 : 0 < cfg.mach.heapBase)
    (Pk A M : Nat) (hA : ∀ d ∈ p.defs, K.AllocLe A d.body) (hM : ∀ d ∈ p.defs, stmtSize d.body ≤ M)
    (hbytes : 64 * (Pk + A + 2) ≤ cfg.mach.heapBytes)
    (items : List (Code × Nat)) (hitems : (items.map (·.1)).map stripC = routine.map stripC)
    (hfitX : addrAt cfg.mach.codeBase routine routine.length < 2 ^ 64)
    (hPH : PeakHyp p hooks routine ops cfg items args d0 Pk (A * fuel + 1))
    (out : List (Bool × Word))
    (hrun : Pos.runState p fuel ⟨d0.ctx, args.map .int, d0.body⟩ [] = ⟨out, .outOfFuel⟩)
    (N : Nat) (hN : N * (M + 1) + stmtSize d0.body ≤ fuel) :
    (mkProg cfg.mach items).labelIdx["asm_main"]? = some 6 ∧ args.length ≤ 5 ∧
    ∃ n X, N ≤ n ∧ stepN cfg (mkProg cfg.mach items) n (initState cfg.mach args 6) = .inl X := by
  have hmem : d0 ∈ p.defs := by
    cases hdefs : p.defs with
    | nil => rw [hdefs] at hd; simp at hd
    | cons d ds => rw [hdefs] at hd; simp at hd; subst hd; simp
  have hc0 := hcap _ Reachable.refl
  simp only at hc0
  obtain ⟨F, pre, st0, h, n0, X0, a, En⟩ := entry_setup p args hooks body routine nargs d0 ops c' hsafe htp
    hcompM hcompX hrout hnd hd hentry hlen hc0 cfg MO hb0 (by omega) items hitems
  have hFc := En.fc
  have hfb0 : FrBound (Scc.Heap.init F.c.heapBase (F.c.heapBase + F.c.heapBytes)) (Pk + 1) :=
    frBound_init (by rw [hFc]; exact hb0) (by rw [hFc]; omega) (by omega)
  have hcb0 : FrBound (Scc.Heap.init F.c.heapBase (F.c.heapBase + F.c.heapBytes)) 1 :=
    frBound_init (by rw [hFc]; exact hb0) (by rw [hFc]; omega) (Nat.le_refl _)
  obtain ⟨n, X, hn, hX⟩ := run3_progress En.frame (by rw [hFc]; exact hb8) hFc.symm En.loaded hnd
    (by rw [hFc]; exact hfitX) En.split En.clean En.entry hooks p 0 ops nargs c' hcompM hsafe htp hfit En.defs
    hprog Pk (A * fuel + 1) A M hA hM (by rw [hFc]; exact hbytes) fuel N _ [] (initConfig a args) _ X0 X0 out 1
    En.typed hcap (Tol.refl _ _) En.rel (hprog.2 d0 hmem) (hA d0 hmem) (K.valAll_ints _ args) (hM d0 hmem)
    (K.valAll_ints _ args) (by rw [En.next1]; omega) hfb0 hcb0 (by omega)
    (hPH F n0 X0 hFc En.steps) hrun hN
  exact ⟨En.main, En.nargs, n0 + n, X, by omega, stepN_trans cfg _ En.steps hX⟩

/-- every prefix of every run (for any source of the peak hypothesis): the chain of statement boundaries -/
theorem programs_prefix_gen (p : AxCut.Prog) (args : List Word) (hooks : Bool) (body routine : List Code)
    (nargs : Nat) (d0 : Def) (ops : List MockOp) (c' : Nat)
    (hsafe : LabelSafe p = true) (htp : LinTypedProg p) (hprog : K.ProgOK p)
    (hcompM : (compile mockSym hooks p).run 0 = .ok ((ops, nargs), c')) (hfit : CodeFits ops)
    (hcompX : compileX86 p hooks 0 = .ok (body, nargs)) (hrout : intoRoutine body nargs = .ok routine)
    (hnd : (labs routine).Nodup)
    (hd : p.defs.head? = some d0) (hentry : ∀ b ∈ d0.ctx, b.chi = .ext ∧ b.ty = .i64)
    (hlen : d0.ctx.length = args.length)
    (hcap : ∀ st, Reachable p ⟨d0.ctx, args.map .int, d0.body⟩ st → 2 * st.ctx.length ≤ 266)
    (fuel : Nat) (hfuel : fuel + 1 < 2 ^ 64)
    (cfg : MonCfg) (MO : MachOK cfg.mach)
    (hb8 : cfg.mach.heapBase % 8 = 0) (hb0 : 0 < cfg.mach.heapBase)
    (Pk A : Nat) (hA : ∀ d ∈ p.defs, K.AllocLe A d.body) (hbytes : 64 * (Pk + A + 2) ≤ cfg.mach.heapBytes)
    (items : List (Code × Nat)) (hitems : (items.map (·.1)).map stripC = routine.map stripC)
    (hfitX : addrAt cfg.mach.codeBase routine routine.length < 2 ^ 64)
    (hPH : PeakHyp p hooks routine ops cfg items args d0 Pk (A * fuel + 1)) :
    ∃ n0 X0, stepN cfg (mkProg cfg.mach items) n0 (initState cfg.mach args 6) = .inl X0 ∧
      BChain cfg (mkProg cfg.mach items) (BoundaryOf p hooks routine ops cfg)
        (statesOf p fuel ⟨d0.ctx, args.map .int, d0.body⟩) X0 := by
  have hmem : d0 ∈ p.defs := by
    cases hdefs : p.defs with
    | nil => rw [hdefs] at hd; simp at hd
    | cons d ds => rw [hdefs] at hd; simp at hd; subst hd; simp
  have hc0 := hcap _ Reachable.refl
  simp only at hc0
  obtain ⟨F, pre, st0, h, n0, X0, a, En⟩ := entry_setup p args hooks body routine nargs d0 ops c' hsafe htp
    hcompM hcompX hrout hnd hd hentry hlen hc0 cfg MO hb0 (by omega) items hitems
  have hFc := En.fc
  have hfb0 : FrBound (Scc.Heap.init F.c.heapBase (F.c.heapBase + F.c.heapBytes)) (Pk + 1) :=
    frBound_init (by rw [hFc]; exact hb0) (by rw [hFc]; omega) (by omega)
  have hcb0 : FrBound (Scc.Heap.init F.c.heapBase (F.c.heapBase + F.c.heapBytes)) 1 :=
    frBound_init (by rw [hFc]; exact hb0) (by rw [hFc]; omega) (Nat.le_refl _)
  have hch := run3_prefix En.frame (by rw [hFc]; exact hb8) hFc.symm En.loaded hnd
    (by rw [hFc]; exact hfitX) En.split En.clean En.entry hooks p 0 ops nargs c' hcompM hsafe htp hfit En.defs
    hprog Pk (A * fuel + 1) A hA (by rw [hFc]; exact hbytes) fuel _ (initConfig a args) _ X0 X0 1 En.typed hcap
    (Tol.refl _ _) En.rel (hprog.2 d0 hmem) (hA d0 hmem) (K.valAll_ints _ args) (by rw [En.next1]; omega) hfb0 hcb0
    (by omega) (hPH F n0 X0 hFc En.steps)
  exact ⟨n0, X0, En.steps, BChain.mono (fun st X ⟨X1, cfgA, hs, T, R, _⟩ => ⟨F, cfgA, hs, X1, hFc, T, R⟩) hch⟩

/-! ## every amount of machine fuel -/

/-- EVERY AMOUNT OF MACHINE FUEL (heap monitor off), all programs, for any source of the peak hypothesis: the
result of the machine on the items of the routine is `outOfFuel`, or `done v` with `v` the result of the
positional machine — provided the positional machine never gets stuck (no division by zero / overflow) -/
theorem programs_all_fuel_gen (p : AxCut.Prog) (args : List Word) (hooks : Bool) (body routine : List Code)
    (nargs : Nat) (d0 : Def) (ops : List MockOp) (c' : Nat)
    (hsafe : LabelSafe p = true) (htp : LinTypedProg p) (hprog : K.ProgOK p)
    (hcompM : (compile mockSym hooks p).run 0 = .ok ((ops, nargs), c')) (hfit : CodeFits ops)
    (hcompX : compileX86 p hooks 0 = .ok (body, nargs)) (hrout : intoRoutine body nargs = .ok routine)
    (hnd : (labs routine).Nodup)
    (hd : p.defs.head? = some d0) (hentry : ∀ b ∈ d0.ctx, b.chi = .ext ∧ b.ty = .i64)
    (hlen : d0.ctx.length = args.length)
    (hcap : ∀ st, Reachable p ⟨d0.ctx, args.map .int, d0.body⟩ st → 2 * st.ctx.length ≤ 266)
    (hnostuck : ∀ fuel w, (Pos.run p args fuel).res ≠ .stuck w)
    (cfg : MonCfg) (MO : MachOK cfg.mach) (hheap : cfg.heap = false)
    (hb8 : cfg.mach.heapBase % 8 = 0) (hb0 : 0 < cfg.mach.heapBase)
    (Pk A M : Nat) (hA : ∀ d ∈ p.defs, K.AllocLe A d.body) (hM : ∀ d ∈ p.defs, stmtSize d.body ≤ M)
    (hbytes : 64 * (Pk + A + 2) ≤ cfg.mach.heapBytes)
    (items : List (Code × Nat)) (hitems : (items.map (·.1)).map stripC = routine.map stripC)
    (hfitX : addrAt cfg.mach.codeBase routine routine.length < 2 ^ 64)
    (fuel' : Nat) (hf : fuel' * (M + 1) + stmtSize d0.body + 1 < 2 ^ 64)
    (hPH : PeakHyp p hooks routine ops cfg items args d0 Pk (A * (fuel' * (M + 1) + stmtSize d0.body) + 1)) :
    (runItems items args fuel' cfg).res = .outOfFuel ∨
      ∃ v out, Pos.run p args (fuel' * (M + 1) + stmtSize d0.body) = ⟨out, .done v⟩ ∧
        (runItems items args fuel' cfg).res = .done v := by
  have hrs := run_eq_runState hd hlen (fuel' * (M + 1) + stmtSize d0.body)
  cases hres : Pos.run p args (fuel' * (M + 1) + stmtSize d0.body) with
  | mk out res =>
  cases res with
  | stuck w => exact absurd (by rw [hres]) (hnostuck (fuel' * (M + 1) + stmtSize d0.body) w)
  | done v =>
    obtain ⟨f0, _, h2⟩ := programs_run_gen p args hooks body routine nargs d0 ops c' hsafe htp hprog
      hcompM hfit hcompX hrout hnd hd hentry hcap _ out v hf hres cfg MO hheap hb8 hb0 Pk A hA hbytes items
      hitems hfitX hPH
    rcases CC.runItems_res_of_done (items := items) (args := args) (cfg := cfg) (f0 := f0) (v := v) h2 fuel'
      with h | h
    · exact Or.inl h
    · exact Or.inr ⟨v, out, rfl, h⟩
  | outOfFuel =>
    left
    rw [hrs] at hres
    obtain ⟨hmain, hargs, n, X, hn, hX⟩ := programs_progress_gen p args hooks body routine nargs d0 ops c' hsafe htp
      hprog hcompM hfit hcompX hrout hnd hd hentry hlen hcap _ hf cfg MO hb8 hb0 Pk A M hA hM hbytes items hitems
      hfitX hPH out hres fuel' (Nat.le_refl _)
    have hargs' : ¬ args.length > 5 := by omega
    unfold runItems
    simp only [hmain]
    rw [if_neg hargs']
    exact runLoop_outOfFuel hheap _ fuel' n _ X 0 hX hn

/-- EVERY AMOUNT OF MACHINE FUEL under a bound `D` on the fields of the object and closure values of the
positional machine's environments, all programs: the machine on the items of the routine, in ANY heap of at
least `64·(D + A + 2)` bytes, ends in `outOfFuel` or in `done v` (the result of the positional machine), and
never writes above `64·(D + A + 2)` bytes of its heap -/
theorem programs_dsize_all (p : AxCut.Prog) (args : List Word) (hooks : Bool) (body routine : List Code)
    (nargs : Nat) (d0 : Def) (ops : List MockOp) (c' : Nat)
    (hsafe : LabelSafe p = true) (htp : LinTypedProg p) (hprog : K.ProgOK p)
    (hcompM : (compile mockSym hooks p).run 0 = .ok ((ops, nargs), c')) (hfit : CodeFits ops)
    (hcompX : compileX86 p hooks 0 = .ok (body, nargs)) (hrout : intoRoutine body nargs = .ok routine)
    (hnd : (labs routine).Nodup)
    (hd : p.defs.head? = some d0) (hentry : ∀ b ∈ d0.ctx, b.chi = .ext ∧ b.ty = .i64)
    (hlen : d0.ctx.length = args.length)
    (hcap : ∀ st, Reachable p ⟨d0.ctx, args.map .int, d0.body⟩ st → 2 * st.ctx.length ≤ 266)
    (hnostuck : ∀ fuel w, (Pos.run p args fuel).res ≠ .stuck w)
    (D : Nat) (hD : ∀ st, Reachable p ⟨d0.ctx, args.map .int, d0.body⟩ st → valsFields st.env ≤ D)
    (cfg : MonCfg) (MO : MachOK cfg.mach) (hheap : cfg.heap = false)
    (hb8 : cfg.mach.heapBase % 8 = 0) (hb0 : 0 < cfg.mach.heapBase)
    (A M : Nat) (hA : ∀ d ∈ p.defs, K.AllocLe A d.body) (hM : ∀ d ∈ p.defs, stmtSize d.body ≤ M)
    (hbytes : 64 * (D + A + 2) ≤ cfg.mach.heapBytes)
    (items : List (Code × Nat)) (hitems : (items.map (·.1)).map stripC = routine.map stripC)
    (hfitX : addrAt cfg.mach.codeBase routine routine.length < 2 ^ 64)
    (fuel' : Nat) (hf : fuel' * (M + 1) + stmtSize d0.body + 1 < 2 ^ 64) :
    ((runItems items args fuel' cfg).res = .outOfFuel ∨
      ∃ v out, Pos.run p args (fuel' * (M + 1) + stmtSize d0.body) = ⟨out, .done v⟩ ∧
        (runItems items args fuel' cfg).res = .done v) ∧
    (runItems items args fuel' cfg).maxHeapWritten ≤ 64 * (D + A + 2) := by
  -- the run in the heap cut down to `64·(D + A + 2)` bytes
  have MOt := machOK_withHeapBytes MO hbytes
  have hmt := runItems_mhw items args fuel' (withHeapBytes cfg (64 * (D + A + 2))) hheap
  have htight := programs_all_fuel_gen p args hooks body routine nargs d0 ops c' hsafe htp hprog hcompM hfit hcompX
    hrout hnd hd hentry hlen hcap hnostuck (withHeapBytes cfg (64 * (D + A + 2))) MOt hheap hb8 hb0 D A M hA hM
    (Nat.le_refl _) items hitems hfitX fuel' hf (peakHyp_of_data hD)
  have e := runItems_eq_tight MO hbytes hheap items args fuel' (by
    rcases htight with h | ⟨v, _, _, h⟩
    · exact Or.inl h
    · exact Or.inr ⟨v, h⟩)
  rw [e]
  exact ⟨htight, hmt⟩

end Scc.X86.ConcK
