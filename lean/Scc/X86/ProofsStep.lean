/-
  Scc.X86.ProofsStep — the bridge from `execStraight` (the form in which the Theorem-B lemmas are
  stated) to the machine's own transition function `Scc.X86.step`: if the program contains the
  instruction list at the program counter, then `step` iterated over it performs exactly the
  transitions of `execStraight`, advancing `pc` (and counting the executed instructions).
  The key fact is that `execCode` neither reads nor writes the fields `pc` and `steps`.
-/
import Scc.X86.Proofs

namespace Scc.X86

/-- overwrite the two bookkeeping fields -/
def setPS (s : State) (pc' steps' : Nat) : State := { s with pc := pc', steps := steps' }

/-- map over the state of an `execCode` result -/
def mapPS (p k : Nat) (r : M (State × Ctl)) : M (State × Ctl) :=
  match r with
  | .ok (s, ctl) => .ok (setPS s p k, ctl)
  | .error e => .error e

def mapS (p k : Nat) (r : M State) : M State :=
  match r with
  | .ok s => .ok (setPS s p k)
  | .error e => .error e

section Frame
variable (c : MachCfg) (s : State) (p k : Nat)

theorem rd_setPS (r : Reg) : rd (setPS s p k) r = rd s r := rfl
theorem rdRaw_setPS (r : Reg) : rdRaw (setPS s p k) r = rdRaw s r := rfl
theorem ea_setPS (r : Reg) (i : Int) : ea (setPS s p k) r i = ea s r i := rfl
theorem loadWordRaw_setPS (a : Word) : loadWordRaw c (setPS s p k) a = loadWordRaw c s a := rfl
theorem loadWord_setPS (a : Word) : loadWord c (setPS s p k) a = loadWord c s a := rfl
theorem readLoc_setPS (l : Loc) : readLoc c (setPS s p k) l = readLoc c s l := by cases l <;> rfl
theorem readSrc_setPS (l : Src) : readSrc c (setPS s p k) l = readSrc c s l := by
  cases l with
  | loc l => exact readLoc_setPS c s p k l
  | imm i => rfl

theorem wrRaw_setPS (r : Reg) (v : Option Word) :
    wrRaw (setPS s p k) r v = mapS p k (wrRaw s r v) := by
  unfold wrRaw
  by_cases h : r < s.regs.size
  · simp [setPS, h, mapS]
  · simp [setPS, h, mapS]

theorem wr_setPS (r : Reg) (v : Word) : wr (setPS s p k) r v = mapS p k (wr s r v) :=
  wrRaw_setPS s p k r (some v)

theorem storeWordRaw_setPS (a : Word) (v : Option Word) :
    storeWordRaw c (setPS s p k) a v = mapS p k (storeWordRaw c s a v) := by
  unfold storeWordRaw
  by_cases h1 : a.toNat % 8 ≠ 0
  · simp [h1, mapS]
  · by_cases h2 : inHeap c a.toNat = true
    · cases v <;> simp [setPS, h1, h2, mapS]
    · by_cases h3 : inStack c a.toNat = true
      · simp [setPS, h1, h2, h3, mapS]
      · simp [setPS, h1, h2, h3, mapS]

theorem storeWord_setPS (a : Word) (v : Word) :
    storeWord c (setPS s p k) a v = mapS p k (storeWord c s a v) := storeWordRaw_setPS c s p k a (some v)

theorem writeLoc_setPS (l : Loc) (v : Word) :
    writeLoc c (setPS s p k) l v = mapS p k (writeLoc c s l v) := by
  cases l with
  | r r => exact wr_setPS s p k r v
  | m b d =>
    simp only [writeLoc, ea_setPS]
    cases ea s b d with
    | error e => rfl
    | ok a => exact storeWord_setPS c s p k a v

theorem alu_setPS (op : Word → Word → Word) (dst : Loc) (src : Src) :
    alu c op (setPS s p k) dst src = mapS p k (alu c op s dst src) := by
  simp only [alu, readLoc_setPS, readSrc_setPS]
  cases readLoc c s dst with
  | error e => rfl
  | ok a =>
    cases readSrc c s src with
    | error e => rfl
    | ok b =>
      simp only [writeLoc_setPS]
      cases writeLoc c s dst (op a b) with
      | error e => rfl
      | ok s1 => rfl

theorem cmpOp_setPS (a : Loc) (b : Src) :
    cmpOp c (setPS s p k) a b = mapS p k (cmpOp c s a b) := by
  simp only [cmpOp, readLoc_setPS, readSrc_setPS]
  cases readLoc c s a with
  | error e => rfl
  | ok x =>
    cases readSrc c s b with
    | error e => rfl
    | ok y => rfl

theorem idivOp_setPS (src : Loc) :
    idivOp c (setPS s p k) src = mapS p k (idivOp c s src) := by
  simp only [idivOp, rd_setPS, readLoc_setPS]
  cases rd s 4 with
  | error e => rfl
  | ok a =>
    cases rd s 5 with
    | error e => rfl
    | ok d =>
      cases readLoc c s src with
      | error e => rfl
      | ok b =>
        simp only
        by_cases h1 : d ≠ (if a.slt 0 then BitVec.ofInt 64 (-1) else 0)
        · rw [if_pos h1, if_pos h1]; rfl
        · rw [if_neg h1, if_neg h1]
          by_cases h2 : b = 0
          · rw [if_pos h2, if_pos h2]; rfl
          · rw [if_neg h2, if_neg h2]
            by_cases h3 : (a = minInt64 && b = BitVec.ofInt 64 (-1)) = true
            · rw [if_pos h3, if_pos h3]; rfl
            · rw [if_neg h3, if_neg h3]
              simp only [wr_setPS]
              cases wr s 4 (a.sdiv b) with
              | error e => rfl
              | ok s1 =>
                simp only [mapS, wr_setPS]
                cases wr s1 5 (a.srem b) with
                | error e => rfl
                | ok s2 => rfl

theorem seqNext_mapS (r : M State) : seqNext (mapS p k r) = mapPS p k (seqNext r) := by
  cases r <;> rfl

theorem jcc_setPS (cond : Word → Word → Bool) (l : String) :
    jcc (setPS s p k) cond l = mapPS p k (jcc s cond l) := by
  unfold jcc
  show (match s.flags with
    | none => Except.error "read-undefined flags"
    | some (a, b) => Except.ok (setPS s p k, if cond a b then Ctl.jumpLabel l else Ctl.next)) = _
  cases s.flags with
  | none => rfl
  | some ab => obtain ⟨a, b⟩ := ab; rfl

/-- `execCode` neither reads nor writes `pc` and `steps`. -/
theorem execCode_setPS (la : String → Option Nat) (code : Code) :
    execCode c la code (setPS s p k) = mapPS p k (execCode c la code s) := by
  cases code <;>
    simp only [execCode, alu_setPS, cmpOp_setPS, idivOp_setPS, seqNext_mapS, jcc_setPS, rd_setPS,
      rdRaw_setPS, ea_setPS, loadWordRaw_setPS, readLoc_setPS]
  case IMULMR => rfl
  case CQO =>
    cases rd s 4 with
    | error e => rfl
    | ok a => simp only [wr_setPS, seqNext_mapS]
  case JMP r =>
    cases rd s r with
    | error e => rfl
    | ok a => rfl
  case JMPL l => rfl
  case JMPLN l => rfl
  case LEAL r l =>
    cases la l with
    | none => rfl
    | some a => simp only [wr_setPS, seqNext_mapS]
  case MOV r r1 =>
    cases rdRaw s r1 with
    | error e => rfl
    | ok v => simp only [wrRaw_setPS, seqNext_mapS]
  case MOVS r r1 i =>
    cases rdRaw s r with
    | error e => rfl
    | ok v =>
      cases ea s r1 i with
      | error e => rfl
      | ok a => simp only [storeWordRaw_setPS, seqNext_mapS]
  case MOVL r r1 i =>
    cases ea s r1 i with
    | error e => rfl
    | ok a =>
      simp only
      cases loadWordRaw c s a with
      | error e => rfl
      | ok v => simp only [wrRaw_setPS, seqNext_mapS]
  case MOVI r i =>
    split
    · simp only [wr_setPS, seqNext_mapS]
    · rfl
  case MOVIM r i1 i2 =>
    cases imm32 i2 with
    | error e => rfl
    | ok v => simp only [writeLoc_setPS, seqNext_mapS]
  case PUSH r =>
    cases rdRaw s r with
    | error e => rfl
    | ok v =>
      cases rd s 0 with
      | error e => rfl
      | ok sp =>
        simp only [storeWordRaw_setPS]
        cases storeWordRaw c s (sp - 8) v with
        | error e => rfl
        | ok s1 =>
          simp only [mapS, wr_setPS]
          cases wr s1 0 (sp - 8) <;> rfl
  case POP r =>
    cases rd s 0 with
    | error e => rfl
    | ok sp =>
      simp only
      cases loadWordRaw c s sp with
      | error e => rfl
      | ok v =>
        simp only [wr_setPS]
        cases wr s 0 (sp + 8) with
        | error e => rfl
        | ok s1 =>
          simp only [mapS, wrRaw_setPS]
          cases wrRaw s1 r v <;> rfl
  all_goals rfl

end Frame

theorem setPS_self (s : State) : setPS s s.pc s.steps = s := rfl

/-- `execCode` leaves `pc` and `steps` alone -/
theorem execCode_pc_steps {c : MachCfg} {la : String → Option Nat} {code : Code} {s s1 : State} {ctl : Ctl}
    (h : execCode c la code s = .ok (s1, ctl)) : s1.pc = s.pc ∧ s1.steps = s.steps := by
  have := execCode_setPS c s s.pc s.steps la code
  rw [setPS_self, h] at this
  simp only [mapPS, Except.ok.injEq, Prod.mk.injEq, and_true] at this
  have h1 : s1.pc = (setPS s1 s.pc s.steps).pc := by rw [← this]
  have h2 : s1.steps = (setPS s1 s.pc s.steps).steps := by rw [← this]
  exact ⟨h1, h2⟩

theorem execStraight_setPS (c : MachCfg) (la : String → Option Nat) (codes : List Code) (s : State)
    (p k : Nat) : execStraight c la codes (setPS s p k) = mapS p k (execStraight c la codes s) := by
  induction codes generalizing s with
  | nil => rfl
  | cons code rest ih =>
    simp only [execStraight, execCode_setPS]
    cases execCode c la code s with
    | error e => rfl
    | ok r =>
      obtain ⟨s1, ctl⟩ := r
      cases ctl <;> simp only [mapPS, ih] <;> rfl

/-- `n` transitions of the machine (`Sum.inr` = the run ended) -/
def stepN (m : MonCfg) (p : Prog) : Nat → State → State ⊕ Res
  | 0, s => .inl s
  | n + 1, s =>
    match step m p s with
    | .inl s1 => stepN m p n s1
    | .inr r => .inr r

/-- number of real instructions (labels, comments, directives have size 0 and are not counted) -/
def realCount (codes : List Code) : Nat := (codes.filter (fun code => codeSize code ≠ 0)).length

/-- one fall-through transition -/
theorem step_next {m : MonCfg} {p : Prog} {s s1 : State} {code : Code}
    (hf : p.code[s.pc]? = some code)
    (hx : execCode m.mach p.labelAddr code s = .ok (s1, .next)) :
    step m p s = .inl (setPS s1 (s.pc + 1) (s.steps + (if codeSize code = 0 then 0 else 1))) := by
  obtain ⟨_, hst⟩ := execCode_pc_steps hx
  unfold step
  simp only [hf, hx]
  by_cases h0 : codeSize code = 0
  · simp only [h0, if_true, Nat.add_zero, setPS, ← hst]
  · simp only [h0, if_false, setPS, hst]

/-- THE BRIDGE: if the program has `codes` at `pc`, the machine's `step` function iterated
    `codes.length` times does what `execStraight` does, with `pc` advanced past the list. -/
theorem steps_straight (m : MonCfg) (p : Prog) (codes : List Code) (s s' : State)
    (hcode : ∀ i (h : i < codes.length), p.code[s.pc + i]? = some codes[i])
    (hx : execStraight m.mach p.labelAddr codes s = .ok s') :
    stepN m p codes.length s = .inl (setPS s' (s.pc + codes.length) (s.steps + realCount codes)) := by
  induction codes generalizing s s' with
  | nil =>
    simp only [execStraight, Except.ok.injEq] at hx
    subst hx
    rfl
  | cons code rest ih =>
    simp only [execStraight] at hx
    cases hc : execCode m.mach p.labelAddr code s with
    | error e => simp [hc] at hx
    | ok r =>
      obtain ⟨s1, ctl⟩ := r
      cases ctl <;> simp only [hc] at hx <;> try cases hx
      have hf : p.code[s.pc]? = some code := by
        have := hcode 0 (by simp)
        rw [List.getElem_cons_zero] at this
        simpa using this
      have hstep := step_next hf hc
      simp only [List.length_cons, stepN, hstep]
      have hx' : execStraight m.mach p.labelAddr rest
          (setPS s1 (s.pc + 1) (s.steps + (if codeSize code = 0 then 0 else 1))) =
          .ok (setPS s' (s.pc + 1) (s.steps + (if codeSize code = 0 then 0 else 1))) := by
        rw [execStraight_setPS, hx]; rfl
      have := ih (setPS s1 (s.pc + 1) (s.steps + (if codeSize code = 0 then 0 else 1)))
        (setPS s' (s.pc + 1) (s.steps + (if codeSize code = 0 then 0 else 1))) (by
        intro i hi
        have := hcode (i + 1) (by simpa using hi)
        simp only [List.getElem_cons_succ] at this
        rw [← this]
        simp only [setPS]
        congr 1; omega) hx'
      rw [this]
      congr 1
      simp only [setPS, realCount, List.filter_cons]
      by_cases h0 : codeSize code = 0
      · simp [h0]; omega
      · simp [h0]; omega

end Scc.X86
