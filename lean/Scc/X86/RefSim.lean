/-
  Scc.X86.RefSim — Theorem B (x86-64), heap-free instructions: every step of the abstract backend
  machine on an instruction `op` is simulated by the x86-64 SPEC machine on the rendering of `op`
  (`OpRel`), re-establishing the representation relation `RepX86` (RefDefs.lean).
  Part 1 (this file): the state-level lemmas, one per abstract instruction
  (`execStraight` / `execSeq` / `execCode` of the rendering from a represented state).
-/
import Scc.X86.RefBridge
import Scc.Backend.ProofsSim
import Scc.Backend.ProofsPM

set_option linter.unusedVariables false
set_option linter.unusedSimpArgs false

namespace Scc.X86.Ref

open Scc.AxCut Scc.Backend Scc.Backend.Abs Scc.Backend.Sim Scc.X86 Scc.Backend.PM

/-! ## the frame -/

/-- sanity of the frame: the configuration, the entry `rsp` (8 mod 16, System V), room for the
    callee-save area, the spill area and the pushes of the print sequence -/
structure FrameOK (F : Frame) : Prop where
  cfg : CfgOK F.c
  m16 : F.m % 16 = 8
  low : F.c.stackLow + 2168 ≤ F.m
  high : F.m ≤ F.c.stackTop

theorem FrameOK.spN_lt {F : Frame} (H : FrameOK F) : F.spN < 2 ^ 64 := by
  have := H.cfg.top; have := H.high; unfold Frame.spN; omega

theorem FrameOK.sp_toNat {F : Frame} (H : FrameOK F) : F.sp.toNat = F.spN := by
  unfold Frame.sp
  simp [BitVec.toNat_ofNat, Nat.mod_eq_of_lt H.spN_lt]

theorem FrameOK.spOK {F : Frame} (H : FrameOK F) : SpOK F.c F.sp := by
  have h1 := H.low; have h2 := H.high; have h3 := H.m16
  have e : F.sp.toNat = F.spN := H.sp_toNat
  have e2 : F.spN = F.m - 2096 := rfl
  refine ⟨H.cfg, ?_, ?_, ?_⟩
  · rw [e, e2]; omega
  · rw [e, e2]; omega
  · rw [e, e2]; omega

/-- spill slots lie below the callee-save area -/
theorem FrameOK.slot_lt {F : Frame} (H : FrameOK F) (p : Nat) : slotAddr F.sp p < F.m - 48 := by
  have h1 := H.low
  have e : F.sp.toNat = F.spN := H.sp_toNat
  have e2 : F.spN = F.m - 2096 := rfl
  unfold slotAddr
  rw [e, e2]
  omega

/-! ## what `Preserved` preserves -/

theorem tempOK_ne_of_slot {sp : Word} {p q : Nat} (hp : p < 256) (hq : q < 256) (h : p ≠ q) :
    slotAddr sp p ≠ slotAddr sp q := fun e => h ((slotAddr_inj hp hq).1 e)

/-- a temporary other than the target and TEMP keeps its contents -/
theorem _root_.Scc.X86.Preserved.temp {sp : Word} {st st' : State} {u : Option Temporary} (P : Preserved sp st st' u)
    {w : Temporary} (hw : OpndOK w) (hT : w ≠ .reg TEMP) (hne : some w ≠ u)
    (hu : ∀ p, u = some (.spill p) → p < 256) :
    tempVal sp st' w = tempVal sp st w := by
  cases w with
  | reg r =>
    simp only [tempVal]
    rw [P.regs r hw.2 (fun e => hT (by rw [e])) hne]
  | spill q =>
    simp only [tempVal]
    rw [P.mem]
    intro p hp
    have hq : q < 256 := hw
    exact tempOK_ne_of_slot hq (hu p hp) (fun e => hne (by rw [hp, e]))

theorem _root_.Scc.X86.Preserved.frame {F : Frame} (H : FrameOK F) {st st' : State} {u : Option Temporary}
    (P : Preserved F.sp st st' u) : ∀ n, F.m - 48 ≤ n → st'.stackMem[n]? = st.stackMem[n]? := by
  intro n hn
  apply P.mem
  intro p _ e
  have := H.slot_lt p
  omega

theorem tempOK_posW {t : Nat} (h : PosW t) : TempOK (posTemp t) := tempOK_posTemp h.2

theorem posTemp_ne_ret1 {t : Nat} (h : PosW t) : posTemp t ≠ .reg RETURN1 := by
  unfold posTemp
  have := h.1
  split
  · intro e; injection e with e; simp [RETURN1_eq] at e; omega
  · intro e; cases e

theorem posTemp_ne_spill0 {t : Nat} (h : t < 267) : posTemp t ≠ .spill SPILL_TEMP := by
  have := tempOK_posTemp h
  intro e; rw [e] at this
  have := this.1
  simp [SPILL_TEMP, consts] at this

theorem opndOK_scratchLoc (b : Bool) : OpndOK (scratchLoc b) := by
  cases b
  · exact opndOK_temp
  · show (SPILL_TEMP : Nat) < 256
    decide

/-! ## the abstract machine: inversion of one step -/

theorem getT_next {σ : Temps} {t : Nat} {k : Word → StepRes} {c' : Config}
    (h : getT σ t k = .next c') : ∃ v, σ.get t = some v ∧ k v = .next c' := by
  unfold getT at h
  cases hv : σ.get t with
  | none => simp [hv, stuck] at h
  | some v => simp only [hv] at h; exact ⟨v, rfl, h⟩

theorem getT_done {σ : Temps} {t : Nat} {k : Word → StepRes} {w : Word}
    (h : getT σ t k = .halt (.done w)) : ∃ v, σ.get t = some v ∧ k v = .halt (.done w) := by
  unfold getT at h
  cases hv : σ.get t with
  | none => simp [hv, stuck] at h
  | some v => simp only [hv] at h; exact ⟨v, rfl, h⟩

theorem posW_ne_temp {t : Nat} (h : PosW t) : t ≠ Mock.T_TEMP := by
  have := h.2; unfold Mock.T_TEMP; omega

theorem posW_ne_ret1 {t : Nat} (h : PosW t) : t ≠ Mock.T_RET1 := by
  have := h.2; unfold Mock.T_RET1; omega

theorem evalOp_of_evalBinOp {o : BinOp} {a b v : Word} (h : Abs.evalBinOp o a b = .ok v) :
    Pos.evalOp o a b = .ok v := by
  cases o with
  | sum => simp only [Abs.evalBinOp] at h; cases h; rfl
  | sub => simp only [Abs.evalBinOp] at h; cases h; rfl
  | prod => simp only [Abs.evalBinOp] at h; cases h; rfl
  | div =>
    simp only [Abs.evalBinOp, beq_iff_eq, Bool.and_eq_true, Abs.minWord] at h
    split at h
    · cases h
    · split at h
      · cases h
      · cases h
        rename_i hb ho
        have ho' : ¬ (a = Pos.minInt ∧ b = -1) := ho
        simp only [Pos.evalOp, if_neg hb, if_neg ho']
  | rem =>
    simp only [Abs.evalBinOp, beq_iff_eq, Bool.and_eq_true, Abs.minWord] at h
    split at h
    · cases h
    · split at h
      · cases h
      · cases h
        rename_i hb ho
        have ho' : ¬ (a = Pos.minInt ∧ b = -1) := ho
        simp only [Pos.evalOp, if_neg hb, if_neg ho']

section Ops

variable {F : Frame} (H : FrameOK F) {la : String → Option Nat} {cfg : Config} {st : State}
include H

/-- the generic re-establishment after an instruction that writes one position temporary -/
theorem RepX86.write (R : RepX86 F .normal cfg st) {st' : State} {t : Nat} (ht : PosW t)
    {v : Word} (B' : Boundary F.c st' F.sp) (hv : tempVal F.sp st' (posTemp t) = some v)
    (P : Preserved F.sp st st' (some (posTemp t))) {pc' : Nat} :
    RepX86 F .normal { cfg with pc := pc', temps := (clobberTemp cfg.temps).set t v } st' := by
  have hok := tempOK_posW ht
  have hlt : ∀ p, some (posTemp t) = some (Temporary.spill p) → p < 256 := by
    intro p e; injection e with e; rw [e] at hok; exact hok.2
  refine ⟨B', ?_, ?_, ?_, ?_, ?_⟩
  · intro t' v' ht' hg
    by_cases e : t' = t
    · subst e
      rw [get_set_same] at hg
      cases hg; exact hv
    · simp only at hg
      rw [get_set_other _ _ e, get_clobberTemp _ (posW_ne_temp ht')] at hg
      rw [P.temp (tempOK_posW ht').opnd (tempOK_posW ht').ne_temp
        (fun e' => e (posTemp_inj.1 (by injection e'))) hlt]
      exact R.temps t' v' ht' hg
  · intro v' hg
    simp only at hg
    rw [get_set_other _ _ (posW_ne_ret1 ht).symm, get_clobberTemp _ (by decide)] at hg
    exact absurd (R.ret v' hg).1 (by simp)
  · intro b hb; cases hb
  · rw [P.same.out]; exact R.out
  · intro n hn
    rw [P.frame H n hn]; exact R.frame n hn

/-- `li` -/
theorem rep_li (R : RepX86 F .normal cfg st) {t : Nat} (ht : PosW t) {imm : Int}
    (h64 : fitsI64 imm = true) :
    ∃ st', execStraight F.c la (loadImmediate (posTemp t) imm) st = .ok st' ∧
      RepX86 F .normal
        { cfg with pc := cfg.pc + 1, temps := (clobberTemp cfg.temps).set t (BitVec.ofInt 64 imm) } st' := by
  obtain ⟨st', e, B', hv, P⟩ := loadImmediate_correct (la := la) R.bnd (tempOK_posW ht) h64
  exact ⟨st', e, R.write H ht B' hv P⟩

/-- `add / sub / mul / div / rem` -/
theorem rep_binop (R : RepX86 F .normal cfg st) {o : BinOp} {t a b : Nat} (ht : PosW t) (ha : PosW a)
    (hb : PosW b) (hta : t ≠ a) (htb : t ≠ b) (h3 : 3 ≤ t) {va vb v : Word}
    (hva : cfg.temps.get a = some va) (hvb : cfg.temps.get b = some vb)
    (hev : Abs.evalBinOp o va vb = .ok v) :
    ∃ st', execStraight F.c la (binop o (posTemp t) (posTemp a) (posTemp b)) st = .ok st' ∧
      RepX86 F .normal { cfg with pc := cfg.pc + 1, temps := (clobberTemp cfg.temps).set t v } st' := by
  have D : DivPlacement (posTemp t) (posTemp a) (posTemp b) := by
    refine ⟨tempOK_posW ht, tempOK_posW ha, tempOK_posW hb, fun e => hta (posTemp_inj.1 e),
      fun e => htb (posTemp_inj.1 e), ?_, ?_, ?_⟩
    · have := posTemp_ne_ret1 ht; simpa [RETURN1_eq] using this
    · unfold posTemp
      split
      · intro e; injection e with e; omega
      · intro e; cases e
    · have := posTemp_ne_ret1 hb; simpa [RETURN1_eq] using this
  obtain ⟨st', e, B', hv, P⟩ := binop_correct (la := la) R.bnd o D (R.temps a va ha hva)
    (R.temps b vb hb hvb) (evalOp_of_evalBinOp hev)
  exact ⟨st', e, R.write H ht B' hv P⟩


/-- after an instruction that changes nothing but TEMP and the flags -/
theorem RepX86.keep (R : RepX86 F .normal cfg st) {st' : State} (B' : Boundary F.c st' F.sp)
    (P : Preserved F.sp st st' none) {pc' : Nat} :
    RepX86 F .normal { cfg with pc := pc', temps := clobberTemp cfg.temps } st' := by
  refine ⟨B', ?_, ?_, ?_, ?_, ?_⟩
  · intro t' v' ht' hg
    simp only at hg
    rw [get_clobberTemp _ (posW_ne_temp ht')] at hg
    rw [P.temp (tempOK_posW ht').opnd (tempOK_posW ht').ne_temp (by simp) (by simp)]
    exact R.temps t' v' ht' hg
  · intro v' hg
    simp only at hg
    rw [get_clobberTemp _ (by decide)] at hg
    exact absurd (R.ret v' hg).1 (by simp)
  · intro b hb; cases hb
  · rw [P.same.out]; exact R.out
  · intro n hn
    rw [P.frame H n hn]; exact R.frame n hn

omit H in
theorem ifSortHolds_eq (c : IfSort) (a b : Word) : ifSortHolds c a b = Abs.evalCond c a b := by
  cases c <;> rfl

/-- `jif`: the comparison, then the conditional jump decides as the abstract machine does -/
theorem rep_jif (R : RepX86 F .normal cfg st) {c : IfSort} {a b : Nat} (ha : PosW a) (hb : PosW b)
    {va vb : Word} (hva : cfg.temps.get a = some va) (hvb : cfg.temps.get b = some vb) (l : String)
    (pc' : Nat) :
    ∃ st', execStraight F.c la (compare (posTemp a) (posTemp b)) st = .ok st' ∧
      RepX86 F .normal { cfg with pc := pc', temps := clobberTemp cfg.temps } st' ∧
      execCode F.c la (condJump c l) st' =
        .ok (st', if Abs.evalCond c va vb then .jumpLabel l else .next) := by
  obtain ⟨st', e, B', hf, P⟩ := compare_correct (la := la) R.bnd (tempOK_posW ha) (tempOK_posW hb)
    (R.temps a va ha hva) (R.temps b vb hb hvb)
  refine ⟨st', e, R.keep H B' P, ?_⟩
  rw [condJump_correct F.c la c l st' hf, ifSortHolds_eq]

/-- `jifz` -/
theorem rep_jifz (R : RepX86 F .normal cfg st) {c : IfSort} {a : Nat} (ha : PosW a)
    {va : Word} (hva : cfg.temps.get a = some va) (l : String) (pc' : Nat) :
    ∃ st', execStraight F.c la (compareImmediate (posTemp a) 0) st = .ok st' ∧
      RepX86 F .normal { cfg with pc := pc', temps := clobberTemp cfg.temps } st' ∧
      execCode F.c la (condJump c l) st' =
        .ok (st', if Abs.evalCond c va 0 then .jumpLabel l else .next) := by
  obtain ⟨st', e, B', hf, P⟩ := compareImmediate_correct (la := la) R.bnd (tempOK_posW ha) (i := 0)
    (by decide) (R.temps a va ha hva)
  refine ⟨st', e, R.keep H B' P, ?_⟩
  have hf' : st'.flags = some (va, 0) := by rw [hf]; rfl
  rw [condJump_correct F.c la c l st' hf', ifSortHolds_eq]

/-- `mov RET1 s` (exit.rs): rax := the result -/
theorem rep_movRet (R : RepX86 F .normal cfg st) {s : Nat} (hs : PosW s) (pc' : Nat) :
    ∃ st', execStraight F.c la (mov (.reg RETURN1) (posTemp s)) st = .ok st' ∧
      RepX86 F .exit
        { cfg with pc := pc', temps := (clobberTemp cfg.temps).put Mock.T_RET1 (cfg.temps.get s) } st' := by
  have hr : TempOK (.reg RETURN1) := ⟨by decide, by decide⟩
  obtain ⟨st', e, B', hv, P⟩ := mov_correct (la := la) R.bnd hr (tempOK_posW hs)
  have hlt : ∀ p, some (Temporary.reg RETURN1) = some (Temporary.spill p) → p < 256 := by
    intro p e; cases e
  refine ⟨st', e, B', ?_, ?_, ?_, ?_, ?_⟩
  · intro t' v' ht' hg
    simp only at hg
    rw [get_put_other _ _ (posW_ne_ret1 ht'), get_clobberTemp _ (posW_ne_temp ht')] at hg
    rw [P.temp (tempOK_posW ht').opnd (tempOK_posW ht').ne_temp
      (fun e' => posTemp_ne_ret1 ht' (by injection e')) hlt]
    exact R.temps t' v' ht' hg
  · intro v' hg
    simp only at hg
    rw [get_put_same] at hg
    exact ⟨rfl, by rw [hv]; exact R.temps s v' hs hg⟩
  · intro b hb; cases hb
  · rw [P.same.out]; exact R.out
  · intro n hn
    rw [P.frame H n hn]; exact R.frame n hn

/-! ### parallel moves: `mov`, `save`, `restore` -/

omit H in
/-- `mov t s` between two position temporaries; when not both are spill slots TEMP is untouched -/
theorem mov_keeps_temp {c : MachCfg} {sp : Word} {st : State} (B : Boundary c st sp) {t s : Temporary}
    (ht : TempOK t) (hs : TempOK s) (hns : ¬ (isSpill t = true ∧ isSpill s = true)) :
    ∃ st', execStraight c la (mov t s) st = .ok st' ∧ Boundary c st' sp ∧
      tempVal sp st' t = tempVal sp st s ∧ Preserved sp st st' (some t) ∧
      tempVal sp st' (.reg TEMP) = tempVal sp st (.reg TEMP) := by
  have hx : texecList la (mov t s) (tview sp st) = some ((tview sp st).set t ((tview sp st).val s)) := by
    cases s with
    | reg rs => simp only [mov]; exact t_moveFromRegister hs.opnd ht.opnd
    | spill ps =>
      cases t with
      | reg rt => simp only [mov]; exact t_moveToRegister ht.opnd hs.opnd
      | spill pt => exact absurd ⟨rfl, rfl⟩ hns
  obtain ⟨st', e, B', hvals, _, P⟩ := transfer B la hx (t := some t)
    (fun u hne _ => by simp only [TState.set_val]; rw [if_neg (fun e => hne (by rw [e]))]; rfl)
  refine ⟨st', e, B', ?_, P, ?_⟩
  · rw [hvals t ht.opnd]; simp [tview]
  · rw [hvals _ opndOK_temp]
    simp only [TState.set_val]
    rw [if_neg (fun e => ht.ne_temp e.symm)]; rfl

omit H in
theorem posW_put_others (R : RepX86 F g cfg st) {st' : State} {t : Nat} (ht : PosW t)
    (P : Preserved F.sp st st' (some (posTemp t))) (x : Option Word) :
    ∀ t' v', PosW t' → t' ≠ t → ((clobberTemp cfg.temps).put t x).get t' = some v' →
      tempVal F.sp st' (posTemp t') = some v' := by
  intro t' v' ht' hne hg
  have hok := tempOK_posW ht
  have hlt : ∀ p, some (posTemp t) = some (Temporary.spill p) → p < 256 := by
    intro p e; injection e with e; rw [e] at hok; exact hok.2
  rw [get_put_other _ _ hne, get_clobberTemp _ (posW_ne_temp ht')] at hg
  rw [P.temp (tempOK_posW ht').opnd (tempOK_posW ht').ne_temp
    (fun e' => hne (posTemp_inj.1 (by injection e'))) hlt]
  exact R.temps t' v' ht' hg

/-- `mov t s` of parallel moves, in every mode -/
theorem rep_mov {g : Mode} (R : RepX86 F g cfg st) {t s : Nat} (ht : PosW t) (hs : PosW s)
    (hns : g = .pm false → ¬ (isSpill (posTemp t) = true ∧ isSpill (posTemp s) = true)) (pc' : Nat) :
    ∃ st', execStraight F.c la (mov (posTemp t) (posTemp s)) st = .ok st' ∧
      RepX86 F g { cfg with pc := pc', temps := (clobberTemp cfg.temps).put t (cfg.temps.get s) } st' := by
  have hok := tempOK_posW ht
  have hlt : ∀ p, some (posTemp t) = some (Temporary.spill p) → p < 256 := by
    intro p e; injection e with e; rw [e] at hok; exact hok.2
  have key : ∃ st', execStraight F.c la (mov (posTemp t) (posTemp s)) st = .ok st' ∧
      Boundary F.c st' F.sp ∧ tempVal F.sp st' (posTemp t) = tempVal F.sp st (posTemp s) ∧
      Preserved F.sp st st' (some (posTemp t)) ∧
      (g = .pm false → tempVal F.sp st' (.reg TEMP) = tempVal F.sp st (.reg TEMP)) := by
    by_cases hg : g = .pm false
    · obtain ⟨st', e, B', hv, P, hT⟩ := mov_keeps_temp (la := la) R.bnd hok (tempOK_posW hs) (hns hg)
      exact ⟨st', e, B', hv, P, fun _ => hT⟩
    · obtain ⟨st', e, B', hv, P⟩ := mov_correct (la := la) R.bnd hok (tempOK_posW hs)
      exact ⟨st', e, B', hv, P, fun h => absurd h hg⟩
  obtain ⟨st', e, B', hv, P, hT⟩ := key
  refine ⟨st', e, B', ?_, ?_, ?_, ?_, ?_⟩
  · intro t' v' ht' hg
    by_cases e' : t' = t
    · subst e'
      simp only at hg
      rw [get_put_same] at hg
      rw [hv]; exact R.temps s v' hs hg
    · exact posW_put_others R ht P _ t' v' ht' e' hg
  · intro v' hg
    simp only at hg
    rw [get_put_other _ _ (posW_ne_ret1 ht).symm, get_clobberTemp _ (by decide)] at hg
    obtain ⟨h1, h2⟩ := R.ret v' hg
    refine ⟨h1, ?_⟩
    rw [P.temp (w := .reg RETURN1) ⟨by decide, by decide⟩ (by decide)
      (fun e' => posTemp_ne_ret1 ht (by injection e' with e'; exact e'.symm)) hlt]
    exact h2
  · intro b hb w hw
    cases b with
    | true =>
      rw [P.temp (w := scratchLoc true) (opndOK_scratchLoc true) (by simp [scratchLoc])
        (fun e' => posTemp_ne_spill0 ht.2 (by injection e' with e'; exact e'.symm)) hlt]
      exact R.scratch true hb w hw
    | false =>
      show tempVal F.sp st' (.reg TEMP) = some w
      rw [hT hb]
      exact R.scratch false hb w hw
  · rw [P.same.out]; exact R.out
  · intro n hn
    rw [P.frame H n hn]; exact R.frame n hn

omit H in
theorem storeTemporary_eq (t : Temporary) (b : Bool) : storeTemporary t b = mov (scratchLoc b) t := by
  cases t <;> cases b <;> rfl

omit H in
theorem restoreTemporary_true_eq (t : Temporary) : restoreTemporary t true = mov t (scratchLoc true) := by
  cases t <;> rfl

omit H in
theorem restoreTemporary_false_eq (t : Temporary) :
    restoreTemporary t false = moveFromRegister t TEMP := by
  cases t <;> rfl

/-- `save t`: the scratch cell := t (TEMP or the reserved slot SPILL_TEMP) -/
theorem rep_save {g : Mode} (R : RepX86 F g cfg st) {t : Nat} (ht : PosW t) (b : Bool)
    (hg : g = .normal ∨ g = .pm b) (pc' : Nat) :
    ∃ st', execStraight F.c la (storeTemporary (posTemp t) b) st = .ok st' ∧
      RepX86 F (.pm b)
        { cfg with pc := pc', temps := clobberTemp cfg.temps, scratch := cfg.temps.get t } st' := by
  have hok := tempOK_posW ht
  have hso := opndOK_scratchLoc b
  obtain ⟨st', e, B', hv, P⟩ := transfer_upd R.bnd la hso
    (t_mov (la := la) (τ := tview F.sp st) hso hok.opnd hok.ne_temp)
  have hlt : ∀ p, some (scratchLoc b) = some (Temporary.spill p) → p < 256 := by
    intro p e'; injection e' with e'
    cases b <;> simp [scratchLoc] at e'
    subst e'; decide
  have hne : ∀ {u : Nat}, u < 267 → some (posTemp u) ≠ some (scratchLoc b) := by
    intro u hu e'
    injection e' with e'
    cases b
    · exact (tempOK_posTemp hu).ne_temp e'
    · exact posTemp_ne_spill0 hu e'
  refine ⟨st', by rw [storeTemporary_eq]; exact e, B', ?_, ?_, ?_, ?_, ?_⟩
  · intro t' v' ht' hg'
    simp only at hg'
    rw [get_clobberTemp _ (posW_ne_temp ht')] at hg'
    rw [P.temp (tempOK_posW ht').opnd (tempOK_posW ht').ne_temp (hne ht'.2) hlt]
    exact R.temps t' v' ht' hg'
  · intro v' hg'
    simp only at hg'
    rw [get_clobberTemp _ (by decide)] at hg'
    have := (R.ret v' hg').1
    rcases hg with h | h <;> rw [h] at this <;> cases this
  · intro b' hb' w hw
    injection hb' with hb'
    subst hb'
    simp only at hw
    show tempVal F.sp st' (scratchLoc b) = some w
    rw [hv]
    exact R.temps t w ht hw
  · rw [P.same.out]; exact R.out
  · intro n hn
    rw [P.frame H n hn]; exact R.frame n hn

/-- `restore t`: t := the scratch cell -/
theorem rep_restore (b : Bool) (R : RepX86 F (.pm b) cfg st) {t : Nat} (ht : PosW t) (pc' : Nat) :
    ∃ st', execStraight F.c la (restoreTemporary (posTemp t) b) st = .ok st' ∧
      RepX86 F .normal { cfg with pc := pc', temps := (clobberTemp cfg.temps).put t cfg.scratch } st' := by
  have hok := tempOK_posW ht
  have hlt : ∀ p, some (posTemp t) = some (Temporary.spill p) → p < 256 := by
    intro p e; injection e with e; rw [e] at hok; exact hok.2
  have key : ∃ st', execStraight F.c la (restoreTemporary (posTemp t) b) st = .ok st' ∧
      Boundary F.c st' F.sp ∧ tempVal F.sp st' (posTemp t) = tempVal F.sp st (scratchLoc b) ∧
      Preserved F.sp st st' (some (posTemp t)) := by
    cases b with
    | true =>
      rw [restoreTemporary_true_eq]
      exact transfer_upd R.bnd la hok.opnd
        (t_mov (la := la) (τ := tview F.sp st) hok.opnd (opndOK_scratchLoc true) (by simp [scratchLoc]))
    | false =>
      rw [restoreTemporary_false_eq]
      refine transfer_upd R.bnd la hok.opnd ⟨_, t_moveFromRegister opndOK_temp hok.opnd, ?_, ?_⟩
      · simp [scratchLoc, tview]
      · intro u hu _; simp [hu]
  obtain ⟨st', e, B', hv, P⟩ := key
  refine ⟨st', e, B', ?_, ?_, ?_, ?_, ?_⟩
  · intro t' v' ht' hg
    by_cases e' : t' = t
    · subst e'
      simp only at hg
      rw [get_put_same] at hg
      rw [hv]; exact R.scratch b rfl v' hg
    · exact posW_put_others R ht P _ t' v' ht' e' hg
  · intro v' hg
    simp only at hg
    rw [get_put_other _ _ (posW_ne_ret1 ht).symm, get_clobberTemp _ (by decide)] at hg
    exact absurd (R.ret v' hg).1 (by simp)
  · intro b' hb'; cases hb'
  · rw [P.same.out]; exact R.out
  · intro n hn
    rw [P.frame H n hn]; exact R.frame n hn


/-- `print`: the caller-save dance around the external call keeps every live word part -/
theorem rep_print (R : RepX86 F .normal cfg st) {nl : Bool} {s : Nat} (hs : PosW s) (ctx : Ctx)
    (hlive : s < 2 * ctx.length) {v : Word} (hv : cfg.temps.get s = some v) (pc' : Nat) :
    ∃ st', execSeq F.c la (printI64 nl (posTemp s) ctx) st = .ok st' ∧
      RepX86 F .normal { cfg with pc := pc', temps := keepPositions cfg.temps ctx.length,
                                  out := (nl, v) :: cfg.out } st' := by
  have h1 := H.low; have h2 := H.high; have h3 := H.m16
  have e2 : F.spN = F.m - 2096 := rfl
  have hspe : F.sp = BitVec.ofNat 64 F.spN := rfl
  obtain ⟨st', e, ho, K⟩ := print_preserves_machine (la := la) H.cfg nl ctx (posTemp s) (tempOK_posW hs)
    (by
      intro r hr
      unfold posTemp at hr
      split at hr
      · injection hr with hr; omega
      · cases hr)
    R.bnd.size (m := F.spN) (by rw [← hspe]; exact R.bnd.rsp) (by rw [e2]; omega) (by rw [e2]; omega)
    (by rw [e2]; omega) (x := v) (by rw [← hspe]; exact R.temps s v hs hv)
  refine ⟨st', e, ⟨K.size, by rw [K.rsp]; exact R.bnd.rsp, R.bnd.sp⟩, ?_, ?_, ?_, ?_, ?_⟩
  · intro t' v' ht' hg
    simp only at hg
    rw [get_keepPositions] at hg
    split at hg
    · rename_i hlt
      have hold := R.temps t' v' ht' hg
      obtain ⟨i, hi⟩ : ∃ i, t' = 2 * i + 1 := ⟨t' / 2, by have := ht'.1; omega⟩
      subst hi
      have hi : i < ctx.length := by omega
      unfold posTemp at hold ⊢
      by_cases hr : 2 * i + 1 + 4 < 16
      · rw [if_pos hr] at hold ⊢
        simp only [tempVal] at hold ⊢
        have := K.snd i ctx[i] (by simp [hi]) (by omega)
        rw [show 2 * i + 1 + 4 = 2 * i + 5 by omega]
        rw [show 2 * i + 1 + 4 = 2 * i + 5 by omega] at hold
        rw [this]; exact hold
      · rw [if_neg hr] at hold ⊢
        simp only [tempVal] at hold ⊢
        rw [K.mem _ (by simp only [slotAddr, H.sp_toNat]; omega)]
        exact hold
    · cases hg
  · intro v' hg
    simp only at hg
    rw [get_keepPositions] at hg
    split at hg
    · exact absurd (R.ret v' hg).1 (by simp)
    · cases hg
  · intro b hb; cases hb
  · rw [ho, R.out]
  · intro n hn
    rw [K.mem n (by rw [e2]; omega)]; exact R.frame n hn

end Ops

end Scc.X86.Ref
