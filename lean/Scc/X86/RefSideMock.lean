/-
  Scc.X86.RefSideMock — SIDE HYPOTHESES of the x86-64 run theorems (C06), part 1: the MOCK code generator
  succeeds on every linearly typed program with at least one definition (`mock_compile_ok`): the mock backend
  is a `TotalBackend` without any capacity error (its numbering of temporaries is unbounded), so the
  totality theorem of the generic generator (Scc/Backend/TotalGen.lean) applies.
-/
import Scc.Backend.TotalGen
import Scc.Backend.ProofsSubst

namespace Scc.X86.Ref

open Scc Scc.AxCut Scc.AxCut.Pos Scc.Backend Scc.Backend.Total Scc.Backend.Sim Scc.Backend.Subst

theorem mock_isVT {n : TempNum} {Γ : Ctx} {id t : Nat} (h : IsVT mockSym n Γ id t) :
    ∃ pos, posOf Γ id = some pos ∧ t = 2 * pos + n.toNat := by
  obtain ⟨c, k, h⟩ := h
  obtain ⟨pos, hp, ht, _⟩ := (vt_run_ok n Γ id c t k).1 h
  rw [ctxPosition_eq_posOf] at hp
  exact ⟨pos, hp, ht.symm⟩

/-- the mock backend is total: no error at all, for contexts of every length -/
theorem mock_total : TotalBackend mockSym (fun _ => False) (fun _ => True) where
  fits_mono := fun _ _ => trivial
  tempEq_iff := fun a b => by
    show (a == b) = true ↔ a = b
    simp
  vt_total := fun n Γ id hmem _ => by
    obtain ⟨b, hb, hid⟩ := hmem
    have hs := posOf_isSome_of_mem hb
    rw [hid, ← ctxPosition_eq_posOf] at hs
    show Tot _ (Mock.variableTemporary n Γ id)
    unfold Mock.variableTemporary
    cases hp : Mock.ctxPosition Γ id with
    | none => rw [hp] at hs; cases hs
    | some pos => exact Tot.pure _
  vt_inj := fun {Γ n n' id id' t} h h' => by
    obtain ⟨p, hp, e⟩ := mock_isVT h
    obtain ⟨p', hp', e'⟩ := mock_isVT h'
    have hpp : p = p' := by cases n <;> cases n' <;> simp only [TempNum.toNat] at e e' <;> omega
    subst hpp
    obtain ⟨hi, h1⟩ := posOf_getElem hp
    obtain ⟨_, h2⟩ := posOf_getElem hp'
    refine ⟨?_, h1.symm.trans h2⟩
    cases n <;> cases n' <;> simp only [TempNum.toNat] at e e' <;> first | rfl | omega
  vt_det := fun {Γ n id t t'} h h' => by
    obtain ⟨p, hp, e⟩ := mock_isVT h
    obtain ⟨p', hp', e'⟩ := mock_isVT h'
    rw [hp] at hp'
    injection hp' with hp'
    subst hp'
    rw [e, e']
  printI64 := fun _ _ _ _ => Tot.pure _
  eraseBlock := fun _ => Tot.pure _
  shareBlockN := fun _ _ => Tot.pure _
  store := fun _ _ _ => Tot.pure _
  load := fun _ _ _ => Tot.pure _

/-- SIDE HYPOTHESIS (1): the mock code generator succeeds on every linearly typed program with at least one
definition, from every value of the label counter -/
theorem mock_compile_ok (hooks : Bool) (p : Prog) (htp : LinTypedProg p) (hne : p.defs ≠ []) (c : Nat) :
    ∃ ops nargs c', (compile mockSym hooks p).run c = .ok ((ops, nargs), c') := by
  have h := compile_resOk mock_total hooks p htp hne trivial c
  cases hr : (compile mockSym hooks p).run c with
  | error e => rw [hr] at h; exact absurd h id
  | ok r =>
    obtain ⟨⟨ops, nargs⟩, c'⟩ := r
    exact ⟨ops, nargs, c', rfl⟩

end Scc.X86.Ref
