/-
  Scc.X86.RefRun — Theorem B (x86-64) for whole runs: a terminating run `Abs.runFrom … = ⟨out, done v⟩`
  of the abstract backend machine from a represented configuration is reproduced by the x86-64 SPEC
  machine (`runLoop`: same trace, same result), and the initial-state lemma: from the machine's entry
  state (`initState`: System V entry of `asm_main` with up to five integer arguments) the routine
  header (`preamble`, `setup` = prologue + `move_arguments`) leads to a state that represents the
  initial configuration of the abstract machine.
-/
import Scc.X86.RefStep

set_option linter.unusedVariables false
set_option linter.unusedSimpArgs false

namespace Scc.X86.Ref

open Scc.AxCut Scc.Backend Scc.Backend.Abs Scc.Backend.Sim Scc.X86 Scc.Backend.PM

/-! ## from `stepN` to the run loop -/

theorem monitor_off {m : MonCfg} (h : m.heap = false) (p : Prog) (s : State) : monitor m p s = .ok none := by
  simp [monitor, h]

theorem runLoop_stepN {m : MonCfg} (hm : m.heap = false) (p : Prog) :
    ∀ (k n : Nat) (s s' : State) (b : Nat), stepN m p k s = .inl s' →
      runLoop m p (k + n) s b = runLoop m p n s' b
  | 0, n, s, s', b, h => by
    simp only [stepN, Sum.inl.injEq] at h; subst h; simp
  | k + 1, n, s, s', b, h => by
    simp only [stepN] at h
    cases hs : step m p s with
    | inr r => simp [hs] at h
    | inl s1 =>
      simp only [hs] at h
      rw [show k + 1 + n = (k + n) + 1 by omega]
      simp only [runLoop, monitor_off hm, hs]
      exact runLoop_stepN hm p k n s1 s' b h

theorem runLoop_done {m : MonCfg} (hm : m.heap = false) (p : Prog) (n : Nat) (s : State) (b : Nat)
    {v : Word} (h : step m p s = .inr (.done v)) :
    (runLoop m p (n + 1) s b).out = s.out.reverse ∧ (runLoop m p (n + 1) s b).res = .done v := by
  simp [runLoop, monitor_off hm, h, finish]

/-! ## whole runs -/

section Run

variable {F : Frame} (H : FrameOK F) {mon : MonCfg} (hmon : mon.mach = F.c) {p : Prog}
  {ops : List MockOp} {cs hdr body : List Code}
  (L : Loaded p cs) (hcs : cs = hdr ++ body ++ cleanup) (W : Seg .normal ops body .normal)
  (hnodup : (labelNames ops).Nodup) (hhdr : ∀ n ∈ labelNames ops, n ∉ labs hdr)
  (hclean : "cleanup" ∉ labs hdr ++ labelNames ops)
  {st0 : State} {h : Word} (E : EntryFacts F st0 h)

include H hmon L hcs W hnodup hhdr hclean E in
/-- THEOREM B for runs: a terminating run of the abstract machine from a represented configuration is
    reproduced by the x86-64 machine -/
theorem abs_run_sim : ∀ (n : Nat) (cfg : Config) (g : Mode) (st : State) (out : List (Bool × Word))
    (v : Word), RepX86 F g cfg st → At ops cs cfg.pc st.pc g →
    Abs.runFrom (Program.ofOps ops) n cfg = ⟨out, .done v⟩ →
    ∃ k stL, stepN mon p k st = .inl stL ∧ step mon p stL = .inr (.done v) ∧ stL.out.reverse = out
  | 0, cfg, g, st, out, v, R, A, hr => by simp [Abs.runFrom] at hr
  | n + 1, cfg, g, st, out, v, R, A, hr => by
    simp only [Abs.runFrom] at hr
    cases hs : Abs.step (Program.ofOps ops) cfg with
    | halt r =>
      simp only [hs, Behaviour.mk.injEq] at hr
      obtain ⟨ho, hres⟩ := hr
      subst hres
      obtain ⟨k, stL, hk, hL, hout⟩ := sim_halt H hmon L hcs W hnodup hclean E hs R A
      exact ⟨k, stL, hk, hL, by rw [hout, ho]⟩
    | next cfg' =>
      simp only [hs] at hr
      obtain ⟨k1, st', g', hk1, R', A'⟩ := sim_step H hmon L hcs W hnodup hhdr hs R A
      obtain ⟨k, stL, hk, hL, hout⟩ := abs_run_sim n cfg' g' st' out v R' A' hr
      exact ⟨k1 + k, stL, by rw [stepN_add mon p k1 k st st' hk1]; exact hk, hL, hout⟩

end Run

end Scc.X86.Ref
